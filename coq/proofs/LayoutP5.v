(* C01 / C09: structural induction over renderable trees (nested lists), basic facts about smin /
   wrappable, and examples that the structural minimum is tight. *)
From RichModel Require Import Prelude Cells Segments Ratio Frames Layout SpecLayout.
From RichModel Require Table Wrap.
From RichProofs Require Import LayoutP.
From Coq Require Import ZifyBool.

Section RInd.
Variable P : R -> Prop.
Hypothesis HTxt : forall s j ov nw, P (Txt s j ov nw).
Hypothesis HPad : forall c t r b l ex, P c -> P (Pad c t r b l ex).
Hypothesis HPanel : forall c o, P c -> P (Panel c o).
Hypothesis HAlign : forall c how pad w, P c -> P (Align c how pad w).
Hypothesis HConstrain : forall c w, P c -> P (Constrain c w).
Hypothesis HStyled : forall c, P c -> P (Styled c).
Hypothesis HGroup : forall cs fit, Forall P cs -> P (Group cs fit).
Hypothesis HRule : forall title chars how, P (Rule title chars how).
Hypothesis HBar : forall size b e w, P (Bar size b e w).
Hypothesis HPBar : forall total completed w pulse t, P (PBar total completed w pulse t).
Hypothesis HTbl : forall t rows, Forall (Forall P) rows -> P (Tbl t rows).
Hypothesis HCols : forall items o, Forall P items -> P (Cols items o).
Hypothesis HTree : forall lab kids ex, P lab -> Forall P kids -> P (Tree lab kids ex).
Hypothesis HNoMeasure : forall c, P c -> P (NoMeasure c).
Hypothesis HCast : forall c, P c -> P (Cast c).

Fixpoint R_ind2 (r : R) : P r :=
  let fix go (l : list R) : Forall P l :=
    match l with [] => Forall_nil P | x :: l' => Forall_cons x (R_ind2 x) (go l') end in
  let fix gos (l : list (list R)) : Forall (Forall P) l :=
    match l with [] => Forall_nil _ | x :: l' => Forall_cons x (go x) (gos l') end in
  match r with
  | Txt s j ov nw => HTxt s j ov nw
  | Pad c t rr b l ex => HPad c t rr b l ex (R_ind2 c)
  | Panel c o => HPanel c o (R_ind2 c)
  | Align c how pad w => HAlign c how pad w (R_ind2 c)
  | Constrain c w => HConstrain c w (R_ind2 c)
  | Styled c => HStyled c (R_ind2 c)
  | Group cs fit => HGroup cs fit (go cs)
  | Rule title chars how => HRule title chars how
  | Bar size b e w => HBar size b e w
  | PBar total completed w pulse t => HPBar total completed w pulse t
  | Tbl t rows => HTbl t rows (gos rows)
  | Cols items o => HCols items o (go items)
  | Tree lab kids ex => HTree lab kids ex (R_ind2 lab) (go kids)
  | NoMeasure c => HNoMeasure c (R_ind2 c)
  | Cast c => HCast c (R_ind2 c)
  end.
End RInd.

Lemma maxl_ge (l : list Z) x : In x l -> x <= maxl l.
Proof. induction l as [|y l IH]; intros H; [destruct H|]. cbn [maxl fold_right]. fold (maxl l). destruct H as [->|H]; [lia|specialize (IH H); lia]. Qed.

Lemma maxl_nonneg (l : list Z) : 0 <= maxl l.
Proof. induction l as [|y l IH]; cbn [maxl fold_right]; [lia|fold (maxl l); lia]. Qed.

(* ---------------------------------------------------------------- the structural minimum is tight *)
Definition cf0 (w : Z) : cfg := mkCfg w true.
Definition widest (r : res (list line)) : Z :=
  match r with Ok ls => maxl (map line_len ls) | _ => -1 end.
Definition lit_t (s : string) : R := Txt (lit s) None None None.

(* a bordered two-column table with the default cell padding: smin = 3 borders + 2 * (2 padding + 1) = 9;
   at 9 every line is exactly 9 cells and every character is shown; at 8 the second column is left with
   its padding only and its character is lost; below 3 borders + 2 columns the table overflows *)
Definition tb2 : R :=
  Tbl (mkTblSpec (Table.mkOpts true true false false false 0 (0, 1, 0, 1) false true false None None)
                 (Some 3) [] [] [default_col; default_col] [false])
      [[lit_t "a"; lit_t "c"]].
Definition texts (r : res (list line)) : list str := match r with Ok l => map line_text l | _ => [] end.
Example smin_table_tight :
  smin tb2 = 9 /\ wrappable tb2 = true /\ widest (render (cf0 9) tb2 ro0 9) = 9
  /\ nth 1 (texts (render (cf0 9) tb2 ro0 9)) [] = [9474; 32; 97; 32; 9474; 32; 99; 32; 9474]
  /\ nth 1 (texts (render (cf0 8) tb2 ro0 8)) [] = [9474; 32; 97; 32; 9474; 32; 32; 9474]
  /\ widest (render (cf0 4) tb2 ro0 4) = 5.
Proof. vm_compute. repeat split; reflexivity. Qed.

(* a titled panel: 2 borders + 2 title rule cells + 1 title character = 5; at 4 the top row is still 4
   cells but the title character is lost; at 3 the top row overflows *)
Definition pn1 : R := Panel (lit_t "x") (mkPanel 3 true false false (lit "T") 1 true None (0, 0, 0, 0) None None).
Example smin_panel_tight :
  smin pn1 = 5 /\ wrappable pn1 = true /\ widest (render (cf0 5) pn1 ro0 5) = 5 /\ widest (render (cf0 3) pn1 ro0 3) = 4.
Proof. vm_compute. repeat split; reflexivity. Qed.

(* double-width content needs two cells: at 1 the character is replaced by a space (content lost) *)
Example smin_wide_tight :
  smin (Txt [12354] None None None) = 2
  /\ render (cf0 2) (Txt [12354] None None None) ro0 2 = Ok [[mkSeg [12354] None false]]
  /\ texts (render (cf0 1) (Txt [12354] None None None) ro0 1) = [[]; [SP]].
Proof. vm_compute. repeat split; reflexivity. Qed.

(* padding: left + right + the child's minimum; one cell less and the child gets no room at all *)
Example smin_padding_tight :
  smin (Pad (lit_t "a") 0 2 0 1 true) = 4
  /\ map line_text (match render (cf0 4) (Pad (lit_t "a") 0 2 0 1 true) ro0 4 with Ok l => l | _ => [] end) = [lit " a  "]
  /\ render (cf0 3) (Pad (lit_t "a") 0 2 0 1 true) ro0 3 = Ok [].
Proof. vm_compute. repeat split; reflexivity. Qed.

(* ---------------------------------------------------------------- known finding: ProgressBar inside a group
   ProgressBar.__rich_console__ ends without a new line (Bar, Rule, Text, every frame end with one), so the
   next renderable of a RenderGroup continues the bar's line.  Both children are inside the option domain;
   only `all_but_last ends_nl` (a ProgressBar must be last in its group) excludes the group. *)
Definition pb_group : R := Group [PBar 100 100 None false 0; Txt (lit "x") None None None] true.
Theorem group_progress_bar_refuted :
  smin pb_group = 1 /\ forallb wrappable [PBar 100 100 None false 0; Txt (lit "x") None None None] = true
  /\ wrappable pb_group = false
  /\ exists lines, render (cf0 10) pb_group ro0 10 = Ok lines /\ map line_len lines = [11]
                   /\ fits_b 10 (map line_text lines) = false.
Proof.
  split; [vm_compute; reflexivity|]. split; [vm_compute; reflexivity|]. split; [vm_compute; reflexivity|].
  eexists. split; [vm_compute; reflexivity|]. split; vm_compute; reflexivity.
Qed.

(* ---------------------------------------------------------------- a column min_width is re-imposed after the collapse
   Table(Column(min_width=10), "b", "c", box=None, padding=0) with the row ("a", "b"*12, "c"*12) at W = 24: the collapse
   levels the three columns to 8 + 8 + 8 like any others, the re-measure clamps the first back up to 10, and the table
   is 26 cells wide although 24 >= smin = 10 + 1 + 1.  A column with min_width is not "free to wrap" below that width
   (`col_ok` excludes it); this witness shows the exclusion is necessary. *)
Definition col_minw_tbl : R :=
  Tbl (mkTblSpec (Table.mkOpts false true true false false 0 (0, 0, 0, 0) false true false None None) None [] []
                 [mkColSpec [] [] Wrap.J_LEFT Wrap.OV_ELLIPSIS false None (Some 10) None None;
                  mkColSpec (lit "b") [] Wrap.J_LEFT Wrap.OV_ELLIPSIS false None None None None;
                  mkColSpec (lit "c") [] Wrap.J_LEFT Wrap.OV_ELLIPSIS false None None None None] [false])
      [[lit_t "a"; lit_t "bbbbbbbbbbbb"; lit_t "cccccccccccc"]].
Theorem column_min_width_refuted :
  smin col_minw_tbl = 12 /\ wrappable col_minw_tbl = false
  /\ exists lines, render (cf0 24) col_minw_tbl ro0 24 = Ok lines /\ map line_len lines = [26; 26]
                   /\ fits_b 24 (map line_text lines) = false.
Proof.
  split; [vm_compute; reflexivity|]. split; [vm_compute; reflexivity|].
  eexists. split; [vm_compute; reflexivity|]. split; vm_compute; reflexivity.
Qed.
