(* C17 lemmas, part 5: the path without line numbers (console.render of the highlighted Text):
   line for line the source lines, cropped or wrapped to the code width; a line_range is applied by
   rich only through its end (highlight stops there), so at least the lines up to the end are shown. *)
From RichModel Require Import Prelude Cells Segments Syntax SpecSyntax.
From RichProofs Require Import CellsP SegmentsP SyntaxP SyntaxP2 SyntaxW SyntaxG SyntaxP3.
From Coq Require Import ZifyBool Lia.

Lemma ends_nl_cons c x : x <> [] -> ends_nl (c :: x) = ends_nl x.
Proof. destruct x; [congruence|reflexivity]. Qed.
Lemma ends_nl_nonempty x : ends_nl x = true -> x <> [].
Proof. destruct x; [discriminate|discriminate]. Qed.

Lemma ends_nl_take_lines s : forall m, (1 <= m <= nls s)%nat -> ends_nl (take_lines s m) = true.
Proof.
  induction s as [|c r IH]; intros m Hm; [cbn [nls] in Hm; lia|].
  cbn [nls] in Hm. destruct m as [|m']; [lia|]. cbn [take_lines]. destruct (c =? NL) eqn:E.
  - destruct m' as [|m'']; [rewrite take_lines_0; cbn [ends_nl]; exact E|].
    assert (H : ends_nl (take_lines r (S m'')) = true) by (apply IH; lia).
    rewrite ends_nl_cons by (apply ends_nl_nonempty; exact H). exact H.
  - assert (H : ends_nl (take_lines r (S m')) = true) by (apply IH; lia).
    rewrite ends_nl_cons by (apply ends_nl_nonempty; exact H). exact H.
Qed.

(* the lines of a text after remove_suffix, against the lines of the whole code *)
Lemma split_remove_suffix c :
  exists rest, split_nl c = split_nl (remove_suffix_nl c) ++ rest /\ forallb blank rest = true.
Proof.
  unfold remove_suffix_nl. destruct (ends_nl c) eqn:E.
  - exists [[]]. split; [|reflexivity]. rewrite (ends_nl_shape c E) at 1. apply split_nl_snoc.
  - exists []. rewrite app_nil_r. split; reflexivity.
Qed.

Lemma split_remove_suffix_take c m : (1 <= m <= nls c)%nat ->
  split_nl (remove_suffix_nl (take_lines c m)) = firstn m (split_nl c) /\
  length (firstn m (split_nl c)) = m.
Proof.
  intros Hm. pose proof (ends_nl_take_lines c m Hm) as E. unfold remove_suffix_nl. rewrite E.
  pose proof (split_nl_take_lines c m) as Hs. replace (m <=? nls c)%nat with true in Hs by (symmetry; apply Nat.leb_le; lia).
  rewrite (ends_nl_shape _ E) in Hs at 1. rewrite split_nl_snoc in Hs.
  apply app_inj_tail in Hs as [Hs _]. split; [exact Hs|].
  rewrite firstn_length, split_nl_length. lia.
Qed.

Lemma is_prefix_app a b : is_prefix a (a ++ b) = true.
Proof. induction a as [|x a IH]; [reflexivity|]. cbn [app is_prefix]. rewrite Z.eqb_refl, IH. reflexivity. Qed.

Lemma uns_blank_lines rest : forallb blank rest = true -> uns (concat rest) = [].
Proof.
  induction rest as [|l rest IH]; [reflexivity|]. cbn [forallb concat]. intros H. apply andb_true_iff in H as [Hl Hr].
  rewrite uns_app, (IH Hr), app_nil_r. clear -Hl. unfold blank in Hl. induction l as [|c r IH]; [reflexivity|].
  cbn [forallb] in Hl. apply andb_true_iff in Hl as [Hc Hl]. unfold is_sp in Hc. assert (c = SP) by lia. subst.
  unfold uns, Wrap.nonspace in *. cbn [filter]. rewrite is_space_SP. exact (IH Hl).
Qed.

Section Plain.
Variable lex : str -> list (Z * str).
Variable wrapf : str -> Z -> bool -> list str.
Hypothesis HLex : LexOk (f_lex fixed_facts) lex.
Hypothesis HWrap : WrapOk wrapf.

Lemma check_plain_ok cw pad lim : 0 <= cw -> forall D rest i,
  (forallb blank rest = true \/ exists e, lim = Some e /\ e <= i + zlen D) ->
  check_plain cw (D ++ rest) (map (fun l => crop_line l cw pad) D) i lim = true.
Proof.
  intros Hcw. induction D as [|l D IH]; intros rest i H.
  - cbn [app map]. destruct rest as [|r rest]; [reflexivity|]. cbn [check_plain].
    destruct H as [H|[e [-> He]]]; [rewrite H; reflexivity|].
    unfold zlen in He. cbn [length] in He. replace (e <=? i) with true by lia. apply orb_true_r.
  - cbn [app map check_plain]. rewrite crop_line_ok by exact Hcw. cbn [andb]. apply IH.
    destruct H as [H|[e [-> He]]]; [left; exact H|right]. exists e. split; [reflexivity|].
    unfold zlen in *. cbn [length] in He. lia.
Qed.

Lemma wrapped_concat o cw D : 2 <= cw -> o_word_wrap o = true -> Forall nlfree D ->
  uns (concat (concat (map (wrapped_lines wrapf o cw) D))) = uns (concat D) /\
  forallb (fun l => cell_len (rstrip_sp l) <=? cw) (concat (map (wrapped_lines wrapf o cw) D)) = true.
Proof.
  intros Hcw Hww. induction 1 as [|l D Hl HD [IH1 IH2]]; [split; reflexivity|].
  cbn [map concat]. rewrite concat_app, !uns_app, forallb_app, IH1, IH2.
  unfold wrapped_lines. rewrite Hww.
  pose proof (HWrap l cw (negb (o_transparent o)) Hcw Hl) as H. unfold wrap_ok_b in H.
  apply andb_true_iff in H as [H _]. apply andb_true_iff in H as [H1 H2]. apply str_eqb_eq in H1.
  rewrite H1, H2. split; reflexivity.
Qed.

(* Without line numbers *)
Theorem render_plain_spec o code W n m :
  clean code = true -> o_line_numbers o = false -> opts_ok o (code_width_of o code W) ->
  exists out, render lex fixed_facts wrapf o code W = Ok out /\ check_render n m true o code W out = true.
Proof.
  intros Hclean Hln [_ [Hre [Hcw [Hww _]]]].
  unfold render, check_render, source_lines. set (c := expandtabs (o_tab_size o) code).
  assert (Hc : clean c = true) by (apply clean_expandtabs_go; exact Hclean).
  destruct (highlight_text lex (o_lexer_found o) c (o_range o) HLex Hc) as [t [Ht Hshape]].
  rewrite Ht. cbn [bind]. rewrite Hln. cbn [negb].
  eexists. split; [reflexivity|].
  assert (Hcw' : spec_code_width o code W = code_width_of o code W).
  { unfold spec_code_width, code_width_of, numbers_column_width. rewrite Hln. destruct (o_code_width o); lia. }
  rewrite Hcw'. set (cw := code_width_of o code W) in *.
  set (D := split_nl (remove_suffix_nl t)).
  (* the displayed lines are a prefix of the source lines: all but blank final lines, or (with a
     range) the first m >= end of them *)
  assert (HD : exists rest, split_nl c = D ++ rest /\
                 (forallb blank rest = true \/ exists a e, o_range o = Some (a, e) /\ e <= zlen D)).
  { unfold D. destruct Hshape as [Hs|[a [e [m0 [Hr [Hm1 [Hem Hs]]]]]]].
    - rewrite Hs. destruct (split_remove_suffix c) as [rest [H1 H2]]. exists rest. split; [exact H1|left; exact H2].
    - rewrite Hs. destruct (Nat.le_gt_cases m0 (nls c)) as [Hle|Hgt].
      + destruct (split_remove_suffix_take c m0 ltac:(lia)) as [H1 H2]. rewrite H1.
        exists (skipn m0 (split_nl c)). split; [symmetry; apply firstn_skipn|right].
        exists a, e. split; [exact Hr|]. unfold zlen. rewrite H2. lia.
      + rewrite take_lines_all by lia. destruct (split_remove_suffix c) as [rest [H1 H2]].
        exists rest. split; [exact H1|left; exact H2]. }
  destruct HD as [rest [HP HR]]. rewrite HP.
  assert (HnD : Forall nlfree D).
  { pose proof (split_nl_nlfree c) as H. rewrite HP in H. apply Forall_app in H. apply H. }
  destruct (o_word_wrap o) eqn:Eww.
  - destruct (wrapped_concat o cw D (Hww eq_refl) Eww HnD) as [H1 H2]. rewrite H2, andb_true_r.
    rewrite H1, concat_app, uns_app.
    destruct (o_range o) as [[a e]|]; [apply is_prefix_app|].
    destruct HR as [HR|[a [e [Hr _]]]]; [|discriminate].
    rewrite (uns_blank_lines rest HR), app_nil_r. apply str_eqb_refl.
  - assert (Hmap : concat (map (wrapped_lines wrapf o cw) D) = map (fun l => crop_line l cw (negb (o_transparent o))) D).
    { unfold wrapped_lines. rewrite Eww. clear. induction D as [|l D IH]; [reflexivity|]. cbn [map concat app]. rewrite IH. reflexivity. }
    rewrite Hmap. apply check_plain_ok; [exact Hcw|].
    destruct HR as [HR|[a [e [Hr He]]]]; [left; exact HR|right]. rewrite Hr. exists e. split; [reflexivity|lia].
Qed.
End Plain.
