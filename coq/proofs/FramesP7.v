(* C08, part 7: Console.print(r, width=N) -- the print-level width rule and the final crop. *)
From RichModel Require Import Prelude Cells Segments SpecCells Frames SpecFrames.
From RichGen Require Import FrameFacts.
From RichProofs Require Import CellsP SegmentsP SegmentsP2 FramesP FramesP2.
From Coq Require Import ZifyBool.

(* T3: the source still computes  min(width, self.width) if width else None  and crops at self.width *)
Lemma print_facts : PRINT_WIDTH_IS_MIN_OR_NONE = true /\ PRINT_CROPS_AT_CONSOLE_WIDTH = true.
Proof. split; reflexivity. Qed.

(* a renderable printed with width=N is laid out at min(N, W) -- never wider than the console; N = 0 and
   no width mean the console width *)
Theorem print_width_rule : forall width W, 0 <= W ->
  match width with Some n => 0 <= n | None => True end ->
  let E := print_render_width width W in
  E <= W /\ E = match width with None => W | Some n => if n =? 0 then W else Z.min n W end.
Proof.
  intros width W HW Hn. unfold print_render_width. rewrite (proj1 print_facts).
  destruct width as [n|]; [destruct (n =? 0)|]; lia.
Qed.

(* ... and the final crop at the console width leaves every line that fits untouched: a frame that is an
   exact rectangle of E <= W cells is printed intact *)
Theorem print_keeps_fitting_lines : forall W segs, 0 <= W ->
  Forall (fun l : line => line_len l <= W) (split_lines segs) -> print_lines W segs = split_lines segs.
Proof.
  intros W segs HW HF. unfold print_lines. rewrite (proj2 print_facts). rewrite sac_eq_map.
  rewrite <- (map_id (split_lines segs)) at 2. apply map_ext_in. intros l Hl.
  rewrite Forall_forall in HF. specialize (HF l Hl).
  unfold adjust_line_length. destruct (line_len l <? W) eqn:E1; [reflexivity|].
  destruct (W <? line_len l) eqn:E2; [lia|reflexivity].
Qed.
