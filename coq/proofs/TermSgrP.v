(* Lemmas about the independent SGR / OSC-8 interpreter alone (no rich model here):
   compositionality of `run`, what it does on plain text, on one CSI..m, on one OSC..ST,
   parameter parsing, and the effect of the attribute / colour parameters. *)
From RichModel Require Import Prelude TermSgr.
From Coq Require Import ZifyBool.

(* ------------------------------------------------------------------ boolean equalities *)
Lemma str_eqb_eq a : forall b, str_eqb a b = true -> a = b.
Proof.
  induction a as [|x a IH]; intros [|y b] H; cbn in H; try discriminate; [reflexivity|].
  apply andb_true_iff in H as [H1 H2]. apply Z.eqb_eq in H1. subst y. f_equal. exact (IH _ H2).
Qed.
Lemma str_eqb_refl a : str_eqb a a = true.
Proof. induction a as [|x a IH]; cbn; [reflexivity|]. rewrite Z.eqb_refl. exact IH. Qed.

Lemma flags_eqb_eq a : forall b, flags_eqb a b = true -> a = b.
Proof.
  induction a as [|x a IH]; intros [|y b] H; cbn in H; try discriminate; [reflexivity|].
  apply andb_true_iff in H as [H1 H2]. apply Bool.eqb_prop in H1. subst y. f_equal. exact (IH _ H2).
Qed.
Lemma flags_eqb_refl a : flags_eqb a a = true.
Proof. induction a as [|x a IH]; cbn; [reflexivity|]. rewrite Bool.eqb_reflx. exact IH. Qed.

Lemma tcolor_eqb_eq a b : tcolor_eqb a b = true -> a = b.
Proof.
  destruct a, b; cbn; intros H; try discriminate; try reflexivity.
  - apply Z.eqb_eq in H. now subst.
  - apply andb_true_iff in H as [H H3]. apply andb_true_iff in H as [H1 H2].
    apply Z.eqb_eq in H1, H2, H3. now subst.
Qed.
Lemma tcolor_eqb_refl a : tcolor_eqb a a = true.
Proof. destruct a; cbn; rewrite ?Z.eqb_refl; reflexivity. Qed.

Lemma link_eqb_eq a b : link_eqb a b = true -> a = b.
Proof. destruct a, b; cbn; intros H; try discriminate; [f_equal; exact (str_eqb_eq _ _ H)|reflexivity]. Qed.
Lemma link_eqb_refl a : link_eqb a a = true.
Proof. destruct a; cbn; [apply str_eqb_refl|reflexivity]. Qed.

Lemma tstate_eqb_eq a b : tstate_eqb a b = true -> a = b.
Proof.
  destruct a, b. unfold tstate_eqb. cbn. intros H.
  apply andb_true_iff in H as [H H4]. apply andb_true_iff in H as [H H3]. apply andb_true_iff in H as [H1 H2].
  apply flags_eqb_eq in H1. apply tcolor_eqb_eq in H2, H3. apply link_eqb_eq in H4. now subst.
Qed.

Lemma cell_eqb_refl c : cell_eqb c c = true.
Proof.
  unfold cell_eqb. rewrite Z.eqb_refl, flags_eqb_refl, !tcolor_eqb_refl, link_eqb_refl. reflexivity.
Qed.
Lemma cells_eqb_refl l : cells_eqb l l = true.
Proof. induction l as [|c l IH]; cbn; [reflexivity|]. rewrite cell_eqb_refl. exact IH. Qed.

Lemma is_ground_eq m : is_ground m = true -> m = PGround.
Proof. destruct m; cbn; intros H; try discriminate; reflexivity. Qed.

(* ------------------------------------------------------------------ run composes *)
Lemma run_app_eq m st a b m1 st1 e1 m2 st2 e2 :
  run m st a = (m1, st1, e1) -> run m1 st1 b = (m2, st2, e2) ->
  run m st (a ++ b) = (m2, st2, e1 ++ e2).
Proof.
  revert m st m1 st1 e1. induction a as [|c a IH]; intros m st m1 st1 e1 Ha Hb.
  - cbn in Ha. inversion Ha; subst. cbn. exact Hb.
  - cbn [run app] in *. destruct (step m st c) as [[m' st'] e'].
    destruct (run m' st' a) as [[m'' st''] e''] eqn:E. inversion Ha; subst.
    rewrite (IH _ _ _ _ _ E Hb). now rewrite app_assoc.
Qed.

Lemma run_nil m st : run m st [] = (m, st, []).
Proof. reflexivity. Qed.

(* a step without output that only changes the parser mode *)
Lemma run_cons_silent m st c r m1 :
  step m st c = (m1, st, []) -> run m st (c :: r) = run m1 st r.
Proof. intros H. cbn [run]. rewrite H. destruct (run m1 st r) as [[a b] e]. reflexivity. Qed.

Lemma cells_of_app a b : cells_of (a ++ b) = cells_of a ++ cells_of b.
Proof. unfold cells_of. apply flat_map_app. Qed.
Lemma sgr_params_of_app a b : sgr_params_of (a ++ b) = sgr_params_of a ++ sgr_params_of b.
Proof. unfold sgr_params_of. apply flat_map_app. Qed.
Lemma others_of_app a b : others_of (a ++ b) = (others_of a + others_of b)%nat.
Proof. unfold others_of. rewrite filter_app, app_length. reflexivity. Qed.

(* ------------------------------------------------------------------ plain text *)
Definition gchar (c : Z) : bool := negb ((c =? 27) || (c =? 7) || (c =? 155) || (c =? 157)).

Lemma ground_gchar st c : gchar c = true -> ground st c = (PGround, st, [EChar (mk_cell st c)]).
Proof.
  unfold gchar, ground, ESCc, CSIc, OSCc, BELc. intros H.
  destruct (c =? 27) eqn:E1; [discriminate|]. destruct (c =? 7) eqn:E2; [discriminate|].
  destruct (c =? 155) eqn:E3; [discriminate|]. destruct (c =? 157) eqn:E4; [discriminate|]. reflexivity.
Qed.

Definition text_events (st : tstate) (t : str) : list event := map (fun c => EChar (mk_cell st c)) t.

Lemma run_text st t : forallb gchar t = true -> run PGround st t = (PGround, st, text_events st t).
Proof.
  induction t as [|c t IH]; intros H; [reflexivity|].
  cbn [forallb] in H. apply andb_true_iff in H as [Hc Ht].
  cbn [run step]. rewrite (ground_gchar st c Hc), (IH Ht). reflexivity.
Qed.

Lemma cells_of_text st t : cells_of (text_events st t) = map (mk_cell st) t.
Proof. induction t as [|c t IH]; [reflexivity|]. cbn. f_equal. exact IH. Qed.
Lemma sgr_params_of_text st t : sgr_params_of (text_events st t) = [].
Proof. induction t as [|c t IH]; [reflexivity|]. cbn. exact IH. Qed.
Lemma others_of_text st t : others_of (text_events st t) = 0%nat.
Proof. induction t as [|c t IH]; [reflexivity|]. cbn. exact IH. Qed.

(* ------------------------------------------------------------------ one CSI ... m *)
Definition pchar (c : Z) : bool := is_digit c || (c =? 59).

Lemma pchar_param c : pchar c = true -> between 32 63 c = true.
Proof. unfold pchar, is_digit, between. lia. Qed.

Lemma run_csi_buf st p : forall buf rest, forallb pchar p = true ->
  run (PCsi buf) st (p ++ rest) = run (PCsi (rev p ++ buf)) st rest.
Proof.
  induction p as [|c p IH]; intros buf rest H; [reflexivity|].
  cbn [forallb] in H. apply andb_true_iff in H as [Hc Hp].
  cbn [app]. rewrite (run_cons_silent (PCsi buf) st c (p ++ rest) (PCsi (c :: buf))).
  - rewrite (IH _ _ Hp). cbn [rev]. now rewrite <- app_assoc.
  - cbn [step]. now rewrite (pchar_param c Hc).
Qed.

Lemma run_sgr st p : forallb pchar p = true ->
  run PGround st ([27; 91] ++ p ++ [109])
  = (PGround, apply_sgr st (parse_params p), [ESgr (parse_params p)]).
Proof.
  intros H. cbn [app].
  rewrite (run_cons_silent PGround st 27 _ PEsc) by reflexivity.
  rewrite (run_cons_silent PEsc st 91 _ (PCsi [])) by reflexivity.
  rewrite (run_csi_buf st p [] [109] H). rewrite app_nil_r.
  cbn [run step]. change (between 32 63 109) with false. change (between 64 126 109) with true. cbv iota.
  unfold csi_dispatch. rewrite rev_involutive. change (109 =? 109) with true.
  unfold sgr_param_chars. change (fun c : Z => is_digit c || (c =? 59)) with pchar. rewrite H. reflexivity.
Qed.

(* ------------------------------------------------------------------ one OSC ... ST *)
Definition ochar (c : Z) : bool := negb ((c =? 27) || (c =? 7) || (c =? 156)).

Lemma run_osc_buf st p : forall buf rest, forallb ochar p = true ->
  run (POsc buf) st (p ++ rest) = run (POsc (rev p ++ buf)) st rest.
Proof.
  induction p as [|c p IH]; intros buf rest H; [reflexivity|].
  cbn [forallb] in H. apply andb_true_iff in H as [Hc Hp].
  cbn [app]. rewrite (run_cons_silent (POsc buf) st c (p ++ rest) (POsc (c :: buf))).
  - rewrite (IH _ _ Hp). cbn [rev]. now rewrite <- app_assoc.
  - cbn [step]. unfold ochar, BELc, STc, ESCc in *.
    destruct (c =? 27) eqn:E1; [discriminate|]. destruct (c =? 7) eqn:E2; [discriminate|].
    destruct (c =? 156) eqn:E3; [discriminate|]. reflexivity.
Qed.

Lemma run_osc st payload : forallb ochar payload = true ->
  run PGround st ([27; 93] ++ payload ++ [27; 92]) = osc_end st (rev payload).
Proof.
  intros H. cbn [app].
  rewrite (run_cons_silent PGround st 27 _ PEsc) by reflexivity.
  rewrite (run_cons_silent PEsc st 93 _ (POsc [])) by reflexivity.
  rewrite (run_osc_buf st payload [] [27; 92] H). rewrite app_nil_r.
  rewrite (run_cons_silent (POsc (rev payload)) st 27 _ (POscEsc (rev payload))) by reflexivity.
  cbn [run step]. change (92 =? 92) with true. cbv iota.
  destruct (osc_end st (rev payload)) as [[m1 st1] e1]. now rewrite app_nil_r.
Qed.

Lemma split_at_semicolon_spec a : forall acc b,
  forallb (fun c => negb (c =? 59)) a = true ->
  split_at_semicolon (a ++ 59 :: b) acc = Some (rev acc ++ a, b).
Proof.
  induction a as [|c a IH]; intros acc b H.
  - cbn. now rewrite app_nil_r.
  - cbn [forallb] in H. apply andb_true_iff in H as [Hc Ha].
    cbn [app split_at_semicolon]. destruct (c =? 59); [discriminate|].
    rewrite (IH _ _ Ha). cbn [rev]. now rewrite <- app_assoc.
Qed.

(* OSC 8 ; params ; uri *)
Lemma osc_end_link st params uri :
  forallb (fun c => negb (c =? 59)) params = true ->
  osc_end st (rev ([56; 59] ++ params ++ 59 :: uri))
  = (PGround, set_link (match uri with [] => None | _ => Some uri end) st,
     [ELink (match uri with [] => None | _ => Some uri end)]).
Proof.
  intros H. unfold osc_end. rewrite rev_involutive. cbn [app]. unfold osc_dispatch.
  rewrite (split_at_semicolon_spec params [] uri H). reflexivity.
Qed.

(* ------------------------------------------------------------------ parameters *)
Definition dec (ds : str) (cur : Z) : Z := fold_left (fun a c => a * 10 + (c - 48)) ds cur.

Lemma pp_digits ds : forall cur r, forallb is_digit ds = true ->
  parse_params_go (ds ++ r) cur = parse_params_go r (dec ds cur).
Proof.
  induction ds as [|c ds IH]; intros cur r H; [reflexivity|].
  cbn [forallb] in H. apply andb_true_iff in H as [Hc Hd].
  cbn [app parse_params_go]. assert (E : (c =? 59) = false) by (unfold is_digit, between in Hc; lia).
  rewrite E. rewrite (IH _ _ Hd). reflexivity.
Qed.

Fixpoint join59 (l : list str) : str :=
  match l with
  | [] => []
  | [x] => x
  | x :: r => x ++ [59] ++ join59 r
  end.

Lemma parse_join l : l <> [] -> Forall (fun d => forallb is_digit d = true) l ->
  parse_params (join59 l) = map (fun d => dec d 0) l.
Proof.
  unfold parse_params. induction l as [|x l IH]; intros Hne Hd; [congruence|].
  inversion Hd as [|? ? Hx Hl]; subst. destruct l as [|y l].
  - cbn [join59 map]. rewrite <- (app_nil_r x) at 1. rewrite (pp_digits x 0 [] Hx). reflexivity.
  - change (join59 (x :: y :: l)) with (x ++ 59 :: join59 (y :: l)).
    rewrite (pp_digits x 0 _ Hx). cbn [parse_params_go]. change (59 =? 59) with true. cbv iota.
    cbn [map]. f_equal. apply IH; [discriminate|exact Hl].
Qed.

Lemma pchar_join l : Forall (fun d => forallb is_digit d = true) l -> forallb pchar (join59 l) = true.
Proof.
  induction l as [|x l IH]; intros H; [reflexivity|]. inversion H as [|? ? Hx Hl]; subst.
  assert (Px : forallb pchar x = true).
  { clear - Hx. induction x as [|c x IHx]; [reflexivity|]. cbn [forallb] in *.
    apply andb_true_iff in Hx as [Hc Hx]. unfold pchar at 1. rewrite Hc. cbn. exact (IHx Hx). }
  destruct l as [|y l]; [exact Px|].
  change (join59 (x :: y :: l)) with (x ++ 59 :: join59 (y :: l)).
  rewrite forallb_app, Px. cbn [forallb]. change (pchar 59) with true. cbn. exact (IH Hl).
Qed.

(* ------------------------------------------------------------------ SGR parameter lists *)
Lemma apply_sgr_nil st : apply_sgr st [] = st.
Proof. reflexivity. Qed.

Lemma apply_sgr_cons st p r :
  apply_sgr st (p :: r) =
  if (p =? 38) || (p =? 48) then
    match r with
    | sel :: r1 =>
        if sel =? 5 then
          match r1 with
          | n :: r2 => apply_sgr (if between 0 255 n then set_ground (p =? 38) (TIdx n) st else st) r2
          | [] => st
          end
        else if sel =? 2 then
          match r1 with
          | cr :: cg :: cb :: r2 =>
              apply_sgr (if between 0 255 cr && between 0 255 cg && between 0 255 cb
                         then set_ground (p =? 38) (TRgb cr cg cb) st else st) r2
          | _ => st
          end
        else st
    | [] => st
    end
  else apply_sgr (sgr1 st p) r.
Proof. reflexivity. Qed.

Definition simple (p : Z) : bool := negb ((p =? 38) || (p =? 48)).

Lemma apply_sgr_simple a : forall st b, forallb simple a = true ->
  apply_sgr st (a ++ b) = apply_sgr (fold_left sgr1 a st) b.
Proof.
  induction a as [|p a IH]; intros st b H; [reflexivity|].
  cbn [forallb] in H. apply andb_true_iff in H as [Hp Ha].
  cbn [app fold_left]. rewrite apply_sgr_cons. unfold simple in Hp.
  destruct ((p =? 38) || (p =? 48)); [discriminate|]. exact (IH _ _ Ha).
Qed.

(* parameters that switch one flag on *)
Definition is_set (p : Z) : bool :=
  match lookupZ p SGR_SET with Some _ => negb (p =? 0) | None => false end.
Definition flags_run (codes : list Z) (fl : list bool) : list bool :=
  fold_left (fun fl p => match lookupZ p SGR_SET with Some i => upd fl i true | None => fl end) codes fl.

Lemma fold_sgr1_set codes : forall st, forallb is_set codes = true ->
  fold_left sgr1 codes st = mkT (flags_run codes (t_flags st)) (t_fg st) (t_bg st) (t_link st).
Proof.
  induction codes as [|p codes IH]; intros st H.
  - destruct st; reflexivity.
  - cbn [forallb] in H. apply andb_true_iff in H as [Hp Hc].
    cbn [fold_left]. rewrite (IH _ Hc). unfold flags_run at 2. cbn [fold_left].
    unfold is_set in Hp. unfold sgr1.
    destruct (lookupZ p SGR_SET) as [i|]; [|discriminate].
    destruct (p =? 0); [discriminate|]. reflexivity.
Qed.

(* the 13 attribute parameters in flag order, and the parameters of a flag vector *)
Definition ATTR_SGR : list Z := [1; 2; 3; 4; 5; 6; 7; 8; 9; 21; 51; 52; 53].
Definition attr_nums (bs : list bool) : list Z :=
  flat_map (fun bc : bool * Z => if fst bc then [snd bc] else []) (combine bs ATTR_SGR).

Fixpoint all_vecs (n : nat) : list (list bool) :=
  match n with
  | O => [[]]
  | S n' => flat_map (fun v => [true :: v; false :: v]) (all_vecs n')
  end.
Lemma all_vecs_in n : forall v, length v = n -> In v (all_vecs n).
Proof.
  induction n as [|n IH]; intros v H.
  - destruct v; [left; reflexivity|discriminate].
  - destruct v as [|b v]; [discriminate|]. cbn [all_vecs]. apply in_flat_map. exists v. split.
    + apply IH. now inversion H.
    + destruct b; [left|right; left]; reflexivity.
Qed.

Definition attr_vec_ok (bs : list bool) : bool :=
  flags_eqb (flags_run (attr_nums bs) no_flags) bs
  && forallb is_set (attr_nums bs) && forallb simple (attr_nums bs)
  && forallb (fun p => between 0 255 p && negb (between 30 49 p || between 90 107 p)) (attr_nums bs).

(* all 8192 flag vectors: their parameters switch on exactly those flags *)
Lemma attr_sweep : forallb attr_vec_ok (all_vecs 13) = true.
Proof. vm_compute. reflexivity. Qed.

Lemma attr_vec bs : length bs = 13%nat -> attr_vec_ok bs = true.
Proof. intros H. exact (proj1 (forallb_forall _ _) attr_sweep bs (all_vecs_in 13 bs H)). Qed.

(* from a state without flags, the attribute parameters followed by anything *)
Lemma apply_attrs bs fg bg l rest : length bs = 13%nat ->
  apply_sgr (mkT no_flags fg bg l) (attr_nums bs ++ rest) = apply_sgr (mkT bs fg bg l) rest.
Proof.
  intros H. pose proof (attr_vec bs H) as V. unfold attr_vec_ok in V.
  apply andb_true_iff in V as [V _]. apply andb_true_iff in V as [V V3]. apply andb_true_iff in V as [V1 V2].
  rewrite (apply_sgr_simple _ _ _ V3), (fold_sgr1_set _ _ V2). cbn [t_flags t_fg t_bg t_link].
  now rewrite (flags_eqb_eq _ _ V1).
Qed.

(* ------------------------------------------------------------------ colour parameters *)
Definition range16 : list Z := map Z.of_nat (seq 0 16).
Lemma in_range16 n : 0 <= n <= 15 -> In n range16.
Proof.
  intros H. unfold range16. apply in_map_iff. exists (Z.to_nat n). split; [lia|]. apply in_seq. lia.
Qed.

Definition idx_param (fg : bool) (n : Z) : Z :=
  if n <? 8 then (if fg then 30 else 40) + n else (if fg then 82 else 92) + n.

Lemma sgr1_idx st fg n : 0 <= n <= 15 -> sgr1 st (idx_param fg n) = set_ground fg (TIdx n) st.
Proof.
  intros H. pose proof (in_range16 n H) as I. cbn in I.
  destruct fg; repeat (destruct I as [<-|I]; [reflexivity|]); contradiction.
Qed.
Lemma idx_param_simple fg n : 0 <= n <= 15 -> simple (idx_param fg n) = true.
Proof. intros H. unfold simple, idx_param. destruct fg; destruct (n <? 8) eqn:E; lia. Qed.

Lemma sgr1_default st (fg : bool) : sgr1 st (if fg then 39 else 49) = set_ground fg TDefault st.
Proof. destruct fg; reflexivity. Qed.

Lemma apply_sgr_256 st (fg : bool) n rest : 0 <= n <= 255 ->
  apply_sgr st ((if fg then 38 else 48) :: 5 :: n :: rest) = apply_sgr (set_ground fg (TIdx n) st) rest.
Proof.
  intros H. rewrite apply_sgr_cons. assert (B : between 0 255 n = true) by (unfold between; lia).
  destruct fg; cbn; rewrite B; reflexivity.
Qed.
Lemma apply_sgr_rgb st (fg : bool) r g b rest : 0 <= r <= 255 -> 0 <= g <= 255 -> 0 <= b <= 255 ->
  apply_sgr st ((if fg then 38 else 48) :: 2 :: r :: g :: b :: rest)
  = apply_sgr (set_ground fg (TRgb r g b) st) rest.
Proof.
  intros Hr Hg Hb. rewrite apply_sgr_cons.
  assert (Br : between 0 255 r = true) by (unfold between; lia).
  assert (Bg : between 0 255 g = true) by (unfold between; lia).
  assert (Bb : between 0 255 b = true) by (unfold between; lia).
  destruct fg; cbn; rewrite Br, Bg, Bb; reflexivity.
Qed.

(* SGR 0 *)
Lemma sgr_reset st : apply_sgr st [0] = mkT no_flags TDefault TDefault (t_link st).
Proof. reflexivity. Qed.
