(* C20 proofs, part 2: pop restores (single push/pop, all balanced histories, exceptional exits),
   the base theme is never popped, use_theme(inherit=False). *)
From RichModel Require Import Prelude Theme SpecTheme.
From RichProofs Require Import ThemeP.

Section Steps.
Variable parse : str -> option Z.
Variable M : machine.
Variable fwd : bool.
Lemma exec_list_push : forall th i r s,
  exec_list parse M fwd (CPush th i :: r) s =
  let s1 := m_push M th i s in
  let '(s2, o2, t2) := exec_list parse M fwd r s1 in (s2, o2, EvSt s1 :: t2).
Proof. reflexivity. Qed.
Lemma exec_list_pop_ok : forall r s s1, m_pop M s = Ok s1 ->
  exec_list parse M fwd (CPop :: r) s =
  let '(s2, o2, t2) := exec_list parse M fwd r s1 in (s2, o2, EvSt s1 :: t2).
Proof. intros r s s1 H. rewrite exec_list_cons. simpl exec. rewrite H. reflexivity. Qed.
End Steps.

Section Balanced.
Variable parse : str -> option Z.
Variable fwd : bool.      (* holds for the as-is ThemeContext as well as for the repaired one *)

Notation exec := (exec parse conc fwd).
Notation exec_list := (exec_list parse conc fwd).

(* the state is left as found; a history without a command that can raise ends normally *)
Definition restores (l : list cmd) : Prop :=
  forall s, ts_inv s -> exists o t, exec_list l s = (s, o, t) /\ (forallb quiet l = true -> o = None).

Lemma restores_cons : forall c r,
  (forall s, ts_inv s -> exists o t, exec c s = (s, o, t) /\ (quiet c = true -> o = None)) ->
  restores r -> restores (c :: r).
Proof.
  intros c r Hc Hr s I. rewrite exec_list_cons.
  destruct (Hc s I) as [o1 [t1 [E1 Q1]]]. rewrite E1.
  destruct o1 as [e|].
  - exists (Some e), t1. split; [reflexivity|]. simpl. intros Q. apply andb_true_iff in Q.
    destruct Q as [Q _]. specialize (Q1 Q). discriminate.
  - destruct (Hr s I) as [o2 [t2 [E2 Q2]]]. rewrite E2. exists o2, (t1 ++ t2). split; [reflexivity|].
    simpl. intros Q. apply andb_true_iff in Q. apply Q2. tauto.
Qed.

Theorem bal_restores : forall l, bal l -> restores l.
Proof.
  induction 1 as [|n d r _ IHr|r _ IHr|b r _ IHb _ IHr|th i b r _ IHb _ IHr|th i b r _ IHb Qb _ IHr].
  - intros s _. exists None, []. split; reflexivity.
  - (* get *) apply restores_cons; [|exact IHr]. intros s _. simpl.
    eexists _, _. split; [reflexivity|]. destruct n as [v|n]; simpl; [reflexivity|discriminate].
  - (* raise *) apply restores_cons; [|exact IHr]. intros s _. simpl.
    eexists _, _. split; [reflexivity|]. discriminate.
  - (* try *) apply restores_cons; [|exact IHr]. intros s I. rewrite exec_try.
    destruct (IHb s I) as [o [t [E _]]]. rewrite E. eexists _, _. split; reflexivity.
  - (* use_theme: __exit__ pops, whatever the body did *) apply restores_cons; [|exact IHr]. intros s I.
    rewrite exec_use. cbv zeta. simpl m_push. simpl m_pop.
    set (i' := if fwd then i else true).
    destruct (IHb (ts_push th i' s) (ts_inv_push th i' s)) as [o [t [E Q]]]. rewrite E.
    rewrite (ts_pop_push th i' s I). eexists _, _. split; [reflexivity|]. exact Q.
  - (* push ... pop around a body that cannot raise *)
    intros s I. rewrite exec_list_push. cbv zeta. simpl m_push.
    rewrite exec_list_app.
    destruct (IHb (ts_push th i s) (ts_inv_push th i s)) as [o [t [E Q]]]. rewrite E.
    rewrite (Q Qb). rewrite (exec_list_pop_ok parse conc fwd r _ s (ts_pop_push th i s I)).
    destruct (IHr s I) as [o2 [t2 [E2 Q2]]]. rewrite E2.
    eexists _, _. split; [reflexivity|]. simpl. rewrite forallb_app. simpl. intros H.
    apply andb_true_iff in H. apply Q2. tauto.
Qed.

(* every state the model can reach keeps the cached bound method on the top entry *)
Lemma exec_inv : forall c s, ts_inv s -> ts_inv (fst (fst (exec c s))).
Proof.
  apply (cmd_ind2 (fun c => forall s, ts_inv s -> ts_inv (fst (fst (exec c s))))
                  (fun l => forall s, ts_inv s -> ts_inv (fst (fst (exec_list l s))))).
  - intros th i s _. reflexivity.
  - intros s I. simpl. destruct (ts_pop s) eqn:E; simpl; [eapply ts_inv_pop; exact E|exact I|exact I].
  - intros th i b IH s I. rewrite exec_use. cbv zeta. simpl m_push. simpl m_pop.
    specialize (IH (ts_push th (if fwd then i else true) s) (ts_inv_push _ _ _)).
    destruct (exec_list b _) as [[s2 o2] t2]. simpl in IH.
    destruct (ts_pop s2) eqn:E; simpl; [eapply ts_inv_pop; exact E|exact IH|exact IH].
  - intros b IH s I. rewrite exec_try. specialize (IH s I). destruct (exec_list b s) as [[s1 o1] t1]. exact IH.
  - intros s I. exact I.
  - intros n d s I. exact I.
  - intros s I. exact I.
  - intros c r IHc IHr s I. rewrite exec_list_cons. specialize (IHc s I).
    destruct (exec c s) as [[s1 o1] t1]. simpl in IHc. destruct o1; [exact IHc|].
    specialize (IHr s1 IHc). destruct (exec_list r s1) as [[s2 o2] t2]. exact IHr.
Qed.

Lemma exec_list_inv : forall l s, ts_inv s -> ts_inv (fst (fst (exec_list l s))).
Proof.
  induction l as [|c r IH]; intros s I; [exact I|]. rewrite exec_list_cons.
  pose proof (exec_inv c s I) as H. destruct (exec c s) as [[s1 o1] t1]. simpl in H.
  destruct o1; [exact H|]. specialize (IH s1 H). destruct (exec_list r s1) as [[s2 o2] t2]. exact IH.
Qed.

(* ---- the base theme is never popped: the bottom entry survives every history *)
Lemma exec_base : forall c s, ts_base (fst (fst (exec c s))) = ts_base s.
Proof.
  apply (cmd_ind2 (fun c => forall s, ts_base (fst (fst (exec c s))) = ts_base s)
                  (fun l => forall s, ts_base (fst (fst (exec_list l s))) = ts_base s)).
  - intros th i s. apply ts_base_push.
  - intros s. simpl. destruct (ts_pop s) eqn:E; simpl; [apply ts_base_pop; exact E|reflexivity|reflexivity].
  - intros th i b IH s. rewrite exec_use. cbv zeta. simpl m_push. simpl m_pop.
    specialize (IH (ts_push th (if fwd then i else true) s)). rewrite ts_base_push in IH.
    destruct (exec_list b _) as [[s2 o2] t2]. simpl in IH.
    destruct (ts_pop s2) eqn:E; simpl; [rewrite (ts_base_pop _ _ E)|..]; exact IH.
  - intros b IH s. rewrite exec_try. specialize (IH s). destruct (exec_list b s) as [[s1 o1] t1]. exact IH.
  - reflexivity.
  - reflexivity.
  - reflexivity.
  - intros c r IHc IHr s. rewrite exec_list_cons. specialize (IHc s).
    destruct (exec c s) as [[s1 o1] t1]. simpl in IHc. destruct o1; [exact IHc|].
    specialize (IHr s1). destruct (exec_list r s1) as [[s2 o2] t2]. simpl in *. congruence.
Qed.

Lemma exec_list_base : forall l s, ts_base (fst (fst (exec_list l s))) = ts_base s.
Proof.
  induction l as [|c r IH]; intros s; [reflexivity|]. rewrite exec_list_cons.
  pose proof (exec_base c s) as H. destruct (exec c s) as [[s1 o1] t1]. simpl in H.
  destruct o1; [exact H|]. specialize (IH s1). destruct (exec_list r s1) as [[s2 o2] t2]. simpl in *. congruence.
Qed.

(* popping until ThemeStackError: exactly the pushed entries go, the base entry stays *)
Lemma pop_all_spec : forall b t g,
  pop_all (S (length b)) (mkTS t b g) =
  (Z.of_nat (length b), match b with [] => mkTS t b g | _ => let d := last b t in mkTS d [] d end).
Proof.
  induction b as [|d r IH]; intros t g.
  - reflexivity.
  - change (pop_all (S (length (d :: r))) (mkTS t (d :: r) g))
      with (let '(n, s'') := pop_all (S (length r)) (mkTS d r d) in (n + 1, s'')).
    rewrite IH. rewrite (last_cons r d t). f_equal; [simpl length; lia|].
    destruct r; reflexivity.
Qed.

Lemma pop_all_base : forall s, ts_inv s ->
  snd (pop_all (ts_depth s) s) = ts_init (ts_base s) /\ fst (pop_all (ts_depth s) s) = Z.of_nat (length (below s)).
Proof.
  intros [t b g] I. unfold ts_inv in I. simpl in I. subst g. unfold ts_depth. simpl below.
  rewrite pop_all_spec. simpl. split; [|reflexivity]. unfold ts_base, ts_init. simpl.
  destruct b; reflexivity.
Qed.

Theorem base_survives : forall base cmds probes,
  let s := fst (fst (exec_list cmds (ts_init base))) in
  base_ok_b parse base probes (snapshot parse conc probes (snd (pop_all (ts_depth s) s))) = true.
Proof.
  intros base cmds probes s.
  assert (I : ts_inv s) by (apply exec_list_inv; reflexivity).
  destruct (pop_all_base s I) as [E _]. rewrite E. unfold s. rewrite exec_list_base.
  unfold base_ok_b. change (ts_base (ts_init base)) with base.
  apply list_eqb_refl. apply res_eqb_refl.
Qed.
End Balanced.

(* ---------------------------------------------------------------- use_theme(inherit=False) *)
(* with `inherit` forwarded, a lookup inside the block sees the block's theme and nothing below *)
Theorem use_theme_no_inherit : forall parse th body s n,
  exists s1 rest, snd (exec parse conc true (CUse th false body) s) = EvSt s1 :: rest /\
    lookup1 parse conc s1 n =
    match dget th n with
    | Some v => Ok v
    | None => match parse n with Some v => Ok v | None => Doc E_MissingStyle end
    end.
Proof.
  intros parse th body s n. rewrite exec_use. cbv zeta. simpl m_push. simpl m_pop.
  destruct (exec_list parse conc true body (ts_push th false s)) as [[s2 o2] t2].
  destruct (ts_pop s2); eexists _, _; (split; [reflexivity|]); reflexivity.
Qed.

(* as found in rich 9.10.0 (__enter__ drops `inherit`) the block still sees the themes below *)
Theorem use_theme_asis_refuted : exists parse base cmds probes,
  forallb wf_cmd cmds = true /\
  lookup_ok_b parse base cmds probes (observe parse conc false probes cmds (ts_init base)) = false.
Proof.
  exists (fun _ => None), [([120; 46; 121], 0)], [CUse [] false []], [[120; 46; 121]].
  split; vm_compute; reflexivity.
Qed.
