(* Bridge (tie 1, T2): Bar.__rich_console__ regenerated from rich/bar.py (gen/T2_Bar.v; the generator
   is the list of the segments it yields) equals the hand model Frames.bar_text (C08): one segment
   with that text and the bar's style, then a newline segment.  self.begin / self.end enter as
   stored by __init__ (max(begin, 0), min(end, size)).  Precondition: size > 0 -- the source divides
   by self.size (ZeroDivisionError at 0), the hand model's Z.quot is total. *)
From RichModel Require Import Prelude Ratio T2Lib Frames.
From RichGen Require Import FrameBoxes T2_Bar.
From RichProofs.bridge Require Import BridgeLib.
From Coq Require Import ZifyBool Lia.

Lemma py_idx_nthZ {A} (l : list A) i d : 0 <= i < zlen l -> py_idx l i = Ok (nthZ l i d).
Proof.
  intros [H0 H1]. unfold py_idx, t2_nth, nthZ, zlen in *.
  destruct (0 <=? i) eqn:E; [|lia]. destruct (i <? 0) eqn:E2; [lia|].
  rewrite (nth_error_nth' l d) by lia. reflexivity.
Qed.

Lemma py_slice_suffix {A} (l : list A) k : 0 <= k -> py_slice l (Some k) None = skipn (Z.to_nat k) l.
Proof.
  intro Hk. unfold py_slice, clamp_index, zlen.
  destruct (k <? 0) eqn:E; [lia|].
  destruct (Z.le_gt_cases k (Z.of_nat (length l))) as [H|H].
  - rewrite Z.min_l by lia. apply firstn_all2. rewrite skipn_length. lia.
  - rewrite Z.min_r by lia. rewrite Z.sub_diag. cbn [Z.to_nat firstn].
    symmetry. apply skipn_all2. lia.
Qed.

Theorem bar_console_gen_eq_hand size b e bw st W :
  0 < size ->
  bar_console_gen bw (Z.max b 0) (Z.min e size) size st W
  = Ok [(bar_text size b e bw W, st, false); ([10], None, false)].
Proof.
  intro Hs. unfold bar_console_gen, bar_text.
  assert (Hw : Z.min (match bw with Some o => if negb (o =? 0) then o else W | None => W end) W
               = Z.min (width_or bw W) W).
  { unfold width_or. destruct bw as [x|]; [|reflexivity]. now destruct (x =? 0). }
  rewrite Hw. set (width := Z.min (width_or bw W) W).
  set (b' := Z.max b 0). set (e' := Z.min e size).
  destruct (e' <=? b').
  { unfold spaces, py_repeat. now rewrite py_mul_list_single. }
  rewrite !py_trunc_div_pos by exact Hs. cbn [bind]. unfold trunc_div.
  set (pce := Z.quot (width * 8 * b') size). set (bce := Z.quot (width * 8 * e') size).
  assert (Hp : 0 <= pce mod 8 < 8) by (apply Z.mod_pos_bound; lia).
  assert (Hb : 0 <= bce mod 8 < 8) by (apply Z.mod_pos_bound; lia).
  rewrite (py_idx_nthZ BEGIN_BLOCK_ELEMENTS (pce mod 8) []) by exact Hp.
  rewrite (py_idx_nthZ END_BLOCK_ELEMENTS (bce mod 8) []) by exact Hb.
  unfold spaces, py_repeat, str_repeat. rewrite !py_mul_list_single.
  change (py_mul_list FULL_BLOCK (bce / 8)) with (concat (repeat FULL_BLOCK (Z.to_nat (bce / 8)))).
  destruct (pce mod 8 =? 0); destruct (bce mod 8 =? 0); cbn [negb bind];
    rewrite ?app_nil_r; rewrite py_slice_suffix by (unfold zlen; lia);
    rewrite ?py_mul_list_single; unfold zlen; rewrite Nat2Z.id; cbn [app];
    rewrite <- ?app_assoc; reflexivity.
Qed.
