(* Bridge (tie 1, T2): rich/cells.py regenerated statement by statement (gen/T2_Cells.v) equals the
   hand models of model/Cells.v that C13/C02 reason about.
   Preconditions, stated where needed: the generated functions run their `while` loops on explicit
   fuel; the binary search agrees with `bsearch` for EVERY fuel, the string functions agree with
   the (fuel-free, structurally recursive) hand models when the fuel exceeds the table length and
   the string length. *)
From RichModel Require Import Prelude Ratio T2Lib Cells.
From RichGen Require Import CellWidthTable T2_Cells.
From RichProofs Require Import CellsP.
From RichProofs.bridge Require Import BridgeLib.
From Coq Require Import ZifyBool Lia.

Lemma bind_ret {A} (x : res A) : bind x (fun t => Ok t) = x.
Proof. now destruct x. Qed.

Lemma bind_ok_inv {A B} (x : res A) (k : A -> res B) v :
  bind x k = Ok v -> exists a, x = Ok a /\ k a = Ok v.
Proof. destruct x; cbn; try discriminate. eauto. Qed.

(* ---------------------------------------------------------------- _get_codepoint_cell_size *)
Theorem get_codepoint_cell_size_gen_eq_hand fuel cp :
  get_codepoint_cell_size_gen fuel cp
  = bsearch fuel CELL_WIDTHS cp 0 (zlen CELL_WIDTHS - 1) ((0 + (zlen CELL_WIDTHS - 1)) / 2).
Proof.
  unfold get_codepoint_cell_size_gen. generalize CELL_WIDTHS. intro T.
  match goal with |- context [while_loop _ ?c ?b _] => set (cond := c); set (body := b) end.
  match goal with |- bind _ ?p = _ => set (post := p) end.
  assert (L : forall fuel hi lo idx,
            bind (while_loop fuel cond body (hi, lo, idx)) post = bsearch fuel T cp lo hi idx).
  { clear fuel. induction fuel as [|fuel IH]; intros hi lo idx; [reflexivity|].
    cbn [while_loop bsearch]. unfold cond at 1. unfold body at 1. unfold py_idx.
    change (t2_nth T idx) with (py_nth T idx).
    destruct (py_nth T idx) as [[[s e] w]|]; [|reflexivity].
    cbn [bind]. destruct (cp <? s).
    - destruct (idx - 1 <? lo); [reflexivity|]. apply IH.
    - destruct (e <? cp); [|reflexivity].
      destruct (hi <? idx + 1); [reflexivity|]. apply IH. }
  apply L.
Qed.

Corollary get_codepoint_cell_size_gen_eq_model cp :
  get_codepoint_cell_size_gen (S (length CELL_WIDTHS)) cp = codepoint_cell_size cp.
Proof. apply get_codepoint_cell_size_gen_eq_hand. Qed.

(* enough fuel: the value is the linear-scan width (through C13's bsearch_is_linear) *)
Lemma get_codepoint_cell_size_gen_big fuel cp :
  (S (length CELL_WIDTHS) <= fuel)%nat -> get_codepoint_cell_size_gen fuel cp = Ok (cw cp).
Proof.
  intro Hle. pose proof (cw_model_eq cp) as H.
  rewrite <- get_codepoint_cell_size_gen_eq_model in H.
  revert Hle H. unfold get_codepoint_cell_size_gen. generalize (cw cp). generalize CELL_WIDTHS.
  intros T v Hle H.
  apply bind_ok_inv in H. destruct H as (r & Hr & Hp).
  rewrite (while_loop_mono _ _ _ _ _ _ Hle Hr). exact Hp.
Qed.

(* ---------------------------------------------------------------- get_character_cell_size *)
Theorem get_character_cell_size_gen_eq_hand c :
  get_character_cell_size_gen (S (length CELL_WIDTHS)) c = char_size_res c.
Proof.
  unfold get_character_cell_size_gen, char_size_res.
  rewrite bind_ret, get_codepoint_cell_size_gen_eq_model.
  destruct (c <? 127), (31 <? c); cbn [andb]; reflexivity.
Qed.

Lemma get_character_cell_size_gen_big fuel c :
  (S (length CELL_WIDTHS) <= fuel)%nat -> get_character_cell_size_gen fuel c = Ok (char_size c).
Proof.
  intro Hle. unfold get_character_cell_size_gen, char_size.
  rewrite bind_ret, get_codepoint_cell_size_gen_big by exact Hle.
  destruct (c <? 127), (31 <? c); cbn [andb]; reflexivity.
Qed.

(* ---------------------------------------------------------------- set_cell_size *)
Lemma nonempty_snoc {A} (l : list A) x : nonempty (l ++ [x]) = true.
Proof. now destruct l. Qed.

Lemma py_slice_prefix {A} (l : list A) k : 0 <= k -> py_slice l None (Some k) = firstn (Z.to_nat k) l.
Proof.
  intro Hk. unfold py_slice, clamp_index, zlen.
  destruct (k <? 0) eqn:E; [lia|]. rewrite Z.sub_0_r. cbn [Z.to_nat skipn].
  destruct (Z.le_gt_cases k (Z.of_nat (length l))) as [H|H].
  - now rewrite Z.min_l by lia.
  - rewrite Z.min_r by lia. rewrite Nat2Z.id.
    rewrite firstn_all. symmetry. apply firstn_all2. lia.
Qed.

Theorem set_cell_size_gen_eq_hand fuel text total :
  (S (length CELL_WIDTHS) <= fuel)%nat -> (length text < fuel)%nat ->
  set_cell_size_gen fuel cell_len text total = Ok (set_cell_size text total).
Proof.
  intros Hf Hl. unfold set_cell_size_gen, set_cell_size.
  destruct (cell_len text =? total); [reflexivity|].
  destruct (cell_len text <? total).
  { now rewrite py_mul_list_single. }
  rewrite (mapM_ok _ char_size)
    by (intros x _; rewrite bind_ret; now apply get_character_cell_size_gen_big).
  cbn [bind].
  match goal with |- context [while_loop _ ?c ?b _] => set (cond := c); set (body := b) end.
  assert (L : forall sizes fuel ex, (length sizes < fuel)%nat ->
            while_loop fuel cond body (sizes, ex)
            = Ok (LNext (rev (fst (pop_loop (rev sizes) ex)), snd (pop_loop (rev sizes) ex)))).
  { clear. induction sizes as [|x l IH] using rev_ind; intros fuel ex Hl.
    - destruct fuel; [cbn in Hl; lia|]. cbn [while_loop]. unfold cond at 1. cbn [nonempty].
      rewrite andb_false_r. cbn. now destruct (0 <? ex).
    - rewrite app_length in Hl. cbn in Hl. destruct fuel; [lia|].
      cbn [while_loop]. unfold cond at 1. rewrite nonempty_snoc, andb_true_r.
      rewrite rev_app_distr. cbn [rev app pop_loop].
      destruct (0 <? ex).
      + unfold body at 1. rewrite py_pop_snoc. cbn [bind]. apply IH. lia.
      + cbn [fst snd rev]. now rewrite rev_involutive. }
  rewrite L by (rewrite map_length; exact Hl). cbn [bind].
  destruct (pop_loop (rev (map char_size text)) (cell_len text - total)) as [kept ex]. cbn [fst snd].
  rewrite py_slice_prefix by (unfold zlen; lia).
  unfold zlen. rewrite Nat2Z.id, rev_length.
  now destruct (ex =? -1).
Qed.

(* ---------------------------------------------------------------- chop_cells *)
Theorem chop_cells_gen_eq_hand fuel text max_size position :
  (S (length CELL_WIDTHS) <= fuel)%nat -> (length text < fuel)%nat ->
  chop_cells_gen fuel text max_size position = Ok (chop_cells text max_size position).
Proof.
  intros Hf Hl. unfold chop_cells_gen, chop_cells.
  rewrite (mapM_ok _ (fun c => (c, char_size c)))
    by (intros x _; now rewrite get_character_cell_size_gen_big).
  cbn [bind].
  (* `append = lines[-1].append` (an IndexError check at the binding) or `lines[-1].append(c)` called directly *)
  change (py_idx [[]] (-1)) with (Ok (@nil Z)). cbn [bind].
  match goal with |- context [while_loop _ ?c ?b _] => set (cond := c); set (body := b) end.
  match goal with |- bind _ ?p = _ => set (post := p) end.
  assert (L : forall rest fuel cur done tot, (length rest < fuel)%nat ->
            bind (while_loop fuel cond body
                    (rev (map (fun c => (c, char_size c)) rest), rev done ++ [rev cur], tot)) post
            = Ok (chop_go rest max_size tot cur done)).
  { clear. induction rest as [|c r IH]; intros fuel cur done tot Hl.
    - destruct fuel; [cbn in Hl; lia|]. cbn [while_loop map rev]. unfold cond at 1. cbn [nonempty bind].
      unfold post. rewrite map_id. reflexivity.
    - cbn in Hl. destruct fuel; [lia|].
      cbn [while_loop map rev chop_go]. unfold cond at 1. rewrite nonempty_snoc.
      unfold body at 1. rewrite py_pop_snoc. cbn [bind].
      destruct (max_size <? tot + char_size c).
      + rewrite ?py_idx_last_snoc. cbn [bind].
        change ((rev done ++ [rev cur]) ++ [[c]]) with (rev (rev cur :: done) ++ [rev [c]]).
        apply IH. lia.
      + rewrite py_append_last_snoc. cbn [bind].
        change (rev cur ++ [c]) with (rev (c :: cur)). apply IH. lia. }
  exact (L text fuel [] [] position Hl).
Qed.
