(* Bridge (tie 1, T2): the functions regenerated from rich/_ratio.py and Table._collapse_widths
   (gen/T2_Ratio.v) are equal to the hand models of model/Ratio.v that C07/C01/C09 reason about.
   No precondition is needed: the true divisions of the source sit under `total_ratio > 0` guards,
   which is what makes py_round_div / py_ceil_div coincide with round_div / ceil_div. *)
From RichModel Require Import Prelude Ratio T2Lib.
From RichGen Require Import T2_Ratio.
From RichProofs.bridge Require Import BridgeLib.
From Coq Require Import ZifyBool Lia.

Lemma mask_eq : forall rs ms,
  map (fun '(r, m) => if negb (m =? 0) then r else 0) (combine rs ms) = zip_mask rs ms.
Proof.
  induction rs as [|r rs IH]; intros [|m ms]; try reflexivity.
  cbn. rewrite IH. now destruct (m =? 0).
Qed.

Theorem ratio_reduce_gen_eq_hand total ratios maximums values :
  ratio_reduce_gen total ratios maximums values = Ok (ratio_reduce total ratios maximums values).
Proof.
  unfold ratio_reduce_gen, ratio_reduce.
  rewrite mask_eq. generalize (zip_mask ratios maximums). intro rs.
  destruct (sumZ rs =? 0) eqn:E0; [reflexivity|].
  match goal with |- context [foldM ?f _ _] => set (body := f) end.
  assert (L : forall rs ms vs acc rem tr,
    bind (foldM body (combine (combine rs ms) vs) (acc, rem, tr)) (fun '(r, _, _) => Ok r)
    = Ok (acc ++ reduce_loop rs ms vs rem tr)).
  { clear. induction rs as [|r rs IH]; intros ms vs acc rem tr.
    - cbn. now rewrite app_nil_r.
    - destruct ms as [|m ms]; [cbn; now rewrite app_nil_r|].
      destruct vs as [|v vs]; [cbn; now rewrite app_nil_r|].
      cbn [combine foldM reduce_loop]. unfold body at 1.
      (* tolerant of `if c: A else: B` written as `if not c: B else: A` *)
      destruct (negb (r =? 0) && (0 <? tr)) eqn:C; cbn [negb];
        rewrite ?py_round_div_pos by lia; cbn [bind]; rewrite IH; now rewrite <- app_assoc. }
  exact (L rs maximums values [] total (sumZ rs)).
Qed.

Theorem ratio_distribute_gen_eq_hand total ratios minimums :
  ratio_distribute_gen total ratios minimums = ratio_distribute total ratios minimums.
Proof.
  unfold ratio_distribute_gen, ratio_distribute.
  match goal with |- context [foldM ?f _ _] => set (body := f) end.
  assert (L : forall rs ms acc tr rem,
    bind (foldM body (combine rs ms) (acc, tr, rem)) (fun '(d, _, _) => Ok d)
    = Ok (acc ++ distribute_loop rs ms rem tr)).
  { clear. induction rs as [|r rs IH]; intros ms acc tr rem.
    - cbn. now rewrite app_nil_r.
    - destruct ms as [|m ms]; [cbn; now rewrite app_nil_r|].
      cbn [combine foldM distribute_loop]. unfold body at 1.
      destruct (0 <? tr) eqn:C; cbn [negb];
        rewrite ?py_ceil_div_pos by lia; cbn [bind]; rewrite IH; now rewrite <- app_assoc. }
  destruct minimums as [[|m ms]|]; cbn [nonempty negb].
  - destruct (0 <? sumZ ratios) eqn:C; destruct (sumZ ratios <=? 0) eqn:C2; try lia; cbn [negb]; [|reflexivity].
    exact (L ratios [] [] (sumZ ratios) total).
  - rewrite mask_eq. generalize (zip_mask ratios (m :: ms)). intro rs.
    destruct (0 <? sumZ rs) eqn:C; destruct (sumZ rs <=? 0) eqn:C2; try lia; cbn [negb]; [|reflexivity].
    exact (L rs (m :: ms) [] (sumZ rs) total).
  - destruct (0 <? sumZ ratios) eqn:C; destruct (sumZ ratios <=? 0) eqn:C2; try lia; cbn [negb]; [|reflexivity].
    rewrite py_mul_list_single_len.
    exact (L ratios (repeat 0 (length ratios)) [] (sumZ ratios) total).
Qed.

(* Table._collapse_widths: the generated loop carries (widths, total_width, excess_width); the hand
   model recomputes the two sums from widths.  Equal for every fuel. *)
Lemma sel_eq ws al :
  map (fun '(w, a) => w) (filter (fun '(w, a) => a) (combine ws al)) = sel_wrapable ws al.
Proof.
  unfold sel_wrapable, zipw.
  rewrite (filter_ext (fun '(w, a) => a) snd) by (now intros [? ?]).
  apply map_ext. now intros [? ?].
Qed.

Theorem collapse_widths_gen_eq_hand fuel widths wrapable max_width :
  collapse_widths_gen fuel widths wrapable max_width = collapse_widths_fuel fuel widths wrapable max_width.
Proof.
  unfold collapse_widths_gen, collapse_widths_fuel.
  destruct (existsb (fun b => b) wrapable); [|reflexivity].
  match goal with |- context [while_loop _ ?c ?b _] => set (cond := c); set (body := b) end.
  match goal with |- bind _ ?p = _ => set (post := p) end.
  revert widths. induction fuel as [|fuel IH]; intro widths; [reflexivity|].
  cbn [while_loop collapse_loop]. unfold cond at 1.
  destruct (negb (sumZ widths =? 0) && (0 <? sumZ widths - max_width)) eqn:C; [|reflexivity].
  unfold body at 1. unfold collapse_step.
  rewrite sel_eq, py_max_list_spec.
  destruct (max_list (sel_wrapable widths wrapable)) as [mc|]; [|reflexivity].
  cbn [bind]. rewrite py_max_list_spec. fold (zipw widths wrapable).
  change (map (fun '(w, a) => if a && negb (w =? mc) then w else 0) (zipw widths wrapable))
    with (second_cands widths wrapable mc).
  destruct (max_list (second_cands widths wrapable mc)) as [sm|]; [|reflexivity].
  cbn [bind].
  change (map (fun '(w, a) => if (w =? mc) && a then 1 else 0) (zipw widths wrapable))
    with (max_ratios widths wrapable mc).
  fold (any_nonzero (max_ratios widths wrapable mc)).
  destruct (negb (any_nonzero (max_ratios widths wrapable mc)) || (mc - sm =? 0)); [reflexivity|].
  rewrite py_mul_list_single_len, ratio_reduce_gen_eq_hand. cbn [bind].
  apply IH.
Qed.

(* with the fuel the hand model supplies itself (RatioP.collapse_fuel_enough: it never runs out) *)
Corollary collapse_widths_gen_eq_hand_default widths wrapable max_width :
  collapse_widths_gen (collapse_fuel widths max_width) widths wrapable max_width
  = collapse_widths widths wrapable max_width.
Proof. apply collapse_widths_gen_eq_hand. Qed.
