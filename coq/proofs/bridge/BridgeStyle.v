(* Bridge (tie 1, T2): Style.__add__ regenerated statement by statement from rich/style.py
   (gen/T2_Style.v; the object built with self.__new__(Style) + attribute stores is the tuple of the
   seven attributes it sets) equals the hand model style_add / style_merge / style_add_opt of
   model/Style.v (C06, C03): colours, the two attribute words (the bit arithmetic), link, null flag.
   The hand model has no _link_id (random ids are abstracted away) and carries memo fields the
   Python code resets to None; the view below relates the two. *)
From RichModel Require Import Prelude T2Lib Color Style.
From RichGen Require Import T2_Style.

Definition sview (s : style) (lid : str) :=
  (s_color s, s_bgcolor s, s_attributes s, s_set_attributes s, s_link s, lid, s_null s).

(* which _link_id the sum carries *)
Definition add_lid (a b : style) (la lb : str) : str :=
  if s_null b then la else if s_null a then lb else if nonempty lb then lb else la.

Theorem style_add_gen_eq_hand a b la lb :
  style_add_gen color (sview a la) (Some (sview b lb)) = Ok (sview (style_add a b) (add_lid a b la lb)).
Proof.
  unfold style_add_gen, style_add, add_lid, sview. cbn [negb orb].
  destruct (s_null b) eqn:Nb; [reflexivity|].
  destruct (s_null a) eqn:Na; [now rewrite Nb|].
  unfold style_merge, color_or, link_or, str_truthy. cbn [s_color s_bgcolor s_attributes s_set_attributes s_link s_null].
  rewrite Na, Nb.
  destruct (s_color b), (s_bgcolor b), (s_link b) as [[|ch l]|]; reflexivity.
Qed.

Theorem style_add_gen_none a la : style_add_gen color (sview a la) None = Ok (sview (style_add_opt a None) la).
Proof. reflexivity. Qed.

(* the bit arithmetic alone: attribute words of the generated sum = those of style_merge *)
Corollary style_add_gen_words a b la lb out :
  s_null a = false -> s_null b = false ->
  style_add_gen color (sview a la) (Some (sview b lb)) = Ok out ->
  let '(_, _, attrs, set_attrs, _, _, _) := out in
  attrs = s_attributes (style_merge a b) /\ set_attrs = s_set_attributes (style_merge a b).
Proof.
  intros Na Nb. rewrite style_add_gen_eq_hand. unfold style_add. rewrite Na, Nb.
  intro H. injection H as <-. cbn. split; reflexivity.
Qed.
