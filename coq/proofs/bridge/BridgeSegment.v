(* Bridge (tie 1, T2): Segment.cell_length and Segment.adjust_line_length regenerated from
   rich/segment.py (gen/T2_Segment.v) equal the hand models of model/Segments.v (C13; used by every
   frame property).  A Segment NamedTuple is the triple (text, style, is_control); styles are opaque
   tokens.  Precondition: fuel above the width-table length and above every segment's text length
   (the generated set_cell_size pops characters on fuel). *)
From RichModel Require Import Prelude Ratio T2Lib Cells Segments.
From RichGen Require Import CellWidthTable T2_Cells T2_Segment.
From RichProofs.bridge Require Import BridgeLib BridgeCells.
From Coq Require Import ZifyBool Lia.

Definition seg_t (g : seg Z) : str * option Z * bool := (txt g, sty g, ctl g).

Lemma cell_length_gen_eq_hand g : cell_length_gen cell_len (seg_t g) = seg_len g.
Proof. destruct g as [t s c]. reflexivity. Qed.

Lemma line_length_eq line :
  sumZ (map (fun segment => cell_length_gen cell_len segment) (map seg_t line)) = line_len line.
Proof.
  unfold line_len. rewrite map_map. reflexivity.
Qed.

Theorem adjust_line_length_gen_eq_hand fuel line n style pad :
  (S (length CELL_WIDTHS) <= fuel)%nat -> Forall (fun g => (length (txt g) < fuel)%nat) line ->
  adjust_line_length_gen fuel cell_len (map seg_t line) n style pad
  = Ok (map seg_t (adjust_line_length line n style pad)).
Proof.
  intros Hf Hl. unfold adjust_line_length_gen, adjust_line_length.
  rewrite line_length_eq.
  destruct (line_len line <? n).
  { destruct pad; [|reflexivity]. rewrite map_app. cbn [map seg_t txt sty ctl].
    now rewrite py_mul_list_single. }
  destruct (n <? line_len line); [|reflexivity].
  match goal with |- context [for_ctl ?f _ _] => set (body := f) end.
  match goal with |- bind _ ?p = _ => set (post := p) end.
  assert (L : forall line acc cur, Forall (fun g => (length (txt g) < fuel)%nat) line ->
            bind (for_ctl body (map seg_t line) (acc, cur)) post
            = Ok (acc ++ map seg_t (crop_go line n cur))).
  { clear line Hl. induction line as [|g rest IH]; intros acc cur Hl.
    - cbn. now rewrite app_nil_r.
    - inversion Hl as [|? ? Hg Hrest]; subst.
      cbn [map for_ctl crop_go]. unfold body at 1. rewrite cell_length_gen_eq_hand.
      destruct g as [t s c]. cbn [seg_t txt sty ctl].
      destruct ((cur + seg_len (mkSeg t s c) <? n) || c).
      + cbn [bind]. change (t, s, c) with (seg_t (mkSeg t s c)).
        rewrite IH by assumption. now rewrite <- app_assoc.
      + cbn [txt] in Hg. rewrite set_cell_size_gen_eq_hand by assumption. cbn [bind].
        unfold post. reflexivity. }
  exact (L line [] 0 Hl).
Qed.
