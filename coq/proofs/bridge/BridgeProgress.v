(* Bridge (tie 1, T2): Task.remaining / elapsed / finished / percentage / time_remaining regenerated
   from rich/progress.py (gen/T2_Progress.v) equal the hand models of model/Progress.v (C12).  Floats
   are read as exact rationals on both sides (the abstraction documented in Progress.v); the
   properties Task reads (`self.finished`, `self.speed`, `self.remaining`, `get_time()`) enter the
   generated functions as arguments and are instantiated with the hand models here.
   Task.speed is not translated (iter()/next()). *)
From RichModel Require Import Prelude T2Lib T2LibQ Progress.
From RichGen Require Import ProgressLock T2_Progress.
From Coq Require Import QArith Qround Qminmax.

Theorem remaining_gen_eq_hand t : remaining_gen (t_total t) (t_completed t) = remaining t.
Proof. reflexivity. Qed.

Theorem elapsed_gen_eq_hand t now : elapsed_gen now (t_start t) (t_stop t) = elapsed t now.
Proof. unfold elapsed_gen, elapsed. destruct (t_start t), (t_stop t); reflexivity. Qed.

Theorem finished_gen_eq_hand t : finished_gen (t_fin t) = finished t.
Proof. unfold finished_gen, finished, is_some. now destruct (t_fin t). Qed.

Theorem percentage_gen_eq_hand t : percentage_gen (t_total t) (t_completed t) = Ok (percentage t).
Proof.
  unfold percentage_gen, percentage, py_qdiv.
  change (Qeq_bool (t_total t) q_zero) with (Qeq_bool (t_total t) 0).
  destruct (Qeq_bool (t_total t) 0); reflexivity.
Qed.

Theorem time_remaining_gen_eq_hand t :
  time_remaining_gen (finished t) (speed t) (remaining t) = Ok (option_map inject_Z (time_remaining t)).
Proof.
  unfold time_remaining_gen, time_remaining, py_qdiv.
  destruct (finished t); [reflexivity|].
  destruct (speed t) as [sp|]; [|reflexivity].
  change (Qeq_bool sp q_zero) with (Qeq_bool sp 0).
  destruct (Qeq_bool sp 0); reflexivity.
Qed.
