(* Bridge (tie 1, T2): Span.split / move / right_crop regenerated from rich/text.py (gen/T2_Span.v)
   equal the hand models of model/TextOps.v that C05/C02 reason about (style = opaque token). *)
From RichModel Require Import Prelude TextOps.
From RichGen Require Import T2_Span.

Theorem span_split_gen_eq_hand sp off : span_split_gen sp off = span_split sp off.
Proof.
  destruct sp as [[s e] st]. unfold span_split_gen, span_split.
  destruct (off <? s); [reflexivity|]. destruct (e <=? off); reflexivity.
Qed.

Theorem span_move_gen_eq_hand sp off : span_move_gen sp off = span_move sp off.
Proof. destruct sp as [[s e] st]. reflexivity. Qed.

Theorem span_right_crop_gen_eq_hand sp off : span_right_crop_gen sp off = span_right_crop sp off.
Proof. destruct sp as [[s e] st]. reflexivity. Qed.
