(* Bridge (tie 1, T2): ProgressBar.__rich_console__ regenerated from rich/progress_bar.py
   (gen/T2_ProgressBar.v; the generator is the list of segments it yields; console.get_style and
   self._render_pulse are function arguments) against the hand model Frames.pbar_text (C08): on the
   non-pulse path the texts of the yielded segments, concatenated, are pbar_text.  No precondition:
   `int(a / total)` sits under `if self.total`, and py_trunc_div = Z.quot for every non-zero divisor. *)
From RichModel Require Import Prelude Ratio T2Lib Frames.
From RichGen Require Import FrameBoxes T2_ProgressBar.
From RichProofs.bridge Require Import BridgeLib.
From Coq Require Import ZifyBool Lia.

Lemma py_trunc_div_nz n d : d <> 0 -> py_trunc_div n d = Ok (Z.quot n d).
Proof.
  intro H. unfold py_trunc_div, trunc_div.
  destruct (d =? 0) eqn:E; [lia|]. destruct (0 <? d); [reflexivity|].
  now rewrite Z.quot_opp_opp.
Qed.

Definition seg_text (g : str * option Z * bool) : str := fst (fst g).

Ltac zero H := apply Z.eqb_eq in H; rewrite H in *.

Theorem pbar_console_gen_eq_hand rp gs pw total completed st cst fst_ W lw ao no_color cs t :
  exists out,
    pbar_console_gen rp gs pw false total completed st cst fst_ W lw ao no_color cs = Ok out /\
    concat (map seg_text out)
    = pbar_text total completed pw false t (lw || ao)
                (match cs with Some _ => true | None => false end) no_color W.
Proof.
  unfold pbar_console_gen, pbar_text.
  assert (Hw : Z.min (match pw with Some o => if negb (o =? 0) then o else W | None => W end) W
               = Z.min (width_or pw W) W).
  { unfold width_or. destruct pw as [x|]; [|reflexivity]. now destruct (x =? 0). }
  rewrite Hw. remember (Z.min (width_or pw W) W) as width eqn:Ewidth.
  remember (Z.min total (Z.max 0 completed)) as comp eqn:Ecomp.
  unfold str_repeat, py_mul_list.
  assert (Hh : (if negb (total =? 0)
                then do q <- py_trunc_div (width * 2 * comp) total; Ok q
                else Ok (width * 2))
               = Ok (if total =? 0 then width * 2 else Z.quot (width * 2 * comp) total)).
  { destruct (total =? 0) eqn:E; [reflexivity|]. cbn [negb]. now rewrite py_trunc_div_nz by lia. }
  rewrite Hh. cbn [bind].
  remember (if total =? 0 then width * 2 else Z.quot (width * 2 * comp) total) as halves eqn:Eh.
  remember (halves / 2) as bc eqn:Ebc. remember (halves mod 2) as hc eqn:Ehc.
  remember (width - bc - hc) as rem eqn:Erem.
  eexists; split; [reflexivity|].
  destruct (bc =? 0) eqn:B0; destruct (hc =? 0) eqn:H0; destruct no_color; cbn [negb andb];
    try (destruct (rem =? 0) eqn:R0); destruct cs as [u|]; cbn [negb andb];
    try (destruct (rem - 1 =? 0) eqn:R1);
    repeat match goal with
           | H : (_ =? 0) = true |- _ => apply Z.eqb_eq in H; rewrite ?H in *; clear H
           end;
    cbn [negb andb map concat app seg_text fst Z.to_nat repeat];
    rewrite ?app_nil_r, <- ?app_assoc; try reflexivity.
Qed.
