(* Generic facts about the run-time library of the T2 translator (model/T2Lib.v), used by the
   bridge lemmas  f_gen = f_hand. *)
From RichModel Require Import Prelude Ratio T2Lib.
From Coq Require Import ZifyBool Lia.

Lemma py_round_div_pos n d : 0 < d -> py_round_div n d = Ok (round_div n d).
Proof.
  intro H. unfold py_round_div.
  destruct (d =? 0) eqn:E; [lia|]. destruct (0 <? d) eqn:E2; [reflexivity|lia].
Qed.

Lemma py_ceil_div_pos n d : 0 < d -> py_ceil_div n d = Ok (ceil_div n d).
Proof.
  intro H. unfold py_ceil_div.
  destruct (d =? 0) eqn:E; [lia|]. destruct (0 <? d) eqn:E2; [reflexivity|lia].
Qed.

Lemma py_trunc_div_pos n d : 0 < d -> py_trunc_div n d = Ok (trunc_div n d).
Proof.
  intro H. unfold py_trunc_div.
  destruct (d =? 0) eqn:E; [lia|]. destruct (0 <? d) eqn:E2; [reflexivity|lia].
Qed.

Lemma to_nat_zlen {A} (l : list A) : Z.to_nat (zlen l) = length l.
Proof. unfold zlen. apply Nat2Z.id. Qed.

Lemma concat_repeat_single {A} (x : A) n : concat (repeat [x] n) = repeat x n.
Proof. induction n as [|n IH]; [reflexivity|]. cbn. now rewrite IH. Qed.

Lemma py_mul_list_single {A} (x : A) n : py_mul_list [x] n = repeat x (Z.to_nat n).
Proof. unfold py_mul_list. apply concat_repeat_single. Qed.

Lemma py_mul_list_single_len {A B} (x : A) (l : list B) : py_mul_list [x] (zlen l) = repeat x (length l).
Proof. now rewrite py_mul_list_single, to_nat_zlen. Qed.

Lemma py_pop_snoc {A} (l : list A) x : py_pop (l ++ [x]) = Ok (x, l).
Proof. unfold py_pop. rewrite rev_app_distr. cbn. now rewrite rev_involutive. Qed.

Lemma py_pop_nil {A} : @py_pop A [] = Crash K_IndexError.
Proof. reflexivity. Qed.

Lemma py_append_last_snoc {A} (l : list (list A)) y x : py_append_last (l ++ [y]) x = Ok (l ++ [y ++ [x]]).
Proof. unfold py_append_last. rewrite rev_app_distr. cbn. now rewrite rev_involutive. Qed.

Lemma py_idx_last_snoc {A} (l : list A) y : py_idx (l ++ [y]) (-1) = Ok y.
Proof.
  unfold py_idx, t2_nth. cbn [Z.leb Z.compare].
  replace (0 <=? -1) with false by reflexivity.
  unfold zlen. rewrite app_length. cbn [length].
  destruct (- Z.of_nat (length l + 1) <=? -1) eqn:E; [|lia].
  replace (Z.to_nat (Z.of_nat (length l + 1) + -1)) with (length l) by lia.
  rewrite nth_error_app2 by lia. now rewrite Nat.sub_diag.
Qed.

Lemma mapM_ok {X Y} (f : X -> res Y) (g : X -> Y) l :
  (forall x, In x l -> f x = Ok (g x)) -> mapM f l = Ok (map g l).
Proof.
  induction l as [|x l IH]; intro H; [reflexivity|].
  cbn. rewrite H by (now left). cbn. rewrite IH by (intros; apply H; now right). reflexivity.
Qed.

Lemma while_loop_mono {R S} (cond : S -> bool) (body : S -> res (lctl R S)) :
  forall f f' s r, (f <= f')%nat -> while_loop f cond body s = Ok r -> while_loop f' cond body s = Ok r.
Proof.
  induction f as [|f IH]; intros f' s r Hle H; [discriminate|].
  destruct f' as [|f']; [lia|].
  cbn [while_loop] in *. destruct (cond s); [|exact H].
  destruct (body s) as [c|e|k]; cbn [bind] in *; try discriminate.
  destruct c; try exact H. apply IH; [lia|exact H].
Qed.

Lemma py_max_list_spec l :
  py_max_list l = match max_list l with Some x => Ok x | None => Crash K_ValueError end.
Proof. destruct l; reflexivity. Qed.
