(* Bridge (tie 1, T2): Measurement.normalize / with_maximum / with_minimum / clamp, Padding.unpack,
   Table._get_padding_width / _extra_width regenerated from the source (gen/T2_Measure.v) equal the
   hand models used by C01/C08/C09 (model/Frames.v) and C07 (model/Table.v). *)
From RichModel Require Import Prelude Ratio T2Lib Frames Table.
From RichGen Require Import T2_Measure.
From RichProofs.bridge Require Import BridgeLib.
From Coq Require Import ZifyBool Lia.

Theorem normalize_gen_eq_hand m : normalize_gen m = m_normalize m.
Proof. destruct m; reflexivity. Qed.
Theorem normalize_gen_eq_hand_table m : normalize_gen m = tm_normalize m.
Proof. destruct m; reflexivity. Qed.

Theorem with_maximum_gen_eq_hand m w : with_maximum_gen m w = m_with_maximum w m.
Proof. destruct m; reflexivity. Qed.
Theorem with_maximum_gen_eq_hand_table m w : with_maximum_gen m w = tm_with_maximum m w.
Proof. destruct m; reflexivity. Qed.

Theorem with_minimum_gen_eq_hand m w : with_minimum_gen m w = tm_with_minimum m w.
Proof. destruct m; reflexivity. Qed.

Theorem clamp_gen_eq_hand m mn mx : clamp_gen m mn mx = tm_clamp m mn mx.
Proof.
  unfold clamp_gen, tm_clamp.
  destruct mn, mx; rewrite ?with_minimum_gen_eq_hand, ?with_maximum_gen_eq_hand_table; reflexivity.
Qed.

(* Padding.unpack on a tuple of ints (the int case of the Union is resolved by the caller) *)
Theorem unpack_gen_eq_hand pad : unpack_gen pad = unpack pad.
Proof.
  destruct pad as [|a [|b [|c [|d [|e r]]]]]; try reflexivity.
  unfold unpack_gen, unpack, zlen. cbn [length].
  destruct (Z.of_nat (S (S (S (S (S (length r))))))  =? 1) eqn:E1; [lia|].
  destruct (Z.of_nat (S (S (S (S (S (length r))))))  =? 2) eqn:E2; [lia|].
  destruct (Z.of_nat (S (S (S (S (S (length r))))))  =? 4) eqn:E4; [lia|]. reflexivity.
Qed.

(* Table._get_padding_width(column_index), self.padding already unpacked as in model/Table.v *)
Theorem get_padding_width_gen_eq_hand o idx :
  get_padding_width_gen (o_pad o) (o_collapse o) (Z.of_nat idx) = padding_width o idx.
Proof.
  unfold get_padding_width_gen, padding_width, pad_left, pad_right.
  destruct (o_pad o) as [[[t r] b] l]. destruct (o_collapse o); cbn [andb]; [|reflexivity].
  destruct (0 <? Z.of_nat idx) eqn:E; destruct (0 <? idx)%nat eqn:E2; try reflexivity; lia.
Qed.

(* Table._extra_width: self.box as "is not None", self.columns by its length *)
Theorem extra_width_gen_eq_hand o ncols :
  extra_width_gen (if o_box o then Some tt else None) (o_edge o) (repeat tt ncols) = extra_width o ncols.
Proof.
  unfold extra_width_gen, extra_width, zlen. rewrite repeat_length.
  destruct (o_box o), (o_edge o); cbn [andb]; lia.
Qed.
