(* Bridge (tie 1, T2): LiveRender.position_cursor / restore_cursor regenerated statement by statement
   (gen/T2_Live.v) equal the control strings of model/Live.v (which are built from the T1 facts of
   gen/LiveCodes.v): two independent readings of the same source lines must agree. *)
From RichModel Require Import Prelude T2Lib Live.
From RichGen Require Import LiveCodes T2_Live.

Theorem position_cursor_gen_eq_hand sh : position_cursor_gen sh = position_cursor sh.
Proof. destruct sh as [[w h]|]; reflexivity. Qed.

Theorem restore_cursor_gen_eq_hand sh : restore_cursor_gen sh = restore_cursor sh.
Proof.
  destruct sh as [[w h]|]; [|reflexivity].
  unfold restore_cursor_gen, restore_cursor, py_mul_list, py_repeat, rc_off. now rewrite Z.add_0_r.
Qed.
