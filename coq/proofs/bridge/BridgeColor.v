(* Bridge (tie 1, T2): Color.get_ansi_codes regenerated from rich/color.py (gen/T2_Color.v) equals the
   hand model of model/Color.v that C18 / C03 reason about.  The generated function takes the three
   attributes it reads: self.type as the IntEnum integer (members read from the class body of the
   source on every run), self.number, self.triplet as a plain triple. *)
From RichModel Require Import Prelude T2Lib Color.
From RichGen Require Import T2_Color.

Lemma t2_uint_digits_eq u : t2_uint_digits u = uint_digits u.
Proof. induction u; cbn; congruence. Qed.

Lemma py_str_int_eq z : py_str_int z = str_of_Z z.
Proof. destruct z; cbn; now rewrite ?t2_uint_digits_eq. Qed.

Definition triplet_tuple (t : ColorTriplet) : Z * Z * Z := (t_red t, t_green t, t_blue t).

Theorem get_ansi_codes_gen_eq_hand c fg :
  get_ansi_codes_gen (ColorType_int (c_type c)) (c_number c) (option_map triplet_tuple (c_triplet c)) fg
  = get_ansi_codes c fg.
Proof.
  unfold get_ansi_codes_gen, get_ansi_codes.
  destruct (c_type c); cbn [ColorType_int Z.eqb Pos.eqb];
    try (destruct (c_number c) as [n|]; cbn [assert_some bind]; [|reflexivity]);
    try (destruct (c_triplet c) as [t|]; cbn [assert_some bind option_map]; [|reflexivity]);
    rewrite ?py_str_int_eq; try reflexivity.
  - destruct fg; reflexivity.
  - destruct (n <? 8), fg; reflexivity.
  - destruct fg; reflexivity.
  - destruct fg; reflexivity.
  - destruct (n <? 8), fg; reflexivity.
Qed.
