(* C01: fitting (sfits) and new-line termination (nlterm) of the frame renderables over ABSTRACT
   children: split_lines algebra, Padding, Panel, Align, Constrain, Styled, Rule, Bar, ProgressBar, Tree. *)
From RichModel Require Import Prelude Cells Segments SpecCells Frames SpecFrames Layout SpecLayout.
From RichGen Require Import FrameBoxes.
From RichProofs Require Import CellsP SegmentsP SegmentsP2 FramesP FramesP2 FramesP3 LayoutP.
From Coq Require Import ZifyBool.

(* two names for the same segment: SegmentsP2.nlseg (used by LayoutP.nlterm) and Frames.nlseg *)
Lemma nlseg_eq : SegmentsP2.nlseg = Frames.nlseg.
Proof. reflexivity. Qed.

Notation NLS := Frames.nlseg.

(* ---------------------------------------------------------------- (1) split_lines algebra *)
Lemma split_text_done : forall fuel text st (line : list segZ) done,
  split_text Z fuel text st line done =
  (fst (split_text Z fuel text st line []), snd (split_text Z fuel text st line []) ++ done).
Proof.
  induction fuel as [|f IH]; intros text st line done; [reflexivity|].
  cbn [split_text]. destruct text as [|c text]; [reflexivity|].
  destruct (partition_nl (c :: text)) as [[a nl] b].
  destruct nl.
  - rewrite IH. rewrite (IH b st [] [_]). cbn [fst snd]. rewrite <- app_assoc. reflexivity.
  - apply IH.
Qed.

Lemma split_lines_go_done : forall (segs line : list segZ) done,
  split_lines_go Z segs line done = rev done ++ split_lines_go Z segs line [].
Proof.
  induction segs as [|g segs IH]; intros line done.
  - cbn [split_lines_go]. destruct line; [cbn; rewrite app_nil_r; reflexivity|]. reflexivity.
  - cbn [split_lines_go]. destruct (has_nl (txt g) && negb (ctl g)).
    + rewrite split_text_done.
      destruct (split_text Z (S (length (txt g))) (txt g) (sty g) line []) as [l1 d1]. cbn [fst snd].
      rewrite (IH l1 (d1 ++ done)), (IH l1 d1), rev_app_distr, <- app_assoc. reflexivity.
    + apply IH.
Qed.

Lemma split_lines_go_app_nl : forall (a b line : list segZ) done,
  split_lines_go Z (a ++ NLS :: b) line done =
  split_lines_go Z (a ++ [NLS]) line done ++ split_lines_go Z b [] [].
Proof.
  induction a as [|g a IH]; intros b line done.
  - cbn [app]. cbn [split_lines_go]. cbn. rewrite split_lines_go_done. reflexivity.
  - cbn [app split_lines_go]. destruct (has_nl (txt g) && negb (ctl g)).
    + destruct (split_text Z (S (length (txt g))) (txt g) (sty g) line done) as [l1 d1]. apply IH.
    + apply IH.
Qed.

Lemma split_lines_app_nl : forall a b : list segZ,
  split_lines ((a ++ [NLS]) ++ b) = split_lines (a ++ [NLS]) ++ split_lines b.
Proof.
  intros a b. unfold split_lines. rewrite <- app_assoc. cbn [app]. apply split_lines_go_app_nl.
Qed.

Lemma split_lines_nil : split_lines (@nil segZ) = [].
Proof. reflexivity. Qed.

Lemma sfits_nil : forall W, sfits W [].
Proof. intros W. unfold sfits. rewrite split_lines_nil. constructor. Qed.

Lemma sfits_app : forall W a b, nlterm a -> sfits W a -> sfits W b -> sfits W (a ++ b).
Proof.
  intros W a b [->|[a' ->]] Ha Hb; [exact Hb|].
  unfold sfits in *. change SegmentsP2.nlseg with NLS in *.
  rewrite split_lines_app_nl. apply Forall_app_intro; assumption.
Qed.

Lemma nlterm_app : forall a b, nlterm a -> nlterm b -> nlterm (a ++ b).
Proof.
  intros a b Ha [->|[b' ->]]; [rewrite app_nil_r; exact Ha|].
  right. exists (a ++ b'). apply app_assoc.
Qed.

Lemma nlterm_nil : nlterm [].
Proof. left. reflexivity. Qed.

Lemma nlterm_snoc : forall s, nlterm (s ++ [NLS]).
Proof. intros s. right. exists s. reflexivity. Qed.

(* the total width of the lines never exceeds the total width of the stream: widths are >= 0 and
   split_lines only drops the new-line characters *)
Definition sumL (ls : list (list segZ)) : Z := sumZ (map line_len ls).

Lemma sumL_cons l ls : sumL (l :: ls) = line_len l + sumL ls.
Proof. reflexivity. Qed.

Lemma sumL_app a b : sumL (a ++ b) = sumL a + sumL b.
Proof. unfold sumL. rewrite map_app. apply sumZ_app. Qed.

Lemma sumL_rev ls : sumL (rev ls) = sumL ls.
Proof.
  induction ls as [|l ls IH]; [reflexivity|]. cbn [rev]. rewrite sumL_app, IH, !sumL_cons.
  change (sumL []) with 0. lia.
Qed.

Lemma line_len_rev (l : list segZ) : line_len (rev l) = line_len l.
Proof.
  induction l as [|g l IH]; [reflexivity|]. cbn [rev]. rewrite line_len_app, IH, line_len_single, line_len_cons. lia.
Qed.

Lemma sumL_nonneg ls : 0 <= sumL ls.
Proof.
  induction ls as [|l ls IH]; [unfold sumL; cbn; lia|]. rewrite sumL_cons. pose proof (line_len_nonneg l). lia.
Qed.

Lemma sumL_bound ls l : In l ls -> line_len l <= sumL ls.
Proof.
  induction ls as [|x ls IH]; intros H; [destruct H|]. rewrite sumL_cons.
  pose proof (line_len_nonneg x). pose proof (sumL_nonneg ls).
  destruct H as [->|H]; [lia|]. specialize (IH H). lia.
Qed.

Lemma partition_nl_len : forall s a nl b, partition_nl s = (a, nl, b) -> cell_len a + cell_len b <= cell_len s.
Proof.
  induction s as [|c s IH]; intros a nl b H.
  - cbn in H. injection H as <- <- <-. change (cell_len []) with 0. lia.
  - cbn [partition_nl] in H. rewrite cell_len_cons. pose proof (char_size_range c) as Hc.
    destruct (c =? NL).
    + injection H as <- <- <-. change (cell_len []) with 0. lia.
    + destruct (partition_nl s) as [[a' nl'] b']. injection H as <- <- <-.
      specialize (IH a' nl' b' eq_refl). rewrite cell_len_cons. lia.
Qed.

Lemma split_text_sum : forall fuel text st (line : list segZ) done,
  line_len (fst (split_text Z fuel text st line done)) + sumL (snd (split_text Z fuel text st line done))
  <= cell_len text + line_len line + sumL done.
Proof.
  induction fuel as [|f IH]; intros text st line done.
  - cbn [split_text fst snd]. pose proof (cell_len_nonneg text). lia.
  - cbn [split_text]. destruct text as [|c text]; [cbn [fst snd]; change (cell_len []) with 0; lia|].
    destruct (partition_nl (c :: text)) as [[a nl] b] eqn:EP.
    pose proof (partition_nl_len _ _ _ _ EP) as HP.
    set (line' := match a with [] => line | _ :: _ => mkSeg a st false :: line end).
    assert (HL : line_len line' <= cell_len a + line_len line).
    { unfold line'. destruct a as [|x a]; [change (cell_len []) with 0; lia|].
      rewrite line_len_cons. unfold seg_len. cbn [ctl txt]. lia. }
    destruct nl.
    + specialize (IH b st [] (rev line' :: done)). rewrite sumL_cons, line_len_rev in IH.
      change (line_len []) with 0 in IH. lia.
    + specialize (IH b st line' done). lia.
Qed.

Lemma split_lines_go_sum : forall (segs line : list segZ) done,
  sumL (split_lines_go Z segs line done) <= line_len segs + line_len line + sumL done.
Proof.
  induction segs as [|g segs IH]; intros line done.
  - cbn [split_lines_go]. rewrite sumL_rev. change (line_len []) with 0.
    destruct line as [|x line]; [change (line_len []) with 0; lia|].
    rewrite sumL_cons, line_len_rev. lia.
  - cbn [split_lines_go]. rewrite line_len_cons.
    destruct (has_nl (txt g) && negb (ctl g)) eqn:E.
    + pose proof (split_text_sum (S (length (txt g))) (txt g) (sty g) line done) as HS.
      destruct (split_text Z (S (length (txt g))) (txt g) (sty g) line done) as [l1 d1]. cbn [fst snd] in HS.
      specialize (IH l1 d1). unfold seg_len.
      destruct (ctl g); [rewrite andb_false_r in E; discriminate|]. lia.
    + specialize (IH (g :: line) done). rewrite line_len_cons in IH. lia.
Qed.

Lemma split_lines_le : forall (s l : list segZ), In l (split_lines s) -> line_len l <= line_len s.
Proof.
  intros s l H. apply sumL_bound in H. pose proof (split_lines_go_sum s [] []) as HS.
  unfold split_lines in H. change (line_len []) with 0 in HS. change (sumL []) with 0 in HS. lia.
Qed.

(* whatever the new lines inside: a stream of total width <= W fits W *)
Lemma sfits_total : forall W (s : list segZ), line_len s <= W -> sfits W s.
Proof.
  intros W s H. unfold sfits. apply Forall_forall. intros l Hl. apply split_lines_le in Hl. lia.
Qed.

Lemma seg_len_nlseg : seg_len NLS = 0.
Proof. vm_compute. reflexivity. Qed.

Lemma line_len_snoc_nl (l : list segZ) : line_len (l ++ [NLS]) = line_len l.
Proof. rewrite line_len_app, line_len_single, seg_len_nlseg. lia. Qed.

Lemma sfits_single_seg : forall W s, cell_len s <= W ->
  sfits W [mkSeg s None false; NLS] /\ sfits W [mkSeg s None false].
Proof.
  intros W s H. split; apply sfits_total.
  - change [mkSeg s None false; NLS] with ([mkSeg s None false] ++ [NLS]).
    rewrite line_len_snoc_nl, line_len_seg1. exact H.
  - rewrite line_len_seg1. exact H.
Qed.

Lemma sfits_line_nl : forall W (l : list segZ), line_len l <= W -> sfits W (l ++ [NLS]).
Proof. intros W l H. apply sfits_total. rewrite line_len_snoc_nl. exact H. Qed.

Lemma stream_of_cons l ls : stream_of (l :: ls) = (l ++ [NLS]) ++ stream_of ls.
Proof. reflexivity. Qed.

Lemma nlterm_stream_of : forall ls, nlterm (stream_of ls).
Proof.
  induction ls as [|l ls IH]; [apply nlterm_nil|]. rewrite stream_of_cons.
  apply nlterm_app; [apply nlterm_snoc|exact IH].
Qed.

(* no new-line-freeness needed: a line containing new lines only splits into narrower pieces *)
Lemma sfits_stream_of : forall W ls, Forall (fun l => line_len l <= W) ls -> sfits W (stream_of ls).
Proof.
  intros W ls H. induction H as [|l ls Hl _ IH]; [apply sfits_nil|]. rewrite stream_of_cons.
  apply sfits_app; [apply nlterm_snoc|apply sfits_line_nl; exact Hl|exact IH].
Qed.

Lemma str_lines_stream_eq ls : str_lines_stream ls = stream_of (map (fun l => [mkSeg l None false]) ls).
Proof.
  induction ls as [|l ls IH]; [reflexivity|].
  unfold str_lines_stream in *. cbn [flat_map map]. rewrite stream_of_cons, IH. reflexivity.
Qed.

Lemma nlterm_str_lines_stream : forall ls, nlterm (str_lines_stream ls).
Proof. intros ls. rewrite str_lines_stream_eq. apply nlterm_stream_of. Qed.

Lemma sfits_str_lines_stream : forall W ls, Forall (fun l => cell_len l <= W) ls -> sfits W (str_lines_stream ls).
Proof.
  intros W ls H. rewrite str_lines_stream_eq. apply sfits_stream_of.
  apply Forall_forall. intros x Hx. apply in_map_iff in Hx as [l [<- Hl]].
  rewrite line_len_seg1. rewrite Forall_forall in H. apply H. exact Hl.
Qed.

(* ---------------------------------------------------------------- render_lines facts *)
Lemma render_lines_small c w st pad : w < 1 -> render_lines c w st pad = [].
Proof.
  intros H. rewrite render_lines_eq. unfold render_at. destruct (w <? 1) eqn:E; [|lia].
  destruct st; reflexivity.
Qed.

Lemma render_lines_true_len c w st l : 0 <= w -> In l (render_lines c w st true) -> line_len l = w.
Proof.
  intros Hw H. rewrite render_lines_eq in H. apply in_map_iff in H as [x [<- _]].
  apply adjust_len_true. exact Hw.
Qed.

Lemma Forall_repeat_intro {A} (P : A -> Prop) x n : P x -> Forall P (repeat x n).
Proof. intros H. apply Forall_forall. intros y Hy. apply repeat_spec in Hy. subst. exact H. Qed.

(* ---------------------------------------------------------------- (2) Padding *)
Lemma padding_width_bounds c r l ex W : 0 <= l -> 0 <= r -> 0 <= W -> 0 <= padding_width c r l ex W <= W.
Proof.
  intros Hl Hr HW. unfold padding_width. pose proof (measurement_get_nonneg c W). destruct ex; lia.
Qed.

Lemma padding_lines_len : forall c t r b l ex W, 0 <= l -> 0 <= r -> 0 <= W ->
  Forall (fun ln => line_len ln <= W) (padding_lines c t r b l None ex W).
Proof.
  intros c t r b l ex W Hl Hr HW. unfold padding_lines. cbv zeta.
  pose proof (padding_width_bounds c r l ex W Hl Hr HW) as Hb.
  set (width := padding_width c r l ex W) in *.
  rewrite set_shape_none.
  assert (HB : line_len [mkSeg (spaces width) (@None Z) false] <= W)
    by (rewrite line_len_spaces_seg by lia; lia).
  apply Forall_app_intro; [apply Forall_repeat_intro; exact HB|].
  apply Forall_app_intro; [|apply Forall_repeat_intro; exact HB].
  destruct (width - l - r <? 1) eqn:E.
  - rewrite render_lines_small by lia. constructor.
  - apply Forall_forall. intros x Hx. apply in_map_iff in Hx as [ln [<- Hln]].
    apply in_map_iff in Hln as [y [<- _]].
    rewrite !line_len_app, adjust_len_true by lia. rewrite !line_len_opt_space by lia. lia.
Qed.

Theorem padding_sfits : forall c t r b l ex W, 0 <= l -> 0 <= r -> 0 <= W ->
  sfits W (stream_of (padding_lines c t r b l None ex W)).
Proof. intros. apply sfits_stream_of. apply padding_lines_len; assumption. Qed.

Lemma padding_child_sfits : forall c t r b l ex W, 0 <= l -> 0 <= r -> 0 <= W ->
  sfits W (crender (padding_child c t r b l None ex) W) /\ nlterm (crender (padding_child c t r b l None ex) W).
Proof.
  intros. cbn [padding_child crender]. split; [apply padding_sfits; assumption|apply nlterm_stream_of].
Qed.

(* ---------------------------------------------------------------- (3) Panel *)
Lemma panel_child_width_bounds : forall c o W, 2 <= W ->
  (match p_width o with Some pw => 2 <= pw | None => True end) ->
  (p_title o <> [] -> 4 <= W) ->
  0 <= panel_child_width c o W /\ panel_child_width c o W + 2 <= W /\
  (p_title o <> [] -> 2 <= panel_child_width c o W).
Proof.
  intros c o W HW Hpw Ht. unfold panel_child_width.
  set (width := match p_width o with None => W | Some pw => Z.min W pw end).
  assert (Hwd : 2 <= width <= W) by (unfold width; destruct (p_width o); lia).
  set (base := if p_expand o then width - 2 else snd (measurement_get (panel_inner c o) (width - 2))).
  assert (Hbase : 0 <= base <= width - 2).
  { unfold base. destruct (p_expand o); [lia|].
    pose proof (measurement_get_nonneg (panel_inner c o) (width - 2)).
    pose proof (mget_le (panel_inner c o) (width - 2)) as M. unfold mget in M. lia. }
  destruct (p_title o) as [|t0 title] eqn:ET.
  - split; [lia|]. split; [lia|]. intros X. contradiction.
  - pose proof (cell_len_nonneg (panel_title (t0 :: title))).
    assert (4 <= W) by (apply Ht; discriminate). lia.
Qed.

Lemma panel_lines_len : forall c o W cW', 2 <= W -> W <= cW' ->
  (match p_width o with Some pw => 2 <= pw | None => True end) ->
  (p_title o <> [] -> 4 <= W) ->
  Forall (fun l => line_len l = panel_child_width c o W + 2) (panel_lines false c o W cW').
Proof.
  intros c o W cW' HW HcW Hpw Ht.
  destruct (panel_child_width_bounds c o W HW Hpw Ht) as [Hc0 [Hc1 Hc2]].
  unfold panel_lines. cbv zeta.
  set (cwid := panel_child_width c o W) in *.
  set (box := box_substitute (p_box o) (p_legacy o) (p_safe o) (p_ascii o)).
  replace (cwid + 2 - 2) with cwid by lia. replace (cwid + 2 - 4) with (cwid - 2) by lia.
  set (bs := p_border o).
  constructor; [|apply Forall_app_intro].
  - destruct (p_title o) as [|t0 title] eqn:ET.
    + rewrite line_len_seg1. unfold box_top. apply box_edge_len; try apply box_char_w1. exact Hc0.
    + assert (H2 : 2 <= cwid) by (apply Hc2; discriminate).
      set (t := text_align (panel_title (t0 :: title)) (p_title_align o) (cwid - 2) (box_char box 0 1)).
      assert (HT : cell_len t = cwid - 2) by (apply text_align_len; [apply box_char_w1|lia]).
      rewrite !line_len_cons. change (line_len []) with 0.
      unfold seg_len. cbn [ctl txt]. unfold text_line.
      rewrite truncate_fold_id by lia. rewrite HT.
      rewrite !cell_len_cons. change (cell_len []) with 0.
      rewrite !(box_char_w1 box). lia.
  - apply Forall_forall. intros x Hx. apply in_map_iff in Hx as [ln [<- Hln]].
    apply render_lines_true_len in Hln; [|exact Hc0].
    rewrite line_len_cons, line_len_app, Hln, line_len_seg1.
    unfold seg_len. cbn [ctl txt]. rewrite !cell_len_cons. change (cell_len []) with 0.
    rewrite !(box_char_w1 box). lia.
  - constructor; [|constructor]. rewrite line_len_seg1. unfold box_bottom.
    apply box_edge_len; try apply box_char_w1. exact Hc0.
Qed.

Theorem panel_sfits : forall c o W cW', 2 <= W -> W <= cW' ->
  nonneg4 (p_pad o) = true ->
  (match p_width o with Some pw => 2 <= pw | None => True end) ->
  (p_title o <> [] -> 5 <= W /\ (match p_width o with Some pw => 5 <= pw | None => True end)) ->
  sfits W (stream_of (panel_lines false c o W cW')).
Proof.
  intros c o W cW' HW HcW _ Hpw Ht.
  assert (Ht' : p_title o <> [] -> 4 <= W) by (intros X; destruct (Ht X); lia).
  apply sfits_stream_of.
  pose proof (panel_lines_len c o W cW' HW HcW Hpw Ht') as HL.
  destruct (panel_child_width_bounds c o W HW Hpw Ht') as [_ [Hc1 _]].
  eapply Forall_impl; [|exact HL]. cbv beta. intros l Hl. lia.
Qed.

(* ---------------------------------------------------------------- (4) Align, Constrain, Styled *)
Lemma fold_max_le W (ls : list line) : 0 <= W ->
  Forall (fun l => line_len l <= W) ls -> fold_right Z.max 0 (map line_len ls) <= W.
Proof. intros HW H. induction H as [|l ls Hl _ IH]; cbn [map fold_right]; lia. Qed.

Lemma align_lines_len : forall c how pad aw W cW', 1 <= W ->
  (let inner := Z.min (match aw with None => snd (mget c cW') | Some x => Z.min (snd (mget c cW')) x end) W in
   sfits W (render_at c inner)) ->
  Forall (fun l => line_len l <= W) (align_lines c how pad aw None W cW').
Proof.
  intros c how pad aw W cW' HW Hfit. cbv zeta in Hfit. unfold mget in Hfit.
  unfold align_lines, constrain_render. cbv zeta. destruct (W <? 1) eqn:EW; [lia|].
  set (inner := Z.min (match aw with None => snd (measurement_get c cW')
                                | Some x => Z.min (snd (measurement_get c cW')) x end) W) in *.
  set (CL := split_lines (render_at c inner)) in *.
  set (w := fst (get_shape CL)).
  assert (EG : get_shape CL = (w, zlen CL)) by reflexivity.
  rewrite EG. cbv beta iota.
  assert (ES : set_shape CL w (Some (zlen CL)) None = map (fun l => adjust_line_length l w None true) CL).
  { unfold set_shape. apply set_shape_go_map. unfold zlen. rewrite Nat2Z.id. apply le_n. }
  rewrite ES.
  assert (Hw : 0 <= w <= W).
  { split; [apply get_shape_nonneg|]. unfold w, get_shape. cbn [fst]. apply fold_max_le; [lia|exact Hfit]. }
  assert (HL : forall ln, In ln (map (fun l => adjust_line_length l w None true) CL) -> line_len ln = w).
  { intros ln H. apply in_map_iff in H as [x [<- _]]. apply adjust_len_true. lia. }
  set (SL := map (fun l => adjust_line_length l w None true) CL) in *.
  set (ex := W - w).
  destruct (ex <=? 0) eqn:E0.
  - apply Forall_forall. intros x Hx. rewrite (HL x Hx). lia.
  - assert (Hex : 0 < ex) by lia.
    destruct (how =? 0).
    + apply Forall_forall. intros x Hx. apply in_map_iff in Hx as [ln [<- Hln]]. apply HL in Hln.
      destruct pad; [rewrite line_len_app, line_len_spaces_seg by lia|]; lia.
    + destruct (how =? 1).
      * assert (0 <= ex / 2 <= ex) by (split; [apply Z.div_pos; lia|apply Z.div_le_upper_bound; lia]).
        apply Forall_forall. intros x Hx. apply in_map_iff in Hx as [ln [<- Hln]]. apply HL in Hln.
        rewrite !line_len_app, line_len_opt_space by lia.
        destruct pad; [rewrite line_len_spaces_seg by lia|change (line_len []) with 0]; lia.
      * apply Forall_forall. intros x Hx. apply in_map_iff in Hx as [ln [<- Hln]]. apply HL in Hln.
        rewrite line_len_cons. unfold seg_len. cbn [ctl txt]. rewrite cell_len_spacesZ by lia. lia.
Qed.

Theorem align_sfits : forall c how pad aw W cW', 1 <= W ->
  (let inner := Z.min (match aw with None => snd (mget c cW') | Some x => Z.min (snd (mget c cW')) x end) W in
   sfits W (render_at c inner)) ->
  sfits W (stream_of (align_lines c how pad aw None W cW')).
Proof. intros. apply sfits_stream_of. apply align_lines_len; assumption. Qed.

Lemma constrain_render_eq : forall c cw W, 1 <= W ->
  constrain_render c cw W = render_at c (match cw with None => W | Some x => Z.min x W end).
Proof. intros c cw W HW. apply (constrain_styled_transparent c cw None W HW). Qed.

(* ---------------------------------------------------------------- two widths *)
Lemma sfits_mono : forall W Wb s, W <= Wb -> sfits W s -> sfits Wb s.
Proof.
  intros W Wb s H Hs. unfold sfits in *. eapply Forall_impl; [|exact Hs]. cbv beta. intros l Hl. lia.
Qed.

(* Align rendered at W inside a bound Wb >= W: the child's lines may be wider than W *)
Lemma align_lines_len2 : forall c how pad aw W Wb cW', 1 <= W -> W <= Wb ->
  (let inner := Z.min (match aw with None => snd (mget c cW') | Some x => Z.min (snd (mget c cW')) x end) W in
   sfits Wb (render_at c inner)) ->
  Forall (fun l => line_len l <= Wb) (align_lines c how pad aw None W cW').
Proof.
  intros c how pad aw W Wb cW' HW HWb Hfit. cbv zeta in Hfit. unfold mget in Hfit.
  unfold align_lines, constrain_render. cbv zeta. destruct (W <? 1) eqn:EW; [lia|].
  set (inner := Z.min (match aw with None => snd (measurement_get c cW')
                                | Some x => Z.min (snd (measurement_get c cW')) x end) W) in *.
  set (CL := split_lines (render_at c inner)) in *.
  set (w := fst (get_shape CL)).
  assert (EG : get_shape CL = (w, zlen CL)) by reflexivity.
  rewrite EG. cbv beta iota.
  assert (ES : set_shape CL w (Some (zlen CL)) None = map (fun l => adjust_line_length l w None true) CL).
  { unfold set_shape. apply set_shape_go_map. unfold zlen. rewrite Nat2Z.id. apply le_n. }
  rewrite ES.
  assert (Hw : 0 <= w <= Wb).
  { split; [apply get_shape_nonneg|]. unfold w, get_shape. cbn [fst]. apply fold_max_le; [lia|exact Hfit]. }
  assert (HL : forall ln, In ln (map (fun l => adjust_line_length l w None true) CL) -> line_len ln = w).
  { intros ln H. apply in_map_iff in H as [x [<- _]]. apply adjust_len_true. lia. }
  set (SL := map (fun l => adjust_line_length l w None true) CL) in *.
  set (ex := W - w).
  destruct (ex <=? 0) eqn:E0.
  - apply Forall_forall. intros x Hx. rewrite (HL x Hx). lia.
  - assert (Hex : 0 < ex) by lia.
    destruct (how =? 0).
    + apply Forall_forall. intros x Hx. apply in_map_iff in Hx as [ln [<- Hln]]. apply HL in Hln.
      destruct pad; [rewrite line_len_app, line_len_spaces_seg by lia|]; lia.
    + destruct (how =? 1).
      * assert (0 <= ex / 2 <= ex) by (split; [apply Z.div_pos; lia|apply Z.div_le_upper_bound; lia]).
        apply Forall_forall. intros x Hx. apply in_map_iff in Hx as [ln [<- Hln]]. apply HL in Hln.
        rewrite !line_len_app, line_len_opt_space by lia.
        destruct pad; [rewrite line_len_spaces_seg by lia|change (line_len []) with 0]; lia.
      * apply Forall_forall. intros x Hx. apply in_map_iff in Hx as [ln [<- Hln]]. apply HL in Hln.
        rewrite line_len_cons. unfold seg_len. cbn [ctl txt]. rewrite cell_len_spacesZ by lia. lia.
Qed.

Theorem align_sfits2 : forall c how pad aw W Wb cW', 1 <= W -> W <= Wb ->
  (let inner := Z.min (match aw with None => snd (mget c cW') | Some x => Z.min (snd (mget c cW')) x end) W in
   sfits Wb (render_at c inner)) ->
  sfits Wb (stream_of (align_lines c how pad aw None W cW')).
Proof. intros. apply sfits_stream_of. apply align_lines_len2; assumption. Qed.

(* ---------------------------------------------------------------- negative sizes *)
Lemma py_repeat_nonpos {A} (x : A) k : k <= 0 -> py_repeat x k = [].
Proof. intros H. unfold py_repeat. replace (Z.to_nat k) with 0%nat by lia. reflexivity. Qed.

Lemma sumZ_rev l : sumZ (rev l) = sumZ l.
Proof.
  induction l as [|x l IH]; [reflexivity|]. cbn [rev]. rewrite sumZ_app, IH, !sumZ_cons.
  change (sumZ []) with 0. lia.
Qed.

Lemma sumZ_nonneg_all r : Forall (fun x => 0 <= x) r -> 0 <= sumZ r.
Proof. induction 1 as [|x r Hx _ IH]; [cbn; lia|]. rewrite sumZ_cons. lia. Qed.

Lemma pop_loop_all : forall r ex, Forall (fun x => 0 <= x) r -> sumZ r < ex ->
  pop_loop r ex = ([], ex - sumZ r).
Proof.
  induction r as [|x r IH]; intros ex HF H.
  - cbn [pop_loop]. change (sumZ []) with 0. replace (ex - 0) with ex by lia.
    destruct (0 <? ex); reflexivity.
  - cbn [pop_loop]. inversion HF as [|? ? Hx Hr]; subst. rewrite sumZ_cons in *.
    pose proof (sumZ_nonneg_all r Hr) as Hs.
    destruct (0 <? ex) eqn:E; [|lia]. rewrite IH by (assumption || lia). f_equal. lia.
Qed.

(* str[:0]: resizing to a negative size leaves nothing *)
Lemma set_cell_size_neg s n : n < 0 -> set_cell_size s n = [].
Proof.
  intros Hn. unfold set_cell_size. cbv zeta. pose proof (cell_len_nonneg s) as Hs.
  destruct (cell_len s =? n) eqn:E1; [lia|]. destruct (cell_len s <? n) eqn:E2; [lia|].
  rewrite pop_loop_all.
  - cbv beta iota. destruct (_ =? -1) eqn:E3.
    + rewrite sumZ_rev in E3. unfold cell_len in E3. lia.
    + reflexivity.
  - apply Forall_rev. apply Forall_forall. intros x Hx. apply in_map_iff in Hx as [ch [<- _]].
    pose proof (char_size_range ch). lia.
  - rewrite sumZ_rev. unfold cell_len. lia.
Qed.

Lemma truncate_fold_le_self s w : cell_len (truncate_fold s w) <= cell_len s.
Proof.
  unfold truncate_fold. destruct (w <? cell_len s) eqn:E; [|lia].
  destruct (Z_le_dec 0 w) as [H|H].
  - rewrite set_cell_size_len by lia. lia.
  - rewrite set_cell_size_neg by lia. change (cell_len []) with 0. apply cell_len_nonneg.
Qed.

Lemma text_align_len_any s how w ch : w1 ch -> cell_len (text_align s how w ch) = Z.max w 0.
Proof.
  intros Hc. destruct (Z_le_dec 0 w) as [H|H]; [rewrite text_align_len by assumption; lia|].
  unfold text_align, truncate_fold. pose proof (cell_len_nonneg s) as Hs.
  destruct (w <? cell_len s) eqn:E; [|lia]. rewrite set_cell_size_neg by lia.
  change (cell_len []) with 0. replace (w - 0) with w by lia.
  destruct (w =? 0) eqn:E0; [lia|].
  assert (Hd : w / 2 <= 0 /\ w - w / 2 <= 0).
  { pose proof (Z.div_mod w 2 ltac:(lia)). pose proof (Z.mod_pos_bound w 2 ltac:(lia)). lia. }
  destruct (how =? 0); [|destruct (how =? 1)]; rewrite ?py_repeat_nonpos by lia;
    cbn [app]; change (cell_len []) with 0; lia.
Qed.

Lemma box_edge_len_any (a bch z : Z) k : w1 a -> w1 bch -> w1 z ->
  cell_len (a :: py_repeat bch k ++ [z]) = Z.max k 0 + 2.
Proof.
  intros Ha Hb Hz. destruct (Z_le_dec 0 k) as [H|H]; [rewrite box_edge_len by assumption; lia|].
  rewrite py_repeat_nonpos by lia. cbn [app]. rewrite !cell_len_cons. change (cell_len []) with 0.
  rewrite Ha, Hz. lia.
Qed.

(* ---------------------------------------------------------------- (B) Panel at any width *)
Definition panel_min (o : panel_opts) : Z := match p_title o with [] => 2 | _ => 4 end.

Lemma panel_child_width_le : forall c o W, panel_child_width c o W + 2 <= Z.max W (panel_min o).
Proof.
  intros c o W. unfold panel_child_width, panel_min.
  set (width := match p_width o with None => W | Some pw => Z.min W pw end).
  assert (Hwd : width <= W) by (unfold width; destruct (p_width o); lia).
  set (base := if p_expand o then width - 2 else snd (measurement_get (panel_inner c o) (width - 2))).
  assert (Hbase : base <= Z.max (width - 2) 0).
  { unfold base. destruct (p_expand o); [lia|].
    pose proof (mget_le (panel_inner c o) (width - 2)) as M. unfold mget in M. lia. }
  destruct (p_title o); lia.
Qed.

Lemma panel_lines_bound : forall c o W cW',
  Forall (fun l => line_len l <= Z.max (panel_child_width c o W + 2) (panel_min o))
         (panel_lines false c o W cW').
Proof.
  intros c o W cW'. unfold panel_lines, panel_min. cbv zeta.
  set (cwid := panel_child_width c o W) in *.
  set (box := box_substitute (p_box o) (p_legacy o) (p_safe o) (p_ascii o)).
  replace (cwid + 2 - 2) with cwid by lia. replace (cwid + 2 - 4) with (cwid - 2) by lia.
  set (bs := p_border o).
  constructor; [|apply Forall_app_intro].
  - destruct (p_title o) as [|t0 title] eqn:ET.
    + rewrite line_len_seg1. unfold box_top. rewrite box_edge_len_any by apply box_char_w1. lia.
    + set (t := text_align (panel_title (t0 :: title)) (p_title_align o) (cwid - 2) (box_char box 0 1)).
      assert (HT : cell_len t = Z.max (cwid - 2) 0) by (apply text_align_len_any; apply box_char_w1).
      rewrite !line_len_cons. change (line_len []) with 0.
      unfold seg_len. cbn [ctl txt]. unfold text_line.
      pose proof (truncate_fold_le_self t cW') as HTr. pose proof (cell_len_nonneg (truncate_fold t cW')).
      rewrite !cell_len_cons. change (cell_len []) with 0.
      rewrite !(box_char_w1 box). lia.
  - destruct (cwid <? 1) eqn:E.
    + rewrite render_lines_small by lia. constructor.
    + apply Forall_forall. intros x Hx. apply in_map_iff in Hx as [ln [<- Hln]].
      apply render_lines_true_len in Hln; [|lia].
      rewrite line_len_cons, line_len_app, Hln, line_len_seg1.
      unfold seg_len. cbn [ctl txt]. rewrite !cell_len_cons. change (cell_len []) with 0.
      rewrite !(box_char_w1 box). destruct (p_title o); lia.
  - constructor; [|constructor]. rewrite line_len_seg1. unfold box_bottom.
    rewrite box_edge_len_any by apply box_char_w1. destruct (p_title o); lia.
Qed.

Theorem panel_sfits_any : forall c o W Wb cW', W <= Wb -> W <= cW' ->
  nonneg4 (p_pad o) = true ->
  (match p_title o with [] => 2 | _ => 4 end) <= Wb ->
  sfits Wb (stream_of (panel_lines false c o W cW')).
Proof.
  intros c o W Wb cW' HW _ _ Hm. apply sfits_stream_of.
  pose proof (panel_child_width_le c o W) as HC. unfold panel_min in HC.
  eapply Forall_impl; [|apply panel_lines_bound]. cbv beta. unfold panel_min. intros l Hl. lia.
Qed.

(* ---------------------------------------------------------------- Styled: apply_style commutes with split_lines *)
Definition restyle_seg (st : style) (g : segZ) : segZ :=
  mkSeg (txt g) (if ctl g then None else sadd st (sty g)) (ctl g).

Lemma apply_style_map st l : apply_style st l = map (restyle_seg st) l.
Proof. reflexivity. Qed.

Lemma split_text_style st : forall fuel text s0 (line : list segZ) done,
  split_text Z fuel text (sadd st s0) (map (restyle_seg st) line) (map (map (restyle_seg st)) done) =
  (map (restyle_seg st) (fst (split_text Z fuel text s0 line done)),
   map (map (restyle_seg st)) (snd (split_text Z fuel text s0 line done))).
Proof.
  induction fuel as [|f IH]; intros text s0 line done; [reflexivity|].
  cbn [split_text]. destruct text as [|c text]; [reflexivity|].
  destruct (partition_nl (c :: text)) as [[a nl] b].
  set (line' := match a with [] => line | _ :: _ => mkSeg a s0 false :: line end).
  assert (EL : match a with [] => map (restyle_seg st) line
                        | _ :: _ => mkSeg a (sadd st s0) false :: map (restyle_seg st) line end
               = map (restyle_seg st) line').
  { unfold line'. destruct a; reflexivity. }
  rewrite EL. destruct nl.
  - rewrite <- map_rev. apply (IH b s0 [] (rev line' :: done)).
  - apply IH.
Qed.

Lemma split_lines_go_style st : forall (segs line : list segZ) done,
  split_lines_go Z (map (restyle_seg st) segs) (map (restyle_seg st) line) (map (map (restyle_seg st)) done) =
  map (map (restyle_seg st)) (split_lines_go Z segs line done).
Proof.
  induction segs as [|g segs IH]; intros line done.
  - cbn [map split_lines_go]. rewrite map_rev. f_equal.
    destruct line as [|x line]; [reflexivity|].
    cbn [map]. rewrite map_rev. reflexivity.
  - cbn [map split_lines_go]. change (txt (restyle_seg st g)) with (txt g).
    change (ctl (restyle_seg st g)) with (ctl g).
    destruct (has_nl (txt g) && negb (ctl g)) eqn:E.
    + assert (Hc : ctl g = false) by (destruct (ctl g); [rewrite andb_false_r in E; discriminate|reflexivity]).
      replace (sty (restyle_seg st g)) with (sadd st (sty g))
        by (unfold restyle_seg; cbn [sty]; rewrite Hc; reflexivity).
      rewrite split_text_style.
      destruct (split_text Z (S (length (txt g))) (txt g) (sty g) line done) as [l1 d1]. cbn [fst snd].
      apply IH.
    + apply (IH (g :: line) done).
Qed.

Lemma split_lines_apply_style st (s : list segZ) :
  split_lines (apply_style st s) = map (apply_style st) (split_lines s).
Proof. unfold split_lines. rewrite apply_style_map. apply (split_lines_go_style st s [] []). Qed.

Lemma line_len_apply_style st (l : list segZ) : line_len (apply_style st l) = line_len l.
Proof.
  induction l as [|g l IH]; [reflexivity|]. rewrite apply_style_map in *. cbn [map].
  rewrite !line_len_cons, IH. reflexivity.
Qed.

Lemma sfits_apply_style : forall W st s, sfits W s -> sfits W (apply_style st s).
Proof.
  intros W st s H. unfold sfits in *. rewrite split_lines_apply_style.
  apply Forall_forall. intros x Hx. apply in_map_iff in Hx as [l [<- Hl]].
  rewrite line_len_apply_style. rewrite Forall_forall in H. apply H. exact Hl.
Qed.

Lemma nlterm_apply_style_none : forall s, nlterm s -> nlterm (apply_style None s).
Proof.
  intros s [->|[s' ->]]; [left; reflexivity|]. right. exists (apply_style None s').
  rewrite !apply_style_map, map_app. reflexivity.
Qed.

Theorem styled_sfits : forall c W Wb, sfits Wb (render_at c W) -> sfits Wb (styled_render c None W).
Proof.
  intros c W Wb H. unfold styled_render. destruct (W <? 1); [apply sfits_nil|].
  apply sfits_apply_style. exact H.
Qed.

Theorem styled_nlterm : forall c W, nlterm (render_at c W) -> nlterm (styled_render c None W).
Proof.
  intros c W H. unfold styled_render. destruct (W <? 1); [apply nlterm_nil|].
  apply nlterm_apply_style_none. exact H.
Qed.

(* ---------------------------------------------------------------- (5) leaves *)
Theorem rule_sfits : forall title chars how W, 1 <= W -> 0 < cell_len chars ->
  sfits W (str_lines_stream (rule_lines false title chars how false W)).
Proof.
  intros title chars how W HW _. apply sfits_str_lines_stream.
  pose proof (rule_fills_exactly title chars how false W HW) as R.
  unfold rule_lines in *. destruct (W <? 1) eqn:E; [lia|].
  unfold rule_lines_b, rule_exact_b in R. constructor; [lia|constructor].
Qed.

Lemma bar_width_le bw W : bar_width bw W <= W.
Proof. unfold bar_width. lia. Qed.

Theorem bar_sfits : forall size b e bw W, 0 <= W ->
  (match bw with Some x => 0 <= x | None => True end) ->
  sfits W [mkSeg (bar_text size b e bw W) None false; NLS].
Proof.
  intros size b e bw W HW Hbw. pose proof (bar_exact size b e bw W HW Hbw) as R.
  unfold bar_within_b in R. apply andb_true_iff in R as [R _]. pose proof (bar_width_le bw W).
  apply sfits_single_seg. lia.
Qed.

Lemma bar_nlterm : forall size b e bw W, nlterm [mkSeg (bar_text size b e bw W) None false; NLS].
Proof. intros. right. exists [mkSeg (bar_text size b e bw W) None false]. reflexivity. Qed.

Theorem pbar_sfits : forall hc total completed pw pulse t W, 0 <= W ->
  (match pw with Some x => 0 <= x | None => True end) ->
  sfits W (crender (pbar_child hc total completed pw pulse t) W).
Proof.
  intros hc total completed pw pulse t W HW Hpw. cbn [pbar_child crender].
  set (s := pbar_text total completed pw pulse t false hc false W).
  assert (Hs : cell_len s <= W).
  { pose proof (bar_width_le pw W). unfold s. destruct pulse.
    - pose proof (pbar_pulse_exact total completed pw t false hc false W HW Hpw) as R.
      unfold bar_within_b in R. apply andb_true_iff in R as [R _]. lia.
    - pose proof (pbar_within total completed pw t false hc false W HW Hpw) as R.
      unfold bar_within_b in R. apply andb_true_iff in R as [R _]. lia. }
  destruct s as [|x s]; [apply sfits_nil|]. apply sfits_single_seg. exact Hs.
Qed.

(* ---------------------------------------------------------------- (6) Tree *)
Lemma Forall_removelast {A} (P : A -> Prop) (l : list A) : Forall P l -> Forall P (removelast l).
Proof.
  induction 1 as [|x l Hx Hl IH]; [constructor|]. cbn [removelast].
  destruct l; [constructor|]. constructor; assumption.
Qed.

Lemma Forall_tl {A} (P : A -> Prop) (l : list A) : Forall P l -> Forall P (tl l).
Proof. intros H. destruct H; [constructor|assumption]. Qed.

Lemma node_lines_fit W ascii legacy p last lab :
  Forall guide_ok p ->
  Forall (fun l => cell_len l <= W - prefix_cells ascii legacy p) lab ->
  Forall (fun l => cell_len l <= W) (node_lines ascii legacy p last lab).
Proof.
  intros Hp Hlab. unfold node_lines. cbv beta zeta. destruct lab as [|l0 rest]; [constructor|].
  rewrite prefix_cells_4 in Hlab by exact Hp.
  inversion Hlab as [|? ? H0 Hr]; subst.
  constructor.
  - rewrite cell_len_app, ptext_cells by exact Hp. lia.
  - set (p2 := set_last_guide p (if last then G_SPACE else G_CONTINUE)).
    assert (Hp2 : Forall guide_ok p2).
    { apply set_last_guide_ok; [destruct last; unfold G_SPACE, G_CONTINUE; lia|exact Hp]. }
    assert (L2 : zlen p2 = zlen p) by (unfold zlen, p2; rewrite set_last_guide_len; reflexivity).
    apply Forall_forall. intros x Hx. apply in_map_iff in Hx as [l [<- Hl]].
    rewrite cell_len_app, ptext_cells, L2 by exact Hp2.
    rewrite Forall_forall in Hr. specialize (Hr l Hl). lia.
Qed.

Lemma label_lines_fit lab w :
  Forall (fun l => cell_len l <= w) (map line_text (render_lines lab w (Some None) true)).
Proof.
  destruct (w <? 1) eqn:E; [rewrite render_lines_small by lia; constructor|].
  apply Forall_forall. intros x Hx. apply in_map_iff in Hx as [ln [<- Hln]].
  rewrite cell_len_line_text. apply render_lines_true_len in Hln; lia.
Qed.

Lemma tree_go_fit : forall fuel ascii legacy W stack levels gstack out ls,
  Forall guide_ok levels -> Forall (fun l => cell_len l <= W) out ->
  tree_go fuel ascii legacy W stack levels gstack out = Ok ls ->
  Forall (fun l => cell_len l <= W) ls.
Proof.
  induction fuel as [|f IH]; intros ascii legacy W stack levels gstack out ls Hlv Hout H;
    cbn [tree_go] in H; [discriminate|].
  destruct stack as [|it stack'].
  { injection H as <-. apply Forall_rev. exact Hout. }
  destruct it as [|[last [lab gs ex kids]] it].
  - pose proof (Forall_tl _ _ Hlv) as Hl. destruct (tl levels) as [|g0 lv'].
    + eapply IH; [|exact Hout|exact H]. constructor.
    + eapply IH; [|exact Hout|exact H]. apply set_last_guide_ok; [unfold G_FORK; lia|exact Hl].
  - cbv zeta in H.
    set (levels' := if last then set_last_guide levels G_END else levels) in *.
    assert (Hlv' : Forall guide_ok levels').
    { unfold levels'. destruct last; [apply set_last_guide_ok; [unfold G_END; lia|]|]; exact Hlv. }
    set (p := removelast levels') in *.
    assert (Hp : Forall guide_ok p) by (apply Forall_removelast; exact Hlv').
    set (out' := rev (node_lines ascii legacy p last _) ++ out) in *.
    assert (Hout' : Forall (fun l => cell_len l <= W) out').
    { apply Forall_app_intro; [|exact Hout]. apply Forall_rev. apply node_lines_fit; [exact Hp|].
      apply label_lines_fit. }
    destruct ex; [destruct kids as [|k kids]|].
    + eapply IH; [exact Hlv'|exact Hout'|exact H].
    + eapply IH; [|exact Hout'|exact H]. constructor.
      * unfold guide_ok. cbn [fst]. destruct kids; unfold G_END, G_FORK; lia.
      * apply set_last_guide_ok; [destruct last; unfold G_SPACE, G_CONTINUE; lia|exact Hlv'].
    + eapply IH; [exact Hlv'|exact Hout'|exact H].
Qed.

Theorem tree_lines_fit : forall (t : tnode) W ls, tree_render false false t W = Ok ls ->
  Forall (fun l => cell_len l <= W) ls.
Proof.
  intros t W ls H. unfold tree_render in H. destruct t as [lab gs ex kids].
  eapply tree_go_fit; [| |exact H]; [|constructor].
  constructor; [unfold guide_ok, G_CONTINUE; cbn [fst]; lia|constructor].
Qed.

Theorem tree_sfits : forall (t : tnode) W, sfits W (crender (tree_child t) W) /\ nlterm (crender (tree_child t) W).
Proof.
  intros t W. cbn [tree_child crender]. destruct (tree_render false false t W) as [ls| |] eqn:E.
  - split; [apply sfits_str_lines_stream; eapply tree_lines_fit; exact E|apply nlterm_str_lines_stream].
  - split; [apply sfits_nil|apply nlterm_nil].
  - split; [apply sfits_nil|apply nlterm_nil].
Qed.

(* ---------------------------------------------------------------- groups, NoMeasure *)
(* every stream but the last one ends with a new line *)
Fixpoint abl_nlterm (ss : list (list segZ)) : Prop :=
  match ss with
  | [] => True
  | s :: r => match r with [] => True | _ => nlterm s /\ abl_nlterm r end
  end.

Lemma sfits_concat : forall W (ss : list (list segZ)),
  Forall (sfits W) ss -> abl_nlterm ss -> sfits W (concat ss).
Proof.
  intros W ss H. induction H as [|s r Hs Hr IH]; intros HA; [apply sfits_nil|].
  cbn [concat]. destruct r as [|s2 r].
  - cbn [concat]. rewrite app_nil_r. exact Hs.
  - cbn [abl_nlterm] in HA. destruct HA as [Hn HA]. apply sfits_app; [exact Hn|exact Hs|].
    apply IH. exact HA.
Qed.

Lemma nlterm_concat : forall (ss : list (list segZ)), Forall nlterm ss -> nlterm (concat ss).
Proof.
  intros ss H. induction H as [|s r Hs _ IH]; [apply nlterm_nil|]. cbn [concat].
  apply nlterm_app; assumption.
Qed.

Theorem group_sfits : forall cs fit W Wb,
  Forall (fun c => sfits Wb (render_at c W)) cs ->
  abl_nlterm (map (fun c => render_at c W) cs) ->
  sfits Wb (crender (group_child cs fit) W).
Proof.
  intros cs fit W Wb H HA. cbn [group_child crender]. rewrite flat_map_concat_map.
  apply sfits_concat; [|exact HA]. apply Forall_forall. intros x Hx.
  apply in_map_iff in Hx as [c [<- Hc]]. rewrite Forall_forall in H. apply H. exact Hc.
Qed.

Theorem group_nlterm : forall cs fit W,
  Forall (fun c => nlterm (render_at c W)) cs -> nlterm (crender (group_child cs fit) W).
Proof.
  intros cs fit W H. cbn [group_child crender]. rewrite flat_map_concat_map.
  apply nlterm_concat. apply Forall_forall. intros x Hx.
  apply in_map_iff in Hx as [c [<- Hc]]. rewrite Forall_forall in H. apply H. exact Hc.
Qed.

Lemma render_at_nomeasure : forall c W, render_at (nomeasure_child c) W = render_at c W.
Proof.
  intros c W. unfold render_at at 1. cbn [nomeasure_child crender]. unfold render_at.
  destruct (W <? 1); reflexivity.
Qed.

Lemma crender_nomeasure : forall c W, crender (nomeasure_child c) W = render_at c W.
Proof. reflexivity. Qed.
