(* C01 / C09: Text as a renderable.  (1) a rendered Text fits its width; (2) D20 witness;
   (3) the text measurement is widest word / widest line; (4) text given its maximum is not wrapped. *)
From RichModel Require Import Prelude Cells Segments Frames Layout SpecLayout.
From RichModel Require Wrap SpecWrap.
From RichProofs Require Import CellsP SegmentsP WrapP WrapP2 WrapP3 WrapP4 WrapP5 LayoutP.
From Coq Require Import ZifyBool.

(* ================================================================ (1) a rendered Text fits *)
(* the "\n"-separated pieces of a string *)
Fixpoint pieces (s : str) : list str :=
  match s with
  | [] => [[]]
  | c :: r => if c =? NL then [] :: pieces r
              else match pieces r with hd :: tl => (c :: hd) :: tl | [] => [[c]] end
  end.

Lemma cell_len_nil : cell_len [] = 0.
Proof. reflexivity. Qed.

Lemma pieces_nonnil s : pieces s <> [].
Proof.
  destruct s as [|c r]; cbn [pieces]; [discriminate|].
  destruct (c =? NL); [discriminate|]. destruct (pieces r); discriminate.
Qed.

Lemma pieces_app_nl a b : pieces (a ++ NL :: b) = pieces a ++ pieces b.
Proof.
  induction a as [|c a IH].
  - cbn [app pieces]. rewrite Z.eqb_refl. reflexivity.
  - cbn [app pieces]. destruct (c =? NL).
    + rewrite IH. reflexivity.
    + rewrite IH. pose proof (pieces_nonnil a) as Hn.
      destruct (pieces a) as [|hd tl]; [congruence|]. reflexivity.
Qed.

Lemma pieces_le l : Forall (fun p => cell_len p <= cell_len l) (pieces l).
Proof.
  induction l as [|c l IH].
  - cbn [pieces]. constructor; [lia|constructor].
  - cbn [pieces]. rewrite cell_len_cons. pose proof (char_size_range c) as Hc.
    destruct (c =? NL).
    + constructor.
      * rewrite cell_len_nil. pose proof (cell_len_nonneg l). lia.
      * eapply Forall_impl; [|exact IH]. cbn beta. intros p Hp. lia.
    + destruct (pieces l) as [|hd tl].
      * constructor; [|constructor]. rewrite cell_len_cons, cell_len_nil. pose proof (cell_len_nonneg l). lia.
      * inversion IH as [|? ? Hhd Htl]; subst. constructor.
        -- rewrite cell_len_cons. lia.
        -- eapply Forall_impl; [|exact Htl]. cbn beta. intros p Hp. lia.
Qed.

Lemma pieces_join_fit W : forall ls, Forall (fun l => cell_len l <= W) ls -> 0 <= W ->
  Forall (fun p => cell_len p <= W) (pieces (join_nl ls)).
Proof.
  induction ls as [|l ls IH]; intros H HW.
  - cbn [join_nl pieces]. constructor; [rewrite cell_len_nil; lia|constructor].
  - inversion H as [|? ? Hl Hls]; subst.
    assert (Hp : Forall (fun p => cell_len p <= W) (pieces l)).
    { eapply Forall_impl; [|apply pieces_le]. cbn beta. intros p Hp. lia. }
    destruct ls as [|l2 ls].
    + cbn [join_nl]. exact Hp.
    + change (join_nl (l :: l2 :: ls)) with (l ++ NL :: join_nl (l2 :: ls)).
      rewrite pieces_app_nl. apply Forall_app. split; [exact Hp|]. apply IH; assumption.
Qed.

Lemma partition_nl_pieces : forall s a nl b, partition_nl s = (a, nl, b) ->
  (length b <= length s)%nat /\
  (if nl then pieces s = a :: pieces b else pieces s = [a] /\ b = []).
Proof.
  induction s as [|c s IH]; intros a nl b H.
  - cbn [partition_nl] in H. injection H as <- <- <-. split; [lia|]. split; reflexivity.
  - cbn [partition_nl] in H. cbn [pieces]. destruct (c =? NL) eqn:E.
    + injection H as <- <- <-. split; [cbn [length]; lia|]. reflexivity.
    + destruct (partition_nl s) as [[a' nl'] b'] eqn:Ep. injection H as <- <- <-.
      destruct (IH a' nl' b' eq_refl) as [Hlen Hp]. split; [cbn [length]; lia|].
      destruct nl'.
      * rewrite Hp. reflexivity.
      * destruct Hp as [Hp ->]. rewrite Hp. split; reflexivity.
Qed.

Lemma partition_nl_lt : forall s a b, partition_nl s = (a, true, b) -> (length b < length s)%nat.
Proof.
  induction s as [|x s IH]; intros a b Ep.
  - cbn in Ep. discriminate.
  - cbn [partition_nl] in Ep. destruct (x =? NL).
    + injection Ep as <- <-. cbn [length]. lia.
    + destruct (partition_nl s) as [[a' nl'] b'] eqn:E'. injection Ep as <- -> <-.
      specialize (IH a' b' eq_refl). cbn [length]. lia.
Qed.

Definition lfit (W : Z) (l : list segZ) : Prop := line_len l <= W.

Lemma line_len_rev (l : list segZ) : line_len (rev l) = line_len l.
Proof.
  induction l as [|g l IH]; [reflexivity|]. cbn [rev]. rewrite line_len_app, line_len_single, IH, line_len_cons. lia.
Qed.

Lemma split_text_fits W st : forall fuel text line done,
  (length text < fuel)%nat ->
  Forall (lfit W) done ->
  (exists p0 rest, pieces text = p0 :: rest /\ line_len line + cell_len p0 <= W /\
                   Forall (fun p => cell_len p <= W) rest) ->
  Forall (lfit W) (snd (split_text Z fuel text st line done)) /\
  line_len (fst (split_text Z fuel text st line done)) <= W.
Proof.
  induction fuel as [|f IH]; intros text line done Hf Hd [p0 [rest [Hp [H0 Hr]]]]; [lia|].
  destruct text as [|c r].
  - cbn [split_text fst snd]. split; [exact Hd|]. pose proof (cell_len_nonneg p0). lia.
  - cbn [split_text]. destruct (partition_nl (c :: r)) as [[a nl] b] eqn:Ep.
    destruct (partition_nl_pieces _ _ _ _ Ep) as [Hlen Hpc].
    set (line' := match a with [] => line | _ :: _ => mkSeg a st false :: line end).
    assert (Hl' : line_len line' <= W).
    { assert (a = p0) as ->.
      { destruct nl; [|destruct Hpc as [Hpc _]]; rewrite Hpc in Hp; congruence. }
      unfold line'. destruct p0 as [|x p0]; [pose proof (cell_len_nonneg (@nil Z)); lia|].
      rewrite line_len_cons. unfold seg_len. cbn [ctl txt]. lia. }
    destruct nl.
    + apply IH.
      * pose proof (partition_nl_lt _ _ _ Ep) as Hlt. lia.
      * constructor; [|exact Hd]. unfold lfit. rewrite line_len_rev. exact Hl'.
      * rewrite Hpc in Hp. injection Hp as <- <-.
        pose proof (pieces_nonnil b) as Hn. destruct (pieces b) as [|q0 qs]; [congruence|].
        inversion Hr as [|? ? Hq0 Hqs]; subst. exists q0, qs. split; [reflexivity|].
        split; [|exact Hqs]. change (line_len (@nil segZ)) with 0. lia.
    + destruct Hpc as [_ ->]. destruct f as [|f']; cbn [split_text fst snd]; split; assumption.
Qed.

Lemma has_nl_false_pieces : forall s, has_nl s = false -> pieces s = [s].
Proof.
  induction s as [|c s IH]; intros H; [reflexivity|].
  unfold has_nl in *. cbn [existsb] in H. apply Bool.orb_false_iff in H as [Hc Hs].
  cbn [pieces]. rewrite Hc, (IH Hs). reflexivity.
Qed.

Lemma sfits_nlseg W : 0 <= W -> sfits W [nlseg].
Proof.
  intros HW. unfold sfits.
  assert (E : split_lines [nlseg] = [[]]) by (vm_compute; reflexivity).
  rewrite E. constructor; [|constructor]. exact HW.
Qed.

Lemma sfits_text_nl W T :
  Forall (fun p => cell_len p <= W) (pieces T) -> sfits W [mkSeg T None false; nlseg].
Proof.
  intros H. unfold sfits, split_lines. cbn [split_lines_go txt ctl sty negb].
  rewrite Bool.andb_true_r.
  assert (Hnl : has_nl (txt nlseg) && negb (ctl nlseg) = true) by reflexivity.
  destruct (has_nl T) eqn:E.
  - pose proof (pieces_nonnil T) as Hn. destruct (pieces T) as [|p0 rest] eqn:Ep; [congruence|].
    inversion H as [|? ? H0 Hr]; subst.
    destruct (split_text_fits W None (Datatypes.S (length T)) T [] []) as [Hd Hl].
    { lia. } { constructor. }
    { exists p0, rest. split; [exact Ep|]. split; [|exact Hr]. change (line_len (@nil segZ)) with 0. lia. }
    destruct (split_text Z (Datatypes.S (length T)) T None [] []) as [line' done'].
    cbn [fst snd] in Hd, Hl. rewrite Hnl.
    change (split_text Z (Datatypes.S (length (txt nlseg))) (txt nlseg) (sty nlseg) line' done')
      with (@nil segZ, rev line' :: done').
    cbn [split_lines_go]. apply Forall_rev. constructor; [|exact Hd].
    rewrite line_len_rev. exact Hl.
  - rewrite Hnl.
    change (split_text Z (Datatypes.S (length (txt nlseg))) (txt nlseg) (sty nlseg) [@mkSeg Z T None false] [])
      with (@nil segZ, [rev [@mkSeg Z T None false]]).
    cbn [split_lines_go rev app]. constructor; [|constructor].
    rewrite (has_nl_false_pieces T E) in H. inversion H; subst.
    rewrite line_len_single. unfold seg_len. cbn [ctl txt]. assumption.
Qed.

Lemma text_sfits_single_seg : forall W s, cell_len s <= W -> sfits W [mkSeg s None false; nlseg].
Proof.
  intros W s H. apply sfits_text_nl. eapply Forall_impl; [|apply pieces_le]. cbn beta. intros p Hp. lia.
Qed.

Lemma wrap_plain_fit s W j ov nw : 1 <= W -> ov <> Wrap.OV_IGNORE ->
  Forall (fun l => cell_len l <= W) (wrap_plain s W j ov nw).
Proof.
  intros HW Hov. unfold wrap_plain.
  pose proof (wrap_fits_all unit (fun _ _ => true) tt (fun _ _ => tt) Wrap.repaired
                            (Wrap.mkText s [] tt) W j ov 8 nw HW Hov) as H.
  unfold SpecWrap.all_fit_b in H. rewrite forallb_forall in H. apply Forall_forall.
  intros l Hl. specialize (H l Hl). lia.
Qed.

Theorem text_stream_fits : forall s j ov nw ro W, 1 <= W ->
  Layout.or_else ov (ro_overflow ro) Wrap.OV_FOLD <> Wrap.OV_IGNORE ->
  sfits W (text_stream s j ov nw ro W).
Proof.
  intros s j ov nw ro W HW Hov. unfold text_stream. cbv zeta.
  set (ls := wrap_plain s W _ _ _).
  assert (Hls : Forall (fun l => cell_len l <= W) ls) by (apply wrap_plain_fit; assumption).
  pose proof (pieces_join_fit W ls Hls ltac:(lia)) as Hp.
  destruct (join_nl ls) as [|c T] eqn:E.
  - cbn [app]. apply sfits_nlseg. lia.
  - cbn [app]. apply sfits_text_nl. exact Hp.
Qed.

Lemma text_stream_nlterm : forall s j ov nw ro W, nlterm (text_stream s j ov nw ro W).
Proof.
  intros. right. unfold text_stream. cbv zeta. eexists. reflexivity.
Qed.

(* ================================================================ (2) D20: Text.__rich_measure__ as found *)
(* "a", U+2028, "bbbb": str.splitlines breaks at U+2028, Text.wrap does not; the reported maximum is 4
   and at width 4 the text is wrapped into two lines *)
Definition d20_witness : str := [97; 8232; 98; 98; 98; 98].

Theorem text_at_max_not_wrapped_refuted : exists s, forallb (fun c => negb (c =? 9)) s = true /\
  let mx := snd (text_measure false s) in 1 <= mx /\
  not_wrapped_b s (map line_text (split_lines (text_stream s None None None ro0 mx))) = false.
Proof.
  exists d20_witness. split; [vm_compute; reflexivity|].
  assert (E : snd (text_measure false d20_witness) = 4) by (vm_compute; reflexivity).
  cbv zeta. rewrite E. split; [lia|]. vm_compute. reflexivity.
Qed.

(* with the repair the maximum is 5 (U+2028 is zero-width) and the same text stays on one line *)
Example d20_witness_repaired :
  snd (text_measure true d20_witness) = 5 /\
  not_wrapped_b d20_witness
    (map line_text (split_lines (text_stream d20_witness None None None ro0 (snd (text_measure true d20_witness))))) = true.
Proof. split; vm_compute; reflexivity. Qed.

(* ================================================================ (3) text measurement = widest word / widest line *)
Lemma maxl_nonneg l : 0 <= maxl l.
Proof. unfold maxl. induction l as [|x l IH]; cbn [fold_right]; lia. Qed.

(* ---------------------------------------------------------------- the lines half *)
Lemma sep_positions_nil_pieces : forall s i, Wrap.sep_positions NL s i = [] -> pieces s = [s].
Proof.
  induction s as [|c s IH]; intros i H; [reflexivity|].
  cbn [Wrap.sep_positions] in H. cbn [pieces]. destruct (c =? NL); [discriminate|].
  rewrite (IH _ H). reflexivity.
Qed.

Lemma pcs_pieces : forall s, exists hd tl,
  pcs NL s = hd :: tl /\ ~ In NL hd /\ pieces s = hd :: filter (not_sep NL) tl.
Proof.
  induction s as [|c s IH].
  - exists [], []. split; [reflexivity|]. split; [intros []|reflexivity].
  - destruct IH as [hd [tl [H1 [H2 H3]]]]. cbn [pcs pieces]. destruct (c =? NL) eqn:E.
    + assert (c = NL) by lia. subst c.
      exists [], ([NL] :: pcs NL s). split; [reflexivity|]. split; [intros []|].
      rewrite H1. cbn [filter]. rewrite not_sep_sep, (not_sep_notin NL hd H2). rewrite H3. reflexivity.
    + rewrite H1, H3. exists (c :: hd), tl. split; [reflexivity|]. split; [|reflexivity].
      intros [Hc|Hc]; [lia|exact (H2 Hc)].
Qed.

Lemma filter_pcs_pieces s : filter (not_sep NL) (pcs NL s) = pieces s.
Proof.
  destruct (pcs_pieces s) as [hd [tl [H1 [H2 H3]]]]. rewrite H1, H3. cbn [filter].
  rewrite (not_sep_notin NL hd H2). reflexivity.
Qed.

(* Text.split("\n", allow_blank=True) on the plain strings *)
Lemma split_nl_plain (S : Type) (seqb : S -> S -> bool) (fx : Wrap.fixes) (t : Wrap.text S) :
  map (@Wrap.plain S) (Wrap.split S seqb fx t NL false true) = pieces (Wrap.plain t).
Proof.
  unfold Wrap.split. destruct (Wrap.sep_positions NL (Wrap.plain t) 0) as [|p ps] eqn:E.
  - cbn [map]. rewrite (sep_positions_nil_pieces _ _ E). reflexivity.
  - cbn [negb andb]. rewrite <- E. fold (offs2 NL (Wrap.plain t) 0).
    change (fun l : Wrap.text S => negb (str_eqb (Wrap.plain l) [NL]))
      with (fun l : Wrap.text S => not_sep NL (Wrap.plain l)).
    rewrite (map_filter_comm (@Wrap.plain S) (not_sep NL)).
    rewrite divide_plain, pieces_pcs. apply filter_pcs_pieces.
Qed.

Lemma src_lines_pieces s : src_lines s = pieces s.
Proof. unfold src_lines. rewrite split_nl_plain. reflexivity. Qed.

Lemma is_linebreak_true c : is_linebreak true c = (c =? NL).
Proof. unfold is_linebreak. cbn [negb andb]. apply Bool.orb_false_r. Qed.

Lemma split_on_lb : forall s cur,
  split_on (is_linebreak true) s cur =
  match pieces s with hd :: tl => (rev cur ++ hd) :: tl | [] => [] end.
Proof.
  induction s as [|c s IH]; intros cur.
  - cbn [split_on pieces]. rewrite app_nil_r. reflexivity.
  - cbn [split_on pieces]. rewrite is_linebreak_true. pose proof (pieces_nonnil s) as Hn.
    destruct (c =? NL).
    + rewrite IH. rewrite app_nil_r. destruct (pieces s) as [|hd tl]; [congruence|]. reflexivity.
    + rewrite IH. destruct (pieces s) as [|hd tl]; [congruence|].
      cbn [rev]. rewrite <- app_assoc. reflexivity.
Qed.

Theorem text_measure_lines : forall s,
  maxl (map cell_len (split_on (is_linebreak true) s [])) = widest_line s.
Proof.
  intros s. unfold widest_line. rewrite src_lines_pieces, split_on_lb.
  pose proof (pieces_nonnil s) as Hn. destruct (pieces s) as [|hd tl]; [congruence|]. reflexivity.
Qed.

(* ---------------------------------------------------------------- the words half *)
Definition SO (s cur : str) : list str := split_on Wrap.is_space s cur.
Definition Mx (l : list str) : Z := maxl (map cell_len l).

Lemma Mx_cons x l : Mx (x :: l) = Z.max (cell_len x) (Mx l).
Proof. reflexivity. Qed.

Lemma Mx_nonneg l : 0 <= Mx l.
Proof. apply maxl_nonneg. Qed.

Lemma SO_nil cur : SO [] cur = [rev cur].
Proof. reflexivity. Qed.

Lemma SO_space c r cur : Wrap.is_space c = true -> SO (c :: r) cur = rev cur :: SO r [].
Proof. intros H. unfold SO. cbn [split_on]. rewrite H. reflexivity. Qed.

Lemma SO_lead_spaces : forall a x, all_sp a -> Mx (SO (a ++ x) []) = Mx (SO x []).
Proof.
  induction a as [|c a IH]; intros x H; [reflexivity|].
  cbn [app]. rewrite SO_space by (apply H; left; reflexivity).
  rewrite Mx_cons. cbn [rev]. rewrite cell_len_nil.
  rewrite IH by (intros z Hz; apply H; right; exact Hz).
  pose proof (Mx_nonneg (SO x [])). lia.
Qed.

Lemma SO_word : forall b x cur, (forall c, In c b -> Wrap.is_space c = false) ->
  SO (b ++ x) cur = SO x (rev b ++ cur).
Proof.
  induction b as [|c b IH]; intros x cur H; [reflexivity|].
  cbn [app]. unfold SO at 1. cbn [split_on]. rewrite (H c (or_introl eq_refl)).
  fold (SO (b ++ x) (c :: cur)). rewrite IH by (intros z Hz; apply H; right; exact Hz).
  cbn [rev]. rewrite <- app_assoc. reflexivity.
Qed.

Lemma take_word_ns : forall s c, In c (Wrap.take_word s) -> Wrap.is_space c = false.
Proof.
  induction s as [|x s IH]; intros c H; [destruct H|].
  cbn [Wrap.take_word] in H. destruct (Wrap.is_space x) eqn:E; [destruct H|].
  destruct H as [<-|H]; [exact E|apply IH; exact H].
Qed.

Lemma drop_word_head s :
  Wrap.drop_word s = [] \/ exists c r, Wrap.drop_word s = c :: r /\ Wrap.is_space c = true.
Proof.
  induction s as [|c s IH]; [left; reflexivity|].
  cbn [Wrap.drop_word]. destruct (Wrap.is_space c) eqn:E; [|exact IH].
  right. exists c, s. split; [reflexivity|exact E].
Qed.

Lemma nonspace_ns b : (forall c, In c b -> Wrap.is_space c = false) -> Wrap.nonspace b = b.
Proof.
  induction b as [|c b IH]; intros H; [reflexivity|].
  unfold Wrap.nonspace in *. cbn [filter]. rewrite (H c (or_introl eq_refl)). cbn [negb].
  f_equal. apply IH. intros z Hz. apply H. right. exact Hz.
Qed.

Lemma nonspace_all_sp a : all_sp a -> Wrap.nonspace a = [].
Proof. intros H. apply nonspace_all_space. apply all_sp_forallb. exact H. Qed.

Lemma match_word_max rest w rest' : Wrap.match_word rest = Some (w, rest') ->
  Mx (SO rest []) = Z.max (cell_len (Wrap.nonspace w)) (Mx (SO rest' [])).
Proof.
  unfold Wrap.match_word.
  set (r1 := Wrap.drop_space rest).
  destruct (Wrap.take_word r1) as [|b0 b] eqn:Eb; [discriminate|].
  set (r2 := Wrap.drop_word r1). intros H. inversion H as [[Hw Hr]]. clear H. clear Hw Hr w rest'.
  pose proof (take_word_ns r1) as Hns. rewrite Eb in Hns.
  (* the word's non-space part *)
  change (b0 :: b ++ Wrap.take_space r2) with ((b0 :: b) ++ Wrap.take_space r2).
  rewrite !nonspace_app, (nonspace_all_sp _ (take_space_all rest)),
          (nonspace_all_sp _ (take_space_all r2)), (nonspace_ns _ Hns), app_nil_r. cbn [app].
  (* the runs *)
  rewrite (take_drop_space rest) at 1. fold r1. rewrite SO_lead_spaces by apply take_space_all.
  rewrite (take_drop_word r1) at 1. rewrite Eb. fold r2. rewrite SO_word by exact Hns.
  rewrite app_nil_r.
  destruct (drop_word_head r1) as [E2|[c [r [E2 Hc]]]]; fold r2 in E2.
  - rewrite E2. cbn [Wrap.drop_space]. rewrite !SO_nil, rev_involutive. cbn [rev].
    rewrite !Mx_cons. reflexivity.
  - rewrite E2. rewrite SO_space by exact Hc. rewrite rev_involutive, Mx_cons. f_equal.
    rewrite <- (SO_lead_spaces (Wrap.take_space (c :: r)) (Wrap.drop_space (c :: r))) by apply take_space_all.
    rewrite <- take_drop_space. rewrite SO_space by exact Hc. rewrite Mx_cons. cbn [rev].
    rewrite cell_len_nil. pose proof (Mx_nonneg (SO r [])). lia.
Qed.

Lemma words_go_max : forall fuel rest pos, (length rest < fuel)%nat ->
  Mx (SO rest []) =
  fold_right Z.max 0 (map (fun w => cell_len (Wrap.nonspace (snd w))) (Wrap.words_go fuel rest pos)).
Proof.
  induction fuel as [|f IH]; intros rest pos Hf; [lia|].
  cbn [Wrap.words_go]. destruct (Wrap.match_word rest) as [[w rest']|] eqn:Em.
  - cbn [map fold_right snd]. rewrite (match_word_max _ _ _ Em). f_equal.
    destruct (match_word_some _ _ _ Em) as [Hr [Hns _]].
    apply IH. pose proof (has_ns_nonnil _ Hns) as Hw. rewrite Hr, app_length in Hf.
    destruct w; [congruence|]. cbn [length] in Hf. lia.
  - cbn [map fold_right]. pose proof (match_word_none _ Em) as Ha.
    rewrite <- (app_nil_r rest). rewrite SO_lead_spaces by exact Ha. reflexivity.
Qed.

Theorem text_measure_words : forall s,
  maxl (map cell_len (split_on Wrap.is_space s [])) = widest_word s.
Proof.
  intros s. unfold widest_word, Wrap.words. apply (words_go_max (Datatypes.S (length s)) s 0). lia.
Qed.

Theorem text_measure_words_lines : forall s, text_meas_b s (text_measure true s) = true.
Proof.
  intros s. unfold text_meas_b, text_measure. destruct (forallb Wrap.is_space s).
  - cbn [fst snd]. rewrite Z.eqb_refl. reflexivity.
  - cbn [fst snd]. rewrite text_measure_words, text_measure_lines, !Z.eqb_refl. reflexivity.
Qed.

(* ================================================================ (4) text given its maximum is not wrapped *)
Lemma dl_fold_nobreak w fold : forall l lp,
  lp + cell_len (concat (map snd l)) <= w ->
  snd (fold_left (Wrap.dl_step w fold) l (lp, [])) = [].
Proof.
  induction l as [|[[start e] word] l IH]; intros lp H; [reflexivity|].
  cbn [fold_left]. cbn [map snd concat] in H. rewrite cell_len_app in H.
  pose proof (cell_len_nonneg (concat (map snd l))) as Hn.
  pose proof (rstrip_le word) as Hr.
  unfold Wrap.dl_step at 2. cbv beta iota zeta.
  destruct (w <? lp + cell_len (Wrap.rstrip word)) eqn:E; [exfalso; lia|].
  apply IH. lia.
Qed.

Lemma divide_line_nobreak text w fold : cell_len text <= w -> Wrap.divide_line text w fold = [].
Proof.
  intros H. unfold Wrap.divide_line. rewrite dl_fold_nobreak; [reflexivity|].
  destruct (words_concat text) as [tail [Ht _]]. rewrite Ht in H at 1. rewrite cell_len_app in H.
  pose proof (cell_len_nonneg tail) as Hn.
  match goal with |- 0 + ?Y <= _ => set (X := Y) end.
  change (X + cell_len tail <= w) in H. lia.
Qed.

Lemma map_but_last_length {A} (f : A -> A) : forall l, length (Wrap.map_but_last f l) = length l.
Proof.
  induction l as [|x l IH]; [reflexivity|]. destruct l as [|y l]; [reflexivity|].
  change (Wrap.map_but_last f (x :: y :: l)) with (f x :: Wrap.map_but_last f (y :: l)).
  cbn [length] in *. rewrite IH. reflexivity.
Qed.

Section NotWrapped.
Variable S : Type.
Variable seqb : S -> S -> bool.
Variable null : S.
Variable add : S -> S -> S.
Variable fx : Wrap.fixes.

Lemma justify_lines_length w j ov (ls : list (Wrap.text S)) :
  length (Wrap.justify_lines S seqb null add fx w j ov ls) = length ls.
Proof.
  unfold Wrap.justify_lines.
  destruct (j =? Wrap.J_LEFT); [apply map_length|].
  destruct (j =? Wrap.J_CENTER); [apply map_length|].
  destruct (j =? Wrap.J_RIGHT); [apply map_length|].
  destruct (j =? Wrap.J_FULL); [apply map_but_last_length|reflexivity].
Qed.

(* a tab-free line that fits the width stays one line *)
Lemma wrap_line_one w j ov ts nw (line : Wrap.text S) :
  existsb (fun c => c =? Wrap.TAB) (Wrap.plain line) = false ->
  cell_len (Wrap.plain line) <= w ->
  length (Wrap.wrap_line S seqb null add fx w j ov ts nw line) = 1%nat.
Proof.
  intros Htab Hfit. unfold Wrap.wrap_line. cbv zeta. rewrite Htab.
  rewrite map_length, justify_lines_length, map_length.
  destruct nw; [reflexivity|]. rewrite divide_line_nobreak by exact Hfit. reflexivity.
Qed.

Lemma concat_length_ones {A B} (f : A -> list B) : forall l,
  (forall x, In x l -> length (f x) = 1%nat) -> length (concat (map f l)) = length l.
Proof.
  induction l as [|x l IH]; intros H; [reflexivity|].
  cbn [map concat length]. rewrite app_length, (H x (or_introl eq_refl)), IH; [reflexivity|].
  intros y Hy. apply H. right. exact Hy.
Qed.

Lemma pieces_in : forall s p c, In p (pieces s) -> In c p -> In c s.
Proof.
  induction s as [|x s IH]; intros p c Hp Hc.
  - cbn [pieces] in Hp. destruct Hp as [<-|[]]. exact Hc.
  - cbn [pieces] in Hp. destruct (x =? NL).
    + destruct Hp as [<-|Hp]; [destruct Hc|]. right. eapply IH; eassumption.
    + destruct (pieces s) as [|hd tl] eqn:E.
      * destruct Hp as [<-|[]]. destruct Hc as [<-|[]]. left. reflexivity.
      * destruct Hp as [<-|Hp].
        -- destruct Hc as [<-|Hc]; [left; reflexivity|]. right. apply (IH hd c); [left; reflexivity|exact Hc].
        -- right. apply (IH p c); [right; exact Hp|exact Hc].
Qed.

Lemma maxl_ge : forall l x, In x l -> x <= maxl l.
Proof.
  unfold maxl. induction l as [|y l IH]; intros x H; [destruct H|].
  cbn [fold_right]. destruct H as [<-|H]; [lia|]. specialize (IH x H). lia.
Qed.

(* every "\n"-separated source line fits the repaired maximum *)
Lemma piece_le_max s p : In p (pieces s) -> cell_len p <= snd (text_measure true s).
Proof.
  intros Hp. unfold text_measure. destruct (forallb Wrap.is_space s); cbn [snd].
  - pose proof (pieces_le s) as H. rewrite Forall_forall in H. apply H. exact Hp.
  - rewrite text_measure_lines. unfold widest_line. rewrite src_lines_pieces.
    apply (maxl_ge (map cell_len (pieces s))). apply in_map. exact Hp.
Qed.

Theorem wrap_at_max_length : forall (t : Wrap.text S) j ov ts nw,
  forallb (fun c => negb (c =? 9)) (Wrap.plain t) = true ->
  length (Wrap.wrap S seqb null add fx t (snd (text_measure true (Wrap.plain t))) j ov ts nw)
  = length (Wrap.split S seqb fx t NL false true).
Proof.
  intros t j ov ts nw Hnt. unfold Wrap.wrap. cbv zeta. apply concat_length_ones.
  intros L HL.
  assert (Hp : In (Wrap.plain L) (pieces (Wrap.plain t))).
  { rewrite <- (split_nl_plain S seqb fx t). apply in_map. exact HL. }
  apply wrap_line_one.
  - destruct (existsb (fun c => c =? Wrap.TAB) (Wrap.plain L)) eqn:E; [|reflexivity].
    apply existsb_exists in E as [c [Hc Ec]].
    pose proof (pieces_in _ _ _ Hp Hc) as Hs.
    rewrite forallb_forall in Hnt. specialize (Hnt c Hs). unfold Wrap.TAB in Ec. lia.
  - apply piece_le_max. exact Hp.
Qed.
End NotWrapped.

Theorem text_at_max_not_wrapped : forall s j ov, forallb (fun c => negb (c =? 9)) s = true ->
  let mx := snd (text_measure true s) in 1 <= mx ->
  not_wrapped_b s (map (@Wrap.plain unit)
    (Wrap.wrap unit (fun _ _ => true) tt (fun _ _ => tt) Wrap.repaired (Wrap.mkText s [] tt) mx j ov 8 false)) = true.
Proof.
  intros s j ov Hnt mx _. unfold not_wrapped_b, src_lines. rewrite !map_length. subst mx.
  pose proof (wrap_at_max_length unit (fun _ _ => true) tt (fun _ _ => tt) Wrap.repaired
                (Wrap.mkText s [] tt) j ov 8 false Hnt) as H.
  cbn [Wrap.plain] in H. rewrite H. apply Nat.eqb_refl.
Qed.

(* the same at the level of the rendered stream: Text.__rich_console__ at the measured maximum *)
Corollary text_stream_at_max_lines : forall s j ov, forallb (fun c => negb (c =? 9)) s = true ->
  length (wrap_plain s (snd (text_measure true s)) j ov false) = length (src_lines s).
Proof.
  intros s j ov Hnt. unfold wrap_plain, src_lines. rewrite !map_length.
  exact (wrap_at_max_length unit (fun _ _ => true) tt (fun _ _ => tt) Wrap.repaired
           (Wrap.mkText s [] tt) j ov 8 false Hnt).
Qed.

(* ================================================================ (4'), at the level of the rendered stream:
   Text.__rich_console__ (default justify / overflow) at the repaired maximum yields one rendered line
   per source line -- the statement text_at_max_not_wrapped_refuted refutes for the measure as found *)
Lemma pieces_length_pos s : (1 <= length (pieces s))%nat.
Proof. pose proof (pieces_nonnil s). destruct (pieces s); [congruence|cbn [length]; lia]. Qed.

Lemma split_text_len st : forall fuel text line done, (length text < fuel)%nat ->
  length (snd (split_text Z fuel text st line done)) = (length done + length (pieces text) - 1)%nat.
Proof.
  induction fuel as [|f IH]; intros text line done Hf; [lia|].
  destruct text as [|c r].
  - cbn [split_text snd pieces length]. lia.
  - cbn [split_text]. destruct (partition_nl (c :: r)) as [[a nl] b] eqn:Ep.
    destruct (partition_nl_pieces _ _ _ _ Ep) as [_ Hpc]. destruct nl.
    + pose proof (partition_nl_lt _ _ _ Ep) as Hlt. rewrite IH by lia. rewrite Hpc.
      pose proof (pieces_length_pos b). cbn [length]. lia.
    + destruct Hpc as [Hpc ->]. rewrite Hpc. destruct f as [|f']; cbn [split_text snd length]; lia.
Qed.

Lemma split_lines_text_len T :
  length (split_lines [@mkSeg Z T None false; nlseg]) = length (pieces T).
Proof.
  unfold split_lines. cbn [split_lines_go txt ctl sty negb]. rewrite Bool.andb_true_r.
  assert (Hnl : has_nl (txt nlseg) && negb (ctl nlseg) = true) by reflexivity.
  destruct (has_nl T) eqn:E.
  - pose proof (split_text_len None (Datatypes.S (length T)) T [] [] ltac:(lia)) as Hd.
    destruct (split_text Z (Datatypes.S (length T)) T None [] []) as [line' done'].
    cbn [snd] in Hd. rewrite Hnl.
    change (split_text Z (Datatypes.S (length (txt nlseg))) (txt nlseg) (sty nlseg) line' done')
      with (@nil segZ, rev line' :: done').
    cbn [split_lines_go]. rewrite rev_length. cbn [length] in *. rewrite Hd.
    pose proof (pieces_length_pos T). lia.
  - rewrite Hnl.
    change (split_text Z (Datatypes.S (length (txt nlseg))) (txt nlseg) (sty nlseg) [@mkSeg Z T None false] [])
      with (@nil segZ, [rev [@mkSeg Z T None false]]).
    rewrite (has_nl_false_pieces T E). reflexivity.
Qed.

Lemma text_stream_lines_len s j ov nw ro W :
  length (split_lines (text_stream s j ov nw ro W)) =
  length (pieces (join_nl (wrap_plain s W (or_else j (ro_justify ro) Wrap.J_DEFAULT)
                                      (or_else ov (ro_overflow ro) Wrap.OV_FOLD)
                                      (match nw with Some b => b | None => ro_nowrap ro end)))).
Proof.
  unfold text_stream. cbv zeta.
  destruct (join_nl _) as [|c T] eqn:E.
  - cbn [app]. assert (H : split_lines [nlseg] = [[]]) by (vm_compute; reflexivity). rewrite H. reflexivity.
  - cbn [app]. apply split_lines_text_len.
Qed.

Lemma notin_nl_pieces : forall s, ~ In NL s -> pieces s = [s].
Proof.
  induction s as [|c s IH]; intros H; [reflexivity|].
  cbn [pieces]. destruct (c =? NL) eqn:E.
  - exfalso. apply H. left. lia.
  - rewrite IH; [reflexivity|]. intros Hs. apply H. right. exact Hs.
Qed.

Lemma pieces_join_len : forall ls, ls <> [] -> Forall (fun l => ~ In NL l) ls ->
  length (pieces (join_nl ls)) = length ls.
Proof.
  induction ls as [|l ls IH]; intros Hne H; [congruence|].
  inversion H as [|? ? Hl Hls]; subst. destruct ls as [|l2 ls].
  - cbn [join_nl]. rewrite (notin_nl_pieces _ Hl). reflexivity.
  - change (join_nl (l :: l2 :: ls)) with (l ++ NL :: join_nl (l2 :: ls)).
    rewrite pieces_app_nl, app_length, (notin_nl_pieces _ Hl), IH by (assumption || discriminate).
    reflexivity.
Qed.

Lemma pieces_no_nl : forall s p, In p (pieces s) -> ~ In NL p.
Proof.
  induction s as [|x s IH]; intros p Hp.
  - cbn [pieces] in Hp. destruct Hp as [<-|[]]. intros [].
  - cbn [pieces] in Hp. destruct (x =? NL) eqn:E.
    + destruct Hp as [<-|Hp]; [intros []|apply IH; exact Hp].
    + destruct (pieces s) as [|hd tl] eqn:Eq.
      * destruct Hp as [<-|[]]. intros [Hc|[]]. lia.
      * destruct Hp as [<-|Hp].
        -- intros [Hc|Hc]; [lia|]. apply (IH hd (or_introl eq_refl)). exact Hc.
        -- apply IH. right. exact Hp.
Qed.

Lemma cell_len_firstn_le k : forall s, cell_len (firstn k s) <= cell_len s.
Proof.
  induction k as [|k IH]; intros s.
  - cbn [firstn]. rewrite cell_len_nil. apply cell_len_nonneg.
  - destruct s as [|c s]; [cbn [firstn]; lia|]. cbn [firstn]. rewrite !cell_len_cons. specialize (IH s). lia.
Qed.

Section StreamNotWrapped.
Variable S : Type.
Variable seqb : S -> S -> bool.
Variable null : S.
Variable add : S -> S -> S.
Variable fx : Wrap.fixes.

(* default justify, overflow fold, a tab-free line that fits: the one output line is a prefix of it *)
Lemma wrap_line_default_prefix w ts (L : Wrap.text S) y :
  existsb (fun c => c =? Wrap.TAB) (Wrap.plain L) = false ->
  cell_len (Wrap.plain L) <= w ->
  In y (Wrap.wrap_line S seqb null add fx w Wrap.J_DEFAULT Wrap.OV_FOLD ts false L) ->
  exists k, Wrap.plain y = firstn k (Wrap.plain L).
Proof.
  intros Htab Hfit Hy. unfold Wrap.wrap_line in Hy. cbv zeta in Hy. rewrite Htab in Hy.
  rewrite divide_line_nobreak in Hy by exact Hfit.
  change (Wrap.divide S seqb fx L []) with [L] in Hy. cbn [map] in Hy.
  unfold Wrap.justify_lines in Hy.
  change (Wrap.J_DEFAULT =? Wrap.J_LEFT) with false in Hy.
  change (Wrap.J_DEFAULT =? Wrap.J_CENTER) with false in Hy.
  change (Wrap.J_DEFAULT =? Wrap.J_RIGHT) with false in Hy.
  change (Wrap.J_DEFAULT =? Wrap.J_FULL) with false in Hy.
  cbn [map] in Hy. destruct Hy as [<-|[]].
  destruct (rstrip_end_plain S w L) as [k [_ Hk]].
  exists k. rewrite <- Hk. unfold Wrap.truncate.
  change (Wrap.OV_FOLD =? Wrap.OV_IGNORE) with false. cbv iota. cbn [andb].
  pose proof (cell_len_firstn_le k (Wrap.plain L)) as Hle. rewrite <- Hk in Hle.
  destruct (w <? cell_len (Wrap.plain (Wrap.rstrip_end S w L))) eqn:E; [exfalso; lia|reflexivity].
Qed.
End StreamNotWrapped.

Theorem text_stream_at_max_not_wrapped : forall s, forallb (fun c => negb (c =? 9)) s = true ->
  let mx := snd (text_measure true s) in 1 <= mx ->
  not_wrapped_b s (map line_text (split_lines (text_stream s None None None ro0 mx))) = true.
Proof.
  intros s Hnt mx _. unfold not_wrapped_b. rewrite map_length, text_stream_lines_len.
  cbn [or_else ro_justify ro_overflow ro_nowrap ro0].
  set (ls := wrap_plain s mx Wrap.J_DEFAULT Wrap.OV_FOLD false).
  assert (Hlen : length ls = length (src_lines s)).
  { apply (text_stream_at_max_lines s Wrap.J_DEFAULT Wrap.OV_FOLD Hnt). }
  assert (Hne : ls <> []).
  { intros Hn. rewrite Hn, src_lines_pieces in Hlen. pose proof (pieces_length_pos s). cbn [length] in Hlen. lia. }
  assert (Hnl : Forall (fun l => ~ In NL l) ls).
  { apply Forall_forall. intros x Hx. unfold ls, wrap_plain in Hx.
    apply in_map_iff in Hx as [y [<- Hy]]. unfold Wrap.wrap in Hy. cbv zeta in Hy.
    apply in_concat in Hy as [grp [Hgrp Hy]]. apply in_map_iff in Hgrp as [L [<- HL]].
    assert (Hp : In (Wrap.plain L) (pieces s)).
    { change s with (Wrap.plain (Wrap.mkText s [] tt)) at 1.
      rewrite <- (split_nl_plain unit (fun _ _ => true) Wrap.repaired). apply in_map. exact HL. }
    change (false || (Wrap.OV_FOLD =? Wrap.OV_IGNORE)) with false in Hy.
    destruct (wrap_line_default_prefix unit (fun _ _ => true) tt (fun _ _ => tt) Wrap.repaired mx 8 L y) as [k Hk].
    - destruct (existsb (fun c => c =? Wrap.TAB) (Wrap.plain L)) eqn:E; [|reflexivity].
      apply existsb_exists in E as [c [Hc Ec]].
      pose proof (pieces_in _ _ _ Hp Hc) as Hs.
      rewrite forallb_forall in Hnt. specialize (Hnt c Hs). unfold Wrap.TAB in Ec. lia.
    - apply piece_le_max. exact Hp.
    - exact Hy.
    - rewrite Hk. intros Hin. apply in_firstn' in Hin. exact (pieces_no_nl _ _ Hp Hin). }
  rewrite (pieces_join_len ls Hne Hnl). apply Nat.eqb_eq. exact Hlen.
Qed.
