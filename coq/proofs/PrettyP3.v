(* C16 proofs, part 3: traverse builds a well-formed Node whose token stream is the canonical
   stream of the value; main theorems about pretty_repr. *)
From Coq Require Import ZifyBool.
From RichModel Require Import Prelude Wire Cells Pretty SpecPretty.
From RichGen Require Import PrettyBraces.
From RichProofs Require Import CellsP PrettyP PrettyP2.

(* ---------- induction principle for the nested type V ---------- *)
Section VInd.
  Variable P : V -> Prop.
  Hypothesis Hleaf : forall d, P (Leaf d).
  Hypothesis Hcycle : P Cycle.
  Hypothesis Hseq : forall k a xs, Forall P xs -> P (Seq k a xs).
  Hypothesis Hmap : forall k a kvs, Forall (fun kv => P (snd kv)) kvs -> P (Map k a kvs).
  Fixpoint V_ind' (v : V) : P v :=
    match v with
    | Leaf d => Hleaf d
    | Cycle => Hcycle
    | Seq k a xs =>
        Hseq k a xs ((fix go (xs : list V) : Forall P xs :=
                        match xs with
                        | [] => Forall_nil P
                        | x :: r => Forall_cons x (V_ind' x) (go r)
                        end) xs)
    | Map k a kvs =>
        Hmap k a kvs ((fix go (kvs : list (leafd * V)) : Forall (fun kv => P (snd kv)) kvs :=
                         match kvs with
                         | [] => Forall_nil _
                         | kv :: r => Forall_cons kv (V_ind' (snd kv)) (go r)
                         end) kvs)
    end.
End VInd.

(* all items but the final one are followed by a separator *)
Fixpoint lasts_ok (cs : list node) : Prop :=
  match cs with
  | [] => True
  | c :: r => match r with
              | [] => n_last c = true
              | _ => n_last c = false /\ lasts_ok r
              end
  end.

Lemma its_cons t1 c r : its t1 (c :: r) = (ntoks c ++ sepX t1 c) ++ its t1 r.
Proof. reflexivity. Qed.

Lemma its_join' cs xs : Forall2 (fun c x => ntoks c = x) cs xs -> lasts_ok cs ->
  its false cs = join_sep xs.
Proof.
  induction 1 as [|c x r xr Hcx H2 IH]; intros Hl; [reflexivity|].
  rewrite its_cons. unfold sepX, sepT. subst x.
  destruct H2 as [|c' x' r' xr' Hc' H2'].
  - cbn [lasts_ok] in Hl. rewrite Hl. cbn [its map concat join_sep]. now rewrite !app_nil_r.
  - cbn [lasts_ok] in Hl. destruct Hl as [Hl1 Hl2]. rewrite Hl1. rewrite (IH Hl2).
    cbn [join_sep]. rewrite <- app_assoc. reflexivity.
Qed.

Lemma its_join cs xs : lasts_ok cs -> Forall2 (fun c x => ntoks c = x) cs xs ->
  its false cs = join_sep xs.
Proof. intros H1 H2. now apply its_join'. Qed.

Lemma body_eq tup items :
  body tup items = if tup && single items
                   then match items with x :: _ => x ++ [TTup] | [] => [] end
                   else join_sep items.
Proof.
  destruct items as [|x [|y r]]; cbn [body single]; [now rewrite andb_false_r| |now rewrite andb_false_r].
  destruct tup; reflexivity.
Qed.

Section Trav.
  Variable bf : str -> str -> str * str * str.
  Hypothesis Hs : forall k a, bf (sname k) a = braces_spec_s k a.
  Hypothesis Hm : forall k a, bf (mname k) a = braces_spec_m k a.
  Variables ml ms : option Z.

  Lemma abbrev_F2 n : Forall2 (fun c x => ntoks c = x) (abbrev_node ml n) (marker ml n).
  Proof.
    unfold abbrev_node, marker. destruct ml as [m|]; [|constructor].
    destruct (n >? m); constructor; [reflexivity|constructor].
  Qed.

  Lemma gomap_F2 {A} (f : A -> Z -> node) (g : A -> Z -> list tok) l :
    Forall (fun x => forall i, ntoks (f x i) = g x i) l ->
    forall i, Forall2 (fun c x => ntoks c = x) (gomap ml f l i) (gomap ml g l i).
  Proof.
    induction 1 as [|x r Hx _ IH]; intros i; cbn [gomap]; [constructor|].
    destruct (limit_reached ml i); constructor; [apply Hx|apply IH].
  Qed.

  Lemma lasts_abbrev n : lasts_ok (abbrev_node ml n).
  Proof. unfold abbrev_node. destruct ml as [m|]; [|exact Logic.I]. destruct (n >? m); [reflexivity|exact Logic.I]. Qed.

  Lemma abbrev_nil_iff n : abbrev_node ml n = [] ->
    match ml with Some m => n <= m | None => True end.
  Proof. unfold abbrev_node. destruct ml as [m|]; [|auto]. destruct (n >? m) eqn:E; [discriminate|lia]. Qed.

  Lemma lasts_children {A} (f : A -> Z -> node) n :
    (forall x j, n_last (f x j) = (j =? n - 1)) ->
    forall l i, 0 <= i -> i + zlen l = n -> lasts_ok (gomap ml f l i ++ abbrev_node ml n).
  Proof.
    intros Hf. induction l as [|x r IH]; intros i Hi Hn; cbn [gomap app]; [apply lasts_abbrev|].
    destruct (limit_reached ml i) eqn:Hlim; [apply lasts_abbrev|].
    cbn [app]. cbn [lasts_ok].
    unfold zlen in Hn. cbn [length] in Hn.
    destruct (gomap ml f r (i + 1) ++ abbrev_node ml n) as [|c' R''] eqn:ER.
    - rewrite Hf. apply app_eq_nil in ER. destruct ER as [Eg Ea].
      destruct r as [|y r'].
      + cbn [length] in Hn. lia.
      + exfalso. cbn [gomap] in Eg. destruct (limit_reached ml (i + 1)) eqn:Hl2; [|discriminate].
        apply abbrev_nil_iff in Ea. unfold limit_reached in Hl2. destruct ml as [m|]; [|discriminate].
        cbn [length] in Hn. lia.
    - split.
      + rewrite Hf. destruct r as [|y r'].
        * exfalso. cbn [gomap app] in ER. unfold abbrev_node in ER. unfold limit_reached in Hlim.
          destruct ml as [m|]; [|discriminate]. cbn [length] in Hn.
          destruct (n >? m) eqn:E; [|discriminate]. lia.
        * cbn [length] in Hn. lia.
      + rewrite <- ER. apply IH; [lia|]. unfold zlen. lia.
  Qed.

  Lemma children_nonempty {A} (f : A -> Z -> node) x r :
    gomap ml f (x :: r) 0 ++ abbrev_node ml (zlen (x :: r)) <> [].
  Proof.
    cbn [gomap]. destruct (limit_reached ml 0) eqn:Hlim; [|discriminate].
    cbn [app]. unfold abbrev_node. unfold limit_reached in Hlim. destruct ml as [m|]; [|discriminate].
    unfold zlen. cbn [length]. destruct (Z.of_nat (S (length r)) >? m) eqn:E; [discriminate|lia].
  Qed.

  Lemma wf_children {A} (f : A -> Z -> node) n l :
    Forall (fun x => forall i, wfn (f x i) = true) l ->
    forall i, forallb wfn (gomap ml f l i ++ abbrev_node ml n) = true.
  Proof.
    intros H.
    assert (Ha : forallb wfn (abbrev_node ml n) = true).
    { unfold abbrev_node. destruct ml as [m|]; [|reflexivity]. destruct (n >? m); reflexivity. }
    induction H as [|x r Hx _ IH]; intros i; cbn [gomap app]; [exact Ha|].
    destruct (limit_reached ml i); [exact Ha|]. cbn [app forallb]. rewrite Hx. cbn [andb]. apply IH.
  Qed.

  Lemma trav_last v key last : n_last (trav bf ml ms v key last) = last.
  Proof. destruct v as [d|k a [|x r]|k a [|kv r]|]; reflexivity. Qed.

  Lemma F2_single {A B} (R : A -> B -> Prop) l1 l2 : Forall2 R l1 l2 -> single l1 = single l2.
  Proof. intros H. inversion H as [|a b l1' l2' _ H']; [reflexivity|]. inversion H'; reflexivity. Qed.

  (* children tokens = body of the canonical stream *)
  Lemma children_body tup cs items :
    cs <> [] -> lasts_ok cs -> Forall2 (fun c x => ntoks c = x) cs items ->
    match cs with
    | [] => []
    | c0 :: cs' => if tup && single (c0 :: cs') then ntoks c0 ++ [TTup] else its false (c0 :: cs')
    end = body tup items.
  Proof.
    intros Hne Hl H2. rewrite body_eq. rewrite <- (F2_single _ _ _ H2).
    destruct cs as [|c0 cs']; [congruence|].
    destruct (tup && single (c0 :: cs')).
    - inversion H2; subst. reflexivity.
    - apply its_join; assumption.
  Qed.

  Theorem trav_canon v : forall key last,
    ntoks (trav bf ml ms v key last) = keytoks key ++ canon ml ms v /\
    wfn (trav bf ml ms v key last) = true.
  Proof.
    induction v as [d| |k a xs IH|k a kvs IH] using V_ind'; intros key last.
    - split; [|reflexivity]. cbn [trav]. rewrite ntoks_eq. cbn [canon].
      destruct (to_repr ms d); reflexivity.
    - split; reflexivity.
    - destruct xs as [|x r].
      + split; [|reflexivity]. cbn [trav canon]. rewrite ntoks_eq, Hs. reflexivity.
      + set (xs := x :: r) in *.
        assert (HF : Forall (fun y => forall i : Z,
                      ntoks ((fun (y : V) (i : Z) => trav bf ml ms y [] (i =? zlen xs - 1)) y i)
                      = (fun (y : V) (_ : Z) => canon ml ms y) y i) xs).
        { rewrite Forall_forall in IH |- *. intros y Hy i. apply (IH y Hy). }
        assert (HW : Forall (fun y => forall i : Z,
                      wfn ((fun (y : V) (i : Z) => trav bf ml ms y [] (i =? zlen xs - 1)) y i) = true) xs).
        { rewrite Forall_forall in IH |- *. intros y Hy i. apply (IH y Hy). }
        pose proof (gomap_F2 _ _ xs HF 0) as H2.
        pose proof (Forall2_app H2 (abbrev_F2 (zlen xs))) as H2'.
        pose proof (lasts_children (fun (y : V) (i : Z) => trav bf ml ms y [] (i =? zlen xs - 1)) (zlen xs)
                      (fun y j => trav_last y [] (j =? zlen xs - 1)) xs 0 ltac:(lia) ltac:(lia)) as HL.
        pose proof (children_nonempty (fun (y : V) (i : Z) => trav bf ml ms y [] (i =? zlen xs - 1)) x r) as HN.
        pose proof (wf_children _ (zlen xs) xs HW 0) as HWc.
        fold xs in HN.
        change (trav bf ml ms (Seq k a xs) key last)
          with (Node key [] (fst (fst (bf (sname k) a))) (snd (fst (bf (sname k) a))) [] last (is_tup k)
                  (Some (gomap ml (fun y i => trav bf ml ms y [] (i =? zlen xs - 1)) xs 0 ++ abbrev_node ml (zlen xs)))).
        change (canon ml ms (Seq k a xs))
          with (TOpen (fst (fst (braces_spec_s k a)))
                  :: body (is_tup k) (gomap ml (fun y _ => canon ml ms y) xs 0 ++ marker ml (zlen xs))
                  ++ [TClose (snd (fst (braces_spec_s k a)))]).
        set (cs := gomap ml (fun y i => trav bf ml ms y [] (i =? zlen xs - 1)) xs 0 ++ abbrev_node ml (zlen xs)) in *.
        rewrite ntoks_eq, Hs. cbn [nonempty].
        pose proof (children_body (is_tup k) cs _ HN HL H2') as HB.
        destruct cs as [|c0 cs']; [congruence|].
        split.
        * rewrite HB. reflexivity.
        * cbn [wfn nonempty negb andb]. exact HWc.
    - destruct kvs as [|kv r].
      + split; [|reflexivity]. cbn [trav canon]. rewrite ntoks_eq, Hm. reflexivity.
      + set (kvs := kv :: r) in *.
        assert (HF : Forall (fun y => forall i : Z,
                      ntoks ((fun (y : leafd * V) (i : Z) =>
                                trav bf ml ms (snd y) (to_repr ms (fst y)) (i =? zlen kvs - 1)) y i)
                      = (fun (y : leafd * V) (_ : Z) => keytoks (to_repr ms (fst y)) ++ canon ml ms (snd y)) y i) kvs).
        { rewrite Forall_forall in IH |- *. intros y Hy i. apply (IH y Hy). }
        assert (HW : Forall (fun y => forall i : Z,
                      wfn ((fun (y : leafd * V) (i : Z) =>
                              trav bf ml ms (snd y) (to_repr ms (fst y)) (i =? zlen kvs - 1)) y i) = true) kvs).
        { rewrite Forall_forall in IH |- *. intros y Hy i. apply (IH y Hy). }
        pose proof (gomap_F2 _ _ kvs HF 0) as H2.
        pose proof (Forall2_app H2 (abbrev_F2 (zlen kvs))) as H2'.
        pose proof (lasts_children (fun (y : leafd * V) (i : Z) =>
                                      trav bf ml ms (snd y) (to_repr ms (fst y)) (i =? zlen kvs - 1)) (zlen kvs)
                      (fun y j => trav_last (snd y) _ (j =? zlen kvs - 1)) kvs 0 ltac:(lia) ltac:(lia)) as HL.
        pose proof (children_nonempty (fun (y : leafd * V) (i : Z) =>
                                      trav bf ml ms (snd y) (to_repr ms (fst y)) (i =? zlen kvs - 1)) kv r) as HN.
        pose proof (wf_children _ (zlen kvs) kvs HW 0) as HWc.
        fold kvs in HN.
        change (trav bf ml ms (Map k a kvs) key last)
          with (Node key [] (fst (fst (bf (mname k) a))) (snd (fst (bf (mname k) a))) [] last false
                  (Some (gomap ml (fun y i => trav bf ml ms (snd y) (to_repr ms (fst y)) (i =? zlen kvs - 1)) kvs 0
                           ++ abbrev_node ml (zlen kvs)))).
        change (canon ml ms (Map k a kvs))
          with (TOpen (fst (fst (braces_spec_m k a)))
                  :: body false (gomap ml (fun y _ => keytoks (to_repr ms (fst y)) ++ canon ml ms (snd y)) kvs 0
                                   ++ marker ml (zlen kvs))
                  ++ [TClose (snd (fst (braces_spec_m k a)))]).
        set (cs := gomap ml (fun y i => trav bf ml ms (snd y) (to_repr ms (fst y)) (i =? zlen kvs - 1)) kvs 0
                     ++ abbrev_node ml (zlen kvs)) in *.
        rewrite ntoks_eq, Hm. cbn [nonempty].
        pose proof (children_body false cs _ HN HL H2') as HB.
        destruct cs as [|c0 cs']; [congruence|].
        split.
        * rewrite HB. reflexivity.
        * cbn [wfn nonempty negb andb]. exact HWc.
  Qed.

  Corollary traverse_canon v : ntoks (traverse bf ml ms v) = canon ml ms v.
  Proof. unfold traverse. rewrite (proj1 (trav_canon v [] true)). reflexivity. Qed.

  Corollary traverse_wf v : wfn (traverse bf ml ms v) = true.
  Proof. unfold traverse. apply trav_canon. Qed.

  Corollary canon_str_node v : canon_str ml ms v = node_str (traverse bf ml ms v).
  Proof. unfold canon_str. rewrite <- traverse_canon. apply ntoks_str. Qed.
End Trav.
