(* Proofs for L0 (rich/cells.py): binary search = linear scan, widths in {0,1,2},
   cache transparency, set_cell_size, chop_cells. *)
From RichModel Require Import Prelude Cells SpecCells.
From RichGen Require Import CellWidthTable.
From Coq Require Import ZifyBool.

Definition entry := (Z * Z * Z)%type.
Definition conv (w : Z) : Z := if w =? -1 then 0 else w.

(* ------------------------------------------------------------------ sortedness by index *)
Lemma sorted_from_weaken p q T :
  q <= p -> sorted_disjoint_from p T = true -> sorted_disjoint_from q T = true.
Proof.
  destruct T as [|[[s e] w] T]; simpl; intros Hq H; [reflexivity|].
  apply andb_true_iff in H as [H1 H3]. apply andb_true_iff in H1 as [H1 H2].
  rewrite H2, H3. replace (q <? s) with true by lia. reflexivity.
Qed.

Lemma sorted_nth_bounds T : forall p i s e w,
  sorted_disjoint_from p T = true -> nth_error T i = Some (s, e, w) -> p < s /\ s <= e.
Proof.
  induction T as [|[[s0 e0] w0] T IH]; intros p i s e w H Hn; [destruct i; discriminate|].
  simpl in H. apply andb_true_iff in H as [H1 H3]. apply andb_true_iff in H1 as [H1 H2].
  destruct i as [|i]; simpl in Hn.
  - inversion Hn; subst. lia.
  - destruct (IH e0 i s e w H3 Hn) as [Ha Hb]. lia.
Qed.

Lemma sorted_nth_lt T : forall p i j si ei wi sj ej wj,
  sorted_disjoint_from p T = true -> (i < j)%nat ->
  nth_error T i = Some (si, ei, wi) -> nth_error T j = Some (sj, ej, wj) -> ei < sj.
Proof.
  induction T as [|[[s0 e0] w0] T IH]; intros p i j si ei wi sj ej wj H Hij Hi Hj; [destruct i; discriminate|].
  simpl in H. apply andb_true_iff in H as [H1 H3]. apply andb_true_iff in H1 as [H1 H2].
  destruct j as [|j]; [lia|]. simpl in Hj.
  destruct i as [|i]; simpl in Hi.
  - inversion Hi; subst. destruct (sorted_nth_bounds T ei j sj ej wj H3 Hj). lia.
  - apply (IH e0 i j si ei wi sj ej wj H3); [lia|assumption|assumption].
Qed.

(* ------------------------------------------------------------------ linear scan by index *)
Lemma linear_hit T : forall p i s e w cp,
  sorted_disjoint_from p T = true -> nth_error T i = Some (s, e, w) ->
  s <= cp <= e -> lookup_linear T cp = conv w.
Proof.
  induction T as [|[[s0 e0] w0] T IH]; intros p i s e w cp H Hn Hcp; [destruct i; discriminate|].
  destruct i as [|i]; simpl in Hn.
  - inversion Hn; subst. simpl. replace ((s <=? cp) && (cp <=? e)) with true by lia. reflexivity.
  - assert (Hlt : e0 < s).
    { apply (sorted_nth_lt ((s0, e0, w0) :: T) p 0%nat (S i) s0 e0 w0 s e w H); [lia|reflexivity|exact Hn]. }
    simpl. replace ((s0 <=? cp) && (cp <=? e0)) with false by lia.
    simpl in H. apply andb_true_iff in H as [_ H3].
    apply (IH e0 i s e w cp H3 Hn Hcp).
Qed.

Lemma linear_miss T : forall cp,
  (forall i s e w, nth_error T i = Some (s, e, w) -> cp < s \/ e < cp) -> lookup_linear T cp = 1.
Proof.
  induction T as [|[[s0 e0] w0] T IH]; intros cp H; [reflexivity|].
  simpl. destruct (H 0%nat s0 e0 w0 eq_refl) as [Hc|Hc].
  - replace ((s0 <=? cp) && (cp <=? e0)) with false by lia. apply IH. intros i. apply (H (S i)).
  - replace ((s0 <=? cp) && (cp <=? e0)) with false by lia. apply IH. intros i. apply (H (S i)).
Qed.

(* ------------------------------------------------------------------ py_nth on in-range indices *)
Lemma py_nth_nonneg {A} (l : list A) i : 0 <= i -> py_nth l i = nth_error l (Z.to_nat i).
Proof. intros H. unfold py_nth. replace (0 <=? i) with true by lia. reflexivity. Qed.

(* ------------------------------------------------------------------ the binary search *)
Lemma bsearch_ok T cp : sorted_disjoint T = true ->
  forall fuel lo hi,
    0 <= lo -> lo <= hi -> hi < zlen T -> (Z.to_nat (hi - lo) < fuel)%nat ->
    (forall j s e w, nth_error T j = Some (s, e, w) -> Z.of_nat j < lo -> e < cp) ->
    (forall j s e w, nth_error T j = Some (s, e, w) -> hi < Z.of_nat j -> cp < s) ->
    bsearch fuel T cp lo hi ((lo + hi) / 2) = Ok (lookup_linear T cp).
Proof.
  intros Hs. unfold sorted_disjoint in Hs.
  induction fuel as [|f IH]; intros lo hi Hlo Hle Hhi Hf Hbelow Habove; [lia|].
  set (idx := (lo + hi) / 2).
  assert (Hidx : lo <= idx <= hi) by (unfold idx; split; [apply Z.div_le_lower_bound|apply Z.div_le_upper_bound]; lia).
  cbn [bsearch]. rewrite py_nth_nonneg by lia.
  destruct (nth_error T (Z.to_nat idx)) as [[[s e] w]|] eqn:Hn.
  2:{ apply nth_error_None in Hn. unfold zlen in Hhi. lia. }
  destruct (cp <? s) eqn:Hc1.
  - (* go left *)
    destruct (idx - 1 <? lo) eqn:Hc2.
    + f_equal. symmetry. apply linear_miss. intros j sj ej wj Hj.
      destruct (Z_lt_le_dec (Z.of_nat j) lo) as [Hjl|Hjl].
      * right. apply (Hbelow j sj ej wj Hj Hjl).
      * left. destruct (Nat.eq_dec j (Z.to_nat idx)) as [->|Hne].
        -- rewrite Hn in Hj. inversion Hj; subst. lia.
        -- assert (Hlt : (Z.to_nat idx < j)%nat) by lia.
           pose proof (sorted_nth_lt T (-1) (Z.to_nat idx) j s e w sj ej wj Hs Hlt Hn Hj).
           destruct (sorted_nth_bounds T (-1) (Z.to_nat idx) s e w Hs Hn). lia.
    + apply IH; try lia.
      * exact Hbelow.
      * intros j sj ej wj Hj Hgt.
        destruct (Nat.eq_dec j (Z.to_nat idx)) as [->|Hne].
        -- rewrite Hn in Hj. inversion Hj; subst. lia.
        -- assert (Hlt : (Z.to_nat idx < j)%nat) by lia.
           pose proof (sorted_nth_lt T (-1) (Z.to_nat idx) j s e w sj ej wj Hs Hlt Hn Hj).
           destruct (sorted_nth_bounds T (-1) (Z.to_nat idx) s e w Hs Hn). lia.
  - destruct (e <? cp) eqn:Hc3.
    + (* go right *)
      destruct (hi <? idx + 1) eqn:Hc4.
      * f_equal. symmetry. apply linear_miss. intros j sj ej wj Hj.
        destruct (Z_lt_le_dec hi (Z.of_nat j)) as [Hjl|Hjl].
        -- left. apply (Habove j sj ej wj Hj Hjl).
        -- right. destruct (Nat.eq_dec j (Z.to_nat idx)) as [->|Hne].
           ++ rewrite Hn in Hj. inversion Hj; subst. lia.
           ++ destruct (Z_lt_le_dec (Z.of_nat j) lo) as [Hjl2|Hjl2].
              ** apply (Hbelow j sj ej wj Hj Hjl2).
              ** assert (Hlt : (j < Z.to_nat idx)%nat) by lia.
                 pose proof (sorted_nth_lt T (-1) j (Z.to_nat idx) sj ej wj s e w Hs Hlt Hj Hn).
                 destruct (sorted_nth_bounds T (-1) (Z.to_nat idx) s e w Hs Hn). lia.
      * apply IH; try lia.
        -- intros j sj ej wj Hj Hgt.
           destruct (Nat.eq_dec j (Z.to_nat idx)) as [->|Hne].
           ++ rewrite Hn in Hj. inversion Hj; subst. lia.
           ++ assert (Hlt : (j < Z.to_nat idx)%nat) by lia.
              pose proof (sorted_nth_lt T (-1) j (Z.to_nat idx) sj ej wj s e w Hs Hlt Hj Hn).
              destruct (sorted_nth_bounds T (-1) j sj ej wj Hs Hj). lia.
        -- exact Habove.
    + (* hit *)
      f_equal. symmetry. apply (linear_hit T (-1) (Z.to_nat idx) s e w cp Hs Hn). lia.
Qed.

(* For EVERY sorted, non-empty table and EVERY integer cp the while-loop of
   _get_codepoint_cell_size returns what a linear scan returns (and never runs out of fuel,
   never indexes out of range). *)
Theorem bsearch_is_linear T cp :
  sorted_disjoint T = true -> T <> [] ->
  codepoint_cell_size_T T cp = Ok (lookup_linear T cp).
Proof.
  intros Hs Hne. unfold codepoint_cell_size_T.
  assert (Hlen : 0 < zlen T) by (destruct T; [congruence|unfold zlen; simpl length; lia]).
  apply bsearch_ok; try assumption; try lia.
  - unfold zlen in *. lia.
  - intros j s e w Hj Hgt.
    assert (Hj' : nth_error T j <> None) by congruence.
    apply nth_error_Some in Hj'. unfold zlen in *. lia.
Qed.

(* ------------------------------------------------------------------ the table in /repo, today *)
Lemma table_sorted : sorted_disjoint CELL_WIDTHS = true.
Proof. vm_compute. reflexivity. Qed.

Lemma table_nonempty : CELL_WIDTHS <> [].
Proof. unfold CELL_WIDTHS. discriminate. Qed.

Lemma table_widths_ok : widths_ok CELL_WIDTHS = true.
Proof. vm_compute. reflexivity. Qed.

(* the model of _get_codepoint_cell_size agrees with the linear scan on EVERY integer *)
Theorem cw_model_eq cp : codepoint_cell_size cp = Ok (cw cp).
Proof. apply bsearch_is_linear; [exact table_sorted|exact table_nonempty]. Qed.

Lemma lookup_linear_range T cp : widths_ok T = true -> 0 <= lookup_linear T cp <= 2.
Proof.
  induction T as [|[[s e] w] T IH]; simpl; intros H; [lia|].
  apply andb_true_iff in H as [H1 H2].
  destruct ((s <=? cp) && (cp <=? e)); [|apply IH; exact H2].
  destruct (w =? -1) eqn:E; lia.
Qed.

Theorem cw_range cp : 0 <= cw cp <= 2.
Proof. apply lookup_linear_range. exact table_widths_ok. Qed.

Lemma char_size_range c : 0 <= char_size c <= 2.
Proof. unfold char_size. destruct ((31 <? c) && (c <? 127)); [lia|apply cw_range]. Qed.

Theorem char_size_res_eq cp : char_size_res cp = Ok (char_size cp).
Proof.
  unfold char_size_res, char_size. destruct ((31 <? cp) && (cp <? 127)); [reflexivity|apply cw_model_eq].
Qed.

(* the ASCII shortcut agrees with the table: printable ASCII has no table entry *)
Lemma ascii_shortcut_sweep :
  forallb (fun n => cw (32 + Z.of_nat n) =? 1) (seq 0 95) = true.
Proof. vm_compute. reflexivity. Qed.

Theorem ascii_shortcut_consistent cp : 31 < cp < 127 -> cw cp = 1.
Proof.
  intros H. pose proof ascii_shortcut_sweep as Hs. rewrite forallb_forall in Hs.
  specialize (Hs (Z.to_nat (cp - 32))).
  assert (Hin : In (Z.to_nat (cp - 32)) (seq 0 95)) by (apply in_seq; lia).
  apply Hs in Hin. replace (32 + Z.of_nat (Z.to_nat (cp - 32))) with cp in Hin by lia. lia.
Qed.

Theorem char_size_is_table cp : char_size cp = cw cp.
Proof.
  unfold char_size. destruct ((31 <? cp) && (cp <? 127)) eqn:E; [|reflexivity].
  symmetry. apply ascii_shortcut_consistent. lia.
Qed.

(* ------------------------------------------------------------------ cell_len *)
Lemma sumZ_app a b : sumZ (a ++ b) = sumZ a + sumZ b.
Proof. induction a as [|x a IH]; simpl; [reflexivity|]. unfold sumZ in *. simpl. lia. Qed.

Theorem cell_len_sum s : cell_len s = sumZ (map cw s).
Proof.
  unfold cell_len. induction s as [|c s IH]; [simpl; reflexivity|].
  cbn [map]. unfold sumZ in *. cbn [fold_right]. rewrite IH, char_size_is_table. reflexivity.
Qed.

Lemma cell_len_app a b : cell_len (a ++ b) = cell_len a + cell_len b.
Proof. unfold cell_len. rewrite map_app. apply sumZ_app. Qed.

Lemma cell_len_cons c s : cell_len (c :: s) = char_size c + cell_len s.
Proof. reflexivity. Qed.

Lemma cell_len_nonneg s : 0 <= cell_len s.
Proof.
  induction s as [|c s IH]; [unfold cell_len; simpl; lia|].
  rewrite cell_len_cons. pose proof (char_size_range c). lia.
Qed.

Lemma cell_len_spaces n : cell_len (repeat SP n) = Z.of_nat n.
Proof.
  induction n as [|n IH]; [reflexivity|].
  cbn [repeat]. rewrite cell_len_cons, IH.
  replace (char_size SP) with 1 by (vm_compute; reflexivity). lia.
Qed.

(* ------------------------------------------------------------------ cache transparency *)
Lemma str_eqb_eq a : forall b, str_eqb a b = true -> a = b.
Proof.
  induction a as [|x a IH]; intros [|y b] H; simpl in H; try discriminate; [reflexivity|].
  apply andb_true_iff in H as [H1 H2]. apply Z.eqb_eq in H1. subst. f_equal. apply IH. exact H2.
Qed.

Lemma str_eqb_refl a : str_eqb a a = true.
Proof. induction a as [|x a IH]; simpl; [reflexivity|]. rewrite Z.eqb_refl, IH. reflexivity. Qed.

Definition CacheInv (c : cache) : Prop := Forall (fun kv => snd kv = cell_len (fst kv)) c.

Lemma cache_get_inv c k v : CacheInv c -> cache_get c k = Some v -> v = cell_len k.
Proof.
  induction c as [|[k' v'] c IH]; intros Hi Hg; simpl in Hg; [discriminate|].
  inversion Hi as [|? ? Hh Ht]; subst.
  destruct (str_eqb k k') eqn:E.
  - apply str_eqb_eq in E. subst. inversion Hg; subst. exact Hh.
  - apply IH; assumption.
Qed.

Lemma cache_update_inv c k : CacheInv c -> CacheInv (cache_update c k (cell_len k)).
Proof.
  induction c as [|[k' v'] c IH]; intros Hi; simpl; [constructor|].
  inversion Hi as [|? ? Hh Ht]; subst.
  destruct (str_eqb k k') eqn:E.
  - apply str_eqb_eq in E. subst. constructor; [reflexivity|assumption].
  - constructor; [assumption|apply IH; assumption].
Qed.

Lemma cache_update_length c k v : length (cache_update c k v) = length c.
Proof. induction c as [|[k' v'] c IH]; simpl; [reflexivity|]. destruct (str_eqb k k'); simpl; congruence. Qed.

Lemma cache_set_inv cap c k : CacheInv c -> CacheInv (cache_set cap c k (cell_len k)).
Proof.
  intros Hi. unfold cache_set. destruct (cache_get c k).
  - apply cache_update_inv. exact Hi.
  - apply Forall_app. split.
    + destruct (cap <=? length c)%nat; [|exact Hi].
      destruct c; [constructor|]. inversion Hi; assumption.
    + constructor; [reflexivity|constructor].
Qed.

Lemma cache_set_length cap c k v :
  (1 <= cap)%nat -> (length c <= cap)%nat -> (length (cache_set cap c k v) <= cap)%nat.
Proof.
  intros Hc Hl. unfold cache_set. destruct (cache_get c k).
  - rewrite cache_update_length. exact Hl.
  - rewrite app_length. simpl.
    destruct (cap <=? length c)%nat eqn:E.
    + destruct c; simpl in *; lia.
    + apply Nat.leb_gt in E. lia.
Qed.

Lemma cell_len_cached_ok cap c s :
  CacheInv c ->
  fst (cell_len_cached cap c s) = cell_len s /\ CacheInv (snd (cell_len_cached cap c s)).
Proof.
  intros Hi. unfold cell_len_cached.
  destruct (cache_get c s) as [v|] eqn:Hg.
  - simpl. split; [apply (cache_get_inv c s v Hi Hg)|exact Hi].
  - destruct (length s <=? 64)%nat; simpl; split; try reflexivity; try exact Hi.
    apply cache_set_inv. exact Hi.
Qed.

Lemma cell_len_cached_size cap c s :
  (1 <= cap)%nat -> (length c <= cap)%nat -> (length (snd (cell_len_cached cap c s)) <= cap)%nat.
Proof.
  intros Hc Hl. unfold cell_len_cached.
  destruct (cache_get c s); [exact Hl|].
  destruct (length s <=? 64)%nat; simpl; [apply cache_set_length; assumption|exact Hl].
Qed.

(* Whatever was measured before -- any call history, any cache content satisfying the invariant,
   evictions included -- every call returns the uncached sum. *)
Theorem cache_transparent cap : forall calls c,
  CacheInv c ->
  fst (run_cached cap c calls) = map cell_len calls /\ CacheInv (snd (run_cached cap c calls)).
Proof.
  induction calls as [|s calls IH]; intros c Hi; [split; [reflexivity|exact Hi]|].
  cbn [run_cached].
  destruct (cell_len_cached_ok cap c s Hi) as [H1 H2].
  destruct (cell_len_cached cap c s) as [v c'] eqn:E1. simpl in H1, H2.
  destruct (IH c' H2) as [H3 H4].
  destruct (run_cached cap c' calls) as [vs c''] eqn:E2. simpl in *.
  split; [congruence|exact H4].
Qed.

Theorem cache_bounded cap : (1 <= cap)%nat -> forall calls c,
  (length c <= cap)%nat -> (length (snd (run_cached cap c calls)) <= cap)%nat.
Proof.
  intros Hc. induction calls as [|s calls IH]; intros c Hl; [exact Hl|].
  cbn [run_cached].
  pose proof (cell_len_cached_size cap c s Hc Hl) as H1.
  destruct (cell_len_cached cap c s) as [v c'] eqn:E1. simpl in H1.
  specialize (IH c' H1).
  destruct (run_cached cap c' calls) as [vs c''] eqn:E2. simpl in *. exact IH.
Qed.

(* ------------------------------------------------------------------ set_cell_size *)
Lemma pop_loop_spec : forall r ex,
  Forall (fun x => 0 <= x <= 2) r -> 0 <= ex -> ex <= sumZ r ->
  exists dropped,
    r = dropped ++ fst (pop_loop r ex) /\
    snd (pop_loop r ex) = ex - sumZ dropped /\
    -1 <= snd (pop_loop r ex) <= 0.
Proof.
  induction r as [|x r IH]; intros ex Hr Hex Hsum.
  - unfold sumZ in Hsum. simpl in Hsum. assert (ex = 0) by lia. subst.
    exists []. simpl. split; [reflexivity|]. unfold sumZ. simpl. lia.
  - cbn [pop_loop]. destruct (0 <? ex) eqn:E.
    + inversion Hr as [|? ? Hx Hr']; subst.
      assert (Hs : sumZ (x :: r) = x + sumZ r) by reflexivity.
      destruct (Z_le_dec 0 (ex - x)) as [Hge|Hlt].
      * destruct (IH (ex - x) Hr' Hge ltac:(lia)) as [d [H1 [H2 H3]]].
        exists (x :: d). split; [simpl; f_equal; exact H1|].
        split; [rewrite H2; change (sumZ (x :: d)) with (x + sumZ d); lia|exact H3].
      * (* ex - x = -1: the loop stops right here *)
        assert (Hm : ex - x = -1) by lia.
        exists [x]. destruct r as [|y r]; cbn [pop_loop]; replace (0 <? ex - x) with false by lia;
          simpl; (split; [reflexivity|]); unfold sumZ; simpl; lia.
    + assert (ex = 0) by lia. subst. exists []. simpl. split; [reflexivity|]. unfold sumZ; simpl; lia.
Qed.

Lemma prefix_then_spaces_ok s : forall k p, prefix_then_spaces s (firstn k s ++ repeat SP p) = true.
Proof.
  assert (Hsp : forall p, all_spaces (repeat SP p) = true).
  { induction p; simpl; [reflexivity|]. unfold all_spaces in *. simpl. rewrite IHp. reflexivity. }
  assert (Hany : forall s' p, prefix_then_spaces s' (repeat SP p) = true).
  { intros s' p. destruct p as [|p]; [destruct s'; reflexivity|].
    pose proof (Hsp (S p)) as Hs1. cbn [repeat] in Hs1.
    destruct s' as [|c' s']; cbn [repeat prefix_then_spaces]; [exact Hs1|].
    destruct (SP =? c'); [rewrite Hs1; apply orb_true_r|exact Hs1]. }
  induction s as [|c s IH]; intros k p.
  - rewrite firstn_nil. cbn [app]. apply Hany.
  - destruct k as [|k]; [cbn [firstn app]; apply Hany|].
    cbn [firstn app prefix_then_spaces]. rewrite Z.eqb_refl, IH. reflexivity.
Qed.

Lemma map_firstn {A B} (f : A -> B) n l : map f (firstn n l) = firstn n (map f l).
Proof. revert l. induction n; intros [|x l]; simpl; try reflexivity. rewrite IHn. reflexivity. Qed.

(* Resizing to n cells gives exactly n cells: a prefix of the original followed by spaces. *)
Theorem set_cell_size_spec s n :
  0 <= n -> resize_ok_b s n (set_cell_size s n) = true.
Proof.
  intros Hn. unfold resize_ok_b, set_cell_size.
  destruct (cell_len s =? n) eqn:E1.
  - rewrite E1. simpl. rewrite <- (firstn_all s) at 2.
    rewrite <- (app_nil_r (firstn (length s) s)). apply (prefix_then_spaces_ok s (length s) 0).
  - destruct (cell_len s <? n) eqn:E2.
    + apply andb_true_iff. split.
      * unfold py_repeat. rewrite cell_len_app, cell_len_spaces. lia.
      * rewrite <- (firstn_all s) at 2. apply prefix_then_spaces_ok.
    + set (sizes := map char_size s).
      assert (Hall : Forall (fun x => 0 <= x <= 2) (rev sizes)).
      { apply Forall_rev. unfold sizes. apply Forall_forall. intros x Hx.
        apply in_map_iff in Hx as [c [<- _]]. apply char_size_range. }
      assert (Hsum : sumZ (rev sizes) = cell_len s).
      { unfold cell_len. fold sizes. clear. induction sizes as [|x l IH]; [reflexivity|].
        simpl. rewrite sumZ_app, IH. unfold sumZ. simpl. lia. }
      destruct (pop_loop_spec (rev sizes) (cell_len s - n) Hall ltac:(lia) ltac:(lia)) as [d [H1 [H2 H3]]].
      destruct (pop_loop (rev sizes) (cell_len s - n)) as [kept ex] eqn:Ep. simpl in H1, H2, H3.
      (* sizes = rev kept ++ rev d *)
      assert (Hsz : sizes = rev kept ++ rev d).
      { rewrite <- rev_app_distr, <- H1, rev_involutive. reflexivity. }
      assert (Hk : cell_len (firstn (length kept) s) = sumZ kept).
      { unfold cell_len. rewrite map_firstn. fold sizes. rewrite Hsz.
        rewrite <- rev_length. rewrite firstn_app, Nat.sub_diag, firstn_all. simpl. rewrite app_nil_r.
        clear. induction kept as [|x l IH]; [reflexivity|]. simpl. rewrite sumZ_app, IH. unfold sumZ; simpl; lia. }
      assert (Hkd : sumZ kept = cell_len s - sumZ d).
      { rewrite <- Hsum, H1, sumZ_app. lia. }
      destruct (ex =? -1) eqn:E3.
      * apply andb_true_iff. split.
        -- rewrite cell_len_app, Hk. change (cell_len [SP]) with 1. lia.
        -- apply (prefix_then_spaces_ok s (length kept) 1).
      * apply andb_true_iff. split.
        -- rewrite Hk. lia.
        -- rewrite <- (app_nil_r (firstn (length kept) s)). apply (prefix_then_spaces_ok s (length kept) 0).
Qed.

(* ------------------------------------------------------------------ chop_cells *)
Lemma chop_go_concat : forall chars m t cur done,
  concat (chop_go chars m t cur done) = concat (rev done) ++ rev cur ++ chars.
Proof.
  induction chars as [|c chars IH]; intros m t cur done.
  - simpl. rewrite concat_app. simpl. rewrite !app_nil_r. reflexivity.
  - cbn [chop_go]. destruct (m <? t + char_size c).
    + rewrite IH. simpl. rewrite concat_app. simpl. rewrite app_nil_r, <- !app_assoc. reflexivity.
    + rewrite IH. simpl. rewrite <- !app_assoc. reflexivity.
Qed.

Lemma chop_go_fit : forall chars m t cur done,
  2 <= m -> cell_len (rev cur) <= t -> (cur <> [] -> t <= m) ->
  Forall (fun p => cell_len p <= m) done ->
  Forall (fun p => cell_len p <= m) (chop_go chars m t cur done).
Proof.
  induction chars as [|c chars IH]; intros m t cur done Hm Hc Ht Hd.
  - cbn [chop_go]. apply Forall_rev. constructor; [|exact Hd].
    destruct cur; [change (cell_len (rev [])) with 0; lia|]. specialize (Ht ltac:(discriminate)). lia.
  - cbn [chop_go]. pose proof (char_size_range c) as Hr. destruct (m <? t + char_size c) eqn:E.
    + apply IH; try assumption.
      * simpl. rewrite cell_len_cons. change (cell_len []) with 0. lia.
      * intros _. lia.
      * constructor; [|exact Hd].
        destruct cur; [change (cell_len (rev [])) with 0; lia|]. specialize (Ht ltac:(discriminate)). lia.
    + apply IH; try assumption.
      * simpl. rewrite cell_len_app, cell_len_cons. change (cell_len []) with 0. lia.
      * intros _. lia.
Qed.

(* Chopping to a width of at least two: the pieces concatenate to the original and each fits. *)
Theorem chop_cells_spec s w : 2 <= w -> chop_ok_b s w (chop_cells s w 0) = true.
Proof.
  intros Hw. unfold chop_ok_b, chop_cells. apply andb_true_iff. split.
  - rewrite chop_go_concat. simpl. apply str_eqb_refl.
  - apply forallb_forall. intros p Hp.
    pose proof (chop_go_fit s w 0 [] [] Hw) as H.
    assert (Hf : Forall (fun p => cell_len p <= w) (chop_go s w 0 [] [])).
    { apply H; [unfold cell_len; simpl; lia|congruence|constructor]. }
    rewrite Forall_forall in Hf. specialize (Hf p Hp). lia.
Qed.

(* the `position` variant: with a non-negative starting column, pieces still concatenate to s and
   every piece after the first fits; the first fits in what is left of its line *)
Theorem chop_cells_concat s w pos : concat (chop_cells s w pos) = s.
Proof. unfold chop_cells. rewrite chop_go_concat. reflexivity. Qed.
