(* C11, part 4: lock accounting for re-entrant locks, the static shape of reachable programs,
   absence of deadlock (lock-order argument), writes happen under the console lock. *)
From RichModel Require Import Prelude Conc SpecConc.
From Coq Require Import ZifyBool.
Open Scope list_scope.

(* releases minus acquisitions of lock l still to come in a program *)
Fixpoint rma (l : lockid) (p : list instr) : Z :=
  match p with
  | [] => 0
  | IAcq l' :: r => (if lock_eqb l l' then -1 else 0) + rma l r
  | IRel l' :: r => (if lock_eqb l l' then 1 else 0) + rma l r
  | IStopA _ :: r => (if lock_eqb l LLive then 1 else 0) + rma l r   (* both arms release the live lock once *)
  | _ :: r => rma l r
  end.

Lemma rma_app l a b : rma l (a ++ b) = rma l a + rma l b.
Proof. induction a as [|x a IH]; cbn [app rma]; [lia|]. destruct x; rewrite ?IH; lia. Qed.

Lemma lock_eqb_eq a b : lock_eqb a b = true <-> a = b.
Proof. destruct a, b; cbn; split; congruence. Qed.
Lemma lock_eqb_refl a : lock_eqb a a = true.
Proof. destruct a; reflexivity. Qed.

Definition cnt (o : option (tid * nat)) (t : tid) : Z :=
  match o with Some (u, n) => if Nat.eqb u t then Z.of_nat n else 0 | None => 0 end.
Definition pos (o : option (tid * nat)) : Prop := forall u n, o = Some (u, n) -> (1 <= n)%nat.
Definition held (s : shared) (l : lockid) (t : tid) : Z := cnt (getl s l) t.
Definition lock_pos (s : shared) : Prop := forall l, pos (getl s l).

Lemma acquire_cnt o t v : acquire o t = Some v -> pos o ->
  cnt v t = cnt o t + 1 /\ (forall u, u <> t -> cnt v u = cnt o u) /\ pos v.
Proof.
  unfold acquire, cnt, pos. intros H Hp. destruct o as [[u n]|].
  - destruct (Nat.eqb u t) eqn:E; [|discriminate]. inversion H; subst. apply Nat.eqb_eq in E. subst u.
    rewrite Nat.eqb_refl. split; [lia|]. split.
    + intros u Hu. destruct (Nat.eqb t u) eqn:E2; auto. apply Nat.eqb_eq in E2. congruence.
    + intros u' n' Hq. inversion Hq; subst. lia.
  - inversion H; subst. rewrite Nat.eqb_refl. split; [lia|]. split.
    + intros u Hu. destruct (Nat.eqb t u) eqn:E2; auto. apply Nat.eqb_eq in E2. congruence.
    + intros u' n' Hq. inversion Hq; subst. lia.
Qed.

Lemma release_cnt o t v : release o t = Some v -> pos o ->
  cnt v t = cnt o t - 1 /\ (forall u, u <> t -> cnt v u = cnt o u) /\ pos v /\ 1 <= cnt o t.
Proof.
  unfold release, cnt, pos. intros H Hp. destruct o as [[u n]|]; [|discriminate].
  destruct n as [|n]; [discriminate|]. destruct (Nat.eqb u t) eqn:E; [|discriminate].
  apply Nat.eqb_eq in E. subst u. inversion H; subst; clear H.
  destruct n as [|n].
  - split; [lia|]. split; [|split; [intros; discriminate | lia]].
    intros u Hu. destruct (Nat.eqb t u) eqn:E2; auto. apply Nat.eqb_eq in E2. congruence.
  - rewrite Nat.eqb_refl. split; [lia|]. split; [|split; [|lia]].
    + intros u Hu. destruct (Nat.eqb t u) eqn:E2; auto. apply Nat.eqb_eq in E2. congruence.
    + intros u' n' Hq. inversion Hq; subst. lia.
Qed.

Lemma getl_setl_eq s l v : getl (setl s l v) l = v.
Proof. destruct l; reflexivity. Qed.
Lemma getl_setl_neq s l l' v : l <> l' -> getl (setl s l v) l' = getl s l'.
Proof. destruct l, l'; try reflexivity; congruence. Qed.

(* ---- how one instruction changes the program *)
Lemma rma_print_rest l rep h c : rma l (print_rest rep h c) = 0.
Proof. destruct l, rep, h, c; reflexivity. Qed.
Lemma rma_flush l : rma l flush_seq = 0.
Proof. destruct l; reflexivity. Qed.
Lemma rma_start l : rma l start_rest = 0.
Proof. destruct l; reflexivity. Qed.
Lemma rma_stop l : rma l stop_rest = 0.
Proof. destruct l; reflexivity. Qed.

Definition is_lock_op (i : instr) : bool := match i with IAcq _ | IRel _ => true | _ => false end.

Lemma rma_tick l : rma l tick_seq = 0.
Proof. destruct l; reflexivity. Qed.
Lemma rma_refresh l : rma l refresh_seq = 0.
Proof. destruct l; reflexivity. Qed.
Lemma rma_stopa l rt : rma l (stopa_rest rt) = if lock_eqb l LLive then 1 else 0.
Proof. destruct l; reflexivity. Qed.

Lemma exec_prog_cases rep t s ts r i s' ts' :
  exec rep t s (set_prog ts r) i = Some (s', ts') ->
  (prog ts' = r /\ forall rt, i <> IStopA rt) \/ (i = ITest /\ prog ts' = flush_seq ++ r)
  \/ (exists c h, i = IRdHooks c /\ prog ts' = print_rest rep h c ++ r)
  \/ (i = IStart /\ prog ts' = start_rest ++ r) \/ (i = IStop /\ prog ts' = stop_rest ++ r)
  \/ (i = ILoop /\ prog ts' = tick_seq ++ r) \/ (i = ICheckDone /\ prog ts' = refresh_seq ++ r)
  \/ (exists rt, i = IStopA rt /\ prog ts' = stopa_rest rt ++ r)
  \/ (exists rt, i = IStopA rt /\ prog ts' = IRel LLive :: r).
Proof.
  intros He. destruct i; cbn [exec] in He;
    repeat match type of He with context [match ?x with _ => _ end] => destruct x end;
    inversion He; subst; cbn [prog set_prog app];
    try (left; split; [reflexivity | intros; discriminate]); try (right; left; split; reflexivity);
    try (right; right; left; eexists; eexists; split; reflexivity);
    try (right; right; right; left; split; reflexivity);
    try (right; right; right; right; left; split; reflexivity);
    try (right; right; right; right; right; left; split; reflexivity);
    try (right; right; right; right; right; right; left; split; reflexivity);
    try (right; right; right; right; right; right; right; left; eexists; split; reflexivity);
    try (right; right; right; right; right; right; right; right; eexists; split; reflexivity).
Qed.

Lemma exec_prog_rma rep t s ts r i s' ts' l :
  is_lock_op i = false ->
  exec rep t s (set_prog ts r) i = Some (s', ts') -> rma l (prog ts') = rma l (i :: r).
Proof.
  intros Hn He.
  destruct (exec_prog_cases _ _ _ _ _ _ _ _ He)
    as [[H Hs]|[[Hi H]|[[c [h [Hi H]]]|[[Hi H]|[[Hi H]|[[Hi H]|[[Hi H]|[[rt [Hi H]]|[rt [Hi H]]]]]]]]]];
    rewrite H, ?rma_app, ?rma_flush, ?rma_print_rest, ?rma_start, ?rma_stop, ?rma_tick, ?rma_refresh, ?rma_stopa;
    subst; cbn [rma lock_eqb]; try lia.
  destruct i; try discriminate Hn; cbn [rma]; try lia. exfalso. eapply Hs. reflexivity.
Qed.

Lemma exec_nonlock_getl rep t s ts i s' ts' l :
  is_lock_op i = false -> exec rep t s ts i = Some (s', ts') -> getl s' l = getl s l.
Proof.
  intros Hn He. destruct i; cbn [is_lock_op] in Hn; try discriminate Hn; cbn [exec] in He;
    try (inversion He; subst; destruct l; reflexivity).
  - destruct (is_nil (buf ts)); inversion He; subst; destruct l; reflexivity.
  - destruct (is_nil (buf ts)); inversion He; subst; destruct l; reflexivity.
  - destruct (is_nil (buf ts)); inversion He; subst; destruct l; reflexivity.
  - destruct (hooks s); inversion He; subst; destruct l; reflexivity.
  - destruct (existsb (Nat.eqb t0) (fin s)); inversion He; subst; destruct l; reflexivity.
  - destruct (done s); inversion He; subst; destruct l; reflexivity.
Qed.

(* lock accounting of one step of thread t *)
Lemma exec_locks rep t s ts r i s' ts' :
  exec rep t s (set_prog ts r) i = Some (s', ts') -> lock_pos s ->
  lock_pos s'
  /\ (forall l, held s' l t - rma l (prog ts') = held s l t - rma l (i :: r))
  /\ (forall l u, u <> t -> held s' l u = held s l u).
Proof.
  intros He Hp.
  destruct (is_lock_op i) eqn:El.
  - destruct i; try discriminate El; cbn [exec] in He.
    + destruct (acquire (getl s l) t) as [v|] eqn:Ea; inversion He; subst; clear He.
      destruct (acquire_cnt _ _ _ Ea (Hp l)) as [A [B C]].
      split; [|split].
      * intros l'. destruct (lock_eqb l l') eqn:E.
        -- apply lock_eqb_eq in E. subst. rewrite getl_setl_eq. auto.
        -- rewrite getl_setl_neq; auto. intro; subst. rewrite lock_eqb_refl in E. discriminate.
      * intros l'. unfold held. cbn [prog set_prog rma]. destruct (lock_eqb l' l) eqn:E.
        -- apply lock_eqb_eq in E. subst. rewrite getl_setl_eq. lia.
        -- rewrite getl_setl_neq; [lia|]. intro; subst. rewrite lock_eqb_refl in E. discriminate.
      * intros l' u Hu. unfold held. destruct (lock_eqb l l') eqn:E.
        -- apply lock_eqb_eq in E. subst. rewrite getl_setl_eq. auto.
        -- rewrite getl_setl_neq; auto. intro; subst. rewrite lock_eqb_refl in E. discriminate.
    + destruct (release (getl s l) t) as [v|] eqn:Ea; inversion He; subst; clear He.
      destruct (release_cnt _ _ _ Ea (Hp l)) as [A [B [C _]]].
      split; [|split].
      * intros l'. destruct (lock_eqb l l') eqn:E.
        -- apply lock_eqb_eq in E. subst. rewrite getl_setl_eq. auto.
        -- rewrite getl_setl_neq; auto. intro; subst. rewrite lock_eqb_refl in E. discriminate.
      * intros l'. unfold held. cbn [prog set_prog rma]. destruct (lock_eqb l' l) eqn:E.
        -- apply lock_eqb_eq in E. subst. rewrite getl_setl_eq. lia.
        -- rewrite getl_setl_neq; [lia|]. intro; subst. rewrite lock_eqb_refl in E. discriminate.
      * intros l' u Hu. unfold held. destruct (lock_eqb l l') eqn:E.
        -- apply lock_eqb_eq in E. subst. rewrite getl_setl_eq. auto.
        -- rewrite getl_setl_neq; auto. intro; subst. rewrite lock_eqb_refl in E. discriminate.
  - assert (G : forall l, getl s' l = getl s l) by (intro l; eapply exec_nonlock_getl; eauto).
    split; [|split].
    + intros l. rewrite G. apply Hp.
    + intros l. unfold held. rewrite G. rewrite (exec_prog_rma _ _ _ _ _ _ _ _ l El He). lia.
    + intros l u _. unfold held. rewrite G. reflexivity.
Qed.

(* ---- static shape of reachable programs *)
Definition suffix (s p : list instr) : Prop := exists pre, p = pre ++ s.

Definition head_ok (s : list instr) : Prop :=
  (forall l, 0 <= rma l s) /\ rma LRecord s <= 1 /\
  match s with
  | IAcq l' :: _ => forall l, 0 < rma l s -> l = l' \/ rank l < rank l'
  | ITest :: _ => 1 <= rma LConsole s /\ rma LRecord s = 0
  | IRecord :: _ | IWrite :: _ => 1 <= rma LConsole s
  | IRdHooks _ :: _ | IStart :: _ | IStop :: _ | ICheckDone :: _ => rma LConsole s = 0 /\ rma LRecord s = 0
  | IJoin _ :: _ | ILoop :: _ => forall l, rma l s = 0      (* joins / waits with no lock held *)
  | IStopA _ :: r => forall l, rma l r = 0
  | _ => True
  end.
Definition good (p : list instr) : Prop := forall s, suffix s p -> head_ok s.

Lemma good_tail i r : good (i :: r) -> good r.
Proof. intros G s [pre H]. apply G. exists (i :: pre). rewrite H. reflexivity. Qed.
Lemma good_head p : good p -> head_ok p.
Proof. intros G. apply G. exists []. reflexivity. Qed.

Fixpoint all_tails (P : list instr -> Prop) (e : list instr) : Prop :=
  match e with [] => True | _ :: e' => P e /\ all_tails P e' end.

Lemma all_tails_suffix P e : all_tails P e -> forall e', suffix e' e -> e' <> [] -> P e'.
Proof.
  induction e as [|x e IH]; intros H e' [pre Hp] Hn.
  - destruct pre; destruct e'; cbn in Hp; congruence.
  - destruct H as [H1 H2]. destruct pre as [|y pre]; cbn in Hp.
    + subst. exact H1.
    + inversion Hp; subst. apply IH; auto. exists pre. reflexivity.
Qed.

Lemma good_expand e r : good r -> all_tails (fun e' => head_ok (e' ++ r)) e -> good (e ++ r).
Proof.
  intros G A s [pre H].
  apply app_eq_app in H. destruct H as [l [[H1 H2]|[H1 H2]]].
  - subst. destruct l as [|x l].
    + cbn. apply good_head. exact G.
    + apply (all_tails_suffix _ _ A (x :: l)); [exists pre; reflexivity | discriminate].
  - apply G. exists l. exact H2.
Qed.

Ltac inst3 H := pose proof (H LLive); pose proof (H LConsole); pose proof (H LRecord).
Ltac hd1 :=
  match goal with
  | |- forall l : lockid, _ =>
      let l := fresh "l" in
      intro l; destruct l; cbn [rma lock_eqb rank]; intros; first [lia | left; reflexivity | right; lia]
  | |- True => exact I
  | |- _ => lia
  end.
Ltac hd :=
  unfold head_ok; cbn [app rma lock_eqb];
  repeat match goal with |- _ /\ _ => split end; hd1.

Lemma good_flush r : head_ok (ITest :: r) -> good r -> good (flush_seq ++ r).
Proof.
  intros [H0 [H1 [H2 H3]]] G. cbn [rma] in *. inst3 H0. cbn [rma] in *.
  apply good_expand; auto. cbn [flush_seq all_tails]. hd.
Qed.

Lemma good_print_rest rep h c r : head_ok (IRdHooks c :: r) -> good r -> good (print_rest rep h c ++ r).
Proof.
  intros [H0 [H1 [H2 H3]]] G. cbn [rma] in *. inst3 H0. cbn [rma] in *.
  apply good_expand; auto.
  destruct rep, h, c; cbn [print_rest check_seq app all_tails]; hd.
Qed.

Lemma good_start r : head_ok (IStart :: r) -> good r -> good (start_rest ++ r).
Proof.
  intros [H0 [H1 [H2 H3]]] G. cbn [rma] in *. inst3 H0. cbn [rma] in *.
  apply good_expand; auto. cbn [start_rest check_seq app all_tails]. hd.
Qed.

Lemma good_stop r : head_ok (IStop :: r) -> good r -> good (stop_rest ++ r).
Proof.
  intros [H0 [H1 [H2 H3]]] G. cbn [rma] in *. inst3 H0. cbn [rma] in *.
  apply good_expand; auto.
  cbn [stop_rest refresh_seq print_seq check_seq app all_tails]. hd.
Qed.

Lemma good_tick r : head_ok (ILoop :: r) -> good r -> good (tick_seq ++ r).
Proof.
  intros [H0 [H1 H2]] G. cbn [rma] in *. inst3 H0. inst3 H2. cbn [rma] in *.
  apply good_expand; auto. cbn [tick_seq app all_tails]. hd.
Qed.

Lemma good_checkdone r : head_ok (ICheckDone :: r) -> good r -> good (refresh_seq ++ r).
Proof.
  intros [H0 [H1 [H2 H3]]] G. cbn [rma] in *. inst3 H0. cbn [rma] in *.
  apply good_expand; auto. cbn [refresh_seq print_seq check_seq app all_tails]. hd.
Qed.

Lemma good_stopa rt r : head_ok (IStopA rt :: r) -> good r -> good (stopa_rest rt ++ r).
Proof.
  intros [H0 [H1 H2]] G. cbn [rma] in *. inst3 H2. cbn [rma] in *.
  apply good_expand; auto. cbn [stopa_rest refresh_seq print_seq check_seq app all_tails]. hd.
Qed.

Lemma good_stopa_rel rt r : head_ok (IStopA rt :: r) -> good r -> good (IRel LLive :: r).
Proof.
  intros [H0 [H1 H2]] G. cbn [rma] in *. inst3 H2. cbn [rma] in *.
  change (IRel LLive :: r) with ([IRel LLive] ++ r). apply good_expand; auto. cbn [app all_tails]. hd.
Qed.

Lemma rma_compile l ops : rma l (compile ops) = 0.
Proof.
  induction ops as [|o r IH]; cbn [compile flat_map]; [reflexivity|].
  change (flat_map compile_op r) with (compile r). rewrite rma_app, IH.
  destruct o; try (destruct l; reflexivity). destruct refresh; destruct l; reflexivity.
Qed.

Lemma good_compile ops : good (compile ops).
Proof.
  induction ops as [|o r IH]; cbn [compile flat_map].
  - intros s [pre H]. destruct pre; destruct s; cbn in H; try discriminate. hd.
  - change (flat_map compile_op r) with (compile r).
    pose proof (fun l => rma_compile l r) as Z0. inst3 Z0.
    apply good_expand; auto.
    destruct o; try destruct refresh;
      cbn [compile_op refresh_seq print_seq check_seq app all_tails]; hd.
Qed.

(* ---- the invariant *)
Record Inv (st : state) : Prop := {
  i_pos : lock_pos (sh st);
  i_cnt : forall t l, held (sh st) l t = rma l (prog (th st t));
  i_good : forall t, good (prog (th st t))
}.

Lemma init_inv live sh0 r0 progs : Inv (init_state live sh0 r0 progs).
Proof.
  split.
  - intros l u n H. destruct l; discriminate H.
  - intros t l. cbn. rewrite rma_compile. destruct l; reflexivity.
  - intros t. cbn. apply good_compile.
Qed.

Lemma step_inv rep st t st' : Inv st -> step rep st t = Some st' -> Inv st'.
Proof.
  intros [Ip Ic Ig] Hs. unfold step in Hs.
  destruct (prog (th st t)) as [|i r] eqn:Ep; [discriminate|].
  destruct (exec rep t (sh st) (set_prog (th st t) r) i) as [[s' ts']|] eqn:Ee; [|discriminate].
  inversion Hs; subst; clear Hs.
  destruct (exec_locks _ _ _ _ _ _ _ _ Ee Ip) as [P' [C1 C2]].
  split; cbn [sh th].
  - exact P'.
  - intros u l. unfold upd. destruct (Nat.eqb u t) eqn:E.
    + apply Nat.eqb_eq in E. subst u. specialize (C1 l). specialize (Ic t l). rewrite Ep in Ic. lia.
    + rewrite C2; [apply Ic|]. intro; subst. rewrite Nat.eqb_refl in E. discriminate.
  - intros u. unfold upd. destruct (Nat.eqb u t) eqn:E; [|apply Ig].
    specialize (Ig t). rewrite Ep in Ig. pose proof (good_tail _ _ Ig) as Gr. pose proof (good_head _ Ig) as Gh.
    destruct (exec_prog_cases _ _ _ _ _ _ _ _ Ee)
      as [[H _]|[[Hi H]|[[c [h [Hi H]]]|[[Hi H]|[[Hi H]|[[Hi H]|[[Hi H]|[[rt [Hi H]]|[rt [Hi H]]]]]]]]]]; rewrite H; subst.
    + exact Gr.
    + apply good_flush; auto.
    + apply good_print_rest; auto.
    + apply good_start; auto.
    + apply good_stop; auto.
    + apply good_tick; auto.
    + apply good_checkdone; auto.
    + apply good_stopa; auto.
    + apply (good_stopa_rel rt); auto.
Qed.

Lemma run_inv rep sched : forall st, Inv st -> Inv (run rep sched st).
Proof.
  induction sched as [|t r IH]; intros st I; cbn [run]; auto.
  destruct (step rep st t) eqn:E; auto. apply IH. eapply step_inv; eauto.
Qed.

(* a thread that holds a lock has not finished, and it is the owner recorded in the lock *)
Lemma held_owner s l t : lock_pos s -> 1 <= held s l t -> exists n, getl s l = Some (t, n).
Proof.
  unfold held, cnt. intros Hp H. destruct (getl s l) as [[u n]|]; [|lia].
  destruct (Nat.eqb u t) eqn:E; [|lia]. apply Nat.eqb_eq in E. subst. eauto.
Qed.
Lemma owner_held s l t n : lock_pos s -> getl s l = Some (t, n) -> 1 <= held s l t.
Proof.
  unfold held, cnt. intros Hp H. rewrite H, Nat.eqb_refl. specialize (Hp l t n H). lia.
Qed.

(* every file.write happens while the writing thread holds the console lock *)
Theorem write_under_console_lock st t r :
  Inv st -> prog (th st t) = IWrite :: r -> exists n, lkC (sh st) = Some (t, n).
Proof.
  intros [Ip Ic Ig] Hp. specialize (Ig t). rewrite Hp in Ig.
  destruct (good_head _ Ig) as [_ [_ H]]. specialize (Ic t LConsole). rewrite Hp in Ic.
  apply (held_owner (sh st) LConsole t Ip). lia.
Qed.

(* blocked = next instruction acquires a lock owned by another thread *)
Definition blocked (st : state) (t : tid) : Prop :=
  exists l r u n, prog (th st t) = IAcq l :: r /\ getl (sh st) l = Some (u, n) /\ u <> t.

Lemma owner_not_blocked st l u n :
  Inv st -> getl (sh st) l = Some (u, n) ->
  (forall l', rank l < rank l' -> getl (sh st) l' = None) ->
  prog (th st u) <> [] /\ ~ blocked st u.
Proof.
  intros [Ip Ic Ig] Ho Hfree.
  pose proof (owner_held _ _ _ _ Ip Ho) as Hh. rewrite Ic in Hh.
  split; [intro E; rewrite E in Hh; cbn in Hh; lia|].
  intros [l' [r [v [m [Hp [Hg Hv]]]]]].
  specialize (Ig u). rewrite Hp in Ig. destruct (good_head _ Ig) as [_ [_ H]].
  rewrite Hp in Hh. destruct (H l ltac:(lia)) as [E|E].
  - subst l'. rewrite Ho in Hg. inversion Hg. congruence.
  - rewrite (Hfree l' E) in Hg. discriminate.
Qed.

(* no deadlock: whenever some thread has not finished, some unfinished thread is not blocked *)
Theorem no_deadlock st t0 :
  Inv st -> prog (th st t0) <> [] -> exists t, prog (th st t) <> [] /\ ~ blocked st t.
Proof.
  intros I H0.
  destruct (getl (sh st) LRecord) as [[u n]|] eqn:ER.
  { exists u. apply (owner_not_blocked st LRecord u n I ER). intros l' Hl. destruct l'; cbn in Hl; lia. }
  destruct (getl (sh st) LConsole) as [[u n]|] eqn:EC.
  { exists u. apply (owner_not_blocked st LConsole u n I EC). intros l' Hl. destruct l'; cbn in Hl; try lia. exact ER. }
  destruct (getl (sh st) LLive) as [[u n]|] eqn:EL.
  { exists u. apply (owner_not_blocked st LLive u n I EL). intros l' Hl. destruct l'; cbn in Hl; try lia; auto. }
  exists t0. split; auto. intros [l [r [u [n [_ [Hg _]]]]]]. destruct l; congruence.
Qed.

(* an unblocked thread really steps, except for the IndexError of an unmatched pop_render_hook *)
Lemma not_blocked_steps rep st t i r :
  Inv st -> prog (th st t) = i :: r -> ~ blocked st t ->
  step rep st t <> None \/ (i = IPopHook /\ hooks (sh st) = 0%nat)
  \/ (exists t', i = IJoin t' /\ existsb (Nat.eqb t') (fin (sh st)) = false).
Proof.
  intros [Ip Ic Ig] Hp Hb. unfold step. rewrite Hp.
  destruct i; cbn [exec];
    try (left; discriminate);
    try (match goal with |- context [if ?c then _ else _] => destruct c end; left; discriminate).
  - (* IAcq *) unfold acquire. destruct (getl (sh st) l) as [[u n]|] eqn:E; [|left; discriminate].
    destruct (Nat.eqb u t) eqn:Eu; [left; discriminate|].
    exfalso. apply Hb. exists l, r, u, n. repeat split; auto. intro; subst. rewrite Nat.eqb_refl in Eu. discriminate.
  - (* IRel *) specialize (Ig t). rewrite Hp in Ig.
    pose proof (good_tail _ _ Ig) as Gr. destruct (good_head _ Gr) as [Hn _]. specialize (Hn l).
    specialize (Ic t l). rewrite Hp in Ic. cbn [rma] in Ic. rewrite lock_eqb_refl in Ic.
    destruct (held_owner (sh st) l t Ip ltac:(lia)) as [n Hn'].
    unfold release. rewrite Hn'. pose proof (Ip l t n Hn'). destruct n; [lia|]. rewrite Nat.eqb_refl. left; discriminate.
  - destruct (hooks (sh st)); [right; left; auto | left; discriminate].
  - destruct (existsb (Nat.eqb t0) (fin (sh st))) eqn:E; [left; discriminate | right; right; eauto].
Qed.

Theorem deadlock_free rep live sh0 r0 progs sched t0 :
  let st := run rep sched (init_state live sh0 r0 progs) in
  prog (th st t0) <> [] ->
  exists t i r, prog (th st t) = i :: r
                /\ (step rep st t <> None \/ (i = IPopHook /\ hooks (sh st) = 0%nat)
                    \/ (exists t', i = IJoin t' /\ existsb (Nat.eqb t') (fin (sh st)) = false)).
Proof.
  intros st H0. assert (I : Inv st) by (apply run_inv, init_inv).
  destruct (no_deadlock st t0 I H0) as [t [Hp Hb]].
  destruct (prog (th st t)) as [|i r] eqn:E; [congruence|].
  exists t, i, r. split; auto. eapply not_blocked_steps; eauto.
Qed.
