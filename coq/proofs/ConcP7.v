(* C11, part 7: the live display under interleaving, REPAIRED variant (the live lock is held from
   position_cursor() until the write), general theorem: for every schedule of any number of
   threads doing print / update(+refresh) / refresh / refresh-thread ticks on a started display,
   whenever the live lock is free the file is a CONSISTENT write sequence: every write erases
   exactly the rows of the frame written last, then prints, then draws a frame, and _shape is the
   height of that frame.  (ConcP8 turns a consistent write sequence into the screen statement.) *)
From RichModel Require Import Prelude Conc SpecConc.
From Coq Require Import ZifyBool.
Open Scope list_scope.

Definition erase_of (shp : option nat) : list item := match shp with Some h => [Erase h] | None => [] end.
Definition is_txt (it : item) : bool := match it with Txt _ _ => true | _ => false end.

(* file f is consistent and leaves a frame of the height recorded in shp on the screen *)
Inductive cons_file : list (tid * list item) -> option nat -> Prop :=
| cf_nil : cons_file [] None
| cf_snoc f shp t txts fid h :
    cons_file f shp -> forallb is_txt txts = true -> (1 <= h)%nat ->
    cons_file (f ++ [(t, erase_of shp ++ txts ++ [Frame fid h])]) (Some h).

Definition live_op (o : op) : bool :=
  match o with
  | Print _ | Refresh | Tick => true
  | Update _ h _ => (1 <=? h)%nat
  | _ => false
  end.

(* ---- what the owner of the live lock does until it releases it completely (n = its count).
   Some (writes, shape, renderable, buffer, pending, depth, rest of program); None when the
   program contains something a print/update/refresh section cannot contain. *)
Definition res7 := (list (list item) * option nat * (Z * nat) * list item * list item * Z * list instr)%type.
Definition addw (w : list item) (o : option res7) : option res7 :=
  match o with
  | Some (ws, shp, rnd, b, pe, d, p) => Some (w :: ws, shp, rnd, b, pe, d, p)
  | None => None
  end.
Definition txt_of (t : tid) (c : option Z) : list item := match c with Some id => [Txt t id] | None => [] end.

Fixpoint lsec (t : tid) (p : list instr) (n : nat) (shp : option nat) (rnd : Z * nat)
         (b pe : list item) (d : Z) {struct p} : option res7 :=
  match p with
  | [] => None
  | i :: r =>
      match i with
      | IAcq LLive => lsec t r (S n) shp rnd b pe d
      | IRel LLive => match n with
                      | O => None
                      | S O => Some ([], shp, rnd, b, pe, d, r)
                      | S n' => lsec t r n' shp rnd b pe d
                      end
      | IAcq _ | IRel _ | IRecord => lsec t r n shp rnd b pe d
      | IEnter => lsec t r n shp rnd b pe (d + 1)
      | IExitDec => lsec t r n shp rnd b pe (d - 1)
      | ITest => if d =? 0 then (if is_nil b then lsec t r n shp rnd b pe d else addw b (lsec t r n shp rnd [] pe d))
                 else lsec t r n shp rnd b pe d
      | IWrite => if is_nil b then lsec t r n shp rnd b pe d else addw b (lsec t r n shp rnd [] pe d)
      | IRdHooks c =>
          match n with
          | O => None
          | S _ =>
              let b' := b ++ pe ++ erase_of shp ++ txt_of t c ++ [Frame (fst rnd) (snd rnd)] in
              if d - 1 =? 0 then addw b' (lsec t r n (Some (snd rnd)) rnd [] [] (d - 1))
              else lsec t r n (Some (snd rnd)) rnd b' [] (d - 1)
          end
      | IRdShape => lsec t r n shp rnd b (pe ++ erase_of shp) d
      | IRenderTxt id => lsec t r n shp rnd b (pe ++ [Txt t id]) d
      | IRenderLive => lsec t r n (Some (snd rnd)) rnd b (pe ++ [Frame (fst rnd) (snd rnd)]) d
      | IExtend => lsec t r n shp rnd (b ++ pe) [] d
      | ISetRend fid h => if (1 <=? h)%nat then lsec t r n shp (fid, h) b pe d else None
      | _ => None
      end
  end.

Lemma addw_some w o x : addw w o = Some x -> exists ws shp rnd b pe d p,
  o = Some (ws, shp, rnd, b, pe, d, p) /\ x = (w :: ws, shp, rnd, b, pe, d, p).
Proof.
  destruct o as [[[[[[[ws shp] rnd] b] pe] d] p]|]; cbn; intros H; inversion H; subst.
  repeat eexists.
Qed.

(* expansion of the print macro inside the section (repaired, hooked) *)
Lemma lsec_print_rest t c r n shp rnd b pe d :
  lsec t (print_rest true true c ++ r) (S n) shp rnd b pe d = lsec t (IRdHooks c :: r) (S n) shp rnd b pe d.
Proof.
  destruct c; cbn [print_rest check_seq app lsec txt_of]; rewrite <- ?app_assoc; cbn [app];
    destruct (d - 1 =? 0) eqn:E; cbn [is_nil]; rewrite ?app_nil_r.
  all: try reflexivity.
  all: match goal with |- context [is_nil ?x] => destruct x eqn:Ex end; cbn [is_nil]; try reflexivity.
  all: try (apply (f_equal (@length item)) in Ex; rewrite !app_length in Ex; cbn in Ex; lia).
Qed.

(* ---- the invariant *)
Definition tagw (t : tid) (ws : list (list item)) : list (tid * list item) := map (pair t) ws.
Definition live_ops (ops : list op) : Prop := forallb live_op ops = true.

(* a thread that does not own the live lock is at one of three places *)
Definition NH (ts : tstate) : Prop :=
  buf ts = [] /\ pend ts = [] /\ exists ops, live_ops ops /\
    ((prog ts = compile ops /\ depth ts = 0)
     \/ (exists id, prog ts = IRdHooks (Some id) :: compile ops /\ depth ts = 1)
     \/ (exists id, prog ts = print_rest true true (Some id) ++ compile ops /\ depth ts = 1)).

(* the owner: after its section the file is consistent again and it is between two operations *)
Definition Hold (t : tid) (n : nat) (s : shared) (ts : tstate) : Prop :=
  exists ws shp rnd ops,
    lsec t (prog ts) n (shape s) (rend s) (buf ts) (pend ts) (depth ts) = Some (ws, shp, rnd, [], [], 0, compile ops)
    /\ live_ops ops /\ cons_file (file s ++ tagw t ws) shp /\ (1 <= snd rnd)%nat.

Record LInv (st : state) : Prop := {
  l_hooks : hooks (sh st) = 1%nat;
  l_main : match lkL (sh st) with
           | None => cons_file (file (sh st)) (shape (sh st)) /\ (1 <= snd (rend (sh st)))%nat
                     /\ forall u, NH (th st u)
           | Some (t, n) => Hold t n (sh st) (th st t) /\ forall u, u <> t -> NH (th st u)
           end
}.

Lemma is_nil_mid {A} (a : list A) x l : is_nil (a ++ x :: l) = false.
Proof. destruct a; reflexivity. Qed.

(* entering a section from the three places *)
Lemma enter_section t o ops shp rnd f :
  live_op o = true -> live_ops ops -> cons_file f shp -> (1 <= snd rnd)%nat ->
  forall r, compile_op o = IAcq LLive :: r ->
  exists ws shp' rnd',
    lsec t (r ++ compile ops) 1 shp rnd [] [] 0 = Some (ws, shp', rnd', [], [], 0, compile ops)
    /\ cons_file (f ++ tagw t ws) shp' /\ (1 <= snd rnd')%nat.
Proof.
  intros Ho Hops Hc Hr r Hcomp. destruct o; cbn [live_op] in Ho; try discriminate Ho; cbn [compile_op] in Hcomp.
  - discriminate Hcomp.
  - (* Update *) destruct refresh; cbn [refresh_seq print_seq check_seq app] in Hcomp; inversion Hcomp; subst; clear Hcomp;
      cbn [app lsec]; rewrite Ho; cbn [lsec fst snd txt_of app is_nil addw Z.eqb Z.add Z.sub Z.opp Pos.add Pos.succ Z.pos_sub Pos.pred_double];
      rewrite ?is_nil_mid; cbn [addw].
    + do 3 eexists. split; [reflexivity|]. split; [|cbn; apply Nat.leb_le; exact Ho].
      cbn [tagw map]. apply (cf_snoc f shp t [] fid h); auto. apply Nat.leb_le; exact Ho.
    + do 3 eexists. split; [reflexivity|]. split; [|cbn; apply Nat.leb_le; exact Ho].
      cbn [tagw map]. rewrite app_nil_r. exact Hc.
  - (* Refresh *) cbn [refresh_seq print_seq check_seq app] in Hcomp; inversion Hcomp; subst; clear Hcomp.
    cbn [app lsec fst snd txt_of is_nil addw Z.eqb Z.add Z.sub Z.opp Pos.add Pos.succ Z.pos_sub Pos.pred_double].
    rewrite ?is_nil_mid; cbn [addw].
    do 3 eexists. split; [reflexivity|]. split; [|exact Hr].
    cbn [tagw map]. destruct rnd as [fid h]. apply (cf_snoc f shp t [] fid h); auto.
  - (* Tick *) cbn [refresh_seq print_seq check_seq app] in Hcomp; inversion Hcomp; subst; clear Hcomp.
    cbn [app lsec fst snd txt_of is_nil addw Z.eqb Z.add Z.sub Z.opp Pos.add Pos.succ Z.pos_sub Pos.pred_double].
    rewrite ?is_nil_mid; cbn [addw].
    do 3 eexists. split; [reflexivity|]. split; [|exact Hr].
    cbn [tagw map]. destruct rnd as [fid h]. apply (cf_snoc f shp t [] fid h); auto.
Qed.

Lemma enter_print t id ops shp rnd f :
  live_ops ops -> cons_file f shp -> (1 <= snd rnd)%nat ->
  forall r, print_rest true true (Some id) = IAcq LLive :: r ->
  exists ws shp' rnd',
    lsec t (r ++ compile ops) 1 shp rnd [] [] 1 = Some (ws, shp', rnd', [], [], 0, compile ops)
    /\ cons_file (f ++ tagw t ws) shp' /\ (1 <= snd rnd')%nat.
Proof.
  intros Hops Hc Hr r Hp. cbn [print_rest check_seq app] in Hp. inversion Hp; subst; clear Hp.
  cbn [app lsec fst snd is_nil addw Z.eqb Z.sub Z.add Z.opp Pos.add Z.pos_sub].
  rewrite ?is_nil_mid; cbn [addw]. do 3 eexists. split; [reflexivity|]. split; [|exact Hr].
  cbn [tagw map]. destruct rnd as [fid h]. cbn [fst snd] in *. rewrite <- app_assoc.
  apply (cf_snoc f shp t [Txt t id] fid h); auto.
Qed.

(* one step of the owner of the live lock *)
Lemma hold_step t n s ts r i s' ts' ws shp rnd P :
  exec true t s (set_prog ts r) i = Some (s', ts') -> hooks s = 1%nat -> lkL s = Some (t, n) ->
  lsec t (i :: r) n (shape s) (rend s) (buf ts) (pend ts) (depth ts) = Some (ws, shp, rnd, [], [], 0, P) ->
  hooks s' = 1%nat /\
  ((lkL s' = None /\ ws = [] /\ shp = shape s' /\ rnd = rend s' /\ buf ts' = [] /\ pend ts' = []
    /\ depth ts' = 0 /\ prog ts' = P /\ file s' = file s)
   \/ (exists n' ws', lkL s' = Some (t, n')
        /\ lsec t (prog ts') n' (shape s') (rend s') (buf ts') (pend ts') (depth ts') = Some (ws', shp, rnd, [], [], 0, P)
        /\ file s' ++ tagw t ws' = file s ++ tagw t ws)).
Proof.
  intros He Hh HL Hl.
  destruct i; cbn [lsec] in Hl; try discriminate Hl; cbn [exec] in He.
  - (* IAcq *) destruct (acquire (getl s l) t) as [v|] eqn:Ea; inversion He; subst; clear He.
    destruct l; cbn [getl setl hooks lkL shape rend file] in *; (split; [exact Hh|]); right.
    + unfold acquire in Ea. rewrite HL, Nat.eqb_refl in Ea. inversion Ea; subst.
      exists (S n), ws. cbn [prog set_prog buf pend depth]. auto.
    + exists n, ws. cbn [prog set_prog buf pend depth]. auto.
    + exists n, ws. cbn [prog set_prog buf pend depth]. auto.
  - (* IRel *) destruct (release (getl s l) t) as [v|] eqn:Ea; inversion He; subst; clear He.
    destruct l; cbn [getl setl hooks lkL shape rend file] in *; (split; [exact Hh|]).
    + unfold release in Ea. rewrite HL in Ea. destruct n as [|m]; [discriminate|].
      rewrite Nat.eqb_refl in Ea. inversion Ea; subst; clear Ea. destruct m as [|k].
      * left. inversion Hl; subst. cbn [prog set_prog buf pend depth]. repeat split; auto.
      * right. exists (S k), ws. cbn [prog set_prog buf pend depth]. auto.
    + right. exists n, ws. cbn [prog set_prog buf pend depth]. auto.
    + right. exists n, ws. cbn [prog set_prog buf pend depth]. auto.
  - (* IEnter *) inversion He; subst; clear He. split; auto. right. exists n, ws. cbn [prog set_prog set_depth buf pend depth]. auto.
  - (* IExitDec *) inversion He; subst; clear He. split; auto. right. exists n, ws. cbn [prog set_prog set_depth buf pend depth]. auto.
  - (* ITest *) inversion He; subst; clear He. split; auto. right. exists n, ws.
    cbn [depth set_prog]. destruct (depth ts =? 0) eqn:Ed; cbn [prog set_prog buf pend depth flush_seq app lsec]; auto.
  - (* IRecord *) split; [destruct (is_nil (buf (set_prog ts r))); inversion He; subst; auto|].
    right. exists n, ws. destruct (is_nil (buf (set_prog ts r))); inversion He; subst; clear He;
      cbn [prog set_prog buf pend depth lkL shape rend file set_record]; auto.
  - (* IWrite *) cbn [buf set_prog] in He. destruct (is_nil (buf ts)) eqn:Eb; inversion He; subst; clear He.
    + split; auto. right. exists n, ws. cbn [prog set_prog buf pend depth]. auto.
    + split; auto. right. destruct (addw_some _ _ _ Hl) as [ws0 [a [b0 [c0 [d0 [e0 [p0 [H1 H2]]]]]]]].
      inversion H2; subst. exists n, ws0.
      cbn [prog set_prog set_olog set_buf buf pend depth lkL shape rend file set_file]. repeat split; auto.
      cbn [tagw map]. rewrite <- app_assoc. reflexivity.
  - (* IRdHooks *) inversion He; subst; clear He. split; auto. right. destruct n as [|m]; [discriminate|].
    exists (S m), ws. rewrite Hh. cbn [Nat.ltb Nat.leb prog set_prog buf pend depth].
    rewrite lsec_print_rest. cbn [lsec]. auto.
  - (* IRdShape *) inversion He; subst; clear He. split; auto. right. exists n, ws.
    cbn [prog set_prog set_pend buf pend depth]. unfold erase_of in Hl. auto.
  - (* IRenderTxt *) inversion He; subst; clear He. split; auto. right. exists n, ws. cbn [prog set_prog set_pend buf pend depth]. auto.
  - (* IRenderLive *) inversion He; subst; clear He. split; auto. right. exists n, ws.
    cbn [prog set_prog set_pend buf pend depth lkL shape rend file set_shape hooks]. auto.
  - (* IExtend *) inversion He; subst; clear He. split; auto. right. exists n, ws. cbn [prog set_prog set_pend set_buf buf pend depth]. auto.
  - (* ISetRend *) inversion He; subst; clear He. split; auto. right. exists n, ws.
    destruct (1 <=? h)%nat; [|discriminate]. cbn [prog set_prog buf pend depth lkL shape rend file set_rend hooks]. auto.
Qed.

Lemma compile_cons o ops : compile (o :: ops) = compile_op o ++ compile ops.
Proof. reflexivity. Qed.

Lemma live_ops_cons o ops : live_ops (o :: ops) -> live_op o = true /\ live_ops ops.
Proof. unfold live_ops. cbn. intros H. apply andb_prop in H. exact H. Qed.

(* the first instruction of a live operation: IEnter for a print, IAcq Live otherwise *)
Lemma live_op_head o : live_op o = true ->
  (exists id, o = Print id) \/ (exists r, compile_op o = IAcq LLive :: r).
Proof.
  destruct o; cbn [live_op]; try discriminate; intros _.
  - left. eauto.
  - right. destruct refresh; eexists; reflexivity.
  - right. eexists; reflexivity.
  - right. eexists; reflexivity.
Qed.

Lemma upd_same f t v : upd f t v t = v.
Proof. unfold upd. rewrite Nat.eqb_refl. reflexivity. Qed.
Lemma upd_other f t v u : u <> t -> upd f t v u = f u.
Proof. unfold upd. intros H. destruct (Nat.eqb u t) eqn:E; auto. apply Nat.eqb_eq in E. congruence. Qed.

Lemma step_linv st u st' : LInv st -> step true st u = Some st' -> LInv st'.
Proof.
  intros [Hh Hm] Hs. unfold step in Hs.
  destruct (prog (th st u)) as [|i r] eqn:Ep; [discriminate|].
  destruct (exec true u (sh st) (set_prog (th st u) r) i) as [[s' ts']|] eqn:Ee; [|discriminate].
  inversion Hs; subst; clear Hs.
  destruct (lkL (sh st)) as [[t n]|] eqn:EL.
  - destruct Hm as [Hold_t Hnh].
    destruct (Nat.eq_dec u t) as [->|Hut].
    + (* the owner steps *)
      destruct Hold_t as [ws [shp [rnd [ops [Hl [Hops [Hc Hr]]]]]]]. rewrite Ep in Hl.
      destruct (hold_step _ _ _ _ _ _ _ _ _ _ _ _ Ee Hh EL Hl) as [Hh' [Rel|[n' [ws' [HL' [Hl' Hf]]]]]].
      * destruct Rel as [HL' [-> [-> [-> [Hb [Hp [Hd [Hpr Hf]]]]]]]].
        split; cbn [sh th]; auto. rewrite HL'. cbn [tagw map] in Hc. rewrite app_nil_r, <- Hf in Hc.
        split; [exact Hc|]. split; [exact Hr|]. intros v. destruct (Nat.eq_dec v t) as [->|Hv].
        -- rewrite upd_same. split; auto. split; auto. exists ops. split; auto.
        -- rewrite upd_other; auto.
      * split; cbn [sh th]; auto. rewrite HL'. split.
        -- rewrite upd_same. exists ws', shp, rnd, ops. rewrite Hf. auto.
        -- intros v Hv. rewrite upd_other; auto.
    + (* another thread steps *)
      destruct (Hnh u Hut) as [Hb [Hp [ops [Hops Forms]]]].
      destruct Forms as [[Hprog Hd]|[[id [Hprog Hd]]|[id [Hprog Hd]]]]; rewrite Ep in Hprog.
      * destruct ops as [|o ops']; [discriminate Hprog|]. rewrite compile_cons in Hprog.
        destruct (live_ops_cons _ _ Hops) as [Ho Hops'].
        destruct (live_op_head o Ho) as [[id ->]|[r0 Hc0]].
        -- cbn [compile_op print_seq app] in Hprog. inversion Hprog; subst. cbn [exec] in Ee. inversion Ee; subst; clear Ee.
           split; cbn [sh th]; auto. rewrite EL. split.
           ++ rewrite upd_other; auto.
           ++ intros v Hv. destruct (Nat.eq_dec v u) as [->|Hvu]; [|rewrite upd_other; auto].
              rewrite upd_same. split; [exact Hb|]. split; [exact Hp|]. exists ops'. split; auto.
              right; left. exists id. cbn [prog set_prog set_depth depth]. rewrite Hd. auto.
        -- rewrite Hc0 in Hprog. cbn [app] in Hprog. inversion Hprog; subst. cbn [exec getl] in Ee.
           rewrite EL in Ee. unfold acquire in Ee. destruct (Nat.eqb t u) eqn:E; [apply Nat.eqb_eq in E; congruence|discriminate].
      * inversion Hprog; subst. cbn [exec] in Ee. inversion Ee; subst; clear Ee.
        split; cbn [sh th]; auto. rewrite EL. split.
        -- rewrite upd_other; auto.
        -- intros v Hv. destruct (Nat.eq_dec v u) as [->|Hvu]; [|rewrite upd_other; auto].
           rewrite upd_same. split; [exact Hb|]. split; [exact Hp|]. exists ops. split; auto.
           right; right. exists id. rewrite Hh. cbn [Nat.ltb Nat.leb prog set_prog depth]. auto.
      * cbn [print_rest check_seq app] in Hprog. inversion Hprog; subst. cbn [exec getl] in Ee.
        rewrite EL in Ee. unfold acquire in Ee. destruct (Nat.eqb t u) eqn:E; [apply Nat.eqb_eq in E; congruence|discriminate].
  - (* the live lock is free *)
    destruct Hm as [Hc [Hr Hnh]].
    destruct (Hnh u) as [Hb [Hp [ops [Hops Forms]]]].
    destruct Forms as [[Hprog Hd]|[[id [Hprog Hd]]|[id [Hprog Hd]]]]; rewrite Ep in Hprog.
    + destruct ops as [|o ops']; [discriminate Hprog|]. rewrite compile_cons in Hprog.
      destruct (live_ops_cons _ _ Hops) as [Ho Hops'].
      destruct (live_op_head o Ho) as [[id ->]|[r0 Hc0]].
      * cbn [compile_op print_seq app] in Hprog. inversion Hprog; subst. cbn [exec] in Ee. inversion Ee; subst; clear Ee.
        split; cbn [sh th]; auto. rewrite EL. split; auto. split; auto.
        intros v. destruct (Nat.eq_dec v u) as [->|Hvu]; [|rewrite upd_other; auto].
        rewrite upd_same. split; [exact Hb|]. split; [exact Hp|]. exists ops'. split; auto.
        right; left. exists id. cbn [prog set_prog set_depth depth]. rewrite Hd. auto.
      * rewrite Hc0 in Hprog. cbn [app] in Hprog. inversion Hprog; subst. cbn [exec getl] in Ee.
        rewrite EL in Ee. cbn [acquire] in Ee. inversion Ee; subst; clear Ee.
        destruct (enter_section u o ops' (shape (sh st)) (rend (sh st)) (file (sh st)) Ho Hops' Hc Hr r0 Hc0)
          as [ws [shp' [rnd' [Hl [Hcf Hr']]]]].
        split; cbn [sh th setl hooks lkL]; auto. split.
        -- rewrite upd_same. exists ws, shp', rnd', ops'.
           cbn [prog set_prog buf pend depth shape rend file setl]. rewrite Hb, Hp, Hd. auto.
        -- intros v Hv. rewrite upd_other; auto.
    + inversion Hprog; subst. cbn [exec] in Ee. inversion Ee; subst; clear Ee.
      split; cbn [sh th]; auto. rewrite EL. split; auto. split; auto.
      intros v. destruct (Nat.eq_dec v u) as [->|Hvu]; [|rewrite upd_other; auto].
      rewrite upd_same. split; [exact Hb|]. split; [exact Hp|]. exists ops. split; auto.
      right; right. exists id. rewrite Hh. cbn [Nat.ltb Nat.leb prog set_prog depth]. auto.
    + pose proof Hprog as Hprog0. cbn [print_rest check_seq app] in Hprog. inversion Hprog; subst. cbn [exec getl] in Ee.
      rewrite EL in Ee. cbn [acquire] in Ee. inversion Ee; subst; clear Ee.
      destruct (enter_print u id ops (shape (sh st)) (rend (sh st)) (file (sh st)) Hops Hc Hr _ eq_refl)
        as [ws [shp' [rnd' [Hl [Hcf Hr']]]]].
      split; cbn [sh th setl hooks lkL]; auto. split.
      * rewrite upd_same. exists ws, shp', rnd', ops.
        cbn [prog set_prog buf pend depth shape rend file setl]. rewrite Hb, Hp, Hd. auto.
      * intros v Hv. rewrite upd_other; auto.
Qed.

Lemma init_linv r0 progs :
  (1 <= snd r0)%nat -> (forall t, live_ops (progs t)) -> LInv (init_state true None r0 progs).
Proof.
  intros Hr Hp. split; cbn; auto. split; [constructor|]. split; auto.
  intros u. split; auto. split; auto. exists (progs u). split; auto.
Qed.

Lemma run_linv sched : forall st, LInv st -> LInv (run true sched st).
Proof.
  induction sched as [|t r IH]; intros st I; cbn [run]; auto.
  destruct (step true st t) eqn:E; auto. apply IH. eapply step_linv; eauto.
Qed.

(* MAIN (interleaving part): under every schedule, whenever the live lock is free, the file is a
   consistent write sequence whose last frame has the height stored in _shape *)
Theorem repaired_file_consistent r0 progs sched :
  (1 <= snd r0)%nat -> (forall t, live_ops (progs t)) ->
  let st := run true sched (init_state true None r0 progs) in
  lkL (sh st) = None -> cons_file (file (sh st)) (shape (sh st)).
Proof.
  intros Hr Hp st HL. destruct (run_linv sched _ (init_linv r0 progs Hr Hp)) as [_ Hm].
  fold st in Hm. rewrite HL in Hm. apply Hm.
Qed.
