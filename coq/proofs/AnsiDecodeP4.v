(* C19 round trip, part 3: the tokenizer on the encoder's output, one run, a line of runs. *)
From RichModel Require Import Prelude Color Style AnsiDecode FileProxy SpecDecode.
From RichGen Require Import AnsiRegex SgrMap StyleTables.
From RichProofs Require Import AnsiDecodeP FileProxyP AnsiDecodeP2 AnsiDecodeP3.

(* ------------------------------------------------------------------ scanners *)
Definition lacks (c : Z) (s : str) : Prop := forallb (fun x => negb (x =? c)) s = true.

Lemma lacks_cons c x s : lacks c (x :: s) -> (x =? c) = false /\ lacks c s.
Proof. unfold lacks. cbn [forallb]. intros H. apply andb_true_iff in H. destruct H as [H1 H2]. apply negb_true_iff in H1. auto. Qed.

Lemma find_m_spec : forall g rest, lacks 109 g -> lacks 10 g -> find_m (g ++ 109 :: rest) = Some (g, rest).
Proof.
  induction g as [|c g IH]; intros rest H1 H2; cbn [app find_m]; [reflexivity|].
  apply lacks_cons in H1. apply lacks_cons in H2. destruct H1 as [A1 B1]. destruct H2 as [A2 B2].
  rewrite A1, A2, (IH rest B1 B2). reflexivity.
Qed.
Lemma find_st_spec : forall g rest, lacks 27 g -> lacks 10 g -> find_st (g ++ 27 :: 92 :: rest) = Some (g, rest).
Proof.
  induction g as [|c g IH]; intros rest H1 H2; cbn [app find_st]; [reflexivity|].
  apply lacks_cons in H1. apply lacks_cons in H2. destruct H1 as [A1 B1]. destruct H2 as [A2 B2].
  rewrite A1, A2, (IH rest B1 B2). reflexivity.
Qed.
Lemma find_m_len : forall s g rest, find_m s = Some (g, rest) -> (length rest < length s)%nat.
Proof.
  induction s as [|c s IH]; cbn [find_m]; intros g rest H; [discriminate|].
  destruct (c =? 109); [inversion H; subst; cbn; lia|]. destruct (c =? 10); [discriminate|].
  destruct (find_m s) as [[g' r']|] eqn:E; [|discriminate]. inversion H; subst. specialize (IH _ _ eq_refl). cbn. lia.
Qed.
Lemma find_st_len : forall s g rest, find_st s = Some (g, rest) -> (length rest < length s)%nat.
Proof.
  induction s as [|c s IH]; cbn [find_st]; intros g rest H; [discriminate|].
  destruct (if c =? 27 then match s with d :: r' => if d =? 92 then Some r' else None | [] => None end else None) as [r0|] eqn:E0.
  - inversion H; subst. destruct (c =? 27); [|discriminate]. destruct s as [|d r']; [discriminate|].
    destruct (d =? 92); [|discriminate]. inversion E0; subst. cbn. lia.
  - destruct (c =? 10); [discriminate|]. destruct (find_st s) as [[g' r']|] eqn:E; [|discriminate].
    inversion H; subst. specialize (IH _ _ eq_refl). cbn. lia.
Qed.

Lemma tokenize_go_fuel : forall n m s acc, (length s < n)%nat -> (length s < m)%nat ->
  tokenize_go n s acc = tokenize_go m s acc.
Proof.
  induction n as [|n IH]; intros m s acc Hn Hm; [lia|]. destruct m as [|m]; [lia|].
  cbn [tokenize_go]. destruct s as [|c r]; [reflexivity|]. cbn [length] in *.
  assert (R : tokenize_go n r (c :: acc) = tokenize_go m r (c :: acc)) by (apply IH; lia).
  destruct (c =? 27); [|exact R]. destruct r as [|d r2]; [exact R|]. cbn [length] in *.
  destruct (d =? 91).
  - destruct (find_m r2) as [[g rest]|] eqn:E; [|exact R]. apply find_m_len in E. f_equal. f_equal. apply IH; lia.
  - destruct (d =? 93); [|exact R].
    destruct (find_st r2) as [[g rest]|] eqn:E; [|exact R]. apply find_st_len in E. f_equal. f_equal. apply IH; lia.
Qed.

Definition tok (s acc : str) : list token := tokenize_go (S (length s)) s acc.

Lemma tok_nil acc : tok [] acc = plain_tok acc. Proof. reflexivity. Qed.
Lemma tok_plain1 c r acc : (c =? 27) = false -> tok (c :: r) acc = tok r (c :: acc).
Proof. intros H. unfold tok. change (length (c :: r)) with (S (length r)). cbn [tokenize_go]. rewrite H. reflexivity. Qed.
Lemma tok_plain : forall p s acc, lacks 27 p -> tok (p ++ s) acc = tok s (rev p ++ acc).
Proof.
  induction p as [|c p IH]; intros s acc H; [reflexivity|]. apply lacks_cons in H. destruct H as [H1 H2].
  cbn [app]. rewrite tok_plain1 by exact H1. rewrite IH by exact H2. cbn [rev]. rewrite <- app_assoc. reflexivity.
Qed.
Lemma tokenize_go_sgr n g rest acc : lacks 109 g -> lacks 10 g ->
  tokenize_go (S n) (27 :: 91 :: g ++ 109 :: rest) acc = plain_tok acc ++ TSgr g :: tokenize_go n rest [].
Proof.
  intros H1 H2. cbn [tokenize_go]. change (27 =? 27) with true. change (91 =? 91) with true. cbv iota.
  rewrite find_m_spec by assumption. reflexivity.
Qed.
Lemma tok_sgr g rest acc : lacks 109 g -> lacks 10 g ->
  tok (27 :: 91 :: g ++ 109 :: rest) acc = plain_tok acc ++ TSgr g :: tok rest [].
Proof.
  intros H1 H2. unfold tok. rewrite tokenize_go_sgr by assumption. f_equal. f_equal.
  apply tokenize_go_fuel; [|lia]. cbn [length]. rewrite app_length. cbn [length]. lia.
Qed.
Lemma tokenize_go_osc n g rest acc : lacks 27 g -> lacks 10 g ->
  tokenize_go (S n) (27 :: 93 :: g ++ 27 :: 92 :: rest) acc = plain_tok acc ++ TOsc g :: tokenize_go n rest [].
Proof.
  intros H1 H2. cbn [tokenize_go]. change (27 =? 27) with true. change (93 =? 91) with false.
  change (93 =? 93) with true. cbv iota. rewrite find_st_spec by assumption. reflexivity.
Qed.
Lemma tok_osc g rest acc : lacks 27 g -> lacks 10 g ->
  tok (27 :: 93 :: g ++ 27 :: 92 :: rest) acc = plain_tok acc ++ TOsc g :: tok rest [].
Proof.
  intros H1 H2. unfold tok. rewrite tokenize_go_osc by assumption. f_equal. f_equal.
  apply tokenize_go_fuel; [|lia]. cbn [length]. rewrite app_length. cbn [length]. lia.
Qed.

(* ------------------------------------------------------------------ decoding at the level of visible characters *)
Definition vres (r : style * res (list piece)) : style * res (list vchar) :=
  (fst r, match snd r with Ok ps => Ok (vchars ps) | Doc e => Doc e | Crash k => Crash k end).
Definition vd (toks : list token) (st : style) : style * res (list vchar) := vres (decode_tokens true toks st).
Definition pre (X : list vchar) (r : style * res (list vchar)) : style * res (list vchar) :=
  (fst r, match snd r with Ok v => Ok (X ++ v) | Doc e => Doc e | Crash k => Crash k end).

Definition cur_vis (st : style) : vis := vis_opt (if style_bool st then Some st else None).
Definition flush_chars (st : style) (acc : str) : list vchar := map (fun c => (c, cur_vis st)) (rev acc).

(* text the property speaks of: no ESC, none of the characters Text.append strips *)
Definition okc (c : Z) : bool := negb (c =? 27) && negb (mem_Z c DEC_STRIP_CODES).
Definition ok_text (p : str) : Prop := forallb okc p = true.

Lemma ok_text_lacks p : ok_text p -> lacks 27 p.
Proof.
  unfold ok_text, lacks. induction p as [|c p IH]; [reflexivity|]. cbn [forallb]. intros H.
  apply andb_true_iff in H. destruct H as [H1 H2]. unfold okc in H1. apply andb_true_iff in H1. destruct H1 as [H1 _].
  rewrite H1, (IH H2). reflexivity.
Qed.
Lemma ok_text_app a b : ok_text a -> ok_text b -> ok_text (a ++ b).
Proof. unfold ok_text. intros. rewrite forallb_app. apply andb_true_iff. auto. Qed.
Lemma ok_text_rev a : ok_text a -> ok_text (rev a).
Proof.
  unfold ok_text. intros H. rewrite forallb_forall in *. intros x Hx. apply H. apply in_rev. exact Hx.
Qed.

Lemma remove_csi_go_plain : forall n p, lacks 27 p -> remove_csi_go n p = p.
Proof.
  induction n as [|n IH]; intros p H; [reflexivity|]. destruct p as [|c p]; [reflexivity|].
  apply lacks_cons in H. destruct H as [H1 H2]. cbn [remove_csi_go]. rewrite H1, (IH p H2). reflexivity.
Qed.
Lemma strip_codes_ok p : ok_text p -> strip_codes p = p.
Proof.
  unfold ok_text, strip_codes. induction p as [|c p IH]; [reflexivity|]. cbn [forallb filter]. intros H.
  apply andb_true_iff in H. destruct H as [H1 H2]. unfold okc in H1. apply andb_true_iff in H1. destruct H1 as [_ H1].
  rewrite H1, (IH H2). reflexivity.
Qed.

Lemma vchars_cons p o ps : vchars ((p, o) :: ps) = map (fun c => (c, vis_opt o)) p ++ vchars ps.
Proof. reflexivity. Qed.

Lemma vd_plain_tok acc toks st : ok_text acc ->
  vd (plain_tok acc ++ toks) st = pre (flush_chars st acc) (vd toks st).
Proof.
  intros H. unfold vd, plain_tok. destruct acc as [|x acc].
  - cbn [app]. unfold pre, flush_chars. cbn [rev map app]. destruct (vres (decode_tokens true toks st)) as [s [v| |]]; reflexivity.
  - cbn [app decode_tokens]. unfold remove_csi. rewrite remove_csi_go_plain by (apply ok_text_lacks, ok_text_rev; exact H).
    assert (NE : rev (x :: acc) <> []) by (cbn [rev]; intros E; apply app_eq_nil in E; destruct E; discriminate).
    cbn [step]. destruct (rev (x :: acc)) as [|y p] eqn:ER; [contradiction|]. rewrite <- ER.
    rewrite strip_codes_ok by (apply ok_text_rev; exact H).
    destruct (decode_tokens true toks st) as [s2 [ps| |]]; unfold vres, pre; cbn [fst snd opt_cons]; reflexivity.
Qed.

Lemma vd_sgr g toks st codes st' : g <> [] -> sgr_codes true (split_on 59 g) = Ok codes -> apply_codes codes st = Ok st' ->
  vd (TSgr g :: toks) st = vd toks st'.
Proof.
  intros Hg Hc Ha. unfold vd. cbn [decode_tokens step]. destruct g as [|c g]; [contradiction|].
  rewrite Hc. cbn [bind]. rewrite Ha. cbn [bind].
  destruct (decode_tokens true toks st') as [s2 [ps| |]]; reflexivity.
Qed.
Lemma vd_osc g toks st : g <> [] -> vd (TOsc g :: toks) st = vd toks (apply_osc g st).
Proof.
  intros Hg. unfold vd. cbn [decode_tokens step]. destruct g as [|c g]; [contradiction|].
  destruct (decode_tokens true toks (apply_osc (c :: g) st)) as [s2 [ps| |]]; reflexivity.
Qed.

Lemma pre_pre X Y r : pre X (pre Y r) = pre (X ++ Y) r.
Proof. unfold pre. destruct r as [s [v| |]]; cbn [fst snd]; try reflexivity. rewrite app_assoc. reflexivity. Qed.
Lemma pre_nil r : pre [] r = r.
Proof. unfold pre. destruct r as [s [v| |]]; reflexivity. Qed.

(* ------------------------------------------------------------------ clean decoder states *)
Definition clean (st : style) (lk : option str) : Prop := null_ok st /\ view_of st = mkView None None 0 0 lk.

Lemma cur_vis_view st : cur_vis st = mkVis (Z.land (Z.land (w_att (view_of st)) (w_set (view_of st))) ATTR_MASK)
                                          (w_fg (view_of st)) (w_bg (view_of st)) (w_lnk (view_of st))
                        \/ (s_null st = true /\ cur_vis st = vis_none).
Proof. unfold cur_vis, style_bool. destruct (s_null st) eqn:E; [right; auto|left; reflexivity]. Qed.

Lemma cur_vis_of_view st fg bg w lk : null_ok st -> view_of st = mkView fg bg w w lk -> 0 <= w < 8192 ->
  cur_vis st = mkVis w fg bg lk.
Proof.
  intros Hn V Hw. unfold cur_vis, style_bool. destruct (s_null st) eqn:E.
  - destruct (Hn E) as [A1 [A2 [A3 [A4 A5]]]]. unfold view_of, lnk in V. rewrite A1, A2, A3, A4, A5 in V.
    inversion V. reflexivity.
  - cbn [negb vis_opt]. unfold vis_of.
    assert (A : s_attributes st = w) by (unfold view_of in V; inversion V; reflexivity).
    assert (S : s_set_attributes st = w) by (unfold view_of in V; inversion V; reflexivity).
    assert (F : option_map ckey_of (s_color st) = fg) by (unfold view_of in V; inversion V; reflexivity).
    assert (B : option_map ckey_of (s_bgcolor st) = bg) by (unfold view_of in V; inversion V; reflexivity).
    assert (L : lnk st = lk) by (unfold view_of in V; inversion V; reflexivity).
    change (if str_truthy (s_link st) then s_link st else None) with (lnk st).
    rewrite A, S, F, B, L. rewrite Z.land_diag.
    f_equal. unfold ATTR_MASK. change 8191 with (Z.ones 13). rewrite Z.land_ones by lia. apply Z.mod_small. lia.
Qed.

Lemma clean_null : clean style_null None.
Proof. split; [intros _; repeat split; reflexivity|reflexivity]. Qed.

Lemma clean_update_link st lk l : clean st lk -> clean (dec_update_link st l) (match l with Some (_ :: _) => l | _ => None end).
Proof.
  intros [Hn V]. split; [apply non_null_ok; reflexivity|].
  unfold view_of in *. cbn [dec_update_link s_color s_bgcolor s_attributes s_set_attributes]. inversion V as [[V1 V2 V3 V4 V5]].
  unfold lnk. cbn [s_link]. destruct l as [[|c l]|]; reflexivity.
Qed.
