(* C02 proofs, part 2: what each per-line pass of Text.wrap does to the plain string;
   wrap_fits; the pipeline after `divide` loses no non-whitespace character when every divided line,
   right-stripped, fits (the hypothesis discharged by WrapP.divide_line_lines_fit). *)
From RichModel Require Import Prelude Cells SpecCells Wrap SpecWrap.
From RichGen Require Import UnicodeSpace WrapFacts.
From RichProofs Require Import CellsP.
From Coq Require Import ZifyBool.

(* ------------------------------------------------------------------ strings *)
Lemma nonspace_app a b : nonspace (a ++ b) = nonspace a ++ nonspace b.
Proof. unfold nonspace. apply filter_app. Qed.

Lemma is_space_SP : is_space SP = true.
Proof. vm_compute. reflexivity. Qed.

Lemma nonspace_spaces n : nonspace (repeat SP n) = [].
Proof.
  induction n as [|n IH]; [reflexivity|]. cbn [repeat]. unfold nonspace in *. cbn [filter].
  rewrite is_space_SP. cbn [negb]. exact IH.
Qed.

Lemma nonspace_py_repeat n : nonspace (py_repeat SP n) = [].
Proof. unfold py_repeat. apply nonspace_spaces. Qed.

Lemma cell_len_py_repeat n : 0 <= n -> cell_len (py_repeat SP n) = n.
Proof. intros H. unfold py_repeat. rewrite cell_len_spaces. lia. Qed.

Lemma cell_len_py_repeat_neg n : n <= 0 -> py_repeat SP n = [].
Proof. intros H. unfold py_repeat. replace (Z.to_nat n) with 0%nat by lia. reflexivity. Qed.

(* drop_space / rstrip *)
Lemma drop_space_split s : exists a, s = a ++ drop_space s /\ forallb is_space a = true.
Proof.
  induction s as [|c s IH]; [exists []; split; reflexivity|].
  cbn [drop_space]. destruct (is_space c) eqn:E.
  - destruct IH as [a [H1 H2]]. exists (c :: a). split; [cbn [app]; f_equal; exact H1|].
    cbn [forallb]. rewrite E, H2. reflexivity.
  - exists []. split; reflexivity.
Qed.

Lemma rstrip_split s : exists tail, s = rstrip s ++ tail /\ forallb is_space tail = true.
Proof.
  unfold rstrip. destruct (drop_space_split (rev s)) as [a [H1 H2]].
  exists (rev a). split.
  - rewrite <- rev_app_distr, <- H1, rev_involutive. reflexivity.
  - rewrite forallb_forall in *. intros x Hx. apply H2. apply in_rev. exact Hx.
Qed.

Lemma nonspace_all_space tail : forallb is_space tail = true -> nonspace tail = [].
Proof.
  induction tail as [|c r IH]; [reflexivity|]. cbn [forallb]. intros H.
  apply andb_true_iff in H as [H1 H2]. unfold nonspace in *. cbn [filter]. rewrite H1. cbn [negb]. auto.
Qed.

Lemma nonspace_rstrip s : nonspace (rstrip s) = nonspace s.
Proof.
  destruct (rstrip_split s) as [tail [H1 H2]]. set (r := rstrip s) in *.
  rewrite H1. rewrite nonspace_app, (nonspace_all_space tail H2), app_nil_r. reflexivity.
Qed.

Lemma drop_space_head_nonspace s c r : drop_space s = c :: r -> is_space c = false.
Proof.
  induction s as [|x s IH]; [discriminate|]. cbn [drop_space]. destruct (is_space x) eqn:E.
  - exact IH.
  - intros H. inversion H; subst. exact E.
Qed.

Lemma in_firstn' {A} n : forall (l : list A) x, In x (firstn n l) -> In x l.
Proof.
  induction n as [|n IH]; intros [|y l] x H; cbn [firstn] in H; try contradiction.
  destruct H as [H|H]; [left; exact H|right; apply IH; exact H].
Qed.

(* a prefix of s that contains rstrip s has the same non-whitespace characters as s *)
Lemma nonspace_firstn_ge s k : (length (rstrip s) <= k)%nat -> nonspace (firstn k s) = nonspace s.
Proof.
  intros Hk. destruct (rstrip_split s) as [tail [H1 H2]].
  rewrite <- (nonspace_rstrip s). set (r := rstrip s) in *.
  rewrite H1. rewrite firstn_app. rewrite firstn_all2 by exact Hk.
  rewrite nonspace_app.
  assert (Hf : nonspace (firstn (k - length r) tail) = []).
  { apply nonspace_all_space. rewrite forallb_forall in *. intros x Hx. apply H2.
    eapply in_firstn'. exact Hx. }
  rewrite Hf, app_nil_r. reflexivity.
Qed.

(* ------------------------------------------------------------------ set_cell_size *)
Lemma set_cell_size_len s n : 0 <= n -> cell_len (set_cell_size s n) = n.
Proof.
  intros H. pose proof (set_cell_size_spec s n H) as Hs. unfold resize_ok_b in Hs.
  apply andb_true_iff in Hs as [Hs _]. lia.
Qed.

Lemma pop_loop_keeps : forall r ex m,
  (m <= length r)%nat -> ex <= sumZ (firstn m r) ->
  (length r - m <= length (fst (pop_loop r ex)))%nat.
Proof.
  induction r as [|x r IH]; intros ex m Hm Hs.
  - cbn [pop_loop]. destruct (0 <? ex); cbn; lia.
  - cbn [pop_loop]. destruct (0 <? ex) eqn:E.
    + destruct m as [|m].
      * cbn [firstn] in Hs. unfold sumZ in Hs. cbn in Hs. lia.
      * cbn [firstn] in Hs. change (sumZ (x :: firstn m r)) with (x + sumZ (firstn m r)) in Hs.
        cbn [length] in *. specialize (IH (ex - x) m ltac:(lia) ltac:(lia)). lia.
    + cbn [fst length]. lia.
Qed.

Lemma sumZ_rev l : sumZ (rev l) = sumZ l.
Proof.
  induction l as [|x l IH]; [reflexivity|]. cbn [rev]. rewrite sumZ_app, IH.
  unfold sumZ. cbn. lia.
Qed.

Lemma set_cell_size_keeps_nonspace s n :
  0 <= n -> cell_len (rstrip s) <= n -> nonspace (set_cell_size s n) = nonspace s.
Proof.
  intros Hn Hr. unfold set_cell_size.
  destruct (cell_len s =? n) eqn:E1; [reflexivity|].
  destruct (cell_len s <? n) eqn:E2.
  - rewrite nonspace_app, nonspace_py_repeat, app_nil_r. reflexivity.
  - destruct (rstrip_split s) as [tail [H1 H2]]. set (r0 := rstrip s) in *.
    assert (Hcs : cell_len s = cell_len r0 + cell_len tail) by (rewrite H1 at 1; apply cell_len_app).
    pose proof (pop_loop_keeps (rev (map char_size s)) (cell_len s - n) (length tail)) as Hk.
    assert (Hlen : length s = (length r0 + length tail)%nat) by (rewrite H1 at 1; apply app_length).
    assert (Hfirst : firstn (length tail) (rev (map char_size s)) = rev (map char_size tail)).
    { rewrite H1 at 1. rewrite map_app, rev_app_distr.
      rewrite firstn_app. rewrite rev_length, map_length, Nat.sub_diag. cbn [firstn].
      rewrite app_nil_r. apply firstn_all2. rewrite rev_length, map_length. lia. }
    rewrite Hfirst, sumZ_rev in Hk. rewrite rev_length, map_length in Hk.
    change (sumZ (map char_size tail)) with (cell_len tail) in Hk.
    specialize (Hk ltac:(lia) ltac:(lia)).
    destruct (pop_loop (rev (map char_size s)) (cell_len s - n)) as [kept ex] eqn:Ep.
    cbn [fst] in Hk.
    assert (Hns : nonspace (firstn (length kept) s) = nonspace s).
    { apply nonspace_firstn_ge. fold r0. lia. }
    destruct (ex =? -1).
    + rewrite nonspace_app, Hns. unfold nonspace at 2. cbn [filter]. rewrite is_space_SP. cbn [negb].
      apply app_nil_r.
    + exact Hns.
Qed.

Lemma ellipsis_cell : cell_len [ELLIPSIS] = 1.
Proof. vm_compute. reflexivity. Qed.

(* ------------------------------------------------------------------ per-pass facts about `plain` *)
Section Passes.
Variable S : Type.
Variable seqb : S -> S -> bool.
Variable null : S.
Variable add : S -> S -> S.
Variable fx : fixes.
Arguments plain {S}.

Lemma str_eqb_true a b : str_eqb a b = true -> a = b.
Proof. apply str_eqb_eq. Qed.

Lemma set_plain_plain (t : text S) s : plain (set_plain S t s) = s.
Proof.
  unfold set_plain. destruct (str_eqb s (plain t)) eqn:E.
  - apply str_eqb_true in E. symmetry. exact E.
  - destruct (zlen s <? tlen S t); reflexivity.
Qed.

Lemma set_plain_base (t : text S) s : base (set_plain S t s) = base t.
Proof.
  unfold set_plain. destruct (str_eqb s (plain t)); [reflexivity|].
  destruct (zlen s <? tlen S t); reflexivity.
Qed.

(* truncate: every overflow mode except ignore makes the line fit *)
Lemma truncate_fits w ov pad (t : text S) :
  1 <= w -> ov <> OV_IGNORE -> cell_len (plain (truncate S w ov pad t)) <= w.
Proof.
  intros Hw Hov. unfold truncate. unfold OV_IGNORE in *.
  destruct (ov =? 3) eqn:E; [lia|].
  destruct (w <? cell_len (plain t)) eqn:E1.
  - replace (pad && (cell_len (plain t) <? w)) with false by (destruct pad; cbn; lia).
    destruct (ov =? OV_ELLIPSIS).
    + rewrite set_plain_plain, cell_len_app, ellipsis_cell, set_cell_size_len by lia. lia.
    + rewrite set_plain_plain, set_cell_size_len by lia. lia.
  - destruct (pad && (cell_len (plain t) <? w)) eqn:E2.
    + cbn [plain]. rewrite cell_len_app, cell_len_py_repeat by lia. lia.
    + lia.
Qed.

(* truncate with fold/crop: no non-whitespace character is lost when the stripped line fits *)
Lemma truncate_keeps w ov pad (t : text S) :
  0 <= w -> ov <> OV_ELLIPSIS -> cell_len (rstrip (plain t)) <= w ->
  nonspace (plain (truncate S w ov pad t)) = nonspace (plain t).
Proof.
  intros Hw Hov Hfit. unfold truncate. destruct (ov =? OV_IGNORE); [reflexivity|].
  replace (ov =? OV_ELLIPSIS) with false by lia.
  destruct (w <? cell_len (plain t)) eqn:E1.
  - replace (pad && (cell_len (plain t) <? w)) with false by (destruct pad; cbn; lia).
    rewrite set_plain_plain. apply set_cell_size_keeps_nonspace; assumption.
  - destruct (pad && (cell_len (plain t) <? w)).
    + cbn [plain]. rewrite nonspace_app, nonspace_py_repeat, app_nil_r. reflexivity.
    + reflexivity.
Qed.

Theorem wrap_fits_all : forall (t : text S) w j ov ts nw,
  1 <= w -> ov <> OV_IGNORE ->
  all_fit_b w (map plain (wrap S seqb null add fx t w j ov ts nw)) = true.
Proof.
  intros t w j ov ts nw Hw Hov. unfold all_fit_b. apply forallb_forall. intros l Hl.
  apply in_map_iff in Hl as [x [<- Hx]]. unfold wrap in Hx.
  apply in_concat in Hx as [ls [Hls Hx]].
  apply in_map_iff in Hls as [line [<- _]].
  unfold wrap_line in Hx. apply in_map_iff in Hx as [y [<- _]].
  pose proof (truncate_fits w ov false y Hw Hov). lia.
Qed.
End Passes.

(* ------------------------------------------------------------------ more on rstrip *)
Lemma drop_space_all_space a x : forallb is_space a = true -> drop_space (a ++ x) = drop_space x.
Proof.
  induction a as [|c a IH]; [reflexivity|]. cbn [forallb app drop_space]. intros H.
  apply andb_true_iff in H as [H1 H2]. rewrite H1. apply IH. exact H2.
Qed.

Lemma rstrip_app_space a ws : forallb is_space ws = true -> rstrip (a ++ ws) = rstrip a.
Proof.
  intros H. unfold rstrip. rewrite rev_app_distr. rewrite drop_space_all_space; [reflexivity|].
  rewrite forallb_forall in *. intros x Hx. apply H. apply in_rev. exact Hx.
Qed.

Lemma drop_space_idem s : drop_space (drop_space s) = drop_space s.
Proof.
  induction s as [|c s IH]; [reflexivity|]. cbn [drop_space]. destruct (is_space c) eqn:E; [exact IH|].
  cbn [drop_space]. rewrite E. reflexivity.
Qed.

Lemma rstrip_idem s : rstrip (rstrip s) = rstrip s.
Proof. unfold rstrip. rewrite rev_involutive, drop_space_idem. reflexivity. Qed.

Lemma rstrip_firstn_ge s k : (length (rstrip s) <= k)%nat -> rstrip (firstn k s) = rstrip s.
Proof.
  intros Hk. destruct (rstrip_split s) as [tail [H1 H2]].
  rewrite <- (rstrip_idem s). set (r := rstrip s) in *.
  rewrite H1. rewrite firstn_app, firstn_all2 by exact Hk.
  apply rstrip_app_space. rewrite forallb_forall in *. intros x Hx. apply H2. eapply in_firstn'. exact Hx.
Qed.

Lemma cell_len_rstrip_le s : cell_len (rstrip s) <= cell_len s.
Proof.
  destruct (rstrip_split s) as [tail [H1 H2]]. set (r := rstrip s) in *.
  rewrite H1, cell_len_app. pose proof (cell_len_nonneg tail). lia.
Qed.

Lemma rstrip_length_le s : (length (rstrip s) <= length s)%nat.
Proof.
  destruct (rstrip_split s) as [tail [H1 H2]]. set (r := rstrip s) in *.
  rewrite H1, app_length. lia.
Qed.

Lemma rstrip_spaces_app n s : rstrip (repeat SP n ++ s) = repeat SP n ++ rstrip s \/ rstrip s = [].
Proof.
  destruct (rstrip s) as [|c r] eqn:E; [right; reflexivity|left].
  destruct (rstrip_split s) as [tail [H1 H2]]. rewrite E in H1.
  rewrite H1 at 1. rewrite app_assoc. rewrite rstrip_app_space by exact H2.
  (* (spaces ++ c :: r) ends with a non-space character *)
  assert (Hr : rstrip (c :: r) = c :: r) by (rewrite <- E; apply rstrip_idem).
  unfold rstrip in *. rewrite rev_app_distr.
  destruct (rev (c :: r)) as [|y ys] eqn:Ey.
  { apply (f_equal (@rev Z)) in Ey. rewrite rev_involutive in Ey. discriminate. }
  cbn [app drop_space] in *. destruct (is_space y) eqn:Esp.
  - (* then rstrip (c::r) would be shorter than c::r *)
    exfalso. apply (f_equal (@length Z)) in Hr. rewrite rev_length in Hr.
    assert (Hl : length (c :: r) = length (y :: ys)) by (rewrite <- Ey; symmetry; apply rev_length).
    destruct (drop_space_split ys) as [a [Ha _]].
    assert (length (drop_space ys) <= length ys)%nat by (rewrite Ha at 2; rewrite app_length; lia).
    cbn [length] in *. lia.
  - cbn [rev]. rewrite rev_app_distr. cbn [rev app]. rewrite rev_involutive.
    rewrite <- app_assoc. f_equal.
    apply (f_equal (@rev Z)) in Ey. rewrite rev_involutive in Ey. cbn [rev] in Ey. symmetry. exact Ey.
Qed.

(* ------------------------------------------------------------------ the per-line pipeline after divide *)
Section Pipeline.
Variable S : Type.
Variable seqb : S -> S -> bool.
Variable null : S.
Variable add : S -> S -> S.
Variable fx : fixes.
Arguments plain {S}.

Lemma rstrip_end_plain w (l : text S) :
  exists k, (length (rstrip (plain l)) <= k)%nat /\ plain (rstrip_end S w l) = firstn k (plain l).
Proof.
  unfold rstrip_end.
  pose proof (rstrip_length_le (plain l)) as Hle.
  assert (Hid : exists k, (length (rstrip (plain l)) <= k)%nat /\ plain l = firstn k (plain l)).
  { exists (length (plain l)). split; [exact Hle|symmetry; apply firstn_all]. }
  destruct (w <? tlen S l); [|exact Hid].
  destruct (0 <? zlen (plain l) - zlen (rstrip (plain l))) eqn:E; [|exact Hid].
  unfold right_crop. cbn [plain]. eexists. split; [|reflexivity].
  unfold tlen, zlen in *. lia.
Qed.

Lemma rstrip_end_nonspace w (l : text S) : nonspace (plain (rstrip_end S w l)) = nonspace (plain l).
Proof. destruct (rstrip_end_plain w l) as [k [H1 H2]]. rewrite H2. apply nonspace_firstn_ge. exact H1. Qed.

Lemma rstrip_end_rstrip w (l : text S) : rstrip (plain (rstrip_end S w l)) = rstrip (plain l).
Proof. destruct (rstrip_end_plain w l) as [k [H1 H2]]. rewrite H2. apply rstrip_firstn_ge. exact H1. Qed.

Lemma pad_left_plain (t : text S) n : plain (pad_left S fx t n) = py_repeat SP n ++ plain t.
Proof.
  unfold pad_left.
  destruct (if fix_pad fx then 0 <? n else negb (n =? 0)) eqn:E.
  - cbn [plain]. apply set_plain_plain.
  - rewrite cell_len_py_repeat_neg; [reflexivity|]. destruct (fix_pad fx); lia.
Qed.

Lemma pad_right_plain (t : text S) n : plain (pad_right S t n) = plain t ++ py_repeat SP n.
Proof.
  unfold pad_right. destruct (negb (n =? 0)) eqn:E.
  - apply set_plain_plain.
  - rewrite cell_len_py_repeat_neg by lia. symmetry. apply app_nil_r.
Qed.

Lemma text_rstrip_plain (t : text S) : plain (text_rstrip S t) = rstrip (plain t).
Proof. unfold text_rstrip. apply set_plain_plain. Qed.

Definition just1 (w j ov : Z) (l : text S) : text S :=
  if j =? J_LEFT then truncate S w ov true l
  else if j =? J_CENTER then
    let l := truncate S w ov false (text_rstrip S l) in
    let l := pad_left S fx l ((w - cell_len (plain l)) / 2) in
    pad_right S l (w - cell_len (plain l))
  else if j =? J_RIGHT then
    let l := truncate S w ov false (text_rstrip S l) in
    pad_left S fx l (w - cell_len (plain l))
  else l.

Lemma justify_lines_map w j ov ls :
  j <> J_FULL -> justify_lines S seqb null add fx w j ov ls = map (just1 w j ov) ls.
Proof.
  intros Hj. unfold justify_lines, just1.
  destruct (j =? J_LEFT); [reflexivity|].
  destruct (j =? J_CENTER); [reflexivity|].
  destruct (j =? J_RIGHT); [reflexivity|].
  replace (j =? J_FULL) with false by lia. symmetry. apply map_id.
Qed.

(* with fold, justification other than "full": no non-whitespace character is lost and the result
   still fits when stripped *)
Lemma just1_keeps w j (l : text S) :
  1 <= w -> cell_len (rstrip (plain l)) <= w ->
  nonspace (plain (just1 w j OV_FOLD l)) = nonspace (plain l) /\
  cell_len (rstrip (plain (just1 w j OV_FOLD l))) <= w.
Proof.
  intros Hw Hfit. unfold just1.
  assert (Hov : OV_FOLD <> OV_ELLIPSIS) by (unfold OV_FOLD, OV_ELLIPSIS; lia).
  assert (Hov2 : OV_FOLD <> OV_IGNORE) by (unfold OV_FOLD, OV_IGNORE; lia).
  destruct (j =? J_LEFT).
  { split; [apply truncate_keeps; try assumption; lia|].
    pose proof (truncate_fits S w OV_FOLD true l Hw Hov2).
    pose proof (cell_len_rstrip_le (plain (truncate S w OV_FOLD true l))). lia. }
  assert (Hr : cell_len (rstrip (plain (text_rstrip S l))) <= w).
  { rewrite text_rstrip_plain, rstrip_idem. exact Hfit. }
  assert (Hk : nonspace (plain (truncate S w OV_FOLD false (text_rstrip S l))) = nonspace (plain l)).
  { rewrite truncate_keeps by (try assumption; lia). rewrite text_rstrip_plain. apply nonspace_rstrip. }
  pose proof (truncate_fits S w OV_FOLD false (text_rstrip S l) Hw Hov2) as Hf.
  set (l1 := truncate S w OV_FOLD false (text_rstrip S l)) in *.
  set (c := cell_len (plain l1)) in *.
  pose proof (cell_len_nonneg (plain l1)) as Hc0. fold c in Hc0.
  destruct (j =? J_CENTER).
  { cbv zeta. rewrite pad_right_plain, pad_left_plain.
    split.
    - rewrite !nonspace_app, !nonspace_py_repeat, app_nil_r. cbn [app]. exact Hk.
    - eapply Z.le_trans; [apply cell_len_rstrip_le|].
      rewrite !cell_len_app.
      assert (H2 : 0 <= (w - c) / 2 <= w - c).
      { split; [apply Z.div_pos; lia|]. apply Z.div_le_upper_bound; lia. }
      rewrite cell_len_py_repeat by lia.
      rewrite cell_len_py_repeat by (fold c; lia). fold c. lia. }
  destruct (j =? J_RIGHT).
  { cbv zeta. rewrite pad_left_plain. split.
    - rewrite nonspace_app, nonspace_py_repeat. cbn [app]. exact Hk.
    - eapply Z.le_trans; [apply cell_len_rstrip_le|].
      rewrite cell_len_app, cell_len_py_repeat by (fold c; lia). fold c. lia. }
  split; [reflexivity|exact Hfit].
Qed.

Definition post1 (w j : Z) (l : text S) : text S :=
  truncate S w OV_FOLD false (just1 w j OV_FOLD (rstrip_end S w l)).

Lemma post1_keeps w j (l : text S) :
  1 <= w -> cell_len (rstrip (plain l)) <= w -> nonspace (plain (post1 w j l)) = nonspace (plain l).
Proof.
  intros Hw Hfit. unfold post1.
  assert (Hfit' : cell_len (rstrip (plain (rstrip_end S w l))) <= w) by (rewrite rstrip_end_rstrip; exact Hfit).
  destruct (just1_keeps w j (rstrip_end S w l) Hw Hfit') as [H1 H2].
  rewrite truncate_keeps; [|lia|unfold OV_FOLD, OV_ELLIPSIS; lia|exact H2].
  rewrite H1. apply rstrip_end_nonspace.
Qed.
End Pipeline.

(* ------------------------------------------------------------------ divide: the plain strings *)
Section DividePlain.
Variable S : Type.
Variable seqb : S -> S -> bool.
Variable fx : fixes.
Arguments plain {S}.

Lemma divide_spans_length : forall ranges stack od,
  length (divide_spans S seqb fx ranges stack od) = length ranges.
Proof.
  induction ranges as [|[s e] rs IH]; intros stack od; [reflexivity|].
  cbn [divide_spans]. destruct stack as [|x stack].
  - rewrite map_length. reflexivity.
  - destruct (line_loop S seqb s e (x :: stack) [] od []) as [[stack' od'] ls].
    cbn [length]. rewrite IH. reflexivity.
Qed.

Lemma map_fst_combine {A B} : forall (a : list A) (b : list B), length a = length b -> map fst (combine a b) = a.
Proof.
  induction a as [|x a IH]; intros [|y b] H; cbn in *; try reflexivity; try discriminate.
  f_equal. apply IH. lia.
Qed.

Definition pieces_of (s : str) (offs : list Z) : list str :=
  map (fun r => zslice s (fst r) (snd r)) (zip_ranges (0 :: offs ++ [zlen s])).

Lemma zslice_all s : zslice s 0 (zlen s) = s.
Proof. unfold zslice, zlen. cbn [Z.to_nat skipn]. rewrite Z.sub_0_r, Nat2Z.id. apply firstn_all. Qed.

Lemma divide_plain (t : text S) offs :
  map plain (divide S seqb fx t offs) = pieces_of (plain t) offs.
Proof.
  unfold divide, pieces_of. destruct offs as [|o offs].
  - cbn [app zip_ranges map fst snd]. rewrite zslice_all. reflexivity.
  - set (ranges := zip_ranges (0 :: (o :: offs) ++ [tlen S t])).
    rewrite map_map. cbn [plain].
    set (pieces := map (fun r => zslice (plain t) (fst r) (snd r)) ranges).
    match goal with |- map _ (combine pieces ?sps) = _ => set (sp := sps) end.
    assert (Hlen : length pieces = length sp).
    { unfold pieces, sp. rewrite map_length. destruct (spans t).
      - rewrite map_length. reflexivity.
      - rewrite divide_spans_length. reflexivity. }
    change (fun x : str * list (span S) => fst x) with (@fst str (list (span S))).
    rewrite map_fst_combine by exact Hlen. reflexivity.
Qed.
End DividePlain.

(* ------------------------------------------------------------------ cutting at monotone offsets loses nothing *)
Fixpoint mono2 (a : Z) (l : list Z) : Prop :=
  match l with [] => True | b :: r => a <= b /\ mono2 b r end.

Lemma firstn_skipn_add {A} : forall m k (x : list A), firstn m x ++ firstn k (skipn m x) = firstn (m + k) x.
Proof.
  induction m as [|m IH]; intros k x; [reflexivity|].
  destruct x as [|y x]; [cbn; rewrite firstn_nil; reflexivity|].
  cbn [firstn skipn app Nat.add]. f_equal. apply IH.
Qed.

Lemma skipn_skipn' {A} : forall m n (x : list A), skipn m (skipn n x) = skipn (n + m) x.
Proof.
  intros m n. revert m. induction n as [|n IH]; intros m x; [reflexivity|].
  destruct x as [|y x]; [cbn; rewrite skipn_nil; reflexivity|]. cbn [skipn Nat.add]. apply IH.
Qed.

Lemma zslice_app s a b c : 0 <= a <= b -> b <= c -> zslice s a b ++ zslice s b c = zslice s a c.
Proof.
  intros H1 H2. unfold zslice.
  replace (Z.to_nat b) with (Z.to_nat a + Z.to_nat (b - a))%nat by lia.
  rewrite <- skipn_skipn'. rewrite firstn_skipn_add. f_equal. lia.
Qed.

Lemma mono2_le_last : forall r b z, mono2 b (r ++ [z]) -> b <= z.
Proof.
  induction r as [|x r IH]; intros b z H; cbn in H.
  - lia.
  - destruct H as [H1 H2]. specialize (IH x z H2). lia.
Qed.

Lemma concat_ranges s : forall l a z, 0 <= a -> mono2 a (l ++ [z]) ->
  concat (map (fun r => zslice s (fst r) (snd r)) (zip_ranges (a :: l ++ [z]))) = zslice s a z.
Proof.
  induction l as [|b l IH]; intros a z Ha H.
  - cbn. apply app_nil_r.
  - cbn [app] in *. destruct H as [H1 H2].
    change (zip_ranges (a :: b :: l ++ [z])) with ((a, b) :: zip_ranges (b :: l ++ [z])).
    cbn [map concat fst snd]. rewrite IH by (try assumption; lia).
    apply zslice_app; [lia|]. apply (mono2_le_last l b z H2).
Qed.

Lemma pieces_concat s offs : mono2 0 (offs ++ [zlen s]) -> concat (pieces_of s offs) = s.
Proof.
  intros H. unfold pieces_of. rewrite concat_ranges by (try assumption; lia). apply zslice_all.
Qed.

(* positions of a separator character *)
Lemma sep_positions_bounds sep : forall s i p, In p (sep_positions sep s i) -> i <= p < i + zlen s.
Proof.
  induction s as [|c s IH]; intros i p H; [contradiction|].
  cbn [sep_positions] in H. unfold zlen in *. cbn [length].
  destruct (c =? sep).
  - destruct H as [<-|H]; [lia|]. specialize (IH (i + 1) p H). lia.
  - specialize (IH (i + 1) p H). lia.
Qed.

Lemma sep_positions_mono sep (f : Z -> list Z) :
  (forall p, f p = [p; p + 1] \/ f p = [p + 1]) ->
  forall s i, mono2 i (concat (map f (sep_positions sep s i)) ++ [i + zlen s]).
Proof.
  intros Hf. induction s as [|c s IH]; intros i.
  - cbn. unfold zlen. cbn. lia.
  - cbn [sep_positions]. specialize (IH (i + 1)).
    assert (Hz : i + zlen (c :: s) = i + 1 + zlen s) by (unfold zlen; cbn [length]; lia).
    rewrite Hz.
    assert (Hweak : forall l, mono2 (i + 1) l -> mono2 i l).
    { intros [|x l]; cbn; [tauto|]. intros [H1 H2]. split; [lia|exact H2]. }
    destruct (c =? sep).
    + cbn [map concat]. destruct (Hf i) as [E|E]; rewrite E; cbn [app mono2].
      * split; [lia|]. split; [lia|exact IH].
      * split; [lia|exact IH].
    + apply Hweak. exact IH.
Qed.

(* ------------------------------------------------------------------ split on a whitespace separator *)
Lemma nonspace_concat L : nonspace (concat L) = concat (map nonspace L).
Proof.
  induction L as [|x L IH]; [reflexivity|]. cbn [concat map]. rewrite nonspace_app, IH. reflexivity.
Qed.

Lemma in_zslice s a b c : In c (zslice s a b) -> In c s.
Proof.
  unfold zslice. intros H. apply in_firstn' in H.
  rewrite <- (firstn_skipn (Z.to_nat a) s). apply in_or_app. right. exact H.
Qed.

Section SplitKeeps.
Variable S : Type.
Variable seqb : S -> S -> bool.
Variable fx : fixes.
Arguments plain {S}.

Lemma filter_sep_nonspace sep (L : list (text S)) :
  is_space sep = true ->
  nonspace (concat (map plain (filter (fun l => negb (str_eqb (plain l) [sep])) L))) =
  nonspace (concat (map plain L)).
Proof.
  intros Hs. induction L as [|l L IH]; [reflexivity|].
  cbn [filter]. destruct (str_eqb (plain l) [sep]) eqn:E; cbn [negb map concat].
  - rewrite nonspace_app, <- IH. apply str_eqb_eq in E. rewrite E.
    unfold nonspace at 2. cbn [filter]. rewrite Hs. reflexivity.
  - rewrite !nonspace_app, IH. reflexivity.
Qed.

Lemma split_blank_keeps (t : text S) sep :
  is_space sep = true ->
  nonspace (concat (map plain (split S seqb fx t sep false true))) = nonspace (plain t).
Proof.
  intros Hs. unfold split.
  pose proof (sep_positions_mono sep (fun p => [p; p + 1]) (fun p => or_introl eq_refl) (plain t) 0) as Hm.
  destruct (sep_positions sep (plain t) 0) as [|p ps] eqn:E; [cbn [map concat]; rewrite app_nil_r; reflexivity|].
  cbn [negb andb]. rewrite filter_sep_nonspace by exact Hs.
  rewrite divide_plain. rewrite pieces_concat; [reflexivity|]. exact Hm.
Qed.

(* every line of a split consists of characters of the text *)
Lemma split_chars (t : text S) sep inc ab l c :
  In l (split S seqb fx t sep inc ab) -> In c (plain l) -> In c (plain t).
Proof.
  unfold split. intros Hl Hc.
  destruct (sep_positions sep (plain t) 0) as [|p ps].
  { destruct Hl as [<-|[]]. exact Hc. }
  assert (Hdiv : forall offs l', In l' (divide S seqb fx t offs) -> In c (plain l') -> In c (plain t)).
  { intros offs l' Hl' Hc'. assert (Hp : In (plain l') (map plain (divide S seqb fx t offs))) by (apply in_map; exact Hl').
    rewrite divide_plain in Hp. unfold pieces_of in Hp. apply in_map_iff in Hp as [r [Hr _]].
    rewrite <- Hr in Hc'. eapply in_zslice. exact Hc'. }
  assert (Hrl : forall (L : list (text S)) x, In x (removelast L) -> In x L).
  { induction L as [|y L IH]; intros x Hx; [contradiction|]. cbn [removelast] in Hx.
    destruct L as [|z L]; [contradiction|]. destruct Hx as [<-|Hx]; [left; reflexivity|right; apply IH; exact Hx]. }
  destruct inc.
  - destruct (negb ab && ends_with (plain t) sep); [apply Hrl in Hl|]; eapply Hdiv; eassumption.
  - destruct (negb ab && ends_with (plain t) sep); [apply Hrl in Hl|];
      apply filter_In in Hl as [Hl _]; eapply Hdiv; eassumption.
Qed.
End SplitKeeps.

(* ------------------------------------------------------------------ split(include_separator=True) and expand_tabs *)
Lemma ends_with_cons c s sep : ends_with (c :: s) sep = match s with [] => c =? sep | _ => ends_with s sep end.
Proof.
  unfold ends_with. destruct s as [|d s]; [reflexivity|].
  cbn [rev]. destruct (rev s ++ [d]) as [|x r] eqn:E.
  - apply app_eq_nil in E as [_ E]. discriminate.
  - cbn [app]. reflexivity.
Qed.

Lemma sep_positions_nonempty sep : forall s i, ends_with s sep = true -> sep_positions sep s i <> [].
Proof.
  induction s as [|x s IHs]; intros j Hj; [cbn in Hj; discriminate|]. rewrite ends_with_cons in Hj.
  cbn [sep_positions]. destruct s as [|y s]; [rewrite Hj; discriminate|].
  destruct (x =? sep); [discriminate|]. apply IHs. exact Hj.
Qed.

Lemma sep_positions_last sep : forall s i d,
  ends_with s sep = true -> last (sep_positions sep s i) d = i + zlen s - 1.
Proof.
  induction s as [|c s IH]; intros i d H; [discriminate|].
  rewrite ends_with_cons in H. cbn [sep_positions]. unfold zlen in *. cbn [length].
  destruct s as [|c' s].
  - rewrite H. cbn. lia.
  - specialize (IH (i + 1) d H).
    destruct (c =? sep).
    + assert (Hne : sep_positions sep (c' :: s) (i + 1) <> []).
      { apply sep_positions_nonempty. exact H. }
      destruct (sep_positions sep (c' :: s) (i + 1)) as [|q qs] eqn:Eq; [congruence|].
      change (last (i :: q :: qs) d) with (last (q :: qs) d). rewrite IH. cbn [length]. lia.
    + rewrite IH. cbn [length]. lia.
Qed.

Lemma zip_ranges_last : forall l a z, zip_ranges (a :: l ++ [z]) = zip_ranges (a :: l) ++ [(last l a, z)].
Proof.
  induction l as [|b l IH]; intros a z; [reflexivity|].
  cbn [app]. change (zip_ranges (a :: b :: l ++ [z])) with ((a, b) :: zip_ranges (b :: l ++ [z])).
  rewrite IH. destruct l as [|c l]; [reflexivity|].
  change (zip_ranges (a :: b :: c :: l)) with ((a, b) :: zip_ranges (b :: c :: l)).
  cbn [app]. f_equal. f_equal. f_equal.
  change (last (b :: c :: l) a) with (last (c :: l) a). clear.
  revert c. induction l as [|x l IH]; intros c; [reflexivity|].
  change (last (c :: x :: l) b) with (last (x :: l) b). change (last (c :: x :: l) a) with (last (x :: l) a). apply IH.
Qed.

Lemma removelast_app_one {A} (l : list A) x : removelast (l ++ [x]) = l.
Proof. apply removelast_last. Qed.

Lemma map_removelast {A B} (f : A -> B) : forall l, map f (removelast l) = removelast (map f l).
Proof.
  induction l as [|x l IH]; [reflexivity|]. destruct l as [|y l]; [reflexivity|].
  cbn [removelast map] in *. f_equal. exact IH.
Qed.

Lemma map_as_concat {A B} (g : A -> B) l : map g l = concat (map (fun p => [g p]) l).
Proof. induction l as [|x l IH]; [reflexivity|]. cbn. f_equal. exact IH. Qed.

Lemma last_map_ne {A B} (g : A -> B) : forall l x d d', last (map g (x :: l)) d' = g (last (x :: l) d).
Proof.
  induction l as [|y l IH]; intros x d d'; [reflexivity|].
  change (last (map g (x :: y :: l)) d') with (last (map g (y :: l)) d').
  change (last (x :: y :: l) d) with (last (y :: l) d). apply IH.
Qed.

Lemma zslice_empty' s a : zslice s a a = [].
Proof. unfold zslice. rewrite Z.sub_diag. reflexivity. Qed.

Section ExpandTabs.
Variable S : Type.
Variable seqb : S -> S -> bool.
Variable fx : fixes.
Arguments plain {S}.

Lemma split_incl_keeps (t : text S) sep :
  nonspace (concat (map plain (split S seqb fx t sep true false))) = nonspace (plain t).
Proof.
  unfold split.
  pose proof (sep_positions_mono sep (fun p => [p + 1]) (fun p => or_intror eq_refl) (plain t) 0) as Hm.
  rewrite <- map_as_concat in Hm. cbn [Z.add] in Hm.
  destruct (sep_positions sep (plain t) 0) as [|p ps] eqn:E; [cbn [map concat]; rewrite app_nil_r; reflexivity|].
  cbn [negb andb]. set (offs := map (fun p => p + 1) (p :: ps)) in *.
  destruct (ends_with (plain t) sep) eqn:Ee.
  - rewrite map_removelast, divide_plain. unfold pieces_of.
    rewrite zip_ranges_last, map_app. cbn [map fst snd]. rewrite removelast_app_one.
    (* the last piece is empty *)
    assert (Hl : last offs 0 = zlen (plain t)).
    { pose proof (sep_positions_last sep (plain t) 0 0 Ee) as Hp. rewrite E in Hp.
      unfold offs. rewrite (last_map_ne (fun p => p + 1) ps p 0 0). rewrite Hp. lia. }
    pose proof (pieces_concat (plain t) offs Hm) as Hc. unfold pieces_of in Hc.
    rewrite zip_ranges_last, map_app, concat_app in Hc. cbn [map concat fst snd] in Hc.
    rewrite Hl, zslice_empty', !app_nil_r in Hc. rewrite Hc. reflexivity.
  - rewrite divide_plain, pieces_concat by exact Hm. reflexivity.
Qed.
End ExpandTabs.

Lemma ends_with_split p c : ends_with p c = true -> p = removelast p ++ [c].
Proof.
  unfold ends_with. destruct (rev p) as [|x r] eqn:E; [discriminate|]. intros H.
  assert (x = c) by lia. subst x.
  apply (f_equal (@rev Z)) in E. rewrite rev_involutive in E. cbn [rev] in E.
  rewrite E. rewrite removelast_last. reflexivity.
Qed.

Lemma zlen_zero_nil {A} (l : list A) : zlen l =? 0 = true -> l = [].
Proof. unfold zlen. destruct l; [reflexivity|cbn [length]; lia]. Qed.

Section ExpandTabs2.
Variable S : Type.
Variable seqb : S -> S -> bool.
Variable fx : fixes.
Arguments plain {S}.

Lemma append_text_plain (t o : text S) : plain (append_text S t o) = plain t ++ plain o.
Proof.
  unfold append_text. destruct (tlen S o =? 0) eqn:E; [|reflexivity].
  unfold tlen in E. rewrite (zlen_zero_nil _ E). symmetry. apply app_nil_r.
Qed.

Lemma append_str_plain (t : text S) s st : plain (append_str S t s st) = plain t ++ s.
Proof.
  unfold append_str. destruct (zlen s =? 0) eqn:E; [|reflexivity].
  rewrite (zlen_zero_nil _ E). symmetry. apply app_nil_r.
Qed.

Lemma is_space_TAB : is_space TAB = true.
Proof. vm_compute. reflexivity. Qed.

Lemma expand_part_nonspace ts (acc : text S) pos part :
  nonspace (plain (fst (expand_part S ts (acc, pos) part))) = nonspace (plain acc) ++ nonspace (plain part).
Proof.
  unfold expand_part. destruct (ends_with (plain part) TAB) eqn:E.
  - assert (Hp : nonspace (replace_last (plain part) SP) = nonspace (plain part)).
    { rewrite (ends_with_split _ _ E) at 2. unfold replace_last. rewrite !nonspace_app.
      f_equal. }
    match goal with |- context [if ?c then _ else _] => destruct c end; cbn [fst].
    + rewrite append_str_plain, nonspace_app, nonspace_py_repeat, app_nil_r.
      rewrite append_text_plain, nonspace_app. cbn [plain]. rewrite Hp. reflexivity.
    + rewrite append_text_plain, nonspace_app. cbn [plain]. rewrite Hp. reflexivity.
  - cbn [fst]. rewrite append_text_plain, nonspace_app. reflexivity.
Qed.

Lemma expand_fold_nonspace ts : forall parts (acc : text S) pos,
  nonspace (plain (fst (fold_left (expand_part S ts) parts (acc, pos)))) =
  nonspace (plain acc) ++ nonspace (concat (map plain parts)).
Proof.
  induction parts as [|p parts IH]; intros acc pos; [cbn; symmetry; apply app_nil_r|].
  cbn [fold_left map concat].
  destruct (expand_part S ts (acc, pos) p) as [acc' pos'] eqn:E.
  rewrite IH. pose proof (expand_part_nonspace ts acc pos p) as H. rewrite E in H. cbn [fst] in H.
  rewrite H, nonspace_app, app_assoc. reflexivity.
Qed.

Lemma concat_split_nonspace (f : text S -> list (text S)) :
  (forall l, nonspace (concat (map plain (f l))) = nonspace (plain l)) ->
  forall lines, nonspace (concat (map plain (concat (map f lines)))) = nonspace (concat (map plain lines)).
Proof.
  intros Hf. induction lines as [|l lines IH]; [reflexivity|].
  cbn [map concat]. rewrite map_app, concat_app, !nonspace_app, Hf, IH. reflexivity.
Qed.

Theorem expand_tabs_keeps (t : text S) ts :
  nonspace (plain (expand_tabs S seqb fx t ts)) = nonspace (plain t).
Proof.
  unfold expand_tabs. destruct (existsb (fun c => c =? TAB) (plain t)); [|reflexivity].
  destruct (fold_left (expand_part S ts)
              (concat (map (fun l => split S seqb fx l TAB true false) (split S seqb fx t NL true false)))
              (mkText [] [] (base t), 0)) as [result pos] eqn:E.
  cbn [plain].
  pose proof (expand_fold_nonspace ts
              (concat (map (fun l => split S seqb fx l TAB true false) (split S seqb fx t NL true false)))
              (mkText [] [] (base t)) 0) as H.
  rewrite E in H. cbn [fst plain] in H. rewrite H. cbn [nonspace filter app].
  rewrite (concat_split_nonspace (fun l => split S seqb fx l TAB true false)).
  - apply split_incl_keeps.
  - intros l. apply split_incl_keeps.
Qed.
End ExpandTabs2.
