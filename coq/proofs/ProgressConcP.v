(* C12, concurrent part: no update is lost under any interleaving of advance() calls, for every
   event list that satisfies the static lock discipline wf_b (and gen's advance_events does);
   reading the clock outside the lock lets samples go out of time order (D14). *)
From RichModel Require Import Prelude Progress SpecProgress.
From RichGen Require Import ProgressLock.
From Coq Require Import ZifyBool Lia QArith.
Import Conc.
Open Scope Z_scope.

Definition acct (th : thread) : Z := done th + (if g_wrote th then amt th else 0).
Definition sum_acct (ths : list thread) : Z := fold_right (fun th a => acct th + a) 0 ths.
Definition planned (th : thread) : Z :=
  done th + (match pc th with [] => 0 | _ => amt th end) + sumZ (todo th).

Definition thr_ok (th : thread) : Prop :=
  match pc th with
  | [] => g_inlock th = false /\ g_valid th = false /\ g_wrote th = false
  | _ => wf_from (g_inlock th) (g_valid th) (g_wrote th) (pc th) = true
  end.

Record tinv (s : shared) (j : nat) (th : thread) : Prop := {
  ti_ok : thr_ok th;
  ti_lock : g_inlock th = true <-> lock s = Some j;
  ti_valid : g_valid th = true -> r_c th = completed s;
  ti_vl : g_valid th = true -> g_inlock th = true
}.

Ltac splits := repeat match goal with |- _ /\ _ => split end.
Ltac fin Hl :=
  splits; simpl; auto; try lia; try tauto; try congruence;
  try (intros; split; intros; try congruence; try (apply Hl; assumption); fail);
  try (intros; try congruence; try (apply Hl; assumption); fail).

Lemma exec_inv i s th e rest s' th' :
  pc th = e :: rest ->
  wf_from (g_inlock th) (g_valid th) (g_wrote th) (e :: rest) = true ->
  (g_inlock th = true <-> lock s = Some i) ->
  (g_valid th = true -> r_c th = completed s) ->
  (g_valid th = true -> g_inlock th = true) ->
  exec i s th e = Some (s', th') ->
  pc th' = rest /\ amt th' = amt th /\ todo th' = todo th /\ done th' = done th /\
  wf_from (g_inlock th') (g_valid th') (g_wrote th') rest = true /\
  (g_inlock th' = true <-> lock s' = Some i) /\
  (g_valid th' = true -> r_c th' = completed s') /\
  (g_valid th' = true -> g_inlock th' = true) /\
  completed s' + acct th = completed s + acct th' /\
  (forall j, j <> i -> (lock s' = Some j <-> lock s = Some j)) /\
  (completed s' <> completed s -> g_inlock th = true).
Proof.
  intros Hpc Hwf Hl Hv Hvl He. unfold acct.
  destruct e; simpl in He, Hwf.
  - (* Clock *) inversion He; subst; clear He. simpl. rewrite Hpc. simpl. fin Hl.
  - (* Acq *) destruct (lock s) eqn:El; [discriminate|]. inversion He; subst; clear He. simpl. rewrite Hpc. simpl.
    apply andb_true_iff in Hwf as [Hn Hwf]. fin Hl.
  - (* Rel *) inversion He; subst; clear He. simpl. rewrite Hpc. simpl.
    apply andb_true_iff in Hwf as [Hn Hwf]. pose proof (proj1 Hl Hn) as Hli. fin Hl.
  - (* Rd *) apply andb_true_iff in Hwf as [Hn Hwf]. simpl in Hwf. pose proof (proj1 Hl Hn) as Hli.
    destruct (f =? F_completed) eqn:Ef.
    + inversion He; subst; clear He. simpl. rewrite Hpc. simpl. fin Hl.
    + inversion He; subst; clear He. simpl. rewrite Hpc. simpl. fin Hl.
  - (* Wr *) apply andb_true_iff in Hwf as [Hn Hwf]. simpl in Hwf. pose proof (proj1 Hl Hn) as Hli.
    destruct (f =? F_completed) eqn:Ef.
    + apply andb_true_iff in Hwf as [Hw1 Hwf]. apply andb_true_iff in Hw1 as [Hval Hnw].
      inversion He; subst; clear He. simpl. rewrite Hpc. simpl.
      rewrite (Hv Hval). destruct (g_wrote th); [discriminate|]. fin Hl.
    + assert (Hsame : forall s1, completed s1 = completed s -> lock s1 = lock s ->
                Some (s1, mkThread (tl (pc th)) (amt th) (todo th) (done th) (r_time th) (r_c th) (r_cs th)
                            (r_uc th) (g_inlock th) (g_valid th) (g_wrote th) (g_tvalid th)) = Some (s', th') ->
                pc th' = rest /\ amt th' = amt th /\ todo th' = todo th /\ done th' = done th /\
                wf_from (g_inlock th') (g_valid th') (g_wrote th') rest = true /\
                (g_inlock th' = true <-> lock s' = Some i) /\
                (g_valid th' = true -> r_c th' = completed s') /\
                (g_valid th' = true -> g_inlock th' = true) /\
                completed s' + (done th + (if g_wrote th then amt th else 0)) =
                completed s + (done th' + (if g_wrote th' then amt th' else 0)) /\
                (forall j, j <> i -> (lock s' = Some j <-> lock s = Some j)) /\
                (completed s' <> completed s -> g_inlock th = true)).
      { intros s1 Hc1 Hl1 H1. inversion H1; subst; clear H1. simpl. rewrite Hpc. simpl. rewrite Hc1, Hl1. fin Hl. }
      destruct (f =? F_finished_time).
      * destruct (finish_due s).
        -- destruct (start_time s).
           ++ destruct (stop_time s); (eapply Hsame; [| |exact He]; reflexivity).
           ++ eapply Hsame; [| |exact He]; reflexivity.
        -- eapply Hsame; [| |exact He]; reflexivity.
      * eapply Hsame; [| |exact He]; reflexivity.
  - (* PopOld *) apply andb_true_iff in Hwf as [Hn Hwf]. simpl in Hwf.
    inversion He; subst; clear He. simpl. rewrite Hpc. simpl. fin Hl.
  - (* PopCap *) apply andb_true_iff in Hwf as [Hn Hwf]. simpl in Hwf.
    inversion He; subst; clear He. simpl. rewrite Hpc. simpl. fin Hl.
  - (* Append *) apply andb_true_iff in Hwf as [Hn Hwf]. simpl in Hwf.
    inversion He; subst; clear He. simpl. rewrite Hpc. simpl. fin Hl.
  - (* Clear *) apply andb_true_iff in Hwf as [Hn Hwf]. simpl in Hwf.
    inversion He; subst; clear He. simpl. rewrite Hpc. simpl. fin Hl.
  - (* Elapsed *) apply andb_true_iff in Hwf as [Hn Hwf]. simpl in Hwf.
    inversion He; subst; clear He. simpl. rewrite Hpc. simpl. fin Hl.
  - (* Refresh *) inversion He; subst; clear He. simpl. rewrite Hpc. simpl. fin Hl.
  - (* Call *) discriminate.
Qed.

(* ------------------------------------------------------------------ lists of threads *)
Lemma nth_set_nth_eq {A} (l : list A) : forall i x y, nth_error l i = Some y -> nth_error (set_nth i x l) i = Some x.
Proof. induction l; intros [|i] x y H; simpl in *; try discriminate; auto. eapply IHl; eauto. Qed.
Lemma nth_set_nth_neq {A} (l : list A) : forall i j x, i <> j -> nth_error (set_nth i x l) j = nth_error l j.
Proof.
  induction l; intros [|i] [|j] x H; simpl; auto; try congruence.
Qed.
Lemma sum_acct_set_nth ths : forall i th th', nth_error ths i = Some th ->
  sum_acct (set_nth i th' ths) = sum_acct ths - acct th + acct th'.
Proof.
  induction ths; intros [|i] th th' H; simpl in *; try discriminate.
  - inversion H; subst. lia.
  - rewrite (IHths i th th' H). lia.
Qed.
Lemma length_set_nth {A} (l : list A) : forall i x, length (set_nth i x l) = length l.
Proof. induction l; intros [|i] x; simpl; auto. Qed.

Section NLU.
Variable evs : list ev.
Hypothesis Hwf : wf_b evs = true.

Definition ginv (c0 : Z) (st : state) : Prop :=
  completed (fst st) = c0 + sum_acct (snd st) /\
  (forall j th, nth_error (snd st) j = Some th -> tinv (fst st) j th).

Lemma retire_props s i th' :
  wf_from (g_inlock th') (g_valid th') (g_wrote th') (pc th') = true ->
  (g_inlock th' = true <-> lock s = Some i) ->
  (g_valid th' = true -> r_c th' = completed s) ->
  (g_valid th' = true -> g_inlock th' = true) ->
  tinv s i (retire th') /\ acct (retire th') = acct th'.
Proof.
  intros Hw Hl Hv Hvl. unfold retire. destruct (pc th') eqn:Ep.
  - simpl in Hw. apply andb_true_iff in Hw as [Hn Hw]. rewrite Hw. split.
    + constructor; simpl.
      * unfold thr_ok. simpl. auto.
      * split; [discriminate|]. intros H. apply Hl in H. destruct (g_inlock th'); discriminate.
      * discriminate.
      * discriminate.
    + unfold acct. simpl. rewrite Hw. lia.
  - split; [|reflexivity]. constructor; auto. unfold thr_ok. rewrite Ep. exact Hw.
Qed.

Lemma ginv_exec c0 s ths i th tc e rest s' th' :
  ginv c0 (s, ths) -> nth_error ths i = Some th ->
  acct tc = acct th -> tinv s i tc -> pc tc = e :: rest ->
  exec i s tc e = Some (s', th') ->
  ginv c0 (s', set_nth i (retire th') ths).
Proof.
  intros [Hc Ht] Hi Ha Htc Hpc He. simpl in Hc, Ht.
  destruct Htc as [Hok Hl Hv Hvl]. unfold thr_ok in Hok. rewrite Hpc in Hok.
  destruct (exec_inv i s tc e rest s' th' Hpc Hok Hl Hv Hvl He)
    as (Hp' & Ham & Htd & Hdn & Hw' & Hl' & Hv' & Hvl' & Hcc & Hoth & Hchg).
  rewrite <- Hp' in Hw'.
  destruct (retire_props s' i th' Hw' Hl' Hv' Hvl') as [Hti Hacc].
  split; simpl.
  - rewrite (sum_acct_set_nth ths i th _ Hi). rewrite Hacc. lia.
  - intros j thj Hj. destruct (Nat.eq_dec i j) as [->|Hne].
    + rewrite (nth_set_nth_eq ths j _ th Hi) in Hj. inversion Hj; subst. exact Hti.
    + rewrite (nth_set_nth_neq ths i j _ Hne) in Hj. destruct (Ht j thj Hj) as [Jok Jl Jv Jvl].
      constructor; auto.
      * rewrite Jl. symmetry. apply Hoth. congruence.
      * intros Hval. rewrite (Jv Hval).
        destruct (Z.eq_dec (completed s') (completed s)) as [->|Hd]; [reflexivity|].
        exfalso. pose proof (Hchg Hd) as Hin. apply Hl in Hin.
        pose proof (proj1 Jl (Jvl Hval)) as Hj2. congruence.
Qed.

Lemma ginv_replace c0 s ths i th tc :
  ginv c0 (s, ths) -> nth_error ths i = Some th -> acct tc = acct th -> tinv s i tc ->
  ginv c0 (s, set_nth i tc ths).
Proof.
  intros [Hc Ht] Hi Ha Htc. simpl in *. split; simpl.
  - rewrite (sum_acct_set_nth ths i th _ Hi). lia.
  - intros j thj Hj. destruct (Nat.eq_dec i j) as [->|Hne].
    + rewrite (nth_set_nth_eq ths j _ th Hi) in Hj. inversion Hj; subst. exact Htc.
    + rewrite (nth_set_nth_neq ths i j _ Hne) in Hj. auto.
Qed.

Lemma retire_id th : pc th <> [] -> retire th = th.
Proof. unfold retire. destruct (pc th); congruence. Qed.
Lemma retire_idle th : pc th = [] -> g_wrote th = false -> retire th = th.
Proof. unfold retire. intros -> ->. reflexivity. Qed.

Lemma evs_nonempty : exists e rest, evs = e :: rest.
Proof. destruct evs as [|e r]; [discriminate Hwf|eauto]. Qed.

Lemma ginv_step c0 st i : ginv c0 st -> ginv c0 (sstep evs st i).
Proof.
  destruct st as [s ths]. intros G. unfold sstep.
  destruct (nth_error ths i) as [th|] eqn:Hi; [|exact G].
  pose proof (proj2 G i th Hi) as Hti. simpl in Hti.
  unfold step1. destruct (pc th) as [|e rest] eqn:Hpc.
  - (* between calls *)
    destruct Hti as [Hok Hl Hv Hvl]. unfold thr_ok in Hok. rewrite Hpc in Hok. destruct Hok as (Hil & Hvf & Hwr).
    destruct (todo th) as [|a rest'] eqn:Htd.
    + rewrite (retire_idle th Hpc Hwr). eapply ginv_replace; eauto. constructor; auto. unfold thr_ok. rewrite Hpc. auto.
    + destruct evs_nonempty as (e & rest & Hev). rewrite Hev.
      set (th0 := mkThread (e :: rest) a rest' (done th) 0 0 None 0 false false false false).
      assert (Ha0 : acct th0 = acct th). { unfold acct. simpl. rewrite Hwr. reflexivity. }
      assert (Ht0 : tinv s i th0).
      { constructor; simpl.
        - unfold thr_ok. simpl. unfold wf_b in Hwf. rewrite Hev in Hwf. exact Hwf.
        - split; [discriminate|]. intros H. apply Hl in H. congruence.
        - discriminate.
        - discriminate. }
      destruct (exec i s th0 e) as [[s' th']|] eqn:He.
      * eapply ginv_exec; eauto. reflexivity.
      * rewrite retire_id by (simpl; discriminate). eapply ginv_replace; eauto.
  - destruct (exec i s th e) as [[s' th']|] eqn:He.
    + eapply ginv_exec; eauto.
    + rewrite retire_id by congruence. eapply ginv_replace; eauto.
Qed.

Lemma ginv_run c0 sched : forall st, ginv c0 st -> ginv c0 (srun evs st sched).
Proof. induction sched; intros st G; simpl; auto. apply IHsched. apply ginv_step. exact G. Qed.

(* ---- what each thread still has to do *)
Definition pinv (progs : list (list Z)) (ths : list thread) : Prop :=
  Forall2 (fun prog th => planned th = sumZ prog) progs ths.

Lemma Forall2_set_nth {A B} (R : A -> B -> Prop) : forall (l : list A) (m : list B) i y y',
  Forall2 R l m -> nth_error m i = Some y -> (forall x, R x y -> R x y') -> Forall2 R l (set_nth i y' m).
Proof.
  intros l m i y y' H. revert i. induction H; intros [|i] Hn Hr; simpl in *; try discriminate.
  - inversion Hn; subst. constructor; auto.
  - constructor; auto.
Qed.

Lemma exec_planned i s th e s' th' : exec i s th e = Some (s', th') ->
  pc th' = tl (pc th) /\ amt th' = amt th /\ todo th' = todo th /\ done th' = done th /\ 
  (g_wrote th = true -> g_wrote th' = true).
Proof.
  destruct e; simpl; intros H;
    repeat match type of H with
           | context [match ?x with _ => _ end] => destruct x
           | context [if ?x then _ else _] => destruct x
           end; inversion H; subst; simpl; auto; discriminate.
Qed.

Lemma planned_exec i s tc e rest s' th' :
  tinv s i tc -> pc tc = e :: rest -> exec i s tc e = Some (s', th') ->
  planned (retire th') = planned tc.
Proof.
  intros [Hok Hl Hv Hvl] Hpc He. unfold thr_ok in Hok. rewrite Hpc in Hok.
  destruct (exec_inv i s tc e rest s' th' Hpc Hok Hl Hv Hvl He)
    as (Hp' & Ham & Htd & Hdn & Hw' & _).
  unfold retire, planned. rewrite Hp', Hpc. destruct rest as [|e2 rest2].
  - simpl in Hw'. apply andb_true_iff in Hw' as [_ Hw']. rewrite Hw'. simpl. rewrite Htd, Hdn, Ham. lia.
  - rewrite Hp'. rewrite Htd, Hdn, Ham. reflexivity.
Qed.

Lemma planned_step s i th : tinv s i th ->
  planned (retire (snd (step1 evs i s th))) = planned th.
Proof.
  intros Hti. unfold step1. destruct (pc th) as [|e rest] eqn:Hpc.
  - pose proof Hti as [Hok Hl Hv Hvl]. unfold thr_ok in Hok. rewrite Hpc in Hok. destruct Hok as (Hil & Hvf & Hwr).
    destruct (todo th) as [|a rest'] eqn:Htd.
    + simpl. rewrite (retire_idle th Hpc Hwr). reflexivity.
    + destruct evs_nonempty as (e & rest & Hev). rewrite Hev.
      set (th0 := mkThread (e :: rest) a rest' (done th) 0 0 None 0 false false false false).
      assert (Hp0 : planned th0 = planned th). { unfold planned. simpl. rewrite Hpc, Htd. simpl. lia. }
      assert (Ht0 : tinv s i th0).
      { constructor; simpl.
        - unfold thr_ok. simpl. unfold wf_b in Hwf. rewrite Hev in Hwf. exact Hwf.
        - split; [discriminate|]. intros H. apply Hl in H. congruence.
        - discriminate.
        - discriminate. }
      destruct (exec i s th0 e) as [[s' th']|] eqn:He; simpl.
      * rewrite (planned_exec i s th0 e rest s' th' Ht0 eq_refl He). exact Hp0.
      * rewrite retire_id by (simpl; discriminate). exact Hp0.
  - destruct (exec i s th e) as [[s' th']|] eqn:He; simpl.
    + apply (planned_exec i s th e rest s' th' Hti Hpc He).
    + rewrite retire_id by congruence. reflexivity.
Qed.

Lemma pinv_step c0 progs st i : ginv c0 st -> pinv progs (snd st) -> pinv progs (snd (sstep evs st i)).
Proof.
  destruct st as [s ths]. intros G P. unfold sstep. simpl in P.
  destruct (nth_error ths i) as [th|] eqn:Hi; [|exact P].
  pose proof (proj2 G i th Hi) as Hti. simpl in Hti.
  pose proof (planned_step s i th Hti) as Hpl.
  destruct (step1 evs i s th) as [s' th'] eqn:Es. simpl in *.
  eapply Forall2_set_nth; eauto. intros prog Hp. simpl in Hp. congruence.
Qed.

Lemma inv_run c0 progs sched : forall st, ginv c0 st -> pinv progs (snd st) ->
  ginv c0 (srun evs st sched) /\ pinv progs (snd (srun evs st sched)).
Proof.
  induction sched; intros st G P; simpl; auto. apply IHsched.
  - apply ginv_step. exact G.
  - eapply pinv_step; eauto.
Qed.

Lemma init_ok c0 tot start per progs :
  ginv c0 (init_state c0 tot start per progs) /\ pinv progs (snd (init_state c0 tot start per progs)).
Proof.
  unfold init_state. simpl. split; [split|]; simpl.
  - assert (H : sum_acct (map fresh_thread progs) = 0).
    { induction progs; simpl; auto. }
    rewrite H. lia.
  - intros j th Hj. apply nth_error_In in Hj. apply in_map_iff in Hj as (prog & <- & _).
    constructor; simpl.
    + unfold thr_ok. simpl. auto.
    + split; discriminate.
    + discriminate.
    + discriminate.
  - unfold pinv. induction progs; simpl; constructor; auto.
Qed.

Lemma done_sum progs ths :
  pinv progs ths -> Forall thr_ok ths -> forallb thread_done ths = true -> sum_acct ths = sumZ (concat progs).
Proof.
  intros P. induction P as [|prog th progs ths Hp P IH]; intros Ht Hd; simpl in *; [reflexivity|].
  apply andb_true_iff in Hd as [Hd1 Hd2]. inversion Ht as [|? ? Hok Ht']; subst.
  unfold thread_done in Hd1. destruct (pc th) eqn:Hpc; [|discriminate]. destruct (todo th) eqn:Htd; [|discriminate].
  unfold thr_ok in Hok. rewrite Hpc in Hok. destruct Hok as (_ & _ & Hwr).
  assert (Hsum : sumZ (prog ++ concat progs) = sumZ prog + sumZ (concat progs)).
  { clear. induction prog; simpl; lia. }
  rewrite Hsum. unfold acct at 1. rewrite Hwr. unfold planned in Hp. rewrite Hpc, Htd in Hp. simpl in Hp.
  rewrite (IH Ht' Hd2). lia.
Qed.

(* no update is lost: whatever the schedule, once every thread has finished its calls *)
Theorem no_lost_update_evs c0 tot start per progs sched :
  let st := srun evs (init_state c0 tot start per progs) sched in
  all_done st = true -> completed (fst st) = c0 + sumZ (concat progs).
Proof.
  intros st Hd. destruct (init_ok c0 tot start per progs) as [G P].
  destruct (inv_run c0 progs sched _ G P) as [G' P']. fold st in G', P'.
  destruct G' as [Hc Ht]. rewrite Hc. f_equal. apply done_sum; auto.
  apply Forall_forall. intros th Hin. apply In_nth_error in Hin as [j Hj]. apply (Ht j th Hj).
Qed.

(* ... and at every moment: completed = initial + the arguments of the calls whose write has happened *)
Theorem completed_at_every_step c0 tot start per progs sched :
  let st := srun evs (init_state c0 tot start per progs) sched in
  completed (fst st) = c0 + sum_acct (snd st).
Proof.
  intros st. destruct (init_ok c0 tot start per progs) as [G P].
  destruct (inv_run c0 progs sched _ G P) as [[Hc _] _]. exact Hc.
Qed.
End NLU.

(* the discipline holds of the event list regenerated from /repo's advance() *)
Lemma advance_events_wf : wf_b advance_events = true.
Proof. vm_compute. reflexivity. Qed.

Theorem no_lost_update : forall c0 tot start per progs sched,
  let st := srun advance_events (init_state c0 tot start per progs) sched in
  all_done st = true ->
  no_lost_update_b c0 (concat progs) (completed (fst st)) = true.
Proof.
  intros c0 tot start per progs sched st Hd. unfold no_lost_update_b.
  pose proof (no_lost_update_evs advance_events advance_events_wf c0 tot start per progs sched Hd) as H.
  fold st in H. rewrite H. apply Z.eqb_refl.
Qed.

(* the other mutators keep every access to shared state inside the lock *)
Lemma mutators_guarded :
  forallb guarded [advance_events; update_events; reset_events; start_task_events; stop_task_events;
                   remove_task_events; add_task_events] = true.
Proof. vm_compute. reflexivity. Qed.

(* non-vacuity: a schedule under which three threads all finish *)
Example no_lost_update_nonvacuous :
  let st := srun advance_events (init_state 5 100 (Some 0) 30 [[1; 2]; [3]; [4]])
                 (concat (repeat [0; 1; 2]%nat 200)) in
  all_done st = true /\ completed (fst st) = 15.
Proof. vm_compute. split; reflexivity. Qed.

(* D14: with the clock read before the lock is taken (rich 9.10.0 as found), two threads that each
   advance once by a positive amount can leave the samples out of time order: negative speed and
   negative time_remaining on a running, unfinished task. *)
Definition d14_sched : list nat := [0%nat] ++ repeat 1%nat 20 ++ repeat 0%nat 19.

Theorem speed_nonneg_concurrent_refuted : exists progs sched,
  Forall (Forall (fun a => 0 <= a)) progs /\
  let st := srun advance_events_asis (init_state 0 100 (Some 0) 30 progs) sched in
  all_done st = true /\
  speed_ok_b (speed (task_of (fst st))) = false /\
  tr_ok_b (time_remaining (task_of (fst st))) = false.
Proof.
  exists [[5]; [7]], d14_sched. split.
  - repeat constructor; lia.
  - vm_compute. repeat split; reflexivity.
Qed.

Lemma asis_wf : wf_b advance_events_asis = true /\ clock_inside_b advance_events_asis = false.
Proof. vm_compute. split; reflexivity. Qed.

(* ------------------------------------------------------------------ repaired code: clock under the lock *)
Lemma clock_read_under_lock :
  clock_inside_b advance_events = true /\ stamp_b advance_events = true /\
  clock_inside_b reset_events = true /\ clock_inside_b update_events = true.
Proof. vm_compute. repeat split; reflexivity. Qed.

From RichProofs Require Import ProgressP.
Open Scope Z_scope.

Fixpoint sortedZ (l : list (Z * Z)) : Prop :=
  match l with
  | [] => True
  | x :: r => Forall (fun y => fst x <= fst y) r /\ sortedZ r
  end.

Lemma exists_bound (l : list (Z * Z)) : exists M, Forall (fun x => fst x <= M) l.
Proof.
  induction l as [|x l [M IH]]; [exists 0; constructor|].
  exists (Z.max M (fst x)). constructor; [lia|]. eapply Forall_impl; [|exact IH]. intros; simpl in *; lia.
Qed.

Lemma in_order_speed (s : shared) :
  sortedZ (samples s) -> Forall (fun x => 0 <= snd x) (samples s) ->
  speed_ok_b (speed (task_of s)) = true.
Proof.
  intros Hs Hd. destruct (exists_bound (samples s)) as [M HM].
  apply good_speed with (now := inject_Z M). unfold good, task_of. simpl.
  generalize dependent (samples s). intros l. induction l as [|[ts d] l IH]; intros Hs Hd HM; simpl.
  - split; constructor.
  - destruct Hs as [H1 H2]. inversion Hd; subst. inversion HM; subst. simpl in *.
    destruct (IH H2 H4 H6) as [I1 I2]. split; [split; auto|].
    + clear - H1. induction H1 as [|[ts' d'] l' Hx H IH']; simpl; constructor; auto.
      simpl in *. unfold qZ. rewrite <- Zle_Qle. exact Hx.
    + constructor; auto. simpl. unfold qZ. split; [rewrite <- Zle_Qle; auto|].
      change 0%Q with (inject_Z 0). rewrite <- Zle_Qle. auto.
Qed.
