(* C05 proofs, part 4: truncate, align, styling-only operations, copy, indexing, join. *)
From RichModel Require Import Prelude Cells TextOps SpecTextOps.
From RichProofs Require Import TextOpsP TextOpsP2 TextOpsP3.
From Coq Require Import ZifyBool Lia.

Arguments zlen : simpl never.
Arguments py_repeat : simpl never.
Arguments strip : simpl never.
Arguments ctl_free : simpl never.
Arguments cell_len : simpl never.
Arguments set_cell_size : simpl never.

Lemma sp_ok : pad_char_ok SP = true. Proof. reflexivity. Qed.

Lemma abs_pad_direct t q : Consistent t -> ctl_free q = true ->
  let t' := mkText (plain t ++ q) (zlen (plain t ++ q)) (spans t) (tmeta t) in
  abs t' = mkRef (rchars (abs t) ++ bare q) (tmeta t) /\ Consistent t'.
Proof.
  intros H Hq. destruct (cons_parts t H) as (H1 & H2 & H3). simpl. split.
  - unfold abs, abs_chars. simpl. f_equal. rewrite abs_from_app. f_equal. simpl.
    apply (bare_abs _ _ _ (zlen (plain t))); [exact H3|lia].
  - apply mk_consistent; [reflexivity|rewrite ctl_free_app, H2, Hq; reflexivity|].
    rewrite zlen_app. eapply within_mono; [exact H3|]. pose proof (zlen_nonneg q). lia.
Qed.

Lemma sim_truncate t w ov padb : Consistent t ->
  abs (truncate FIXED t w ov padb) = r_truncate (abs t) w ov padb /\ Consistent (truncate FIXED t w ov padb).
Proof.
  intros H. unfold truncate, r_truncate.
  change (rmeta (abs t)) with (tmeta t). change (rchars (abs t)) with (abs_from 0 (plain t) (spans t)).
  rewrite rplain_abs_from.
  set (eff := if negb (ov =? 0) then ov else if negb (overflow (tmeta t) =? 0) then overflow (tmeta t) else 1).
  destruct (eff =? 4); [auto|].
  set (t1 := if w <? cell_len (plain t) then
               if eff =? 3 then set_plain FIXED t (set_cell_size (plain t) (w - 1) ++ [ELLIPSIS])
               else set_plain FIXED t (set_cell_size (plain t) w)
             else t).
  set (r1 := if w <? cell_len (plain t) then
               r_set_plain (abs t) (if eff =? 3 then set_cell_size (plain t) (w - 1) ++ [ELLIPSIS]
                                    else set_cell_size (plain t) w)
             else abs t).
  assert (abs t1 = r1 /\ Consistent t1) as [A1 C1].
  { unfold t1, r1. destruct (w <? cell_len (plain t)); [|auto]. destruct (eff =? 3); now apply sim_set_plain. }
  destruct (padb && (cell_len (plain t) <? w)); [|auto].
  destruct (abs_pad_direct t1 (py_repeat SP (w - cell_len (plain t))) C1 (ctl_free_repeat _ _ sp_ok)) as [P1 P2].
  split; [|exact P2]. rewrite P1. unfold r_pad_right. rewrite <- A1. reflexivity.
Qed.

Lemma sim_align t how w c : Consistent t -> pad_char_ok c = true ->
  abs (align FIXED t how w c) = r_align (abs t) how w c /\ Consistent (align FIXED t how w c).
Proof.
  intros H Hc. unfold align, r_align. destruct (sim_truncate t w 0 false H) as [A1 C1].
  set (t1 := truncate FIXED t w 0 false) in *. rewrite <- A1.
  change (rchars (abs t1)) with (abs_from 0 (plain t1) (spans t1)). rewrite rplain_abs_from.
  set (excess := w - cell_len (plain t1)).
  destruct (excess =? 0) eqn:E0.
  - assert (excess = 0) as Z0 by lia. rewrite Z0. change (0 / 2) with 0. change (0 - 0) with 0.
    assert (forall t2, Consistent t2 -> r_pad_right (abs t2) 0 c = abs t2) as PR.
    { intros t2 H2. destruct (sim_pad_right t2 0 c H2 Hc) as [S _]. rewrite <- S. reflexivity. }
    assert (forall t2, Consistent t2 -> r_pad_left (abs t2) 0 c = abs t2) as PL.
    { intros t2 H2. destruct (sim_pad_left t2 0 c H2 Hc) as [S _]. rewrite <- S. reflexivity. }
    split; [|exact C1]. destruct (how =? 0); [now rewrite PR|]. destruct (how =? 1); [|now rewrite PL].
    rewrite PL by exact C1. now rewrite PR.
  - destruct (how =? 0); [now apply sim_pad_right|]. destruct (how =? 1); [|now apply sim_pad_left].
    destruct (sim_pad_left t1 (excess / 2) c C1 Hc) as [A2 C2]. rewrite <- A2. now apply sim_pad_right.
Qed.

(* ---------- styling only ---------- *)
Lemma sim_add_spans t new : Consistent t -> Within (len t) new ->
  abs (with_spans t (spans t ++ new)) = r_add_spans (abs t) new /\ Consistent (with_spans t (spans t ++ new)).
Proof.
  intros H Hn. destruct (cons_parts t H) as (H1 & H2 & H3). unfold with_spans. split.
  - unfold r_add_spans, abs, abs_chars. simpl. now rewrite r_add_from_abs.
  - apply mk_consistent; [exact H1|exact H2|]. apply within_app. split; [exact H3|rewrite <- H1; exact Hn].
Qed.

Lemma sim_stylize t st a b : Consistent t ->
  sim (stylize FIXED t st a b) (Ok (r_stylize (abs t) st a b)).
Proof.
  intros H. destruct (cons_parts t H) as (H1 & H2 & H3). unfold stylize, r_stylize.
  rewrite (pylen_ok t H). simpl bind. change (fx_stylize FIXED) with true. cbv beta iota zeta.
  change (rchars (abs t)) with (abs_from 0 (plain t) (spans t)). rewrite zlen_abs_from, <- H1.
  set (start := if a <? 0 then Z.max 0 (len t + a) else a).
  set (e := match b with Some e0 => if e0 <? 0 then len t + e0 else e0 | None => len t end).
  pose proof (zlen_nonneg (plain t)).
  assert (0 <= start) as Hs0 by (unfold start; destruct (a <? 0) eqn:?; lia).
  clearbody start e.
  destruct ((len t <=? start) || (e <=? start)) eqn:G; simpl.
  - split; [|exact H]. unfold r_add_spans, abs, abs_chars. simpl. f_equal. rewrite r_add_from_abs.
    apply abs_from_ext. intros j Hj. rewrite cover_app, cover_cons. unfold covers, sp_start, sp_end. simpl.
    replace ((start <=? j) && (j <? e)) with false by lia. simpl. now rewrite app_nil_r.
  - assert (abs (with_spans t (spans t ++ [(start, Z.min (len t) e, st)])) = r_add_spans (abs t) [(start, e, st)]) as E.
    { unfold with_spans, r_add_spans, abs, abs_chars. simpl. f_equal. rewrite r_add_from_abs.
      apply abs_from_ext. intros j Hj. rewrite !cover_app, !cover_cons. unfold covers, sp_start, sp_end. simpl.
      replace ((start <=? j) && (j <? Z.min (len t) e)) with ((start <=? j) && (j <? e)) by lia. reflexivity. }
    split; [exact E|]. apply sim_add_spans; [exact H|]. constructor; [|constructor].
    unfold sp_start, sp_end. simpl. lia.
Qed.

Lemma sim_copy_styles t o : Consistent t -> Consistent o -> zlen (plain o) = zlen (plain t) ->
  abs (copy_styles t o) = r_copy_styles (abs t) (abs o) /\ Consistent (copy_styles t o).
Proof.
  intros H Ho Hl. destruct (cons_parts t H) as (H1 & H2 & H3). destruct (cons_parts o Ho) as (O1 & O2 & O3).
  unfold copy_styles. split.
  - unfold r_copy_styles, with_spans, abs, abs_chars. simpl. f_equal. now rewrite r_zip_abs.
  - apply sim_add_spans; [exact H|]. rewrite H1, <- Hl. exact O3.
Qed.

Lemma is_prefix_len w s : is_prefix w s = true -> zlen w <= zlen s.
Proof.
  revert s. induction w as [|x w IH]; intros s Hp; [rewrite zlen_nil; apply zlen_nonneg|].
  destruct s as [|y s]; simpl in Hp; [discriminate|]. apply andb_prop in Hp. destruct Hp as [_ Hp].
  rewrite !zlen_cons. specialize (IH s Hp). lia.
Qed.
Lemma first_word_len ws s n : first_word ws s = Some n -> 0 <= n <= zlen s.
Proof.
  induction ws as [|w ws IH]; simpl; [discriminate|]. destruct (is_prefix w s) eqn:E; [|exact IH].
  intros X. inversion X. subst. split; [apply zlen_nonneg|now apply is_prefix_len].
Qed.
Definition Between (lo hi : Z) (sps : list span) : Prop :=
  Forall (fun sp => lo <= sp_start sp /\ sp_start sp <= sp_end sp /\ sp_end sp <= hi) sps.
Lemma between_mono lo hi lo' hi' sps : Between lo hi sps -> lo' <= lo -> hi <= hi' -> Between lo' hi' sps.
Proof. unfold Between. intros H A B. eapply Forall_impl; [|exact H]. simpl. intros; lia. Qed.

Lemma words_from_between ws st s : forall pos skip, Between pos (pos + zlen s) (words_from ws s pos skip st).
Proof.
  induction s as [|c s IH]; intros pos skip; simpl; [constructor|].
  rewrite zlen_cons. pose proof (zlen_nonneg s).
  destruct skip as [|k].
  - destruct (first_word ws (c :: s)) as [n|] eqn:F.
    + apply first_word_len in F. rewrite zlen_cons in F. constructor.
      * unfold sp_start, sp_end. simpl. lia.
      * eapply between_mono; [apply IH|lia|lia].
    + eapply between_mono; [apply IH|lia|lia].
  - eapply between_mono; [apply IH|lia|lia].
Qed.

Lemma runs_from_between set st s : forall pos open lo,
  lo <= pos -> match open with Some a => lo <= a <= pos | None => True end ->
  Between lo (pos + zlen s) (runs_from set s pos open st).
Proof.
  induction s as [|c s IH]; intros pos open lo Hlo Ho; simpl.
  - rewrite zlen_nil. destruct open as [a|]; constructor; [|constructor]. unfold sp_start, sp_end. simpl. lia.
  - rewrite zlen_cons. pose proof (zlen_nonneg s).
    destruct (existsb (Z.eqb c) set).
    + eapply between_mono; [apply (IH (pos + 1) _ lo)|lia|lia]; [lia|]. destruct open; lia.
    + destruct open as [a|].
      * constructor; [unfold sp_start, sp_end; simpl; lia|].
        eapply between_mono; [apply (IH (pos + 1) None lo)|lia|lia]; [lia|exact Logic.I].
      * eapply between_mono; [apply (IH (pos + 1) None lo)|lia|lia]; [lia|exact Logic.I].
Qed.

Lemma sim_highlight_words t ws st : Consistent t ->
  abs (highlight_words t ws st) = r_add_spans (abs t) (words_from ws (rplain (rchars (abs t))) 0 0 st)
  /\ Consistent (highlight_words t ws st).
Proof.
  intros H. destruct (cons_parts t H) as (H1 & _). unfold highlight_words.
  change (rchars (abs t)) with (abs_from 0 (plain t) (spans t)). rewrite rplain_abs_from.
  apply sim_add_spans; [exact H|]. rewrite H1. exact (words_from_between ws st (plain t) 0 0%nat).
Qed.
Lemma sim_highlight_runs t set st : Consistent t ->
  abs (highlight_runs t set st) = r_add_spans (abs t) (runs_from set (rplain (rchars (abs t))) 0 None st)
  /\ Consistent (highlight_runs t set st).
Proof.
  intros H. destruct (cons_parts t H) as (H1 & _). unfold highlight_runs.
  change (rchars (abs t)) with (abs_from 0 (plain t) (spans t)). rewrite rplain_abs_from.
  apply sim_add_spans; [exact H|]. rewrite H1. apply (runs_from_between set st (plain t) 0 None 0); [lia|exact Logic.I].
Qed.

(* ---------- copy / blank_copy ---------- *)
Lemma sim_copy t : Consistent t -> abs (copy FIXED t) = abs t /\ Consistent (copy FIXED t).
Proof.
  intros H. destruct (cons_parts t H) as (H1 & H2 & H3). unfold copy, with_spans. rewrite ctor_fixed.
  rewrite (strip_ctl_free _ H2). simpl. split; [reflexivity|]. now apply mk_consistent.
Qed.
Lemma sim_blank_copy t : abs (blank_copy FIXED t) = mkRef [] (tmeta t) /\ Consistent (blank_copy FIXED t).
Proof.
  unfold blank_copy. rewrite ctor_fixed, strip_nil. split; [reflexivity|].
  apply mk_consistent; [reflexivity|reflexivity|constructor].
Qed.

(* ---------- __getitem__(int) ---------- *)
Lemma nth_error_abs p sps : forall i k,
  nth_error (abs_from i p sps) k = option_map (fun c => (c, cover sps (i + Z.of_nat k))) (nth_error p k).
Proof.
  induction p as [|c p IH]; intros i [|k]; simpl; try reflexivity.
  - now rewrite Z.add_0_r.
  - rewrite IH. destruct (nth_error p k); simpl; [|reflexivity]. do 3 f_equal. lia.
Qed.

Lemma cover_index sps off :
  cover (map (fun sp => (0, 1, sp_style sp))
             (filter (fun sp => (off <? sp_end sp) && (sp_start sp <=? off)) sps)) 0 = cover sps off.
Proof.
  induction sps as [|sp sps IH]; [reflexivity|]. simpl filter. rewrite (cover_cons sp).
  unfold covers. rewrite (andb_comm (sp_start sp <=? off)).
  destruct ((off <? sp_end sp) && (sp_start sp <=? off)); [|exact IH].
  simpl map. rewrite cover_cons, IH. unfold covers, sp_start, sp_end, sp_style. simpl. reflexivity.
Qed.

Lemma nth_ctl_free p k c : ctl_free p = true -> nth_error p k = Some c -> is_ctl c = false.
Proof.
  unfold ctl_free. intros H Hn. apply nth_error_In in Hn. rewrite forallb_forall in H.
  specialize (H c Hn). now destruct (is_ctl c).
Qed.

Lemma sim_index t i : Consistent t -> sim (getitem_int FIXED t i) (r_index (abs t) i).
Proof.
  intros H. destruct (cons_parts t H) as (H1 & H2 & H3). unfold getitem_int, r_index.
  change (rchars (abs t)) with (abs_from 0 (plain t) (spans t)). change (rmeta (abs t)) with (tmeta t).
  unfold py_nth. rewrite zlen_abs_from. rewrite !nth_error_abs.
  change (fx_index FIXED) with true. cbv beta iota zeta. simpl andb.
  assert (forall k c, nth_error (plain t) k = Some c ->
     sim (Ok (ctor FIXED [c] (mkMeta (base (tmeta t)) 0 0 0 [] (Some 8))
                (map (fun sp => (0, 1, sp_style sp))
                     (filter (fun sp => (Z.of_nat k <? sp_end sp) && (sp_start sp <=? Z.of_nat k)) (spans t)))))
         (Ok (mkRef [(c, cover (spans t) (0 + Z.of_nat k))] (mkMeta (base (tmeta t)) 0 0 0 [] (Some 8))))) as K.
  { intros k c Hk. pose proof (nth_ctl_free _ _ _ H2 Hk) as Hc. rewrite ctor_fixed.
    assert (strip [c] = [c]) as Hs. { apply strip_ctl_free. unfold ctl_free. simpl. now rewrite Hc. }
    rewrite Hs. simpl. split.
    - unfold abs, abs_chars. simpl. now rewrite cover_index.
    - apply mk_consistent; [reflexivity|unfold ctl_free; simpl; now rewrite Hc|].
      unfold Within. rewrite Forall_map, Forall_forall. intros sp _. unfold sp_start, sp_end. simpl.
      change (zlen [c]) with 1. lia. }
  pose proof (zlen_nonneg (plain t)).
  destruct (0 <=? i) eqn:E0.
  - destruct (nth_error (plain t) (Z.to_nat i)) as [c|] eqn:En; simpl; [|reflexivity].
    replace (i <? 0) with false by lia. specialize (K _ _ En). rewrite Z2Nat.id in K by lia. rewrite Z2Nat.id by lia. exact K.
  - destruct (- zlen (plain t) <=? i) eqn:E1; [|reflexivity].
    destruct (nth_error (plain t) (Z.to_nat (zlen (plain t) + i))) as [c|] eqn:En; simpl; [|reflexivity].
    replace (i <? 0) with true by lia. specialize (K _ _ En). rewrite Z2Nat.id in K by lia.
    rewrite Z2Nat.id by lia. replace (i + zlen (plain t)) with (zlen (plain t) + i) by lia. exact K.
Qed.

(* ---------- rich/highlighter.py: Highlighter.__call__ ---------- *)
Lemma sim_regex_highlight pats : forall t, Consistent t ->
  abs (regex_highlight t pats) = r_regex_highlight (abs t) pats /\ Consistent (regex_highlight t pats).
Proof.
  unfold regex_highlight, r_regex_highlight. induction pats as [|[set st] pats IH]; intros t H; [split; auto|].
  cbn [fold_left fst snd]. destruct (sim_highlight_runs t set st H) as [A C]. rewrite <- A. apply IH. exact C.
Qed.

Lemma regex_highlight_frame pats : forall t,
  plain (regex_highlight t pats) = plain t /\ len (regex_highlight t pats) = len t /\
  tmeta (regex_highlight t pats) = tmeta t /\ exists extra, spans (regex_highlight t pats) = spans t ++ extra.
Proof.
  unfold regex_highlight. induction pats as [|[set st] pats IH]; intros t.
  - simpl. repeat split; auto. exists []. now rewrite app_nil_r.
  - cbn [fold_left fst snd]. destruct (IH (highlight_runs t set st)) as (I1 & I2 & I3 & [extra I4]).
    rewrite I1, I2, I3, I4. unfold highlight_runs, with_spans. simpl.
    repeat split; auto. eexists. now rewrite <- app_assoc.
Qed.

Lemma ctor_consistent s m : Consistent (ctor FIXED s m []) /\ abs (ctor FIXED s m []) = r_ctor s m.
Proof.
  rewrite ctor_fixed. split.
  - apply mk_consistent; [reflexivity|apply ctl_free_strip|constructor].
  - unfold abs, abs_chars, r_ctor. simpl. now rewrite abs_nil_spans.
Qed.

Lemma sim_highlighter pats a t : Consistent t ->
  sim (highlighter_call FIXED pats a t) (r_highlighter pats a (abs t)).
Proof.
  intros H. destruct a as [|s|]; simpl.
  - destruct (sim_copy t H) as [A C]. rewrite <- A. now apply sim_regex_highlight.
  - destruct (ctor_consistent s (default_meta 0)) as [C A]. rewrite <- A. now apply sim_regex_highlight.
  - reflexivity.
Qed.

(* any highlighter at all: the matcher is an oracle (a regex engine, a user's highlight()) about which only
   "its spans lie inside the text it was given" is assumed *)
Section HighlighterOracle.
  Variable matcher : str -> list span.
  Hypothesis matcher_within : forall p, Within (zlen p) (matcher p).

  Definition hl_oracle (t : text) : text :=
    let c := copy FIXED t in with_spans c (spans c ++ matcher (plain c)).

  Theorem hl_oracle_spec t : Consistent t ->
    abs (hl_oracle t) = r_add_spans (abs t) (matcher (plain t)) /\ Consistent (hl_oracle t) /\
    plain (hl_oracle t) = plain t /\ len (hl_oracle t) = len t /\ tmeta (hl_oracle t) = tmeta t /\
    spans (hl_oracle t) = spans t ++ matcher (plain t).
  Proof.
    intros H. destruct (cons_parts t H) as (H1 & H2 & H3). destruct (sim_copy t H) as [A C].
    assert (copy FIXED t = mkText (plain t) (zlen (plain t)) (spans t) (tmeta t)) as E.
    { unfold copy, with_spans. rewrite ctor_fixed, (strip_ctl_free _ H2). reflexivity. }
    unfold hl_oracle. rewrite E. cbv zeta.
    set (c := mkText (plain t) (zlen (plain t)) (spans t) (tmeta t)).
    change (spans c) with (spans t). change (plain c) with (plain t).
    assert (Consistent c) as Cc by (unfold c; rewrite <- E; exact C).
    destruct (sim_add_spans c (matcher (plain t))) as [S1 S2]; [exact Cc|unfold c; simpl; apply matcher_within|].
    change (spans c) with (spans t) in S1, S2.
    split; [rewrite S1; f_equal; unfold c; rewrite <- E; exact A|]. split; [exact S2|].
    unfold with_spans, c. simpl. repeat split; auto.
  Qed.
End HighlighterOracle.
