(* C01: a table of arbitrary cells fits the width it is given as soon as there is one cell per column:
   the lines of Table._render are extra + sum widths cells wide (C07), and the solved widths sum to at
   most the budget (LayoutP2.calc_widths_fits).  Cells are cropped by render_lines, so nothing is asked
   of them beyond a normalised measurement -- which Measurement.get guarantees for every renderable. *)
From RichModel Require Import Prelude Cells Segments Ratio Frames Layout SpecLayout.
From RichModel Require Table Wrap SpecTable.
From RichGen Require BoxChars.
From RichProofs Require Import CellsP SegmentsP RatioP TableP LayoutP LayoutP2 LayoutP8 LayoutP9 LayoutP10 LayoutP3 LayoutP4 LayoutP5.
From Coq Require Import ZifyBool.

Definition tbl_ok (t : tblspec) : bool :=
  let o := tb_o t in
  nonneg4 (Table.o_pad o)
  && match Table.o_width o with None => true | Some _ => false end
  && match tb_cols t with [] => false | _ => true end
  && Bool.eqb (Table.o_box o) (match tb_boxc t with Some _ => true | None => false end)
  && forallb col_ok (tb_cols t).

Lemma mget_cell_fun_ok (c : child) : cell_fun_ok (fun w => mget c w).
Proof. intros w. pose proof (mget_nonneg c w). pose proof (mget_le c w). lia. Qed.

Lemma table_cols_length cf t rows : length (table_cols cf t rows) = length (tb_cols t).
Proof. unfold table_cols. rewrite map_length. apply indexed_length. Qed.

Lemma table_tcols_length cf t rows : length (table_tcols t (table_cols cf t rows)) = length (tb_cols t).
Proof. unfold table_tcols. rewrite map_length, combine_length, table_cols_length. lia. Qed.

Lemma table_tcols_free cf t rows : forallb col_ok (tb_cols t) = true ->
  Forall col_free (table_tcols t (table_cols cf t rows)).
Proof.
  intros H. unfold table_tcols. rewrite Forall_forall. intros x Hx.
  apply in_map_iff in Hx as [[c chs] [<- Hin]]. apply in_combine_l in Hin.
  rewrite forallb_forall in H. specialize (H c Hin). unfold col_ok in H.
  destruct (cs_width c) eqn:E1; [rewrite !andb_false_r in H; cbn in H; try discriminate; rewrite ?andb_false_r in H; discriminate|].
  destruct (cs_minw c) eqn:E2; [rewrite !andb_false_r in H; cbn in H; try discriminate; rewrite ?andb_false_r in H; discriminate|].
  destruct (cs_nowrap c) eqn:E3; [cbn in H; discriminate|].
  unfold col_free. cbn [Table.c_width Table.c_minw Table.c_nowrap Table.c_maxw Table.c_ratio Table.c_cells].
  repeat split; try assumption.
  - destruct (cs_maxw c); [|exact Logic.I]. lia.
  - destruct (cs_ratio c); [|exact Logic.I]. lia.
  - rewrite Forall_forall. intros f Hf. apply in_map_iff in Hf as [ch [<- _]]. apply mget_cell_fun_ok.
Qed.

Lemma transpose_rows_cells k cols flags : forall idx,
  Forall (fun r => length (Table.r_cells r) = length cols) (transpose_rows k cols flags idx).
Proof. induction k as [|k IH]; intros idx; cbn [transpose_rows]; constructor; [cbn; apply map_length|apply IH]. Qed.

Lemma annotation_fits s ro tw W : tw <= W -> ro_overflow ro <> Some Wrap.OV_IGNORE ->
  sfits W (annotation s ro tw) /\ nlterm (annotation s ro tw).
Proof.
  intros Hle Hov. unfold annotation. destruct s as [|c s]; [split; [apply sfits_nil|left; reflexivity]|].
  destruct (tw <? 1) eqn:E; [split; [apply sfits_nil|left; reflexivity]|].
  split; [|apply text_stream_nlterm].
  eapply sfits_mono; [exact Hle|]. apply text_stream_fits; [lia|].
  cbn [ro_overflow or_else]. destruct (ro_overflow ro) as [x|]; [intros ->; apply Hov; reflexivity|discriminate].
Qed.

(* at ANY width W: the table is at most max(W, borders + one cell per column) cells wide *)
Theorem table_stream_fits cf t rows ro W :
  tbl_ok t = true -> ro_overflow ro <> Some Wrap.OV_IGNORE ->
  let B := Z.max W (Table.extra_width (tb_o t) (length (tb_cols t)) + zlen (tb_cols t)) in
  sfits B (table_stream t (table_cols cf t rows) ro W) /\ nlterm (table_stream t (table_cols cf t rows) ro W).
Proof.
  intros Hok Hov B. unfold tbl_ok in Hok.
  repeat (apply andb_true_iff in Hok as [Hok ?]).
  rename H into Hcols, H0 into Hbox, H1 into Hne, H2 into Hwidth. rename Hok into Hpad.
  set (cells := table_cols cf t rows). unfold table_stream. fold cells.
  set (cols := table_tcols t cells).
  assert (Hlen : length cols = length (tb_cols t)) by apply table_tcols_length.
  destruct (Table.table_widths_x FLEXMIN false false (tb_o t) cols W) as [ws|e|k] eqn:Ew;
    [|split; [apply sfits_nil|left; reflexivity]|split; [apply sfits_nil|left; reflexivity]].
  unfold Table.table_widths_x, Table.target_width in Ew.
  destruct (Table.o_width (tb_o t)) eqn:Eow; [discriminate|].
  assert (Hcne : cols <> []).
  { intros Hc. rewrite Hc in Hlen. destruct (tb_cols t); [discriminate|discriminate]. }
  assert (Hp : pad_ok (tb_o t)).
  { unfold pad_ok. unfold nonneg4 in Hpad. destruct (Table.o_pad (tb_o t)) as [[[a b] c] d]. lia. }
  destruct (calc_widths_x_bound FLEXMIN (tb_o t) cols (W - Table.extra_width (tb_o t) (length cols)) ws Hcne
              (table_tcols_free cf t rows Hcols) Hp Ew) as [L1 [L2 L3]].
  assert (Hbx : box_agrees (tb_o t) (tb_boxc t)).
  { split.
    - apply Bool.eqb_prop in Hbox. exact Hbox.
    - destruct (tb_boxc t) as [bx|] eqn:Eb; [|exact Logic.I]. unfold tb_boxc in Eb.
      destruct (tb_box t); [|discriminate]. eapply nth_box_w1; exact Eb. }
  assert (Hwne : ws <> []) by (intros ->; destruct cols; [congruence|discriminate]).
  assert (Hw0 : Forall (fun w => 0 <= w) ws) by (eapply Forall_impl; [|exact L2]; cbn; lia).
  assert (Hrows : Forall (fun r => length (Table.r_cells r) = length ws) (table_rows t cells)).
  { unfold table_rows. eapply Forall_impl; [|apply transpose_rows_cells]. cbn. intros r Hr. rewrite Hr, L1.
    unfold cells. rewrite table_cols_length. lia. }
  destruct (table_rows_equal_width (tb_o t) (tb_boxc t) ws (table_rows t cells) Hbx Hwne Hw0 Hrows) as [ls [R1 [R2 _]]].
  rewrite R1.
  set (tw := sumZ ws + Table.extra_width (tb_o t) (length cols)).
  assert (Htw : tw <= B) by (unfold tw, B, zlen in *; rewrite Hlen in *; lia).
  destruct (annotation_fits (tb_title t) ro tw B Htw Hov) as [A1 A2].
  destruct (annotation_fits (tb_caption t) ro tw B Htw Hov) as [C1 C2].
  assert (Hls : Forall (fun l => line_len l <= B) ls).
  { unfold SpecTable.expand_exact_b in R2. rewrite forallb_forall in R2. rewrite Forall_forall. intros l Hl.
    specialize (R2 (Table.line_text l) (in_map _ _ _ Hl)). rewrite TableP.cell_len_line_text in R2.
    rewrite L1 in R2. unfold tw in Htw. lia. }
  split.
  - apply sfits_app; [exact A2|exact A1|]. apply sfits_app; [apply nlterm_stream_of|apply sfits_stream_of; exact Hls|exact C1].
  - apply nlterm_app; [exact A2|]. apply nlterm_app; [apply nlterm_stream_of|exact C2].
Qed.
