(* C19 round trip, part 5: a whole line of runs; decode_line. *)
From RichModel Require Import Prelude Color Style AnsiDecode FileProxy SpecDecode.
From RichProofs Require Import AnsiDecodeP FileProxyP AnsiDecodeP2 AnsiDecodeP3 AnsiDecodeP4 AnsiDecodeP5.

Lemma vchars_app a b : vchars (a ++ b) = vchars a ++ vchars b.
Proof. unfold vchars. apply flat_map_app. Qed.

Theorem line_vd lid : lid_ok lid -> forall runs e, Forall run_ok runs -> encode_line lid runs = Ok e ->
  forall st acc rest, clean st None -> ok_text acc ->
  exists st' acc' X, clean st' None /\ ok_text acc'
    /\ vdt (e ++ rest) acc st = pre X (vdt rest acc' st')
    /\ X ++ none_chars acc' = none_chars acc ++ vchars runs.
Proof.
  intros HL runs. induction runs as [|r rs IH]; intros e HF He st acc rest Hc Ha.
  - cbn in He. inversion He. subst e. exists st, acc, []. split; [exact Hc|]. split; [exact Ha|]. split.
    + rewrite pre_nil. reflexivity.
    + cbn [vchars flat_map app]. rewrite app_nil_r. reflexivity.
  - inversion HF as [|? ? Hr HF']. subst. cbn [encode_line] in He.
    destruct (encode_run lid r) as [a| |] eqn:Ea; try discriminate. cbn [bind] in He.
    destruct (encode_line lid rs) as [b| |] eqn:Eb; try discriminate. cbn [bind] in He. inversion He. subst e.
    destruct (run_vd lid r a HL Hr Ea st acc (b ++ rest) Hc Ha) as [st1 [acc1 [X1 [C1 [A1 [E1 F1]]]]]].
    destruct (IH b HF' eq_refl st1 acc1 rest C1 A1) as [st2 [acc2 [X2 [C2 [A2 [E2 F2]]]]]].
    exists st2, acc2, (X1 ++ X2). split; [exact C2|]. split; [exact A2|]. split.
    + rewrite <- app_assoc, E1, E2, pre_pre. reflexivity.
    + rewrite <- app_assoc, F2, app_assoc, F1, <- app_assoc.
      change (r :: rs) with ([r] ++ rs). rewrite vchars_app. reflexivity.
Qed.

Lemma after_last_cr_id s : lacks 13 s -> after_last_cr s = s.
Proof.
  unfold after_last_cr. intros H.
  assert (G : forall acc, fold_left (fun acc c => if c =? 13 then [] else c :: acc) s acc = rev s ++ acc).
  { induction s as [|c s IH]; intros acc; [reflexivity|]. apply lacks_cons in H. destruct H as [H1 H2].
    cbn [fold_left]. rewrite H1, (IH H2). cbn [rev]. rewrite <- app_assoc. reflexivity. }
  rewrite G, app_nil_r, rev_involutive. reflexivity.
Qed.

(* decode_line o (truecolor rendering of a line of runs), from any clean decoder state: the same
   characters, each showing what its run's style shows; the decoder is left clean (no style and no
   link leak onto what follows) *)
Theorem decode_encode_line lid runs e st :
  lid_ok lid -> Forall run_ok runs -> encode_line lid runs = Ok e -> lacks 13 e -> clean st None ->
  exists st' ps, decode_line true st e = (st', Ok ps) /\ vchars ps = vchars runs /\ clean st' None.
Proof.
  intros HL HF He H13 Hc.
  destruct (line_vd lid HL runs e HF He st [] [] Hc eq_refl) as [st' [acc' [X [C' [A' [E F]]]]]].
  rewrite app_nil_r in E. rewrite (vdt_nil acc' st' A') in E. unfold pre in E. cbn [fst snd] in E.
  rewrite (flush_clean st' None acc' C') in E. change (mkVis 0 None None None) with vis_none in E.
  fold (none_chars acc') in E. rewrite F in E. cbn [none_chars rev map app] in E.
  unfold decode_line. rewrite (after_last_cr_id e H13). unfold vdt, vd, tok in E. fold (tokenize e) in E.
  destruct (decode_tokens true (tokenize e) st) as [s2 [ps| |]]; unfold vres in E; cbn [fst snd] in E; inversion E.
  subst. exists st', ps. split; [reflexivity|]. split; [|exact C']. congruence.
Qed.
