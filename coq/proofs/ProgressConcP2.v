(* C12, concurrent part, continued: for every event list that reads the clock and stamps its samples
   inside the critical section (clock_inside_b, stamp_b -- true of the repaired advance()), under
   EVERY schedule the samples are in clock order with non-negative deltas; hence speed >= 0 at every
   step, and time_remaining >= 0 at quiescent points once a call has returned.  Also: the finish
   time latches under every schedule. *)
From RichModel Require Import Prelude Progress SpecProgress.
From RichGen Require Import ProgressLock.
From RichProofs Require Import ProgressP ProgressConcP.
From Coq Require Import ZifyBool Lia QArith Lqa.
Import Conc.
Open Scope Z_scope.

Definition sinvp (smp : list (Z * Z)) (clk : Z) : Prop :=
  sortedZ smp /\ Forall (fun x => fst x < clk /\ 0 <= snd x) smp.
Definition tvp (smp : list (Z * Z)) (clk : Z) (th : thread) : Prop :=
  g_tvalid th = true -> g_inlock th = true /\ r_time th < clk /\ Forall (fun x => fst x <= r_time th) smp.
Definition csp (c : Z) (th : thread) : Prop := forall x, r_cs th = Some x -> x <= c.

Lemma sortedZ_skipn n : forall l, sortedZ l -> sortedZ (skipn n l).
Proof. induction n; intros l H; simpl; auto. destruct l; auto. destruct H. auto. Qed.
Lemma drop_oldZ_suffix cut l : exists n, drop_oldZ cut l = skipn n l.
Proof.
  induction l as [|[ts d] l [n IH]]; simpl.
  - exists 0%nat. reflexivity.
  - destruct (ts <? cut); [exists (S n); exact IH|exists 0%nat; reflexivity].
Qed.
Lemma sortedZ_snoc l x : sortedZ l -> Forall (fun y => fst y <= fst x) l -> sortedZ (l ++ [x]).
Proof.
  induction l as [|y l IH]; simpl; intros Hs Hf.
  - split; auto.
  - destruct Hs as [H1 H2]. inversion Hf; subst. split; auto. apply Forall_app. split; auto.
Qed.
Lemma sinvp_mono smp clk clk' : sinvp smp clk -> clk <= clk' -> sinvp smp clk'.
Proof.
  intros [H1 H2] Hle. split; auto. eapply Forall_impl; [|exact H2]. intros x [Ha Hb]. split; lia.
Qed.
Lemma sinvp_skipn n smp clk : sinvp smp clk -> sinvp (skipn n smp) clk.
Proof. intros [H1 H2]. split; [apply sortedZ_skipn; auto|apply Forall_skipn; auto]. Qed.
Lemma tvp_mono smp clk clk' th : tvp smp clk th -> clk <= clk' -> tvp smp clk' th.
Proof. intros H Hle Hv. destruct (H Hv) as (A & B & C). splits; auto. lia. Qed.
Lemma tvp_skipn n smp clk th : tvp smp clk th -> tvp (skipn n smp) clk th.
Proof. intros H Hv. destruct (H Hv) as (A & B & C). splits; auto. apply Forall_skipn; auto. Qed.

Ltac inv_exec He s' th' := let A := fresh in let B := fresh in injection He as A B; subst s' th'.
Ltac kfin Hcs :=
  try lia;
  try (let H := fresh in intros H; exfalso; apply H; reflexivity);
  try (let H := fresh in intros H; discriminate);
  try (let x := fresh in let Hx := fresh in intros x Hx; simpl in Hx; specialize (Hcs x Hx); lia).

(* what one event does to the sample window, the clock and the thread's registers *)
Lemma exec_K i s tc e rest s' th' :
  pc tc = e :: rest ->
  wf_from (g_inlock tc) (g_valid tc) (g_wrote tc) (e :: rest) = true ->
  (g_valid tc = true -> r_c tc = completed s) ->
  clock_inside_from (g_inlock tc) (e :: rest) = true ->
  stamp_from (g_inlock tc) (g_tvalid tc) (e :: rest) = true ->
  sinvp (samples s) (clock s) -> tvp (samples s) (clock s) tc ->
  0 <= r_uc tc -> csp (completed s) tc -> 0 <= amt tc ->
  exec i s tc e = Some (s', th') ->
  sinvp (samples s') (clock s') /\ tvp (samples s') (clock s') th' /\
  0 <= r_uc th' /\ csp (completed s') th' /\
  clock_inside_from (g_inlock th') rest = true /\
  stamp_from (g_inlock th') (g_tvalid th') rest = true /\
  clock s <= clock s' /\ completed s <= completed s' /\
  (samples s' <> samples s -> g_inlock tc = true).
Proof.
  intros Hpc Hwf Hv Hci Hst Hsi Htv Huc Hcs Hamt He.
  assert (Hframe : forall clk' c' (th2 : thread),
            clock s <= clk' -> completed s <= c' ->
            r_time th2 = r_time tc -> r_uc th2 = r_uc tc -> r_cs th2 = r_cs tc ->
            g_inlock th2 = g_inlock tc ->
            (g_tvalid th2 = true -> g_tvalid tc = true) ->
            sinvp (samples s) clk' /\ tvp (samples s) clk' th2 /\ 0 <= r_uc th2 /\ csp c' th2).
  { intros clk' c' th2 H1 H2 H3 H4 H5 H6 H7. splits.
    - eapply sinvp_mono; eauto.
    - intros Hv2. destruct (Htv (H7 Hv2)) as (A & B & C). rewrite H6, H3. splits; auto. lia.
    - lia.
    - intros x Hx. rewrite H5 in Hx. specialize (Hcs x Hx). lia. }
  destruct e; simpl in He, Hwf, Hci, Hst.
  - (* Clock *) inv_exec He s' th'. simpl.
    apply andb_true_iff in Hci as [Hin Hci].
    splits; auto; kfin Hcs;
      match goal with
      | |- sinvp _ _ => eapply sinvp_mono; eauto; lia
      | |- tvp _ _ _ =>
          intros _; simpl; splits; auto; try lia;
          destruct Hsi as [_ Hf]; eapply Forall_impl; [|exact Hf]; intros x [Ha _]; lia
      end.
  - (* Acq *) destruct (lock s); [discriminate|]. inv_exec He s' th'. simpl.
    splits; auto; kfin Hcs.
  - (* Rel *) inv_exec He s' th'. simpl.
    splits; auto; kfin Hcs.
  - (* Rd *) apply andb_true_iff in Hwf as [Hin Hwf].
    destruct (f =? F_completed) eqn:Ef; inv_exec He s' th'; simpl.
    + splits; auto; kfin Hcs.
      * destruct (r_cs tc) as [c|] eqn:Ec; [specialize (Hcs c Ec); lia|lia].
      * intros x Hx. simpl in Hx. inversion Hx; subst. destruct (r_cs tc) as [c|] eqn:Ec; [apply Hcs; auto|lia].
    + destruct (Hframe (clock s) (completed s) (mkThread (tl (pc tc)) (amt tc) (todo tc) (done tc) (r_time tc) (r_c tc)
                  (r_cs tc) (r_uc tc) (g_inlock tc) (g_valid tc) (g_wrote tc) (g_tvalid tc)))
        as (A & B & C & D); simpl; auto; try lia.
      splits; auto; kfin Hcs.
  - (* Wr *) apply andb_true_iff in Hwf as [Hin Hwf].
    assert (Hsame : forall s1, samples s1 = samples s -> clock s <= clock s1 -> completed s1 = completed s ->
              Some (s1, mkThread (tl (pc tc)) (amt tc) (todo tc) (done tc) (r_time tc) (r_c tc) (r_cs tc)
                          (r_uc tc) (g_inlock tc) (g_valid tc) (g_wrote tc) (g_tvalid tc)) = Some (s', th') ->
              sinvp (samples s') (clock s') /\ tvp (samples s') (clock s') th' /\
              0 <= r_uc th' /\ csp (completed s') th' /\
              clock_inside_from (g_inlock th') rest = true /\
              stamp_from (g_inlock th') (g_tvalid th') rest = true /\
              clock s <= clock s' /\ completed s <= completed s' /\
              (samples s' <> samples s -> g_inlock tc = true)).
    { intros s1 Hs1 Hc1 Hco1 H1. inv_exec H1 s' th'. rewrite Hs1, Hco1.
      destruct (Hframe (clock s1) (completed s) (mkThread (tl (pc tc)) (amt tc) (todo tc) (done tc) (r_time tc) (r_c tc)
                  (r_cs tc) (r_uc tc) (g_inlock tc) (g_valid tc) (g_wrote tc) (g_tvalid tc)))
        as (A & B & C & D); simpl; auto; try lia.
      splits; auto; kfin Hcs. }
    destruct (f =? F_completed) eqn:Ef.
    + simpl in Hwf. apply andb_true_iff in Hwf as [Hw1 Hwf]. apply andb_true_iff in Hw1 as [Hval Hnw].
      inv_exec He s' th'. simpl. rewrite (Hv Hval).
      destruct (Hframe (clock s) (completed s + amt tc) (mkThread (tl (pc tc)) (amt tc) (todo tc) (done tc) (r_time tc) (r_c tc)
                  (r_cs tc) (r_uc tc) (g_inlock tc) false true (g_tvalid tc)))
        as (A & B & C & D); simpl; auto; try lia.
      splits; auto; kfin Hcs.
    + destruct (f =? F_finished_time).
      * destruct (finish_due s).
        -- destruct (start_time s).
           ++ destruct (stop_time s); (eapply Hsame; [| | |exact He]; simpl; auto; lia).
           ++ eapply Hsame; [| | |exact He]; simpl; auto; lia.
        -- eapply Hsame; [| | |exact He]; simpl; auto; lia.
      * eapply Hsame; [| | |exact He]; simpl; auto; lia.
  - (* PopOld *) apply andb_true_iff in Hwf as [Hin Hwf]. inv_exec He s' th'. simpl.
    destruct (drop_oldZ_suffix (r_time tc - period s) (samples s)) as [n ->].
    splits; auto; kfin Hcs;
      match goal with
      | |- sinvp _ _ => apply sinvp_skipn; auto
      | |- tvp _ _ _ => apply tvp_skipn; exact Htv
      end.
  - (* PopCap *) apply andb_true_iff in Hwf as [Hin Hwf]. inv_exec He s' th'. simpl.
    unfold drop_capZ. splits; auto; kfin Hcs;
      match goal with
      | |- sinvp _ _ => apply sinvp_skipn; auto
      | |- tvp _ _ _ => apply tvp_skipn; exact Htv
      end.
  - (* Append *) apply andb_true_iff in Hwf as [Hin Hwf]. apply andb_true_iff in Hst as [Htvv Hst].
    inv_exec He s' th'. simpl.
    destruct (Htv Htvv) as (A & B & C). destruct Hsi as [S1 S2].
    splits; auto; kfin Hcs;
      match goal with
      | |- sinvp _ _ => split; [apply sortedZ_snoc; auto|apply Forall_app; split; auto]
      | |- tvp _ _ _ => intros _; splits; auto; apply Forall_app; split; auto; constructor; auto; simpl; lia
      end.
  - (* Clear *) apply andb_true_iff in Hwf as [Hin Hwf]. inv_exec He s' th'. simpl.
    splits; auto; kfin Hcs.
  - (* Elapsed *) apply andb_true_iff in Hwf as [Hin Hwf]. inv_exec He s' th'. simpl.
    splits; auto; kfin Hcs.
  - (* Refresh *) inv_exec He s' th'. simpl.
    splits; auto; kfin Hcs.
  - (* Call *) discriminate.
Qed.

(* ------------------------------------------------------------------ the invariant along a schedule *)
Record tinv2 (s : shared) (th : thread) : Prop := {
  t2_tv : tvp (samples s) (clock s) th;
  t2_st : match pc th with
          | [] => True
          | _ => clock_inside_from (g_inlock th) (pc th) = true /\
                 stamp_from (g_inlock th) (g_tvalid th) (pc th) = true
          end;
  t2_uc : 0 <= r_uc th;
  t2_cs : csp (completed s) th;
  t2_amt : 0 <= amt th /\ Forall (fun a => 0 <= a) (todo th)
}.
Definition kinv (st : state) : Prop :=
  sinvp (samples (fst st)) (clock (fst st)) /\
  forall j th, nth_error (snd st) j = Some th -> tinv2 (fst st) th.

Lemma samples_dec (a b : list (Z * Z)) : {a = b} + {a <> b}.
Proof. apply list_eq_dec. intros [x1 y1] [x2 y2]. destruct (Z.eq_dec x1 x2), (Z.eq_dec y1 y2); [left|right|right|right]; congruence. Qed.

Section K.
Variable evs : list ev.
Hypothesis Hwf : wf_b evs = true.
Hypothesis Hci : clock_inside_b evs = true.
Hypothesis Hstamp : stamp_b evs = true.

Lemma retire_tinv2 s th' : tinv2 s th' -> tinv2 s (retire th').
Proof.
  intros [A B C D [E F]]. unfold retire. destruct (pc th') eqn:Ep; [|constructor; auto; rewrite Ep; auto].
  destruct (g_wrote th'); [|constructor; auto; rewrite Ep; auto].
  constructor; simpl; auto; try lia.
  - intros H. discriminate.
  - intros x H. discriminate.
  - split; [lia|exact F].
Qed.

Lemma kinv_exec c0 s ths i th tc e rest s' th' :
  ginv c0 (s, ths) -> kinv (s, ths) -> nth_error ths i = Some th ->
  tinv s i tc -> tinv2 s tc -> pc tc = e :: rest ->
  exec i s tc e = Some (s', th') ->
  kinv (s', set_nth i (retire th') ths).
Proof.
  intros [Hc Ht] [Hs Hk] Hi Hti Hk2 Hpc He. simpl in *.
  destruct Hti as [Hok Hl Hv Hvl]. unfold thr_ok in Hok. rewrite Hpc in Hok.
  destruct Hk2 as [Ktv Kst Kuc Kcs [Kamt Ktodo]]. rewrite Hpc in Kst. destruct Kst as [Kci Kstamp].
  destruct (exec_K i s tc e rest s' th' Hpc Hok Hv Kci Kstamp Hs Ktv Kuc Kcs Kamt He)
    as (S' & TV' & UC' & CS' & CI' & ST' & Hclk & Hcomp & Hsmp).
  destruct (exec_planned i s tc e s' th' He) as (Hp' & Ham & Htd & _ & _). rewrite Hpc in Hp'. simpl in Hp'.
  split; simpl; [exact S'|].
  intros j thj Hj. destruct (Nat.eq_dec i j) as [->|Hne].
  - rewrite (nth_set_nth_eq ths j _ th Hi) in Hj. injection Hj as <-. apply retire_tinv2.
    constructor; auto.
    + rewrite Hp'. destruct rest; auto.
    + rewrite Ham, Htd. auto.
  - rewrite (nth_set_nth_neq ths i j _ Hne) in Hj. destruct (Hk j thj Hj) as [Jtv Jst Juc Jcs Jamt].
    destruct (Ht j thj Hj) as [_ Jl _ _].
    constructor; auto.
    + intros Hvj. destruct (Jtv Hvj) as (A & B & C).
      destruct (samples_dec (samples s') (samples s)) as [->|Hd].
      * splits; auto. lia.
      * exfalso. apply Hsmp in Hd. apply Hl in Hd. apply Jl in A. congruence.
    + intros x Hx. specialize (Jcs x Hx). lia.
Qed.

Lemma kinv_replace s ths i th tc :
  kinv (s, ths) -> nth_error ths i = Some th -> tinv2 s tc -> kinv (s, set_nth i tc ths).
Proof.
  intros [Hs Hk] Hi Htc. unfold kinv. cbn [fst snd] in *. split; [exact Hs|].
  intros j thj Hj. destruct (Nat.eq_dec i j) as [Heq|Hne].
  - subst j. rewrite (nth_set_nth_eq ths i tc th Hi) in Hj. injection Hj as Hj. subst thj. exact Htc.
  - rewrite (nth_set_nth_neq ths i j tc Hne) in Hj. exact (Hk j thj Hj).
Qed.

Lemma kinv_step c0 st i : ginv c0 st -> kinv st -> kinv (sstep evs st i).
Proof.
  destruct st as [s ths]. intros G K. unfold sstep.
  destruct (nth_error ths i) as [th|] eqn:Hi; [|exact K].
  pose proof (proj2 G i th Hi) as Hti. pose proof (proj2 K i th Hi) as Hk2. simpl in Hti, Hk2.
  unfold step1. destruct (pc th) as [|e rest] eqn:Hpc.
  - pose proof Hti as [Hok Hl Hv Hvl]. unfold thr_ok in Hok. rewrite Hpc in Hok. destruct Hok as (Hil & Hvf & Hwr).
    destruct (todo th) as [|a rest'] eqn:Htd.
    + rewrite (retire_idle th Hpc Hwr). eapply kinv_replace; eauto.
    + destruct (evs_nonempty evs Hwf) as (e & rest & Hev). rewrite Hev.
      set (th0 := mkThread (e :: rest) a rest' (done th) 0 0 None 0 false false false false).
      assert (Ht0 : tinv s i th0).
      { constructor; simpl.
        - unfold thr_ok. simpl. unfold wf_b in Hwf. rewrite Hev in Hwf. exact Hwf.
        - split; [discriminate|]. intros H. apply Hl in H. congruence.
        - discriminate.
        - discriminate. }
      assert (Hk0 : tinv2 s th0).
      { destruct Hk2 as [_ _ _ _ [_ Htodo]]. rewrite Htd in Htodo.
        pose proof (Forall_inv Htodo) as Ha0. pose proof (Forall_inv_tail Htodo) as Hrest0.
        constructor; simpl; auto; try lia.
        - intros H. discriminate.
        - unfold clock_inside_b, stamp_b in *. rewrite Hev in Hci, Hstamp. auto.
        - intros x H. discriminate. }
      destruct (exec i s th0 e) as [[s' th']|] eqn:He.
      * eapply kinv_exec; eauto. reflexivity.
      * rewrite retire_id by (simpl; discriminate). eapply kinv_replace; eauto.
  - destruct (exec i s th e) as [[s' th']|] eqn:He.
    + eapply kinv_exec; eauto.
    + rewrite retire_id by congruence. eapply kinv_replace; eauto.
Qed.

Lemma gk_run c0 sched : forall st, ginv c0 st -> kinv st ->
  ginv c0 (srun evs st sched) /\ kinv (srun evs st sched).
Proof.
  induction sched; intros st G K; simpl; auto. apply IHsched.
  - apply ginv_step; auto.
  - eapply kinv_step; eauto.
Qed.

Lemma kinv_init c0 tot start per progs :
  Forall (Forall (fun a => 0 <= a)) progs -> kinv (init_state c0 tot start per progs).
Proof.
  intros Hnn. split; simpl.
  - split; constructor.
  - intros j th Hj. apply nth_error_In in Hj. apply in_map_iff in Hj as (prog & <- & Hin).
    rewrite Forall_forall in Hnn. specialize (Hnn prog Hin).
    constructor; simpl; auto; try lia; try (split; [lia|exact Hnn]).
    + intros H. discriminate.
    + intros x H. discriminate.
Qed.

(* samples in clock order with non-negative deltas, at every step of every schedule *)
Theorem samples_in_order c0 tot start per progs sched :
  Forall (Forall (fun a => 0 <= a)) progs ->
  let s := fst (srun evs (init_state c0 tot start per progs) sched) in
  sortedZ (samples s) /\ Forall (fun x => 0 <= snd x) (samples s).
Proof.
  intros Hnn s. destruct (init_ok evs Hwf c0 tot start per progs) as [G _].
  destruct (gk_run c0 sched _ G (kinv_init c0 tot start per progs Hnn)) as [_ [[S1 S2] _]].
  split; auto. eapply Forall_impl; [|exact S2]. intros x [_ H]. exact H.
Qed.

Theorem speed_nonneg_concurrent_evs c0 tot start per progs sched :
  Forall (Forall (fun a => 0 <= a)) progs ->
  speed_ok_b (speed (task_of (fst (srun evs (init_state c0 tot start per progs) sched)))) = true.
Proof.
  intros Hnn. destruct (samples_in_order c0 tot start per progs sched Hnn) as [A B].
  apply in_order_speed; auto.
Qed.
End K.

(* ------------------------------------------------------------------ finished: latched under every schedule *)
Lemma exec_latch i s th e s' th' f :
  fin_time s = Some f -> exec i s th e = Some (s', th') -> fin_time s' = Some f.
Proof.
  intros Hf He. destruct e; simpl in He;
    try (injection He as <- _; simpl; exact Hf).
  - destruct (lock s); [discriminate|]. injection He as <- _. simpl. exact Hf.
  - destruct (f0 =? F_completed); injection He as <- _; simpl; exact Hf.
  - destruct (f0 =? F_completed); [injection He as <- _; simpl; exact Hf|].
    destruct (f0 =? F_finished_time); [|injection He as <- _; simpl; exact Hf].
    assert (Hd : finish_due s = false). { unfold finish_due. rewrite Hf. simpl. apply andb_false_r. }
    rewrite Hd in He. injection He as <- _. exact Hf.
Qed.

Lemma sstep_latch evs st i f : fin_time (fst st) = Some f -> fin_time (fst (sstep evs st i)) = Some f.
Proof.
  destruct st as [s ths]. intros Hf. unfold sstep. destruct (nth_error ths i) as [th|]; [|exact Hf].
  destruct (step1 evs i s th) as [s' th'] eqn:Es. simpl. unfold step1 in Es.
  destruct (pc th) as [|e rest].
  - destruct (todo th) as [|a rest']; [injection Es as <- _; exact Hf|].
    destruct evs as [|e rest]; [injection Es as <- _; exact Hf|].
    match type of Es with context [exec i s ?t e] => destruct (exec i s t e) as [[s1 t1]|] eqn:He end.
    + injection Es as <- _. eapply exec_latch; eauto.
    + injection Es as <- _. exact Hf.
  - destruct (exec i s th e) as [[s1 t1]|] eqn:He.
    + injection Es as <- _. eapply exec_latch; eauto.
    + injection Es as <- _. exact Hf.
Qed.

(* once recorded, the finish time is the same after any further steps of any threads *)
Theorem finish_latched_concurrent evs sched : forall st f,
  fin_time (fst st) = Some f -> fin_time (fst (srun evs st sched)) = Some f.
Proof.
  induction sched as [|i sched IH]; intros st f Hf; simpl; auto. apply IH. apply sstep_latch. exact Hf.
Qed.

(* ------------------------------------------------------------------ finished: reported at quiescent points *)
Definition is_fin_wr (e : ev) : bool := match e with Wr f => f =? F_finished_time | _ => false end.
(* between here and the release of the lock, is the last write to completed followed by a finish check? *)
Fixpoint wc (acc : bool) (l : list ev) : bool :=
  match l with
  | [] => false
  | Rel :: _ => acc
  | e :: r => if is_fin_wr e then wc true r else if is_wr_completed e then wc false r else wc acc r
  end.
Fixpoint fin_ok (l : list ev) : bool :=
  match l with
  | [] => true
  | e :: r => (if is_wr_completed e then wc false r else true) && fin_ok r
  end.

Definition qcore (s : shared) : Prop :=
  is_some (start_time s) = true -> total s <= completed s -> is_some (fin_time s) = true.

Lemma F_distinct f : (f =? F_completed) = true -> (f =? F_finished_time) = true -> False.
Proof. unfold F_completed, F_finished_time. lia. Qed.

Lemma exec_F i s tc e s' th' :
  exec i s tc e = Some (s', th') ->
  start_time s' = start_time s /\ total s' = total s /\
  (is_fin_wr e = true -> qcore s') /\
  (is_fin_wr e = false -> is_wr_completed e = false -> qcore s -> qcore s').
Proof.
  intros He. unfold qcore.
  destruct e; simpl in He; simpl is_fin_wr; simpl is_wr_completed;
    try (injection He as <- _; simpl; splits; auto; try discriminate; try (intros; discriminate)).
  - destruct (lock s); [discriminate|]. injection He as <- _. simpl. splits; auto; try discriminate; try (intros; discriminate).
  - destruct (f =? F_completed); injection He as <- _; simpl; splits; auto; try discriminate; try (intros; discriminate).
  - destruct (f =? F_completed) eqn:E1.
    + injection He as <- _. simpl. splits; auto; try discriminate.
      intros E2. exfalso. eapply F_distinct; eauto.
    + destruct (f =? F_finished_time) eqn:E2.
      * unfold finish_due in He.
        destruct (total s <=? completed s) eqn:Et; simpl in He.
        -- destruct (fin_time s) eqn:Ef; simpl in He.
           ++ injection He as <- _. rewrite Ef. splits; auto; try discriminate; try (intros; discriminate).
           ++ destruct (start_time s) eqn:Es.
              ** destruct (stop_time s); injection He as <- _; simpl; splits; auto; try discriminate; try (intros; discriminate).
              ** injection He as <- _. rewrite Es. simpl. splits; auto; try discriminate; try (intros; discriminate).
        -- injection He as <- _. splits; auto; try discriminate. intros _ _ H. lia.
      * injection He as <- _. splits; auto; try discriminate; try (intros; discriminate).
Qed.

Lemma wf_shared_inlock il v w e rest :
  wf_from il v w (e :: rest) = true -> is_fin_wr e = true \/ is_wr_completed e = true -> il = true.
Proof.
  intros H [A|A]; destruct e; simpl in A; try discriminate; simpl in H; apply andb_true_iff in H as [H _]; exact H.
Qed.

Record finv1 (s : shared) (th : thread) : Prop := {
  f_dis : g_inlock th = true -> qcore s \/ wc false (pc th) = true;
  f_ok : fin_ok (pc th) = true
}.
Definition finv (st : state) : Prop :=
  (lock (fst st) = None -> qcore (fst st)) /\
  forall j th, nth_error (snd st) j = Some th -> finv1 (fst st) th.

Section F.
Variable evs : list ev.
Hypothesis Hwf : wf_b evs = true.
Hypothesis Hfin : fin_ok evs = true.

Lemma finv_exec c0 s ths i th tc e rest s' th' :
  ginv c0 (s, ths) -> finv (s, ths) -> nth_error ths i = Some th ->
  tinv s i tc -> finv1 s tc -> pc tc = e :: rest ->
  exec i s tc e = Some (s', th') ->
  finv (s', set_nth i (retire th') ths).
Proof.
  intros [Hc Ht] [Hq Hf] Hi Hti [Fd Fok] Hpc He. cbn [fst snd] in *.
  destruct Hti as [Hok Hl Hv Hvl]. unfold thr_ok in Hok. rewrite Hpc in Hok.
  destruct (exec_inv i s tc e rest s' th' Hpc Hok Hl Hv Hvl He)
    as (Hp' & _ & _ & _ & Hw' & Hl' & _ & _ & _ & Hoth & _).
  destruct (exec_F i s tc e s' th' He) as (_ & _ & Hb & Hcq).
  rewrite Hpc in Fd, Fok. simpl in Fok. apply andb_true_iff in Fok as [Fok1 Fok2].
  (* the executing thread's own disjunction after the event *)
  assert (Hown : g_inlock th' = true -> qcore s' \/ wc false rest = true).
  { intros Hin'. destruct (is_fin_wr e) eqn:Efw; [left; auto|].
    destruct (is_wr_completed e) eqn:Ewc; [right; exact Fok1|].
    destruct (g_inlock tc) eqn:Hin.
    - destruct (Fd eq_refl) as [Q|W]; [left; auto|].
      right. destruct e; simpl in W, Efw, Ewc; try exact W.
      + (* Rel: the thread is no longer in the lock *) exfalso.
        simpl in He. injection He as _ <-. simpl in Hin'. discriminate.
      + rewrite Efw, Ewc in W. exact W.
    - (* acquired just now: the lock was free *)
      left. apply Hcq; auto. apply Hq.
      destruct (lock s) as [k|] eqn:El; auto. exfalso.
      destruct e; simpl in He; try (injection He as _ <-; simpl in Hin'; congruence).
      + rewrite El in He. discriminate.
      + destruct (f =? F_completed); injection He as _ <-; simpl in Hin'; congruence.
      + simpl in Efw, Ewc. rewrite Ewc in He. rewrite Efw in He. injection He as _ <-. simpl in Hin'. congruence. }
  assert (Hquiet : lock s' = None -> qcore s').
  { intros Hn. destruct (is_fin_wr e) eqn:Efw; [auto|].
    destruct (is_wr_completed e) eqn:Ewc.
    - (* a write to completed happens in the lock, which is then not free *)
      exfalso. pose proof (wf_shared_inlock _ _ _ _ _ Hok (or_intror Ewc)) as Hin.
      destruct e; simpl in Ewc; try discriminate. simpl in He. rewrite Ewc in He.
      injection He as <- _. simpl in Hn. apply Hl in Hin. congruence.
    - apply Hcq; auto.
      destruct (g_inlock tc) eqn:Hin.
      + assert (Hli : lock s = Some i) by (apply Hl; reflexivity).
        destruct (Fd eq_refl) as [Q|W]; auto.
        (* still holding the lock unless e = Rel, and then wc gives false *)
        destruct e; simpl in W; try discriminate;
          try (exfalso; simpl in He; injection He as <- _; simpl in Hn; congruence).
        * exfalso. simpl in He. destruct (f =? F_completed); injection He as <- _; simpl in Hn; congruence.
        * exfalso. simpl in Efw, Ewc. simpl in He. rewrite Ewc, Efw in He. injection He as <- _. simpl in Hn. congruence.
      + apply Hq. destruct (lock s) as [k|] eqn:El; auto. exfalso.
        assert (k <> i). { intros ->. assert (false = true) by (apply Hl; reflexivity). congruence. }
        assert (lock s' = Some k) by (apply Hoth; auto). congruence. }
  split; cbn [fst snd]; [exact Hquiet|].
  intros j thj Hj. destruct (Nat.eq_dec i j) as [Heq|Hne].
  - subst j. rewrite (nth_set_nth_eq ths i _ th Hi) in Hj. injection Hj as Hj. subst thj.
    assert (F1 : finv1 s' th'). { constructor; [rewrite Hp'; exact Hown|rewrite Hp'; exact Fok2]. }
    unfold retire. destruct (pc th') eqn:Ep; [|exact F1].
    destruct (g_wrote th'); [|exact F1]. constructor; simpl; auto; intros H; discriminate.
  - rewrite (nth_set_nth_neq ths i j _ Hne) in Hj. destruct (Hf j thj Hj) as [Jd Jok].
    destruct (Ht j thj Hj) as [_ Jl _ _].
    constructor; auto. intros Hin. destruct (Jd Hin) as [Q|W]; [|right; exact W].
    left. (* thread j holds the lock, so thread i is outside it and its event is not a shared access *)
    assert (Hni : g_inlock tc = false).
    { destruct (g_inlock tc) eqn:E; auto. exfalso. assert (lock s = Some i) by (apply Hl; reflexivity). apply Jl in Hin. congruence. }
    apply Hcq; auto.
    + destruct (is_fin_wr e) eqn:E; auto. exfalso.
      pose proof (wf_shared_inlock _ _ _ _ _ Hok (or_introl E)). congruence.
    + destruct (is_wr_completed e) eqn:E; auto. exfalso.
      pose proof (wf_shared_inlock _ _ _ _ _ Hok (or_intror E)). congruence.
Qed.
End F.

Section F2.
Variable evs : list ev.
Hypothesis Hwf : wf_b evs = true.
Hypothesis Hfin : fin_ok evs = true.

Lemma finv_replace s ths i th tc :
  finv (s, ths) -> nth_error ths i = Some th -> finv1 s tc -> finv (s, set_nth i tc ths).
Proof.
  intros [Hq Hf] Hi Htc. unfold finv. cbn [fst snd] in *. split; [exact Hq|].
  intros j thj Hj. destruct (Nat.eq_dec i j) as [Heq|Hne].
  - subst j. rewrite (nth_set_nth_eq ths i tc th Hi) in Hj. injection Hj as Hj. subst thj. exact Htc.
  - rewrite (nth_set_nth_neq ths i j tc Hne) in Hj. exact (Hf j thj Hj).
Qed.

Lemma finv_step c0 st i : ginv c0 st -> finv st -> finv (sstep evs st i).
Proof.
  destruct st as [s ths]. intros G K. unfold sstep.
  destruct (nth_error ths i) as [th|] eqn:Hi; [|exact K].
  pose proof (proj2 G i th Hi) as Hti. pose proof (proj2 K i th Hi) as Hk2. cbn [fst snd] in Hti, Hk2.
  unfold step1. destruct (pc th) as [|e rest] eqn:Hpc.
  - pose proof Hti as [Hok Hl Hv Hvl]. unfold thr_ok in Hok. rewrite Hpc in Hok. destruct Hok as (Hil & Hvf & Hwr).
    destruct (todo th) as [|a rest'] eqn:Htd.
    + rewrite (retire_idle th Hpc Hwr). eapply finv_replace; eauto.
    + destruct (evs_nonempty evs Hwf) as (e & rest & Hev). rewrite Hev.
      set (th0 := mkThread (e :: rest) a rest' (done th) 0 0 None 0 false false false false).
      assert (Ht0 : tinv s i th0).
      { constructor; simpl.
        - unfold thr_ok. simpl. unfold wf_b in Hwf. rewrite Hev in Hwf. exact Hwf.
        - split; [discriminate|]. intros H. apply Hl in H. congruence.
        - discriminate.
        - discriminate. }
      assert (Hk0 : finv1 s th0).
      { constructor; simpl; [intros H; discriminate|]. rewrite Hev in Hfin. exact Hfin. }
      destruct (exec i s th0 e) as [[s' th']|] eqn:He.
      * eapply finv_exec; eauto. reflexivity.
      * rewrite retire_id by (simpl; discriminate). eapply finv_replace; eauto.
  - destruct (exec i s th e) as [[s' th']|] eqn:He.
    + eapply finv_exec; eauto.
    + rewrite retire_id by congruence. eapply finv_replace; eauto.
Qed.

Lemma gf_run c0 sched : forall st, ginv c0 st -> finv st ->
  ginv c0 (srun evs st sched) /\ finv (srun evs st sched).
Proof.
  induction sched; intros st G K; simpl; auto. apply IHsched.
  - apply ginv_step; auto.
  - eapply finv_step; eauto.
Qed.

Lemma finv_init c0 tot start per progs :
  (start = None \/ c0 < tot) -> finv (init_state c0 tot start per progs).
Proof.
  intros H0. split; cbn [fst snd]; simpl.
  - intros _. unfold qcore. simpl. intros Hs Ht. destruct H0 as [->|H0]; [discriminate|lia].
  - intros j th Hj. apply nth_error_In in Hj. apply in_map_iff in Hj as (prog & <- & _).
    constructor; simpl; auto; intros H; discriminate.
Qed.

(* at every quiescent point (lock free) of every schedule: a started task with completed >= total
   reports finished -- provided the task did not start out in such a state (a fresh task does not) *)
Theorem finish_reported_concurrent_evs c0 tot start per progs sched :
  (start = None \/ c0 < tot) ->
  let s := fst (srun evs (init_state c0 tot start per progs) sched) in
  lock s = None ->
  finish_ok_b (started (task_of s)) (t_completed (task_of s)) (t_total (task_of s)) (finished (task_of s)) = true.
Proof.
  intros H0 s Hq. destruct (init_ok evs Hwf c0 tot start per progs) as [G _].
  destruct (gf_run c0 sched _ G (finv_init c0 tot start per progs H0)) as [_ [Q _]].
  fold s in Q. specialize (Q Hq). unfold qcore in Q.
  unfold finish_ok_b, started, finished, task_of. simpl.
  destruct (start_time s) eqn:Es; simpl; [|reflexivity].
  destruct (Qle_bool (qZ (total s)) (qZ (completed s))) eqn:E; [|reflexivity].
  apply Qle_bool_iff in E. unfold qZ in E. rewrite <- Zle_Qle in E.
  specialize (Q eq_refl E). destruct (fin_time s); [reflexivity|discriminate].
Qed.
End F2.

(* ------------------------------------------------------------------ time_remaining at quiescent points *)
Section TR.
Variable evs : list ev.
Hypothesis Hwf : wf_b evs = true.
Hypothesis Hci : clock_inside_b evs = true.
Hypothesis Hstamp : stamp_b evs = true.
Hypothesis Hfin : fin_ok evs = true.

Theorem time_remaining_nonneg_concurrent_evs c0 tot start per progs sched :
  Forall (Forall (fun a => 0 <= a)) progs -> (start = None \/ c0 < tot) ->
  let s := fst (srun evs (init_state c0 tot start per progs) sched) in
  lock s = None -> tr_ok_b (time_remaining (task_of s)) = true.
Proof.
  intros Hnn H0 s Hq.
  pose proof (speed_nonneg_concurrent_evs evs Hwf Hci Hstamp c0 tot start per progs sched Hnn) as Hsp.
  assert (Hf : finish_ok_b (started (task_of s)) (t_completed (task_of s)) (t_total (task_of s)) (finished (task_of s)) = true)
    by exact (finish_reported_concurrent_evs evs Hwf Hfin c0 tot start per progs sched H0 Hq).
  change (speed_ok_b (speed (task_of s)) = true) in Hsp. unfold time_remaining. destruct (finished (task_of s)) eqn:F; [reflexivity|].
  destruct (speed (task_of s)) as [sp|] eqn:Esp; [|reflexivity].
  simpl in Hsp. apply Qle_bool_iff in Hsp.
  destruct (Qeq_bool sp 0) eqn:E0; [reflexivity|]. simpl.
  assert (Hst : started (task_of s) = true).
  { unfold speed in Esp. unfold started. destruct (t_start (task_of s)); [reflexivity|discriminate]. }
  unfold finish_ok_b in Hf. rewrite Hst in Hf.
  assert (Hlt : (t_completed (task_of s) < t_total (task_of s))%Q).
  { apply Qnot_le_lt. intros H. apply Qle_bool_iff in H. rewrite H in Hf. discriminate Hf. }
  assert (Hsp0 : (0 < sp)%Q).
  { destruct (Qlt_le_dec 0 sp); auto. exfalso. apply Qeq_bool_neq in E0. apply E0. lra. }
  apply Z.leb_le.
  assert (H1 : (0 <= remaining (task_of s) / sp)%Q).
  { apply Qle_shift_div_l; auto. rewrite Qmult_0_l. unfold remaining. lra. }
  pose proof (Qround.Qceiling_resp_le 0 (remaining (task_of s) / sp) H1) as Hc. simpl in Hc. exact Hc.
Qed.
End TR.

(* ------------------------------------------------------------------ instances for the regenerated advance() *)
Lemma advance_events_discipline :
  wf_b advance_events = true /\ clock_inside_b advance_events = true /\
  stamp_b advance_events = true /\ fin_ok advance_events = true.
Proof. vm_compute. repeat split; reflexivity. Qed.

Theorem speed_nonneg_concurrent : forall c0 tot start per progs sched,
  Forall (Forall (fun a => 0 <= a)) progs ->
  speed_ok_b (speed (task_of (fst (srun advance_events (init_state c0 tot start per progs) sched)))) = true.
Proof.
  destruct advance_events_discipline as (A & B & C & _). exact (speed_nonneg_concurrent_evs advance_events A B C).
Qed.

Theorem finish_reported_concurrent : forall c0 tot start per progs sched,
  (start = None \/ c0 < tot) ->
  let s := fst (srun advance_events (init_state c0 tot start per progs) sched) in
  lock s = None ->
  finish_ok_b (started (task_of s)) (t_completed (task_of s)) (t_total (task_of s)) (finished (task_of s)) = true.
Proof.
  destruct advance_events_discipline as (A & _ & _ & D). exact (finish_reported_concurrent_evs advance_events A D).
Qed.

Theorem time_remaining_nonneg_concurrent : forall c0 tot start per progs sched,
  Forall (Forall (fun a => 0 <= a)) progs -> (start = None \/ c0 < tot) ->
  let s := fst (srun advance_events (init_state c0 tot start per progs) sched) in
  lock s = None -> tr_ok_b (time_remaining (task_of s)) = true.
Proof.
  destruct advance_events_discipline as (A & B & C & D).
  exact (time_remaining_nonneg_concurrent_evs advance_events A B C D).
Qed.

(* the as-found list fails exactly the stamping discipline *)
Lemma asis_discipline :
  wf_b advance_events_asis = true /\ fin_ok advance_events_asis = true /\
  clock_inside_b advance_events_asis = false /\ stamp_b advance_events_asis = false.
Proof. vm_compute. repeat split; reflexivity. Qed.
