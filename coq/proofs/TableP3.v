(* C07 deepening (2a): every cell in its own column, for ANY cells that fit their column width.
   The content characters (not whitespace, not box characters) found inside column j's span of the
   printed table are exactly those of column j's cells, row after row, line after line, and no
   content character lies outside the spans.  No Layout/Wrap dependency here. *)
From RichModel Require Import Prelude Cells Segments Ratio Table SpecTable.
From RichProofs Require Import CellsP SegmentsP RatioP TableP.
From Coq Require Import ZifyBool.

Notation line := (list (seg Z)).

Section Content.
Variable skip : list Z.

Definition keepc (c : Z) : bool := negb (is_ws c || memZ c skip).
Definition content (s : str) : str := filter keepc s.
Definition chs (C : list (Z * Z * Z)) : str := map (fun x => fst (fst x)) C.
(* every content character occupies at least one cell *)
Definition wide_ok (s : str) : Prop := Forall (fun c => keepc c = true -> 1 <= char_size c) s.
Definition lcontent (l : line) : str := content (line_text l).
Definition cell_content (c : list line) : str := concat (map lcontent c).

Lemma content_app a b : content (a ++ b) = content a ++ content b.
Proof. apply filter_app. Qed.

Lemma line_text_app (a b : line) : line_text (a ++ b) = line_text a ++ line_text b.
Proof. unfold line_text. rewrite map_app, concat_app. reflexivity. Qed.

Lemma lcontent_app a b : lcontent (a ++ b) = lcontent a ++ lcontent b.
Proof. unfold lcontent. rewrite line_text_app. apply content_app. Qed.

Lemma content_at_app : forall a b off,
  content_at skip (a ++ b) off = content_at skip a off ++ content_at skip b (off + cell_len a).
Proof.
  induction a as [|c a IH]; intros b off.
  - cbn [app content_at]. change (cell_len []) with 0. f_equal. lia.
  - cbn [app content_at]. rewrite cell_len_cons.
    replace (off + (char_size c + cell_len a)) with (off + char_size c + cell_len a) by lia.
    destruct (is_ws c || memZ c skip); rewrite IH; reflexivity.
Qed.

Lemma content_at_chs : forall s off, chs (content_at skip s off) = content s.
Proof.
  induction s as [|c s IH]; intros off; [reflexivity|].
  cbn [content_at content filter]. unfold keepc at 1.
  destruct (is_ws c || memZ c skip); cbn [negb]; [apply IH|]. unfold chs. cbn [map fst]. f_equal. apply IH.
Qed.

Definition in_region (lo hi : Z) (x : Z * Z * Z) : Prop :=
  let '(_, a, b) := x in lo <= a /\ a < b /\ b <= hi.

Lemma content_at_region : forall s off, wide_ok s ->
  Forall (in_region off (off + cell_len s)) (content_at skip s off).
Proof.
  induction s as [|c s IH]; intros off Hw; [constructor|].
  inversion Hw as [|? ? Hc Hs]; subst. cbn [content_at]. rewrite cell_len_cons.
  pose proof (char_size_range c) as Hr. pose proof (cell_len_nonneg s) as Hn.
  specialize (IH (off + char_size c) Hs).
  assert (IH' : Forall (in_region off (off + (char_size c + cell_len s))) (content_at skip s (off + char_size c))).
  { eapply Forall_impl; [|exact IH]. intros [[ch a] b]. unfold in_region. lia. }
  destruct (is_ws c || memZ c skip) eqn:E; [exact IH'|].
  constructor; [|exact IH']. unfold in_region. unfold keepc in Hc. rewrite E in Hc. specialize (Hc eq_refl). lia.
Qed.

Lemma content_at_none : forall s off, content s = [] -> content_at skip s off = [].
Proof.
  induction s as [|c s IH]; intros off H; [reflexivity|].
  cbn [content filter] in H. cbn [content_at]. unfold keepc in H.
  destruct (is_ws c || memZ c skip); cbn [negb] in H; [apply IH; exact H|discriminate].
Qed.

(* filtering a region by a span *)
Lemma filter_in_own C lo hi : Forall (in_region lo hi) C -> filter (in_span (lo, hi)) C = C.
Proof.
  induction 1 as [|[[c a] b] C Hx _ IH]; [reflexivity|]. cbn [filter]. unfold in_span at 1. cbn [fst snd].
  unfold in_region in Hx. replace ((lo <=? a) && (b <=? hi)) with true by lia. f_equal. exact IH.
Qed.

Lemma filter_in_other C lo hi sp : Forall (in_region lo hi) C -> (snd sp <= lo \/ hi <= fst sp) ->
  filter (in_span sp) C = [].
Proof.
  intros H Hd. induction H as [|[[c a] b] C Hx _ IH]; [reflexivity|]. cbn [filter]. unfold in_span at 1.
  unfold in_region in Hx. replace ((fst sp <=? a) && (b <=? snd sp)) with false by lia. exact IH.
Qed.

Lemma in_region_mono lo hi lo' hi' x : lo' <= lo -> hi <= hi' -> in_region lo hi x -> in_region lo' hi' x.
Proof. destruct x as [[c a] b]. unfold in_region. lia. Qed.

Lemma spans_from_lower : forall ws st gap, Forall (fun w => 0 <= w) ws -> 0 <= gap ->
  Forall (fun sp => st <= fst sp) (spans_from ws st gap).
Proof.
  induction ws as [|w ws IH]; intros st gap Hw Hg; [constructor|]. inversion Hw; subst. cbn [spans_from].
  constructor; [cbn; lia|]. eapply Forall_impl; [|apply IH; assumption]. cbn beta. intros sp. lia.
Qed.

(* ------------------------------------------------------------------ one printed row line *)
Section Join.
Variables (dv : option (seg Z)) (gap : Z).
Hypothesis Hgap : 0 <= gap.
Hypothesis Hdv : match dv with
                 | Some g => lcontent [g] = [] /\ line_len [g] = gap
                 | None => gap = 0
                 end.

Definition dline : line := match dv with Some d => [d] | None => [] end.
Lemma dline_facts : lcontent dline = [] /\ line_len dline = gap.
Proof. unfold dline. destruct dv; [exact Hdv|split; [reflexivity|cbn; lia]]. Qed.

Definition line_ok (w : Z) (l : line) : Prop := line_len l = w /\ wide_ok (line_text l).

Lemma join_cells_spans : forall widths hs, Forall2 line_ok widths hs -> Forall (fun w => 0 <= w) widths ->
  forall start,
  let C := content_at skip (line_text (join_cells dv hs)) start in
  map (fun sp => chs (filter (in_span sp) C)) (spans_from widths start gap) = map lcontent hs /\
  Forall (fun x => existsb (fun sp => in_span sp x) (spans_from widths start gap) = true) C /\
  Forall (in_region start (start + cell_len (line_text (join_cells dv hs)))) C.
Proof.
  induction 1 as [|w l ws ls [Hl Hwo] Hrest IH]; intros Hw start; [cbn; repeat split; constructor|].
  inversion Hw as [|? ? Hw0 Hws]; subst.
  assert (Hcl : cell_len (line_text l) = line_len l) by apply cell_len_line_text.
  pose proof (content_at_region (line_text l) start Hwo) as Rl. rewrite Hcl in Rl.
  destruct ls as [|l2 ls].
  - inversion Hrest; subst. cbn [join_cells spans_from map]. cbv zeta.
    rewrite (filter_in_own _ _ _ Rl), content_at_chs. repeat split.
    + eapply Forall_impl; [|exact Rl]. intros x Hx. cbn [existsb]. rewrite orb_false_r.
      destruct x as [[c a] b]. unfold in_region in Hx. unfold in_span. cbn [fst snd]. lia.
    + rewrite Hcl. exact Rl.
  - destruct (dline_facts) as [Dc Dl].
    change (join_cells dv (l :: l2 :: ls)) with (l ++ dline ++ join_cells dv (l2 :: ls)).
    set (T' := join_cells dv (l2 :: ls)) in *.
    specialize (IH Hws (start + line_len l + gap)). cbv zeta in IH. destruct IH as [I1 [I2 I3]].
    rewrite !line_text_app, !content_at_app. cbv zeta.
    rewrite (content_at_none (line_text dline)) by exact Dc. cbn [app].
    rewrite !cell_len_line_text, Dl.
    set (Cl := content_at skip (line_text l) start) in *.
    set (C' := content_at skip (line_text T') (start + line_len l + gap)) in *.
    pose proof (cell_len_nonneg (line_text T')) as HT'. pose proof (line_len_nonneg l) as Hln.
    cbn [spans_from map]. repeat split.
    + f_equal.
      * rewrite filter_app, (filter_in_own _ _ _ Rl).
        rewrite (filter_in_other C' _ _ (start, start + line_len l) I3) by (cbn; lia).
        rewrite app_nil_r. unfold Cl. apply content_at_chs.
      * etransitivity; [|exact I1]. apply map_ext_in. intros sp Hsp.
        pose proof (spans_from_lower ws (start + line_len l + gap) gap Hws Hgap) as Hlow.
        rewrite Forall_forall in Hlow. specialize (Hlow sp Hsp).
        rewrite filter_app, (filter_in_other Cl _ _ sp Rl) by lia. reflexivity.
    + apply Forall_app. split.
      * eapply Forall_impl; [|exact Rl]. intros [[c a] b] Hx. cbn [existsb]. unfold in_region in Hx.
        unfold in_span at 1. cbn [fst snd]. replace ((start <=? a) && (b <=? start + line_len l)) with true by lia. reflexivity.
      * eapply Forall_impl; [|exact I2]. intros x Hx. cbn [existsb]. rewrite Hx. apply orb_true_r.
    + rewrite !cell_len_app, !cell_len_line_text, Dl. rewrite cell_len_line_text in I3.
      pose proof (line_len_nonneg T') as HT2. apply Forall_app. split.
      * eapply Forall_impl; [|exact Rl]. intros x. apply in_region_mono; lia.
      * eapply Forall_impl; [|exact I3]. intros x. apply in_region_mono; lia.
Qed.
End Join.
End Content.

(* ------------------------------------------------------------------ vectors of span contents *)
Definition zip_app (a b : list str) : list str := map (fun '(x, y) => x ++ y) (combine a b).

Lemma map_zip_app {A} (f g : A -> str) : forall l, map (fun x => f x ++ g x) l = zip_app (map f l) (map g l).
Proof. induction l as [|x l IH]; [reflexivity|]. unfold zip_app in *. cbn [map combine]. f_equal. exact IH. Qed.

Lemma zip_app_blank_l : forall v n, length v = n -> zip_app (repeat [] n) v = v.
Proof.
  induction v as [|x v IH]; intros n H; subst; [reflexivity|]. unfold zip_app in *. cbn [length repeat combine map].
  f_equal. apply IH. reflexivity.
Qed.

Lemma zip_app_blank_r : forall v n, length v = n -> zip_app v (repeat [] n) = v.
Proof.
  induction v as [|x v IH]; intros n H; subst; [reflexivity|]. unfold zip_app in *. cbn [length repeat combine map].
  rewrite app_nil_r. f_equal. apply IH. reflexivity.
Qed.

Lemma zip_app_length a b : length b = length a -> length (zip_app a b) = length a.
Proof. intros H. unfold zip_app. rewrite map_length, combine_length. lia. Qed.

Section Spans.
Variables (skip : list Z) (spans : list (Z * Z)).

Definition SV (Ls : list line) : list str := map (span_text skip (map line_text Ls)) spans.
Definition nostray (Ls : list line) : Prop := stray skip spans (map line_text Ls) = false.

Lemma SV_length Ls : length (SV Ls) = length spans.
Proof. unfold SV. apply map_length. Qed.

Lemma span_text_app A B sp : span_text skip (A ++ B) sp = span_text skip A sp ++ span_text skip B sp.
Proof. unfold span_text. rewrite map_app, concat_app. reflexivity. Qed.

Lemma SV_app A B : SV (A ++ B) = zip_app (SV A) (SV B).
Proof.
  unfold SV. rewrite map_app. rewrite <- map_zip_app. apply map_ext. intros sp. apply span_text_app.
Qed.

Lemma nostray_app A B : nostray A -> nostray B -> nostray (A ++ B).
Proof. unfold nostray, stray. rewrite map_app, existsb_app. intros -> ->. reflexivity. Qed.

Lemma SV_nil : SV [] = repeat [] (length spans).
Proof. unfold SV. induction spans as [|sp sps IH]; [reflexivity|]. cbn [map length repeat]. f_equal. exact IH. Qed.

Lemma nostray_nil : nostray [].
Proof. reflexivity. Qed.

(* lines that carry no content character (borders, separators, blank rows) *)
Lemma SV_blank Ls : Forall (fun L => lcontent skip L = []) Ls -> SV Ls = repeat [] (length spans) /\ nostray Ls.
Proof.
  induction 1 as [|L Ls HL _ [IH1 IH2]]; [split; [apply SV_nil|apply nostray_nil]|].
  change (L :: Ls) with ([L] ++ Ls). split.
  - rewrite SV_app, IH1. rewrite zip_app_blank_r by apply SV_length.
    unfold SV, span_text. cbn [map concat]. rewrite (content_at_none skip _ 0 HL). cbn.
    clear. induction spans as [|sp sps IH]; [reflexivity|]. cbn [map length repeat]. f_equal. exact IH.
  - apply nostray_app; [|exact IH2]. unfold nostray, stray. cbn [map existsb].
    rewrite (content_at_none skip _ 0 HL). reflexivity.
Qed.

(* one content line *)
Lemma SV_single L vals :
  map (fun sp => chs (filter (in_span sp) (content_at skip (line_text L) 0))) spans = vals ->
  Forall (fun x => existsb (fun sp => in_span sp x) spans = true) (content_at skip (line_text L) 0) ->
  SV [L] = vals /\ nostray [L].
Proof.
  intros H1 H2. split.
  - rewrite <- H1. unfold SV. apply map_ext. intros sp. unfold span_text, chs. cbn [map concat]. apply app_nil_r.
  - clear H1. unfold nostray, stray. cbn [map existsb]. rewrite orb_false_r.
    induction H2 as [|x C Hx _ IH]; [reflexivity|]. cbn [existsb]. rewrite Hx. cbn [negb orb]. exact IH.
Qed.

(* the lines of one row: hcat of cell rectangles *)
Variable widths : list Z.
Variable mk : list line -> line.
Hypothesis Hls : length spans = length widths.
Hypothesis Hmk : forall hs, Forall2 (line_ok skip) widths hs ->
  SV [mk hs] = map (lcontent skip) hs /\ nostray [mk hs].

Definition cell_ok (h : nat) (w : Z) (c : list line) : Prop := length c = h /\ Forall (line_ok skip w) c.

Lemma heads_tails_cells h : forall ws (cells : list (list line)),
  Forall2 (cell_ok (S h)) ws cells ->
  exists hs ts, heads_tails cells = Some (hs, ts) /\ Forall2 (line_ok skip) ws hs /\ Forall2 (cell_ok h) ws ts /\
                map (cell_content skip) cells = zip_app (map (lcontent skip) hs) (map (cell_content skip) ts).
Proof.
  induction 1 as [|w c ws cs [Hc1 Hc2] _ IH].
  - exists [], []. repeat split; constructor.
  - destruct IH as [hs [ts [I1 [I2 [I3 I4]]]]]. destruct c as [|l ls]; [discriminate|].
    inversion Hc2; subst. exists (l :: hs), (ls :: ts). cbn [heads_tails]. rewrite I1.
    split; [reflexivity|]. split; [constructor; assumption|]. split.
    + constructor; [|exact I3]. split; [simpl in Hc1; lia|assumption].
    + unfold zip_app in *. cbn [map combine]. f_equal. exact I4.
Qed.

Lemma hcat_spans : forall h cells Ls, Forall2 (cell_ok h) widths cells -> hcat h cells mk = Ok Ls ->
  SV Ls = map (cell_content skip) cells /\ nostray Ls.
Proof.
  induction h as [|h IH]; intros cells Ls Hc H.
  - cbn [hcat] in H. injection H as <-. split; [|apply nostray_nil]. rewrite SV_nil, Hls.
    clear -Hc. induction Hc as [|w c ws cs [Hc1 _] _ IH]; [reflexivity|].
    destruct c; [|discriminate]. cbn [length repeat map]. f_equal. exact IH.
  - destruct (heads_tails_cells h widths cells Hc) as [hs [ts [H1 [H2 [H3 H4]]]]].
    cbn [hcat] in H. rewrite H1 in H.
    destruct (hcat h ts mk) as [rest| |] eqn:E; cbn [bind] in H; try discriminate. injection H as <-.
    destruct (IH ts rest H3 E) as [I1 I2]. destruct (Hmk hs H2) as [M1 M2].
    change (mk hs :: rest) with ([mk hs] ++ rest). split; [|apply nostray_app; assumption].
    rewrite SV_app, M1, I1, H4. reflexivity.
Qed.
End Spans.

(* ------------------------------------------------------------------ shaping keeps the content *)
Section Shape.
Variable skip : list Z.

Lemma keepc_SP : keepc skip SP = false.
Proof. reflexivity. Qed.

Lemma content_spaces n : content skip (py_repeat SP n) = [].
Proof. unfold py_repeat. induction (Z.to_nat n) as [|k IH]; [reflexivity|]. cbn [repeat content filter]. rewrite keepc_SP. exact IH. Qed.

Lemma wide_ok_spaces n : wide_ok skip (py_repeat SP n).
Proof. unfold py_repeat. apply Forall_forall. intros c Hc. apply repeat_spec in Hc. subst. rewrite keepc_SP. discriminate. Qed.

Lemma wide_ok_app a b : wide_ok skip a -> wide_ok skip b -> wide_ok skip (a ++ b).
Proof. intros. apply Forall_app. split; assumption. Qed.

Lemma line_text_seg1 (t : str) (st : option Z) : line_text [mkSeg t st false] = t.
Proof. unfold line_text. cbn [map concat ctl txt]. apply app_nil_r. Qed.

Definition raw_ok (w : Z) (l : line) : Prop := line_len l <= w /\ wide_ok skip (line_text l).

Lemma adjust_raw_ok (l : line) w st : 0 <= w -> raw_ok w l ->
  line_ok skip w (adjust_line_length l w st true) /\ lcontent skip (adjust_line_length l w st true) = lcontent skip l.
Proof.
  intros Hw [Hl Hwo]. split; [split; [apply adjust_pad_len; exact Hw|]|].
  - unfold adjust_line_length. destruct (line_len l <? w).
    + rewrite line_text_app, line_text_seg1. apply wide_ok_app; [exact Hwo|apply wide_ok_spaces].
    + destruct (w <? line_len l) eqn:E; [lia|exact Hwo].
  - unfold adjust_line_length. destruct (line_len l <? w).
    + rewrite lcontent_app. unfold lcontent at 2. rewrite line_text_seg1, content_spaces. apply app_nil_r.
    + destruct (w <? line_len l) eqn:E; [lia|reflexivity].
Qed.

Lemma blank_line_ok w (st : option Z) : 0 <= w ->
  line_ok skip w [mkSeg (py_repeat SP w) st false] /\ lcontent skip [mkSeg (py_repeat SP w) st false] = [].
Proof.
  intros Hw. split; [split; [apply blank_line_len; exact Hw|]|]; unfold lcontent; rewrite line_text_seg1.
  - apply wide_ok_spaces.
  - apply content_spaces.
Qed.

Lemma set_shape_go_content w st : 0 <= w -> forall (ls : list line) rem, Forall (raw_ok w) ls ->
  Forall (line_ok skip w) (set_shape_go Z ls w rem st) /\
  cell_content skip (set_shape_go Z ls w rem st) = cell_content skip ls.
Proof.
  intros Hw. induction ls as [|l ls IH]; intros rem Hr.
  - cbn [set_shape_go]. destruct (blank_line_ok w st Hw) as [B1 B2]. split.
    + apply Forall_forall. intros x Hx. apply repeat_spec in Hx. subst. exact B1.
    + unfold cell_content. induction rem as [|k IHk]; [reflexivity|]. cbn [repeat map concat]. rewrite B2. exact IHk.
  - inversion Hr; subst. cbn [set_shape_go]. destruct (IH (pred rem) ltac:(assumption)) as [I1 I2].
    destruct (adjust_raw_ok l w st Hw ltac:(assumption)) as [A1 A2]. split; [constructor; assumption|].
    unfold cell_content in *. cbn [map concat]. rewrite A2, I2. reflexivity.
Qed.

(* what a row is expected to show, column by column, and the contract its cells must meet *)
Definition row_vals (widths : list Z) (r : trow) : list str :=
  map (fun '(w, c) => cell_content skip (c w)) (combine widths (r_cells r)).
Definition row_fit (widths : list Z) (r : trow) : Prop :=
  length (r_cells r) = length widths /\
  Forall (fun wc : Z * cell => Forall (raw_ok (fst wc)) (snd wc (fst wc))) (combine widths (r_cells r)).

Lemma shape_row_content widths r : Forall (fun w => 0 <= w) widths -> row_fit widths r ->
  let '(cells, h) := shape_row widths r in
  Forall2 (cell_ok skip h) widths cells /\ map (cell_content skip) cells = row_vals widths r.
Proof.
  intros Hw [Hl Hfit]. pose proof (shape_row_spec widths r Hw Hl) as Hs. unfold row_vals.
  unfold shape_row in *. revert Hl Hfit Hs. generalize (r_cells r) (r_style r). clear r. intros cs st Hl Hfit.
  set (raw := map (fun '(w, c) => (w, c w)) (combine widths cs)).
  set (h := fold_left Nat.max (map (fun wc => length (snd wc)) raw) 1%nat). clearbody h. subst raw.
  revert cs Hl Hfit. induction Hw as [|w ws Hw0 Hws IH]; intros [|c cs] Hl Hfit Hs; try discriminate.
  - split; constructor.
  - cbn [combine map] in *. inversion Hfit as [|? ? Hc Hcs]; subst. cbn [fst snd] in Hc.
    inversion Hs as [|? ? ? ? [Hlen _] Hs']; subst.
    destruct (IH cs ltac:(simpl in Hl; lia) Hcs Hs') as [I1 I2].
    unfold set_shape in *. rewrite Nat2Z.id in *.
    destruct (set_shape_go_content w st Hw0 (c w) h Hc) as [S1 S2].
    split; [constructor; [split; assumption|exact I1]|]. f_equal; [exact S2|exact I2].
Qed.
End Shape.

(* ------------------------------------------------------------------ the whole table *)
Definition skip_of (b : option boxc) : list Z := match b with Some bx => box_chars bx | None => [] end.

Lemma memZ_in c l : In c l -> memZ c l = true.
Proof. intros H. unfold memZ. apply existsb_exists. exists c. split; [exact H|apply Z.eqb_refl]. Qed.

Lemma content_none_of skip s : Forall (fun c => keepc skip c = false) s -> content skip s = [].
Proof. induction 1 as [|c s Hc _ IH]; [reflexivity|]. cbn [content filter]. rewrite Hc. exact IH. Qed.

Lemma box_run_chars (P : Z -> Prop) h cross : P h -> P cross -> forall ws, Forall P (box_run h cross ws).
Proof.
  intros Hh Hc. induction ws as [|w ws IH]; [constructor|]. destruct ws as [|w2 ws].
  - cbn [box_run]. apply Forall_forall. intros x Hx. apply repeat_spec in Hx. subst. exact Hh.
  - change (box_run h cross (w :: w2 :: ws)) with (py_repeat h w ++ cross :: box_run h cross (w2 :: ws)).
    apply Forall_app. split; [apply Forall_forall; intros x Hx; apply repeat_spec in Hx; subst; exact Hh|].
    constructor; [exact Hc|exact IH].
Qed.

Lemma spans_from_length : forall ws s g, length (spans_from ws s g) = length ws.
Proof. induction ws as [|w ws IH]; intros s g; [reflexivity|]. cbn [spans_from length]. f_equal. apply IH. Qed.

Section Tbl.
Variables (o : topts) (b : option boxc) (widths : list Z).
Hypothesis Hbox : box_agrees o b.
Hypothesis Hne : widths <> [].
Hypothesis Hw : Forall (fun w => 0 <= w) widths.

Local Notation skip := (skip_of b).
Local Notation spans := (col_spans widths (o_box o) (o_edge o)).

Lemma spans_length : length spans = length widths.
Proof. unfold col_spans. apply spans_from_length. Qed.

Lemma box_char_skipped bx c : In c (box_chars bx) -> keepc (box_chars bx) c = false.
Proof. intros Hin. unfold keepc. rewrite (memZ_in _ _ Hin), orb_true_r. reflexivity. Qed.

Ltac bchar := unfold box_chars; simpl; tauto.

Lemma box_line_blank bx s : Forall (fun c => In c (box_chars bx) \/ c = SP) s ->
  lcontent (box_chars bx) [bseg s] = [].
Proof.
  intros Hs. unfold lcontent, bseg. rewrite line_text_seg1. apply content_none_of.
  eapply Forall_impl; [|exact Hs]. intros c [Hc| ->]; [apply box_char_skipped; exact Hc|reflexivity].
Qed.

Lemma get_row_blank bx lv : lcontent (box_chars bx) [bseg (get_row bx widths lv (o_edge o))] = [].
Proof.
  apply box_line_blank. unfold get_row.
  destruct lv; cbv iota beta; (apply Forall_app; split; [destruct (o_edge o); [constructor; [left; bchar|constructor]|constructor]|]);
    (apply Forall_app; split; [apply box_run_chars; [try (left; bchar); right; reflexivity|left; bchar]
                               |destruct (o_edge o); [constructor; [left; bchar|constructor]|constructor]]).
Qed.

Lemma get_top_blank bx : lcontent (box_chars bx) [bseg (get_top bx widths)] = [].
Proof.
  apply box_line_blank. unfold get_top. constructor; [left; bchar|].
  apply Forall_app. split; [apply box_run_chars; left; bchar|constructor; [left; bchar|constructor]].
Qed.

Lemma get_bottom_blank bx : lcontent (box_chars bx) [bseg (get_bottom bx widths)] = [].
Proof.
  apply box_line_blank. unfold get_bottom. constructor; [left; bchar|].
  apply Forall_app. split; [apply box_run_chars; left; bchar|constructor; [left; bchar|constructor]].
Qed.

Lemma row_pre_blank last : Forall (fun L => lcontent skip L = []) (row_pre o b widths last).
Proof.
  unfold row_pre. destruct b as [bx|]; [|constructor]. destruct (last && o_footer o); [|constructor].
  constructor; [|constructor]. apply get_row_blank.
Qed.

Lemma row_post_blank index nrows first last r :
  Forall (fun L => lcontent skip L = []) (row_post false o b widths index nrows first last r).
Proof.
  unfold row_post. destruct b as [bx|]; [|constructor].
  apply Forall_app. split.
  - destruct (first && o_header o); [|constructor]. constructor; [apply get_row_blank|constructor].
  - match goal with |- Forall _ (if ?c then _ else _) => destruct c end; [|constructor].
    destruct (negb (o_leading o =? 0)).
    + apply Forall_forall. intros x Hx. apply repeat_spec in Hx. subst. apply get_row_blank.
    + constructor; [apply get_row_blank|constructor].
Qed.

(* a content line of a row, with its edge and divider characters *)
Lemma mk_line_spans_box bx (lc rc d : Z) (hs : list line) : b = Some bx ->
  In lc (box_chars bx) -> In rc (box_chars bx) -> In d (box_chars bx) ->
  Forall2 (line_ok skip) widths hs ->
  let mk := (if o_edge o then [bseg [lc]] else []) ++ join_cells (Some (bseg [d])) hs
            ++ (if o_edge o then [bseg [rc]] else []) in
  SV skip spans [mk] = map (lcontent skip) hs /\ nostray skip spans [mk].
Proof.
  intros Eb Hl Hr Hd. destruct Hbox as [Hb1 Hb2]. unfold col_spans. rewrite Hb1. rewrite Eb in *. clear Hb1.
  cbn [andb skip_of] in *. intros Hhs.
  assert (K : forall c, In c (box_chars bx) -> content (box_chars bx) [c] = [] /\ cell_len [c] = 1).
  { intros c Hc. split.
    - cbn [content filter]. rewrite (box_char_skipped bx c Hc). reflexivity.
    - rewrite cell_len_single. apply (box_w1_in bx); assumption. }
  destruct (K lc Hl) as [Kl1 Kl2]. destruct (K rc Hr) as [Kr1 Kr2]. destruct (K d Hd) as [Kd1 Kd2].
  assert (Hdv : lcontent (box_chars bx) [bseg [d]] = [] /\ line_len [bseg [d]] = 1).
  { split; [unfold lcontent, bseg; rewrite line_text_seg1; exact Kd1|rewrite bseg_line_len; exact Kd2]. }
  cbv zeta.
  set (start := if o_edge o then 1 else 0).
  destruct (join_cells_spans (box_chars bx) (Some (bseg [d])) 1 ltac:(lia) Hdv widths hs Hhs Hw start) as [J1 [J2 _]].
  cbv zeta in J1, J2.
  assert (HC : content_at (box_chars bx) (line_text ((if o_edge o then [bseg [lc]] else []) ++ join_cells (Some (bseg [d])) hs
                                            ++ (if o_edge o then [bseg [rc]] else []))) 0
               = content_at (box_chars bx) (line_text (join_cells (Some (bseg [d])) hs)) start).
  { rewrite !line_text_app, !content_at_app. unfold start. destruct (o_edge o).
    - unfold bseg. rewrite !line_text_seg1. rewrite (content_at_none (box_chars bx) [lc]) by exact Kl1.
      rewrite (content_at_none (box_chars bx) [rc]) by exact Kr1. rewrite Kl2, app_nil_r. reflexivity.
    - change (line_text []) with (@nil Z). cbn [content_at app]. change (cell_len []) with 0.
      rewrite app_nil_r. f_equal. }
  apply SV_single; rewrite HC; [exact J1|exact J2].
Qed.

Lemma mk_line_spans_nobox (hs : list line) : b = None -> Forall2 (line_ok skip) widths hs ->
  SV skip spans [join_cells None hs] = map (lcontent skip) hs /\ nostray skip spans [join_cells None hs].
Proof.
  intros Eb. destruct Hbox as [Hb1 Hb2]. unfold col_spans. rewrite Hb1. rewrite Eb in *. clear Hb1.
  cbn [andb skip_of] in *. intros Hhs.
  destruct (join_cells_spans [] None 0 ltac:(lia) eq_refl widths hs Hhs Hw 0) as [J1 [J2 _]].
  apply SV_single; [exact J1|exact J2].
Qed.

Lemma row_body_spans first last r body : row_fit skip widths r ->
  row_body o b widths first last r = Ok body ->
  SV skip spans body = row_vals skip widths r /\ nostray skip spans body.
Proof.
  intros Hfit. unfold row_body. pose proof (shape_row_content skip widths r Hw Hfit) as Hs.
  destruct (shape_row widths r) as [cells h]. destruct Hs as [S1 S2]. rewrite <- S2.
  assert (Hcase : (exists bx, b = Some bx) \/ b = None) by (clear; destruct b; eauto).
  destruct Hcase as [[bx Eb]|Eb].
  - pose proof (mk_line_spans_box bx) as M. revert M. rewrite Eb at 1. intros M.
    set (tri := if first then (head_left bx, head_right bx, head_vertical bx)
                else if last then (mid_left bx, mid_right bx, mid_vertical bx)
                else (foot_left bx, foot_right bx, foot_vertical bx)).
    assert (Htri : In (fst (fst tri)) (box_chars bx) /\ In (snd (fst tri)) (box_chars bx) /\ In (snd tri) (box_chars bx)).
    { unfold tri. destruct first; [|destruct last]; cbn [fst snd]; repeat split; unfold box_chars; simpl; tauto. }
    destruct tri as [[l rt] d]. cbn [fst snd] in Htri. destruct Htri as [T1 [T2 T3]]. intros H.
    eapply hcat_spans with (widths := widths); [apply spans_length| |exact S1|exact H].
    intros hs Hhs. apply (M l rt d hs Eb T1 T2 T3 Hhs).
  - pose proof mk_line_spans_nobox as M. revert M. rewrite Eb at 1. intros M H.
    eapply hcat_spans with (widths := widths); [apply spans_length| |exact S1|exact H].
    intros hs Hhs. apply (M hs Eb Hhs).
Qed.

(* expected content of the columns: the rows' cells, row after row *)
Definition table_vals (rows : list trow) : list str :=
  fold_right (fun r acc => zip_app (row_vals skip widths r) acc) (repeat [] (length widths)) rows.

Lemma row_vals_length r : row_fit skip widths r -> length (row_vals skip widths r) = length widths.
Proof. intros [Hl _]. unfold row_vals. rewrite map_length, combine_length. lia. Qed.

Lemma table_vals_length rows : Forall (row_fit skip widths) rows -> length (table_vals rows) = length widths.
Proof.
  induction 1 as [|r rows Hr _ IH]; [apply repeat_length|]. cbn [table_vals fold_right].
  rewrite zip_app_length; [apply row_vals_length; exact Hr|]. fold (table_vals rows). rewrite IH, row_vals_length by exact Hr. reflexivity.
Qed.

Lemma row_blocks_spans nrows : forall rows index blks, Forall (row_fit skip widths) rows ->
  row_blocks false o b widths index nrows rows = Ok blks ->
  SV skip spans (concat blks) = table_vals rows /\ nostray skip spans (concat blks).
Proof.
  induction rows as [|r rows IH]; intros index blks Hr H.
  - cbn [row_blocks] in H. injection H as <-. cbn [concat table_vals fold_right]. split; [|apply nostray_nil].
    rewrite SV_nil, spans_length. reflexivity.
  - inversion Hr as [|? ? Hr0 Hrs]; subst. cbn [row_blocks] in H. unfold row_block in H.
    set (last := (S index =? nrows)%nat) in *. clearbody last.
    destruct (row_body o b widths (index =? 0)%nat last r) as [body| |] eqn:E1; cbn [bind] in H; try discriminate.
    destruct (row_blocks false o b widths (S index) nrows rows) as [rest| |] eqn:E2; cbn [bind] in H; try discriminate.
    injection H as <-. destruct (IH _ _ Hrs E2) as [I1 I2].
    destruct (row_body_spans _ _ r body Hr0 E1) as [B1 B2].
    destruct (SV_blank skip spans _ (row_pre_blank last)) as [P1 P2].
    destruct (SV_blank skip spans _ (row_post_blank index nrows (index =? 0)%nat last r)) as [Q1 Q2].
    cbn [concat]. split; [|repeat apply nostray_app; assumption].
    rewrite !SV_app, P1, B1, Q1, I1. rewrite spans_length.
    pose proof (row_vals_length r Hr0) as Hrl.
    rewrite (zip_app_blank_r (row_vals skip widths r)) by exact Hrl.
    rewrite zip_app_blank_l by exact Hrl. reflexivity.
Qed.

(* Every cell in its own column: the content characters inside column j's span of the printed
   table are exactly those of column j's cells, row after row and line after line, and no content
   character lies outside the spans -- for ANY cells whose lines fit their column width. *)
Theorem render_table_cells_in_columns rows lines :
  Forall (row_fit skip widths) rows -> render_table false o b widths rows = Ok lines ->
  cells_in_columns_b widths (o_box o) (o_edge o) skip
    (map (fun e => (true, e)) (table_vals rows)) (map line_text lines) = true.
Proof.
  intros Hr H. unfold render_table in H.
  destruct (row_blocks false o b widths 0 (length rows) rows) as [blks| |] eqn:E; cbn [bind] in H; try discriminate.
  injection H as <-. destruct (row_blocks_spans _ _ _ _ Hr E) as [B1 B2].
  assert (T : Forall (fun L => lcontent skip L = []) (table_top o b widths)).
  { unfold table_top. destruct b as [bx|]; [|constructor]. destruct (o_edge o); [|constructor].
    constructor; [|constructor]. apply get_top_blank. }
  assert (Bt : Forall (fun L => lcontent skip L = []) (table_bottom o b widths)).
  { unfold table_bottom. destruct b as [bx|]; [|constructor]. destruct (o_edge o); [|constructor].
    constructor; [|constructor]. apply get_bottom_blank. }
  destruct (SV_blank skip spans _ T) as [T1 T2]. destruct (SV_blank skip spans _ Bt) as [U1 U2].
  pose proof (table_vals_length rows Hr) as Hlen.
  assert (HSV : SV skip spans (table_top o b widths ++ concat blks ++ table_bottom o b widths) = table_vals rows).
  { rewrite !SV_app, T1, B1, U1. rewrite spans_length.
    rewrite (zip_app_blank_r (table_vals rows)) by exact Hlen.
    apply zip_app_blank_l. exact Hlen. }
  assert (HNS : nostray skip spans (table_top o b widths ++ concat blks ++ table_bottom o b widths))
    by (repeat apply nostray_app; assumption).
  unfold cells_in_columns_b. fold spans. rewrite map_length, Hlen, spans_length, Nat.eqb_refl.
  unfold nostray in HNS. rewrite HNS. cbn [negb andb].
  unfold SV in HSV. rewrite <- HSV. clear.
  induction spans as [|sp sps IH]; [reflexivity|]. cbn [map forall2b]. rewrite str_eqb_refl. exact IH.
Qed.
End Tbl.
