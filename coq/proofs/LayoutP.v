(* C01 / C09: shared vocabulary of the layout proofs and the unconditional measurement bounds. *)
From RichModel Require Import Prelude Cells Segments Ratio Frames Layout SpecLayout.
From RichProofs Require Import CellsP SegmentsP SegmentsP2 FramesP FramesP2.
From Coq Require Import ZifyBool.
From RichGen Require MeasureFacts.

(* a stream fits W: no line of Segment.split_lines is wider than W *)
Definition sfits (W : Z) (s : list segZ) : Prop := Forall (fun l => line_len l <= W) (split_lines s).
(* a stream is empty or ends with the new-line segment *)
Definition nlterm (s : list segZ) : Prop := s = [] \/ exists s', s = s' ++ [nlseg].

Lemma cell_len_line_text (l : line) : cell_len (line_text l) = line_len l.
Proof.
  induction l as [|g l IH]; [reflexivity|].
  unfold line_text in *. cbn [map concat]. unfold cell_len in *. rewrite map_app.
  assert (Hs : forall a b, sumZ (a ++ b) = sumZ a + sumZ b).
  { induction a; intros; cbn [app sumZ fold_right]; [reflexivity|unfold sumZ in *; rewrite IHa; lia]. }
  rewrite Hs, IH. rewrite line_len_cons. unfold seg_len, cell_len. destruct (ctl g); reflexivity.
Qed.

Lemma fits_b_lines W (ls : list line) :
  fits_b W (map line_text ls) = true <-> Forall (fun l => line_len l <= W) ls.
Proof.
  unfold fits_b. rewrite forallb_forall, Forall_forall. split.
  - intros H l Hl. specialize (H (line_text l) (in_map _ _ _ Hl)). rewrite cell_len_line_text in H. lia.
  - intros H x Hx. apply in_map_iff in Hx as [l [<- Hl]]. specialize (H l Hl). rewrite cell_len_line_text. lia.
Qed.

(* ---------------------------------------------------------------- C09 (1): Measurement.get is normalised *)
Theorem get_normalised : forall (c : child) w, 0 <= w ->
  0 <= fst (mget c w) /\ fst (mget c w) <= snd (mget c w) /\ snd (mget c w) <= w.
Proof.
  intros c w Hw. unfold mget, measurement_get.
  destruct (w <? 1) eqn:E1; [cbn; lia|].
  destruct (cmeasure c w) as [a b]. unfold m_with_maximum, m_normalize. cbn [fst snd].
  match goal with |- context [if ?x then _ else _] => destruct x eqn:E2 end; cbn [fst snd]; lia.
Qed.

Lemma mget_le c w : snd (mget c w) <= Z.max w 0.
Proof.
  unfold mget, measurement_get. destruct (w <? 1) eqn:E1; [cbn; lia|].
  destruct (cmeasure c w) as [a b]. unfold m_with_maximum, m_normalize. cbn [fst snd].
  match goal with |- context [if ?x then _ else _] => destruct x eqn:E2 end; cbn [fst snd]; lia.
Qed.

Lemma mget_nonneg c w : 0 <= fst (mget c w) /\ fst (mget c w) <= snd (mget c w).
Proof.
  unfold mget, measurement_get. destruct (w <? 1) eqn:E1; [cbn; lia|].
  destruct (cmeasure c w) as [a b]. unfold m_with_maximum, m_normalize. cbn [fst snd].
  match goal with |- context [if ?x then _ else _] => destruct x eqn:E2 end; cbn [fst snd]; lia.
Qed.

Theorem measure_normalised : forall cf r avail m, 0 <= avail ->
  measure cf r avail = Ok m -> meas_bounds_b avail m = true.
Proof.
  intros cf r avail m Ha H. unfold measure in H. destruct (fails cf r ro0 avail); [discriminate|].
  injection H as <-. pose proof (get_normalised (den cf r ro0) avail Ha) as [A [B C]].
  unfold meas_bounds_b. lia.
Qed.

(* ---------------------------------------------------------------- T3 tie: the source of Measurement.get /
   measure_renderables still has the shape Frames.measurement_get, Layout.measure_opt, Layout.group_child and
   Layout.nomeasure_child write down (regenerated from the tree under check by tools/translate/t_layout.py) *)
Lemma measure_source_facts :
  MeasureFacts.GET_NONE_IS_CONSOLE_WIDTH = true /\ MeasureFacts.GET_GUARD_BELOW_ONE = true
  /\ MeasureFacts.GET_NORMALIZE_WITH_MAXIMUM = true /\ MeasureFacts.GET_RETURNS_NORMALIZED = true
  /\ MeasureFacts.GET_FALLBACK_ZERO_MAX = true /\ MeasureFacts.MR_EMPTY_IS_ZERO = true.
Proof. repeat split; reflexivity. Qed.

Theorem measure_opt_normalised : forall cf r mw m, 0 <= cW cf ->
  match mw with Some w => 0 <= w | None => True end ->
  measure_opt cf r mw = Ok m -> meas_bounds_b (match mw with None => cW cf | Some w => w end) m = true.
Proof. intros cf r mw m Hc Hw H. unfold measure_opt in H. eapply measure_normalised; [destruct mw; assumption|exact H]. Qed.
