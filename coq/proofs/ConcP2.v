(* C11, part 2: what one thread writes and captures is a function of its own program only
   (buffers and nesting depth are thread-local), under EVERY schedule. *)
From RichModel Require Import Prelude Conc SpecConc.
Open Scope list_scope.

(* the observations the rest of a thread's program will still produce, from its local state *)
Fixpoint fut (t : tid) (p : list instr) (b : list pid) (d : Z) (pe : list pid) : list (bool * list pid) :=
  match p with
  | [] => []
  | i :: r =>
      match i with
      | IEnter => fut t r b (d + 1) pe
      | IExitDec => fut t r b (d - 1) pe
      | ITest => if d =? 0 then emit true b ++ fut t r [] d pe else fut t r b d pe
      | IWrite => emit true b ++ fut t r [] d pe
      | IRdHooks c =>
          let b' := b ++ pe ++ match c with Some id => [(t, id)] | None => [] end in
          if d - 1 =? 0 then emit true b' ++ fut t r [] (d - 1) [] else fut t r b' (d - 1) []
      | IRenderTxt id => fut t r b d (pe ++ [(t, id)])
      | IExtend => fut t r (b ++ pe) d []
      | IEndCap => emit false b ++ fut t r [] d pe
      | _ => fut t r b d pe
      end
  end.

Fixpoint nss (p : list instr) : bool :=
  match p with
  | [] => true
  | IStart :: _ | IStop :: _ | IStopA _ :: _ | ILoop :: _ | ICheckDone :: _ => false
  | _ :: r => nss r
  end.
Fixpoint no_ss (ops : list op) : bool :=
  match ops with [] => true | Start :: _ | Stop :: _ | StopAuto _ :: _ | RefreshLoop :: _ => false | _ :: r => no_ss r end.

Lemma strip_app a b : strip (a ++ b) = strip a ++ strip b.
Proof. induction a as [|x a IH]; simpl; auto. destruct x; simpl; rewrite ?IH; auto. Qed.

Lemma strip_obs_snoc o k p : strip_obs (o ++ [(k, p)]) = strip_obs o ++ emit k (strip p).
Proof.
  unfold strip_obs. rewrite map_app, filter_app. f_equal. simpl. unfold emit.
  destruct (strip p); reflexivity.
Qed.

Lemma is_nil_true {A} (l : list A) : is_nil l = true -> l = [].
Proof. destruct l; simpl; congruence. Qed.

Lemma nss_app a b : nss (a ++ b) = nss a && nss b.
Proof. induction a as [|x a IH]; simpl; auto. destruct x; auto. Qed.

Lemma nss_print_rest rep h c : nss (print_rest rep h c) = true.
Proof. destruct rep, h, c; reflexivity. Qed.

Definition local_fut (t : tid) (ts : tstate) : list (bool * list pid) :=
  strip_obs (olog ts) ++ fut t (prog ts) (strip (buf ts)) (depth ts) (strip (pend ts)).

Lemma fut_print_rest t rep h c r b d pe :
  fut t (print_rest rep h c ++ r) b d pe = fut t (IRdHooks c :: r) b d pe.
Proof.
  destruct rep, h, c; cbn [print_rest check_seq app fut]; rewrite <- ?app_assoc; cbn [app];
    rewrite ?app_nil_r; reflexivity.
Qed.

(* one step of thread t preserves  (what it has observed so far) ++ (what it will still observe) *)
Lemma exec_local_fut rep t s ts i r s' ts' :
  nss (i :: r) = true ->
  exec rep t s (set_prog ts r) i = Some (s', ts') ->
  local_fut t ts' = local_fut t (set_prog ts (i :: r)) /\ nss (prog ts') = true.
Proof.
  intros Hn He. unfold local_fut.
  destruct i; cbn [exec] in He; cbn [nss] in Hn; try discriminate Hn.
  - destruct (acquire (getl s l) t); inversion He; subst; auto.
  - destruct (release (getl s l) t); inversion He; subst; auto.
  - inversion He; subst; auto.
  - inversion He; subst; auto.
  - inversion He; subst; clear He. cbn [set_prog prog depth buf pend olog fut].
    destruct (depth ts =? 0) eqn:E; cbn [set_prog prog depth buf pend olog].
    + split; [| cbn [flush_seq app nss]; auto]. cbn [flush_seq app fut]. reflexivity.
    + auto.
  - inversion He; subst; auto.
  - cbn [set_prog prog depth buf pend olog] in *.
    destruct (is_nil (buf ts)) eqn:E; inversion He; subst; clear He;
      cbn [set_prog set_olog set_buf prog depth buf pend olog fut strip].
    + apply is_nil_true in E. rewrite E. cbn. auto.
    + rewrite strip_obs_snoc, <- app_assoc. auto.
  - inversion He; subst; clear He. cbn [set_prog prog depth buf pend olog].
    split; [| rewrite nss_app, nss_print_rest; auto].
    rewrite fut_print_rest. reflexivity.
  - inversion He; subst; clear He. cbn [set_prog set_pend prog depth buf pend olog fut].
    rewrite strip_app. match goal with |- context [shape ?x] => destruct (shape x) end; cbn [strip]; rewrite app_nil_r; auto.
  - inversion He; subst; clear He. cbn [set_prog set_pend prog depth buf pend olog fut].
    rewrite strip_app. auto.
  - inversion He; subst; clear He. cbn [set_prog set_pend prog depth buf pend olog fut].
    rewrite strip_app. cbn [strip]. rewrite app_nil_r. auto.
  - inversion He; subst; clear He. cbn [set_prog set_pend set_buf prog depth buf pend olog fut strip].
    rewrite strip_app. auto.
  - inversion He; subst; clear He. cbn [set_prog set_olog set_buf prog depth buf pend olog fut strip].
    rewrite strip_obs_snoc, <- app_assoc. auto.
  - inversion He; subst; clear He. cbn [set_prog set_buf prog depth buf pend olog fut].
    rewrite strip_app. cbn [strip]. rewrite app_nil_r. auto.
  - inversion He; subst; auto.
  - inversion He; subst; auto.
  - inversion He; subst; auto.
  - destruct (hooks s); inversion He; subst; auto.
  - inversion He; subst; auto.
  - inversion He; subst; auto.
  - destruct (existsb (Nat.eqb t0) (fin s)); inversion He; subst; auto.
Qed.

Lemma step_local_fut rep st t st' u :
  nss (prog (th st u)) = true ->
  step rep st t = Some st' ->
  local_fut u (th st' u) = local_fut u (th st u) /\ nss (prog (th st' u)) = true.
Proof.
  intros Hn Hs. unfold step in Hs.
  destruct (prog (th st t)) as [|i r] eqn:Ep; [discriminate|].
  destruct (exec rep t (sh st) (set_prog (th st t) r) i) as [[s' ts']|] eqn:Ee; [|discriminate].
  inversion Hs; subst; clear Hs. cbn [th upd]. unfold upd.
  destruct (Nat.eqb u t) eqn:Eu; [|auto].
  apply Nat.eqb_eq in Eu. subst u. rewrite Ep in Hn.
  destruct (exec_local_fut _ _ _ _ _ _ _ _ Hn Ee) as [H1 H2]. split; auto.
  rewrite H1. unfold local_fut. cbn [set_prog prog depth buf pend olog]. rewrite Ep. reflexivity.
Qed.

Lemma run_local_fut rep sched : forall st u,
  nss (prog (th st u)) = true ->
  local_fut u (th (run rep sched st) u) = local_fut u (th st u).
Proof.
  induction sched as [|t r IH]; intros st u Hn; cbn [run]; auto.
  destruct (step rep st t) as [st'|] eqn:Es; auto.
  destruct (step_local_fut _ _ _ _ u Hn Es) as [H1 H2]. rewrite IH; auto.
Qed.

(* the instruction-level future of a compiled program is the op-level serial specification *)
Lemma nss_compile ops : no_ss ops = true -> nss (compile ops) = true.
Proof.
  induction ops as [|o r IH]; cbn [no_ss compile flat_map]; auto.
  intros H. change (flat_map compile_op r) with (compile r). rewrite nss_app.
  destruct o; try discriminate H; rewrite (IH H); try reflexivity.
  destruct refresh; reflexivity.
Qed.

Lemma fut_compile t ops : forall b d,
  no_ss ops = true -> fut t (compile ops) b d [] = sspec t ops b d.
Proof.
  induction ops as [|o r IH]; intros b d H; cbn [compile flat_map]; [reflexivity|].
  change (flat_map compile_op r) with (compile r).
  destruct o; cbn [no_ss] in H; try discriminate H; cbn [sspec].
  - (* Print *) cbn [compile_op print_seq app fut]. replace (d + 1 - 1) with d by lia.
    destruct (d =? 0); rewrite ?IH; auto.
  - cbn [compile_op app fut]. apply IH; auto.
  - cbn [compile_op check_seq app fut]. destruct (d - 1 =? 0); rewrite IH; auto.
  - cbn [compile_op app fut]. apply IH; auto.
  - cbn [compile_op check_seq app fut]. destruct (d - 1 =? 0); rewrite IH; cbn [emit is_nil app]; auto.
  - destruct refresh.
    + cbn [compile_op refresh_seq print_seq check_seq app fut]. rewrite app_nil_r.
      replace (d + 1 + 1 - 1) with (d + 1) by lia. replace (d + 1 - 1) with d by lia.
      destruct (d + 1 =? 0); destruct (d =? 0); rewrite ?IH; cbn [app]; auto.
    + cbn [compile_op app fut]. apply IH; auto.
  - cbn [compile_op refresh_seq print_seq check_seq app fut]. rewrite app_nil_r.
    replace (d + 1 + 1 - 1) with (d + 1) by lia. replace (d + 1 - 1) with d by lia.
    destruct (d + 1 =? 0); destruct (d =? 0); rewrite ?IH; cbn [app]; auto.
  - cbn [compile_op refresh_seq print_seq check_seq app fut]. rewrite app_nil_r.
    replace (d + 1 + 1 - 1) with (d + 1) by lia. replace (d + 1 - 1) with d by lia.
    destruct (d + 1 =? 0); destruct (d =? 0); rewrite ?IH; cbn [app]; auto.
Qed.

(* MAIN: under every schedule, at every moment, what thread u has written and captured so far,
   followed by what its remaining program will write and capture, is the serial specification of
   u's own program -- whatever the other threads do (they may start/stop the live display). *)
Theorem thread_obs_serial rep live sh0 r0 progs sched u :
  no_ss (progs u) = true ->
  local_fut u (th (run rep sched (init_state live sh0 r0 progs)) u) = sspec u (progs u) [] 0.
Proof.
  intros H. rewrite run_local_fut.
  - unfold local_fut, init_state, init_t. cbn. apply fut_compile; auto.
  - cbn. apply nss_compile; auto.
Qed.

Corollary finished_thread_obs rep live sh0 r0 progs sched u :
  no_ss (progs u) = true ->
  prog (th (run rep sched (init_state live sh0 r0 progs)) u) = [] ->
  strip_obs (olog (th (run rep sched (init_state live sh0 r0 progs)) u)) = sspec u (progs u) [] 0.
Proof.
  intros H Hp. pose proof (thread_obs_serial rep live sh0 r0 progs sched u H) as T.
  unfold local_fut in T. rewrite Hp in T. cbn [fut] in T. rewrite app_nil_r in T. exact T.
Qed.

(* the file entries of thread u are exactly the writes in its ghost log, in order *)
Definition wlog (ts : tstate) : list (list item) := map snd (filter (fun e => fst e) (olog ts)).

Lemma exec_file_log rep t s ts i s' ts' u :
  exec rep t s ts i = Some (s', ts') ->
  proj u (file s') = proj u (file s) ++ (if Nat.eqb t u then skipn (length (wlog ts)) (wlog ts') else [])
  /\ (exists l, wlog ts' = wlog ts ++ l).
Proof.
  intros He. unfold proj, wlog.
  destruct i; cbn [exec] in He;
    try (inversion He; subst; clear He; cbn; rewrite ?skipn_all, ?app_nil_r;
         split; [destruct (Nat.eqb t u); rewrite ?app_nil_r; reflexivity | exists []; rewrite app_nil_r; reflexivity]).
  - destruct (acquire (getl s l) t); inversion He; subst; clear He. destruct l; cbn; rewrite skipn_all;
      (split; [destruct (Nat.eqb t u); rewrite ?app_nil_r; reflexivity | exists []; rewrite app_nil_r; reflexivity]).
  - destruct (release (getl s l) t); inversion He; subst; clear He. destruct l; cbn; rewrite skipn_all;
      (split; [destruct (Nat.eqb t u); rewrite ?app_nil_r; reflexivity | exists []; rewrite app_nil_r; reflexivity]).
  - destruct (depth ts =? 0); inversion He; subst; clear He; cbn; rewrite skipn_all;
      (split; [destruct (Nat.eqb t u); rewrite ?app_nil_r; reflexivity | exists []; rewrite app_nil_r; reflexivity]).
  - destruct (is_nil (buf ts)); inversion He; subst; clear He; cbn; rewrite skipn_all;
      (split; [destruct (Nat.eqb t u); rewrite ?app_nil_r; reflexivity | exists []; rewrite app_nil_r; reflexivity]).
  - destruct (is_nil (buf ts)); inversion He; subst; clear He; cbn [file set_file olog set_olog set_buf].
    + rewrite skipn_all. split; [destruct (Nat.eqb t u); rewrite ?app_nil_r; reflexivity | exists []; rewrite app_nil_r; reflexivity].
    + rewrite !filter_app, !map_app. cbn [filter fst snd map]. rewrite skipn_app, skipn_all, Nat.sub_diag. cbn.
      split; [| eexists; reflexivity]. destruct (Nat.eqb t u); cbn; rewrite ?app_nil_r; reflexivity.
  - destruct (is_nil (buf ts)); inversion He; subst; clear He; cbn [file set_file olog set_olog set_buf set_record];
      rewrite !filter_app, !map_app; cbn [filter fst snd map]; rewrite ?app_nil_r, skipn_all;
      (split; [destruct (Nat.eqb t u); rewrite ?app_nil_r; reflexivity | exists []; rewrite app_nil_r; reflexivity]).
  - destruct (started s); inversion He; subst; clear He; cbn; rewrite skipn_all;
      (split; [destruct (Nat.eqb t u); rewrite ?app_nil_r; reflexivity | exists []; rewrite app_nil_r; reflexivity]).
  - destruct (started s); inversion He; subst; clear He; cbn; rewrite skipn_all;
      (split; [destruct (Nat.eqb t u); rewrite ?app_nil_r; reflexivity | exists []; rewrite app_nil_r; reflexivity]).
  - destruct (hooks s); inversion He; subst; clear He; cbn; rewrite skipn_all;
      (split; [destruct (Nat.eqb t u); rewrite ?app_nil_r; reflexivity | exists []; rewrite app_nil_r; reflexivity]).
  - destruct (existsb (Nat.eqb t0) (fin s)); inversion He; subst; clear He; cbn; rewrite skipn_all;
      (split; [destruct (Nat.eqb t u); rewrite ?app_nil_r; reflexivity | exists []; rewrite app_nil_r; reflexivity]).
  - destruct (done s); inversion He; subst; clear He; cbn; rewrite skipn_all;
      (split; [destruct (Nat.eqb t u); rewrite ?app_nil_r; reflexivity | exists []; rewrite app_nil_r; reflexivity]).
  - destruct (done s); inversion He; subst; clear He; cbn; rewrite skipn_all;
      (split; [destruct (Nat.eqb t u); rewrite ?app_nil_r; reflexivity | exists []; rewrite app_nil_r; reflexivity]).
Qed.

Lemma step_file_log rep st t st' :
  (forall u, proj u (file (sh st)) = wlog (th st u)) -> step rep st t = Some st' ->
  forall u, proj u (file (sh st')) = wlog (th st' u).
Proof.
  intros H Hs u. unfold step in Hs.
  destruct (prog (th st t)) as [|i r] eqn:Ep; [discriminate|].
  destruct (exec rep t (sh st) (set_prog (th st t) r) i) as [[s' ts']|] eqn:Ee; [|discriminate].
  inversion Hs; subst; clear Hs. cbn [sh th]. unfold upd.
  destruct (exec_file_log _ _ _ _ _ _ _ u Ee) as [H1 [l H2]].
  rewrite H1, H. destruct (Nat.eqb u t) eqn:E.
  - apply Nat.eqb_eq in E. subst u. rewrite Nat.eqb_refl, H2.
    change (wlog (set_prog (th st t) r)) with (wlog (th st t)).
    rewrite skipn_app, skipn_all, Nat.sub_diag. reflexivity.
  - rewrite Nat.eqb_sym, E, app_nil_r. reflexivity.
Qed.

Lemma run_file_log rep sched : forall st,
  (forall u, proj u (file (sh st)) = wlog (th st u)) ->
  forall u, proj u (file (sh (run rep sched st))) = wlog (th (run rep sched st) u).
Proof.
  induction sched as [|t r IH]; intros st H; cbn [run]; auto.
  destruct (step rep st t) eqn:E; auto. apply IH. eapply step_file_log; eauto.
Qed.

Lemma only_strip_obs k o :
  only k (strip_obs o) = nonempty_strips (map snd (filter (fun e => Bool.eqb (fst e) k) o)).
Proof.
  unfold only, strip_obs, nonempty_strips.
  induction o as [|[b p] o IH]; [reflexivity|].
  simpl. destruct (Bool.eqb b k) eqn:Eb; destruct (strip p) eqn:Es; simpl;
    rewrite ?Eb, ?Es; simpl; rewrite ?IH; reflexivity.
Qed.

(* the file, projected on thread u, once u has finished: exactly the serial writes of u *)
Theorem writes_of_finished_thread rep live sh0 r0 progs sched u :
  no_ss (progs u) = true ->
  let st := run rep sched (init_state live sh0 r0 progs) in
  prog (th st u) = [] ->
  nonempty_strips (proj u (file (sh st))) = only true (sspec u (progs u) [] 0).
Proof.
  intros H st Hp. subst st.
  rewrite <- (finished_thread_obs rep live sh0 r0 progs sched u H Hp).
  rewrite only_strip_obs, run_file_log; [|intro; reflexivity].
  unfold wlog. f_equal. f_equal. apply filter_ext. intros [[|] p]; reflexivity.
Qed.

Theorem captures_of_finished_thread rep live sh0 r0 progs sched u :
  no_ss (progs u) = true ->
  let st := run rep sched (init_state live sh0 r0 progs) in
  prog (th st u) = [] ->
  nonempty_strips (map snd (filter (fun e => negb (fst e)) (olog (th st u)))) = only false (sspec u (progs u) [] 0).
Proof.
  intros H st Hp. subst st.
  rewrite <- (finished_thread_obs rep live sh0 r0 progs sched u H Hp).
  rewrite only_strip_obs. erewrite filter_ext; [reflexivity|]. intros [[|] p]; reflexivity.
Qed.
