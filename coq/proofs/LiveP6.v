(* C10 proofs, part 7: histories that GO ON after an exception (the caller catches it), in
   particular a display that is started again after its stop() raised: the frame is then still on
   the screen (`Parked`), the next start() takes it over and the next draw erases it. *)
From RichModel Require Import Prelude Cells TermGrid Live SpecLive.
From RichGen Require Import LiveCodes.
From RichProofs Require Import TermGridP LiveP CursorP LiveP2 LiveP3 LiveP4 LiveP5.
From Coq Require Import ZifyBool.

Lemma parked_idle_inv : forall c s, Parked c s -> g_live s = false -> SInv c s.
Proof.
  intros c s ([A B] & Es & Hh & Hs) Hg. constructor; try assumption.
  - rewrite Es. assumption.
  - intros X. congruence.
  - intros X. congruence.
Qed.

(* start() on a parked display *)
Lemma start_parked : forall c s, Parked c s ->
  (negb (c_progress c) || fits c (pre_refresh c s) (Hn c)) = true ->
  Outc c s (start c s).
Proof.
  intros c s ([A B] & Es & Hh & Hs) Hf. unfold start. rewrite Es.
  set (s1 := emit (set_flags s true (S (hooks s)) true) cursor_off).
  pose proof (live_at_cursor (Hn c) (T c s) (P_rows s) (R_rows s) false A) as K. cbv zeta in K.
  destruct K as (K1 & K2 & K3).
  assert (I1 : SInv c s1).
  { constructor; unfold T, P_rows, R_rows, shape_ok; subst s1;
      cbn [emit set_flags out g_printed g_shown g_live started hooks shape].
    - rewrite interp_app. exact K1.
    - rewrite interp_app. exact K2.
    - rewrite Hh. reflexivity.
    - intros _. exact Hs.
    - intros _. reflexivity. }
  assert (M1 : movedk c s s1 (length (g_printed s))).
  { exists cursor_off. split; [reflexivity|].
    pose proof (floor_le_row _ _ _ A) as F. unfold P_rows in F. rewrite map_length in F.
    destruct A as [(Hps & _) _]. apply NoUp_stays; [apply (NoUp_vis false)|assumption|assumption]. }
  destruct (c_progress c) eqn:Ep.
  2:{ split; [intros _; exact I1|]. split; [discriminate|exact M1]. }
  cbn [negb orb] in Hf.
  assert (Hf' : op_ok c s1 Refresh = true).
  { cbn [op_ok]. replace (started s1) with true by reflexivity. cbn [negb orb].
    unfold fits, pre_refresh, frame_lines in *. rewrite Ep in *. exact Hf. }
  pose proof (step_f c s1 Refresh I1 Hf') as (S1 & S2 & M2). cbn [Live.step] in S1, S2, M2.
  destruct (refresh_dich c s1) as [L|[R1 R2]].
  - (* no fault in this refresh: it cannot raise *)
    assert (Nr : snd (refresh c s1) = false).
    { rewrite L. pose proof (step_inv (clr c) s1 Refresh (clr_nofault c) (proj2 (SInv_clr c s1) I1)
                               ltac:(now rewrite op_ok_clr)) as [X _]. exact X. }
    destruct (refresh c s1) as [s2 raised]. cbn [fst snd] in *. subst raised. cbn [andb fst snd].
    split; [intros _; now apply S1|]. split; [discriminate|].
    apply (movedk_trans c s s1 s2); [exact M1|exact M2].
  - destruct (refresh c s1) as [s2 raised]. cbn [fst snd] in *. subst raised. cbn [andb].
    pose proof (SInv_quiet c s1 s2 R2 I1) as I2. destruct R2 as (Q1 & Q2 & Q3 & Q4 & Q5 & Q6 & Q7).
    assert (M12 : movedk c s s2 (length (g_printed s))) by (apply (movedk_trans c s s1 s2); [exact M1|exact M2]).
    destruct (start_cleans c); cbn [fst snd].
    + destruct (emit_on_view c s2 (emit (set_flags s2 false (pred (hooks s2)) false) cursor_on)
                  (SInv_view c s2 I2) eq_refl eq_refl eq_refl eq_refl eq_refl) as [V M3].
      split; [discriminate|]. split.
      * intros _. right. split; [exact V|]. split; [reflexivity|]. split.
        -- cbn [fst emit set_flags hooks]. rewrite Q6. subst s1. cbn [emit set_flags hooks]. exact Hh.
        -- unfold shape_ok. cbn [fst emit set_flags g_live shape g_shown]. rewrite Q4, Q7, Q3. exact Hs.
      * apply (movedk_trans c s s2); [exact M12|]. rewrite Q2 in M3. exact M3.
    + split; [discriminate|]. split; [intros _; left; exact I2|exact M12].
Qed.

(* ---------- histories that continue after an exception ---------- *)
Definition op_ok2 (c : cfg) (s : st) (o : op) : bool :=
  match o with
  | Start => started s || ((is_none (shape s) || g_live s)
                           && (negb (c_progress c) || fits c (pre_refresh c s) (Hn c)))
  | PrintRaise => true
  | Update _ false => true
  | Stop => op_ok c s Stop
  | _ => (started s || negb (g_live s)) && op_ok c s o   (* nothing is printed onto a parked frame *)
  end.

Lemma step2 : forall c s o, After c s -> op_ok2 c s o = true ->
  After c (fst (Live.step c s o)) /\ movedk c s (fst (Live.step c s o)) (length (g_printed s)).
Proof.
  intros c s o Ha Hok.
  assert (FromInv : forall o', SInv c s -> op_ok_f c s o' = true ->
            After c (fst (Live.step c s o')) /\ movedk c s (fst (Live.step c s o')) (length (g_printed s))).
  { intros o' Hi Ho. pose proof (step_f c s o' Hi Ho) as (S1 & S2 & M). split; [|exact M].
    destruct (snd (Live.step c s o')) eqn:Er; [now apply S2|left; now apply S1]. }
  destruct Ha as [Hi|Hp].
  - (* the full invariant holds: op_ok2 implies op_ok_f *)
    apply FromInv; [assumption|]. destruct Hi as [A B C D E].
    destruct o; cbn [op_ok2 op_ok_f] in *; try reflexivity;
      try (apply andb_prop in Hok; destruct Hok as [_ Hok]; exact Hok); try exact Hok.
    + destruct r; [apply andb_prop in Hok; destruct Hok as [_ Hok]; exact Hok|reflexivity].
    + cbn [op_ok]. destruct (started s) eqn:Es; [reflexivity|]. cbn [orb] in *.
      destruct (g_live s) eqn:Eg; [specialize (E eq_refl); congruence|]. rewrite orb_false_r in Hok. exact Hok.
  - destruct (g_live s) eqn:Eg.
    2:{ (* nothing on the screen: an ordinary stopped display *)
        pose proof (parked_idle_inv c s Hp Eg) as Hi. apply FromInv; [assumption|].
        destruct Hp as (_ & Es & _ & Hs). unfold shape_ok in Hs. rewrite Eg in Hs.
        destruct o; cbn [op_ok2 op_ok_f] in *; try reflexivity;
          try (apply andb_prop in Hok; destruct Hok as [_ Hok]; exact Hok); try exact Hok.
        + destruct r; [apply andb_prop in Hok; destruct Hok as [_ Hok]; exact Hok|reflexivity].
        + cbn [op_ok]. rewrite Es, Hs. cbn [orb is_none andb] in *. rewrite Es in Hok. cbn [orb] in Hok.
          rewrite Hs in Hok. exact Hok. }
    pose proof Hp as (V & Es & Hh & Hs).
    destruct o; cbn [op_ok2] in Hok; rewrite ?Es, ?Eg in Hok; cbn [orb negb andb] in Hok; try discriminate.
    + (* PrintRaise *) cbn [Live.step fst]. split; [right; exact Hp|now apply movedk_same].
    + (* Update f false *) destruct r; [discriminate|]. cbn [Live.step fst]. split; [|now apply movedk_same].
      right. destruct V as [A B]. split; [split; assumption|]. repeat split; assumption.
    + (* Start *) cbn [Live.step]. rewrite orb_true_r in Hok. cbn [andb] in Hok.
      pose proof (start_parked c s Hp Hok) as (S1 & S2 & M). split; [|exact M].
      destruct (snd (start c s)) eqn:Er; [now apply S2|left; now apply S1].
    + (* Stop: not started *) cbn [Live.step]. unfold stop. rewrite Es. cbn [negb fst].
      split; [right; exact Hp|now apply movedk_same].
Qed.

Fixpoint run_all (c : cfg) (s : st) (ops : list op) : st :=
  match ops with [] => s | o :: r => run_all c (fst (Live.step c s o)) r end.

Fixpoint ops_ok2 (c : cfg) (s : st) (ops : list op) : bool :=
  match ops with [] => true | o :: r => op_ok2 c s o && ops_ok2 c (fst (Live.step c s o)) r end.

Fixpoint all_chunks (c : cfg) (s : st) (ops : list op) : list (nat * str) :=
  match ops with
  | [] => []
  | o :: r => let s1 := fst (Live.step c s o) in
              (length (g_printed s), skipn (length (out s)) (out s1)) :: all_chunks c s1 r
  end.

Lemma floor_after : forall c s, After c s -> (length (g_printed s) <= cursor_row (T c s))%nat.
Proof.
  intros c s Ha. destruct (After_view c s Ha) as [A _]. pose proof (floor_le_row _ _ _ A) as F.
  unfold P_rows in F. now rewrite map_length in F.
Qed.

Lemma run_all_ok : forall c ops s, After c s -> ops_ok2 c s ops = true ->
  After c (run_all c s ops) /\ cursor_chunks_ok (Hn c) (T c s) (all_chunks c s ops) = true.
Proof.
  intros c ops. induction ops as [|o r IH]; intros s Ha Hok; [split; [assumption|reflexivity]|].
  cbn [ops_ok2] in Hok. apply andb_prop in Hok. destruct Hok as [H1 H2].
  pose proof (step2 c s o Ha H1) as (A1 & (x & E & St)).
  specialize (IH _ A1 H2). destruct IH as [I1 I2]. cbn [run_all all_chunks]. split; [exact I1|].
  cbn [cursor_chunks_ok]. rewrite E, skipn_app, Nat.sub_diag, skipn_all. cbn [skipn app].
  pose proof (interp_min_fst (Hn c) x (T c s) (cursor_row (T c s))) as F.
  specialize (St (cursor_row (T c s))). pose proof (floor_after c s Ha) as Fl.
  destruct (interp_min (Hn c) (T c s) x (cursor_row (T c s))) as [t2 m]. cbn [fst snd] in *.
  assert (Hle : (length (g_printed s) <=? m)%nat = true) by (apply Nat.leb_le; lia).
  rewrite Hle. cbn [andb]. subst t2.
  assert (ET : interp (Hn c) (T c s) x = T c (fst (Live.step c s o))) by (unfold T; now rewrite E, interp_app).
  rewrite ET. exact I2.
Qed.

(* every history in which the caller catches the exceptions and goes on -- restarts after a faulted
   stop() included: the screen is right at the end and the cursor never went above the region *)
Theorem screen_invariant_resilient : forall c f0 ops, ops_ok2 c (st0 c f0) ops = true ->
  let s := run_all c (st0 c f0) ops in
  view_ok_b (Hn c) (g_live s) (g_printed s) (g_shown s) (out s) = true
  /\ cursor_vis_ok_b (Hn c) (started s) (out s) = true
  /\ cursor_ok_b (Hn c) (all_chunks c (st0 c f0) ops) = true.
Proof.
  intros c f0 ops Hok. cbv zeta.
  pose proof (run_all_ok c ops (st0 c f0) (or_introl (SInv_init c f0)) Hok) as [A C].
  destruct (view_of_view c _ (After_view c _ A)) as [V1 V2]. split; [assumption|]. split; [assumption|exact C].
Qed.

(* non-vacuity: the seed-r3m3 shape -- fault in stop()'s refresh, start again, tall frame, print, stop *)
Definition rs_fault_cfg (progress : bool) (k : nat) (in_finally : bool) : cfg :=
  mkCfg progress false OEllipsis 12 3 (Some k) None true true true true true true true false in_finally.
Definition rs_fault_ops : list op :=
  [Start; Refresh; Stop; Start; Update (w_lines 7) true; Print (w_lines 1); Refresh; Stop].
Example resilient_nonvacuous :
  forallb (fun k => ops_ok2 (rs_fault_cfg false k true) (st0 (rs_fault_cfg false k true) (w_lines 2)) rs_fault_ops
                    && ops_ok2 (rs_fault_cfg true k true) (st0 (rs_fault_cfg true k true) (w_lines 2)) rs_fault_ops)
          (seq 0 8) = true.
Proof. vm_compute. reflexivity. Qed.
(* with the restore outside a finally (seed C10-r3m3) the fault in stop() (render call 1) leaves
   "visible" behind: the tall frame of the second session does not meet the side condition ... *)
Example resilient_flat_excluded :
  ops_ok2 (rs_fault_cfg false 1 false) (st0 (rs_fault_cfg false 1 false) (w_lines 2)) rs_fault_ops = false.
Proof. vm_compute. reflexivity. Qed.
(* ... and indeed the screen is wrong *)
Lemma restore_not_in_finally_refuted :
  let c := rs_fault_cfg false 1 false in
  view_of c (run_all c (st0 c (w_lines 2)) rs_fault_ops) = false.
Proof. vm_compute. reflexivity. Qed.
