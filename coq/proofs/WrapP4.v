(* C02 proofs, part 4: gluing.  Text.wrap (fold, no_wrap = false, justify other than "full") keeps every
   non-whitespace character in order, for texts without tab characters; from
   WrapP.divide_line_lines_fit (central lemma) + WrapP2 (per-pass facts). *)
From RichModel Require Import Prelude Cells SpecCells Wrap SpecWrap.
From RichGen Require Import UnicodeSpace WrapFacts.
From RichProofs Require Import CellsP WrapP WrapP2 WrapP5.
From Coq Require Import ZifyBool.

Lemma mono_from_mono2 : forall l a, mono_from a l -> mono2 a l.
Proof. induction l as [|b l IH]; intros a H; cbn in *; [exact Logic.I|]. destruct H as [H1 H2]. split; [exact H1|apply IH; exact H2]. Qed.

Lemma line_pieces_is_pieces_of s offs : line_pieces s offs = pieces_of s offs.
Proof. reflexivity. Qed.

Section WrapKeeps.
Variable S : Type.
Variable seqb : S -> S -> bool.
Variable null : S.
Variable add : S -> S -> S.
Variable fx : fixes.
Arguments plain {S}.

(* one source line *)
Lemma wrap_line_keeps w j ts (line : text S) :
  2 <= w -> j <> J_FULL ->
  nonspace (concat (map plain (wrap_line S seqb null add fx w j OV_FOLD ts false line))) = nonspace (plain line).
Proof.
  intros Hw Hj. unfold wrap_line.
  set (line' := if existsb (fun c => c =? TAB) (plain line) then expand_tabs S seqb fx line ts else line).
  assert (Hl' : nonspace (plain line') = nonspace (plain line)).
  { unfold line'. destruct (existsb (fun c => c =? TAB) (plain line)); [apply expand_tabs_keeps|reflexivity]. }
  rewrite <- Hl'. clearbody line'.
  replace (OV_FOLD =? OV_FOLD) with true by reflexivity.
  rewrite justify_lines_map by exact Hj. rewrite !map_map.
  set (offs := divide_line (plain line') w true).
  pose proof (divide_line_lines_fit (plain line') w Hw) as Hfit. fold offs in Hfit.
  pose proof (divide_line_sorted (plain line') w true ltac:(lia)) as Hmono. fold offs in Hmono.
  rewrite line_pieces_is_pieces_of in Hfit. rewrite <- (divide_plain S seqb fx line' offs) in Hfit.
  rewrite nonspace_concat, map_map.
  transitivity (concat (map (fun l => nonspace (plain l)) (divide S seqb fx line' offs))).
  - f_equal. apply map_ext_in. intros l Hl.
    change (nonspace (plain (post1 S fx w j l)) = nonspace (plain l)).
    apply post1_keeps; [lia|].
    rewrite Forall_forall in Hfit. apply Hfit. apply in_map. exact Hl.
  - rewrite <- map_map, <- nonspace_concat, divide_plain.
    rewrite pieces_concat; [reflexivity|]. apply mono_from_mono2. exact Hmono.
Qed.


(* justify = "full" *)
Lemma map_but_last_keeps (f h : text S -> text S) : forall L,
  (forall x, In x L -> nonspace (plain (h (f x))) = nonspace (plain x) /\ nonspace (plain (h x)) = nonspace (plain x)) ->
  nonspace (concat (map plain (map h (map_but_last f L)))) = nonspace (concat (map plain L)).
Proof.
  induction L as [|x L IH]; intros H; [reflexivity|].
  destruct L as [|y L].
  - cbn [map_but_last map concat]. rewrite !nonspace_app. f_equal. apply (proj2 (H x (or_introl eq_refl))).
  - change (map_but_last f (x :: y :: L)) with (f x :: map_but_last f (y :: L)).
    cbn [map concat]. rewrite !nonspace_app. rewrite IH by (intros z Hz; apply H; right; exact Hz).
    f_equal; [apply (proj1 (H x (or_introl eq_refl)))|cbn [map concat]; rewrite nonspace_app; reflexivity].
Qed.

Lemma wrap_line_keeps_full w ts (line : text S) :
  2 <= w ->
  nonspace (concat (map plain (wrap_line S seqb null add fx w J_FULL OV_FOLD ts false line))) = nonspace (plain line).
Proof.
  intros Hw. unfold wrap_line.
  set (line' := if existsb (fun c => c =? TAB) (plain line) then expand_tabs S seqb fx line ts else line).
  assert (Hl' : nonspace (plain line') = nonspace (plain line)).
  { unfold line'. destruct (existsb (fun c => c =? TAB) (plain line)); [apply expand_tabs_keeps|reflexivity]. }
  rewrite <- Hl'. clearbody line'.
  replace (OV_FOLD =? OV_FOLD) with true by reflexivity.
  unfold justify_lines. cbn [Z.eqb J_FULL J_LEFT J_CENTER J_RIGHT Pos.eqb].
  set (offs := divide_line (plain line') w true).
  pose proof (divide_line_lines_fit (plain line') w Hw) as Hfit. fold offs in Hfit.
  pose proof (divide_line_sorted (plain line') w true ltac:(lia)) as Hmono. fold offs in Hmono.
  rewrite line_pieces_is_pieces_of in Hfit. rewrite <- (divide_plain S seqb fx line' offs) in Hfit.
  assert (Hov : OV_FOLD <> OV_ELLIPSIS) by (unfold OV_FOLD, OV_ELLIPSIS; lia).
  rewrite map_but_last_keeps.
  - (* rstrip_end *)
    rewrite map_map.
    transitivity (nonspace (concat (map plain (divide S seqb fx line' offs)))).
    + rewrite !nonspace_concat, !map_map. f_equal. apply map_ext. intros l. apply rstrip_end_nonspace.
    + rewrite divide_plain, pieces_concat; [reflexivity|]. apply mono_from_mono2. exact Hmono.
  - intros x Hx. apply in_map_iff in Hx as [l [<- Hl]].
    assert (Hf : cell_len (rstrip (plain (rstrip_end S w l))) <= w).
    { rewrite rstrip_end_rstrip. rewrite Forall_forall in Hfit. apply Hfit. apply in_map. exact Hl. }
    split.
    + rewrite truncate_keeps; [apply justify_full_nonspace|lia|exact Hov|].
      apply justify_full_fits; [lia|exact Hf].
    + apply truncate_keeps; [lia|exact Hov|exact Hf].
Qed.

(* the whole text: split on newlines, wrap every line.  All strings (tabs, newlines, zero-width and
   double-width characters, any whitespace), all span sets, all widths >= 2, both model variants. *)
Theorem wrap_keeps_nonspace_nofull : forall (t : text S) w j ts,
  2 <= w -> j <> J_FULL ->
  same_nonspace_b (plain t) (map plain (wrap S seqb null add fx t w j OV_FOLD ts false)) = true.
Proof.
  intros t w j ts Hw Hj. unfold same_nonspace_b.
  assert (E : nonspace (concat (map plain (wrap S seqb null add fx t w j OV_FOLD ts false))) = nonspace (plain t)).
  { unfold wrap. replace (false || (OV_FOLD =? OV_IGNORE)) with false by reflexivity.
    rewrite <- (split_blank_keeps S seqb fx t NL) by (vm_compute; reflexivity).
    set (lines := split S seqb fx t NL false true). clearbody lines.
    induction lines as [|l lines IH]; [reflexivity|].
    cbn [map concat]. rewrite map_app, concat_app, !nonspace_app, IH. f_equal.
    apply wrap_line_keeps; assumption. }
  rewrite E. apply str_eqb_refl.
Qed.

(* (a) at full strength: every justify mode *)
Theorem wrap_keeps_nonspace_all : forall (t : text S) w j ts,
  2 <= w ->
  same_nonspace_b (plain t) (map plain (wrap S seqb null add fx t w j OV_FOLD ts false)) = true.
Proof.
  intros t w j ts Hw. destruct (Z.eq_dec j J_FULL) as [->|Hj]; [|apply wrap_keeps_nonspace_nofull; assumption].
  unfold same_nonspace_b.
  assert (E : nonspace (concat (map plain (wrap S seqb null add fx t w J_FULL OV_FOLD ts false))) = nonspace (plain t)).
  { unfold wrap. replace (false || (OV_FOLD =? OV_IGNORE)) with false by reflexivity.
    rewrite <- (split_blank_keeps S seqb fx t NL) by (vm_compute; reflexivity).
    set (lines := split S seqb fx t NL false true). clearbody lines.
    induction lines as [|l lines IH]; [reflexivity|].
    cbn [map concat]. rewrite map_app, concat_app, !nonspace_app, IH. f_equal.
    apply wrap_line_keeps_full; assumption. }
  rewrite E. apply str_eqb_refl.
Qed.
End WrapKeeps.
