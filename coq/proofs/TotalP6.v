(* C14: Text.wrap keeps every span inside its line (0 <= start <= end <= len of the line), for the
   options Console.print hands down (justify default, overflow fold, no_wrap False), repaired divide.
   One invariant per pass: divide (on top of C02's explicit span lists, WrapP3.line_loop_eq), split,
   expand_tabs, rstrip_end, truncate. *)
From RichModel Require Import Prelude Cells Wrap.
From RichProofs Require Import WrapP WrapP2 WrapP3.
From Coq Require Import ZifyBool Sorting.Sorted Permutation.

Section Ranges.
Variable S : Type.
Variable seqb : S -> S -> bool.
Variable null : S.
Variable add : S -> S -> S.

Definition ok_sp (n : Z) (sp : span S) : Prop :=
  0 <= sp_start S sp /\ sp_start S sp <= sp_end S sp /\ sp_end S sp <= n.
Definition okT (t : text S) : Prop := Forall (ok_sp (tlen S t)) (spans t).

Lemma ok_sp_mono n m sp : ok_sp n sp -> n <= m -> ok_sp m sp.
Proof. unfold ok_sp. intros [A [B C]] H. repeat split; lia. Qed.

Lemma zlen_nonneg' {A} (l : list A) : 0 <= zlen l. Proof. unfold zlen. lia. Qed.

Lemma zlen_zslice (s : str) a b : 0 <= a -> a <= b -> b <= zlen s -> zlen (zslice s a b) = b - a.
Proof.
  intros Ha Hab Hb. unfold zslice, zlen in *. rewrite firstn_length, skipn_length. lia.
Qed.

(* ------------------------------------------------------------------ divide *)
(* every stack element starts at or after the current line start and lies within the text *)
Definition RI (a n : Z) (stack : list (elt S)) : Prop :=
  forall x, In x stack -> a <= kst S x /\ kst S x <= sp_end S (snd x) /\ sp_end S (snd x) <= n.

Lemma lsf_ok a b n stack x : RI a n stack -> a <= b -> In x (pre_lt S b stack) ->
  ok_sp (b - a) (snd (lsf S a b x)).
Proof.
  intros HR Hab Hx.
  assert (Hlt := pre_lt_lt S b stack x Hx).
  assert (Hin : In x stack) by (rewrite (pre_post S b stack); apply in_or_app; left; exact Hx).
  destruct (HR x Hin) as [H1 [H2 H3]].
  destruct x as [k [[s e] st]]. unfold kst, lsf, ok_sp, sp_start, sp_end, sp_style, span_split in *.
  cbn [fst snd] in *.
  destruct (b <? s) eqn:E1; cbn [fst snd]; [lia|].
  destruct (e <=? b) eqn:E2; cbn [fst snd]; lia.
Qed.

Lemma remf_ok b n x y : kst S x < b -> kst S x <= sp_end S (snd x) -> sp_end S (snd x) <= n ->
  In y (remf S b x) -> b <= kst S y /\ kst S y <= sp_end S (snd y) /\ sp_end S (snd y) <= n.
Proof.
  intros Hlt H2 H3 Hy. destruct x as [k [[s e] st]].
  unfold remf, kst, sp_start, sp_end, span_split, span_nonempty in *. cbn [fst snd] in *.
  destruct (b <? s) eqn:E1; cbn [fst snd] in Hy; [destruct Hy|].
  destruct (e <=? b) eqn:E2; cbn [fst snd] in Hy; [destruct Hy|].
  unfold sp_start, sp_end in Hy. cbn [fst snd] in Hy.
  destruct (Z.min e b <? e); [|destruct Hy]. destruct Hy as [Hy|[]]. subst y. cbn [fst snd]. lia.
Qed.

Lemma RI_step t a b n stack : Inv S t a stack -> RI a n stack -> a <= b ->
  RI b n (rev (flat_map (remf S b) (pre_lt S b stack)) ++ post_lt S b stack).
Proof.
  intros HI HR Hab x Hx. apply in_app_or in Hx as [Hx|Hx].
  - apply in_rev in Hx. apply in_flat_map in Hx as [x0 [Hx0 Hy]].
    assert (Hlt := pre_lt_lt S b stack x0 Hx0).
    assert (Hin : In x0 stack) by (rewrite (pre_post S b stack); apply in_or_app; left; exact Hx0).
    destruct (HR x0 Hin) as [H1 [H2 H3]]. eapply remf_ok; eassumption.
  - assert (Hge := post_lt_ge S b stack (inv_sorted S t a stack HI) x Hx).
    assert (Hin : In x stack) by (rewrite (pre_post S b stack); apply in_or_app; right; exact Hx).
    destruct (HR x Hin) as [H1 [H2 H3]]. repeat split; lia.
Qed.

Definition R3 (r : Z * Z) (ls : list (span S)) : Prop := Forall (ok_sp (snd r - fst r)) ls.

Lemma F2_nil_R (rs : list (Z * Z)) : Forall2 R3 rs (map (fun _ => []) rs).
Proof. induction rs; cbn [map]; constructor; [constructor|assumption]. Qed.

Lemma divide_spans_range t n fx : fix_order fx = true -> forall ranges a stack od,
  chain3 a ranges -> Inv S t a stack -> RI a n stack ->
  Forall2 R3 ranges (divide_spans S seqb fx ranges stack od).
Proof.
  intros Hfx. induction ranges as [|[s e] rs IH]; intros a stack od Hch HI HR.
  - constructor.
  - destruct stack as [|x0 stk].
    + cbn [divide_spans]. apply F2_nil_R.
    + rewrite divide_spans_cons by (auto; discriminate).
      cbn [chain3 fst snd] in Hch. destruct Hch as [Es [Hle Hch]]. subst s.
      destruct (line_loop_eq S seqb a e (x0 :: stk) [] od []) as [H1 H2]. rewrite H1, H2.
      cbn [rev app]. constructor.
      * unfold R3. cbn [fst snd]. apply Forall_forall. intros sp Hsp.
        apply in_map_iff in Hsp as [x [Hx Hin]]. subst sp.
        apply sort_by_in in Hin. apply in_map_iff in Hin as [y [Hy Hin]]. subst x.
        eapply lsf_ok; eassumption.
      * apply (IH e); [exact Hch|apply (inv_step S t a e); assumption|apply (RI_step t a e n); assumption].
Qed.

Lemma zip_ranges_bounds n : forall l a, 0 <= a -> mono_from3 a (l ++ [n]) ->
  forall r, In r (zip_ranges (a :: l ++ [n])) -> 0 <= fst r /\ fst r <= snd r /\ snd r <= n.
Proof.
  induction l as [|b l IH]; intros a Ha Hm r Hr.
  - cbn [app zip_ranges] in Hr. destruct Hr as [Hr|[]]. subst r. cbn [app mono_from3] in Hm. cbn [fst snd]. lia.
  - cbn [app] in Hm, Hr. cbn [mono_from3] in Hm. destruct Hm as [Hab Hm].
    change (zip_ranges (a :: b :: l ++ [n])) with ((a, b) :: zip_ranges (b :: l ++ [n])) in Hr.
    destruct Hr as [Hr|Hr].
    + subst r. cbn [fst snd]. split; [lia|]. split; [lia|].
      clear IH. revert b Hab Hm. induction l as [|c l IHl]; intros b Hab Hm; cbn [app mono_from3] in Hm; [lia|].
      destruct Hm as [Hbc Hm]. specialize (IHl c ltac:(lia) Hm). lia.
    + apply (IH b); [lia|exact Hm|exact Hr].
Qed.

Lemma assemble_range (base0 : S) (s : str) ranges sps :
  Forall2 R3 ranges sps ->
  (forall r, In r ranges -> 0 <= fst r /\ fst r <= snd r /\ snd r <= zlen s) ->
  Forall okT (map (fun ps => mkText (fst ps) (snd ps) base0)
                  (combine (map (fun r => zslice s (fst r) (snd r)) ranges) sps)).
Proof.
  induction 1 as [|r ls rs lss HP HF IH]; intros Hb; cbn [map combine]; constructor.
  - unfold okT, tlen. cbn [plain spans fst snd].
    destruct (Hb r (or_introl eq_refl)) as [B1 [B2 B3]]. rewrite zlen_zslice by lia. exact HP.
  - apply IH. intros r' Hr'. apply Hb. right. exact Hr'.
Qed.

Theorem divide_range fx (t : text S) offs :
  fix_order fx = true -> okT t -> mono_from3 0 (offs ++ [tlen S t]) ->
  Forall okT (divide S seqb fx t offs).
Proof.
  intros Hfx Hok Hm. destruct offs as [|o os].
  - cbn [divide]. constructor; [exact Hok|constructor].
  - unfold divide. cbv beta iota zeta.
    apply assemble_range; [|apply zip_ranges_bounds; [lia|exact Hm]].
    destruct (spans t) as [|sp0 sps0] eqn:Esp; [apply F2_nil_R|]. rewrite <- Esp.
    apply (divide_spans_range t (tlen S t) fx Hfx _ 0).
    + apply mono_chain3. exact Hm.
    + apply inv_init.
    + intros x Hx. apply sort_by_in in Hx. apply in_rev in Hx.
      assert (Hs : In (snd x) (spans t)).
      { unfold orig in Hx. rewrite <- (WrapP3.index_from_snd (spans t) 0). apply in_map. exact Hx. }
      unfold okT in Hok. rewrite Forall_forall in Hok. destruct (Hok _ Hs) as [A [B C]].
      unfold kst. repeat split; lia.
Qed.

(* ------------------------------------------------------------------ split *)
Lemma mono2_3 : forall l a, mono2 a l -> mono_from3 a l.
Proof. induction l as [|b l IH]; intros a H; [exact Logic.I|]. destruct H as [H1 H2]. split; [exact H1|apply IH, H2]. Qed.
Lemma mono_3 : forall l a, mono_from a l -> mono_from3 a l.
Proof. induction l as [|b l IH]; intros a H; [exact Logic.I|]. destruct H as [H1 H2]. split; [exact H1|apply IH, H2]. Qed.

Lemma concat_map_single {A B} (f : A -> B) l : concat (map (fun p => [f p]) l) = map f l.
Proof. induction l as [|x l IH]; [reflexivity|]. cbn [map concat app]. rewrite IH. reflexivity. Qed.

Lemma Forall_removelast {A} (P : A -> Prop) l : Forall P l -> Forall P (removelast l).
Proof.
  induction 1 as [|x l Hx Hl IH]; [constructor|]. cbn [removelast]. destruct l; [constructor|].
  constructor; assumption.
Qed.
Lemma Forall_filter {A} (P : A -> Prop) f l : Forall P l -> Forall P (filter f l).
Proof. induction 1 as [|x l Hx Hl IH]; [constructor|]. cbn [filter]. destruct (f x); [constructor|]; assumption. Qed.

Theorem split_range fx (t : text S) sep inc ab :
  fix_order fx = true -> okT t -> Forall okT (split S seqb fx t sep inc ab).
Proof.
  intros Hfx Hok. unfold split.
  destruct (sep_positions sep (plain t) 0) as [|p ps] eqn:E; [constructor; [exact Hok|constructor]|].
  rewrite <- E.
  assert (H : Forall okT (if inc then divide S seqb fx t (map (fun p => p + 1) (sep_positions sep (plain t) 0))
                          else filter (fun l => negb (str_eqb (plain l) [sep]))
                                 (divide S seqb fx t (concat (map (fun p => [p; p + 1]) (sep_positions sep (plain t) 0)))))).
  { destruct inc.
    - apply divide_range; [exact Hfx|exact Hok|].
      rewrite <- (concat_map_single (fun p => p + 1)). apply mono2_3.
      apply (sep_positions_mono sep (fun p => [p + 1]) (fun p => or_intror eq_refl) (plain t) 0).
    - apply Forall_filter. apply divide_range; [exact Hfx|exact Hok|]. apply mono2_3.
      apply (sep_positions_mono sep (fun p => [p; p + 1]) (fun p => or_introl eq_refl) (plain t) 0). }
  destruct (negb ab && ends_with (plain t) sep); [apply Forall_removelast|]; exact H.
Qed.

(* ------------------------------------------------------------------ trimming passes *)
Lemma trim_ok n mx l : Forall (ok_sp n) l -> 0 <= mx -> Forall (ok_sp mx) (trim_spans S mx l).
Proof.
  intros H Hmx. unfold trim_spans. apply Forall_forall. intros sp Hsp.
  apply in_map_iff in Hsp as [sp0 [Hm Hin]]. apply filter_In in Hin as [Hin Hf].
  rewrite Forall_forall in H. destruct (H sp0 Hin) as [A [B C]]. subst sp.
  destruct (sp_end S sp0 <? mx) eqn:E; unfold ok_sp, sp_start, sp_end in *; cbn [fst snd]; lia.
Qed.

Lemma set_plain_range (t : text S) s : okT t -> okT (set_plain S t s).
Proof.
  intros Hok. unfold set_plain. destruct (str_eqb s (plain t)); [exact Hok|].
  destruct (zlen s <? tlen S t) eqn:E; unfold okT, tlen in *; cbn [plain spans].
  - eapply trim_ok; [exact Hok|apply zlen_nonneg'].
  - eapply Forall_impl; [|exact Hok]. intros sp Hsp. eapply ok_sp_mono; [exact Hsp|lia].
Qed.

Lemma right_crop_range (t : text S) amount : okT t -> 0 <= tlen S t - amount <= tlen S t -> okT (right_crop S t amount).
Proof.
  intros Hok Ha. unfold right_crop, okT, tlen in *. cbn [plain spans].
  assert (E : zlen (firstn (Z.to_nat (zlen (plain t) - amount)) (plain t)) = zlen (plain t) - amount).
  { unfold zlen in *. rewrite firstn_length. lia. }
  rewrite E. eapply trim_ok; [exact Hok|lia].
Qed.

Lemma rstrip_end_range w (t : text S) : okT t -> okT (rstrip_end S w t).
Proof.
  intros Hok. unfold rstrip_end. destruct (w <? tlen S t) eqn:E; [|exact Hok].
  destruct (0 <? zlen (plain t) - zlen (rstrip (plain t))) eqn:E2; [|exact Hok].
  apply right_crop_range; [exact Hok|].
  assert (0 <= zlen (rstrip (plain t))) by apply zlen_nonneg'. unfold tlen in *. lia.
Qed.

Lemma truncate_fold_range w (t : text S) : okT t -> okT (truncate S w OV_FOLD false t).
Proof.
  intros Hok. unfold truncate. cbn [andb]. change (OV_FOLD =? OV_IGNORE) with false. cbv iota.
  change (OV_FOLD =? OV_ELLIPSIS) with false. cbv iota.
  destruct (w <? cell_len (plain t)); [apply set_plain_range|]; exact Hok.
Qed.

(* ------------------------------------------------------------------ expand_tabs *)
Lemma shift_ok n d l : Forall (ok_sp n) l -> 0 <= d -> Forall (ok_sp (d + n)) (shift_spans S d l).
Proof.
  intros H Hd. unfold shift_spans. apply Forall_forall. intros sp Hsp. apply in_map_iff in Hsp as [sp0 [Hm Hin]].
  subst sp. rewrite Forall_forall in H. destruct (H sp0 Hin) as [A [B C]].
  unfold ok_sp, sp_start, sp_end in *. cbn [fst snd]. lia.
Qed.

Lemma zlen_app' {A} (a b : list A) : zlen (a ++ b) = zlen a + zlen b.
Proof. unfold zlen. rewrite app_length. lia. Qed.

Lemma append_text_range (t o : text S) : okT t -> okT o -> okT (append_text S t o).
Proof.
  intros Ht Ho. unfold append_text. destruct (tlen S o =? 0); [exact Ht|].
  unfold okT, tlen in *. cbn [plain spans]. rewrite zlen_app'.
  assert (N1 := zlen_nonneg' (plain t)). assert (N2 := zlen_nonneg' (plain o)).
  apply Forall_app. split.
  - eapply Forall_impl; [|exact Ht]. intros sp Hsp. eapply ok_sp_mono; [exact Hsp|lia].
  - constructor; [unfold ok_sp, sp_start, sp_end; cbn [fst snd]; lia|]. apply shift_ok; [exact Ho|lia].
Qed.

Lemma append_str_range (t : text S) s st : okT t -> okT (append_str S t s st).
Proof.
  intros Ht. unfold append_str. destruct (zlen s =? 0); [exact Ht|].
  unfold okT, tlen in *. cbn [plain spans]. rewrite zlen_app'.
  assert (N1 := zlen_nonneg' (plain t)). assert (N2 := zlen_nonneg' s).
  apply Forall_app. split.
  - eapply Forall_impl; [|exact Ht]. intros sp Hsp. eapply ok_sp_mono; [exact Hsp|lia].
  - constructor; [unfold ok_sp, sp_start, sp_end; cbn [fst snd]; lia|constructor].
Qed.

Lemma replace_last_len (s : str) c : ends_with s TAB = true -> zlen (replace_last s c) = zlen s.
Proof.
  intros H. unfold replace_last. destruct s as [|x s]; [discriminate H|].
  assert (H' : x :: s = removelast (x :: s) ++ [last (x :: s) 0]) by (apply app_removelast_last; discriminate).
  apply (f_equal (@length Z)) in H'. rewrite app_length in H'. cbn [length] in H'.
  rewrite zlen_app'. unfold zlen. cbn [length]. lia.
Qed.

Lemma expand_part_range ts (st : text S * Z) part :
  okT (fst st) -> okT part -> okT (fst (expand_part S ts st part)).
Proof.
  destruct st as [result pos]. cbn [fst]. intros Hr Hp. unfold expand_part.
  destruct (ends_with (plain part) TAB) eqn:E; [|cbn [fst]; apply append_text_range; assumption].
  assert (Hp' : okT (mkText (replace_last (plain part) SP) (spans part) (base part))).
  { unfold okT, tlen in *. cbn [plain spans]. rewrite replace_last_len by exact E. exact Hp. }
  match goal with |- context [if ?c then _ else _] => destruct c end; cbn [fst].
  - apply append_str_range. apply append_text_range; assumption.
  - apply append_text_range; assumption.
Qed.

Lemma fold_expand_range ts parts : forall st, okT (fst st) -> Forall okT parts ->
  okT (fst (fold_left (expand_part S ts) parts st)).
Proof.
  induction parts as [|p ps IH]; intros st Hs Hp; [exact Hs|]. cbn [fold_left]. inversion Hp; subst.
  apply IH; [apply expand_part_range; assumption|assumption].
Qed.

Lemma Forall_concat_map {A B} (P : B -> Prop) (f : A -> list B) l :
  (forall x, In x l -> Forall P (f x)) -> Forall P (concat (map f l)).
Proof.
  induction l as [|x l IH]; intros H; [constructor|]. cbn [map concat]. apply Forall_app. split.
  - apply H. left. reflexivity.
  - apply IH. intros y Hy. apply H. right. exact Hy.
Qed.

Theorem expand_tabs_range fx (t : text S) ts : fix_order fx = true -> okT t -> okT (expand_tabs S seqb fx t ts).
Proof.
  intros Hfx Hok. unfold expand_tabs. destruct (existsb (fun c => c =? TAB) (plain t)); [|exact Hok].
  set (parts := concat (map (fun l => split S seqb fx l TAB true false) (split S seqb fx t NL true false))).
  assert (Hparts : Forall okT parts).
  { apply Forall_concat_map. intros l Hl. apply split_range; [exact Hfx|].
    assert (H := split_range fx t NL true false Hfx Hok). rewrite Forall_forall in H. apply H. exact Hl. }
  assert (H := fold_expand_range ts parts (mkText [] [] (base t), 0) ltac:(constructor) Hparts).
  destruct (fold_left (expand_part S ts) parts (mkText [] [] (base t), 0)) as [result pos]. exact H.
Qed.

(* ------------------------------------------------------------------ Text.wrap with the print options *)
Theorem wrap_range fx (t : text S) W : fix_order fx = true -> okT t -> 1 <= W ->
  Forall okT (wrap S seqb null add fx t W J_DEFAULT OV_FOLD 8 false).
Proof.
  intros Hfx Hok HW. unfold wrap. apply Forall_concat_map. intros line Hline.
  assert (Hl : okT line).
  { assert (H := split_range fx t NL false true Hfx Hok). rewrite Forall_forall in H. apply H. exact Hline. }
  unfold wrap_line. change (false || (OV_FOLD =? OV_IGNORE)) with false. cbv iota.
  set (line' := if existsb (fun c => c =? TAB) (plain line) then expand_tabs S seqb fx line 8 else line).
  assert (Hl' : okT line').
  { unfold line'. destruct (existsb _ (plain line)); [apply expand_tabs_range; assumption|exact Hl]. }
  assert (Hd : Forall okT (divide S seqb fx line' (divide_line (plain line') W (OV_FOLD =? OV_FOLD)))).
  { apply divide_range; [exact Hfx|exact Hl'|]. apply mono_3. apply divide_line_sorted. exact HW. }
  unfold justify_lines. change (J_DEFAULT =? J_LEFT) with false. change (J_DEFAULT =? J_CENTER) with false.
  change (J_DEFAULT =? J_RIGHT) with false. change (J_DEFAULT =? J_FULL) with false. cbv iota.
  apply Forall_forall. intros x Hx. apply in_map_iff in Hx as [y [Hy Hin]]. subst x.
  apply in_map_iff in Hin as [z [Hz Hin]]. subst y.
  apply truncate_fold_range. apply rstrip_end_range. rewrite Forall_forall in Hd. apply Hd. exact Hin.
Qed.
End Ranges.
