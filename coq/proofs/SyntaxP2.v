(* C17 lemmas, part 2: strings and lines (split, remove_suffix, take_lines), the ranged path of
   Syntax.highlight under the lexer hypothesis, and the displayed lines against the source lines. *)
From RichModel Require Import Prelude Cells Segments Syntax SpecSyntax.
From RichProofs Require Import CellsP SegmentsP SyntaxP.
From Coq Require Import ZifyBool Lia.

(* the first m lines of s, each with its newline (all of s when it has fewer newlines) *)
Fixpoint take_lines (s : str) (m : nat) : str :=
  match s with
  | [] => []
  | c :: r =>
      match m with
      | O => []
      | S m' => if c =? NL then c :: take_lines r m' else c :: take_lines r m
      end
  end.
Fixpoint nls (s : str) : nat :=
  match s with [] => O | c :: r => if c =? NL then S (nls r) else nls r end.
Definition ensure_nl (s : str) : str := if ends_nl s then s else s ++ [NL].

Lemma count_nl_nls s : count_nl s = Z.of_nat (nls s).
Proof.
  unfold count_nl, zlen. induction s as [|c r IH]; [reflexivity|].
  cbn [filter nls]. destruct (c =? NL); cbn [length]; lia.
Qed.

(* ------------------------------------------------------------------ split_nl *)
Lemma split_nl_nonempty s : split_nl s <> [].
Proof. destruct s as [|c r]; cbn [split_nl]; [discriminate|]. destruct (c =? NL); [discriminate|]. destruct (split_nl r); discriminate. Qed.

Lemma split_nl_length s : length (split_nl s) = S (nls s).
Proof.
  induction s as [|c r IH]; [reflexivity|]. cbn [split_nl nls]. destruct (c =? NL).
  - cbn [length]. rewrite IH. reflexivity.
  - destruct (split_nl r) as [|l ls] eqn:E; [exfalso; exact (split_nl_nonempty r E)|]. cbn [length] in *. exact IH.
Qed.

Lemma ends_nl_snoc s : ends_nl (s ++ [NL]) = true.
Proof. induction s as [|c r IH]; [reflexivity|]. cbn [app ends_nl]. destruct (r ++ [NL]) eqn:E; [destruct r; discriminate|]. exact IH. Qed.

Lemma removelast_snoc {A} (s : list A) x : removelast (s ++ [x]) = s.
Proof. apply removelast_last. Qed.

(* a string that ends with a newline is its removelast plus that newline *)
Lemma ends_nl_shape s : ends_nl s = true -> s = removelast s ++ [NL].
Proof.
  induction s as [|c r IH]; [discriminate|]. cbn [ends_nl]. destruct r as [|d r'].
  - intros H. assert (c = NL) by lia. subst. reflexivity.
  - intros H. specialize (IH H). cbn [removelast app] in *. f_equal. exact IH.
Qed.

Lemma split_nl_snoc s : split_nl (s ++ [NL]) = split_nl s ++ [[]].
Proof.
  induction s as [|c r IH]; [reflexivity|]. cbn [app split_nl]. destruct (c =? NL).
  - rewrite IH. reflexivity.
  - rewrite IH. destruct (split_nl r) as [|l ls] eqn:E; [exfalso; exact (split_nl_nonempty r E)|]. reflexivity.
Qed.

(* Text.split after Text.remove_suffix: up to two final empty lines are lost *)
Definition tsr (s : str) : list str := text_split (remove_suffix_nl s).

Lemma text_split_prefix s :
  exists j, text_split s = firstn j (split_nl s) /\ forallb blank (skipn j (split_nl s)) = true.
Proof.
  unfold text_split. destruct (ends_nl s) eqn:E.
  - assert (Hs : split_nl s = split_nl (removelast s) ++ [[]]).
    { rewrite (ends_nl_shape s E) at 1. apply split_nl_snoc. }
    rewrite Hs, removelast_snoc.
    exists (length (split_nl (removelast s))). rewrite firstn_app_exact by reflexivity.
    rewrite skipn_app_exact by reflexivity. split; reflexivity.
  - exists (length (split_nl s)). rewrite firstn_all, skipn_all. split; reflexivity.
Qed.

Lemma firstn_firstn_min {A} i j (l : list A) : firstn i (firstn j l) = firstn (Nat.min i j) l.
Proof. apply firstn_firstn. Qed.

Lemma forallb_firstn {A} (f : A -> bool) n l : forallb f l = true -> forallb f (firstn n l) = true.
Proof.
  revert l. induction n; intros [|x l] H; try reflexivity. cbn [firstn forallb] in *.
  apply andb_true_iff in H as [H1 H2]. rewrite H1, (IHn _ H2). reflexivity.
Qed.

Lemma tsr_prefix s :
  exists j, tsr s = firstn j (split_nl s) /\ forallb blank (skipn j (split_nl s)) = true.
Proof.
  unfold tsr, remove_suffix_nl. destruct (ends_nl s) eqn:E; [|apply text_split_prefix].
  destruct (text_split_prefix (removelast s)) as [j [H1 H2]].
  assert (Hs : split_nl s = split_nl (removelast s) ++ [[]]).
  { rewrite (ends_nl_shape s E) at 1. apply split_nl_snoc. }
  rewrite Hs.
  set (P := split_nl (removelast s)) in *.
  exists (Nat.min j (length P)). split.
  - rewrite H1. rewrite firstn_app. replace (Nat.min j (length P) - length P)%nat with 0%nat by lia.
    cbn [firstn]. rewrite app_nil_r. rewrite <- firstn_firstn_min, firstn_all. reflexivity.
  - rewrite skipn_app. rewrite forallb_app. apply andb_true_iff. split.
    + destruct (Nat.le_gt_cases j (length P)).
      * rewrite Nat.min_l by lia. exact H2.
      * rewrite Nat.min_r by lia. rewrite skipn_all. reflexivity.
    + apply forallb_skipn. reflexivity.
Qed.

(* ------------------------------------------------------------------ pfx_blank under firstn / skipn *)
Lemma pfx_blank_of_prefix j E (Y : list str) :
  forallb blank (skipn j Y) = true -> pfx_blank (firstn E (firstn j Y)) (firstn E Y).
Proof.
  intros H. rewrite firstn_firstn_min.
  exists (skipn (Nat.min E j) (firstn E Y)). split.
  - rewrite <- (firstn_skipn (Nat.min E j) (firstn E Y)) at 1. f_equal.
    rewrite firstn_firstn_min. f_equal. lia.
  - destruct (Nat.le_gt_cases E j).
    + rewrite Nat.min_l by lia. rewrite skipn_all2; [reflexivity|]. rewrite firstn_length. lia.
    + rewrite Nat.min_r by lia. rewrite skipn_firstn_comm. apply forallb_firstn. exact H.
Qed.

Lemma pfx_blank_skipn n a b : pfx_blank a b -> pfx_blank (skipn n a) (skipn n b).
Proof.
  intros [r [-> H]]. rewrite skipn_app. exists (skipn (n - length a) r). split; [reflexivity|].
  apply forallb_skipn. exact H.
Qed.

Lemma pfx_blank_length a b : pfx_blank a b -> (length a <= length b)%nat.
Proof. intros [r [-> _]]. rewrite app_length. lia. Qed.

(* ------------------------------------------------------------------ take_lines *)
Lemma take_lines_0 s : take_lines s 0 = [].
Proof. destruct s; reflexivity. Qed.

Lemma take_lines_all s m : (nls s < m)%nat -> take_lines s m = s.
Proof.
  revert m. induction s as [|c r IH]; intros m H; [reflexivity|]. cbn [take_lines nls] in *.
  destruct m as [|m]; [lia|]. destruct (c =? NL); f_equal; apply IH; lia.
Qed.

Lemma take_lines_app a b m :
  take_lines (a ++ b) m = if (m <=? nls a)%nat then take_lines a m else a ++ take_lines b (m - nls a).
Proof.
  revert m. induction a as [|c r IH]; intros m.
  - cbn [app nls]. destruct m; cbn [Nat.leb]; [destruct b; reflexivity|]. rewrite Nat.sub_0_r. reflexivity.
  - cbn [app take_lines nls]. destruct m as [|m]; [reflexivity|].
    destruct (c =? NL) eqn:E.
    + rewrite IH. cbn [Nat.leb Nat.sub]. destruct (m <=? nls r)%nat; reflexivity.
    + rewrite IH. destruct (S m <=? nls r)%nat; reflexivity.
Qed.

Lemma split_nl_take_lines s : forall m,
  split_nl (take_lines s m) =
  if (m <=? nls s)%nat then firstn m (split_nl s) ++ [[]] else split_nl s.
Proof.
  induction s as [|c r IH]; intros m.
  - cbn [take_lines nls split_nl]. destruct m; reflexivity.
  - cbn [take_lines nls]. destruct m as [|m].
    + cbn [Nat.leb firstn app split_nl]. reflexivity.
    + destruct (c =? NL) eqn:E.
      * cbn [split_nl]. rewrite E, IH. cbn [Nat.leb]. destruct (m <=? nls r)%nat; reflexivity.
      * cbn [split_nl]. rewrite E, IH. destruct (S m <=? nls r)%nat eqn:El; [|reflexivity].
        destruct (split_nl r) as [|l ls] eqn:Es; [exfalso; exact (split_nl_nonempty r Es)|].
        cbn [firstn app]. reflexivity.
Qed.

(* the ensured final newline never survives remove_suffix *)
Lemma remove_suffix_take_ensure c m : (1 <= m)%nat ->
  remove_suffix_nl (take_lines (ensure_nl c) m) = remove_suffix_nl (take_lines c m).
Proof.
  intros Hm. unfold ensure_nl. destruct (ends_nl c) eqn:E; [reflexivity|].
  rewrite take_lines_app. destruct (m <=? nls c)%nat eqn:El; [reflexivity|].
  assert (Hlt : (nls c < m)%nat) by (apply Nat.leb_gt; exact El).
  rewrite (take_lines_all c m Hlt).
  assert (Ht : take_lines [NL] (m - nls c) = [NL]).
  { destruct (m - nls c)%nat eqn:Ed; [lia|]. reflexivity. }
  rewrite Ht. unfold remove_suffix_nl. rewrite ends_nl_snoc, removelast_snoc, E. reflexivity.
Qed.

Lemma remove_suffix_ensure c : remove_suffix_nl (ensure_nl c) = remove_suffix_nl c.
Proof.
  rewrite <- (take_lines_all (ensure_nl c) (S (nls (ensure_nl c)))) by lia.
  rewrite remove_suffix_take_ensure by lia.
  unfold ensure_nl. destruct (ends_nl c) eqn:E.
  - rewrite take_lines_all by lia. reflexivity.
  - rewrite take_lines_all; [reflexivity|].
    assert (nls (c ++ [NL]) = S (nls c)).
    { clear. induction c as [|x r IH]; [reflexivity|]. cbn [app nls]. destruct (x =? NL); lia. }
    lia.
Qed.

(* ------------------------------------------------------------------ line tokens *)
(* a line token: not empty, and a newline can only be its last character *)
Definition piece_ok (p : str) : Prop := p <> [] /\ nls (removelast p) = 0%nat.

Lemma line_pieces_concat s : concat (line_pieces s) = s.
Proof.
  induction s as [|c r IH]; [reflexivity|]. cbn [line_pieces]. destruct (c =? NL).
  - cbn [concat app]. rewrite IH. reflexivity.
  - destruct (line_pieces r) as [|p ps] eqn:E; cbn [concat app] in *; rewrite <- IH; reflexivity.
Qed.

Lemma line_pieces_ok s : Forall piece_ok (line_pieces s).
Proof.
  induction s as [|c r IH]; [constructor|]. cbn [line_pieces]. destruct (c =? NL) eqn:E.
  - constructor; [|exact IH]. split; [discriminate|reflexivity].
  - destruct (line_pieces r) as [|p ps] eqn:Ep.
    + constructor; [|constructor]. split; [discriminate|reflexivity].
    + inversion IH as [|? ? [Hne Hn] Hps]; subst. constructor; [|exact Hps].
      split; [discriminate|]. destruct p as [|d p']; [congruence|].
      cbn [removelast nls] in *. rewrite E. exact Hn.
Qed.

Lemma concat_map_line_pieces toks : concat (concat (map line_pieces toks)) = concat toks.
Proof.
  induction toks as [|t ts IH]; [reflexivity|]. cbn [map concat]. rewrite concat_app, line_pieces_concat, IH. reflexivity.
Qed.

Lemma Forall_concat_pieces toks : Forall piece_ok (concat (map line_pieces toks)).
Proof.
  induction toks as [|t ts IH]; [constructor|]. cbn [map concat]. apply Forall_app. split; [apply line_pieces_ok|exact IH].
Qed.

Lemma take_lines_piece p rest m : piece_ok p ->
  take_lines (p ++ rest) (S m) = p ++ (if ends_nl p then take_lines rest m else take_lines rest (S m)).
Proof.
  intros [Hne Hn]. induction p as [|c r IH]; [congruence|].
  destruct r as [|d r'].
  - cbn [app take_lines ends_nl]. destruct (c =? NL); reflexivity.
  - cbn [removelast nls] in Hn. destruct (c =? NL) eqn:E; [discriminate|].
    change ((c :: d :: r') ++ rest) with (c :: ((d :: r') ++ rest)).
    cbn [take_lines]. rewrite E. rewrite IH; [|discriminate|exact Hn].
    cbn [ends_nl]. reflexivity.
Qed.

Lemma take_until_spec : forall pieces ln le, Forall piece_ok pieces ->
  concat (take_until pieces ln le) = take_lines (concat pieces) (Z.to_nat (Z.max 1 (le - ln))).
Proof.
  induction pieces as [|t r IH]; intros ln le Hok.
  - cbn [take_until concat]. destruct (Z.to_nat _); reflexivity.
  - inversion Hok as [|? ? Ht Hr]; subst. cbn [take_until concat].
    assert (Hm : exists m', Z.to_nat (Z.max 1 (le - ln)) = S m') by (exists (Z.to_nat (Z.max 1 (le - ln)) - 1)%nat; lia).
    destruct Hm as [m' Hm]. rewrite Hm, (take_lines_piece t (concat r) m' Ht).
    destruct (ends_nl t) eqn:E.
    + destruct (le <=? ln + 1) eqn:E2.
      * cbn [concat]. rewrite app_nil_r. assert (m' = 0%nat) by lia. subst.
        rewrite take_lines_0, app_nil_r. reflexivity.
      * cbn [concat]. rewrite IH by exact Hr. do 2 f_equal. lia.
    + cbn [concat]. rewrite IH by exact Hr. do 2 f_equal. lia.
Qed.

(* the ranged path of highlight with the guarded skip loop: the text is the first m lines of the
   token stream, for some m that reaches the end of the range *)
Lemma skip_then_spec : forall pieces ln ls le, Forall piece_ok pieces ->
  exists ts m, skip_then true pieces ln ls le = Ok ts /\ (1 <= m)%nat /\ le - ln <= Z.of_nat m /\
               concat ts = take_lines (concat pieces) m.
Proof.
  induction pieces as [|t r IH]; intros ln ls le Hok.
  - cbn [skip_then]. destruct (ln <? ls).
    + exists [], (Z.to_nat (Z.max 1 (le - ln))). repeat split; try lia; try reflexivity.
    + exists (take_until [] ln le), (Z.to_nat (Z.max 1 (le - ln))). repeat split; try lia; try reflexivity.
  - inversion Hok as [|? ? Ht Hr]; subst. cbn [skip_then]. destruct (ln <? ls).
    + destruct (IH (if ends_nl t then ln + 1 else ln) ls le Hr) as [ts [m [H1 [H2 [H3 H4]]]]].
      rewrite H1. cbn [bind].
      destruct m as [|m']; [lia|].
      exists (t :: ts), (if ends_nl t then S (S m') else S m').
      cbn [concat]. rewrite H4.
      destruct (ends_nl t) eqn:E.
      * repeat split; try lia. rewrite (take_lines_piece t (concat r) (S m') Ht), E. reflexivity.
      * repeat split; try lia. rewrite (take_lines_piece t (concat r) m' Ht), E. reflexivity.
    + exists (take_until (t :: r) ln le), (Z.to_nat (Z.max 1 (le - ln))).
      repeat split; try lia. apply take_until_spec. exact Hok.
Qed.

(* ------------------------------------------------------------------ the alphabet *)
Lemma clean_cons c s : clean (c :: s) = true -> is_stripped c = false /\ c <> 65279 /\ clean s = true.
Proof.
  unfold clean. cbn [forallb]. intros H. apply andb_true_iff in H as [H1 H2].
  apply andb_true_iff in H1 as [H1 H3]. repeat split; [destruct (is_stripped c); [discriminate|reflexivity]|lia|exact H2].
Qed.

Lemma strip_ctl_clean s : clean s = true -> strip_ctl s = s.
Proof.
  induction s as [|c r IH]; [reflexivity|]. intros H. destruct (clean_cons _ _ H) as [H1 [_ H3]].
  unfold strip_ctl in *. cbn [filter]. rewrite H1. cbn [negb]. f_equal. apply IH. exact H3.
Qed.

Lemma crlf_clean s : clean s = true -> crlf s = s.
Proof.
  induction s as [|c r IH]; [reflexivity|]. intros H. destruct (clean_cons _ _ H) as [H1 [_ H3]].
  cbn [crlf]. unfold is_stripped in H1. replace (c =? 13) with false by lia. f_equal. apply IH. exact H3.
Qed.

Lemma strip_bom_clean s : clean s = true -> strip_bom s = s.
Proof.
  destruct s as [|c r]; [reflexivity|]. intros H. destruct (clean_cons _ _ H) as [_ [H2 _]].
  cbn [strip_bom]. replace (c =? 65279) with false by lia. reflexivity.
Qed.

Lemma clean_app a b : clean (a ++ b) = clean a && clean b.
Proof. unfold clean. apply forallb_app. Qed.
Lemma clean_spaces n : clean (py_repeat SP n) = true.
Proof. unfold py_repeat. induction (Z.to_nat n); [reflexivity|]. exact IHn0. Qed.

Lemma clean_expandtabs_go ts : forall s col, clean s = true -> clean (expandtabs_go ts col s) = true.
Proof.
  induction s as [|c r IH]; intros col H; [reflexivity|].
  destruct (clean_cons _ _ H) as [H1 [H2 H3]]. cbn [expandtabs_go].
  destruct (c =? 9) eqn:E9.
  - destruct (0 <? ts); [|apply IH; exact H3]. rewrite clean_app, clean_spaces. apply IH. exact H3.
  - assert (Hc : clean (c :: expandtabs_go ts 0 r) = true /\ clean (c :: expandtabs_go ts (col + 1) r) = true).
    { unfold clean in *. cbn [forallb]. rewrite H1. replace (c =? 65279) with false by lia. cbn [negb andb].
      split; apply IH; exact H3. }
    destruct ((c =? NL) || (c =? 13)); apply Hc.
Qed.

Lemma nls_app a b : nls (a ++ b) = (nls a + nls b)%nat.
Proof. induction a as [|c r IH]; [reflexivity|]. cbn [app nls]. destruct (c =? NL); lia. Qed.
Lemma nls_spaces n : nls (py_repeat SP n) = 0%nat.
Proof. unfold py_repeat. induction (Z.to_nat n); [reflexivity|]. exact IHn0. Qed.

Lemma nls_expandtabs_go ts : forall s col, nls (expandtabs_go ts col s) = nls s.
Proof.
  induction s as [|c r IH]; intros col; [reflexivity|]. cbn [expandtabs_go nls].
  destruct (c =? 9) eqn:E9.
  - replace (c =? NL) with false by (unfold NL; lia).
    destruct (0 <? ts); [rewrite nls_app, nls_spaces|]; apply IH.
  - destruct (c =? NL) eqn:En; cbn [orb nls]; rewrite ?En.
    + rewrite IH. reflexivity.
    + destruct (c =? 13); cbn [nls]; rewrite En; apply IH.
Qed.

(* ------------------------------------------------------------------ the text that gets split *)
Definition LexOk (lo : lexopts) (lex : str -> list (Z * str)) : Prop :=
  forall code, concat (map snd (lex code)) = lex_norm lo code.

Lemma lex_norm_fixed c : clean c = true -> lex_norm (f_lex fixed_facts) c = ensure_nl c.
Proof.
  intros H. unfold lex_norm, fixed_facts. cbn [f_lex lo_stripnl lo_ensurenl].
  rewrite strip_bom_clean, crlf_clean by assumption. unfold ensure_nl. destruct (ends_nl c); reflexivity.
Qed.

(* under the lexer hypothesis and the repaired call-site facts, highlight never fails, and after
   remove_suffix its text is that of the code itself, cut (with a range) after some line m >= end *)
Theorem highlight_text lex (found : bool) c range :
  LexOk (f_lex fixed_facts) lex -> clean c = true ->
  exists t, highlight lex fixed_facts found c range = Ok t /\
    (remove_suffix_nl t = remove_suffix_nl c \/
     exists a e m, range = Some (a, e) /\ (1 <= m)%nat /\ e <= Z.of_nat m /\
                   remove_suffix_nl t = remove_suffix_nl (take_lines c m)).
Proof.
  intros HL Hc. unfold highlight. destruct found; cbn [negb].
  2:{ eexists. split; [reflexivity|]. left. rewrite strip_ctl_clean by exact Hc. reflexivity. }
  pose proof (HL c) as Hcat. rewrite (lex_norm_fixed c Hc) in Hcat.
  destruct range as [[a e]|].
  - destruct (skip_then_spec (concat (map line_pieces (map snd (lex c)))) 0 (a - 1) e
                (Forall_concat_pieces _)) as [ts [m [H1 [H2 [H3 H4]]]]].
    cbn [f_guard fixed_facts]. rewrite H1. cbn [bind]. eexists. split; [reflexivity|].
    right. exists a, e, m. repeat split; try lia.
    rewrite H4, concat_map_line_pieces, Hcat. apply remove_suffix_take_ensure. exact H2.
  - eexists. split; [reflexivity|]. left. rewrite Hcat. apply remove_suffix_ensure.
Qed.

(* ------------------------------------------------------------------ displayed lines vs source lines *)
Lemma py_slice_nonneg {A} (l : list A) a e : 0 <= e ->
  py_slice l a e = skipn (Z.to_nat a) (firstn (Z.to_nat e) l).
Proof. intros H. unfold py_slice. replace (e <? 0) with false by lia. reflexivity. Qed.

Theorem shown_lines_ok o t c :
  (match o_range o with Some (_, e) => 0 <= e | None => True end) ->
  (remove_suffix_nl t = remove_suffix_nl c \/
   exists a e m, o_range o = Some (a, e) /\ (1 <= m)%nat /\ e <= Z.of_nat m /\
                 remove_suffix_nl t = remove_suffix_nl (take_lines c m)) ->
  pfx_blank (shown_lines o (remove_suffix_nl t)) (range_clip o (split_nl c)).
Proof.
  intros He Ht. unfold shown_lines, range_clip, line_offset_of.
  assert (Hfull : forall E n, pfx_blank (skipn n (firstn E (tsr c))) (skipn n (firstn E (split_nl c)))).
  { intros E n. apply pfx_blank_skipn. destruct (tsr_prefix c) as [j [H1 H2]]. rewrite H1.
    apply pfx_blank_of_prefix. exact H2. }
  destruct Ht as [Ht|[a [e [m [Hr [Hm [Hem Ht]]]]]]].
  - rewrite Ht. fold (tsr c). destruct (o_range o) as [[a e]|].
    + rewrite py_slice_nonneg by exact He. apply Hfull.
    + destruct (tsr_prefix c) as [j [H1 H2]]. rewrite H1.
      exists (skipn j (split_nl c)). split; [symmetry; apply firstn_skipn|exact H2].
  - rewrite Hr in *. rewrite py_slice_nonneg by exact He. rewrite Ht. fold (tsr (take_lines c m)).
    apply pfx_blank_skipn. destruct (tsr_prefix (take_lines c m)) as [j [H1 H2]]. rewrite H1.
    rewrite split_nl_take_lines in *. destruct (m <=? nls c)%nat eqn:El.
    + assert (Hfe : firstn (Z.to_nat e) (split_nl c) = firstn (Z.to_nat e) (firstn m (split_nl c) ++ [[]])).
      { rewrite firstn_app. rewrite firstn_length, split_nl_length.
        replace (Z.to_nat e - Nat.min m (S (nls c)))%nat with 0%nat by (apply Nat.leb_le in El; lia).
        cbn [firstn]. rewrite app_nil_r, firstn_firstn_min. f_equal. lia. }
      rewrite Hfe. apply pfx_blank_of_prefix. exact H2.
    + apply pfx_blank_of_prefix. exact H2.
Qed.

Lemma range_clip_bound o (L shown : list str) :
  pfx_blank shown (range_clip o L) -> shown <> [] ->
  line_offset_of o + zlen shown <= zlen L.
Proof.
  intros Hp Hne. pose proof (pfx_blank_length _ _ Hp) as Hl.
  assert (Hs : (0 < length shown)%nat) by (destruct shown; [congruence|simpl; lia]).
  unfold range_clip, line_offset_of, zlen in *. destruct (o_range o) as [[a e]|]; [|lia].
  rewrite skipn_length, firstn_length in Hl. lia.
Qed.
