(* C05 proofs, part 6: the two independent renderings kept next to the reference operations --
   split as one left-to-right scan (str.split), expand_tabs as one walk over the characters with a column
   counter -- coincide with the reference operations on an exhaustive finite domain (proof by
   computation, for that domain only; the driver additionally evaluates `alt_ok` on every generated case).
   Every character carries its own style tag, so a misplaced style would be seen. *)
From RichModel Require Import Prelude Cells TextOps SpecTextOps.

Fixpoint strings_upto (alpha : list Z) (n : nat) : list str :=
  match n with
  | O => [[]]
  | S k => [] :: flat_map (fun s => map (fun c => c :: s) alpha) (strings_upto alpha k)
  end.
Definition dedup_strs (l : list str) : list str :=
  fold_right (fun s acc => if existsb (str_eqb s) acc then acc else s :: acc) [] l.

Fixpoint tagged (i : Z) (s : str) : list rchar :=
  match s with [] => [] | c :: r => (c, [i]) :: tagged (i + 1) r end.
Definition ref_of (s : str) : ref := mkRef (tagged 0 s) (default_meta 3).

Definition split_texts : list ref := map ref_of (dedup_strs (strings_upto [97; 98] 8)).
Definition split_ops : list op :=
  flat_map (fun sep => flat_map (fun incl => map (fun allow => OSplit sep incl allow 0) [false; true]) [false; true])
           [[97]; [98]; [97; 98]; [97; 97]; [97; 98; 97]].
Definition tab_texts : list ref := map ref_of (dedup_strs (strings_upto [97; 9; 10] 7)).
Definition tab_ops : list op := map OExpandTabs [None; Some 1; Some 2; Some 3; Some 4; Some 8; Some 0].

Lemma split_scan_small : forallb (fun r => forallb (fun o => alt_ok o r) split_ops) split_texts = true.
Proof. vm_compute. reflexivity. Qed.
Lemma tabs_walk_small : forallb (fun r => forallb (fun o => alt_ok o r) tab_ops) tab_texts = true.
Proof. vm_compute. reflexivity. Qed.
Lemma alt_domain_size :
  (length split_texts, length split_ops, length tab_texts, length tab_ops) = (511%nat, 20%nat, 3280%nat, 7%nat).
Proof. vm_compute. reflexivity. Qed.

Lemma alt_small_forall : forall r o,
  (In r split_texts /\ In o split_ops) \/ (In r tab_texts /\ In o tab_ops) -> alt_ok o r = true.
Proof.
  intros r o [[Hr Ho]|[Hr Ho]].
  - pose proof split_scan_small as H. rewrite forallb_forall in H. specialize (H r Hr).
    rewrite forallb_forall in H. exact (H o Ho).
  - pose proof tabs_walk_small as H. rewrite forallb_forall in H. specialize (H r Hr).
    rewrite forallb_forall in H. exact (H o Ho).
Qed.
