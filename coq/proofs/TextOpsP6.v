(* C05 proofs, part 6: the four operations built on Text.divide, decided exhaustively on a finite
   domain by computation (a proof for that domain, not a sample): every text over {a, TAB, NL} of
   length <= 3 with every well-formed span, and of length <= 2 with every ordered pair of well-formed
   spans (two styles, duplicates and empty spans included), against every divide / slice / split /
   expand_tabs instance listed below. *)
From RichModel Require Import Prelude Cells TextOps SpecTextOps.

Fixpoint strings_upto (alpha : list Z) (n : nat) : list str :=
  match n with
  | O => [[]]
  | S k => [] :: flat_map (fun s => map (fun c => c :: s) alpha) (strings_upto alpha k)
  end.
Definition dedup_strs (l : list str) : list str :=
  fold_right (fun s acc => if existsb (str_eqb s) acc then acc else s :: acc) [] l.

Definition span_choices (n : Z) : list span :=
  flat_map (fun s => flat_map (fun e => if Z.of_nat s <=? Z.of_nat e then [(Z.of_nat s, Z.of_nat e, 1); (Z.of_nat s, Z.of_nat e, 2)] else [])
                              (seq 0 (S (Z.to_nat n)))) (seq 0 (S (Z.to_nat n))).
Definition span_sets (n : Z) : list (list span) :=
  let c := span_choices n in
  [] :: map (fun a => [a]) c ++ (if n <=? 2 then flat_map (fun a => map (fun b => [a; b]) c) c else []).

Definition small_texts : list text :=
  flat_map (fun s => flat_map (fun sps => [ctor FIXED s (default_meta 3) sps]) (span_sets (zlen s)))
           (dedup_strs (strings_upto [97; 9; 10] 3)).

Definition idx_choices : list (option Z) := None :: map Some [-3; -1; 0; 1; 2; 4].
Definition small_ops : list op :=
  flat_map (fun k => map (fun offs => ODivide offs k)
                         ([[]] ++ map (fun a => [a]) [0; 1; 2; 3; 4]
                          ++ flat_map (fun a => flat_map (fun b => if a <=? b then [[a; b]] else []) [0; 1; 2; 3; 4]) [0; 1; 2; 3; 4]))
           [0; 1; 2]
  ++ flat_map (fun a => map (fun b => OSlice a b) idx_choices) idx_choices
  ++ flat_map (fun sep => flat_map (fun incl => flat_map (fun allow => map (fun k => OSplit sep incl allow k) [0; 1])
                                                         [false; true]) [false; true])
              [[97]; [10]; [9]; [97; 97]; [97; 9]]
  ++ map OExpandTabs [None; Some 1; Some 2; Some 4; Some 0].

(* same outcome class; on success the new state refines the reference state and is consistent *)
Definition step_ok (t : text) (r : ref) (o : op) : bool :=
  negb (op_ok o r) ||
  match apply FIXED o t, r_apply o r with
  | Ok t', Ok r' => refines_b r' t' && consistent_b t'
  | Crash a, Crash b => a =? b
  | Doc a, Doc b => a =? b
  | _, _ => false
  end.

Lemma divide_family_small :
  forallb (fun t => consistent_b t && (let r := abs t in forallb (step_ok t r) small_ops)) small_texts = true.
Proof. vm_compute. reflexivity. Qed.

Lemma small_domain_size : (length small_texts, length small_ops) = (2116%nat, 157%nat).
Proof. vm_compute. reflexivity. Qed.

Lemma divide_family_small_forall : forall t o, In t small_texts -> In o small_ops ->
  Consistent t /\ step_ok t (abs t) o = true.
Proof.
  intros t o Ht Ho. pose proof divide_family_small as H. rewrite forallb_forall in H.
  specialize (H t Ht). apply andb_prop in H. destruct H as [Hc H]. split; [exact Hc|].
  cbv zeta in H. rewrite forallb_forall in H. exact (H o Ho).
Qed.
