(* C19 round trip, part 1: the SGR parameters that Style._make_ansi_codes emits in truecolor, read
   back by AnsiDecoder's parameter parser and folded into ANY clean decoder state, give a style that
   shows exactly what the encoded style shows (attributes that are set and true, both colours by kind
   and value), and keep the link the state already had. *)
From RichModel Require Import Prelude Color Style AnsiDecode FileProxy SpecDecode.
From RichGen Require Import AnsiRegex SgrMap StyleTables.
From RichProofs Require Import AnsiDecodeP FileProxyP.

(* ------------------------------------------------------------------ finite sweeps, lifted *)
Lemma forall_range (P : Z -> bool) n :
  forallb P (map Z.of_nat (seq 0 n)) = true -> forall w, 0 <= w < Z.of_nat n -> P w = true.
Proof.
  intros H w Hw. rewrite forallb_forall in H. apply H. apply in_map_iff. exists (Z.to_nat w).
  split; [lia|]. apply in_seq. lia.
Qed.

(* ------------------------------------------------------------------ decimal parameters 0..255 *)
Definition no_char (c : Z) (s : str) : bool := negb (mem_Z c s).
Definition num_ok (k : Z) : bool :=
  let s := str_of_Z k in
  py_isdigit s && optZ_eqb (py_int_digits s) (Some k)
  && no_char 59 s && no_char 109 s && no_char 10 s && no_char 27 s && negb (match s with [] => true | _ => false end).
Lemma num_sweep : forallb num_ok (map Z.of_nat (seq 0 256)) = true.
Proof. vm_compute. reflexivity. Qed.
Lemma num_ok_range k : 0 <= k < 256 -> num_ok k = true.
Proof. apply (forall_range num_ok 256 num_sweep). Qed.

Definition nums_ok (ks : list Z) : Prop := Forall (fun k => 0 <= k < 256) ks.

Lemma optZ_eqb_eq a b : optZ_eqb a b = true -> a = b.
Proof. destruct a, b; cbn; intros H; try discriminate; [apply Z.eqb_eq in H; subst|]; reflexivity. Qed.

Lemma sgr_codes_nums : forall fx ks, nums_ok ks -> sgr_codes fx (map str_of_Z ks) = Ok ks.
Proof.
  intros fx ks H. induction H as [|k ks Hk _ IH]; [reflexivity|].
  cbn [map sgr_codes]. pose proof (num_ok_range k Hk) as N. unfold num_ok in N.
  repeat (apply andb_true_iff in N; destruct N as [N ?]).
  rewrite N. match goal with H : optZ_eqb _ _ = true |- _ => apply optZ_eqb_eq in H; rewrite H end.
  rewrite IH. cbn [bind]. rewrite Z.min_r by lia. reflexivity.
Qed.

(* ";".join(l).split(";") = l for non-empty l whose items contain no ";" *)
Lemma split_on_join : forall (l : list str), l <> [] -> Forall (fun s => no_char 59 s = true) l ->
  split_on 59 (str_join [59] l) = l.
Proof.
  assert (S1 : forall s, no_char 59 s = true -> forall rest, split_on 59 (s ++ 59 :: rest) = s :: split_on 59 rest).
  { induction s as [|c s IH]; intros H rest.
    - cbn [app split_on]. rewrite Z.eqb_refl. reflexivity.
    - unfold no_char, mem_Z in H. cbn [existsb] in H. apply negb_true_iff, orb_false_iff in H. destruct H as [H1 H2].
      cbn [app split_on]. rewrite Z.eqb_sym, H1. rewrite IH by (unfold no_char, mem_Z; rewrite H2; reflexivity).
      reflexivity. }
  assert (S0 : forall s, no_char 59 s = true -> split_on 59 s = [s]).
  { induction s as [|c s IH]; intros H; [reflexivity|].
    unfold no_char, mem_Z in H. cbn [existsb] in H. apply negb_true_iff, orb_false_iff in H. destruct H as [H1 H2].
    cbn [split_on]. rewrite Z.eqb_sym, H1. rewrite IH by (unfold no_char, mem_Z; rewrite H2; reflexivity). reflexivity. }
  induction l as [|s l IH]; intros Hne HF; [contradiction|].
  inversion HF as [|? ? Hs HF']. subst. destruct l as [|s2 l].
  - cbn [str_join]. apply S0. exact Hs.
  - cbn [str_join]. cbn [app]. rewrite S1 by exact Hs. f_equal. apply IH; [discriminate|exact HF'].
Qed.

Lemma nums_no_semi ks : nums_ok ks -> Forall (fun s => no_char 59 s = true) (map str_of_Z ks).
Proof.
  intros H. induction H as [|k ks Hk _ IH]; [constructor|]. cbn [map]. constructor; [|exact IH].
  pose proof (num_ok_range k Hk) as N. unfold num_ok in N.
  repeat (apply andb_true_iff in N; destruct N as [N ?]). assumption.
Qed.

(* what decode_line's list comprehension makes of the joined parameter string *)
Lemma sgr_codes_joined fx ks : nums_ok ks -> ks <> [] ->
  sgr_codes fx (split_on 59 (str_join [59] (map str_of_Z ks))) = Ok ks.
Proof.
  intros H Hne. rewrite split_on_join; [apply sgr_codes_nums; exact H| |apply nums_no_semi; exact H].
  destruct ks; [contradiction|discriminate].
Qed.

(* ------------------------------------------------------------------ the encoder's parameter list, as numbers *)
Definition BITS : list Z := [0; 1; 2; 3; 4; 5; 6; 7; 8; 9; 10; 11; 12].
Definition code_of_bit (i : Z) : Z := nth (Z.to_nat i) [1; 2; 3; 4; 5; 6; 7; 8; 9; 21; 51; 52; 53] 0.
Definition attr_nums (w : Z) : list Z := map code_of_bit (filter (has_bit w) BITS).

Fixpoint strs_eqb (a b : list str) : bool :=
  match a, b with
  | [], [] => true
  | x :: a', y :: b' => str_eqb x y && strs_eqb a' b'
  | _, _ => false
  end.
Lemma str_eqb_eq' : forall a b, str_eqb a b = true -> a = b.
Proof. exact FileProxyP.str_eqb_eq. Qed.
Lemma strs_eqb_eq : forall a b, strs_eqb a b = true -> a = b.
Proof.
  induction a as [|x a IH]; destruct b as [|y b]; cbn [strs_eqb]; intros H; try discriminate; [reflexivity|].
  apply andb_true_iff in H. destruct H as [H1 H2]. rewrite (str_eqb_eq' _ _ H1), (IH _ H2). reflexivity.
Qed.

Definition attr_ok (w : Z) : bool :=
  match attr_codes w with Ok l => strs_eqb l (map str_of_Z (attr_nums w)) | _ => false end
  && forallb (fun k => (0 <=? k) && (k <? 256)) (attr_nums w)
  && (fold_left (fun a i => Z.lor a (bit_mask i)) (filter (has_bit w) BITS) 0 =? w).
Lemma attr_sweep : forallb attr_ok (map Z.of_nat (seq 0 8192)) = true.
Proof. vm_compute. reflexivity. Qed.
Lemma attr_ok_range w : 0 <= w < 8192 -> attr_ok w = true.
Proof. apply (forall_range attr_ok 8192 attr_sweep). Qed.

(* the colours the property speaks of: default, the 16 standard ones, 16..255 indexed, 24-bit *)
Definition wf_color_b (c : color) : bool :=
  match c_type c, c_number c, c_triplet c with
  | CT_DEFAULT, None, None => true
  | CT_STANDARD, Some n, None => (0 <=? n) && (n <? 16)
  | CT_EIGHT_BIT, Some n, None => (16 <=? n) && (n <? 256)
  | CT_TRUECOLOR, None, Some t => triplet_in_range t
  | _, _, _ => false
  end.
Definition color_nums (c : color) (fg : bool) : list Z :=
  match c_type c, c_number c, c_triplet c with
  | CT_DEFAULT, _, _ => [if fg then 39 else 49]
  | CT_STANDARD, Some n, _ | CT_WINDOWS, Some n, _ =>
      [(if n <? 8 then (if fg then 30 else 40) else (if fg then 82 else 92)) + n]
  | CT_EIGHT_BIT, Some n, _ => [if fg then 38 else 48; 5; n]
  | CT_TRUECOLOR, _, Some t => [if fg then 38 else 48; 2; t_red t; t_green t; t_blue t]
  | _, _, _ => []
  end.
Definition opt_color_nums (o : option color) (fg : bool) : list Z :=
  match o with Some c => color_nums c fg | None => [] end.
Definition opt_wf (o : option color) : bool := match o with Some c => wf_color_b c | None => true end.

Lemma color_codes_nums c fg : wf_color_b c = true ->
  color_codes (Some c) CS_TRUECOLOR fg = Ok (map str_of_Z (color_nums c fg)) /\ nums_ok (color_nums c fg).
Proof.
  intros H. unfold wf_color_b in H. unfold color_codes, color_nums, downgrade, get_ansi_codes.
  destruct c as [nm ty num tr]. cbn [c_type c_number c_triplet c_name] in *.
  destruct ty, num as [n|], tr as [t|]; try discriminate; cbn.
  - split; [destruct fg; reflexivity|]. constructor; [destruct fg; lia|constructor].
  - apply andb_true_iff in H. destruct H as [H1 H2]. apply Z.leb_le in H1. apply Z.ltb_lt in H2.
    split.
    + destruct (n <? 8), fg; reflexivity.
    + constructor; [|constructor]. destruct (n <? 8) eqn:E, fg; try apply Z.ltb_lt in E; try apply Z.ltb_ge in E; lia.
  - apply andb_true_iff in H. destruct H as [H1 H2]. apply Z.leb_le in H1. apply Z.ltb_lt in H2.
    split; [destruct fg; reflexivity|]. repeat constructor; try (destruct fg; lia); lia.
  - unfold triplet_in_range in H. repeat (apply andb_true_iff in H; destruct H as [H ?]).
    repeat match goal with H : (_ <=? _) = true |- _ => apply Z.leb_le in H end.
    split; [destruct fg; reflexivity|]. repeat constructor; try (destruct fg; lia); lia.
Qed.

Definition wf_style (s : style) : Prop :=
  0 <= Z.land (s_attributes s) (s_set_attributes s) < 8192
  /\ opt_wf (s_color s) = true /\ opt_wf (s_bgcolor s) = true.
Definition style_nums (s : style) : list Z :=
  attr_nums (Z.land (s_attributes s) (s_set_attributes s))
  ++ opt_color_nums (s_color s) true ++ opt_color_nums (s_bgcolor s) false.

Lemma forallb_nums l : forallb (fun k => (0 <=? k) && (k <? 256)) l = true -> nums_ok l.
Proof.
  intros H. apply Forall_forall. intros k Hk. rewrite forallb_forall in H. specialize (H k Hk).
  apply andb_true_iff in H. destruct H as [H1 H2]. apply Z.leb_le in H1. apply Z.ltb_lt in H2. lia.
Qed.

Lemma attr_ok_facts w : 0 <= w < 8192 ->
  attr_codes w = Ok (map str_of_Z (attr_nums w)) /\ nums_ok (attr_nums w)
  /\ fold_left (fun a i => Z.lor a (bit_mask i)) (filter (has_bit w) BITS) 0 = w.
Proof.
  intros Hw. pose proof (attr_ok_range w Hw) as H. unfold attr_ok in H.
  apply andb_true_iff in H. destruct H as [H H3]. apply andb_true_iff in H. destruct H as [H1 H2].
  destruct (attr_codes w) as [l| |]; try discriminate. apply strs_eqb_eq in H1. subst l.
  split; [reflexivity|]. split; [apply forallb_nums; exact H2|apply Z.eqb_eq; exact H3].
Qed.

(* Style._make_ansi_codes(TRUECOLOR) = ";".join of these numbers *)
Theorem sgr_list_nums s : wf_style s ->
  sgr_list s CS_TRUECOLOR = Ok (map str_of_Z (style_nums s)) /\ nums_ok (style_nums s).
Proof.
  intros [Hw [Hc Hb]]. unfold sgr_list, style_nums.
  destruct (attr_ok_facts _ Hw) as [HA [HN _]]. rewrite HA. cbn [bind].
  assert (F : forall o fg, opt_wf o = true ->
              color_codes o CS_TRUECOLOR fg = Ok (map str_of_Z (opt_color_nums o fg)) /\ nums_ok (opt_color_nums o fg)).
  { intros [c|] fg H; [apply color_codes_nums; exact H|]. split; [reflexivity|constructor]. }
  destruct (F _ true Hc) as [F1 N1]. destruct (F _ false Hb) as [F2 N2]. rewrite F1, F2. cbn [bind].
  split; [rewrite !map_app; reflexivity|]. apply Forall_app. split; [exact HN|]. apply Forall_app. split; assumption.
Qed.
