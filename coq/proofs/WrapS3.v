(* C02, statement (c): the spec checker styles_kept_b accepts the three shapes the wrap passes produce.
     - fold / ignore (ov = 0, 3): the styled non-whitespace characters are equal;
     - crop (ov = 1): every output line contributes a prefix of its own source segment;
     - ellipsis (ov = 2): as crop, except that a line may end with one new ellipsis character.
   The core fact is completeness of the leftmost-greedy subsequence test sc_subseq with respect to
   the inductive relation Subseq. *)
From RichModel Require Import Prelude Cells SpecCells Wrap SpecWrap.
From RichProofs Require Import CellsP WrapP2 WrapS0.
From Coq Require Import ZifyBool.

(* ------------------------------------------------------------------ subsequences, any element type *)
Inductive Subseq {A} : list A -> list A -> Prop :=
| ss_nil : Subseq [] []
| ss_skip a y b : Subseq a b -> Subseq a (y :: b)
| ss_take x a b : Subseq a b -> Subseq (x :: a) (x :: b).

Lemma ss_nil_l {A} (l : list A) : Subseq [] l.
Proof. induction l as [|x l IH]; [apply ss_nil|apply ss_skip; exact IH]. Qed.

Lemma ss_refl {A} (l : list A) : Subseq l l.
Proof. induction l as [|x l IH]; [apply ss_nil|apply ss_take; exact IH]. Qed.

Lemma ss_nil_r {A} (a : list A) : Subseq a [] -> a = [].
Proof. intros H. inversion H. reflexivity. Qed.

Lemma ss_tail {A} (x : A) a : forall b, Subseq (x :: a) b -> Subseq a b.
Proof.
  induction b as [|y b IH]; intros H.
  - inversion H.
  - inversion H; subst.
    + apply ss_skip. apply IH. assumption.
    + apply ss_skip. assumption.
Qed.

(* the two key lemmas behind the greedy test *)
Lemma ss_cons_cons {A} (x y : A) a b : Subseq (x :: a) (y :: b) -> Subseq a b.
Proof.
  intros H. inversion H; subst.
  - eapply ss_tail. eassumption.
  - assumption.
Qed.

Lemma ss_cons_neq {A} (x y : A) a b : Subseq (x :: a) (y :: b) -> x <> y -> Subseq (x :: a) b.
Proof.
  intros H Hn. inversion H; subst.
  - assumption.
  - contradiction Hn. reflexivity.
Qed.

Lemma ss_app {A} (a b c d : list A) : Subseq a b -> Subseq c d -> Subseq (a ++ c) (b ++ d).
Proof.
  intros H1 H2. induction H1 as [|a y b H IH|x a b H IH]; cbn [app].
  - exact H2.
  - apply ss_skip. exact IH.
  - apply ss_take. exact IH.
Qed.

Lemma ss_prefix {A} (p r : list A) : Subseq p (p ++ r).
Proof. induction p as [|x p IH]; cbn [app]; [apply ss_nil_l|apply ss_take; exact IH]. Qed.

Lemma ss_app_prefix {A} (p r a b : list A) : Subseq a b -> Subseq (p ++ a) (p ++ r ++ b).
Proof.
  intros H. rewrite app_assoc. apply ss_app; [apply ss_prefix|exact H].
Qed.

Section S3.
Variable S : Type.
Variable seqb : S -> S -> bool.
Hypothesis seqb_eq : forall a b, seqb a b = true <-> a = b.

(* ------------------------------------------------------------------ the boolean equalities decide = *)
Lemma styles_eqb_eq : forall (a b : list S), styles_eqb S seqb a b = true <-> a = b.
Proof.
  induction a as [|x a IH]; intros [|y b]; cbn [styles_eqb].
  - split; reflexivity.
  - split; discriminate.
  - split; discriminate.
  - rewrite andb_true_iff, seqb_eq, IH. split.
    + intros [H1 H2]. subst. reflexivity.
    + intros H. inversion H. split; reflexivity.
Qed.

Lemma schar_eqb_eq (x y : schar S) : schar_eqb S seqb x y = true <-> x = y.
Proof.
  destruct x as [c s], y as [d t]. unfold schar_eqb. cbn [fst snd].
  rewrite andb_true_iff, Z.eqb_eq, styles_eqb_eq. split.
  - intros [H1 H2]. subst. reflexivity.
  - intros H. inversion H. split; reflexivity.
Qed.

Lemma schar_eqb_refl (x : schar S) : schar_eqb S seqb x x = true.
Proof. apply schar_eqb_eq. reflexivity. Qed.

Lemma sc_eqb_refl (l : list (schar S)) : sc_eqb S seqb l l = true.
Proof.
  induction l as [|x l IH]; [reflexivity|]. cbn [sc_eqb]. rewrite schar_eqb_refl, IH. reflexivity.
Qed.

Lemma sc_eqb_eq : forall (a b : list (schar S)), sc_eqb S seqb a b = true <-> a = b.
Proof.
  induction a as [|x a IH]; intros [|y b]; cbn [sc_eqb].
  - split; reflexivity.
  - split; discriminate.
  - split; discriminate.
  - rewrite andb_true_iff, schar_eqb_eq, IH. split.
    + intros [H1 H2]. subst. reflexivity.
    + intros H. inversion H. split; reflexivity.
Qed.

(* ------------------------------------------------------------------ the greedy test is complete (and sound) *)
Lemma subseq_complete : forall (b a : list (schar S)), Subseq a b -> sc_subseq S seqb a b = true.
Proof.
  induction b as [|y b IH]; intros a H.
  - apply ss_nil_r in H. subst. reflexivity.
  - cbn [sc_subseq]. destruct a as [|x a]; [reflexivity|].
    destruct (schar_eqb S seqb x y) eqn:E.
    + apply IH. eapply ss_cons_cons. exact H.
    + apply IH. eapply ss_cons_neq; [exact H|].
      intros Hxy. apply schar_eqb_eq in Hxy. rewrite Hxy in E. discriminate.
Qed.

Lemma subseq_sound : forall (b a : list (schar S)), sc_subseq S seqb a b = true -> Subseq a b.
Proof.
  induction b as [|y b IH]; intros a H.
  - destruct a; [apply ss_nil|discriminate].
  - cbn [sc_subseq] in H. destruct a as [|x a]; [apply ss_nil_l|].
    destruct (schar_eqb S seqb x y) eqn:E.
    + apply schar_eqb_eq in E. subst. apply ss_take. apply IH. exact H.
    + apply ss_skip. apply IH. exact H.
Qed.

(* ------------------------------------------------------------------ prefixes *)
Inductive Prefix {A} : list A -> list A -> Prop := prefix_intro p r : Prefix p (p ++ r).

Lemma Prefix_refl {A} (l : list A) : Prefix l l.
Proof. rewrite <- (app_nil_r l) at 2. apply prefix_intro. Qed.

Lemma Prefix_trans {A} (a b c : list A) : Prefix a b -> Prefix b c -> Prefix a c.
Proof.
  intros H1 H2. destruct H2 as [q r']. inversion H1 as [p r Hp Hq]. subst.
  rewrite <- app_assoc. apply prefix_intro.
Qed.

Lemma Prefix_Subseq {A} (a b : list A) : Prefix a b -> Subseq a b.
Proof. intros H. destruct H as [p r]. apply ss_prefix. Qed.

Lemma prefix_lines_Subseq {A} : forall (outs srcs : list (list A)),
  Forall2 Prefix outs srcs -> Subseq (concat outs) (concat srcs).
Proof.
  intros outs srcs H. induction H as [|o s outs srcs Hp HF IH]; cbn [concat].
  - apply ss_nil.
  - apply ss_app; [apply Prefix_Subseq; exact Hp|exact IH].
Qed.

(* the greedy test accepts a line-by-line prefix embedding: every output line contributes a prefix
   of its own source segment *)
Theorem prefix_lines_subseq : forall (outs srcs : list (list (schar S))),
  Forall2 Prefix outs srcs -> sc_subseq S seqb (concat outs) (concat srcs) = true.
Proof.
  intros outs srcs H. apply subseq_complete. apply prefix_lines_Subseq. exact H.
Qed.

(* ------------------------------------------------------------------ ellipsis mode *)
Lemma drop_final_ellipsis_self_prefix (l : list (schar S)) : Prefix (drop_final_ellipsis S l) l.
Proof.
  unfold drop_final_ellipsis. destruct (rev l) as [|x r] eqn:E; [apply Prefix_refl|].
  destruct (fst x =? 8230); [|apply Prefix_refl].
  assert (Hl : l = rev r ++ [x]).
  { rewrite <- (rev_involutive l), E. reflexivity. }
  rewrite Hl. apply prefix_intro.
Qed.

Lemma drop_final_ellipsis_prefix (l src : list (schar S)) :
  Prefix l src -> Prefix (drop_final_ellipsis S l) src.
Proof.
  intros H. eapply Prefix_trans; [apply drop_final_ellipsis_self_prefix|exact H].
Qed.

Lemma drop_final_ellipsis_snoc (p : list (schar S)) e :
  fst e = 8230 -> drop_final_ellipsis S (p ++ [e]) = p.
Proof.
  intros He. unfold drop_final_ellipsis. rewrite rev_app_distr. cbn [rev app].
  rewrite He. rewrite Z.eqb_refl. apply rev_involutive.
Qed.

(* ------------------------------------------------------------------ the three shapes styles_kept_b accepts *)
Theorem styles_kept_eq : forall ov src outs, (ov = 0 \/ ov = 3) ->
  concat (map (sc_ns S) outs) = sc_ns S src -> styles_kept_b S seqb ov src outs = true.
Proof.
  intros ov src outs Hov H. unfold styles_kept_b.
  assert (E : (ov =? 0) || (ov =? 3) = true) by lia.
  rewrite E, H. apply sc_eqb_refl.
Qed.

Theorem styles_kept_crop : forall src outs srcs,
  sc_ns S src = concat srcs -> Forall2 Prefix (map (sc_ns S) outs) srcs ->
  styles_kept_b S seqb 1 src outs = true.
Proof.
  intros src outs srcs H HF. unfold styles_kept_b.
  change ((1 =? 0) || (1 =? 3)) with false. change (1 =? 1) with true. cbv iota.
  rewrite H. apply prefix_lines_subseq. exact HF.
Qed.

Theorem styles_kept_ellipsis : forall src outs srcs,
  sc_ns S src = concat srcs ->
  Forall2 (fun o s => Prefix (sc_ns S o) s \/
                      exists p e, Prefix p s /\ sc_ns S o = p ++ [e] /\ fst e = 8230) outs srcs ->
  styles_kept_b S seqb 2 src outs = true.
Proof.
  intros src outs srcs H HF. unfold styles_kept_b.
  change ((2 =? 0) || (2 =? 3)) with false. change (2 =? 1) with false. cbv iota.
  rewrite H. apply prefix_lines_subseq. clear H.
  induction HF as [|o s outs' srcs' Ho HF IH]; cbn [map]; constructor.
  - destruct Ho as [Hp|[p [e [Hp [Hs He]]]]].
    + apply drop_final_ellipsis_prefix. exact Hp.
    + assert (Hd : drop_final_ellipsis S (sc_ns S o) = p)
        by (rewrite Hs; apply drop_final_ellipsis_snoc; exact He).
      rewrite Hd. exact Hp.
  - exact IH.
Qed.
End S3.
