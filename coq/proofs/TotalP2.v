(* C14: markup.render, AnsiDecoder.decode (cited from C19), Columns(width=...) (D10). *)
From RichModel Require Import Prelude Color Style Total SpecTotal.
From RichModel Require Markup AnsiDecode Frames.
From RichProofs Require Import TotalP AnsiDecodeP.
From Coq Require Import ZifyBool.

Ltac Zify.zify_post_hook ::= Z.to_euclidean_division_equations.

(* ------------------------------------------------------------------ markup.render *)
Lemma guard_ok tk : guard tk = Ok tt.
Proof.
  destruct tk as [t|name ps]; [reflexivity|]. cbn [guard].
  destruct (Markup.closing_name name) as [[|c sn]|].
  - reflexivity.
  - destruct (style_normalize_total (c :: sn)) as [x H]. rewrite H. reflexivity.
  - destruct (style_normalize_total name) as [x H]. rewrite H. reflexivity.
Qed.

Lemma run_guard_eq {St} (step : St -> Markup.token -> res St) ts : forall st,
  run_guard step st ts = Markup.run step st ts.
Proof.
  induction ts as [|tk r IH]; intros st; [reflexivity|].
  cbn [run_guard Markup.run]. rewrite guard_ok. cbn [bind].
  destruct (step st tk) as [st'|e|k]; cbn [bind]; [apply IH|reflexivity|reflexivity].
Qed.

(* the `res`-valued entry point is b-C04's model with Style.normalize as its oracle *)
Theorem markup_render_is_model E asis s :
  markup_render E asis s = Markup.render CC norm_fn E asis s.
Proof.
  unfold markup_render, Markup.render, Markup.render_main.
  destruct (Markup.has_lb s); [|reflexivity].
  destruct asis; rewrite run_guard_eq;
    match goal with |- context [Markup.run ?f ?i ?t] => destruct (Markup.run f i t) end; reflexivity.
Qed.

Lemma stepA_outcomes cc norm E st tk :
  (exists st', Markup.stepA cc norm E st tk = Ok st') \/ Markup.stepA cc norm E st tk = Doc E_MarkupError.
Proof.
  destruct st as [[plain stk] spans]. destruct tk as [t|name ps]; cbn [Markup.stepA].
  - left. eexists. reflexivity.
  - destruct (Markup.closing_name name) as [sn|]; [|left; eexists; reflexivity].
    destruct (Markup.pop_for norm _ sn stk) as [[[[start nm] ps'] stk']|]; [left; eexists; reflexivity|right; reflexivity].
Qed.

Lemma stepF_outcomes cc norm E st tk :
  (exists st', Markup.stepF cc norm E st tk = Ok st') \/ Markup.stepF cc norm E st tk = Doc E_MarkupError.
Proof.
  destruct st as [[plain stk] slots]. destruct tk as [t|name ps]; cbn [Markup.stepF].
  - left. eexists. reflexivity.
  - destruct (Markup.closing_name name) as [sn|]; [|left; eexists; reflexivity].
    destruct (Markup.pop_for norm _ sn stk) as [[[[idx nm] ps'] stk']|]; [left; eexists; reflexivity|right; reflexivity].
Qed.

Lemma run_outcomes {St} (step : St -> Markup.token -> res St) :
  (forall st tk, (exists st', step st tk = Ok st') \/ step st tk = Doc E_MarkupError) ->
  forall ts st, (exists st', Markup.run step st ts = Ok st') \/ Markup.run step st ts = Doc E_MarkupError.
Proof.
  intros Hs ts. induction ts as [|tk r IH]; intros st; cbn [Markup.run].
  - left. eexists. reflexivity.
  - destruct (Hs st tk) as [[st' H]|H]; rewrite H; [apply IH|right; reflexivity].
Qed.

Theorem markup_render_outcomes E asis s :
  (exists t, markup_render E asis s = Ok t) \/ markup_render E asis s = Doc E_MarkupError.
Proof.
  rewrite markup_render_is_model. unfold Markup.render, Markup.render_main.
  destruct (Markup.has_lb s); [|left; eexists; reflexivity].
  destruct asis.
  - destruct (run_outcomes _ (stepA_outcomes CC norm_fn E) (Markup.parse s) ([], [], [])) as [[st H]|H];
      rewrite H; [left; eexists; reflexivity|right; reflexivity].
  - destruct (run_outcomes _ (stepF_outcomes CC norm_fn E) (Markup.parse s) ([], [], [])) as [[st H]|H];
      rewrite H; [left; eexists; reflexivity|right; reflexivity].
Qed.

Theorem markup_render_total E asis s k : markup_render E asis s <> Crash k.
Proof. destruct (markup_render_outcomes E asis s) as [[t H]|H]; rewrite H; discriminate. Qed.

Theorem markup_render_documented E asis s : documented_b OP_markup (code_of (markup_render E asis s)) = true.
Proof. destruct (markup_render_outcomes E asis s) as [[t H]|H]; rewrite H; reflexivity. Qed.

(* a StyleSyntaxError inside a tag name never reaches the caller: normalize's handler answers *)
Example markup_bad_style_in_tag :
  code_of (markup_render (fun x => x) false (lit "[rgb(,,)]x[/]")) = 0
  /\ code_of (markup_render (fun x => x) false (lit "[/rgb(,,)]x")) = c_doc E_MarkupError.
Proof. vm_compute. split; reflexivity. Qed.

(* ------------------------------------------------------------------ AnsiDecoder.decode: C19's decoder_total *)
Theorem decode_total s : exists pss, decode true s = Ok pss.
Proof. unfold decode. apply AnsiDecodeP.decode_total. Qed.

Theorem decode_documented s : documented_b OP_decode (code_of (decode true s)) = true.
Proof. destruct (decode_total s) as [p H]. rewrite H. reflexivity. Qed.

Theorem decode_asis_refuted : exists s, decode false s = Crash K_ValueError.
Proof. exists [27; 91; 178; 109]. vm_compute. reflexivity. Qed.

(* ------------------------------------------------------------------ Columns(width=cw): D10 *)
(* the column-first fill succeeds whenever the leading positive column lengths hold the items *)
Fixpoint avail (lens : list Z) : Z :=
  match lens with [] => 0 | x :: r => if 1 <=? x then x + avail r else 0 end.

Lemma avail_nonneg lens : 0 <= avail lens.
Proof. induction lens as [|x r IH]; cbn [avail]; [lia|]. destruct (1 <=? x) eqn:E; lia. Qed.

Lemma cf_go_total : forall k idx row col lens acc, Z.of_nat k <= avail lens ->
  exists pos, Frames.cf_go k idx row col lens acc = Ok pos.
Proof.
  induction k as [|k IH]; intros idx row col lens acc H; cbn [Frames.cf_go].
  - eexists. reflexivity.
  - destruct lens as [|cur rest]; [cbn [avail] in H; lia|].
    cbn [avail] in H. destruct (1 <=? cur) eqn:E1; [|lia].
    destruct (cur - 1 =? 0) eqn:E0.
    + apply IH. lia.
    + apply IH. cbn [avail]. assert (R := avail_nonneg rest). destruct (1 <=? cur - 1) eqn:E2; lia.
Qed.

Lemma avail_column_lengths q r : 0 <= q -> 0 <= r -> forall len a,
  (if 1 <=? q then q * Z.of_nat len else 0) + Z.max 0 (Z.min r (Z.of_nat a + Z.of_nat len) - Z.of_nat a)
  <= avail (map (fun c => q + (if Z.of_nat c <? r then 1 else 0)) (seq a len)).
Proof.
  intros Hq Hr. induction len as [|len IH]; intros a; cbn [seq map avail].
  - destruct (1 <=? q); lia.
  - specialize (IH (S a)).
    set (rest := avail (map (fun c => q + (if Z.of_nat c <? r then 1 else 0)) (seq (S a) len))) in *.
    destruct (Z.of_nat a <? r) eqn:Ea; destruct (1 <=? q) eqn:Eq.
    + assert (E : 1 <=? q + 1 = true) by lia. rewrite E. lia.
    + assert (E : 1 <=? q + 1 = true) by lia. rewrite E. lia.
    + assert (E : 1 <=? q + 0 = true) by lia. rewrite E. lia.
    + assert (E : 1 <=? q + 0 = false) by lia. rewrite E. lia.
Qed.

Lemma cf_positions_total n cc : 0 <= n -> 1 <= cc -> exists pos, Frames.cf_positions n cc = Ok pos.
Proof.
  intros Hn Hc. unfold Frames.cf_positions. apply cf_go_total. unfold Frames.column_lengths.
  assert (A := avail_column_lengths (n / cc) (n mod cc) ltac:(apply Z.div_pos; lia)
                 ltac:(apply Z.mod_pos_bound; lia) (Z.to_nat cc) 0%nat).
  etransitivity; [|exact A].
  assert (Hd : n = cc * (n / cc) + n mod cc) by (apply Z.div_mod; lia).
  assert (Hm : 0 <= n mod cc < cc) by (apply Z.mod_pos_bound; lia).
  assert (Hq : 0 <= n / cc) by (apply Z.div_pos; lia).
  rewrite !Z2Nat.id by lia.
  destruct (1 <=? n / cc) eqn:E.
  - nia.
  - assert (n / cc = 0) by lia. nia.
Qed.

Lemma iter_items_total n cc cf : 0 <= n -> 1 <= cc -> exists items, Frames.iter_items n cc cf = Ok items.
Proof.
  intros Hn Hc. unfold Frames.iter_items.
  assert (E : cc =? 0 = false) by lia. rewrite E.
  destruct cf.
  - destruct (cf_positions_total n cc Hn Hc) as [pos H]. rewrite H. cbn [bind]. eexists. reflexivity.
  - cbn [bind]. eexists. reflexivity.
Qed.

(* valid options: a column width of at least one cell, non-negative padding *)
Theorem columns_fixed_total n cwid pl pr cf W :
  0 <= n -> 1 <= cwid -> 0 <= pl -> 0 <= pr ->
  exists r, columns_fixed_width true n cwid pl pr cf W = Ok r.
Proof.
  intros Hn Hw Hl Hr. unfold columns_fixed_width, columns_count.
  destruct (n =? 0); [eexists; reflexivity|].
  assert (E : cwid + Z.max pl pr =? 0 = false) by lia. rewrite E. cbn [bind].
  destruct (iter_items_total n (Z.max 1 (W / (cwid + Z.max pl pr))) cf Hn ltac:(lia)) as [items H].
  rewrite H. cbn [bind]. eexists. reflexivity.
Qed.

Theorem columns_fixed_documented n cwid pl pr cf W :
  0 <= n -> 1 <= cwid -> 0 <= pl -> 0 <= pr ->
  documented_b OP_columns (code_of (columns_fixed_width true n cwid pl pr cf W)) = true.
Proof. intros Hn Hw Hl Hr. destruct (columns_fixed_total n cwid pl pr cf W Hn Hw Hl Hr) as [r H]. rewrite H. reflexivity. Qed.

(* the as-found variant is Frames.columns_grid (C08's model) with an explicit width, class for class *)
Theorem columns_asis_is_frames ws cwid pl pr eq cf rtl W :
  code_of (columns_fixed_width false (zlen ws) cwid pl pr cf W)
  = code_of (Frames.columns_grid ws (Some cwid) pl pr eq cf rtl W).
Proof.
  unfold columns_fixed_width, columns_count, Frames.columns_grid.
  destruct (zlen ws =? 0); [reflexivity|].
  destruct (cwid + Z.max pl pr =? 0); [reflexivity|]. cbn [bind].
  destruct (Frames.iter_items (zlen ws) (W / (cwid + Z.max pl pr)) cf); reflexivity.
Qed.

(* D10: Columns([a, b, c], width=100) on a 30-column console *)
Theorem columns_asis_refuted :
  Frames.columns_grid [1; 1; 1] (Some 100) 0 1 false false false 30 = Crash K_ZeroDivisionError
  /\ columns_fixed_width false 3 100 0 1 false 30 = Crash K_ZeroDivisionError
  /\ exists r, columns_fixed_width true 3 100 0 1 false 30 = Ok r.
Proof. split; [vm_compute; reflexivity|]. split; [vm_compute; reflexivity|]. eexists. vm_compute. reflexivity. Qed.
