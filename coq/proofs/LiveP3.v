(* C10 proofs, part 4: the parser is back in the ground state and the cursor is hidden exactly while
   the display is started, after EVERY history -- faults, raising renderables, restarts, frames of
   any height included.  With block_restores_flags this gives cleanup_on_raise for the cursor. *)
From RichModel Require Import Prelude Cells TermGrid Live SpecLive.
From RichGen Require Import LiveCodes.
From RichProofs Require Import TermGridP LiveP LiveP2.
From Coq Require Import ZifyBool.

(* a chunk of output that leaves parser state and cursor visibility alone *)
Definition GV (x : str) : Prop :=
  forall H t, ps t = PGround -> ps (interp H t x) = PGround /\ vis (interp H t x) = vis t.

Lemma GV_nil : GV [].
Proof. intros H t Hp. split; [assumption|reflexivity]. Qed.

Lemma GV_app : forall a b, GV a -> GV b -> GV (a ++ b).
Proof.
  intros a b Ha Hb H t Hp. rewrite interp_app. destruct (Ha H t Hp) as [A1 A2].
  destruct (Hb H _ A1) as [B1 B2]. split; [assumption|congruence].
Qed.

Lemma GV_text : forall l, text_ok l = true -> GV l.
Proof.
  induction l as [|c l IH]; intros Hl; [apply GV_nil|].
  unfold text_ok in Hl. cbn [forallb] in Hl. apply andb_prop in Hl. destruct Hl as [Hc Hl].
  intros H t Hp. rewrite interp_cons, step_text by assumption.
  assert (P : ps (put t c) = PGround /\ vis (put t c) = vis t).
  { unfold put. destruct (cells_of c); [split; [assumption|reflexivity]|]. cbn. split; [assumption|reflexivity]. }
  destruct P as [P1 P2]. destruct (IH Hl H _ P1) as [Q1 Q2]. split; [assumption|congruence].
Qed.

Lemma GV_lf : GV [10].
Proof.
  intros H t Hp. rewrite (interp_cons _ _ 10 []), interp_nil, step_lf by assumption.
  unfold do_lf, down1. cbn. split; [assumption|reflexivity].
Qed.

Lemma GV_cr : GV [13].
Proof.
  intros H t Hp. rewrite (interp_cons _ _ 13 []), interp_nil, step_cr by assumption.
  unfold do_cr. cbn. split; [assumption|reflexivity].
Qed.

Lemma GV_el2 : GV [27; 91; 50; 75].
Proof. intros H [ab cr be co v vi p] Hp. cbn in Hp. subst p. rewrite interp_el2. split; reflexivity. Qed.

Lemma GV_cuu1 : GV [27; 91; 49; 65].
Proof.
  intros H [ab cr be co v vi p] Hp. cbn in Hp. subst p. rewrite interp_cuu1. unfold up1.
  cbn [above vr]. destruct ab; [split; reflexivity|]. destruct v; split; reflexivity.
Qed.

Lemma GV_unit : GV [27; 91; 49; 65; 27; 91; 50; 75].
Proof. apply (GV_app [27; 91; 49; 65] [27; 91; 50; 75]); [apply GV_cuu1|apply GV_el2]. Qed.

Lemma GV_units : forall n, GV (concat (repeat [27; 91; 49; 65; 27; 91; 50; 75] n)).
Proof. induction n; [apply GV_nil|]. cbn [repeat concat]. apply GV_app; [apply GV_unit|assumption]. Qed.

Lemma GV_erase : forall n, GV (erase_str n).
Proof.
  intros n. unfold erase_str. apply GV_app; [|apply GV_units].
  apply (GV_app [13] [27; 91; 50; 75]); [apply GV_cr|apply GV_el2].
Qed.

Lemma GV_pc : forall sh, GV (position_cursor sh).
Proof. intros [[w h]|]; [rewrite pc_is_erase; apply GV_erase|rewrite pc_none_nil; apply GV_nil]. Qed.

Lemma GV_rc : forall sh, GV (restore_cursor sh).
Proof.
  intros [[w h]|]; [rewrite rc_is; apply GV_app; [apply GV_cr|apply GV_units]|].
  change (restore_cursor None) with rc_none. apply GV_nil.
Qed.

Lemma GV_lines : forall ls, lines_ok ls = true -> GV (lines_str ls).
Proof.
  induction ls as [|l r IH]; intros Hl; [apply GV_nil|]. apply lines_ok_cons in Hl. destruct Hl as [Hl Hr].
  unfold lines_str. cbn [map concat]. apply GV_app; [apply GV_app; [now apply GV_text|apply GV_lf]|now apply IH].
Qed.

Lemma GV_join : forall fl, lines_ok fl = true -> GV (join_nl fl).
Proof.
  induction fl as [|l r IH]; intros Hl; [apply GV_nil|]. apply lines_ok_cons in Hl. destruct Hl as [Hl Hr].
  destruct r as [|l2 r]; [cbn [join_nl]; now apply GV_text|].
  rewrite join_nl_cons2. apply GV_app; [apply GV_app; [now apply GV_text|apply GV_lf]|now apply IH].
Qed.

Lemma cursor_sets_vis : forall H t (b : bool), ps t = PGround ->
  ps (interp H t (if b then cursor_on else cursor_off)) = PGround
  /\ vis (interp H t (if b then cursor_on else cursor_off)) = b.
Proof.
  intros H [ab cr be co v vi p] b Hp. cbn in Hp. subst p.
  destruct b; [rewrite cursor_on_is, interp_vis_on|rewrite cursor_off_is, interp_vis_off]; split; reflexivity.
Qed.

(* ---------- frames stay text ---------- *)
Lemma text_repeat : forall c n, is_text c = true -> text_ok (py_repeat c n) = true.
Proof.
  intros c n Hc. unfold text_ok, py_repeat. apply forallb_forall. intros x Hx.
  apply repeat_spec in Hx. now subst.
Qed.

Lemma text_app : forall a b, text_ok a = true -> text_ok b = true -> text_ok (a ++ b) = true.
Proof. intros a b Ha Hb. unfold text_ok in *. rewrite forallb_app, Ha, Hb. reflexivity. Qed.

Lemma text_pad : forall w l, text_ok l = true -> text_ok (pad_to w l) = true.
Proof. intros. unfold pad_to. apply text_app; [assumption|now apply text_repeat]. Qed.

Lemma lines_map_pad : forall w ls, lines_ok ls = true -> lines_ok (map (pad_to w) ls) = true.
Proof.
  intros w ls. induction ls as [|l r IH]; intros Hl; [reflexivity|].
  apply lines_ok_cons in Hl. destruct Hl as [Hl Hr]. unfold lines_ok in *. cbn [map forallb].
  rewrite (text_pad w l Hl). now apply IH.
Qed.

Lemma lines_app : forall a b, lines_ok a = true -> lines_ok b = true -> lines_ok (a ++ b) = true.
Proof. intros a b Ha Hb. unfold lines_ok in *. rewrite forallb_app, Ha, Hb. reflexivity. Qed.

Lemma lines_firstn : forall n ls, lines_ok ls = true -> lines_ok (firstn n ls) = true.
Proof.
  intros n ls Hl. unfold lines_ok in *. apply forallb_forall. intros x Hx.
  rewrite forallb_forall in Hl. apply Hl. rewrite <- (firstn_skipn n ls). apply in_or_app. now left.
Qed.

Lemma text_dots : forall W, text_ok (center_dots W) = true.
Proof.
  intros W. unfold center_dots. destruct (W <=? 3); [now apply text_repeat|].
  apply text_app; [now apply text_repeat|]. apply (text_app [DOT; DOT; DOT]); [reflexivity|now apply text_repeat].
Qed.

Lemma frame_lines_text : forall c s, lines_ok (cur s) = true -> lines_ok (lr s) = true ->
  lines_ok (fst (frame_lines c s)) = true.
Proof.
  intros c s Hc Hl. unfold frame_lines. destruct (c_progress c).
  - assert (Hr : lines_ok (progress_rows (c_prog_crop c) (c_H c) (lr s)) = true).
    { unfold progress_rows. destruct (c_prog_crop c); [apply lines_firstn|]; now apply lines_map_pad. }
    unfold progress_lines. destruct (grow_shape _ _ _ _) as [w h]. cbn [fst].
    apply lines_app; [now apply lines_map_pad|].
    unfold lines_ok. apply forallb_forall. intros x Hx. apply repeat_spec in Hx. subst x. now apply text_repeat.
  - cbn [fst]. unfold fit_live. destruct (max_height c s <? zlen (cur s)); [|assumption].
    destruct (ovf_now s); [now apply lines_firstn| |assumption].
    apply lines_app; [now apply lines_firstn|]. unfold lines_ok. cbn [forallb]. now rewrite text_dots.
Qed.

(* ---------- the invariant, for every operation whatever happens ---------- *)
(* v = the cursor visibility the terminal is in *)
Record VInvV (c : cfg) (s : st) (v : bool) : Prop := mkVInv {
  vi_ps : ps (T c s) = PGround;
  vi_vis : vis (T c s) = v;
  vi_cur : lines_ok (cur s) = true;
  vi_lr : lines_ok (lr s) = true
}.
Definition VInv (c : cfg) (s : st) : Prop := VInvV c s (negb (started s)).

Definition op_text (c : cfg) (o : op) : bool :=
  match o with
  | Print ls => lines_ok ls
  | Log ls => lines_ok ls
  | Update f _ => lines_ok f
  | _ => true
  end.

Lemma emit_GV : forall c s x v, GV x -> VInvV c s v -> VInvV c (emit s x) v.
Proof.
  intros c s x v Hx [A B C D]. destruct (Hx (Hn c) _ A) as [X1 X2].
  constructor; unfold T in *; cbn [emit out cur lr]; rewrite ?(interp_app _ _ (out s)); try assumption. congruence.
Qed.

Lemma emit_cursor : forall c s (b : bool) v, VInvV c s v ->
  VInvV c (emit s (if b then cursor_on else cursor_off)) b.
Proof.
  intros c s b v [A B C D]. destruct (cursor_sets_vis (Hn c) _ b A) as [X1 X2].
  constructor; unfold T in *; cbn [emit out cur lr]; rewrite ?(interp_app _ _ (out s)); assumption.
Qed.

Lemma VInvV_ext : forall c s s' v, out s' = out s -> cur s' = cur s -> lr s' = lr s ->
  VInvV c s v -> VInvV c s' v.
Proof.
  intros c s s' v E1 E3 E4 [A B C D]. constructor; unfold T in *; rewrite ?E1, ?E3, ?E4; assumption.
Qed.

Lemma cp_vinv : forall c s ls v, lines_ok ls = true -> VInvV c s v -> VInvV c (fst (console_print c s ls)) v.
Proof.
  intros c s ls v Hls Hi. pose proof Hi as [A B C D]. unfold console_print. destruct (0 <? hooks s)%nat.
  - destruct (fault (c_frender c) (nrender s)); cbn [fst].
    + constructor; assumption.
    + pose proof (frame_lines_text c s C D) as Hf. destruct (frame_lines c s) as [fl sh]. cbn [fst] in *.
      assert (G : GV (position_cursor (shape s) ++ lines_str ls ++ join_nl fl)).
      { apply GV_app; [apply GV_pc|]. apply GV_app; [now apply GV_lines|now apply GV_join]. }
      destruct (G (Hn c) _ A) as [X1 X2].
      constructor; unfold T in *; cbn [drew bump_render out cur lr]; rewrite ?(interp_app _ _ (out s)); try assumption. congruence.
  - cbn [fst]. destruct (GV_lines ls Hls (Hn c) _ A) as [X1 X2].
    constructor; unfold T in *; cbn [printed_plain out cur lr]; rewrite ?(interp_app _ _ (out s)); try assumption. congruence.
Qed.

Lemma refresh_vinv : forall c s v, VInvV c s v -> VInvV c (fst (refresh c s)) v.
Proof.
  intros c s v Hi. unfold refresh. destruct (c_progress c).
  - destruct (fault (c_fbuild c) (nbuild s)); cbn [fst].
    + destruct Hi as [A B C D]. constructor; assumption.
    + apply cp_vinv; [reflexivity|]. destruct Hi as [A B C D]. constructor; assumption.
  - now apply cp_vinv.
Qed.

Lemma log_lines_text : forall W ls, lines_ok ls = true -> lines_ok (log_lines W ls) = true.
Proof. intros W ls Hl. unfold log_lines. apply lines_map_pad. destruct ls; [reflexivity|assumption]. Qed.

Lemma start_vinv : forall c s, VInv c s -> VInv c (fst (start c s)).
Proof.
  intros c s Hi. unfold VInv in *. unfold start. destruct (started s) eqn:Es; [cbn [fst]; now rewrite Es|].
  set (s1 := emit (set_flags s true (S (hooks s)) true) cursor_off).
  assert (I1 : VInvV c s1 false).
  { subst s1. apply (emit_cursor c _ false (negb false)).
    apply (VInvV_ext c s); try reflexivity. assumption. }
  destruct (c_progress c); [|exact I1].
  pose proof (refresh_vinv c s1 false I1) as I2.
  pose proof (refresh_flags c s1) as (F1 & _ & _).
  destruct (refresh c s1) as [s2 raised]. cbn [fst] in *.
  destruct (raised && start_cleans c); cbn [fst].
  - apply (emit_cursor c _ true false). apply (VInvV_ext c s2); try reflexivity. assumption.
  - rewrite F1. exact I2.
Qed.

Lemma stop_vinv : forall c s, VInv c s -> VInv c (fst (stop c s)).
Proof.
  intros c s Hi. unfold VInv in *. unfold stop. destruct (started s) eqn:Es; cbn [negb]; [|cbn [fst]; now rewrite Es].
  cbn [negb] in Hi.
  set (s1 := if c_progress c then _ else _).
  assert (I1 : VInvV c s1 false).
  { subst s1. destruct (c_progress c); [|destruct (c_vis_unless_transient c && c_transient c)];
      (eapply VInvV_ext; [| | |exact Hi]; reflexivity). }
  pose proof (refresh_vinv c s1 false I1) as I2.
  destruct (refresh c s1) as [sr raised]. cbn [fst] in I2.
  assert (I3 : VInvV c (after_refresh c s sr raised) false).
  { unfold after_refresh. destruct (restores c raised); [|assumption]. apply (VInvV_ext c sr); try reflexivity. assumption. }
  set (s2 := after_refresh c s sr raised) in *.
  assert (I4 : VInvV c (if raised then s2 else emit s2 [NL]) false).
  { destruct raised; [assumption|]. apply emit_GV; [apply GV_lf|assumption]. }
  set (s3 := if raised then s2 else emit s2 [NL]) in *.
  assert (I5 : VInvV c (emit (set_flags s3 false (pred (hooks s3)) false) cursor_on) true).
  { apply (emit_cursor c _ true false). apply (VInvV_ext c s3); try reflexivity. assumption. }
  set (s4 := emit (set_flags s3 false (pred (hooks s3)) false) cursor_on) in *.
  assert (K : forall x, VInvV c x true -> started x = false -> VInvV c (forget c x) (negb (started (forget c x)))).
  { intros x Hx Ex. unfold forget. destruct (c_resets_shape c).
    - cbn [forget_shape started]. rewrite Ex. apply (VInvV_ext c x); try reflexivity. assumption.
    - rewrite Ex. assumption. }
  destruct raised; cbn [fst]; [exact I5|].
  destruct (c_transient c); cbn [fst]; apply K; try reflexivity.
  - apply (VInvV_ext c (emit s4 (restore_cursor (shape s4)))); try reflexivity. apply emit_GV; [apply GV_rc|assumption].
  - apply (VInvV_ext c s4); try reflexivity. assumption.
Qed.

Lemma step_vinv : forall c s o, op_text c o = true -> VInv c s -> VInv c (fst (step c s o)).
Proof.
  intros c s o Ht Hi. destruct o; cbn [step op_text] in *.
  - unfold VInv in *. pose proof (console_print_flags c s ls) as (F1 & _ & _). rewrite F1. now apply cp_vinv.
  - unfold VInv in *. pose proof (console_print_flags c s (log_lines (c_W c) ls)) as (F1 & _ & _). rewrite F1.
    apply cp_vinv; [now apply log_lines_text|assumption].
  - assumption.
  - assert (I1 : VInv c (set_cur s f)).
    { unfold VInv in *. destruct Hi as [A B C D]. constructor; unfold T in *; cbn [set_cur out started cur lr]; assumption. }
    destruct r; [|exact I1]. unfold VInv in *.
    pose proof (refresh_flags c (set_cur s f)) as (F1 & _ & _). rewrite F1. now apply refresh_vinv.
  - unfold VInv in *. pose proof (refresh_flags c s) as (F1 & _ & _). rewrite F1. now apply refresh_vinv.
  - now apply start_vinv.
  - now apply stop_vinv.
Qed.

Lemma run_vinv : forall c ops s, forallb (op_text c) ops = true -> VInv c s -> VInv c (fst (run_ops c s ops)).
Proof.
  intros c ops. induction ops as [|o r IH]; intros s Ht Hi; [assumption|].
  cbn [forallb] in Ht. apply andb_prop in Ht. destruct Ht as [H1 H2].
  pose proof (step_vinv c s o H1 Hi) as I1. cbn [run_ops]. destruct (step c s o) as [s1 raised]. cbn [fst] in I1.
  destruct raised; [assumption|]. now apply IH.
Qed.

Lemma VInv_init : forall c f0, lines_ok f0 = true -> VInv c (st0 c f0).
Proof. intros c f0 Hf. constructor; unfold T; cbn; try assumption; reflexivity. Qed.

(* the cursor is hidden exactly while started, after every history under every fault *)
Theorem cursor_vis_any_history : forall c f0 ops, lines_ok f0 = true -> forallb (op_text c) ops = true ->
  let s := fst (run_ops c (st0 c f0) ops) in
  cursor_vis_ok_b (Hn c) (started s) (out s) = true.
Proof.
  intros c f0 ops Hf Ht. cbv zeta. pose proof (run_vinv c ops _ Ht (VInv_init c f0 Hf)) as [A B _ _].
  unfold cursor_vis_ok_b. fold (T c (fst (run_ops c (st0 c f0) ops))). rewrite B. apply Bool.eqb_reflx.
Qed.

(* cleanup_on_raise, complete for what is left behind: hooks, redirection, started AND cursor *)
Theorem block_cleanup : forall c f0 pre body,
  c_progress c = false \/ start_cleans c = true ->
  lines_ok f0 = true -> forallb lines_ok pre = true -> forallb (op_text c) body = true ->
  let s := fst (run_block c f0 pre body) in
  cleanup_ok_b (Hn c) 0 (hooks s) (negb (redir s)) (out s) = true.
Proof.
  intros c f0 pre body Hg Hf Hpre Hbody. cbv zeta.
  pose proof (block_restores_flags c f0 pre body Hg) as (F1 & F2 & F3).
  assert (V : VInv c (fst (run_block c f0 pre body))).
  { unfold run_block.
    assert (Hp : forallb (op_text c) (map Print pre) = true).
    { clear - Hpre. induction pre as [|p r IH]; [reflexivity|]. cbn [forallb map op_text] in *.
      apply andb_prop in Hpre. destruct Hpre as [A B]. rewrite A. now apply IH. }
    pose proof (run_vinv c (map Print pre) _ Hp (VInv_init c f0 Hf)) as I0.
    destruct (run_ops c (st0 c f0) (map Print pre)) as [s0 r0]. cbn [fst] in I0.
    pose proof (start_vinv c s0 I0) as I1. destruct (start c s0) as [s1 r1]. cbn [fst] in I1.
    destruct r1; [exact I1|].
    pose proof (run_vinv c body s1 Hbody I1) as I2. destruct (run_ops c s1 body) as [s2 r2]. cbn [fst] in I2.
    pose proof (stop_vinv c s2 I2) as I3. destruct (stop c s2) as [s3 r3]. exact I3. }
  destruct V as [A B _ _]. unfold cleanup_ok_b. rewrite F2, F3. cbn [Nat.eqb negb andb].
  fold (T c (fst (run_block c f0 pre body))). rewrite B, F1. reflexivity.
Qed.

(* ================= the exception propagates ================= *)
Definition reached (f : option nat) (n : nat) : bool :=
  match f with Some k => (k <? n)%nat | None => false end.
(* the faulty render / build call has happened *)
Definition fired (c : cfg) (s : st) : bool :=
  reached (c_frender c) (nrender s) || reached (c_fbuild c) (nbuild s).

Lemma fired_ext : forall c s s', nrender s' = nrender s -> nbuild s' = nbuild s -> fired c s' = fired c s.
Proof. intros c s s' E1 E2. unfold fired. now rewrite E1, E2. Qed.

Lemma reached_S : forall f n, reached f n = false -> reached f (S n) = true -> fault f n = true.
Proof.
  intros [k|] n A B; unfold reached, fault in *; [lia|discriminate].
Qed.
Lemma reached_S_no : forall f n, reached f n = false -> fault f n = false -> reached f (S n) = false.
Proof.
  intros [k|] n A B; unfold reached, fault in *; [lia|reflexivity].
Qed.

Lemma cp_fire : forall c s ls, fired c s = false ->
  fired c (fst (console_print c s ls)) = true -> snd (console_print c s ls) = true.
Proof.
  intros c s ls Hf. unfold fired in Hf. apply orb_false_elim in Hf. destruct Hf as [H1 H2].
  unfold console_print. destruct (0 <? hooks s)%nat.
  - destruct (fault (c_frender c) (nrender s)) eqn:Ef; cbn [fst snd]; [reflexivity|].
    destruct (frame_lines c s) as [fl sh]. cbn [fst snd]. unfold fired. cbn [drew bump_render nrender nbuild].
    rewrite (reached_S_no _ _ H1 Ef), H2. discriminate.
  - cbn [fst snd]. unfold fired. cbn [printed_plain nrender nbuild]. rewrite H1, H2. discriminate.
Qed.

Lemma refresh_fire : forall c s, fired c s = false ->
  fired c (fst (refresh c s)) = true -> snd (refresh c s) = true.
Proof.
  intros c s Hf. unfold refresh. destruct (c_progress c); [|now apply cp_fire].
  destruct (fault (c_fbuild c) (nbuild s)) eqn:Ef; cbn [fst snd]; [reflexivity|].
  apply cp_fire. unfold fired in *. apply orb_false_elim in Hf. destruct Hf as [H1 H2].
  cbn [set_lr bump_build nrender nbuild]. now rewrite H1, (reached_S_no _ _ H2 Ef).
Qed.

Lemma not_fired : forall (b r : bool), (b = true -> r = true) -> r = false -> b = false.
Proof. intros [] [] H1 H2; auto. discriminate (H1 eq_refl). Qed.

Lemma start_fire : forall c s, fired c s = false ->
  fired c (fst (start c s)) = true -> snd (start c s) = true.
Proof.
  intros c s Hf. unfold start. destruct (started s); cbn [fst snd]; [congruence|].
  set (s1 := emit (set_flags s true (S (hooks s)) true) cursor_off).
  assert (H1 : fired c s1 = false) by (rewrite (fired_ext c s s1); [assumption|reflexivity|reflexivity]).
  destruct (c_progress c); cbn [fst snd]; [|congruence].
  pose proof (refresh_fire c s1 H1) as R. destruct (refresh c s1) as [s2 raised]. cbn [fst snd] in *.
  destruct raised; cbn [andb].
  - destruct (start_cleans c); reflexivity.
  - cbn [fst snd]. exact R.
Qed.

Lemma stop_fire : forall c s, fired c s = false ->
  fired c (fst (stop c s)) = true -> snd (stop c s) = true.
Proof.
  intros c s Hf. unfold stop. destruct (started s); cbn [negb fst snd]; [|congruence].
  set (s1 := if c_progress c then _ else _).
  assert (H1 : fired c s1 = false).
  { rewrite (fired_ext c s s1); [assumption| |]; subst s1; destruct (c_progress c); try reflexivity;
      destruct (c_vis_unless_transient c && c_transient c); reflexivity. }
  pose proof (refresh_fire c s1 H1) as R. destruct (refresh c s1) as [sr raised]. cbn [fst snd] in R.
  destruct raised; cbn [fst snd]; [reflexivity|].
  pose proof (not_fired _ _ R eq_refl) as H2. intros H3. exfalso.
  assert (E : forall x, nrender x = nrender sr -> nbuild x = nbuild sr -> fired c x = false).
  { intros x E1 E2. rewrite (fired_ext c sr x); assumption. }
  assert (Ear : nrender (after_refresh c s sr false) = nrender sr /\ nbuild (after_refresh c s sr false) = nbuild sr).
  { unfold after_refresh. destruct (restores c false); split; reflexivity. }
  destruct Ear as [Ea1 Ea2].
  destruct (c_transient c); cbn [fst] in H3; rewrite E in H3; try discriminate;
    unfold forget; destruct (c_resets_shape c); cbn; assumption.
Qed.

Lemma step_fire : forall c s o, fired c s = false ->
  fired c (fst (step c s o)) = true -> snd (step c s o) = true.
Proof.
  intros c s o Hf. destruct o; cbn [step].
  - now apply cp_fire.
  - now apply cp_fire.
  - reflexivity.
  - destruct r; cbn [fst snd].
    + apply refresh_fire. rewrite (fired_ext c s); [assumption|reflexivity|reflexivity].
    + rewrite (fired_ext c s (set_cur s f)); [congruence|reflexivity|reflexivity].
  - now apply refresh_fire.
  - now apply start_fire.
  - now apply stop_fire.
Qed.

Lemma run_fire : forall c ops s, fired c s = false ->
  fired c (fst (run_ops c s ops)) = true -> snd (run_ops c s ops) = true.
Proof.
  intros c ops. induction ops as [|o r IH]; intros s Hf; cbn [run_ops fst snd]; [congruence|].
  pose proof (step_fire c s o Hf) as S1. destruct (step c s o) as [s1 raised]. cbn [fst snd] in S1.
  destruct raised; cbn [fst snd]; [reflexivity|]. apply IH. exact (not_fired _ _ S1 eq_refl).
Qed.

Lemma prints_idle : forall c pre s, hooks s = 0%nat -> fired c s = false ->
  hooks (fst (run_ops c s (map Print pre))) = 0%nat /\ fired c (fst (run_ops c s (map Print pre))) = false.
Proof.
  intros c pre. induction pre as [|p r IH]; intros s Hh Hf; [split; assumption|].
  cbn [map run_ops step]. unfold console_print. rewrite Hh. cbn [Nat.ltb Nat.leb fst snd].
  apply IH; [exact Hh|]. rewrite (fired_ext c s); [assumption|reflexivity|reflexivity].
Qed.

(* if the faulty render / get_renderable call happened anywhere in `with display: body`, or a user
   renderable raised, the block raises *)
Theorem block_propagates : forall c f0 pre body,
  fired c (fst (run_block c f0 pre body)) = true -> snd (run_block c f0 pre body) = true.
Proof.
  intros c f0 pre body. unfold run_block.
  assert (F0 : fired c (st0 c f0) = false).
  { unfold fired, reached. cbn. destruct (c_frender c), (c_fbuild c); reflexivity. }
  pose proof (prints_idle c pre (st0 c f0) eq_refl F0) as [_ P].
  destruct (run_ops c (st0 c f0) (map Print pre)) as [s0 r0]. cbn [fst] in P.
  pose proof (start_fire c s0 P) as S1. destruct (start c s0) as [s1 r1]. cbn [fst snd] in S1.
  destruct r1; cbn [fst snd]; [reflexivity|].
  pose proof (not_fired _ _ S1 eq_refl) as P1.
  pose proof (run_fire c body s1 P1) as S2. destruct (run_ops c s1 body) as [s2 r2]. cbn [fst snd] in S2.
  destruct r2.
  - destruct (stop c s2) as [s3 r3]. reflexivity.
  - pose proof (not_fired _ _ S2 eq_refl) as P2.
    pose proof (stop_fire c s2 P2) as S3. destruct (stop c s2) as [s3 r3]. cbn [fst snd orb] in *. exact S3.
Qed.
