(* C10 proofs, part 1: what start/stop leave behind (hooks, redirection, cursor visibility) for
   EVERY history and EVERY fault index; refutation witnesses for the defects found. *)
From RichModel Require Import Prelude Cells TermGrid Live SpecLive.
From RichGen Require Import LiveCodes.
From RichProofs Require Import TermGridP.
From Coq Require Import ZifyBool.

(* the generated control strings are the ones the lemmas of TermGridP are about; an edit of
   live_render.py / console.show_cursor breaks these obligations *)
Lemma pc_is_erase : forall w h, position_cursor (Some (w, h)) = erase_str (Z.to_nat (h - 1)).
Proof. intros. unfold position_cursor, erase_str, py_repeat. reflexivity. Qed.
Lemma pc_none_nil : position_cursor None = [].
Proof. reflexivity. Qed.
Lemma rc_is : forall w h, restore_cursor (Some (w, h)) =
  [13] ++ concat (repeat [27; 91; 49; 65; 27; 91; 50; 75] (Z.to_nat h)).
Proof. intros. unfold restore_cursor, py_repeat. rewrite Z.add_0_r. reflexivity. Qed.
Lemma cursor_on_is : cursor_on = [27; 91; 63; 50; 53; 104].
Proof. reflexivity. Qed.
Lemma cursor_off_is : cursor_off = [27; 91; 63; 50; 53; 108].
Proof. reflexivity. Qed.

(* ---------- flags ---------- *)
Definition clean (s : st) : Prop := started s = false /\ hooks s = 0%nat /\ redir s = false.
Definition active (s : st) : Prop := started s = true /\ hooks s = 1%nat /\ redir s = true.
Definition same_flags (s s' : st) : Prop :=
  started s' = started s /\ hooks s' = hooks s /\ redir s' = redir s.

Lemma console_print_flags : forall c s ls, same_flags s (fst (console_print c s ls)).
Proof.
  intros c s ls. unfold console_print. destruct (0 <? hooks s)%nat.
  - destruct (fault (c_frender c) (nrender s)); [repeat split|].
    destruct (frame_lines c s) as [fl sh]. repeat split.
  - repeat split.
Qed.

Lemma refresh_flags : forall c s, same_flags s (fst (refresh c s)).
Proof.
  intros c s. unfold refresh. destruct (c_progress c).
  - destruct (fault (c_fbuild c) (nbuild s)); [repeat split|].
    apply (console_print_flags c (set_lr (bump_build s) (cur (bump_build s))) []).
  - apply console_print_flags.
Qed.

Lemma start_flags : forall c s, clean s \/ active s ->
  let r := start c s in
  (clean (fst r) \/ active (fst r)) /\
  (clean s -> snd r = false -> active (fst r)) /\
  (clean s -> snd r = true -> c_progress c = false \/ start_cleans c = true -> clean (fst r)).
Proof.
  intros c s Hs. unfold start. destruct (started s) eqn:Es.
  - cbn. split; [assumption|]. split; intros [Hc _]; congruence.
  - destruct Hs as [Hc|[Ha _]]; [|congruence]. destruct Hc as (_ & Hh & Hr).
    destruct (c_progress c) eqn:Ep.
    + pose proof (refresh_flags c (emit (set_flags s true (S (hooks s)) true) cursor_off)) as Hf.
      destruct (refresh c (emit (set_flags s true (S (hooks s)) true) cursor_off)) as [s2 raised].
      cbn [fst] in Hf. destruct Hf as (F1 & F2 & F3). cbn in F1, F2, F3. rewrite Hh in F2.
      destruct raised; cbn [andb].
      * destruct (start_cleans c) eqn:Eg; cbn [fst snd].
        -- split; [left; repeat split; cbn; rewrite F2; reflexivity|].
           split; [discriminate|]. intros _ _ _. repeat split; cbn. rewrite F2. reflexivity.
        -- split; [right; repeat split; assumption|]. split; [discriminate|].
           intros _ _ [Hx|Hx]; discriminate.
      * cbn [fst snd]. split; [right; repeat split; assumption|].
        split; [intros; repeat split; assumption|discriminate].
    + cbn [fst snd]. rewrite Hh. split; [right; repeat split|]. split; [repeat split|discriminate].
Qed.

Lemma after_refresh_flags : forall c s sr r, same_flags sr (after_refresh c s sr r).
Proof. intros. unfold after_refresh. destruct (restores c r); repeat split. Qed.
Lemma forget_flags : forall c s, same_flags s (forget c s).
Proof. intros. unfold forget. destruct (c_resets_shape c); repeat split. Qed.

Lemma stop_flags : forall c s, clean s \/ active s -> clean (fst (stop c s)).
Proof.
  intros c s Hs. unfold stop. destruct (started s) eqn:Es; cbn [negb].
  - destruct Hs as [[Hc _]|(_ & Hh & Hr)]; [congruence|].
    set (s1 := if c_progress c then _ else _).
    assert (F : same_flags (set_flags s false (hooks s) (redir s)) s1).
    { subst s1. destruct (c_progress c); [repeat split|].
      destruct (c_vis_unless_transient c && c_transient c); repeat split. }
    pose proof (refresh_flags c s1) as Hf. destruct (refresh c s1) as [sr raised]. cbn [fst] in Hf.
    pose proof (after_refresh_flags c s sr raised) as (G1 & G2 & G3).
    set (s2 := after_refresh c s sr raised) in *.
    destruct F as (A1 & A2 & A3). destruct Hf as (B1 & B2 & B3). cbn in A1, A2, A3.
    assert (Hh2 : hooks s2 = 1%nat) by congruence.
    destruct raised; cbn [fst].
    + repeat split; cbn; rewrite Hh2; reflexivity.
    + destruct (c_transient c); cbn [fst];
        match goal with |- clean (forget c ?x) =>
          pose proof (forget_flags c x) as (K1 & K2 & K3);
          repeat split; [rewrite K1|rewrite K2|rewrite K3]; cbn; rewrite ?Hh2; reflexivity end.
  - destruct Hs as [Hc|[Ha _]]; [assumption|congruence].
Qed.

Lemma step_flags : forall c s o, clean s \/ active s -> clean (fst (step c s o)) \/ active (fst (step c s o)).
Proof.
  intros c s o Hs.
  assert (K : forall s', same_flags s s' -> clean s' \/ active s').
  { intros s' (A & B & C). destruct Hs as [(X & Y & Z)|(X & Y & Z)]; [left|right]; repeat split; congruence. }
  destruct o; cbn [step].
  - apply K, console_print_flags.
  - apply K, console_print_flags.
  - assumption.
  - destruct r; [|cbn; apply K; repeat split].
    pose proof (refresh_flags c (set_cur s f)) as (A & B & C). apply K. repeat split; assumption.
  - apply K, refresh_flags.
  - apply (start_flags c s Hs).
  - left. now apply stop_flags.
Qed.

Lemma run_ops_flags : forall c ops s, clean s \/ active s ->
  clean (fst (run_ops c s ops)) \/ active (fst (run_ops c s ops)).
Proof.
  intros c ops. induction ops as [|o r IH]; intros s Hs; [assumption|].
  cbn [run_ops]. pose proof (step_flags c s o Hs) as H1. destruct (step c s o) as [s1 raised].
  destruct raised; [assumption|]. now apply IH.
Qed.

Lemma prints_clean : forall c pre s, clean s -> clean (fst (run_ops c s (map Print pre))).
Proof.
  intros c pre. induction pre as [|p r IH]; intros s Hs; [assumption|].
  cbn [map run_ops step]. pose proof (console_print_flags c s p) as (A & B & C).
  destruct (console_print c s p) as [s1 raised]. cbn [fst] in *.
  assert (clean s1) by (destruct Hs as (X & Y & Z); repeat split; congruence).
  destruct raised; [assumption|]. now apply IH.
Qed.

(* stdout/stderr are redirected exactly while the display is started -- every history, every fault,
   restarts included (a second start() installs the proxies again) *)
Theorem redirected_iff_started : forall c f0 ops,
  let s := fst (run_ops c (st0 c f0) ops) in redir s = started s.
Proof.
  intros c f0 ops. cbv zeta.
  destruct (run_ops_flags c ops (st0 c f0) (or_introl (conj eq_refl (conj eq_refl eq_refl)))) as [(A & _ & B)|(A & _ & B)];
    congruence.
Qed.

(* hooks, redirection and the started flag after a with-block, whatever raised wherever *)
Theorem block_restores_flags : forall c f0 pre body,
  c_progress c = false \/ start_cleans c = true ->
  clean (fst (run_block c f0 pre body)).
Proof.
  intros c f0 pre body Hg. unfold run_block.
  pose proof (prints_clean c pre (st0 c f0)) as H0.
  destruct (run_ops c (st0 c f0) (map Print pre)) as [s0 r0]. cbn [fst] in H0.
  assert (Hc : clean s0) by (apply H0; repeat split).
  pose proof (start_flags c s0 (or_introl Hc)) as (_ & S1 & S2).
  destruct (start c s0) as [s1 r1]. cbn [fst snd] in *. destruct r1.
  - cbn [fst]. now apply S2.
  - pose proof (run_ops_flags c body s1 (or_intror (S1 Hc eq_refl))) as H2.
    destruct (run_ops c s1 body) as [s2 r2]. cbn [fst] in H2.
    pose proof (stop_flags c s2 H2) as H3. destruct (stop c s2) as [s3 r3]. exact H3.
Qed.

(* ================= part 2: one hooked print keeps the screen right ================= *)
Lemma lines_ok_cons : forall l r, lines_ok (l :: r) = true -> text_ok l = true /\ lines_ok r = true.
Proof. intros l r Hl. unfold lines_ok in *. cbn in Hl. now apply andb_prop in Hl. Qed.

Lemma interp_lines : forall H ls ab be v vi, lines_ok ls = true -> blanks be ->
  interp H (mkTerm ab [] be 0 v vi PGround) (lines_str ls)
  = mkTerm (rev (map row_of ls) ++ ab) [] (skipn (length ls) be) 0 (iter (length ls) (lf_vr H) v) vi PGround.
Proof.
  intros H ls. induction ls as [|l r IH]; intros ab be v vi Hl Hb.
  - reflexivity.
  - apply lines_ok_cons in Hl. destruct Hl as [Hl Hr].
    unfold lines_str. cbn [map concat]. rewrite interp_app. rewrite interp_line by assumption.
    rewrite (blanks_hd be Hb). fold (lines_str r). rewrite IH by (try assumption; now apply blanks_tl).
    cbn [map rev length]. rewrite <- app_assoc. cbn [app]. rewrite iter_S.
    f_equal. destruct be; [now rewrite skipn_nil|reflexivity].
Qed.

Lemma join_nl_cons2 : forall l l2 r, join_nl (l :: l2 :: r) = (l ++ [10]) ++ join_nl (l2 :: r).
Proof. intros. cbn [join_nl]. rewrite <- app_assoc. reflexivity. Qed.

Lemma interp_frame : forall H fl ab be v vi, fl <> [] -> lines_ok fl = true -> blanks be ->
  let t' := interp H (mkTerm ab [] be 0 v vi PGround) (join_nl fl) in
  rev (above t') ++ [crow t'] = rev ab ++ map row_of fl
  /\ below t' = skipn (length fl - 1) be
  /\ vr t' = iter (length fl - 1) (lf_vr H) v
  /\ vis t' = vi /\ ps t' = PGround /\ col t' = length (crow t').
Proof.
  intros H fl. induction fl as [|l r IH]; intros ab be v vi Hne Hl Hb; [congruence|].
  apply lines_ok_cons in Hl. destruct Hl as [Hl Hr]. destruct r as [|l2 r].
  - cbn [join_nl]. cbv zeta.
    rewrite (interp_text H l (mkTerm ab [] be 0 v vi PGround) eq_refl eq_refl Hl).
    cbn [above crow below col vr vis ps app map length Nat.sub skipn iter]. repeat split; reflexivity.
  - cbv zeta. rewrite join_nl_cons2, interp_app, interp_line by assumption.
    rewrite (blanks_hd be Hb).
    specialize (IH (row_of l :: ab) (tl be) (lf_vr H v) vi ltac:(discriminate) Hr (blanks_tl be Hb)).
    cbv zeta in IH. destruct IH as (A & B & C & D & E & F).
    repeat split; try assumption.
    + rewrite A. cbn [rev map]. now rewrite <- app_assoc.
    + rewrite B. cbn [length Nat.sub]. rewrite Nat.sub_0_r. destruct be; [now rewrite skipn_nil|].
      cbn [tl length]. destruct (length r); reflexivity.
    + rewrite C. cbn [length Nat.sub]. rewrite Nat.sub_0_r. reflexivity.
Qed.

Definition region_rows (fl : list str) : list row :=
  match fl with [] => [[]] | _ => map row_of fl end.

(* the terminal shows P followed by the live region R, cursor on R's last row *)
Definition live_at0 (t : term) (P R : list row) : Prop :=
  ps t = PGround /\ blanks (below t) /\ rev (above t) ++ [crow t] = P ++ R /\ R <> []
  /\ (R = [[]] -> col t = 0%nat).
(* ... and the whole region is on the page, so that cursor-up can reach its first row *)
Definition live_at (t : term) (P R : list row) : Prop :=
  live_at0 t P R /\ (length R - 1 <= vr t)%nat.

Lemma split_last : forall {A} (R : list A), R <> [] -> exists R' x, R = R' ++ [x] /\ length R' = (length R - 1)%nat.
Proof.
  intros A R Hne. destruct (exists_last Hne) as (R' & x & E). exists R', x. split; [assumption|].
  subst R. rewrite app_length. cbn. lia.
Qed.

(* [erase old region, user lines, new frame] in one write *)
Lemma draw_step : forall H t P R pc ls fl,
  live_at t P R ->
  (pc = erase_str (length R - 1) \/ (pc = [] /\ R = [[]])) ->
  lines_ok ls = true -> lines_ok fl = true ->
  let t' := interp H t (pc ++ lines_str ls ++ join_nl fl) in
  live_at0 t' (P ++ map row_of ls) (region_rows fl) /\ vis t' = vis t
  /\ ((length fl <= H)%nat -> (length (region_rows fl) - 1 <= vr t')%nat).
Proof.
  intros H t P R pc ls fl ((Hps & Hbl & Hg & Hne & Hcol) & Hvr) Hpc Hls Hfl.
  destruct (split_last R Hne) as (R' & x & ER & LR).
  destruct t as [ab cr be co v vi p]. cbn [ps below above crow vr col vis] in *. subst p.
  rewrite ER, app_assoc in Hg. apply app_inj_tail in Hg. destruct Hg as [Hab Hcr].
  assert (Eab : ab = rev R' ++ rev P).
  { rewrite <- (rev_involutive ab), Hab, rev_app_distr. reflexivity. }
  (* state after the erase: cursor on the first row of the old region, everything below blank *)
  assert (exists v0 be0, blanks be0 /\
            interp H (mkTerm ab cr be co v vi PGround) pc = mkTerm (rev P) [] be0 0 v0 vi PGround)
    as (v0 & be0 & Hb0 & E0).
  { destruct Hpc as [Hpc|[Hpc HR]].
    - exists (v - (length R - 1))%nat, (repeat [] (length R - 1) ++ be). split.
      + apply blanks_app; [apply blanks_repeat|assumption].
      + subst pc ab. replace v with ((length R - 1) + (v - (length R - 1)))%nat at 1 by lia.
        apply interp_erase. rewrite rev_length. assumption.
    - exists v, be. split; [assumption|]. subst pc. cbn [interp fold_left].
      rewrite HR in ER. destruct R' as [|y R'']; [|destruct R''; discriminate].
      cbn in ER. injection ER as <-. subst cr. rewrite (Hcol HR). subst ab. reflexivity. }
  cbv zeta. rewrite interp_app, E0, interp_app, interp_lines by assumption.
  pose proof (blanks_skipn (length ls) be0 Hb0) as Hb1.
  destruct fl as [|f fr].
  - cbn [join_nl interp fold_left region_rows vis]. split; [|split; [reflexivity|cbn; lia]].
    unfold live_at0. cbn [ps below above crow vr col]. repeat split; try assumption; try discriminate.
    rewrite rev_app_distr, rev_involutive, rev_involutive. reflexivity.
  - pose proof (interp_frame H (f :: fr) (rev (map row_of ls) ++ rev P) (skipn (length ls) be0)
                  (iter (length ls) (lf_vr H) v0) vi ltac:(discriminate) Hfl Hb1) as HF.
    cbv zeta in HF. destruct HF as (A & B & C & D & E & F).
    split; [|split; [assumption|]].
    2:{ intros Hfit. rewrite C. unfold region_rows. rewrite map_length. apply iter_lf_fit. cbn [length] in *. lia. }
    unfold live_at0. repeat split.
    + assumption.
    + rewrite B. now apply blanks_skipn.
    + rewrite A. rewrite rev_app_distr, rev_involutive, rev_involutive. reflexivity.
    + discriminate.
    + intros HR. rewrite F.
      assert (HL : last (rev (above (interp H (mkTerm (rev (map row_of ls) ++ rev P) [] (skipn (length ls) be0) 0
                       (iter (length ls) (lf_vr H) v0) vi PGround) (join_nl (f :: fr)))) ++
                       [crow (interp H (mkTerm (rev (map row_of ls) ++ rev P) [] (skipn (length ls) be0) 0
                       (iter (length ls) (lf_vr H) v0) vi PGround) (join_nl (f :: fr)))]) [] = []).
      { rewrite A. unfold region_rows in HR. rewrite HR. rewrite last_last. reflexivity. }
      rewrite last_last in HL. rewrite HL. reflexivity.
Qed.

(* ================= erase_clears as a statement about the spec checker ================= *)
Lemma rev_repeat' : forall {A} (x : A) n, rev (repeat x n) = repeat x n.
Proof.
  intros A x n. induction n; [reflexivity|]. cbn [repeat rev]. rewrite IHn. symmetry. apply repeat_cons.
Qed.

Lemma erase_clears_b : forall H pre h w,
  erase_ok_b H pre h (position_cursor (Some (w, Z.of_nat h))) = true.
Proof.
  intros H pre h w. unfold erase_ok_b. rewrite pc_is_erase.
  replace (Z.to_nat (Z.of_nat h - 1)) with (pred h) by lia.
  assert (E : interp (Nat.max H (h + pre))
                (mkTerm (filled (pred h + pre)) [120] [] 1 (pred h + pre) true PGround) (erase_str (pred h))
              = mkTerm (repeat [120] pre) [] (repeat [] (pred h) ++ []) 0 pre true PGround).
  { unfold filled. rewrite repeat_app. apply interp_erase. apply repeat_length. }
  rewrite E. unfold grid, cursor_row, is_ground. cbn [above crow below col ps].
  rewrite rev_repeat', repeat_length, !Nat.eqb_refl, app_nil_r.
  change (repeat [120] pre ++ [] :: repeat [] (pred h)) with (repeat [120] pre ++ repeat [] (S (pred h))).
  rewrite norm_grid_app_blanks by apply blanks_repeat. unfold filled. now rewrite grid_eqb_refl.
Qed.

(* ================= refutation witnesses (faithful as-is model) ================= *)
Definition w_lines (n : nat) : list str := map (fun i => [97 + Z.of_nat i]) (seq 0 n).   (* "a","b",... *)
Definition view_of (c : cfg) (s : st) : bool :=
  view_ok_b (Z.to_nat (c_H c)) (g_live s) (g_printed s) (g_shown s) (out s).

(* D18: Progress.start() refreshes after pushing the hook, outside any try: a column that raises
   leaves the hook, the redirection and the hidden cursor behind; __exit__ never runs. *)
Definition d18_cfg (guarded : bool) : cfg := mkCfg true false OEllipsis 20 5 None (Some 0%nat) guarded false false false false false false false false.
(* the handler narrowed to `except Exception` and a KeyboardInterrupt raised by a column *)
Definition d18_narrow_cfg (catches_base : bool) : cfg := mkCfg true false OEllipsis 20 5 None (Some 0%nat) true false false false false false catches_base true false.
Lemma d18_asis_refuted :
  let s := fst (run_block (d18_cfg false) (w_lines 1) [] []) in
  snd (run_block (d18_cfg false) (w_lines 1) [] []) = true /\ hooks s = 1%nat /\ redir s = true
  /\ vis (interp 5 init (out s)) = false.
Proof. vm_compute. repeat split. Qed.
Lemma d18_fixed_ok :
  let s := fst (run_block (d18_cfg true) (w_lines 1) [] []) in
  snd (run_block (d18_cfg true) (w_lines 1) [] []) = true /\ hooks s = 0%nat /\ redir s = false
  /\ vis (interp 5 init (out s)) = true.
Proof. vm_compute. repeat split. Qed.

Lemma d18_narrow_refuted :
  let s := fst (run_block (d18_narrow_cfg false) (w_lines 1) [] []) in
  snd (run_block (d18_narrow_cfg false) (w_lines 1) [] []) = true /\ hooks s = 1%nat /\ redir s = true
  /\ vis (interp 5 init (out s)) = false.
Proof. vm_compute. repeat split. Qed.
Lemma d18_base_ok :
  let s := fst (run_block (d18_narrow_cfg true) (w_lines 1) [] []) in
  snd (run_block (d18_narrow_cfg true) (w_lines 1) [] []) = true /\ hooks s = 0%nat /\ redir s = false
  /\ vis (interp 5 init (out s)) = true.
Proof. vm_compute. repeat split. Qed.

(* D23: Live.stop() forces vertical_overflow="visible" also when transient: a frame taller than the
   page is printed in full and its rows that scrolled off cannot be erased. *)
Definition d23_cfg (guard room : bool) : cfg := mkCfg false true OEllipsis 20 3 None None true guard false false room false false false false.
Definition d23_ops : list op := [Print (w_lines 1); Start; Refresh; Stop].
Definition d23_run (guard room : bool) (n : nat) : st :=
  fst (run_ops (d23_cfg guard room) (st0 (d23_cfg guard room) (w_lines n)) d23_ops).
Lemma d23_asis_refuted : view_of (d23_cfg false false) (d23_run false false 5) = false.
Proof. vm_compute. reflexivity. Qed.
(* ... and not forcing "visible" for transient displays is not enough: a frame of exactly H rows
   (which is what crop/ellipsis produce) loses its first row to the scroll-back at the final newline *)
Lemma d23_guarded_still_refuted : view_of (d23_cfg true false) (d23_run true false 5) = false.
Proof. vm_compute. reflexivity. Qed.
Lemma d23_fits_ok : view_of (d23_cfg false false) (d23_run false false 2) = true.
Proof. vm_compute. reflexivity. Qed.
(* repaired: no forced "visible" for a transient display AND its last frame cropped to H-1 rows *)
Lemma d23_repaired_ok : view_of (d23_cfg true true) (d23_run true true 5) = true.
Proof. vm_compute. reflexivity. Qed.

(* no overflow handling at all in live_render.LiveRender (Progress): taller than the page = remnants *)
Definition tall_cfg (crop : bool) : cfg := mkCfg true false OEllipsis 20 3 None None true false false false false crop false false false.
Definition tall_run (crop : bool) : st :=
  fst (run_ops (tall_cfg crop) (st0 (tall_cfg crop) (w_lines 5)) [Start; Print (w_lines 1); Update (w_lines 4) true; Print (w_lines 1)]).
Lemma progress_too_tall_refuted : view_of (tall_cfg false) (tall_run false) = false.
Proof. vm_compute. reflexivity. Qed.
(* repaired: LiveRender crops what it renders to the page height (T3 fact live_render_crops_to_page) *)
Lemma progress_too_tall_repaired_ok : view_of (tall_cfg true) (tall_run true) = true.
Proof. vm_compute. reflexivity. Qed.

(* "visible" overflow of a too-tall frame: documented upstream as not clearable *)
Definition vis_cfg : cfg := mkCfg false false OVisible 20 3 None None true false false false false false false false false.
Lemma visible_too_tall_refuted :
  view_of vis_cfg (fst (run_ops vis_cfg (st0 vis_cfg (w_lines 5)) [Start; Refresh; Print (w_lines 1)])) = false.
Proof. vm_compute. reflexivity. Qed.

(* restart: stop() keeps LiveRender._shape, so the first draw after a second start() erases rows
   above the cursor that belong to the kept frame (or, when transient, to printed lines) *)
Definition rs_cfg (tr resets : bool) : cfg := mkCfg false tr OEllipsis 20 8 None None true false false resets false false false false false.
Definition rs_ops : list op := [Print (w_lines 3); Start; Refresh; Stop; Start; Refresh].
Lemma restart_refuted : forall tr,
  view_of (rs_cfg tr false) (fst (run_ops (rs_cfg tr false) (st0 (rs_cfg tr false) (w_lines 2)) rs_ops)) = false.
Proof. intros []; vm_compute; reflexivity. Qed.
Lemma restart_repaired_ok : forall tr,
  view_of (rs_cfg tr true) (fst (run_ops (rs_cfg tr true) (st0 (rs_cfg tr true) (w_lines 2)) rs_ops)) = true.
Proof. intros []; vm_compute; reflexivity. Qed.
