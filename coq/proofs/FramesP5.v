(* C08, part 5: Tree.__rich_console__ -- the explicit-stack loop visits the nodes depth-first, in
   pre-order, respecting `expanded`, each node's label lines behind exactly 4 * depth cells. *)
From RichModel Require Import Prelude Cells Segments SpecCells Frames SpecFrames.
From RichGen Require Import FrameBoxes.
From RichProofs Require Import CellsP SegmentsP FramesP FramesP3.
From Coq Require Import ZifyBool.

Section TreeDFS.
Variables (ascii legacy : bool) (W : Z).

Definition iter := list (bool * tnode).

(* what is still to be emitted: the items of the top iterator at depth |rest|, then the rest *)
Definition pend_it (d : Z) (it : iter) : list (Z * list str) :=
  flat_map (fun bt => tree_preorder W d (snd bt)) it.
Fixpoint pend (stack : list iter) : list (Z * list str) :=
  match stack with
  | [] => []
  | it :: rest => pend_it (zlen rest) it ++ pend rest
  end.

(* fuel measure: one step per node, one per iterator exhaustion *)
Definition m_it (it : iter) : nat := S (fold_right (fun bt a => 2 * tsize (snd bt) + a)%nat O it).
Fixpoint m_stack (stack : list iter) : nat :=
  match stack with [] => O | it :: rest => (m_it it + m_stack rest)%nat end.

Lemma loop_last_snd kids : map snd (loop_last kids) = kids.
Proof.
  induction kids as [|k kids IH]; [reflexivity|]. destruct kids as [|k2 kids]; [reflexivity|].
  change (loop_last (k :: k2 :: kids)) with ((false, k) :: loop_last (k2 :: kids)).
  cbn [map snd]. f_equal. exact IH.
Qed.

Lemma pend_it_loop_last d kids : pend_it d (loop_last kids) = flat_map (tree_preorder W d) kids.
Proof.
  unfold pend_it. rewrite <- (loop_last_snd kids) at 2. rewrite flat_map_concat_map, flat_map_concat_map, map_map.
  reflexivity.
Qed.

Lemma m_it_loop_last kids :
  m_it (loop_last kids) = S (fold_right (fun k a => 2 * tsize k + a)%nat O kids).
Proof.
  unfold m_it. f_equal. rewrite <- (loop_last_snd kids) at 2.
  generalize (loop_last kids). induction l as [|x l IH]; [reflexivity|]. cbn [fold_right map]. rewrite IH. reflexivity.
Qed.

Lemma tsize_kids lab gs ex kids :
  (2 * tsize (TNode lab gs ex kids) = 2 + fold_right (fun k a => 2 * tsize k + a) O kids)%nat.
Proof.
  cbn [tsize]. induction kids as [|k kids IH]; [reflexivity|]. cbn [fold_right] in *. lia.
Qed.

Lemma Forall_removelast {A} (P : A -> Prop) l : Forall P l -> Forall P (removelast l).
Proof.
  induction l as [|x l IH]; intros H; [constructor|]. inversion H; subst. cbn [removelast].
  destruct l; [constructor|]. constructor; [assumption|apply IH; assumption].
Qed.

Lemma removelast_length {A} (l : list A) : length (removelast l) = pred (length l).
Proof.
  induction l as [|x l IH]; [reflexivity|]. cbn [removelast]. destruct l; [reflexivity|].
  cbn [length] in *. rewrite IH. reflexivity.
Qed.

Lemma node_lines_length p last lab : length (node_lines ascii legacy p last lab) = length lab.
Proof. unfold node_lines. destruct lab; [reflexivity|]. cbn [length]. rewrite map_length. reflexivity. Qed.

Lemma tree_dfs_cons d labs rest nl ls :
  length nl = length labs -> all2 (tree_line_b d) labs nl = true -> tree_dfs_b rest ls = true ->
  tree_dfs_b ((d, labs) :: rest) (nl ++ ls) = true.
Proof.
  intros HL HA HR. cbn [tree_dfs_b]. rewrite <- HL.
  rewrite firstn_app, Nat.sub_diag, firstn_all. cbn [firstn]. rewrite app_nil_r, HA.
  rewrite skipn_app, Nat.sub_diag, skipn_all. cbn [skipn app]. rewrite HR.
  rewrite app_length. replace (length nl <=? length nl + length ls)%nat with true by (symmetry; apply Nat.leb_le; lia).
  reflexivity.
Qed.

Lemma guide_ok_const i s : 0 <= i <= 3 -> guide_ok (i, s).
Proof. intros H. exact H. Qed.

(* the stack invariant *)
Lemma tree_go_dfs : forall fuel stack levels gstack out,
  length levels = length stack -> Forall guide_ok levels -> (m_stack stack < fuel)%nat ->
  exists ls, tree_go fuel ascii legacy W stack levels gstack out = Ok (rev out ++ ls)
             /\ tree_dfs_b (pend stack) ls = true.
Proof.
  induction fuel as [|f IH]; intros stack levels gstack out HL HG HM; [lia|].
  destruct stack as [|it stack'].
  - exists []. cbn. rewrite app_nil_r. auto.
  - destruct it as [|[last [lab gs ex kids]] it].
    + (* StopIteration *)
      cbn [tree_go]. change (m_stack ([] :: stack')) with (S (m_stack stack')) in HM.
      assert (HL' : length (tl levels) = length stack') by (destruct levels; cbn in *; lia).
      assert (HG' : Forall guide_ok (tl levels)) by (destruct levels; [constructor|inversion HG; assumption]).
      destruct (tl levels) as [|g lv] eqn:ET.
      * destruct (IH stack' [] gstack out HL' ltac:(constructor) ltac:(lia)) as [ls [E1 E2]].
        exists ls. split; [exact E1|]. cbn [pend pend_it flat_map app]. exact E2.
      * destruct (IH stack' (set_last_guide (g :: lv) G_FORK) (tl gstack) out) as [ls [E1 E2]].
        -- rewrite set_last_guide_len. exact HL'.
        -- apply set_last_guide_ok; [unfold G_FORK; lia|exact HG'].
        -- lia.
        -- exists ls. split; [exact E1|]. cbn [pend pend_it flat_map app]. exact E2.
    + (* a node *)
      cbn [tree_go].
      set (levels1 := if last then set_last_guide levels G_END else levels).
      assert (HL1 : length levels1 = S (length stack')).
      { unfold levels1. destruct last; [rewrite set_last_guide_len|]; cbn in HL; lia. }
      assert (HG1 : Forall guide_ok levels1).
      { unfold levels1. destruct last; [apply set_last_guide_ok; [unfold G_END; lia|]|]; exact HG. }
      set (p := removelast levels1).
      assert (Hp : Forall guide_ok p) by (apply Forall_removelast; exact HG1).
      assert (Lp : zlen p = zlen stack').
      { unfold zlen, p. rewrite removelast_length, HL1. reflexivity. }
      rewrite (prefix_cells_4 ascii legacy p Hp), Lp.
      set (d := zlen stack') in *.
      set (labs := map line_text (render_lines lab (W - 4 * d) (Some None) true)).
      set (nl := node_lines ascii legacy p last labs).
      assert (Hnl : all2 (tree_line_b d) labs nl = true).
      { unfold nl. rewrite <- Lp. apply node_block_ok. exact Hp. }
      pose proof (tsize_kids lab gs ex kids) as HT.
      cbn [m_stack] in HM. unfold m_it in HM. cbn [fold_right snd] in HM.
      assert (Epend : pend (((last, TNode lab gs ex kids) :: it) :: stack')
                      = (d, labs) :: (if ex then flat_map (tree_preorder W (d + 1)) kids else [])
                                     ++ pend_it d it ++ pend stack').
      { cbn [pend pend_it flat_map snd tree_preorder]. fold d. fold labs. fold (pend_it d it).
        cbn [app]. rewrite <- app_assoc. reflexivity. }
      assert (Go : forall stackN levelsN gstackN,
                 length levelsN = length stackN -> Forall guide_ok levelsN -> (m_stack stackN < f)%nat ->
                 pend stackN = (if ex then flat_map (tree_preorder W (d + 1)) kids else []) ++ pend_it d it ++ pend stack' ->
                 exists ls, tree_go f ascii legacy W stackN levelsN gstackN (rev nl ++ out) = Ok (rev out ++ ls)
                            /\ tree_dfs_b ((d, labs) :: (if ex then flat_map (tree_preorder W (d + 1)) kids else [])
                                           ++ pend_it d it ++ pend stack') ls = true).
      { intros stackN levelsN gstackN H1 H2 H3 H4.
        destruct (IH stackN levelsN gstackN (rev nl ++ out) H1 H2 H3) as [ls [E1 E2]].
        exists (nl ++ ls). split.
        - rewrite E1. rewrite rev_app_distr, rev_involutive, <- app_assoc. reflexivity.
        - apply tree_dfs_cons; [apply node_lines_length|exact Hnl|]. rewrite <- H4. exact E2. }
      assert (Fin : forall stackN levelsN gstackN,
                 length levelsN = length stackN -> Forall guide_ok levelsN -> (m_stack stackN < f)%nat ->
                 pend stackN = (if ex then flat_map (tree_preorder W (d + 1)) kids else []) ++ pend_it d it ++ pend stack' ->
                 exists ls, tree_go f ascii legacy W stackN levelsN gstackN (rev nl ++ out) = Ok (rev out ++ ls)
                            /\ tree_dfs_b (pend (((last, TNode lab gs ex kids) :: it) :: stack')) ls = true).
      { intros stackN levelsN gstackN H1 H2 H3 H4. rewrite Epend. apply Go; assumption. }
      clear Go Epend. rename Fin into Go.
      destruct ex; [destruct kids as [|k0 kids]|].
      * (* expanded, no children *)
        apply Go.
        -- cbn [length]. exact HL1.
        -- exact HG1.
        -- cbn [m_stack]. unfold m_it. cbn [fold_right] in HT. lia.
        -- cbn [pend flat_map app]. fold d. reflexivity.
      * (* expanded with children: push their iterator *)
        apply Go.
        -- cbn [length]. rewrite set_last_guide_len. lia.
        -- constructor; [apply guide_ok_const; destruct kids; unfold G_END, G_FORK; lia|].
           apply set_last_guide_ok; [destruct last; unfold G_SPACE, G_CONTINUE; lia|exact HG1].
        -- cbn [m_stack]. rewrite m_it_loop_last. unfold m_it. lia.
        -- cbn [pend]. rewrite pend_it_loop_last.
           assert (Ed : zlen (it :: stack') = d + 1) by (unfold d, zlen; change (length (it :: stack')) with (S (length stack')); rewrite Nat2Z.inj_succ; lia).
           rewrite <- Ed. reflexivity.
      * (* collapsed *)
        apply Go.
        -- cbn [length]. exact HL1.
        -- exact HG1.
        -- cbn [m_stack]. unfold m_it. lia.
        -- cbn [pend app]. fold d. reflexivity.
Qed.

End TreeDFS.

(* Tree: the rendering succeeds (the supplied fuel suffices for every tree) and its lines are the nodes in
   depth-first pre-order, children of collapsed nodes skipped, every label line unchanged behind a guide
   prefix of exactly 4 * depth cells *)
Theorem tree_dfs_prefix : forall ascii legacy t W,
  exists ls, tree_render ascii legacy t W = Ok ls /\ tree_dfs_b (tree_preorder W 0 t) ls = true.
Proof.
  intros ascii legacy t W. unfold tree_render. destruct t as [lab gs ex kids] eqn:Et. rewrite <- Et.
  destruct (tree_go_dfs ascii legacy W (2 * tsize t + 3) [loop_last [t]] [(G_CONTINUE, gs)] [gs] []) as [ls [E1 E2]].
  - reflexivity.
  - constructor; [unfold guide_ok, G_CONTINUE; cbn; lia|constructor].
  - change (loop_last [t]) with [(true, t)]. unfold m_stack, m_it. cbn [fold_right snd]. lia.
  - exists ls. split; [exact E1|].
    change (loop_last [t]) with [(true, t)] in E2. cbn [pend pend_it flat_map snd] in E2. change (zlen (@nil (iter))) with 0 in E2.
    rewrite !app_nil_r in E2. exact E2.
Qed.
