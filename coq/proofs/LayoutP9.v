(* Table width solving (C01/C07/C09): the bound of LayoutP8.calc_widths_bound without the
   hypothesis that the table's min_width option is unset. *)
From RichModel Require Import Prelude Cells Segments Ratio Table SpecTable.
From RichProofs Require Import CellsP RatioP TableP LayoutP2 LayoutP8.
From Coq Require Import ZifyBool.

Lemma ceil_div_nonpos n d : 0 < d -> n <= 0 -> ceil_div n d <= 0.
Proof.
  intros Hd Hn. pose proof (ceil_div_bounds n d Hd) as H.
  destruct (Z_lt_le_dec 0 (ceil_div n d)) as [Hc|Hc]; [exfalso|exact Hc].
  assert (0 <= d * (ceil_div n d - 1)) by (apply Z.mul_nonneg_nonneg; lia). lia.
Qed.

(* nothing to hand out (total <= 0), default minimums: every part is 0 *)
Lemma distribute_loop_nonpos : forall ratios rem tr,
  tr = sumZ ratios -> Forall (fun r => 1 <= r) ratios -> rem <= 0 ->
  let out := distribute_loop ratios (repeat 0 (length ratios)) rem tr in
  Forall (fun d => 0 <= d) out /\ sumZ out = 0 /\ length out = length ratios.
Proof.
  induction ratios as [|r rs IH]; intros rem tr Htr Hpos Hrem.
  - cbn. repeat split. constructor.
  - inversion Hpos as [|? ? Hr Hrs]; subst. rewrite sumZ_cons.
    assert (Hs : 0 <= sumZ rs) by (apply sumZ_nonneg; eapply Forall_impl; [|exact Hrs]; cbv beta; lia).
    cbn [length repeat distribute_loop].
    replace (0 <? r + sumZ rs) with true by lia.
    assert (Hrr : r * rem <= 0) by (rewrite <- (Z.mul_0_r r); apply Z.mul_le_mono_nonneg_l; lia).
    pose proof (ceil_div_nonpos (r * rem) (r + sumZ rs) ltac:(lia) Hrr) as Hc.
    replace (Z.max 0 (ceil_div (r * rem) (r + sumZ rs))) with 0 by lia.
    destruct (IH (rem - 0) (r + sumZ rs - r) ltac:(lia) Hrs ltac:(lia)) as [I1 [I2 I3]].
    cbv zeta in I1, I2, I3. cbv zeta. rewrite sumZ_cons.
    repeat split; [constructor; [lia|exact I1]|lia|simpl; f_equal; exact I3].
Qed.

(* the padding step of _calculate_column_widths, whatever its target *)
Lemma pad_step wf total ws : wf <> [] -> Forall (fun w => 1 <= w) wf ->
  (do pad <- ratio_distribute total wf None; Ok (zip_add wf pad)) = Ok ws ->
  length ws = length wf /\ Forall (fun w => 1 <= w) ws /\ sumZ ws = sumZ wf + Z.max 0 total.
Proof.
  intros Hne Hpos.
  assert (Hs0 : 0 < sumZ wf).
  { pose proof (sumZ_ge_len wf Hpos). destruct wf; [congruence|]. unfold zlen in *. cbn [length] in *. lia. }
  assert (Hnn : Forall (fun r => 0 <= r) wf) by (eapply Forall_impl; [|exact Hpos]; cbv beta; lia).
  destruct (Z_le_gt_dec 0 total) as [Ht|Ht].
  - destruct (ratio_distribute_sum total wf Ht Hnn Hs0) as [pad [P1 [P2 [P3 P4]]]].
    rewrite P1. cbn [bind]. unfold distribute_sum_b in P2. intros H. injection H as <-.
    split; [unfold zip_add; rewrite map_length, combine_length; lia|].
    split; [apply zip_add_ge; [lia|assumption|assumption]|].
    rewrite zip_add_sum by lia. lia.
  - unfold ratio_distribute. replace (sumZ wf <=? 0) with false by lia. cbn [bind].
    destruct (distribute_loop_nonpos wf total (sumZ wf) eq_refl Hpos ltac:(lia)) as [D1 [D2 D3]].
    cbv zeta in D1, D2, D3. intros H. injection H as <-.
    split; [unfold zip_add; rewrite map_length, combine_length; lia|].
    split; [apply zip_add_ge; [lia|assumption|assumption]|].
    rewrite zip_add_sum by lia. lia.
Qed.

Theorem calc_widths_bound_minw : forall o cols M ws,
  cols <> [] -> Forall col_free cols -> pad_ok o ->
  calc_widths false false o cols M = Ok ws ->
  length ws = length cols /\ Forall (fun w => 1 <= w) ws /\ sumZ ws <= Z.max M (zlen cols).
Proof.
  intros o cols M ws Hne Hfree Hp.
  unfold calc_widths. cbv zeta.
  pose proof (indexed_forall col_free cols 0%nat Hfree) as Hifree.
  match goal with |- bind ?e _ = _ -> _ => destruct e as [wd|e1|k1] eqn:E1 end; cbn [bind]; try discriminate.
  destruct (stage1_pos o cols M wd Hp Hfree E1) as [Hwd Hld]. clear E1.
  assert (Hwne : wd <> []) by (destruct wd; [destruct cols; [congruence|discriminate]|discriminate]).
  (* stage 2: collapse and re-measure *)
  match goal with |- bind ?e _ = _ -> _ => destruct e as [[wf twf]|e2|k2] eqn:E2 end; cbn [bind]; try discriminate.
  assert (H2 : Forall (fun w => 1 <= w) wf /\ length wf = length cols /\ twf = sumZ wf /\
               twf <= Z.max M (zlen cols)).
  { destruct (M <? sumZ wd) eqn:Elt.
    - match type of E2 with bind ?e _ = _ => destruct e as [w1| |] eqn:Ec end; cbn [bind] in E2; try discriminate.
      destruct (Z_le_gt_dec (zlen cols) M) as [HM|HM].
      + apply collapse_keeps_pos in Ec; [|rewrite map_length; lia|apply all_wrapable; exact Hfree|exact Hwd|unfold zlen in *; lia].
        destruct Ec as [C1 [C2 [C3 C4]]]. specialize (C4 ltac:(lia)).
        replace (M <? sumZ w1) with false in E2 by lia. cbv beta iota in E2.
        injection E2 as <- <-.
        destruct (remeasure_pos o Hp w1 (indexed 0 cols) C1 ltac:(rewrite indexed_length; lia) Hifree) as [R1 [R2 R3]].
        cbv zeta in R1, R2, R3. repeat split; [exact R1|lia|lia].
      + apply collapse_small in Ec; [|rewrite map_length; lia|apply all_wrapable; exact Hfree|exact Hwd|exact Hwne|unfold zlen in *; lia].
        destruct Ec as [C1 C2].
        assert (Hones : forall w2, Forall (fun w => 0 <= w <= 1) w2 -> length w2 = length cols ->
          map (fun '(w, (i, c)) => or1 (snd (measure_column o i c w))) (combine w2 (indexed 0 cols)) = repeat 1 (length cols)).
        { intros w2 Ha Hb. rewrite (remeasure_ones o Hp w2 (indexed 0 cols) Ha ltac:(rewrite indexed_length; exact Hb) Hifree).
          rewrite indexed_length. reflexivity. }
        destruct (M <? sumZ w1) eqn:Elt1; cbv beta iota in E2.
        * destruct (ratio_reduce_01 (sumZ w1 - M) (repeat 1 (length w1)) w1 ltac:(apply repeat_length)
                      ltac:(apply Forall_repeat; lia) ltac:(lia) C1) as [Q1 Q2].
          rewrite (Hones _ Q1 ltac:(lia)) in E2. injection E2 as <- <-.
          rewrite repeat_length, sumZ_repeat1. repeat split; [apply Forall_repeat; lia|unfold zlen; lia].
        * rewrite (Hones _ C1 ltac:(lia)) in E2. injection E2 as <- <-.
          rewrite repeat_length, sumZ_repeat1. repeat split; [apply Forall_repeat; lia|unfold zlen; lia].
    - injection E2 as <- <-. repeat split; [exact Hwd|exact Hld|lia]. }
  clear E2. destruct H2 as [Hwf [Hlf [-> Hfit]]].
  assert (Hfne : wf <> []) by (destruct wf; [destruct cols; [congruence|discriminate]|discriminate]).
  (* stage 3: the padding, towards max_width or towards min_width capped by max_width *)
  match goal with |- (if ?c then _ else _) = _ -> _ => destruct c eqn:Ec end.
  - match goal with |- context [ratio_distribute (?m - sumZ wf)] => set (mw := m) end.
    assert (Hmw : mw <= M).
    { unfold mw. destruct (o_minw o) as [m|]; [|lia]. destruct (t_expand o); cbn [negb andb]; lia. }
    intros Hfin. apply pad_step in Hfin; [|exact Hfne|exact Hwf].
    destruct Hfin as [F1 [F2 F3]]. repeat split; [lia|exact F2|lia].
  - intros H. injection H as <-. repeat split; [exact Hlf|exact Hwf|exact Hfit].
Qed.
