(* C08, part 1: rules and bars. *)
From RichModel Require Import Prelude Cells Segments SpecCells Frames SpecFrames.
From RichGen Require Import FrameBoxes.
From RichProofs Require Import CellsP SegmentsP.
From Coq Require Import ZifyBool.

(* ---------------------------------------------------------------- generic *)
Lemma set_cell_size_len s n : 0 <= n -> cell_len (set_cell_size s n) = n.
Proof.
  intros H. pose proof (set_cell_size_spec s n H) as R. unfold resize_ok_b in R.
  apply andb_true_iff in R as [R _]. lia.
Qed.

Lemma truncate_fold_le s w : 0 <= w -> cell_len (truncate_fold s w) <= w.
Proof.
  intros H. unfold truncate_fold. destruct (w <? cell_len s) eqn:E.
  - rewrite set_cell_size_len by exact H. lia.
  - lia.
Qed.

Lemma truncate_fold_id s w : cell_len s <= w -> truncate_fold s w = s.
Proof. intros H. unfold truncate_fold. destruct (w <? cell_len s) eqn:E; [lia|reflexivity]. Qed.

Definition w1 (c : Z) : Prop := char_size c = 1.

Lemma cell_len_w1 s : Forall w1 s -> cell_len s = zlen s.
Proof.
  induction 1 as [|c s Hc _ IH]; [reflexivity|].
  rewrite cell_len_cons, IH, Hc. unfold zlen. cbn [length]. lia.
Qed.

Lemma Forall_repeat {A} (P : A -> Prop) x n : P x -> Forall P (repeat x n).
Proof. intros H. induction n; cbn; constructor; auto. Qed.

Lemma sp_w1 : w1 SP. Proof. vm_compute. reflexivity. Qed.

Lemma cell_len_spacesZ n : 0 <= n -> cell_len (spaces n) = n.
Proof. intros H. unfold spaces, py_repeat. rewrite cell_len_spaces. lia. Qed.

Lemma zlen_app {A} (a b : list A) : zlen (a ++ b) = zlen a + zlen b.
Proof. unfold zlen. rewrite app_length. lia. Qed.

Lemma zlen_repeat {A} (x : A) n : zlen (repeat x n) = Z.of_nat n.
Proof. unfold zlen. rewrite repeat_length. reflexivity. Qed.

Lemma zlen_py_repeat {A} (x : A) n : 0 <= n -> zlen (py_repeat x n) = n.
Proof. intros H. unfold py_repeat. rewrite zlen_repeat. lia. Qed.

(* strings of exactly one cell-1 character *)
Definition one1 (s : list Z) : Prop := exists c, s = [c] /\ w1 c.

Lemma str_repeat_one1 s n : one1 s -> 0 <= n ->
  Forall w1 (str_repeat s n) /\ zlen (str_repeat s n) = n.
Proof.
  intros [c [-> Hc]] Hn. unfold str_repeat.
  assert (G : forall k, Forall w1 (concat (repeat [c] k)) /\ zlen (concat (repeat [c] k)) = Z.of_nat k).
  { induction k as [|k [I1 I2]]; [split; [constructor|reflexivity]|].
    cbn [repeat concat app]. split; [constructor; assumption|].
    unfold zlen in *. cbn [length]. lia. }
  destruct (G (Z.to_nat n)) as [G1 G2]. split; [exact G1|]. etransitivity; [exact G2|lia].
Qed.

(* ---------------------------------------------------------------- Rule *)
Lemma rule_text_resized title chars how ascii W :
  exists X, rule_text title chars how ascii W = set_cell_size X W.
Proof. unfold rule_text. destruct title; eexists; reflexivity. Qed.

(* the repaired code (the line is emitted without Text.wrap): exactly W cells for EVERY title,
   EVERY characters string (wide ones included), every alignment *)
Theorem rule_fills_exactly : forall title chars how ascii W, 1 <= W ->
  rule_lines_b W (rule_lines false title chars how ascii W) = true.
Proof.
  intros title chars how ascii W HW. unfold rule_lines.
  destruct (W <? 1) eqn:E; [lia|]. unfold rule_lines_b, rule_exact_b, text_line.
  destruct (rule_text_resized title chars how ascii W) as [X ->].
  rewrite truncate_fold_id; rewrite set_cell_size_len by lia; lia.
Qed.

(* rich 9.10.0 as found: the line goes through Text.wrap, whose rstrip_end compares a character
   count with a cell width; zero-width characters make the rule one cell short *)
Theorem rule_asis_refuted : exists title chars how W,
  1 <= W /\ rule_lines_b W (rule_lines true title chars how false W) = false.
Proof.
  exists (97 :: repeat 769 14 ++ [32]), [9472], 2, 12. split; [lia|]. vm_compute. reflexivity.
Qed.

(* ... but only then: with no zero-width character anywhere the as-found code is exact, too *)
Lemma len_le_cells s : Forall (fun c => 1 <= char_size c) s -> zlen s <= cell_len s.
Proof.
  induction 1 as [|c s Hc _ IH]; [cbn; lia|].
  rewrite cell_len_cons. unfold zlen in *. cbn [length]. lia.
Qed.

Lemma rstrip_end_id s n : zlen s <= n -> rstrip_end s n = s.
Proof. intros H. unfold rstrip_end. destruct (n <? zlen s) eqn:E; [lia|reflexivity]. Qed.

Theorem rule_asis_exact_when_no_zero_width : forall title chars how ascii W, 1 <= W ->
  Forall (fun c => 1 <= char_size c) (rule_text title chars how ascii W) ->
  rule_lines_b W (rule_lines true title chars how ascii W) = true.
Proof.
  intros title chars how ascii W HW HF. unfold rule_lines.
  destruct (W <? 1) eqn:E; [lia|]. unfold rule_lines_b, rule_exact_b, text_line.
  pose proof (len_le_cells _ HF) as HL.
  destruct (rule_text_resized title chars how ascii W) as [X EX]. rewrite EX in *.
  rewrite set_cell_size_len in HL by lia.
  rewrite rstrip_end_id by lia.
  rewrite truncate_fold_id; rewrite set_cell_size_len by lia; lia.
Qed.

(* ---------------------------------------------------------------- Bar *)
Lemma blocks_one1 :
  forallb (fun s => match s with [c] => char_size c =? 1 | _ => false end)
          (BEGIN_BLOCK_ELEMENTS ++ END_BLOCK_ELEMENTS ++
           [FULL_BLOCK; PBAR_BAR; PBAR_BAR_ASCII; PBAR_HALF_RIGHT; PBAR_HALF_RIGHT_ASCII;
            PBAR_HALF_LEFT; PBAR_HALF_LEFT_ASCII; PULSE_BAR; PULSE_BAR_ASCII; [SP]]) = true.
Proof. vm_compute. reflexivity. Qed.

Lemma one1_of_check s :
  In s (BEGIN_BLOCK_ELEMENTS ++ END_BLOCK_ELEMENTS ++
        [FULL_BLOCK; PBAR_BAR; PBAR_BAR_ASCII; PBAR_HALF_RIGHT; PBAR_HALF_RIGHT_ASCII;
         PBAR_HALF_LEFT; PBAR_HALF_LEFT_ASCII; PULSE_BAR; PULSE_BAR_ASCII; [SP]]) -> one1 s.
Proof.
  intros H. pose proof blocks_one1 as F. rewrite forallb_forall in F. specialize (F s H).
  destruct s as [|c [|d s]]; try discriminate. exists c. split; [reflexivity|]. unfold w1. lia.
Qed.

Lemma elements_len_8 : length BEGIN_BLOCK_ELEMENTS = 8%nat /\ length END_BLOCK_ELEMENTS = 8%nat.
Proof. split; vm_compute; reflexivity. Qed.

Lemma nthZ_in {A} (l : list A) i d : 0 <= i < zlen l -> In (nthZ l i d) l.
Proof.
  intros H. unfold nthZ. destruct (i <? 0) eqn:E; [lia|]. apply nth_In. unfold zlen in H. lia.
Qed.

Lemma begin_elem i : 0 <= i < 8 -> one1 (nthZ BEGIN_BLOCK_ELEMENTS i []).
Proof.
  intros H. apply one1_of_check. apply in_or_app. left. apply nthZ_in.
  unfold zlen. rewrite (proj1 elements_len_8). lia.
Qed.
Lemma end_elem i : 0 <= i < 8 -> one1 (nthZ END_BLOCK_ELEMENTS i []).
Proof.
  intros H. apply one1_of_check. apply in_or_app. right. apply in_or_app. left. apply nthZ_in.
  unfold zlen. rewrite (proj2 elements_len_8). lia.
Qed.
Lemma full_block_one1 : one1 FULL_BLOCK.
Proof. apply one1_of_check. apply in_or_app. right. apply in_or_app. right. cbn. auto. Qed.

Lemma one1_props s : one1 s -> Forall w1 s /\ zlen s = 1.
Proof. intros [c [-> H]]. split; [repeat constructor; exact H|reflexivity]. Qed.

Lemma spaces_props n : 0 <= n -> Forall w1 (spaces n) /\ zlen (spaces n) = n.
Proof.
  intros H. split; [apply Forall_repeat, sp_w1|]. apply zlen_py_repeat; exact H.
Qed.

Lemma Forall_skipn {A} (P : A -> Prop) k l : Forall P l -> Forall P (skipn k l).
Proof. revert l. induction k; intros l H; [exact H|]. destruct l; [constructor|]. inversion H. cbn. auto. Qed.

Lemma zlen_skipn {A} k (l : list A) : zlen (skipn k l) = zlen l - Z.min (Z.of_nat k) (zlen l).
Proof. unfold zlen. rewrite skipn_length. lia. Qed.

Definition bar_width (bwidth : option Z) (W : Z) : Z := Z.min (width_or bwidth W) W.

Lemma bar_width_nonneg bw W : 0 <= W -> match bw with Some x => 0 <= x | None => True end ->
  0 <= bar_width bw W.
Proof.
  intros HW Hb. unfold bar_width, width_or. destruct bw as [x|]; [destruct (x =? 0)|]; lia.
Qed.

(* a bar always fills exactly the width it is given *)
Theorem bar_exact : forall size b e bw W, 0 <= W ->
  match bw with Some x => 0 <= x | None => True end ->
  bar_within_b (bar_width bw W) true (bar_text size b e bw W) = true.
Proof.
  intros size b e bw W HW Hbw.
  pose proof (bar_width_nonneg bw W HW Hbw) as Hw.
  unfold bar_text. fold (bar_width bw W). set (width := bar_width bw W) in *.
  set (b' := Z.max b 0). set (e' := Z.min e size).
  unfold bar_within_b.
  destruct (e' <=? b') eqn:EB.
  { rewrite cell_len_spacesZ by exact Hw. lia. }
  assert (Hs : 0 < size) by lia.
  set (A := width * 8 * b'). set (B := width * 8 * e').
  assert (HA : 0 <= A) by (unfold A; nia).
  assert (HAB : A <= B) by (unfold A, B; nia).
  assert (HB : B <= width * 8 * size) by (unfold B; nia).
  rewrite !Z.quot_div_nonneg by lia.
  set (pce := A / size). set (bce := B / size).
  assert (Hp0 : 0 <= pce) by (apply Z.div_pos; lia).
  assert (Hpb : pce <= bce) by (apply Z.div_le_mono; lia).
  assert (Hbw8 : bce <= width * 8).
  { unfold bce. apply Z.div_le_upper_bound; lia. }
  set (pbc := pce / 8). set (pec := pce mod 8). set (bbc := bce / 8). set (bec := bce mod 8).
  assert (Hpec : 0 <= pec < 8) by (apply Z.mod_pos_bound; lia).
  assert (Hbec : 0 <= bec < 8) by (apply Z.mod_pos_bound; lia).
  assert (Ep : pce = 8 * pbc + pec) by (apply Z.div_mod; lia).
  assert (Eb : bce = 8 * bbc + bec) by (apply Z.div_mod; lia).
  assert (Hpbc : 0 <= pbc) by lia. assert (Hbbc : 0 <= bbc) by lia.
  set (pfx := spaces pbc ++ (if pec =? 0 then [] else nthZ BEGIN_BLOCK_ELEMENTS pec [])).
  set (body := str_repeat FULL_BLOCK bbc ++ (if bec =? 0 then [] else nthZ END_BLOCK_ELEMENTS bec [])).
  assert (Ppfx : Forall w1 pfx /\ zlen pfx = pbc + (if pec =? 0 then 0 else 1)).
  { unfold pfx. destruct (spaces_props pbc Hpbc) as [S1 S2]. rewrite zlen_app, S2.
    destruct (pec =? 0) eqn:E0.
    - split; [apply Forall_app; split; [exact S1|constructor]|reflexivity].
    - destruct (one1_props _ (begin_elem pec Hpec)) as [O1 O2].
      split; [apply Forall_app; split; assumption|lia]. }
  assert (Pbody : Forall w1 body /\ zlen body = bbc + (if bec =? 0 then 0 else 1)).
  { unfold body. destruct (str_repeat_one1 _ bbc full_block_one1 Hbbc) as [S1 S2]. rewrite zlen_app, S2.
    destruct (bec =? 0) eqn:E0.
    - split; [apply Forall_app; split; [exact S1|constructor]|reflexivity].
    - destruct (one1_props _ (end_elem bec Hbec)) as [O1 O2].
      split; [apply Forall_app; split; assumption|lia]. }
  destruct Ppfx as [P1 P2]. destruct Pbody as [B1 B2].
  assert (Hlen1 : zlen pfx <= zlen body) by (rewrite P2, B2; destruct (pec =? 0) eqn:E1, (bec =? 0) eqn:E2; lia).
  assert (Hlen2 : zlen body <= width) by (rewrite B2; destruct (bec =? 0) eqn:E2; lia).
  destruct (spaces_props (width - zlen body) ltac:(lia)) as [S1 S2].
  rewrite cell_len_w1.
  2:{ apply Forall_app; split; [exact P1|]. apply Forall_app; split; [apply Forall_skipn; exact B1|exact S1]. }
  rewrite !zlen_app, zlen_skipn, S2.
  change (Z.of_nat (length pfx)) with (zlen pfx). lia.
Qed.

(* ---------------------------------------------------------------- ProgressBar *)
Lemma pbar_strings (ascii : bool) :
  one1 (if ascii then PBAR_BAR_ASCII else PBAR_BAR) /\
  one1 (if ascii then PBAR_HALF_RIGHT_ASCII else PBAR_HALF_RIGHT) /\
  one1 (if ascii then PBAR_HALF_LEFT_ASCII else PBAR_HALF_LEFT) /\
  one1 (if ascii then PULSE_BAR_ASCII else PULSE_BAR).
Proof.
  destruct ascii; repeat split; apply one1_of_check; apply in_or_app; right; apply in_or_app; right;
    cbn; auto 12.
Qed.

Lemma cell_len_app_w1 a b : Forall w1 a -> Forall w1 b -> cell_len (a ++ b) = zlen a + zlen b.
Proof. intros Ha Hb. rewrite cell_len_app, !cell_len_w1 by assumption. reflexivity. Qed.

Lemma halves_range total completed width : 0 <= width ->
  let c := Z.min total (Z.max 0 completed) in
  let halves := if total =? 0 then width * 2 else Z.quot (width * 2 * c) total in
  0 <= halves <= width * 2.
Proof.
  intros Hw c halves. unfold halves. destruct (total =? 0) eqn:E0; [lia|].
  destruct (Z.lt_ge_cases total 0) as [Hneg|Hpos].
  - assert (c = total) by lia. rewrite H. rewrite Z.quot_mul by lia. lia.
  - assert (0 < total) by lia. assert (0 <= c <= total) by lia.
    rewrite Z.quot_div_nonneg by nia. split.
    + apply Z.div_pos; nia.
    + apply Z.div_le_upper_bound; nia.
Qed.

(* non-pulse bar: never wider than its width; exactly its width when colour is available *)
Theorem pbar_within : forall total completed pw t ascii has_color no_color W, 0 <= W ->
  match pw with Some x => 0 <= x | None => True end ->
  bar_within_b (bar_width pw W) (has_color && negb no_color)
               (pbar_text total completed pw false t ascii has_color no_color W) = true.
Proof.
  intros total completed pw t ascii has_color no_color W HW Hpw.
  pose proof (bar_width_nonneg pw W HW Hpw) as Hw.
  unfold pbar_text. fold (bar_width pw W). set (width := bar_width pw W) in *. cbn match.
  pose proof (halves_range total completed width Hw) as HH. cbn zeta in HH.
  set (halves := if total =? 0 then width * 2 else Z.quot (width * 2 * Z.min total (Z.max 0 completed)) total) in *.
  set (bc := halves / 2). set (hc := halves mod 2).
  assert (Hhc : 0 <= hc < 2) by (apply Z.mod_pos_bound; lia).
  assert (Eh : halves = 2 * bc + hc) by (apply Z.div_mod; lia).
  assert (Hbc : 0 <= bc) by lia.
  destruct (pbar_strings ascii) as [Obar [Ohr [Ohl _]]].
  destruct (str_repeat_one1 _ bc Obar Hbc) as [D1 D2].
  destruct (str_repeat_one1 _ hc Ohr ltac:(lia)) as [D3 D4].
  unfold bar_within_b.
  destruct no_color.
  { rewrite andb_false_r. rewrite cell_len_app_w1 by assumption. rewrite D2, D4. lia. }
  rewrite andb_true_r. cbn [negb].
  destruct (negb (width - bc - hc =? 0) && has_color) eqn:ER.
  - apply andb_true_iff in ER as [ER1 ER2]. subst has_color.
    set (lead := (hc =? 0) && negb (bc =? 0)).
    assert (Hrem : 0 <= (if lead then width - bc - hc - 1 else width - bc - hc)) by (unfold lead; destruct (hc =? 0) eqn:E1, (bc =? 0) eqn:E2; cbn; lia).
    destruct (str_repeat_one1 _ _ Obar Hrem) as [R1 R2].
    destruct (one1_props _ Ohl) as [L1 L2].
    rewrite <- app_assoc.
    rewrite cell_len_w1.
    2:{ repeat (apply Forall_app; split); try assumption. subst lead. destruct ((hc =? 0) && negb (bc =? 0)); [assumption|constructor]. }
    rewrite !zlen_app, D2, D4, R2. clear R1 R2 Hrem. subst lead.
    destruct ((hc =? 0) && negb (bc =? 0)) eqn:EL; [rewrite L2|]; unfold zlen; cbn [length]; lia.
  - rewrite cell_len_app_w1 by assumption. rewrite D2, D4.
    destruct has_color; [|lia]. rewrite andb_true_r in ER. lia.
Qed.

(* the pulse animation always fills the width *)
Lemma concat_one1 (l : list str) : Forall one1 l -> Forall w1 (concat l) /\ zlen (concat l) = zlen l.
Proof.
  induction 1 as [|s l Hs _ [I1 I2]]; [split; [constructor|reflexivity]|].
  destruct (one1_props _ Hs) as [O1 O2]. cbn [concat]. split; [apply Forall_app; split; assumption|].
  rewrite zlen_app, O2, I2. unfold zlen. cbn [length]. lia.
Qed.

Lemma Forall_concat_repeat {A} (P : A -> Prop) (l : list A) k : Forall P l -> Forall P (concat (repeat l k)).
Proof. intros H. induction k; cbn; [constructor|apply Forall_app; split; assumption]. Qed.

Lemma length_concat_repeat {A} (l : list A) k : length (concat (repeat l k)) = (k * length l)%nat.
Proof. induction k; cbn; [reflexivity|]. rewrite app_length, IHk. reflexivity. Qed.

Lemma Forall_firstn {A} (P : A -> Prop) k l : Forall P l -> Forall P (firstn k l).
Proof. revert l. induction k; intros l H; [constructor|]. destruct l; [constructor|]. inversion H. cbn. constructor; auto. Qed.

Theorem pbar_pulse_exact : forall total completed pw t ascii has_color no_color W, 0 <= W ->
  match pw with Some x => 0 <= x | None => True end ->
  bar_within_b (bar_width pw W) true
               (pbar_text total completed pw true t ascii has_color no_color W) = true.
Proof.
  intros total completed pw t ascii has_color no_color W HW Hpw.
  pose proof (bar_width_nonneg pw W HW Hpw) as Hw.
  unfold pbar_text. fold (bar_width pw W). set (width := bar_width pw W) in *. cbn match. cbv zeta.
  destruct (pbar_strings ascii) as [_ [_ [_ Obar]]].
  set (bar := if ascii then PULSE_BAR_ASCII else PULSE_BAR) in *.
  assert (Osp : one1 [SP]) by (exists SP; split; [reflexivity|exact sp_w1]).
  set (segs := if negb has_color || no_color
               then repeat bar (Z.to_nat (PULSE_SIZE / 2)) ++
                    repeat (if no_color then [SP] else bar) (Z.to_nat (PULSE_SIZE - PULSE_SIZE / 2))
               else repeat bar (Z.to_nat PULSE_SIZE)).
  assert (Hsegs : Forall one1 segs /\ zlen segs = 20).
  { unfold segs. destruct (negb has_color || no_color).
    - split; [apply Forall_app; split; apply Forall_repeat; [exact Obar|destruct no_color; assumption]|].
      rewrite zlen_app, !zlen_repeat. vm_compute. reflexivity.
    - split; [apply Forall_repeat; exact Obar|]. rewrite zlen_repeat. vm_compute. reflexivity. }
  destruct Hsegs as [S1 S2]. rewrite S2.
  set (k := Z.to_nat (Z.quot width 20 + 2)).
  set (offset := (- t * 15) mod 20).
  assert (Hoff : 0 <= offset < 20) by (apply Z.mod_pos_bound; lia).
  set (sl := firstn (Z.to_nat width) (skipn (Z.to_nat offset) (concat (repeat segs k)))).
  assert (Fsl : Forall one1 sl).
  { unfold sl. apply Forall_firstn, Forall_skipn, Forall_concat_repeat. exact S1. }
  assert (Lsl : zlen sl = width).
  { unfold sl, zlen. rewrite firstn_length, skipn_length, length_concat_repeat.
    assert (length segs = 20%nat) by (unfold zlen in S2; lia). rewrite H.
    assert (Hq : 20 * (Z.quot width 20) > width - 20).
    { rewrite Z.quot_div_nonneg by lia. pose proof (Z.mod_pos_bound width 20 ltac:(lia)).
      pose proof (Z.div_mod width 20 ltac:(lia)). lia. }
    assert (0 <= Z.quot width 20) by (rewrite Z.quot_div_nonneg by lia; apply Z.div_pos; lia).
    unfold k. lia. }
  destruct (concat_one1 sl Fsl) as [C1 C2].
  unfold bar_within_b. rewrite cell_len_w1 by exact C1. pose proof (eq_trans C2 Lsl) as E. rewrite E. lia.
Qed.
