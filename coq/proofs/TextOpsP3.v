(* C05 proofs, part 3: plain setter, padding, cropping, truncation, alignment, styling-only ops. *)
From RichModel Require Import Prelude Cells TextOps SpecTextOps.
From RichProofs Require Import TextOpsP TextOpsP2.
From Coq Require Import ZifyBool Lia.

Arguments zlen : simpl never.
Arguments py_repeat : simpl never.
Arguments strip : simpl never.
Arguments ctl_free : simpl never.
Arguments cell_len : simpl never.
Arguments set_cell_size : simpl never.

Lemma zlen_firstn {A} k (l : list A) : zlen (firstn k l) = Z.min (Z.of_nat k) (zlen l).
Proof. unfold zlen. rewrite firstn_length. lia. Qed.

Lemma within_trim_min n m sps : Within n sps -> Within (Z.min n m) (trim_list sps m).
Proof.
  unfold Within, trim_list. intros H. rewrite Forall_map, Forall_forall. intros sp Hsp.
  apply filter_In in Hsp. destruct Hsp as [Hin Hlt]. rewrite Forall_forall in H. specialize (H sp Hin).
  destruct sp as [[s e] st]. unfold sp_start, sp_end, sp_style in *. simpl in *.
  destruct (e <? m) eqn:E; unfold sp_start, sp_end; simpl; lia.
Qed.

(* ---------- the plain setter ---------- *)
Lemma sim_set_plain t new : Consistent t ->
  abs (set_plain FIXED t new) = r_set_plain (abs t) new /\ Consistent (set_plain FIXED t new).
Proof.
  intros H. destruct (cons_parts t H) as (H1 & H2 & H3).
  unfold set_plain, r_set_plain. simpl fx_setter. cbv beta iota zeta.
  assert (r_restyle (strip new) (rchars (abs t)) = abs_from 0 (strip new) (spans t)) as R.
  { unfold abs, abs_chars. simpl. apply restyle_abs. exact H3. }
  destruct (str_eqb (strip new) (plain t)) eqn:E.
  - apply str_eqb_eq in E. split; [|exact H]. rewrite R, E. reflexivity.
  - pose proof (zlen_nonneg (strip new)).
    destruct (zlen (strip new) <? len t) eqn:El.
    + split; [rewrite R|]; unfold trim_spans, with_spans; simpl.
      * unfold abs, abs_chars. simpl. f_equal. apply abs_from_ext. intros j Hj.
        apply cover_trim. lia.
      * apply mk_consistent; [reflexivity|apply ctl_free_strip|].
        replace (zlen (strip new)) with (Z.min (zlen (plain t)) (zlen (strip new))) at 1 by lia.
        now apply within_trim_min.
    + split.
      * rewrite R. reflexivity.
      * apply mk_consistent; [reflexivity|apply ctl_free_strip|]. eapply within_mono; [exact H3|lia].
Qed.

Lemma set_plain_grow t new : Consistent t -> ctl_free new = true -> len t < zlen new ->
  set_plain FIXED t new = mkText new (zlen new) (spans t) (tmeta t).
Proof.
  intros H Hc Hl. destruct (cons_parts t H) as (H1 & H2 & H3). unfold set_plain. simpl fx_setter. cbv beta iota zeta.
  rewrite (strip_ctl_free new Hc). rewrite str_eqb_neq_len by lia.
  destruct (zlen new <? len t) eqn:E; [lia|reflexivity].
Qed.

(* ---------- pad_right / pad_left / pad ---------- *)
Lemma bare_abs L q sps n : Within n sps -> n <= L -> abs_from L q sps = bare q.
Proof. intros Hw Hn. apply abs_from_styled. intros j Hj. apply (cover_nil_ge sps n); [exact Hw|lia]. Qed.

Lemma sim_pad_right t n c : Consistent t -> pad_char_ok c = true ->
  abs (pad_right FIXED t n c) = r_pad_right (abs t) n c /\ Consistent (pad_right FIXED t n c).
Proof.
  intros H Hc. destruct (cons_parts t H) as (H1 & H2 & H3). unfold pad_right.
  assert (r_set_plain (abs t) (plain t ++ py_repeat c n) = r_pad_right (abs t) n c) as E.
  { unfold r_set_plain, r_pad_right, abs, abs_chars. simpl. f_equal.
    rewrite strip_ctl_free by (rewrite ctl_free_app, H2, ctl_free_repeat; auto).
    rewrite restyle_abs by exact H3. rewrite abs_from_app. f_equal. simpl.
    apply (bare_abs _ _ _ (zlen (plain t))); [exact H3|lia]. }
  destruct (n =? 0) eqn:En.
  - split; [|exact H]. unfold r_pad_right, abs. simpl. rewrite py_repeat_nonpos by lia. simpl.
    now rewrite app_nil_r.
  - rewrite <- E. now apply sim_set_plain.
Qed.

Lemma sim_pad_left t n c : Consistent t -> pad_char_ok c = true ->
  abs (pad_left FIXED t n c) = r_pad_left (abs t) n c /\ Consistent (pad_left FIXED t n c).
Proof.
  intros H Hc. destruct (cons_parts t H) as (H1 & H2 & H3). unfold pad_left, pad_skip. simpl fx_pad. cbv beta iota zeta.
  destruct (n <=? 0) eqn:En.
  - split; [|exact H]. unfold r_pad_left, abs. simpl. rewrite py_repeat_nonpos by lia. reflexivity.
  - assert (zlen (py_repeat c n) = n) as Hr by (rewrite zlen_repeat; lia).
    pose proof (zlen_nonneg (plain t)).
    rewrite set_plain_grow; [|exact H| |rewrite zlen_app; lia].
    2:{ rewrite ctl_free_app, H2, ctl_free_repeat; auto. }
    unfold with_spans. simpl. split.
    + unfold r_pad_left, abs, abs_chars. simpl. f_equal. rewrite abs_from_app. f_equal.
      * apply abs_from_styled. intros j Hj. apply (cover_nil_lt _ n); [|lia]. apply (shift_ge _ _ _ H3).
      * simpl. rewrite Hr. replace n with (0 + n) at 1 by lia. apply abs_from_shift.
    + apply mk_consistent; [reflexivity|rewrite ctl_free_app, H2, ctl_free_repeat; auto|].
      rewrite zlen_app, Hr, Z.add_comm. apply within_shift; [exact H3|lia].
Qed.

Lemma sim_pad t n c : Consistent t -> pad_char_ok c = true ->
  abs (pad FIXED t n c) = r_pad (abs t) n c /\ Consistent (pad FIXED t n c).
Proof.
  intros H Hc. destruct (cons_parts t H) as (H1 & H2 & H3). unfold pad, pad_skip. simpl fx_pad. cbv beta iota zeta.
  destruct (n <=? 0) eqn:En.
  - split; [|exact H]. unfold r_pad, abs. simpl. rewrite py_repeat_nonpos by lia. simpl. now rewrite app_nil_r.
  - assert (zlen (py_repeat c n) = n) as Hr by (rewrite zlen_repeat; lia).
    pose proof (zlen_nonneg (plain t)).
    rewrite set_plain_grow; [|exact H| |rewrite !zlen_app; lia].
    2:{ rewrite !ctl_free_app, H2, ctl_free_repeat; auto. }
    unfold with_spans. simpl. split.
    + unfold r_pad, abs, abs_chars. simpl. f_equal. rewrite abs_from_app. f_equal.
      * apply abs_from_styled. intros j Hj. apply (cover_nil_lt _ n); [|lia]. apply (shift_ge _ _ _ H3).
      * simpl. rewrite Hr, abs_from_app. f_equal.
        -- replace n with (0 + n) at 1 by lia. apply abs_from_shift.
        -- apply (bare_abs _ _ _ (zlen (plain t) + n)); [|lia]. apply within_shift; [exact H3|lia].
    + apply mk_consistent; [reflexivity|rewrite !ctl_free_app, H2, ctl_free_repeat; auto|].
      rewrite !zlen_app, Hr. eapply within_mono; [apply (within_shift _ n _ H3); lia|lia].
Qed.

(* ---------- right_crop and what is built on it ---------- *)
Lemma firstn_min {A} (l : list A) m : firstn (Z.to_nat (Z.min m (zlen l))) l = firstn (Z.to_nat m) l.
Proof.
  destruct (Z.le_gt_cases m (zlen l)).
  - now rewrite Z.min_l by lia.
  - rewrite Z.min_r by lia. unfold zlen. rewrite Nat2Z.id, firstn_all.
    symmetry. apply firstn_all2. unfold zlen in H. lia.
Qed.
Lemma py_slice_prefix {A} (l : list A) m : 0 <= m -> py_slice l 0 m = firstn (Z.to_nat m) l.
Proof.
  intros Hm. unfold py_slice, norm_idx. pose proof (zlen_nonneg l).
  replace (0 <? 0) with false by lia. replace (m <? 0) with false by lia.
  rewrite (Z.min_l 0) by lia. simpl skipn. rewrite Z.sub_0_r. apply firstn_min.
Qed.

Lemma sim_right_crop t n : Consistent t ->
  abs (right_crop FIXED t n) = r_right_crop (abs t) n /\ Consistent (right_crop FIXED t n).
Proof.
  intros H. destruct (cons_parts t H) as (H1 & H2 & H3). unfold right_crop. simpl fx_crop. cbv beta iota zeta.
  rewrite py_slice_prefix by lia.
  set (m := Z.max 0 (zlen (plain t) - n)). set (k := Z.to_nat m).
  assert (zlen (firstn k (plain t)) <= m) as Hk by (rewrite zlen_firstn; lia).
  split.
  - unfold r_right_crop, abs, abs_chars. simpl. f_equal. rewrite zlen_abs_from.
    replace (Z.to_nat (zlen (plain t) - n)) with k by lia.
    rewrite <- abs_from_firstn. apply abs_from_ext. intros j Hj. apply cover_trim. lia.
  - apply mk_consistent; [reflexivity|now apply ctl_free_firstn|].
    replace (zlen (firstn k (plain t))) with (Z.min (zlen (plain t)) m) by (rewrite zlen_firstn; lia).
    now apply within_trim_min.
Qed.

Lemma sim_remove_suffix t suf : Consistent t ->
  abs (remove_suffix FIXED t suf) = r_remove_suffix (abs t) suf /\ Consistent (remove_suffix FIXED t suf).
Proof.
  intros H. unfold remove_suffix, r_remove_suffix. unfold abs at 2, abs_chars. simpl. rewrite rplain_abs_from.
  destruct (ends_with (plain t) suf); [now apply sim_right_crop|auto].
Qed.

Lemma r_right_crop_zero t : r_right_crop (abs t) 0 = abs t.
Proof.
  unfold r_right_crop, abs. simpl. f_equal. rewrite Z.sub_0_r. unfold zlen. rewrite Nat2Z.id. apply firstn_all.
Qed.

Lemma sim_rstrip_end t size : Consistent t ->
  sim (rstrip_end FIXED t size) (Ok (r_rstrip_end (abs t) size)).
Proof.
  intros H. destruct (cons_parts t H) as (H1 & H2 & H3). unfold rstrip_end, r_rstrip_end.
  rewrite (pylen_ok t H). simpl. unfold abs_chars. rewrite !zlen_abs_from, rplain_abs_from, <- H1.
  destruct (size <? len t) eqn:E; [|simpl; auto].
  destruct (0 <? trailing_ws (plain t)) eqn:Ew; simpl.
  - apply sim_right_crop. exact H.
  - split; [|exact H]. assert (trailing_ws (plain t) = 0) as Z0.
    { unfold trailing_ws in *. unfold rstrip_str in *.
      assert (zlen (rev (drop_while is_space (rev (plain t)))) <= zlen (plain t)).
      { unfold zlen. rewrite rev_length.
        assert (forall l, (length (drop_while is_space l) <= length l)%nat) as D.
        { induction l as [|x l IH]; simpl; [lia|]. destruct (is_space x); simpl; lia. }
        specialize (D (rev (plain t))). rewrite rev_length in D. lia. }
      lia. }
    rewrite Z0. replace (Z.min 0 (len t - size)) with 0 by lia. symmetry. apply r_right_crop_zero.
Qed.

Lemma sim_set_length t n : Consistent t ->
  sim (set_length FIXED t n) (Ok (r_set_length (abs t) n)).
Proof.
  intros H. destruct (cons_parts t H) as (H1 & H2 & H3). unfold set_length, r_set_length.
  rewrite (pylen_ok t H). simpl. unfold abs_chars. rewrite !zlen_abs_from, <- H1.
  destruct (len t =? n) eqn:E.
  - simpl. replace (len t <? n) with false by lia. replace (len t - n) with 0 by lia.
    split; [|exact H]. symmetry. apply r_right_crop_zero.
  - destruct (len t <? n); simpl; [apply sim_pad_right; auto|apply sim_right_crop; auto].
Qed.

(* rstrip: the stripped string is a prefix *)
Lemma drop_while_suffix {A} (f : A -> bool) l : exists pre, l = pre ++ drop_while f l.
Proof.
  induction l as [|x l [pre IH]]; [exists []; reflexivity|]. simpl. destruct (f x).
  - exists (x :: pre). simpl. now rewrite <- IH.
  - exists []. reflexivity.
Qed.
Lemma rstrip_prefix s : rstrip_str s = firstn (length (rstrip_str s)) s.
Proof.
  unfold rstrip_str. destruct (drop_while_suffix is_space (rev s)) as [pre E].
  set (d := drop_while is_space (rev s)) in *.
  assert (s = rev d ++ rev pre) as Hs by (rewrite <- rev_app_distr, <- E, rev_involutive; reflexivity).
  clearbody d. rewrite Hs. rewrite firstn_app, Nat.sub_diag, firstn_all. simpl. now rewrite app_nil_r.
Qed.

Lemma sim_rstrip t : Consistent t ->
  abs (rstrip FIXED t) = r_rstrip (abs t) /\ Consistent (rstrip FIXED t).
Proof.
  intros H. destruct (cons_parts t H) as (H1 & H2 & H3). unfold rstrip.
  destruct (sim_set_plain t (rstrip_str (plain t)) H) as [S1 S2]. split; [|exact S2].
  rewrite S1. unfold r_set_plain, r_rstrip, r_right_crop, abs, abs_chars. simpl. f_equal.
  rewrite rplain_abs_from, zlen_abs_from.
  assert (ctl_free (rstrip_str (plain t)) = true) as Hc by (rewrite rstrip_prefix; now apply ctl_free_firstn).
  rewrite (strip_ctl_free _ Hc), restyle_abs by exact H3.
  unfold trailing_ws. replace (Z.to_nat (zlen (plain t) - (zlen (plain t) - zlen (rstrip_str (plain t)))))
    with (length (rstrip_str (plain t))) by (unfold zlen; lia).
  rewrite <- abs_from_firstn. now rewrite <- rstrip_prefix.
Qed.
