(* C11, part 1: the tie between the hand-written instruction programs of model/Conc.v and the
   event table regenerated from /repo (gen/ConsoleLock.v), and the lock-discipline facts that
   are computed on that table.  Everything here is closed computation (vm_compute). *)
From RichModel Require Import Prelude Conc SpecConc.
From RichGen Require Import ConsoleLock.
Open Scope list_scope.

Fixpoint lookup (m : string) (tbl : list (string * list ev)) : option (list ev) :=
  match tbl with
  | [] => None
  | (n, b) :: r => if String.eqb n m then Some b else lookup m r
  end.

(* dynamic dispatch that the AST cannot resolve: the render hook is the Live object, the
   renderable it appends is its _LiveRender *)
Definition dyn_target (m : string) : option string :=
  if String.eqb m "RenderHook.process_renderables" then Some "Live.process_renderables"
  else if String.eqb m "Console.render" then Some "_LiveRender.__rich_console__"
  else None.

(* set-the-done-flag and join of the auto-refresh thread stay visible in a path *)
Definition thread_call (m : string) : bool :=
  existsb (String.eqb m) ["LiveRefreshThread.stop"; "LiveRefreshThread.join";
                          "ProgressRefreshThread.stop"; "ProgressRefreshThread.join"].
Definition is_join (m : string) : bool :=
  String.eqb m "LiveRefreshThread.join" || String.eqb m "ProgressRefreshThread.join".

(* one path through a method: every If / Loop / dynamic call consumes one decision
   (If: then/else; Loop: once/not at all; dynamic call: dispatches to the live object / to an
   object without events).  Calls of tabled methods are inlined. *)
Fixpoint expand_g (dyn_target : string -> option string) (fuel : nat) (ds : list bool) (es : list ev) {struct fuel} : list ev * list bool :=
  match fuel with
  | O => ([Call "OUT-OF-FUEL"], ds)
  | S f =>
      match es with
      | [] => ([], ds)
      | e :: r =>
          let '(a, ds1) :=
            match e with
            | Call m =>
                match dyn_target m with
                | Some tgt =>
                    match ds with
                    | true :: ds' => match lookup tgt lock_table with Some b => expand_g dyn_target f ds' b | None => ([Call "MISSING"], ds') end
                    | false :: ds' => ([], ds')
                    | [] => ([Call "NO-DECISION"], [])
                    end
                | None => match lookup m lock_table with
                          | Some b => expand_g dyn_target f ds b
                          | None => (if thread_call m then [Call m] else [], ds)
                          end
                end
            | If _ th el =>
                match ds with
                | d :: ds' => expand_g dyn_target f ds' (if d then th else el)
                | [] => ([Call "NO-DECISION"], [])
                end
            | Loop _ b =>
                match ds with
                | true :: ds' => expand_g dyn_target f ds' b
                | false :: ds' => ([], ds')
                | [] => ([Call "NO-DECISION"], [])
                end
            | x => ([x], ds)
            end in
          let '(b, ds2) := expand_g dyn_target f ds1 r in (a ++ b, ds2)
      end
  end.

Definition expand := expand_g dyn_target.

(* ---- normal form in which code paths and model paths are compared.  What matters for the
   interleaving semantics is the synchronisation skeleton (Acq/Rel/Write), every shared WRITE, and
   every read that is NOT protected by the lock that guards the field's writes.  A read of a field
   under its lock adds no behaviour (nobody can write in between), so guarded reads are dropped:
   harmless edits such as an extra `if self._started` inside a critical section do not break the tie;
   a new lock operation, shared write, unguarded read or file write does. *)
Definition need (write : bool) (f : string) : option string :=
  if String.eqb f "Console._record_buffer" then Some "Console._record_buffer_lock"
  else if String.eqb f "Console.file" then Some "Console._lock"
  else if String.eqb f "LiveRender._shape" || String.eqb f "LiveRender.renderable" || String.eqb f "Live._started"
  then Some "Live._lock"
  else if String.eqb f "Progress._started" then Some "Progress._lock"
  else if String.eqb f "Console._render_hooks" then (if write then Some "Live._lock" else None)
       (* print/log iterate over _render_hooks WITHOUT a lock: see hooks_read_unguarded *)
  else Some "UNKNOWN-FIELD".
Definition holds (held : list string) (o : option string) : bool :=
  match o with None => true | Some l => existsb (String.eqb l) held end.
Fixpoint remove_first (l : string) (held : list string) : list string :=
  match held with [] => [] | h :: r => if String.eqb h l then r else h :: remove_first l r end.
Fixpoint nf (held : list string) (p : list ev) : list ev :=
  match p with
  | [] => []
  | Acq l :: r => Acq l :: nf (l :: held) r
  | Rel l :: r => Rel l :: nf (remove_first l held) r
  | Rd f :: r => match need false f with
                 | Some l => if existsb (String.eqb l) held then nf held r else Rd f :: nf held r
                 | None => Rd f :: nf held r
                 end
  | x :: r => x :: nf held r
  end.

(* what other threads can see: lock operations, shared reads/writes, the write (and error marks) *)
Definition vis_ev (e : ev) : bool :=
  match e with Local _ => false | _ => true end.
(* independent accesses inside one region (between two lock operations / writes / calls) commute:
   each maximal run of Rd/Wr events is put in a canonical order (and duplicates dropped) *)
Definition ev_key (e : ev) : option string :=
  match e with Rd f => Some ("R" ++ f)%string | Wr f => Some ("W" ++ f)%string | _ => None end.
Fixpoint insert_ev (k : string) (e : ev) (l : list ev) : list ev :=
  match l with
  | [] => [e]
  | x :: r => match ev_key x with
              | Some kx => if String.eqb k kx then l else if String.ltb k kx then e :: l else x :: insert_ev k e r
              | None => e :: l
              end
  end.
Fixpoint sort_runs (p : list ev) : list ev :=
  match p with
  | [] => []
  | e :: r => match ev_key e with
              | Some k => insert_ev k e (sort_runs r)
              | None => e :: sort_runs r
              end
  end.
Definition canon (p : list ev) : list ev := sort_runs (nf [] (filter vis_ev p)).

Definition path (m : string) (ds : list bool) : option (list ev) :=
  match lookup m lock_table with
  | Some b => let '(p, rest) := expand 40 ds b in
              if is_nil rest then Some (canon p) else None
  | None => None
  end.

(* the events of one model instruction *)
Definition lock_name (l : lockid) : string :=
  match l with LLive => "Live._lock" | LConsole => "Console._lock" | LRecord => "Console._record_buffer_lock" end.
Definition footprint (i : instr) : list ev :=
  match i with
  | IAcq l => [Acq (lock_name l)] | IRel l => [Rel (lock_name l)]
  | IRecord | IEndCap => [Wr "Console._record_buffer"]
  | IWrite => [Rd "Console.file"; Write; Rd "Console.file"]
  | IRdHooks _ => [Rd "Console._render_hooks"]
  | IRdShape => [Rd "LiveRender._shape"]
  | IRenderLive => [Rd "LiveRender.renderable"; Wr "LiveRender._shape"]
  | IResetShape => [Wr "LiveRender._shape"]
  | ISetRend _ _ => [Wr "LiveRender.renderable"]
  | IStart | IStop | IStopA _ => [Rd "Live._started"]
  | ISetDone => [Call "LiveRefreshThread.stop"]
  | IJoin _ => [Call "LiveRefreshThread.join"]
  | ISetStarted _ => [Wr "Live._started"]
  | IPushHook | IPopHook => [Wr "Console._render_hooks"]
  | IEnter | IExitDec | ITest | IRenderTxt _ | IExtend | ICtl _ | ILoop | ICheckDone => []
  end.

(* the instructions one thread executes when it runs alone from a given shared state *)
Fixpoint solo (fuel : nat) (rep : bool) (s : shared) (ts : tstate) : list instr :=
  match fuel with
  | O => []
  | S f => match prog ts with
           | [] => []
           | i :: r => match exec rep 0%nat s (set_prog ts r) i with
                       | Some (s', ts') => i :: solo f rep s' ts'
                       | None => [i]
                       end
           end
  end.
Definition model_path (live : bool) (sh0 : option nat) (d0 : Z) (p : list instr) : list ev :=
  canon (flat_map footprint
    (solo 200 false (init_shared live sh0 (1, 2%nat)) (mkT p [Txt 0%nat 0] d0 [] []))).

(* ---- bridge: for each modelled method and each valuation of its dynamic conditions, the
   normal form of the code path is the normal form of the model's instruction sequence.
   (buffer pre-filled with one line so that the `if text:` write happens.) *)
Example bridge_print_unhooked :
  path "Console.print" [false; true; false; false; true]
  = Some (model_path false None 0 (print_seq (Some 1))).
Proof. vm_compute. reflexivity. Qed.
(* decisions: hooks loop not entered; render loop once, renderable without events; crop loop not
   entered; _buffer_index == 0 *)

Example bridge_print_hooked_asis :
  path "Console.print" [true; true; false; true; true; false; false; true]
  = Some (model_path true (Some 2%nat) 0 (print_seq (Some 1))).
Proof. vm_compute. reflexivity. Qed.
(* hooks loop once -> Live.process_renderables (position_cursor, _shape is not None); render loop
   once -> _LiveRender.__rich_console__ (height fits) ; crop loop skipped; outermost exit *)

Example log_same_events : lookup "Console.log" lock_table = lookup "Console.print" lock_table.
Proof. reflexivity. Qed.

Example bridge_print_nested :
  path "Console.print" [false; true; false; false; false]
  = Some (model_path false None 1 (print_seq (Some 1))).
Proof. vm_compute. reflexivity. Qed.

Example bridge_exit_block :
  path "Console.__exit__" [true] = Some (model_path false None 1 (compile_op EndBlock)).
Proof. vm_compute. reflexivity. Qed.

Example bridge_end_capture :
  (match path "Console.begin_capture" [], path "Console.end_capture" [true] with
   | Some a, Some b => Some (a ++ b) | _, _ => None end)
  = Some (model_path false None 0 (compile [BeginCap; EndCap])).
Proof. vm_compute. reflexivity. Qed.

Example bridge_refresh :
  path "Live.refresh" [true; true; false; true; true; false; false; false; true]
  = Some (model_path true (Some 2%nat) 0 refresh_seq).
Proof. vm_compute. reflexivity. Qed.

Example bridge_update_refresh :
  path "Live.update" [true; true; true; false; true; true; false; false; false; true]
  = Some (model_path true (Some 2%nat) 0 (compile_op (Update 3 1%nat true))).
Proof. vm_compute. reflexivity. Qed.

Example bridge_update_only :
  path "Live.update" [false] = Some (model_path true (Some 2%nat) 0 (compile_op (Update 3 1%nat false))).
Proof. vm_compute. reflexivity. Qed.

Example bridge_refresh_thread :
  path "LiveRefreshThread.run" [true; false; true; true; false; true; true; false; false; false; true]
  = Some (model_path true (Some 2%nat) 0 (compile_op Tick)).
Proof. vm_compute. reflexivity. Qed.

Example bridge_start :
  path "Live.start" [false; true; false] = Some (model_path false None 0 (compile_op Start)).
Proof. vm_compute. reflexivity. Qed.

Example bridge_start_twice :
  path "Live.start" [true] = Some (model_path true None 0 (compile_op Start)).
Proof. vm_compute. reflexivity. Qed.

Example bridge_stop :
  path "Live.stop" [true; false; true; true; false; true; true; false; false; false; true; true; true; false; true; false]
  = Some (model_path true (Some 2%nat) 0 (compile_op Stop)).
Proof. vm_compute. reflexivity. Qed.

(* auto-refreshing display: done flag set under the lock, join AFTER the lock is released *)
Example bridge_stop_auto :
  path "Live.stop" [true; true; true; true; false; true; true; false; false; false; true; true; true; false; true; true]
  = Some (model_path true (Some 2%nat) 0 (compile_op (StopAuto 5%nat))).
Proof. vm_compute. reflexivity. Qed.

Example bridge_stop_not_started :
  path "Live.stop" [false; false] = Some (model_path false None 0 (compile_op Stop)).
Proof. vm_compute. reflexivity. Qed.

(* ---- lock discipline computed on the table (T3) *)
(* methods that rely on their caller holding the live lock *)
Definition assumes (m : string) : list string :=
  if existsb (String.eqb m) ["LiveRender.position_cursor"; "LiveRender.restore_cursor"; "LiveRender.set_renderable";
                             "Console.push_render_hook"; "Console.pop_render_hook"]
  then ["Live._lock"] else [].
Definition lrank (l : string) : Z :=
  if String.eqb l "Live._lock" || String.eqb l "Progress._lock" then 0 else if String.eqb l "Console._lock" then 1
  else if String.eqb l "Console._record_buffer_lock" then 2 else -1.
Definition order_ok (held : list string) (l : string) : bool :=
  ((0 <=? lrank l)%Z && forallb (fun h => String.eqb h l || (lrank h <? lrank l)%Z) held)%bool.

(* every arm of every branch: accesses guarded, locks well nested, lock order respected *)
Fixpoint gev_g (nd : bool -> string -> option string) (asm : string -> list string)
         (held : list string) (e : ev) {struct e} : option (list string) :=
  let gl := fix gl (held : list string) (l : list ev) : option (list string) :=
              match l with
              | [] => Some held
              | x :: r => match gev_g nd asm held x with Some h => gl h r | None => None end
              end in
  let same (o : option (list string)) :=
      match o with Some h => list_eqb String.eqb h held | None => false end in
  match e with
  | Acq l => if order_ok held l then Some (l :: held) else None
  | Rel l => match held with h :: hs => if String.eqb h l then Some hs else None | [] => None end
  | Rd f => if holds held (nd false f) then Some held else None
  | Wr f => if holds held (nd true f) then Some held else None
  | Write => if holds held (Some "Console._lock") then Some held else None
  | Call m => (* join() blocks until the thread has finished: the joined thread needs the locks, so the
                 caller must hold none (waits-for edge caller -> thread -> lock owner = caller) *)
              if is_join m then (if is_nil held then Some held else None)
              else if forallb (fun l => holds held (Some l)) (asm m) then Some held else None
  | Local _ => Some held
  | If _ th el => if same (gl held th) && same (gl held el) then Some held else None
  | Loop _ b => if same (gl held b) then Some held else None
  end.
Definition gev := gev_g need assumes.
Definition guarded (entry : string * list ev) : bool :=
  let held := assumes (fst entry) in
  match fold_left (fun o e => match o with Some h => gev h e | None => None end) (snd entry) (Some held) with
  | Some h => list_eqb String.eqb h held
  | None => false
  end.
(* Progress shares LiveRender but uses its own lock and none at all in process_renderables;
   it is outside the model (C12 models Progress' accounting) -- see progress_hook_unlocked *)
Definition in_scope (entry : string * list ev) : bool :=
  negb (existsb (String.eqb (fst entry))
          ["Progress.start"; "Progress.stop"; "Progress.refresh"; "Progress.process_renderables";
           "ProgressRefreshThread.run"; "LiveRender.__rich_console__"]).

Example well_locked : forallb guarded (filter in_scope lock_table) = true.
Proof. vm_compute. reflexivity. Qed.
Example in_scope_count : length (filter in_scope lock_table) = 28%nat.
Proof. vm_compute. reflexivity. Qed.

(* exactly one file.write in the whole table, in _check_buffer *)
Fixpoint count_writes (e : ev) : nat :=
  let cl := fix cl (l : list ev) : nat := match l with [] => O | x :: r => (count_writes x + cl r)%nat end in
  match e with Write => 1%nat | If _ a b => (cl a + cl b)%nat | Loop _ b => cl b | _ => O end.
Example single_write_site :
  map (fun en => (fst en, fold_left (fun n e => (n + count_writes e)%nat) (snd en) O))
      (filter (fun en => negb (Nat.eqb (fold_left (fun n e => (n + count_writes e)%nat) (snd en) O) 0)) lock_table)
  = [("Console._check_buffer", 1%nat)].
Proof. vm_compute. reflexivity. Qed.

Example thread_locals_checked : thread_local_fields = ["_buffer"; "_buffer_index"].
Proof. reflexivity. Qed.
Example locks_reentrant : reentrant_locks = map lock_name [LConsole; LRecord; LLive].
Proof. reflexivity. Qed.

(* facts behind the findings *)
Example hooks_read_unguarded :
  lookup "Console.print" lock_table
  = Some [Call "Console.__enter__"; Rd "Console._render_hooks";
          Loop "self._render_hooks" [Call "RenderHook.process_renderables"];
          Loop "renderables" [Call "Console.render"]; Local "_buffer";
          Loop "Segment.split_and_crop_lines(new_segments, self.width, pad=False)" [Local "_buffer"];
          Call "Console.__exit__"].
Proof. reflexivity. Qed.
(* D17: the live lock is released right after position_cursor(); rendering and the write happen later *)
Example d17_lock_released_before_write :
  path "Live.process_renderables" [false]
  = Some [Acq "Live._lock"; Rel "Live._lock"].
Proof. vm_compute. reflexivity. Qed.
Example progress_hook_unlocked :
  lookup "Progress.process_renderables" lock_table = Some [Call "LiveRender.position_cursor"].
Proof. reflexivity. Qed.

(* ---- Progress (DESIGN D17, same class, wider): its hook takes NO lock in process_renderables and
   its LiveRender reads and writes _shape without one; only Progress.refresh holds Progress._lock
   across render + write.  The path of a user print under a Progress hook: *)
Definition dyn_progress (m : string) : option string :=
  if String.eqb m "RenderHook.process_renderables" then Some "Progress.process_renderables"
  else if String.eqb m "Console.render" then Some "LiveRender.__rich_console__"
  else None.
Definition path_progress (m : string) (ds : list bool) : option (list ev) :=
  match lookup m lock_table with
  | Some b => let '(p, rest) := expand_g dyn_progress 40 ds b in
              if is_nil rest then Some (canon p) else None
  | None => None
  end.
Definition hook_lock (e : ev) : bool :=
  match e with
  | Acq l | Rel l => String.eqb l "Progress._lock" || String.eqb l "Live._lock"
  | _ => false
  end.
(* hooks loop once -> Progress.process_renderables (position_cursor, shape set); render loop once ->
   LiveRender.__rich_console__ (shape already set); crop loop skipped; outermost exit.
   No hook lock anywhere; _shape is read for the erase sequence, later read and written by the
   render, and the file write comes last -- every one of these accesses is unguarded (nf keeps them). *)
Example progress_print_path_unlocked :
  match path_progress "Console.print" [true; true; false; true; true; false; false; true] with
  | Some p => forallb (fun e => negb (hook_lock e)) p
              && existsb (fun e => match e with Wr f => String.eqb f "LiveRender._shape" | _ => false end) p
              && (1 <=? length (filter (fun e => match e with Rd f => String.eqb f "LiveRender._shape" | _ => false end) p))%nat
  | None => false
  end = true.
Proof. vm_compute. reflexivity. Qed.
(* sanity: Progress.stop on a display that is not started does nothing but take its lock *)
Example progress_stop_not_started :
  path_progress "Progress.stop" [false; false]
  = Some [Acq "Progress._lock"; Rel "Progress._lock"].
Proof. vm_compute. reflexivity. Qed.

(* ---- start()/stop(): check-then-act on _started inside ONE critical section (Live and Progress),
   and join() of the refresh thread only with no lock held (rule inside gev_g). *)
Definition need_started (w : bool) (f : string) : option string :=
  if String.eqb f "Progress._started" || String.eqb f "Live._started" then need w f else None.
Definition started_guarded (entry : string * list ev) : bool :=
  match fold_left (fun o e => match o with Some h => gev_g need_started (fun _ => []) h e | None => None end)
                  (snd entry) (Some []) with
  | Some h => is_nil h
  | None => false
  end.
Example start_stop_started_guarded :
  map (fun en => (fst en, started_guarded en))
      (filter (fun en => existsb (String.eqb (fst en)) ["Live.start"; "Live.stop"; "Progress.start"; "Progress.stop"]) lock_table)
  = [("Live.start", true); ("Live.stop", true); ("Progress.start", true); ("Progress.stop", true)].
Proof. vm_compute. reflexivity. Qed.

Definition started_or_lock (l : string) (e : ev) : bool :=
  match e with
  | Acq x | Rel x => String.eqb x l
  | Rd f | Wr f => String.eqb f "Progress._started" || String.eqb f "Live._started"
  | _ => false
  end.
(* the body of start() on a display that is not started: the read that decides and the write that
   commits are consecutive events of the same critical section *)
Example progress_start_check_then_act :
  match lookup "Progress.start" lock_table with
  | Some b => firstn 3 (filter (started_or_lock "Progress._lock")
                (fst (expand_g dyn_progress 40 [false; true; true; false; true; true; true; false; false; true; false; false] b)))
  | None => []
  end = [Acq "Progress._lock"; Rd "Progress._started"; Wr "Progress._started"].
Proof. vm_compute. reflexivity. Qed.
Example live_start_check_then_act :
  match lookup "Live.start" lock_table with
  | Some b => filter (started_or_lock "Live._lock") (fst (expand_g dyn_target 40 [false; true; false] b))
  | None => []
  end = [Acq "Live._lock"; Rd "Live._started"; Wr "Live._started"; Rel "Live._lock"].
Proof. vm_compute. reflexivity. Qed.
