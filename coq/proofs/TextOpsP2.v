(* C05 proofs, part 2: one simulation lemma per (non-dividing) operation. *)
From RichModel Require Import Prelude Cells TextOps SpecTextOps.
From RichProofs Require Import TextOpsP.
From Coq Require Import ZifyBool Lia.

Arguments zlen : simpl never.
Arguments py_repeat : simpl never.
Arguments strip : simpl never.
Arguments ctl_free : simpl never.
Arguments cell_len : simpl never.
Arguments set_cell_size : simpl never.

Definition sim (rt : res text) (rr : res ref) : Prop :=
  match rt, rr with
  | Ok t', Ok r' => abs t' = r' /\ Consistent t'
  | Crash k, Crash k' => k = k'
  | Doc e, Doc e' => e = e'
  | _, _ => False
  end.

Lemma cons_parts t : Consistent t ->
  len t = zlen (plain t) /\ ctl_free (plain t) = true /\ Within (zlen (plain t)) (spans t).
Proof. intros H. apply consistent_iff in H. destruct H as (H1 & H2 & H3). rewrite H1 in H3. auto. Qed.

Lemma mk_consistent p l sps m :
  l = zlen p -> ctl_free p = true -> Within (zlen p) sps -> Consistent (mkText p l sps m).
Proof. intros H1 H2 H3. apply consistent_iff. simpl. subst l. auto. Qed.

Lemma pylen_ok t : Consistent t -> pylen t = Ok (len t).
Proof.
  intros H. destruct (cons_parts t H) as (H1 & _). unfold pylen. pose proof (zlen_nonneg (plain t)).
  destruct (len t <? 0) eqn:E; [lia|reflexivity].
Qed.

Lemma py_repeat_nonpos {A} (c : A) n : n <= 0 -> py_repeat c n = [].
Proof. intros H. unfold py_repeat. replace (Z.to_nat n) with O by lia. reflexivity. Qed.

(* appending a block of characters with spans that start at or after the old end *)
Lemma abs_append p sps q new :
  Within (zlen p) sps -> Forall (fun sp => zlen p <= sp_start sp) new ->
  abs_from 0 (p ++ q) (sps ++ new) = abs_from 0 p sps ++ abs_from (zlen p) q new.
Proof.
  intros Hw Hn. rewrite abs_from_app. f_equal.
  - apply abs_from_ext. intros j Hj. rewrite cover_app, (cover_nil_lt new (zlen p)) by (auto; lia).
    apply app_nil_r.
  - simpl. apply abs_from_ext. intros j Hj. rewrite cover_app, (cover_nil_ge sps (zlen p)) by (auto; lia).
    reflexivity.
Qed.

Lemma consistent_append t q new :
  Consistent t -> ctl_free q = true -> Within (zlen (plain t) + zlen q) new ->
  Consistent (mkText (plain t ++ q) (len t + zlen q) (spans t ++ new) (tmeta t)).
Proof.
  intros H Hq Hn. destruct (cons_parts t H) as (H1 & H2 & H3). apply mk_consistent.
  - rewrite zlen_app. lia.
  - rewrite ctl_free_app, H2, Hq. reflexivity.
  - rewrite zlen_app. apply within_app. split; [|exact Hn].
    eapply within_mono; [exact H3|]. pose proof (zlen_nonneg q). lia.
Qed.

(* ---------- append(str, style) ---------- *)
Lemma abs_opt_span L q st :
  abs_from L q (opt_span L (L + zlen q) st) = styled q (opt_list st).
Proof.
  apply abs_from_styled. intros j Hj. destruct st as [k|]; simpl; [|reflexivity].
  rewrite cover_cons. unfold covers, sp_start, sp_end. simpl.
  replace ((L <=? j) && (j <? L + zlen q)) with true by lia. reflexivity.
Qed.
Lemma opt_span_props L n st : 0 <= L -> 0 <= n ->
  Within (L + n) (opt_span L (L + n) st) /\ Forall (fun sp => L <= sp_start sp) (opt_span L (L + n) st).
Proof.
  intros HL Hn. destruct st as [k|]; simpl; split; try constructor; try constructor;
    unfold sp_start, sp_end; simpl; lia.
Qed.

Lemma sim_append_str t s st : Consistent t ->
  sim (append_str FIXED t s st) (Ok (r_append_str (abs t) s st)).
Proof.
  intros H. destruct (cons_parts t H) as (H1 & H2 & H3). unfold append_str.
  destruct s as [|c s'].
  - simpl. split; [|exact H]. unfold r_append_str, abs. simpl. now rewrite app_nil_r.
  - remember (c :: s') as s. rewrite (pylen_ok t H). simpl.
    pose proof (zlen_nonneg (plain t)). pose proof (zlen_nonneg (strip s)).
    destruct (opt_span_props (len t) (zlen (strip s)) st) as [Hw Hf]; try lia.
    split.
    + unfold r_append_str, abs, abs_chars. simpl. f_equal.
      rewrite abs_append; [|exact H3|rewrite <- H1; exact Hf]. rewrite <- H1. now rewrite abs_opt_span.
    + apply consistent_append; [exact H|apply ctl_free_strip|rewrite <- H1; exact Hw].
Qed.

(* ---------- append(Text) / append_text ---------- *)
Lemma abs_under_shift L o_plain o_spans b :
  abs_from L o_plain ((L, L + zlen o_plain, b) :: shift_spans o_spans L)
  = under b (abs_from 0 o_plain o_spans).
Proof.
  rewrite abs_from_cons_under.
  - unfold sp_style. simpl. f_equal. replace L with (0 + L) at 1 by lia. apply abs_from_shift.
  - intros j Hj. unfold covers, sp_start, sp_end. simpl. lia.
Qed.

Lemma sim_append_raw t o : Consistent t -> Consistent o ->
  abs (append_text_raw t o (len o)) = r_append_text (abs t) (abs o) /\ Consistent (append_text_raw t o (len o)).
Proof.
  intros H Ho. destruct (cons_parts t H) as (H1 & H2 & H3). destruct (cons_parts o Ho) as (O1 & O2 & O3).
  pose proof (zlen_nonneg (plain t)). pose proof (zlen_nonneg (plain o)).
  unfold append_text_raw. split.
  - unfold r_append_text, abs, abs_chars. simpl. f_equal.
    rewrite abs_append; [|exact H3|].
    + rewrite H1, O1. now rewrite abs_under_shift.
    + constructor; [unfold sp_start; simpl; lia|]. rewrite H1. apply (shift_ge _ _ _ O3).
  - rewrite O1. apply consistent_append; [exact H|exact O2|].
    constructor; [unfold sp_start, sp_end; simpl; lia|].
    rewrite H1, Z.add_comm. fold (Within (zlen (plain o) + zlen (plain t)) (shift_spans (spans o) (zlen (plain t)))).
    apply within_shift; [exact O3|lia].
Qed.

Lemma sim_append_text t o : Consistent t -> Consistent o ->
  sim (append_text t o) (Ok (r_append_text (abs t) (abs o))).
Proof.
  intros H Ho. unfold append_text. rewrite (pylen_ok o Ho). simpl. now apply sim_append_raw.
Qed.

Lemma sim_append_text_obj t o : Consistent t -> Consistent o ->
  sim (append_text_obj t o) (Ok (r_append_text (abs t) (abs o))).
Proof.
  intros H Ho. unfold append_text_obj. rewrite (pylen_ok o Ho). simpl.
  destruct (len o =? 0) eqn:E; [|now apply sim_append_raw].
  simpl. split; [|exact H]. destruct (cons_parts o Ho) as (O1 & _).
  assert (plain o = []) as Hp by (apply zlen_zero; lia).
  unfold r_append_text, abs, abs_chars. simpl. rewrite Hp. simpl. now rewrite app_nil_r.
Qed.

(* ---------- append_tokens ---------- *)
Lemma tokens_go_spec toks : forall p sps,
  ctl_free p = true -> Within (zlen p) sps ->
  let '(p', sps', off') := tokens_go FIXED toks p sps (zlen p) in
  off' = zlen p' /\ ctl_free p' = true /\ Within (zlen p') sps' /\
  abs_from 0 p' sps' = abs_from 0 p sps ++ flat_map (fun '(s, st) => styled (strip s) (opt_list st)) toks.
Proof.
  induction toks as [|[s st] toks IH]; intros p sps Hc Hw; simpl.
  - repeat split; auto. now rewrite app_nil_r.
  - pose proof (zlen_nonneg p). pose proof (zlen_nonneg (strip s)).
    destruct (opt_span_props (zlen p) (zlen (strip s)) st) as [Hw' Hf]; try lia.
    specialize (IH (p ++ strip s) (sps ++ opt_span (zlen p) (zlen p + zlen (strip s)) st)).
    rewrite zlen_app in IH.
    destruct (tokens_go FIXED toks (p ++ strip s) (sps ++ opt_span (zlen p) (zlen p + zlen (strip s)) st)
                        (zlen p + zlen (strip s))) as [[p' sps'] off'].
    destruct IH as (I1 & I2 & I3 & I4).
    + rewrite ctl_free_app, Hc, ctl_free_strip. reflexivity.
    + apply within_app. split; [eapply within_mono; [exact Hw|lia]|exact Hw'].
    + repeat split; auto. rewrite I4, abs_append, abs_opt_span by auto. now rewrite <- app_assoc.
Qed.

Lemma sim_append_tokens t toks : Consistent t ->
  sim (append_tokens FIXED t toks) (Ok (r_append_tokens (abs t) toks)).
Proof.
  intros H. destruct (cons_parts t H) as (H1 & H2 & H3). unfold append_tokens.
  rewrite (pylen_ok t H). simpl. rewrite H1.
  pose proof (tokens_go_spec toks (plain t) (spans t) H2 H3) as S.
  destruct (tokens_go FIXED toks (plain t) (spans t) (zlen (plain t))) as [[p' sps'] off'].
  destruct S as (S1 & S2 & S3 & S4). simpl. split.
  - unfold r_append_tokens, abs, abs_chars. simpl. now rewrite S4.
  - now apply mk_consistent.
Qed.

(* ---------- assemble ---------- *)
Definition rp (p : part) : rpart :=
  match p with PStr s => RStr s | PTup s st => RTup s st | PText o => RText (abs o) end.
Definition part_ok (p : part) : Prop := match p with PText o => Consistent o | _ => True end.

Lemma sim_append_parts ps : forall t, Consistent t -> Forall part_ok ps ->
  sim (append_parts FIXED t ps) (Ok (fold_left r_append_part (map rp ps) (abs t))).
Proof.
  induction ps as [|p ps IH]; intros t H Hp; simpl; [split; auto|].
  inversion Hp as [|? ? Hp1 Hp2]; subst.
  assert (sim (append_part FIXED t p) (Ok (r_append_part (abs t) (rp p)))) as S.
  { destruct p; simpl; [apply sim_append_str|apply sim_append_str|apply sim_append_text_obj]; auto. }
  destruct (append_part FIXED t p) as [t'| |]; simpl in S; try contradiction.
  destruct S as [S1 S2]. simpl. rewrite <- S1. now apply IH.
Qed.

Lemma ctor_fixed s m sps : ctor FIXED s m sps = mkText (strip s) (zlen (strip s)) sps m.
Proof. reflexivity. Qed.
Lemma strip_nil : strip [] = []. Proof. reflexivity. Qed.

Lemma sim_assemble m ps : Forall part_ok ps ->
  sim (assemble FIXED m ps) (Ok (r_assemble m (map rp ps))).
Proof.
  intros Hp. unfold assemble, r_assemble. rewrite ctor_fixed, strip_nil.
  change (mkRef [] m) with (abs (mkText [] (zlen (@nil Z)) [] m)).
  apply sim_append_parts; [|exact Hp]. apply mk_consistent; [reflexivity|reflexivity|constructor].
Qed.
