(* C17 lemmas, part 3: the theorems about `render`, the traceback frame, and the refutations of the
   call-site facts of rich 9.10.0 as found. *)
From RichModel Require Import Prelude Cells Segments Syntax SpecSyntax.
From RichProofs Require Import CellsP SegmentsP SyntaxP SyntaxP2.
From Coq Require Import ZifyBool Lia.

Definition WrapOk (wrapf : str -> Z -> bool -> list str) : Prop :=
  forall line w pad, 0 <= w -> wrap_ok_b line w (wrapf line w pad) = true.

Definition range_end_nonneg (o : opts) : Prop :=
  match o_range o with Some (_, e) => 0 <= e | None => True end.

Section Main.
Variable lex : str -> list (Z * str).
Variable wrapf : str -> Z -> bool -> list str.
Hypothesis HLex : LexOk (f_lex fixed_facts) lex.
Hypothesis HWrap : WrapOk wrapf.

(* With line numbers: the output is, one numbered line for one source line, the lines of the range
   clipped to those that exist, numbered from start_line + offset, marked exactly where
   highlight_lines says, each cropped (or wrapped) to the code width; blank lines at the very end
   may be missing. *)
Theorem render_numbered_spec o code W :
  clean code = true -> o_line_numbers o = true -> o_indent_guides o = false ->
  0 <= o_start_line o -> range_end_nonneg o -> 0 <= code_width_of o code W ->
  exists out, render lex fixed_facts wrapf o code W = Ok out /\ render_ok_b o code W out = true.
Proof.
  intros Hclean Hln Hg Hstart Hre Hcw.
  unfold render. set (c := expandtabs (o_tab_size o) code).
  assert (Hc : clean c = true) by (apply clean_expandtabs_go; exact Hclean).
  destruct (highlight_text lex (o_lexer_found o) c (o_range o) HLex Hc) as [t [Ht Hshape]].
  rewrite Ht. cbn [bind]. rewrite Hln, Hg. cbn [negb andb].
  eexists. split; [reflexivity|].
  unfold render_ok_b, check_render. rewrite Hln.
  unfold source_lines. fold c.
  assert (Hnls : nls c = nls code) by apply nls_expandtabs_go.
  set (M := o_start_line o + count_nl code).
  assert (HM : 0 <= M) by (unfold M; rewrite count_nl_nls; lia).
  assert (Hncw : numbers_column_width o code = zlen (show_Z M) + 2).
  { unfold numbers_column_width. rewrite Hln. reflexivity. }
  assert (Hgw : spec_gutter_width o code = zlen (show_Z M) + 3).
  { unfold spec_gutter_width. rewrite Hln. reflexivity. }
  assert (Hcw' : spec_code_width o code W = code_width_of o code W).
  { unfold spec_code_width, code_width_of. rewrite Hln, Hgw, Hncw. destruct (o_code_width o); lia. }
  rewrite Hncw, Hgw, Hcw'.
  pose proof (shown_lines_ok o t c Hre Hshape) as Hp.
  apply check_numbered_ok; try assumption.
  - unfold line_offset_of. destruct (o_range o) as [[a e]|]; lia.
  - intros Hne. pose proof (range_clip_bound o (split_nl c) _ Hp Hne) as Hb.
    unfold zlen in Hb at 2. rewrite split_nl_length, Hnls in Hb.
    unfold M. rewrite count_nl_nls. unfold first_number. lia.
Qed.

Corollary syntax_lines o code W :
  clean code = true -> o_line_numbers o = true -> o_indent_guides o = false ->
  0 <= o_start_line o -> range_end_nonneg o -> 0 <= code_width_of o code W ->
  exists out, render lex fixed_facts wrapf o code W = Ok out /\ lines_match_b o code W out = true.
Proof.
  intros. destruct (render_numbered_spec o code W) as [out [Hr1 Hr2]]; try assumption.
  exists out. split; [exact Hr1|]. unfold lines_match_b, render_ok_b, check_render in *.
  destruct (o_line_numbers o); [|congruence]. apply check_lines_weaken. exact Hr2.
Qed.

Corollary numbers_right o code W :
  clean code = true -> o_line_numbers o = true -> o_indent_guides o = false ->
  0 <= o_start_line o -> range_end_nonneg o -> 0 <= code_width_of o code W ->
  exists out, render lex fixed_facts wrapf o code W = Ok out /\ numbers_ok_b o code W out = true.
Proof.
  intros. destruct (render_numbered_spec o code W) as [out [Hr1 Hr2]]; try assumption.
  exists out. split; [exact Hr1|]. unfold numbers_ok_b, render_ok_b, check_render in *.
  destruct (o_line_numbers o); [|congruence]. apply check_lines_weaken. exact Hr2.
Qed.

Corollary range_exact o code W :
  clean code = true -> o_line_numbers o = true -> o_indent_guides o = false ->
  0 <= o_start_line o -> range_end_nonneg o -> 0 <= code_width_of o code W ->
  exists out, render lex fixed_facts wrapf o code W = Ok out /\ range_ok_b o code W out = true.
Proof.
  intros. destruct (render_numbered_spec o code W) as [out [Hr1 Hr2]]; try assumption.
  exists out. split; [exact Hr1|]. unfold range_ok_b, render_ok_b, check_render in *.
  destruct (o_line_numbers o); [|congruence]. apply check_lines_weaken. exact Hr2.
Qed.

Corollary marks_right o code W :
  clean code = true -> o_line_numbers o = true -> o_indent_guides o = false ->
  0 <= o_start_line o -> range_end_nonneg o -> 0 <= code_width_of o code W ->
  exists out, render lex fixed_facts wrapf o code W = Ok out /\ marks_ok_b o code W out = true.
Proof.
  intros. destruct (render_numbered_spec o code W) as [out [Hr1 Hr2]]; try assumption.
  exists out. split; [exact Hr1|]. unfold marks_ok_b, render_ok_b, check_render in *.
  destruct (o_line_numbers o); [|congruence]. apply check_lines_weaken. exact Hr2.
Qed.

(* Highlighting never changes a character (no range: exactly the code up to its final newline) *)
Theorem highlight_keeps_chars code :
  clean code = true ->
  exists t, highlight lex fixed_facts true code None = Ok t /\ highlight_ok_b code t false = true.
Proof.
  intros Hc. destruct (highlight_text lex true code None HLex Hc) as [t [Ht Hs]].
  exists t. split; [exact Ht|]. unfold highlight_ok_b.
  destruct Hs as [Hs|[a [e [m [Hr _]]]]]; [|discriminate].
  rewrite Hs. apply str_eqb_refl.
Qed.

(* ... with a range: the text is the code cut after some line m that reaches the range end *)
Theorem highlight_keeps_chars_ranged code a e :
  clean code = true ->
  exists t m, highlight lex fixed_facts true code (Some (a, e)) = Ok t /\ e <= Z.of_nat m /\
              remove_suffix_nl t = remove_suffix_nl (take_lines code m).
Proof.
  intros Hc. destruct (highlight_text lex true code (Some (a, e)) HLex Hc) as [t [Ht Hs]].
  destruct Hs as [Hs|[a' [e' [m [Hr [Hm [Hem Hs]]]]]]].
  - exists t, (S (nls code) + Z.to_nat e)%nat. split; [exact Ht|]. split; [lia|].
    rewrite Hs, take_lines_all by lia. reflexivity.
  - inversion Hr; subst. exists t, m. repeat split; assumption.
Qed.

(* One traceback frame (the Syntax call of Traceback._render_stack, keyword values regenerated from
   /repo): whatever the file's leading blank lines or length, the block shows lines
   lineno-extra..lineno+extra clipped to the file, each under its own number, and the pointer marks
   the line numbered lineno and no other. *)
Theorem traceback_frame_ok code lineno extra ww transparent W :
  clean code = true -> 0 <= extra -> 1 <= lineno ->
  SyntaxFacts.tb_line_numbers = true -> SyntaxFacts.tb_range_is_lineno_pm_extra = true ->
  SyntaxFacts.tb_highlight_is_lineno = true -> 0 <= SyntaxFacts.tb_code_width ->
  0 <= SyntaxFacts.syntax_default_start_line ->
  let o := tb_opts lineno extra ww transparent false in
  exists out, render_frame lex fixed_facts wrapf code lineno extra ww transparent false W = Ok out /\
              render_ok_b o code W out = true /\
              o_highlight o = [lineno] /\ o_range o = Some (lineno - extra, lineno + extra).
Proof.
  intros Hc He Hl F1 F2 F3 F4 F5 o. unfold render_frame. fold o.
  assert (Ho : o_highlight o = [lineno] /\ o_range o = Some (lineno - extra, lineno + extra)).
  { unfold o, tb_opts. cbn [o_highlight o_range]. rewrite F2, F3. split; reflexivity. }
  assert (A1 : o_line_numbers o = true) by exact F1.
  assert (A2 : o_indent_guides o = false) by reflexivity.
  assert (A3 : 0 <= o_start_line o) by exact F5.
  assert (A4 : range_end_nonneg o).
  { unfold range_end_nonneg. destruct Ho as [_ Hr]. rewrite Hr. lia. }
  assert (A5 : 0 <= code_width_of o code W) by exact F4.
  destruct (render_numbered_spec o code W Hc A1 A2 A3 A4 A5) as [out [H1 H2]].
  exists out. repeat split; try assumption; apply Ho.
Qed.
End Main.

(* ------------------------------------------------------------------ refutations (rich 9.10.0 as found) *)
(* a lexer that meets LexOk for the as-found options: one token carrying the normalised text *)
Definition one_token_lexer (lo : lexopts) : str -> list (Z * str) := fun c => [(0, lex_norm lo c)].
Lemma one_token_lexer_ok lo : LexOk lo (one_token_lexer lo).
Proof. intros c. unfold one_token_lexer. cbn [map snd concat]. apply app_nil_r. Qed.

Definition numbered_opts (range : option (Z * Z)) : opts :=
  mkOpts true true 1 range [] false None 4 false false.

(* D7: "\n\nx = 1\n" with line numbers shows `x = 1` as line 1 *)
Definition d7_code : str := [10; 10; 120; 32; 61; 32; 49; 10].
Theorem syntax_lines_asis_refuted :
  exists out, render (one_token_lexer (f_lex asis_facts)) asis_facts wrap_fit (numbered_opts None) d7_code 20 = Ok out /\
              lines_match_b (numbered_opts None) d7_code 20 out = false /\
              out = [lit "  1 x = 1           "].
Proof. eexists. split; [vm_compute; reflexivity|]. split; vm_compute; reflexivity. Qed.

(* the same input under the repaired facts passes, so the hypotheses of the theorems are satisfiable *)
Example syntax_lines_fixed_d7 :
  exists out, render (one_token_lexer (f_lex fixed_facts)) fixed_facts wrap_fit (numbered_opts None) d7_code 20 = Ok out /\
              render_ok_b (numbered_opts None) d7_code 20 out = true /\ length out = 3%nat.
Proof. eexists. split; [vm_compute; reflexivity|]. split; vm_compute; reflexivity. Qed.

(* a line_range beyond the code raises (RuntimeError: generator raised StopIteration) instead of
   selecting nothing *)
Definition short_code : str := [120; 32; 61; 32; 49; 10].
Theorem range_beyond_asis_refuted :
  render (one_token_lexer (f_lex asis_facts)) asis_facts wrap_fit (numbered_opts (Some (5, 6))) short_code 20 = Crash K_Other.
Proof. vm_compute. reflexivity. Qed.
Example range_beyond_fixed :
  render (one_token_lexer (f_lex fixed_facts)) fixed_facts wrap_fit (numbered_opts (Some (5, 6))) short_code 20 = Ok [].
Proof. vm_compute. reflexivity. Qed.

(* indent guides on an empty selection print one numbered line that is not a line of the source *)
Definition guides_opts : opts := mkOpts false true 1 (Some (4, 8)) [] false None 4 false true.
Theorem guides_empty_range_asis_refuted :
  exists out, render (one_token_lexer (f_lex asis_facts)) asis_facts wrap_fit guides_opts [] 20 = Ok out /\
              range_ok_b guides_opts [] 20 out = false.
Proof. eexists. split; [vm_compute; reflexivity|]. vm_compute. reflexivity. Qed.
Example guides_empty_range_fixed :
  render (one_token_lexer (f_lex fixed_facts)) fixed_facts wrap_fit guides_opts [] 20 = Ok [].
Proof. vm_compute. reflexivity. Qed.

(* a traceback frame of a file with leading blank lines: as found the pointer is on the wrong text *)
Definition tb_code : str :=   (* "\n\n\nraise X\nz = 3\n" *)
  [10; 10; 10; 114; 97; 105; 115; 101; 32; 88; 10; 122; 32; 61; 32; 51; 10].
Theorem traceback_asis_refuted :
  exists out, render_frame (one_token_lexer (f_lex asis_facts)) asis_facts wrap_fit tb_code 4 3 false true false 100 = Ok out /\
              failing_line_b tb_code 4 96 false out = false.
Proof. eexists. split; [vm_compute; reflexivity|]. vm_compute. reflexivity. Qed.
Example traceback_fixed :
  exists out, render_frame (one_token_lexer (f_lex fixed_facts)) fixed_facts wrap_fit tb_code 4 3 false true false 100 = Ok out /\
              failing_line_b tb_code 4 96 false out = true.
Proof. eexists. split; [vm_compute; reflexivity|]. vm_compute. reflexivity. Qed.

(* ... and with extra_lines=0 the rendering of the traceback itself raises *)
Theorem traceback_asis_crashes :
  render_frame (one_token_lexer (f_lex asis_facts)) asis_facts wrap_fit tb_code 4 0 false true false 100 = Crash K_Other.
Proof. vm_compute. reflexivity. Qed.
