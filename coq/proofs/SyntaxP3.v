(* C17 lemmas, part 3: the theorems about `render`, the traceback frame, and the refutations of the
   call-site facts of rich 9.10.0 as found. *)
From RichModel Require Import Prelude Cells Segments Syntax SpecSyntax.
From RichProofs Require Import CellsP SegmentsP SyntaxP SyntaxP2 SyntaxW SyntaxG.
From Coq Require Import ZifyBool Lia.

Definition range_end_nonneg (o : opts) : Prop :=
  match o_range o with Some (_, e) => 0 <= e | None => True end.
(* the option domain of the theorems *)
Definition opts_ok (o : opts) (cw : Z) : Prop :=
  0 <= o_start_line o /\ range_end_nonneg o /\ 0 <= cw /\
  (o_word_wrap o = true -> 2 <= cw) /\ (o_indent_guides o = true -> 1 <= o_tab_size o).

(* ------------------------------------------------------------------ lines without "\n" *)
Lemma split_nl_nlfree s : Forall nlfree (split_nl s).
Proof.
  induction s as [|c r IH]; [constructor; [reflexivity|constructor]|]. cbn [split_nl]. destruct (c =? NL) eqn:E.
  - constructor; [reflexivity|exact IH].
  - destruct (split_nl r) as [|l ls]; [constructor; [unfold nlfree; cbn [nls]; rewrite E; reflexivity|constructor]|].
    inversion IH; subst. constructor; [unfold nlfree in *; cbn [nls]; rewrite E; assumption|assumption].
Qed.
Lemma Forall_firstn' {A} (P : A -> Prop) n l : Forall P l -> Forall P (firstn n l).
Proof. revert l. induction n; intros [|x l] H; try constructor; inversion H; subst; [assumption|apply IHn; assumption]. Qed.
Lemma Forall_skipn' {A} (P : A -> Prop) n l : Forall P l -> Forall P (skipn n l).
Proof. revert l. induction n; intros [|x l] H; try assumption. inversion H; subst. apply IHn. assumption. Qed.
Lemma range_clip_nlfree o L : Forall nlfree L -> Forall nlfree (range_clip o L).
Proof. intros H. unfold range_clip. destruct (o_range o) as [[a e]|]; [apply Forall_skipn', Forall_firstn'|]; exact H. Qed.
Lemma pfx_blank_Forall (P : str -> Prop) a b : pfx_blank a b -> Forall P b -> Forall P a.
Proof. intros [r [-> _]] H. apply Forall_app in H. apply H. Qed.
Lemma Forall2_len {A B} (R : A -> B -> Prop) la lb : Forall2 R la lb -> length la = length lb.
Proof. induction 1; cbn [length]; congruence. Qed.
Lemma Forall2_diag {A} (R : A -> A -> Prop) (P : A -> Prop) l : (forall x, P x -> R x x) -> Forall P l -> Forall2 R l l.
Proof. intros H. induction 1; constructor; auto. Qed.
Lemma Forall2_impl_l {A B} (R R' : A -> B -> Prop) (P : A -> Prop) la lb :
  (forall x y, P x -> R x y -> R' x y) -> Forall P la -> Forall2 R la lb -> Forall2 R' la lb.
Proof. intros H HP HF. induction HF; constructor; inversion HP; subst; auto. Qed.

(* what gets numbered: the selected lines, with indent guides when asked for (repaired tree: the
   guide pass is skipped on an empty selection) *)
Definition numbered_lines (o : opts) (shown : list str) : list str :=
  if o_indent_guides o && match shown with [] => false | _ => true end
  then with_guides (o_tab_size o) shown else shown.

Section Main.
Variable lex : str -> list (Z * str).
Variable wrapf : str -> Z -> bool -> list str.
Hypothesis HLex : LexOk (f_lex fixed_facts) lex.
Hypothesis HWrap : WrapOk wrapf.

(* the explicit form of a numbered rendering *)
Lemma render_numbered_form o code W :
  clean code = true -> o_line_numbers o = true -> range_end_nonneg o ->
  (o_indent_guides o = true -> 1 <= o_tab_size o) ->
  exists shown,
    render lex fixed_facts wrapf o code W =
      Ok (render_numbered wrapf o (numbers_column_width o code) (code_width_of o code W)
            (numbered_lines o shown) (first_number o)) /\
    pfx_blank shown (range_clip o (source_lines o code)) /\
    (shown <> [] -> line_offset_of o + zlen shown <= count_nl code + 1).
Proof.
  intros Hclean Hln Hre Hts.
  unfold render, source_lines. set (c := expandtabs (o_tab_size o) code).
  assert (Hc : clean c = true) by (apply clean_expandtabs_go; exact Hclean).
  destruct (highlight_text lex (o_lexer_found o) c (o_range o) HLex Hc) as [t [Ht Hshape]].
  rewrite Ht. cbn [bind]. rewrite Hln. cbn [negb].
  exists (shown_lines o (remove_suffix_nl t)). split.
  - unfold numbered_lines. cbn [f_guides_guard fixed_facts negb orb].
    destruct (o_indent_guides o) eqn:Eg; cbn [andb]; [|reflexivity].
    destruct (shown_lines o (remove_suffix_nl t)) as [|l ls] eqn:El; [reflexivity|].
    replace (o_tab_size o =? 0) with false by (specialize (Hts eq_refl); lia). reflexivity.
  - pose proof (shown_lines_ok o t c Hre Hshape) as Hp. split; [exact Hp|].
    intros Hne. pose proof (range_clip_bound o (split_nl c) _ Hp Hne) as Hb.
    unfold zlen in Hb at 2. rewrite split_nl_length in Hb.
    assert (Hnls : nls c = nls code) by apply nls_expandtabs_go.
    rewrite count_nl_nls. lia.
Qed.

(* With line numbers -- with or without indent guides, wrapped or not: the output is, one numbered
   line for one source line, the lines of the range clipped to those that exist, numbered from
   start_line + offset, marked exactly where highlight_lines says, each cropped (or wrapped) to the
   code width, guide characters only on ASCII spaces of the indentation (or continued through blank
   lines); blank lines at the very end may be missing. *)
Theorem render_numbered_spec o code W :
  clean code = true -> o_line_numbers o = true -> opts_ok o (code_width_of o code W) ->
  exists out, render lex fixed_facts wrapf o code W = Ok out /\ render_ok_b o code W out = true.
Proof.
  intros Hclean Hln [Hstart [Hre [Hcw [Hww Hts]]]].
  destruct (render_numbered_form o code W Hclean Hln Hre Hts) as [shown [Hren [Hp Hb]]].
  rewrite Hren. eexists. split; [reflexivity|].
  unfold render_ok_b, check_render. rewrite Hln.
  set (M := o_start_line o + count_nl code).
  assert (HM : 0 <= M) by (unfold M; rewrite count_nl_nls; lia).
  assert (Hncw : numbers_column_width o code = zlen (show_Z M) + 2).
  { unfold numbers_column_width. rewrite Hln. reflexivity. }
  assert (Hgw : spec_gutter_width o code = zlen (show_Z M) + 3).
  { unfold spec_gutter_width. rewrite Hln. reflexivity. }
  assert (Hcw' : spec_code_width o code W = code_width_of o code W).
  { unfold spec_code_width, code_width_of. rewrite Hln, Hgw, Hncw. destruct (o_code_width o); lia. }
  rewrite Hncw, Hgw, Hcw'.
  assert (Hnl : Forall nlfree shown).
  { apply (pfx_blank_Forall _ _ _ Hp). apply range_clip_nlfree. apply split_nl_nlfree. }
  assert (Hk : 0 <= first_number o).
  { unfold first_number, line_offset_of. destruct (o_range o) as [[a e]|]; lia. }
  destruct Hp as [rest0 [Hexp Hrest0]]. rewrite Hexp.
  unfold numbered_lines. destruct (o_indent_guides o) eqn:Eg; cbn [andb].
  - destruct shown as [|l0 ls0] eqn:Esh.
    + cbn [app]. apply (check_numbered_gen wrapf o M _ [] [] (Forall2_nil _) rest0); [exact Hrest0|exact Hk|congruence].
    + rewrite <- Esh in *.
      destruct (with_guides_rel (o_tab_size o) shown (Hts eq_refl) ltac:(rewrite Esh; discriminate)) as [S1 [r1 [HS [Hr1 HF]]]].
      replace (shown ++ rest0) with (S1 ++ (r1 ++ rest0)) by (rewrite HS, app_assoc; reflexivity).
      assert (HnS1 : Forall nlfree S1) by (rewrite HS in Hnl; apply Forall_app in Hnl; apply Hnl).
      apply (check_numbered_gen wrapf o M).
      * apply (Forall2_impl_l guide_rel _ nlfree); [|exact HnS1|exact HF].
        intros e g He Hr. apply (line_shows_guided wrapf HWrap); assumption.
      * rewrite forallb_app, Hr1, Hrest0. reflexivity.
      * exact Hk.
      * intros _. specialize (Hb ltac:(rewrite Esh; discriminate)).
        apply Forall2_len in HF. rewrite HS in Hb. unfold zlen in *. rewrite app_length in Hb.
        unfold M. rewrite count_nl_nls in *. unfold first_number. lia.
  - apply (check_numbered_gen wrapf o M).
    + apply (Forall2_diag _ nlfree); [|exact Hnl]. intros l Hl. apply (line_shows_plain wrapf HWrap); assumption.
    + exact Hrest0.
    + exact Hk.
    + intros Hne. specialize (Hb Hne). unfold M. rewrite count_nl_nls in *. unfold first_number. lia.
Qed.

Corollary syntax_lines o code W :
  clean code = true -> o_line_numbers o = true -> opts_ok o (code_width_of o code W) ->
  exists out, render lex fixed_facts wrapf o code W = Ok out /\ lines_match_b o code W out = true.
Proof.
  intros Hc Hln Hok. destruct (render_numbered_spec o code W Hc Hln Hok) as [out [Hr1 Hr2]].
  exists out. split; [exact Hr1|]. unfold lines_match_b, render_ok_b, check_render in *.
  rewrite Hln in *. apply check_lines_weaken. exact Hr2.
Qed.

Corollary numbers_right o code W :
  clean code = true -> o_line_numbers o = true -> opts_ok o (code_width_of o code W) ->
  exists out, render lex fixed_facts wrapf o code W = Ok out /\ numbers_ok_b o code W out = true.
Proof.
  intros Hc Hln Hok. destruct (render_numbered_spec o code W Hc Hln Hok) as [out [Hr1 Hr2]].
  exists out. split; [exact Hr1|]. unfold numbers_ok_b, render_ok_b, check_render in *.
  rewrite Hln in *. apply check_lines_weaken. exact Hr2.
Qed.

Corollary range_exact o code W :
  clean code = true -> o_line_numbers o = true -> opts_ok o (code_width_of o code W) ->
  exists out, render lex fixed_facts wrapf o code W = Ok out /\ range_ok_b o code W out = true.
Proof.
  intros Hc Hln Hok. destruct (render_numbered_spec o code W Hc Hln Hok) as [out [Hr1 Hr2]].
  exists out. split; [exact Hr1|]. unfold range_ok_b, render_ok_b, check_render in *.
  rewrite Hln in *. apply check_lines_weaken. exact Hr2.
Qed.

Corollary marks_right o code W :
  clean code = true -> o_line_numbers o = true -> opts_ok o (code_width_of o code W) ->
  exists out, render lex fixed_facts wrapf o code W = Ok out /\ marks_ok_b o code W out = true.
Proof.
  intros Hc Hln Hok. destruct (render_numbered_spec o code W Hc Hln Hok) as [out [Hr1 Hr2]].
  exists out. split; [exact Hr1|]. unfold marks_ok_b, render_ok_b, check_render in *.
  rewrite Hln in *. apply check_lines_weaken. exact Hr2.
Qed.

(* Highlighting never changes a character (no range: exactly the code up to its final newline) *)
Theorem highlight_keeps_chars code :
  clean code = true ->
  exists t, highlight lex fixed_facts true code None = Ok t /\ highlight_ok_b code t false = true.
Proof.
  intros Hc. destruct (highlight_text lex true code None HLex Hc) as [t [Ht Hs]].
  exists t. split; [exact Ht|]. unfold highlight_ok_b.
  destruct Hs as [Hs|[a [e [m [Hr _]]]]]; [|discriminate].
  rewrite Hs. apply str_eqb_refl.
Qed.

(* ... with a range: the text is the code cut after some line m that reaches the range end *)
Theorem highlight_keeps_chars_ranged code a e :
  clean code = true ->
  exists t m, highlight lex fixed_facts true code (Some (a, e)) = Ok t /\ e <= Z.of_nat m /\
              remove_suffix_nl t = remove_suffix_nl (take_lines code m).
Proof.
  intros Hc. destruct (highlight_text lex true code (Some (a, e)) HLex Hc) as [t [Ht Hs]].
  destruct Hs as [Hs|[a' [e' [m [Hr [Hm [Hem Hs]]]]]]].
  - exists t, (S (nls code) + Z.to_nat e)%nat. split; [exact Ht|]. split; [lia|].
    rewrite Hs, take_lines_all by lia. reflexivity.
  - inversion Hr; subst. exists t, m. repeat split; assumption.
Qed.

(* One traceback frame (the Syntax call of Traceback._render_stack, keyword values regenerated from
   /repo), with or without indent guides, wrapped or not. *)
Theorem traceback_frame_ok found code lineno extra ww transparent guides W :
  clean code = true -> 0 <= extra -> 1 <= lineno ->
  SyntaxFacts.tb_line_numbers = true -> SyntaxFacts.tb_range_is_lineno_pm_extra = true ->
  SyntaxFacts.tb_highlight_is_lineno = true -> 2 <= SyntaxFacts.tb_code_width ->
  0 <= SyntaxFacts.syntax_default_start_line -> 1 <= SyntaxFacts.syntax_default_tab_size ->
  let o := tb_opts_f found lineno extra ww transparent guides in
  exists out, render_frame_f lex fixed_facts wrapf found code lineno extra ww transparent guides W = Ok out /\
              render_ok_b o code W out = true /\
              o_highlight o = [lineno] /\ o_range o = Some (lineno - extra, lineno + extra).
Proof.
  intros Hc He Hl F1 F2 F3 F4 F5 F6 o. unfold render_frame_f. fold o.
  assert (Ho : o_highlight o = [lineno] /\ o_range o = Some (lineno - extra, lineno + extra)).
  { unfold o, tb_opts_f. cbn [o_highlight o_range]. rewrite F2, F3. split; reflexivity. }
  assert (A1 : o_line_numbers o = true) by exact F1.
  assert (A2 : opts_ok o (code_width_of o code W)).
  { unfold opts_ok. split; [exact F5|]. split; [unfold range_end_nonneg; destruct Ho as [_ Hr]; rewrite Hr; lia|].
    assert (Hcw : code_width_of o code W = SyntaxFacts.tb_code_width) by reflexivity.
    rewrite Hcw. split; [lia|]. split; [intros _; exact F4|intros _; exact F6]. }
  destruct (render_numbered_spec o code W Hc A1 A2) as [out [H1 H2]].
  exists out. repeat split; try assumption; apply Ho.
Qed.
End Main.

(* ------------------------------------------------------------------ refutations (rich 9.10.0 as found) *)
(* a lexer that meets LexOk for the as-found options: one token carrying the normalised text *)
Definition one_token_lexer (lo : lexopts) : str -> list (Z * str) := fun c => [(0, lex_norm lo c)].
Lemma one_token_lexer_ok lo : LexOk lo (one_token_lexer lo).
Proof. intros c. unfold one_token_lexer. cbn [map snd concat]. apply app_nil_r. Qed.

Definition numbered_opts (range : option (Z * Z)) : opts :=
  mkOpts true true 1 range [] false None 4 false false.

(* D7: "\n\nx = 1\n" with line numbers shows `x = 1` as line 1 *)
Definition d7_code : str := [10; 10; 120; 32; 61; 32; 49; 10].
Theorem syntax_lines_asis_refuted :
  exists out, render (one_token_lexer (f_lex asis_facts)) asis_facts wrap_fit (numbered_opts None) d7_code 20 = Ok out /\
              lines_match_b (numbered_opts None) d7_code 20 out = false /\
              out = [lit "  1 x = 1           "].
Proof. eexists. split; [vm_compute; reflexivity|]. split; vm_compute; reflexivity. Qed.

(* the same input under the repaired facts passes, so the hypotheses of the theorems are satisfiable *)
Example syntax_lines_fixed_d7 :
  exists out, render (one_token_lexer (f_lex fixed_facts)) fixed_facts wrap_fit (numbered_opts None) d7_code 20 = Ok out /\
              render_ok_b (numbered_opts None) d7_code 20 out = true /\ length out = 3%nat.
Proof. eexists. split; [vm_compute; reflexivity|]. split; vm_compute; reflexivity. Qed.

(* a line_range beyond the code raises (RuntimeError: generator raised StopIteration) instead of
   selecting nothing *)
Definition short_code : str := [120; 32; 61; 32; 49; 10].
Theorem range_beyond_asis_refuted :
  render (one_token_lexer (f_lex asis_facts)) asis_facts wrap_fit (numbered_opts (Some (5, 6))) short_code 20 = Crash K_Other.
Proof. vm_compute. reflexivity. Qed.
Example range_beyond_fixed :
  render (one_token_lexer (f_lex fixed_facts)) fixed_facts wrap_fit (numbered_opts (Some (5, 6))) short_code 20 = Ok [].
Proof. vm_compute. reflexivity. Qed.

(* indent guides on an empty selection print one numbered line that is not a line of the source *)
Definition guides_opts : opts := mkOpts false true 1 (Some (4, 8)) [] false None 4 false true.
Theorem guides_empty_range_asis_refuted :
  exists out, render (one_token_lexer (f_lex asis_facts)) asis_facts wrap_fit guides_opts [] 20 = Ok out /\
              range_ok_b guides_opts [] 20 out = false.
Proof. eexists. split; [vm_compute; reflexivity|]. vm_compute. reflexivity. Qed.
Example guides_empty_range_fixed :
  render (one_token_lexer (f_lex fixed_facts)) fixed_facts wrap_fit guides_opts [] 20 = Ok [].
Proof. vm_compute. reflexivity. Qed.

(* a traceback frame of a file with leading blank lines: as found the pointer is on the wrong text *)
Definition tb_code : str :=   (* "\n\n\nraise X\nz = 3\n" *)
  [10; 10; 10; 114; 97; 105; 115; 101; 32; 88; 10; 122; 32; 61; 32; 51; 10].
Theorem traceback_asis_refuted :
  exists out, render_frame (one_token_lexer (f_lex asis_facts)) asis_facts wrap_fit tb_code 4 3 false true false 100 = Ok out /\
              failing_line_b tb_code 4 96 false out = false.
Proof. eexists. split; [vm_compute; reflexivity|]. vm_compute. reflexivity. Qed.
Example traceback_fixed :
  exists out, render_frame (one_token_lexer (f_lex fixed_facts)) fixed_facts wrap_fit tb_code 4 3 false true false 100 = Ok out /\
              failing_line_b tb_code 4 96 false out = true.
Proof. eexists. split; [vm_compute; reflexivity|]. vm_compute. reflexivity. Qed.

(* ... and with extra_lines=0 the rendering of the traceback itself raises *)
Theorem traceback_asis_crashes :
  render_frame (one_token_lexer (f_lex asis_facts)) asis_facts wrap_fit tb_code 4 0 false true false 100 = Crash K_Other.
Proof. vm_compute. reflexivity. Qed.
