(* C12: any interleaving of critical sections is a sequential history.  For ANY decomposition of the
   operations into micro-steps, any number of threads and any schedule, the shared state at every
   quiescent point is the sequential run of the operations in lock-acquisition order; so every
   sequential theorem of ProgressP holds at every quiescent point of every interleaving. *)
From RichModel Require Import Prelude Progress SpecProgress.
From RichGen Require Import ProgressLock.
From RichProofs Require Import ProgressP.
From Coq Require Import QArith Lqa Lia.
Open Scope Z_scope.

Lemma ser_nth_set_eq {A} (l : list A) : forall i x y, nth_error l i = Some y -> nth_error (Ser.set_nth i x l) i = Some x.
Proof. induction l; intros [|i] x y H; simpl in *; try discriminate; auto. eapply IHl; eauto. Qed.
Lemma ser_nth_set_neq {A} (l : list A) : forall i j x, i <> j -> nth_error (Ser.set_nth i x l) j = nth_error l j.
Proof. induction l; intros [|i] [|j] x H; simpl; auto; try congruence. Qed.

Section S.
Variables Sh Lo Op Ms : Type.
Variable mexec : Ms -> Sh * Lo -> Sh * Lo.
Variable body : Op -> list Ms.
Variable lo0 : Op -> Lo.
Variable s0 : Sh.

Notation step := (Ser.step mexec body lo0).
Notation run := (Ser.run mexec body lo0).
Notation run_body := (Ser.run_body mexec).
Notation seq_run := (Ser.seq_run mexec body lo0).
Notation run_op := (Ser.run_op mexec body lo0).
Notation init := (@Ser.init Sh Lo Op Ms).

Definition hist_ops (s : Ser.st Sh Lo Op Ms) : list Op := map snd (Ser.hist s).

Definition ser_inv (s : Ser.st Sh Lo Op Ms) : Prop :=
  match Ser.lock s with
  | None => (forall j th, nth_error (Ser.ths s) j = Some th -> Ser.cur th = None) /\
            Ser.sh s = seq_run (hist_ops s) s0
  | Some i => exists th lo rest,
      nth_error (Ser.ths s) i = Some th /\ Ser.cur th = Some (lo, rest) /\
      fst (run_body rest (Ser.sh s, lo)) = seq_run (hist_ops s) s0 /\
      (forall j th', j <> i -> nth_error (Ser.ths s) j = Some th' -> Ser.cur th' = None)
  end.

Lemma seq_run_snoc os o s : seq_run (os ++ [o]) s = run_op o (seq_run os s).
Proof. unfold Ser.seq_run. rewrite fold_left_app. reflexivity. Qed.

Lemma ser_inv_step s i : ser_inv s -> ser_inv (step s i).
Proof.
  intros I. unfold Ser.step. destruct (nth_error (Ser.ths s) i) as [th|] eqn:Hi; [|exact I].
  destruct (Ser.cur th) as [[lo ms]|] eqn:Hc.
  - (* inside its critical section: it must be the lock holder *)
    unfold ser_inv in I. destruct (Ser.lock s) as [k|] eqn:Hl.
    + destruct I as (thk & lok & restk & Hk & Hck & Hrun & Hoth).
      assert (k = i). { destruct (Nat.eq_dec k i); auto. exfalso. specialize (Hoth i th (not_eq_sym n) Hi). congruence. }
      subst k. rewrite Hi in Hk. injection Hk as <-. rewrite Hc in Hck. injection Hck as <- <-.
      destruct ms as [|m rest].
      * (* release *) unfold ser_inv. simpl. split.
        -- intros j thj Hj. destruct (Nat.eq_dec i j) as [<-|Hne].
           ++ rewrite (ser_nth_set_eq _ i _ th Hi) in Hj. injection Hj as <-. reflexivity.
           ++ rewrite (ser_nth_set_neq _ i j _ Hne) in Hj. eapply Hoth; eauto.
        -- simpl in Hrun. exact Hrun.
      * destruct (mexec m (Ser.sh s, lo)) as [sh' lo'] eqn:Em. unfold ser_inv. simpl.
        exists (Ser.mkThr (Some (lo', rest)) (Ser.todo th)), lo', rest. splits.
        -- eapply ser_nth_set_eq; eauto.
        -- reflexivity.
        -- simpl in Hrun. rewrite Em in Hrun. exact Hrun.
        -- intros j thj Hne Hj. rewrite (ser_nth_set_neq _ i j _ (not_eq_sym Hne)) in Hj. eapply Hoth; eauto.
    + destruct I as [Hnone _]. specialize (Hnone i th Hi). congruence.
  - destruct (Ser.todo th) as [|o r] eqn:Ht; [exact I|].
    destruct (Ser.lock s) as [k|] eqn:Hl; [exact I|].
    unfold ser_inv in I. rewrite Hl in I. destruct I as [Hnone Hsh].
    unfold ser_inv. simpl.
    exists (Ser.mkThr (Some (lo0 o, body o)) r), (lo0 o), (body o). splits.
    + eapply ser_nth_set_eq; eauto.
    + reflexivity.
    + unfold hist_ops. simpl. rewrite map_app. simpl. rewrite seq_run_snoc. unfold Ser.run_op.
      rewrite Hsh. reflexivity.
    + intros j thj Hne Hj. rewrite (ser_nth_set_neq _ i j _ (not_eq_sym Hne)) in Hj. eapply Hnone; eauto.
Qed.

Lemma ser_inv_run sched : forall s, ser_inv s -> ser_inv (run s sched).
Proof. induction sched; intros s I; simpl; auto. apply IHsched. apply ser_inv_step. exact I. Qed.

Lemma ser_inv_init progs : ser_inv (init s0 progs).
Proof.
  unfold ser_inv, Ser.init. simpl. split; [|reflexivity].
  intros j th Hj. apply nth_error_In in Hj. apply in_map_iff in Hj as (p & <- & _). reflexivity.
Qed.

(* every operation in the history comes from some thread's program *)
Lemma hist_step (P : Op -> Prop) s i :
  Forall P (hist_ops s) -> Forall (fun th => Forall P (Ser.todo th)) (Ser.ths s) ->
  Forall P (hist_ops (step s i)) /\ Forall (fun th => Forall P (Ser.todo th)) (Ser.ths (step s i)).
Proof.
  assert (Hset : forall (Q : Ser.thr Lo Op Ms -> Prop) l k x, Forall Q l -> Q x -> Forall Q (Ser.set_nth k x l)).
  { intros Q l. induction l; intros [|k] x Hl Hx; simpl; auto; inversion Hl; subst; constructor; auto. }
  intros Hh Ht. unfold Ser.step. destruct (nth_error (Ser.ths s) i) as [th|] eqn:Hi; [|auto].
  assert (Hth : Forall P (Ser.todo th)).
  { rewrite Forall_forall in Ht. apply Ht. eapply nth_error_In; eauto. }
  destruct (Ser.cur th) as [[lo ms]|].
  - destruct ms as [|m rest].
    + simpl. split; auto.
    + destruct (mexec m (Ser.sh s, lo)) as [sh' lo']. simpl. split; auto.
  - destruct (Ser.todo th) as [|o r] eqn:Et; [auto|].
    destruct (Ser.lock s); [auto|]. simpl. split.
    + unfold hist_ops. simpl. rewrite map_app. apply Forall_app. split; auto. simpl.
      constructor; auto. exact (Forall_inv Hth).
    + apply Hset; auto. simpl. exact (Forall_inv_tail Hth).
Qed.

Lemma hist_from_progs (P : Op -> Prop) sched : forall s,
  Forall P (hist_ops s) -> Forall (fun th => Forall P (Ser.todo th)) (Ser.ths s) ->
  Forall P (hist_ops (run s sched)).
Proof.
  induction sched as [|i sched IH]; intros s Hh Ht; simpl; auto.
  destruct (hist_step P s i Hh Ht) as [A B]. apply IH; auto.
Qed.

(* THE serialisation theorem *)
Theorem quiescent_is_sequential progs sched :
  let s := run (init s0 progs) sched in
  Ser.lock s = None -> Ser.sh s = seq_run (hist_ops s) s0.
Proof.
  intros s Hq. pose proof (ser_inv_run sched _ (ser_inv_init progs)) as I. fold s in I.
  unfold ser_inv in I. rewrite Hq in I. exact (proj2 I).
Qed.

Theorem hist_ops_from_programs (P : Op -> Prop) progs sched :
  Forall (Forall P) progs -> Forall P (hist_ops (run (init s0 progs) sched)).
Proof.
  intros H. apply hist_from_progs; simpl; [constructor|].
  induction H; simpl; constructor; auto.
Qed.
End S.

(* ------------------------------------------------------------------ instance: Progress operations *)
(* shared state = the Progress object and a tick clock; every operation reads the clock inside its
   critical section (two ticks: t1, t2) *)
Definition psh : Type := (progress * Z)%type.
Definition seq_op (o : op) (x : psh) : psh :=
  (step_total (fst x) o (qZ (snd x)) (qZ (snd x + 1)), snd x + 2).
Fixpoint tick_hist (c : Z) (os : list op) : list hop :=
  match os with [] => [] | o :: r => (o, qZ c, qZ (c + 1)) :: tick_hist (c + 2) r end.

Lemma seq_ops_run os : forall p c,
  fold_left (fun x o => seq_op o x) os (p, c) = (Progress.run p (tick_hist c os), c + 2 * zlen os).
Proof.
  induction os as [|o os IH]; intros p c; simpl.
  - f_equal. unfold zlen. simpl. lia.
  - unfold seq_op at 2. simpl. rewrite IH. f_equal. unfold zlen. simpl length. lia.
Qed.
Lemma tick_mono os : forall c t0, (t0 <= qZ c)%Q -> mono_hist t0 (tick_hist c os).
Proof.
  induction os as [|o os IH]; intros c t0 H; simpl; auto. splits; auto.
  - unfold qZ. rewrite <- Zle_Qle. lia.
  - apply IH. unfold qZ. rewrite <- Zle_Qle. lia.
Qed.
Lemma tick_ops os : forall c, ops_of (tick_hist c os) = os.
Proof. induction os; intros c; simpl; auto. unfold ops_of in *. simpl. rewrite IHos. reflexivity. Qed.
Lemma tick_nonneg os : forall c, Forall (fun o => nonneg_op o = true) os -> nonneg_hist (tick_hist c os) = true.
Proof.
  induction os; intros c H; simpl; auto. inversion H; subst. unfold nonneg_hist in *. simpl.
  rewrite H2. simpl. apply IHos. exact H3.
Qed.
Lemma tick_quiet id os : forall c, Forall (fun o => resets o id = false /\ not_removing o id) os -> quiet id (tick_hist c os).
Proof. induction os; intros c H; simpl; auto. inversion H; subst. destruct H2. splits; auto. Qed.

Section Inst.
Variables Lo Ms : Type.
Variable mexec : Ms -> psh * Lo -> psh * Lo.
Variable body : op -> list Ms.
Variable lo0 : op -> Lo.
(* the decomposition is a decomposition of the sequential operation -- nothing else is assumed of it *)
Hypothesis body_ok : forall o x, Ser.run_op mexec body lo0 o x = seq_op o x.

Notation run := (Ser.run mexec body lo0).
Notation init := (@Ser.init psh Lo op Ms).

Lemma seq_run_is os : forall x, Ser.seq_run mexec body lo0 os x = fold_left (fun x o => seq_op o x) os x.
Proof. induction os; intros x; simpl; auto. rewrite body_ok. apply IHos. Qed.

(* at every quiescent point of every interleaving, the Progress object is what the sequential model
   computes for the operations in lock-acquisition order with a strictly increasing clock *)
Theorem concurrent_is_sequential per progs sched :
  let s := run (init (empty_progress per, 0) progs) sched in
  Ser.lock s = None ->
  exists os, (forall P : op -> Prop, Forall (Forall P) progs -> Forall P os) /\
             fst (Ser.sh s) = Progress.run (empty_progress per) (tick_hist 0 os) /\
             mono_hist 0 (tick_hist 0 os).
Proof.
  intros s Hq. exists (hist_ops psh Lo op Ms s). splits.
  - intros P HP. apply hist_ops_from_programs. exact HP.
  - pose proof (quiescent_is_sequential psh Lo op Ms mexec body lo0 (empty_progress per, 0) progs sched Hq) as H.
    fold s in H. rewrite H, seq_run_is, seq_ops_run. reflexivity.
  - apply tick_mono. apply Qle_refl.
Qed.

(* the sequential theorems, at every quiescent point of every interleaving *)
Theorem concurrent_completed_accounting per progs sched :
  let s := run (init (empty_progress per, 0) progs) sched in
  Ser.lock s = None ->
  exists os, (forall P : op -> Prop, Forall (Forall P) progs -> Forall P os) /\
  Forall2 (fun t r => t_id t = r_id r /\ completed_ok_b (r_base r) (r_advs r) (t_completed t) = true)
          (p_tasks (fst (Ser.sh s))) (c_refs (fold_left ref_step os (mkC [] 0%Z true))).
Proof.
  intros s Hq. destruct (concurrent_is_sequential per progs sched Hq) as (os & HP & Hrun & _).
  exists os. split; auto. fold s in Hrun. rewrite Hrun.
  pose proof (completed_is_set_plus_advances per (tick_hist 0 os)) as H. rewrite tick_ops in H. exact H.
Qed.

Theorem concurrent_speed_nonneg per progs sched :
  Forall (Forall (fun o => nonneg_op o = true)) progs ->
  let s := run (init (empty_progress per, 0) progs) sched in
  Ser.lock s = None ->
  Forall (fun t => speed_ok_b (speed t) = true) (p_tasks (fst (Ser.sh s))).
Proof.
  intros Hnn s Hq. destruct (concurrent_is_sequential per progs sched Hq) as (os & HP & Hrun & Hm).
  fold s in Hrun. rewrite Hrun. apply speed_nonneg with (t0 := 0%Q); auto.
  apply tick_nonneg. apply HP. exact Hnn.
Qed.

Theorem concurrent_percentage per progs sched :
  let s := run (init (empty_progress per, 0) progs) sched in
  Forall (fun t => pct_ok_b 0 (t_completed t) (t_total t) (percentage t) = true) (p_tasks (fst (Ser.sh s))).
Proof. intros s. apply Forall_forall. intros t _. apply percentage_clamped. Qed.

Lemma tick_hist_app os1 : forall c os2,
  tick_hist c (os1 ++ os2) = tick_hist c os1 ++ tick_hist (c + 2 * zlen os1) os2.
Proof.
  induction os1 as [|o os1 IH]; intros c os2; simpl.
  - f_equal. unfold zlen. simpl. lia.
  - rewrite IH. replace (c + 2 + 2 * zlen os1) with (c + 2 * zlen (o :: os1)) by (unfold zlen; simpl length; lia).
    reflexivity.
Qed.

(* right after the critical section of an advance / update of task id (the last lock acquisition),
   at a quiescent point: finished is reported and the time-remaining estimate is not negative *)
Theorem concurrent_after_advance per progs sched os' o id t' :
  Forall (Forall (fun o => nonneg_op o = true)) progs ->
  let s := run (init (empty_progress per, 0) progs) sched in
  Ser.lock s = None -> map snd (Ser.hist s) = os' ++ [o] -> advances o id = true ->
  find_task id (p_tasks (fst (Ser.sh s))) = Some t' ->
  finish_ok_b (started t') (t_completed t') (t_total t') (finished t') = true /\
  (started t' = true -> tr_ok_b (time_remaining t') = true).
Proof.
  intros Hnn s Hq Hh Ha Hf.
  pose proof (quiescent_is_sequential psh Lo op Ms mexec body lo0 (empty_progress per, 0) progs sched Hq) as H.
  fold s in H. unfold hist_ops in H. rewrite Hh, seq_run_is, seq_ops_run in H. rewrite H in Hf. cbn [fst] in Hf.
  set (c := 0 + 2 * zlen os') in *.
  assert (E : tick_hist 0 (os' ++ [o]) = tick_hist 0 os' ++ [(o, qZ c, qZ (c + 1))])
    by (rewrite tick_hist_app; reflexivity).
  rewrite E in Hf.
  assert (Hall : Forall (fun o => nonneg_op o = true) (os' ++ [o])).
  { rewrite <- Hh. apply (hist_ops_from_programs psh Lo op Ms mexec body lo0 (empty_progress per, 0) _ progs sched Hnn). }
  split.
  - unfold Progress.run in Hf. rewrite fold_left_app in Hf. simpl in Hf.
    eapply finish_reported; eauto.
  - intros Hst.
    assert (M : mono_hist 0 (tick_hist 0 os' ++ [(o, qZ c, qZ (c + 1))])).
    { rewrite <- E. apply tick_mono. apply Qle_refl. }
    assert (N : nonneg_hist (tick_hist 0 os' ++ [(o, qZ c, qZ (c + 1))]) = true).
    { rewrite <- E. apply tick_nonneg. exact Hall. }
    exact (time_remaining_nonneg per (tick_hist 0 os') 0%Q o (qZ c) (qZ (c + 1)) id t' M N Ha Hf Hst).
Qed.

(* the history only grows *)
Lemma hist_extends sched : forall s, exists ext, Ser.hist (run s sched) = Ser.hist s ++ ext.
Proof.
  induction sched as [|i sched IH]; intros s; simpl.
  - exists []. rewrite app_nil_r. reflexivity.
  - destruct (IH (Ser.step mexec body lo0 s i)) as [ext He]. rewrite He.
    assert (H1 : exists e1, Ser.hist (Ser.step mexec body lo0 s i) = Ser.hist s ++ e1).
    { unfold Ser.step. destruct (nth_error (Ser.ths s) i) as [th|]; [|exists []; rewrite app_nil_r; reflexivity].
      destruct (Ser.cur th) as [[lo [|m rest]]|].
      - exists []. simpl. rewrite app_nil_r. reflexivity.
      - destruct (mexec m (Ser.sh s, lo)). exists []. simpl. rewrite app_nil_r. reflexivity.
      - destruct (Ser.todo th); [exists []; rewrite app_nil_r; reflexivity|].
        destruct (Ser.lock s); [exists []; rewrite app_nil_r; reflexivity|]. eexists. simpl. reflexivity. }
    destruct H1 as [e1 ->]. exists (e1 ++ ext). rewrite app_assoc. reflexivity.
Qed.

(* finish time latched between any two quiescent points, whatever the other threads do, as long as
   no program changes the task's total, resets it or removes it *)
Theorem concurrent_finish_latched per progs sched1 sched2 id t f :
  Forall (Forall (fun o => resets o id = false /\ not_removing o id)) progs ->
  let s1 := run (init (empty_progress per, 0) progs) sched1 in
  let s2 := run s1 sched2 in
  Ser.lock s1 = None -> Ser.lock s2 = None ->
  find_task id (p_tasks (fst (Ser.sh s1))) = Some t -> t_fin t = Some f ->
  exists t', find_task id (p_tasks (fst (Ser.sh s2))) = Some t' /\ t_fin t' = Some f.
Proof.
  intros Hq s1 s2 Hl1 Hl2 Hfind Hfin.
  assert (Hs2 : s2 = run (init (empty_progress per, 0) progs) (sched1 ++ sched2)).
  { unfold s2, s1, Ser.run. rewrite fold_left_app. reflexivity. }
  pose proof (quiescent_is_sequential psh Lo op Ms mexec body lo0 (empty_progress per, 0) progs sched1 Hl1) as H1.
  fold s1 in H1.
  assert (Hl2' : Ser.lock (run (init (empty_progress per, 0) progs) (sched1 ++ sched2)) = None) by (rewrite <- Hs2; exact Hl2).
  pose proof (quiescent_is_sequential psh Lo op Ms mexec body lo0 (empty_progress per, 0) progs (sched1 ++ sched2) Hl2') as H2.
  rewrite <- Hs2 in H2.
  destruct (hist_extends sched2 s1) as [ext Hext]. fold s2 in Hext.
  unfold hist_ops in H1, H2. rewrite Hext, map_app in H2. rewrite seq_run_is in H1, H2.
  rewrite fold_left_app, <- H1 in H2. destruct (Ser.sh s1) as [p1 c1] eqn:E1. rewrite seq_ops_run in H2.
  rewrite H2. simpl. simpl in Hfind.
  apply finished_latches with (t := t); auto. apply tick_quiet.
  pose proof (hist_ops_from_programs psh Lo op Ms mexec body lo0 (empty_progress per, 0) _ progs (sched1 ++ sched2) Hq) as Hall.
  rewrite <- Hs2 in Hall. unfold hist_ops in Hall. rewrite Hext, map_app in Hall. apply Forall_app in Hall. tauto.
Qed.
End Inst.

(* the assumption behind this section, checked on the event lists regenerated from rich/progress.py:
   every mutator is one critical section containing all its shared accesses and clock reads *)
Lemma mutators_single_cs :
  forallb SerFacts.single_cs_b [advance_events; update_events; reset_events; start_task_events; stop_task_events] = true
  /\ forallb (fun l => Nat.eqb (SerFacts.count_acq l) 1 && Conc.guarded l) [remove_task_events; add_task_events] = true.
Proof. vm_compute. split; reflexivity. Qed.

(* non-vacuity: a decomposition exists (the trivial one-step one), and a two-thread run *)
Example ser_nonvacuous :
  let mexec := fun (o : op) (x : psh * unit) => (seq_op o (fst x), tt) in
  let s := Ser.run mexec (fun o => [o]) (fun _ => tt)
             (@Ser.init psh unit op op (empty_progress 30, 0) [[AddTask true 10 0 true; Advance 0 3]; [Advance 0 4]])
             [0; 0; 0; 1; 1; 1; 0; 0; 0]%nat in
  Ser.lock s = None /\ map t_completed (p_tasks (fst (Ser.sh s))) = [0 + 4 + 3]%Q.
Proof. vm_compute. split; reflexivity. Qed.
