(* C12: any interleaving of critical sections is a sequential history.  For ANY decomposition of the
   operations into micro-steps, any number of threads and any schedule, the shared state at every
   quiescent point is the sequential run of the operations in lock-acquisition order; so every
   sequential theorem of ProgressP holds at every quiescent point of every interleaving. *)
From RichModel Require Import Prelude Progress SpecProgress.
From RichGen Require Import ProgressLock.
From RichProofs Require Import ProgressP.
From Coq Require Import QArith Lqa Lia.
Open Scope Z_scope.

Lemma ser_nth_set_eq {A} (l : list A) : forall i x y, nth_error l i = Some y -> nth_error (Ser.set_nth i x l) i = Some x.
Proof. induction l; intros [|i] x y H; simpl in *; try discriminate; auto. eapply IHl; eauto. Qed.
Lemma ser_nth_set_neq {A} (l : list A) : forall i j x, i <> j -> nth_error (Ser.set_nth i x l) j = nth_error l j.
Proof. induction l; intros [|i] [|j] x H; simpl; auto; try congruence. Qed.

Section S.
Variables Sh Lo Op Ms : Type.
Variable mexec : Ms -> Sh * Lo -> Sh * Lo.
Variable body : Op -> list Ms.
Variable lo0 : Op -> Lo.
Variable s0 : Sh.

Notation step := (Ser.step mexec body lo0).
Notation run := (Ser.run mexec body lo0).
Notation run_body := (Ser.run_body mexec).
Notation seq_run := (Ser.seq_run mexec body lo0).
Notation run_op := (Ser.run_op mexec body lo0).
Notation init := (@Ser.init Sh Lo Op Ms).

Definition hist_ops (s : Ser.st Sh Lo Op Ms) : list Op := map snd (Ser.hist s).

Definition ser_inv (s : Ser.st Sh Lo Op Ms) : Prop :=
  match Ser.lock s with
  | None => (forall j th, nth_error (Ser.ths s) j = Some th -> Ser.cur th = None) /\
            Ser.sh s = seq_run (hist_ops s) s0
  | Some i => exists th lo rest,
      nth_error (Ser.ths s) i = Some th /\ Ser.cur th = Some (lo, rest) /\
      fst (run_body rest (Ser.sh s, lo)) = seq_run (hist_ops s) s0 /\
      (forall j th', j <> i -> nth_error (Ser.ths s) j = Some th' -> Ser.cur th' = None)
  end.

Lemma seq_run_snoc os o s : seq_run (os ++ [o]) s = run_op o (seq_run os s).
Proof. unfold Ser.seq_run. rewrite fold_left_app. reflexivity. Qed.

Lemma ser_inv_step s i : ser_inv s -> ser_inv (step s i).
Proof.
  intros I. unfold Ser.step. destruct (nth_error (Ser.ths s) i) as [th|] eqn:Hi; [|exact I].
  destruct (Ser.cur th) as [[lo ms]|] eqn:Hc.
  - (* inside its critical section: it must be the lock holder *)
    unfold ser_inv in I. destruct (Ser.lock s) as [k|] eqn:Hl.
    + destruct I as (thk & lok & restk & Hk & Hck & Hrun & Hoth).
      assert (k = i). { destruct (Nat.eq_dec k i); auto. exfalso. specialize (Hoth i th (not_eq_sym n) Hi). congruence. }
      subst k. rewrite Hi in Hk. injection Hk as <-. rewrite Hc in Hck. injection Hck as <- <-.
      destruct ms as [|m rest].
      * (* release *) unfold ser_inv. simpl. split.
        -- intros j thj Hj. destruct (Nat.eq_dec i j) as [<-|Hne].
           ++ rewrite (ser_nth_set_eq _ i _ th Hi) in Hj. injection Hj as <-. reflexivity.
           ++ rewrite (ser_nth_set_neq _ i j _ Hne) in Hj. eapply Hoth; eauto.
        -- simpl in Hrun. exact Hrun.
      * destruct (mexec m (Ser.sh s, lo)) as [sh' lo'] eqn:Em. unfold ser_inv. simpl.
        exists (Ser.mkThr (Some (lo', rest)) (Ser.todo th)), lo', rest. splits.
        -- eapply ser_nth_set_eq; eauto.
        -- reflexivity.
        -- simpl in Hrun. rewrite Em in Hrun. exact Hrun.
        -- intros j thj Hne Hj. rewrite (ser_nth_set_neq _ i j _ (not_eq_sym Hne)) in Hj. eapply Hoth; eauto.
    + destruct I as [Hnone _]. specialize (Hnone i th Hi). congruence.
  - destruct (Ser.todo th) as [|o r] eqn:Ht; [exact I|].
    destruct (Ser.lock s) as [k|] eqn:Hl; [exact I|].
    unfold ser_inv in I. rewrite Hl in I. destruct I as [Hnone Hsh].
    unfold ser_inv. simpl.
    exists (Ser.mkThr (Some (lo0 o, body o)) r), (lo0 o), (body o). splits.
    + eapply ser_nth_set_eq; eauto.
    + reflexivity.
    + unfold hist_ops. simpl. rewrite map_app. simpl. rewrite seq_run_snoc. unfold Ser.run_op.
      rewrite Hsh. reflexivity.
    + intros j thj Hne Hj. rewrite (ser_nth_set_neq _ i j _ (not_eq_sym Hne)) in Hj. eapply Hnone; eauto.
Qed.

Lemma ser_inv_run sched : forall s, ser_inv s -> ser_inv (run s sched).
Proof. induction sched; intros s I; simpl; auto. apply IHsched. apply ser_inv_step. exact I. Qed.

Lemma ser_inv_init progs : ser_inv (init s0 progs).
Proof.
  unfold ser_inv, Ser.init. simpl. split; [|reflexivity].
  intros j th Hj. apply nth_error_In in Hj. apply in_map_iff in Hj as (p & <- & _). reflexivity.
Qed.

(* every operation in the history comes from some thread's program *)
Lemma hist_step (P : Op -> Prop) s i :
  Forall P (hist_ops s) -> Forall (fun th => Forall P (Ser.todo th)) (Ser.ths s) ->
  Forall P (hist_ops (step s i)) /\ Forall (fun th => Forall P (Ser.todo th)) (Ser.ths (step s i)).
Proof.
  assert (Hset : forall (Q : Ser.thr Lo Op Ms -> Prop) l k x, Forall Q l -> Q x -> Forall Q (Ser.set_nth k x l)).
  { intros Q l. induction l; intros [|k] x Hl Hx; simpl; auto; inversion Hl; subst; constructor; auto. }
  intros Hh Ht. unfold Ser.step. destruct (nth_error (Ser.ths s) i) as [th|] eqn:Hi; [|auto].
  assert (Hth : Forall P (Ser.todo th)).
  { rewrite Forall_forall in Ht. apply Ht. eapply nth_error_In; eauto. }
  destruct (Ser.cur th) as [[lo ms]|].
  - destruct ms as [|m rest].
    + simpl. split; auto.
    + destruct (mexec m (Ser.sh s, lo)) as [sh' lo']. simpl. split; auto.
  - destruct (Ser.todo th) as [|o r] eqn:Et; [auto|].
    destruct (Ser.lock s); [auto|]. simpl. split.
    + unfold hist_ops. simpl. rewrite map_app. apply Forall_app. split; auto. simpl.
      constructor; auto. exact (Forall_inv Hth).
    + apply Hset; auto. simpl. exact (Forall_inv_tail Hth).
Qed.

Lemma hist_from_progs (P : Op -> Prop) sched : forall s,
  Forall P (hist_ops s) -> Forall (fun th => Forall P (Ser.todo th)) (Ser.ths s) ->
  Forall P (hist_ops (run s sched)).
Proof.
  induction sched as [|i sched IH]; intros s Hh Ht; simpl; auto.
  destruct (hist_step P s i Hh Ht) as [A B]. apply IH; auto.
Qed.

(* THE serialisation theorem *)
Theorem quiescent_is_sequential progs sched :
  let s := run (init s0 progs) sched in
  Ser.lock s = None -> Ser.sh s = seq_run (hist_ops s) s0.
Proof.
  intros s Hq. pose proof (ser_inv_run sched _ (ser_inv_init progs)) as I. fold s in I.
  unfold ser_inv in I. rewrite Hq in I. exact (proj2 I).
Qed.

Theorem hist_ops_from_programs (P : Op -> Prop) progs sched :
  Forall (Forall P) progs -> Forall P (hist_ops (run (init s0 progs) sched)).
Proof.
  intros H. apply hist_from_progs; simpl; [constructor|].
  induction H; simpl; constructor; auto.
Qed.
End S.
