(* C12 with float amounts: what "completed = last set value + sum of advances since" means when every
   += rounds.  No rounding operator is fixed: the theorem is about ANY sequence of observed values
   in which each += lands within relative error u of the exact sum of its inputs (true of IEEE
   round-to-nearest with u = 2^-53 barring overflow/underflow) and each set is exact. *)
From RichModel Require Import Prelude Progress SpecProgress.
From Coq Require Import QArith Qabs Lqa.
Open Scope Q_scope.

Lemma float_accounting_gen u : 0 <= u -> forall l prev c E,
  Qabs (prev - c) <= E -> chain_ok_b u prev l = true ->
  Qabs (chain_last prev l - chain_exact c l) <= E + adds_bound u prev l.
Proof.
  intros Hu. induction l as [|[[v|a] next] l IH]; intros prev c E HE Hok; cbn [chain_ok_b chain_last chain_exact adds_bound fwr_ok_b] in *.
  - lra.
  - apply andb_true_iff in Hok as [H1 H2]. apply Qeq_bool_iff in H1.
    assert (H0 : Qabs (next - v) <= E).
    { assert (Z0 : next - v == 0) by (rewrite H1; ring). rewrite Z0. change (Qabs 0) with 0.
      pose proof (Qabs_nonneg (prev - c)). lra. }
    exact (IH next v E H0 H2).
  - apply andb_true_iff in Hok as [H1 H2]. unfold rounded_sum_b in H1. apply Qle_bool_iff in H1.
    assert (H0 : Qabs (next - (c + a)) <= E + u * Qabs (prev + a)).
    { assert (Es : next - (c + a) == (next - (prev + a)) + (prev - c)) by ring.
      rewrite Es. eapply Qle_trans; [apply Qabs_triangle|]. lra. }
    pose proof (IH next (c + a) (E + u * Qabs (prev + a)) H0 H2). lra.
Qed.

(* from an exactly known value c0 *)
Theorem float_accounting : forall u c0 l, 0 <= u -> chain_ok_b u c0 l = true ->
  Qabs (chain_last c0 l - chain_exact c0 l) <= adds_bound u c0 l.
Proof.
  intros u c0 l Hu Hok.
  assert (H0 : Qabs (c0 - c0) <= 0). { assert (Z0 : c0 - c0 == 0) by ring. rewrite Z0. change (Qabs 0) with 0. lra. }
  pose proof (float_accounting_gen u Hu l c0 c0 0 H0 Hok). lra.
Qed.

(* with u = 0 (exact arithmetic: ints, Fractions) the identity is exact *)
Corollary exact_accounting : forall c0 l, chain_ok_b 0 c0 l = true -> chain_last c0 l == chain_exact c0 l.
Proof.
  intros c0 l Hok. pose proof (float_accounting 0 c0 l (Qle_refl 0) Hok) as H.
  assert (Hb : forall l p, adds_bound 0 p l == 0).
  { induction l0 as [|[[v|a] n] l0 IH]; intros p; simpl; [reflexivity|apply IH|rewrite IH; ring]. }
  rewrite Hb in H. apply Qabs_Qle_condition in H. lra.
Qed.

(* the exact identity is FALSE of IEEE doubles: absorption.  1e16 + 1.0 rounds back to 1e16 (tie to
   even), twice: the chain satisfies the rounding condition, the count is 2 short. *)
Theorem float_exact_accounting_refuted : exists c0 l,
  chain_ok_b u_binary64 c0 l = true /\ ~ chain_last c0 l == chain_exact c0 l.
Proof.
  exists (10000000000000000 # 1), [(FAdd 1, 10000000000000000 # 1); (FAdd 1, 10000000000000000 # 1)].
  split; [vm_compute; reflexivity|]. vm_compute. discriminate.
Qed.
