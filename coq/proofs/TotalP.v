(* C14: totality of the string entry points (Color.parse, Style.parse, Style.normalize, get_style,
   Text(...)); markup / print / Columns / trees are in TotalP2.v ... *)
From RichModel Require Import Prelude Color Style Total SpecTotal.
From RichGen Require Import ColorNames ColorRegex StyleTables.
From RichProofs Require Import ColorP2.
From Coq Require Import ZifyBool.

(* ------------------------------------------------------------------ int() of 1-3 ASCII digits *)
Lemma ascii_digit_not_int_space_tbl : forallb (fun z => negb (is_ascii_digit z)) INT_SPACES = true.
Proof. vm_compute. reflexivity. Qed.

Lemma mem_Z_In c l : mem_Z c l = true -> In c l.
Proof.
  unfold mem_Z. intros H. apply existsb_exists in H as [x [Hin Hx]].
  apply Z.eqb_eq in Hx. subst. exact Hin.
Qed.

Lemma ascii_digit_not_int_space c : is_ascii_digit c = true -> is_int_space c = false.
Proof.
  intros H. destruct (is_int_space c) eqn:E; [|reflexivity].
  apply mem_Z_In in E. assert (R := ascii_digit_not_int_space_tbl).
  rewrite forallb_forall in R. specialize (R _ E). rewrite H in R. discriminate.
Qed.

Lemma drop_while_none (p : Z -> bool) s : forallb (fun c => negb (p c)) s = true -> drop_while p s = s.
Proof.
  destruct s as [|c r]; [reflexivity|]. cbn [forallb drop_while]. intros H.
  apply andb_true_iff in H as [H _]. destruct (p c); [discriminate|reflexivity].
Qed.

Lemma forallb_rev {A} (f : A -> bool) l : forallb f (rev l) = forallb f l.
Proof.
  induction l as [|a l IH]; [reflexivity|]. cbn [rev forallb]. rewrite forallb_app, IH. cbn [forallb].
  rewrite andb_true_r. apply andb_comm.
Qed.

Lemma strip_with_none p s : forallb (fun c => negb (p c)) s = true -> strip_with p s = s.
Proof.
  intros H. unfold strip_with. rewrite (drop_while_none p s H).
  rewrite drop_while_none; [apply rev_involutive|]. rewrite forallb_rev. exact H.
Qed.

Lemma digit_val_ascii_tbl :
  forallb (fun c => match digit_val c with Some _ => true | None => false end)
          [48; 49; 50; 51; 52; 53; 54; 55; 56; 57] = true.
Proof. vm_compute. reflexivity. Qed.

Lemma digit_val_ascii c : is_ascii_digit c = true -> exists d, digit_val c = Some d.
Proof.
  intros H. unfold is_ascii_digit in H.
  assert (Hin : In c [48; 49; 50; 51; 52; 53; 54; 55; 56; 57]).
  { assert (48 <= c <= 57) by lia. cbn [In].
    assert (c = 48 \/ c = 49 \/ c = 50 \/ c = 51 \/ c = 52 \/ c = 53 \/ c = 54 \/ c = 55 \/ c = 56 \/ c = 57) by lia.
    intuition. }
  assert (R := digit_val_ascii_tbl). rewrite forallb_forall in R. specialize (R _ Hin).
  destruct (digit_val c) as [d|]; [exists d; reflexivity|discriminate].
Qed.

Lemma digits_value_ascii s : forallb is_ascii_digit s = true -> forall acc, exists v, digits_value s acc = Some v.
Proof.
  induction s as [|c r IH]; intros H acc; cbn [digits_value].
  - exists acc. reflexivity.
  - cbn [forallb] in H. apply andb_true_iff in H as [Hc Hr].
    destruct (digit_val_ascii c Hc) as [d Hd]. rewrite Hd. apply IH. exact Hr.
Qed.

Lemma int_limit_ge_3 : (0 <? INT_MAX_STR_DIGITS) && (INT_MAX_STR_DIGITS <? 4) = false.
Proof. vm_compute. reflexivity. Qed.

Lemma py_int_ascii_digits g :
  (1 <= length g <= 3)%nat -> forallb is_ascii_digit g = true -> exists n, py_int_digits g = Some n.
Proof.
  intros Hl Hd. unfold py_int_digits.
  rewrite strip_with_none.
  2:{ rewrite forallb_forall in Hd. apply forallb_forall. intros c Hc.
      rewrite (ascii_digit_not_int_space c (Hd c Hc)). reflexivity. }
  destruct g as [|c r]; [cbn in Hl; lia|].
  assert (L : (0 <? INT_MAX_STR_DIGITS) && (INT_MAX_STR_DIGITS <? zlen (c :: r)) = false).
  { assert (R := int_limit_ge_3). unfold zlen. lia. }
  rewrite L. apply digits_value_ascii. exact Hd.
Qed.

(* what the scanner hands to int() in the color(n) form *)
Lemma re_color_num_digits s g :
  re_color_match s = Some (G_num g) -> (1 <= length g <= 3)%nat /\ forallb is_ascii_digit g = true.
Proof.
  unfold re_color_match. generalize (chomp_nl s). intros u. unfold re_color_exact.
  destruct u as [|c u]; [simpl; discriminate|].
  destruct (c =? 35) eqn:E35.
  - assert (c = 35) by lia. subst c.
    destruct ((length u =? 6)%nat && forallb is_hex_lower u); discriminate.
  - assert (Hc : c <> 35) by lia.
    replace (match c with 35 => if (length u =? 6)%nat && forallb is_hex_lower u then Some (G_hex u) else None
                       | _ => match strip_prefix_str (lit "color(") (c :: u) with
                              | Some rest => match split_last rest with
                                             | Some (g, c0) => if (c0 =? 41) && (1 <=? length g)%nat && (length g <=? 3)%nat && forallb is_ascii_digit g then Some (G_num g) else None
                                             | None => None end
                              | None => match strip_prefix_str (lit "rgb(") (c :: u) with
                                        | Some rest => match split_last rest with
                                                       | Some (g, c0) => if (c0 =? 41) && (1 <=? length g)%nat && forallb (fun x => is_uni_digit x || is_uni_space x || (x =? 44)) g then Some (G_rgb g) else None
                                                       | None => None end
                                        | None => None end end end)
      with (match strip_prefix_str (lit "color(") (c :: u) with
            | Some rest => match split_last rest with
                           | Some (g, c0) => if (c0 =? 41) && (1 <=? length g)%nat && (length g <=? 3)%nat && forallb is_ascii_digit g then Some (G_num g) else None
                           | None => None end
            | None => match strip_prefix_str (lit "rgb(") (c :: u) with
                      | Some rest => match split_last rest with
                                     | Some (g, c0) => if (c0 =? 41) && (1 <=? length g)%nat && forallb (fun x => is_uni_digit x || is_uni_space x || (x =? 44)) g then Some (G_rgb g) else None
                                     | None => None end
                      | None => None end end).
    2:{ destruct c as [|p|p]; try reflexivity.
        do 6 (destruct p as [p|p|]; try reflexivity). exfalso. apply Hc. reflexivity. }
    destruct (strip_prefix_str (lit "color(") (c :: u)) as [rest|].
    + destruct (split_last rest) as [[g' c0]|]; [|discriminate].
      destruct ((c0 =? 41) && (1 <=? length g')%nat && (length g' <=? 3)%nat && forallb is_ascii_digit g') eqn:E; [|discriminate].
      intros H. inversion H; subst g'.
      apply andb_true_iff in E as [E E4]. apply andb_true_iff in E as [E E3]. apply andb_true_iff in E as [_ E2].
      apply Nat.leb_le in E2. apply Nat.leb_le in E3. split; [lia|exact E4].
    + destruct (strip_prefix_str (lit "rgb(") (c :: u)) as [rest|]; [|discriminate].
      destruct (split_last rest) as [[g' c0]|]; [|discriminate]. destruct (_ && _); discriminate.
Qed.

(* ------------------------------------------------------------------ Color.parse *)
Theorem color_parse_outcomes s :
  (exists c, color_parse s = Ok c) \/ color_parse s = Doc E_ColorParseError.
Proof.
  unfold color_parse, parse. set (u := py_strip (py_lower s)).
  destruct (str_eqb u (lit "default")). { left. eexists. reflexivity. }
  destruct (assoc_str u ANSI_COLOR_NAMES) as [n|]. { left. eexists. reflexivity. }
  destruct (re_color_match u) as [[h|g|g]|] eqn:Em; [| | |right; reflexivity].
  - destruct h as [|a [|b [|c0 [|d [|e [|f [|x r]]]]]]]; try (right; reflexivity). left. eexists. reflexivity.
  - destruct (re_color_num_digits u g Em) as [Hl Hd].
    destruct (py_int_ascii_digits g Hl Hd) as [n Hn]. rewrite Hn.
    destruct (255 <? n); [right; reflexivity|left; eexists; reflexivity].
  - destruct (split_on 44 g) as [|r0 [|g0 [|b0 [|x r]]]]; try (right; reflexivity).
    destruct (py_int_digits r0) as [rv|]; [|right; reflexivity].
    destruct (py_int_digits g0) as [gv|]; [|right; reflexivity].
    destruct (py_int_digits b0) as [bv|]; [|right; reflexivity].
    destruct ((rv <=? 255) && (gv <=? 255) && (bv <=? 255)); [left; eexists; reflexivity|right; reflexivity].
Qed.

Theorem color_parse_total s k : color_parse s <> Crash k.
Proof. destruct (color_parse_outcomes s) as [[c H]|H]; rewrite H; discriminate. Qed.

Theorem color_parse_documented s : documented_b OP_color (code_of (color_parse s)) = true.
Proof. destruct (color_parse_outcomes s) as [[c H]|H]; rewrite H; reflexivity. Qed.

(* ------------------------------------------------------------------ Style.parse *)
Lemma check_color_outcomes w :
  (check_color w = Ok tt /\ exists c, Color.parse true w = Ok c) \/ check_color w = Doc E_StyleSyntaxError.
Proof.
  unfold check_color. destruct (color_parse_outcomes w) as [[c H]|H]; unfold color_parse in H; rewrite H.
  - left. split; [reflexivity|exists c; reflexivity].
  - right. reflexivity.
Qed.

(* the colour words the loop has accepted parse *)
Definition color_ok (o : option str) : Prop :=
  match o with None => True | Some w => exists c, Color.parse true w = Ok c end.
Definition pstate_ok (st : pstate) : Prop := color_ok (p_color st) /\ color_ok (p_bgcolor st).

Lemma parse_words_outcomes : forall fuel ws st, (length ws < fuel)%nat -> pstate_ok st ->
  (exists st', parse_words fuel ws st = Ok st' /\ pstate_ok st') \/ parse_words fuel ws st = Doc E_StyleSyntaxError.
Proof.
  induction fuel as [|fuel IH]; intros ws st Hf Hok; [lia|].
  destruct ws as [|w rest]; cbn [parse_words].
  - left. exists st. split; [reflexivity|exact Hok].
  - cbn [length] in Hf. destruct Hok as [Hc Hb].
    destruct (str_eqb (py_lower w) (lit "on")).
    { destruct rest as [|w2 rest']; [right; reflexivity|].
      destruct (check_color_outcomes w2) as [[H [c Hp]]|H]; rewrite H; cbn [bind]; [|right; reflexivity].
      apply IH; [cbn [length] in Hf; lia|]. split; cbn [p_color p_bgcolor]; [exact Hc|exists c; exact Hp]. }
    destruct (str_eqb (py_lower w) (lit "not")).
    { destruct rest as [|w2 rest'].
      - destruct (assoc_str [] STYLE_ATTRIBUTES); [|right; reflexivity].
        apply IH; [cbn [length]; lia|]. split; assumption.
      - destruct (assoc_str w2 STYLE_ATTRIBUTES); [|right; reflexivity].
        apply IH; [cbn [length] in Hf; lia|]. split; assumption. }
    destruct (str_eqb (py_lower w) (lit "link")).
    { destruct rest as [|w2 rest']; [right; reflexivity|].
      apply IH; [cbn [length] in Hf; lia|]. split; assumption. }
    destruct (assoc_str (py_lower w) STYLE_ATTRIBUTES).
    { apply IH; [lia|]. split; assumption. }
    destruct (check_color_outcomes (py_lower w)) as [[H [c Hp]]|H]; rewrite H; cbn [bind]; [|right; reflexivity].
    apply IH; [lia|]. split; cbn [p_color p_bgcolor]; [exists c; exact Hp|exact Hb].
Qed.

Theorem style_parse_outcomes d :
  (exists s, style_parse d = Ok s) \/ style_parse d = Doc E_StyleSyntaxError.
Proof.
  unfold style_parse.
  destruct (str_eqb (py_strip d) (lit "none") || match d with [] => true | _ => false end).
  { left. eexists. reflexivity. }
  destruct (parse_words_outcomes (S (length (split_ws d))) (split_ws d) (mkPState None None [] None))
    as [[st [H [Hc Hb]]]|H]; [lia|split; exact Logic.I| |]; rewrite H; cbn [bind]; [|right; reflexivity].
  left. unfold style_kw.
  assert (R : forall o, color_ok o -> exists c, resolve_color (option_map CA_str o) = Ok c).
  { intros [w|] Ho; cbn [option_map resolve_color]; [|eexists; reflexivity].
    destruct Ho as [c Hp]. rewrite Hp. cbn [bind]. eexists. reflexivity. }
  destruct (R _ Hc) as [c Ec]. destruct (R _ Hb) as [b Eb]. rewrite Ec. cbn [bind]. rewrite Eb. cbn [bind].
  eexists. reflexivity.
Qed.

Theorem style_parse_total d k : style_parse d <> Crash k.
Proof. destruct (style_parse_outcomes d) as [[s H]|H]; rewrite H; discriminate. Qed.

Theorem style_parse_documented d : documented_b OP_style (code_of (style_parse d)) = true.
Proof. destruct (style_parse_outcomes d) as [[s H]|H]; rewrite H; reflexivity. Qed.

(* ------------------------------------------------------------------ Style.normalize: never raises *)
Theorem style_normalize_total d : exists x, style_normalize d = Ok x.
Proof.
  unfold style_normalize. destruct (style_parse_outcomes d) as [[s H]|H]; rewrite H.
  - eexists. reflexivity.
  - cbn. eexists. reflexivity.
Qed.

Theorem style_normalize_documented d : documented_b OP_normalize (code_of (style_normalize d)) = true.
Proof. destruct (style_normalize_total d) as [x H]. rewrite H. reflexivity. Qed.

Lemma norm_fn_spec d : style_normalize d = Ok (norm_fn d).
Proof. unfold norm_fn. destruct (style_normalize_total d) as [x H]. rewrite H. reflexivity. Qed.

(* ------------------------------------------------------------------ Console.get_style *)
Lemma get_style1_outcomes th n :
  (exists v, get_style1 th n = Ok v) \/ get_style1 th n = Doc E_MissingStyle.
Proof.
  unfold get_style1. destruct (existsb (str_eqb n) th); [left; eexists; reflexivity|].
  destruct (style_parse_outcomes n) as [[s H]|H]; rewrite H; [left; eexists; reflexivity|right; reflexivity].
Qed.

Theorem get_style_outcomes th n d :
  (exists v, get_style th n d = Ok v) \/ get_style th n d = Doc E_MissingStyle.
Proof.
  unfold get_style. destruct (existsb (str_eqb n) th); [left; eexists; reflexivity|].
  destruct (style_parse_outcomes n) as [[s H]|H]; rewrite H; [left; eexists; reflexivity|].
  cbn. destruct d as [dn|]; [apply get_style1_outcomes|right; reflexivity].
Qed.

Theorem get_style_total th n d k : get_style th n d <> Crash k.
Proof. destruct (get_style_outcomes th n d) as [[v H]|H]; rewrite H; discriminate. Qed.

Theorem get_style_documented th n d : documented_b OP_get_style (code_of (get_style th n d)) = true.
Proof. destruct (get_style_outcomes th n d) as [[v H]|H]; rewrite H; reflexivity. Qed.

(* a parsable default never lets MissingStyle out *)
Theorem get_style_default_ok th n dn s : style_parse dn = Ok s -> exists v, get_style th n (Some dn) = Ok v.
Proof.
  intros Hd. unfold get_style. destruct (existsb (str_eqb n) th); [eexists; reflexivity|].
  destruct (style_parse_outcomes n) as [[s' H]|H]; rewrite H; [eexists; reflexivity|].
  cbn. unfold get_style1. destruct (existsb (str_eqb dn) th); [eexists; reflexivity|]. rewrite Hd. eexists. reflexivity.
Qed.

(* ------------------------------------------------------------------ Text(s), len(Text(s)) *)
Theorem text_ctor_total s : exists t, text_ctor s = Ok (t, zlen (TextOps.strip s)).
Proof.
  unfold text_ctor, TextOps.pylen, TextOps.ctor. cbn [TextOps.len TextOps.fx_ctor TextOps.FIXED].
  assert (H : zlen (TextOps.strip s) <? 0 = false) by (unfold zlen; lia).
  rewrite H. cbn [bind]. eexists. reflexivity.
Qed.

Theorem text_ctor_documented s : documented_b OP_text (code_of (text_ctor s)) = true.
Proof. destruct (text_ctor_total s) as [t H]. rewrite H. reflexivity. Qed.
