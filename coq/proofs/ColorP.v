(* Proofs for the colour layer (C18), part 1: source pins, the float kernel (PrimFloat, finite
   sweeps by vm_compute), its integer characterisation, ranges of the 256-colour numbers. *)
From RichModel Require Import Prelude Color SpecColor ColorFloat.
From RichGen Require Import Palettes ColorNames ColorRegex.
From Coq Require Import ZifyBool PrimFloat.

Ltac Zify.zify_post_hook ::= Z.to_euclidean_division_equations.

(* ------------------------------------------------------------------ source pins (tie 1) *)
(* The scanner Color.re_color_match was written for exactly this pattern and these flags:
     ^\n\#([0-9a-f]{6})$|\ncolor\(([0-9]{1,3})\)$|\nrgb\(([\d\s,]+)\)$\n     re.VERBOSE     *)
Example RE_COLOR_src_ok : RE_COLOR_src =
  [94; 10; 92; 35; 40; 91; 48; 45; 57; 97; 45; 102; 93; 123; 54; 125; 41; 36; 124; 10;
   99; 111; 108; 111; 114; 92; 40; 40; 91; 48; 45; 57; 93; 123; 49; 44; 51; 125; 41; 92; 41; 36; 124; 10;
   114; 103; 98; 92; 40; 40; 91; 92; 100; 92; 115; 44; 93; 43; 41; 92; 41; 36; 10].
Proof. reflexivity. Qed.
Example RE_COLOR_flags_ok : RE_COLOR_flags = lit "re.VERBOSE".
Proof. reflexivity. Qed.

(* IntEnum values: Color.downgrade compares  self.type == system  across the two enums *)
Example ColorSystem_values_ok : ColorSystem_values =
  [(lit "STANDARD", ColorSystem_int CS_STANDARD); (lit "EIGHT_BIT", ColorSystem_int CS_EIGHT_BIT);
   (lit "TRUECOLOR", ColorSystem_int CS_TRUECOLOR); (lit "WINDOWS", ColorSystem_int CS_WINDOWS)].
Proof. reflexivity. Qed.
Example ColorType_values_ok : ColorType_values =
  [(lit "DEFAULT", ColorType_int CT_DEFAULT); (lit "STANDARD", ColorType_int CT_STANDARD);
   (lit "EIGHT_BIT", ColorType_int CT_EIGHT_BIT); (lit "TRUECOLOR", ColorType_int CT_TRUECOLOR);
   (lit "WINDOWS", ColorType_int CT_WINDOWS)].
Proof. reflexivity. Qed.

(* today's palettes (regenerated from /repo): sizes and channel ranges *)
Lemma STANDARD_PALETTE_len : length STANDARD_PALETTE = 16%nat. Proof. reflexivity. Qed.
Lemma WINDOWS_PALETTE_len : length WINDOWS_PALETTE = 16%nat. Proof. reflexivity. Qed.
Lemma EIGHT_BIT_PALETTE_len : length EIGHT_BIT_PALETTE = 256%nat. Proof. reflexivity. Qed.
Lemma STANDARD_PALETTE_ok : palette_ok_b STANDARD_PALETTE = true. Proof. vm_compute. reflexivity. Qed.
Lemma WINDOWS_PALETTE_ok : palette_ok_b WINDOWS_PALETTE = true. Proof. vm_compute. reflexivity. Qed.
Lemma EIGHT_BIT_PALETTE_ok : palette_ok_b EIGHT_BIT_PALETTE = true. Proof. vm_compute. reflexivity. Qed.
Lemma names_in_range : forallb (fun p => in_range 0 255 (snd p)) ANSI_COLOR_NAMES = true.
Proof. vm_compute. reflexivity. Qed.

(* ------------------------------------------------------------------ finite ranges *)
Definition range256 : list Z := map Z.of_nat (seq 0 256).

Lemma in_range256 c : 0 <= c <= 255 -> In c range256.
Proof.
  intros H. unfold range256. apply in_map_iff. exists (Z.to_nat c). split; [lia|].
  apply in_seq. lia.
Qed.

Lemma sweep1 (P : Z -> bool) :
  forallb P range256 = true -> forall c, 0 <= c <= 255 -> P c = true.
Proof. intros H c Hc. rewrite forallb_forall in H. apply H. apply in_range256. exact Hc. Qed.

Lemma sweep2 (P : Z -> Z -> bool) :
  forallb (fun a => forallb (P a) range256) range256 = true ->
  forall a b, 0 <= a <= 255 -> 0 <= b <= 255 -> P a b = true.
Proof.
  intros H a b Ha Hb.
  assert (H1 := sweep1 (fun a => forallb (P a) range256) H a Ha). cbv beta in H1.
  exact (sweep1 (P a) H1 b Hb).
Qed.

(* ------------------------------------------------------------------ the float kernel *)
Definition optZ_is (a : option Z) (b : Z) : bool := match a with Some x => x =? b | None => false end.

Lemma optZ_is_eq a b : optZ_is a b = true -> a = Some b.
Proof. destruct a as [x|]; simpl; [intros H; f_equal; lia|discriminate]. Qed.

(* round(c/255.0*5.0) = (c+25)//51 : 256 channel values *)
Lemma cube_sweep : forallb (fun c => optZ_is (cube_round (norm c)) (cube_idx c)) range256 = true.
Proof. vm_compute. reflexivity. Qed.

Lemma cube_round_eq c : 0 <= c <= 255 -> cube_round (norm c) = Some (cube_idx c).
Proof. intros H. apply optZ_is_eq. exact (sweep1 _ cube_sweep c H). Qed.

(* c -> c/255.0 is strictly monotone in binary64: 65 536 pairs *)
Lemma norm_lt_sweep :
  forallb (fun a => forallb (fun b => Bool.eqb (PrimFloat.ltb (norm a) (norm b)) (a <? b)) range256) range256 = true.
Proof. vm_compute. reflexivity. Qed.

Lemma norm_ltb a b : 0 <= a <= 255 -> 0 <= b <= 255 -> PrimFloat.ltb (norm a) (norm b) = (a <? b).
Proof.
  intros Ha Hb. apply Bool.eqb_prop.
  exact (sweep2 (fun a b => Bool.eqb (PrimFloat.ltb (norm a) (norm b)) (a <? b)) norm_lt_sweep a b Ha Hb).
Qed.

(* Python's max()/min() over the three normalised channels select the channel that the integer
   max/min select (Leibniz equality of the selected float, obtained without comparing floats) *)
Lemma fmax2_norm a b : 0 <= a <= 255 -> 0 <= b <= 255 -> fmax2 (norm a) (norm b) = norm (Z.max a b).
Proof.
  intros Ha Hb. unfold fmax2. rewrite (norm_ltb a b Ha Hb).
  destruct (a <? b) eqn:E; f_equal; lia.
Qed.
Lemma fmin2_norm a b : 0 <= a <= 255 -> 0 <= b <= 255 -> fmin2 (norm a) (norm b) = norm (Z.min a b).
Proof.
  intros Ha Hb. unfold fmin2. rewrite (norm_ltb b a Hb Ha).
  destruct (b <? a) eqn:E; f_equal; lia.
Qed.
Lemma fmax3_norm r g b : 0 <= r <= 255 -> 0 <= g <= 255 -> 0 <= b <= 255 ->
  fmax3 (norm r) (norm g) (norm b) = norm (max3 r g b).
Proof.
  intros Hr Hg Hb. unfold fmax3, max3. rewrite (fmax2_norm r g Hr Hg). apply fmax2_norm; lia.
Qed.
Lemma fmin3_norm r g b : 0 <= r <= 255 -> 0 <= g <= 255 -> 0 <= b <= 255 ->
  fmin3 (norm r) (norm g) (norm b) = norm (min3 r g b).
Proof.
  intros Hr Hg Hb. unfold fmin3, min3. rewrite (fmin2_norm r g Hr Hg). apply fmin2_norm; lia.
Qed.

(* the grey decision (s < 0.1 and round(l*25.0)) for every (max, min) pair: 65 536 pairs *)
Definition grey_decision_int (mx mn : Z) : bool * Z :=
  if is_grey_int mx mn then (true, grey_level_int mx mn) else (false, 0).
Definition gd_is (a : option (bool * Z)) (b : bool * Z) : bool :=
  match a with Some (x, y) => Bool.eqb x (fst b) && (y =? snd b) | None => false end.

Lemma grey_sweep :
  forallb (fun mx => forallb (fun mn => gd_is (grey_decision (norm mx) (norm mn)) (grey_decision_int mx mn))
                             range256) range256 = true.
Proof. vm_compute. reflexivity. Qed.

Lemma grey_decision_eq mx mn : 0 <= mx <= 255 -> 0 <= mn <= 255 ->
  grey_decision (norm mx) (norm mn) = Some (grey_decision_int mx mn).
Proof.
  intros Hx Hn.
  assert (H := sweep2 (fun mx mn => gd_is (grey_decision (norm mx) (norm mn)) (grey_decision_int mx mn))
                      grey_sweep mx mn Hx Hn). cbv beta in H.
  destruct (grey_decision (norm mx) (norm mn)) as [[x y]|]; [|discriminate].
  destruct (grey_decision_int mx mn) as [x' y']. simpl in H.
  apply andb_true_iff in H as [H1 H2]. apply Bool.eqb_prop in H1. f_equal. f_equal; [exact H1|lia].
Qed.

(* THE bridge between the bit-exact float code and the extracted integer code *)
Theorem downgrade_8bit_float_eq_int r g b :
  0 <= r <= 255 -> 0 <= g <= 255 -> 0 <= b <= 255 ->
  downgrade_8bit_float r g b = Some (downgrade_8bit_int r g b).
Proof.
  intros Hr Hg Hb. unfold downgrade_8bit_float, downgrade_8bit_int.
  rewrite (fmax3_norm r g b Hr Hg Hb), (fmin3_norm r g b Hr Hg Hb).
  rewrite grey_decision_eq by (unfold max3, min3; lia).
  unfold grey_decision_int.
  destruct (is_grey_int (max3 r g b) (min3 r g b)); [reflexivity|].
  rewrite (cube_round_eq r Hr), (cube_round_eq g Hg), (cube_round_eq b Hb). reflexivity.
Qed.

(* the nine boundary pairs are exactly the pairs where exact arithmetic says s = 1/10 but the
   binary64 computation says s < 0.1 (so the exception list is complete and minimal) *)
Lemma grey_boundary_exact :
  forallb (fun mx => forallb (fun mn =>
     Bool.eqb (existsb (fun p => (fst p =? mx) && (snd p =? mn)) GREY_S_BOUNDARY)
              ((mn <? mx) && (10 * (mx - mn) =? (if mx + mn <=? 255 then mx + mn else 510 - (mx + mn)))
               && match grey_decision (norm mx) (norm mn) with Some (true, _) => true | _ => false end))
     range256) range256 = true.
Proof. vm_compute. reflexivity. Qed.

(* ------------------------------------------------------------------ ranges of the integer kernel *)
Lemma cube_idx_range c : 0 <= c <= 255 -> 0 <= cube_idx c <= 5.
Proof. intros H. unfold cube_idx. lia. Qed.

Lemma grey_level_range mx mn : 0 <= mn <= 255 -> 0 <= mx <= 255 -> 0 <= grey_level_int mx mn <= 25.
Proof.
  intros Hn Hx. unfold grey_level_int, round_half_even_div.
  destruct (2 * (((mx + mn) * 5) mod 102) <? 102) eqn:E1; [lia|].
  destruct (102 <? 2 * (((mx + mn) * 5) mod 102)) eqn:E2; [lia|].
  destruct (Z.even ((mx + mn) * 5 / 102)); lia.
Qed.

Lemma downgrade_8bit_int_range r g b :
  0 <= r <= 255 -> 0 <= g <= 255 -> 0 <= b <= 255 -> 16 <= downgrade_8bit_int r g b <= 255.
Proof.
  intros Hr Hg Hb. unfold downgrade_8bit_int.
  destruct (is_grey_int (max3 r g b) (min3 r g b)).
  - assert (H := grey_level_range (max3 r g b) (min3 r g b)).
    unfold max3, min3 in *.
    destruct (_ =? 0) eqn:E0; [lia|]. destruct (_ =? 25) eqn:E25; lia.
  - assert (H1 := cube_idx_range r Hr). assert (H2 := cube_idx_range g Hg). assert (H3 := cube_idx_range b Hb). lia.
Qed.

(* cube colours stay inside the 6x6x6 cube; grey decisions land on the ramp or black/white *)
Lemma downgrade_8bit_int_cases r g b :
  0 <= r <= 255 -> 0 <= g <= 255 -> 0 <= b <= 255 ->
  (is_grey_int (max3 r g b) (min3 r g b) = true /\ grey_ramp_b (downgrade_8bit_int r g b) = true)
  \/ (is_grey_int (max3 r g b) (min3 r g b) = false /\ cube_b (downgrade_8bit_int r g b) = true).
Proof.
  intros Hr Hg Hb. unfold downgrade_8bit_int.
  destruct (is_grey_int (max3 r g b) (min3 r g b)); [left|right]; (split; [reflexivity|]).
  - assert (H := grey_level_range (max3 r g b) (min3 r g b)).
    unfold max3, min3, grey_ramp_b, in_range in *.
    destruct (_ =? 0) eqn:E0; [reflexivity|]. destruct (_ =? 25) eqn:E25; [reflexivity|]. lia.
  - assert (H1 := cube_idx_range r Hr). assert (H2 := cube_idx_range g Hg). assert (H3 := cube_idx_range b Hb).
    unfold cube_b, in_range. lia.
Qed.

Lemma is_grey_diag v : is_grey_int v v = true.
Proof. unfold is_grey_int. rewrite Z.eqb_refl. reflexivity. Qed.

Lemma grey_lands_on_ramp v : 0 <= v <= 255 -> grey_ramp_b (downgrade_8bit_int v v v) = true.
Proof.
  intros H. destruct (downgrade_8bit_int_cases v v v H H H) as [[_ G]|[G _]]; [exact G|].
  unfold max3, min3 in G. rewrite !Z.max_id, !Z.min_id, is_grey_diag in G. discriminate.
Qed.

Lemma eight_bit_number_ok t :
  triplet_ok_b t = true -> eight_bit_number_b t (downgrade_8bit_int (t_red t) (t_green t) (t_blue t)) = true.
Proof.
  intros H. unfold triplet_ok_b, channel_b, in_range in H.
  assert (Hr : 0 <= t_red t <= 255) by lia. assert (Hg : 0 <= t_green t <= 255) by lia.
  assert (Hb : 0 <= t_blue t <= 255) by lia.
  unfold eight_bit_number_b.
  destruct ((t_red t =? t_green t) && (t_green t =? t_blue t)) eqn:E.
  - replace (t_green t) with (t_red t) by lia. replace (t_blue t) with (t_red t) by lia.
    apply grey_lands_on_ramp. exact Hr.
  - assert (R := downgrade_8bit_int_range _ _ _ Hr Hg Hb). unfold cube_b, in_range. lia.
Qed.

(* no logical axioms; the kernel primitives of PrimFloat / PrimInt63 are listed (see props/C18.v (9)) *)
Print Assumptions downgrade_8bit_float_eq_int.
