(* C02 (c): appending a text after another one (Text.append / append_text, Text.join, the spaces
   expand_tabs inserts): when no span of the left part reaches beyond its end and no span of the right
   part starts before its start, every character keeps its entry in `styled`. *)
From RichModel Require Import Prelude Cells SpecCells Wrap SpecWrap.
From RichGen Require Import UnicodeSpace WrapFacts.
From RichProofs Require Import CellsP WrapP2 WrapS0.
From Coq Require Import ZifyBool.

Lemma index_from_app {A} : forall (a b : list A) n,
  index_from n (a ++ b) = index_from n a ++ index_from (n + zlen a) b.
Proof.
  induction a as [|x a IH]; intros b n.
  - cbn [app index_from]. unfold zlen. cbn [length]. rewrite Z.add_0_r. reflexivity.
  - cbn [app index_from]. rewrite IH. unfold zlen. cbn [length]. do 3 f_equal. lia.
Qed.

Lemma index_from_bounds {A} : forall (l : list A) n i c, In (i, c) (index_from n l) -> n <= i < n + zlen l.
Proof.
  induction l as [|x l IH]; intros n i c H; [contradiction|].
  unfold zlen in *. cbn [index_from length] in *. destruct H as [H|H].
  - inversion H; subst. lia.
  - specialize (IH (n + 1) i c H). lia.
Qed.

Lemma index_from_shift {A} : forall (l : list A) n d,
  index_from (n + d) l = map (fun ic => (fst ic + d, snd ic)) (index_from n l).
Proof.
  induction l as [|x l IH]; intros n d; [reflexivity|].
  cbn [index_from map fst snd]. f_equal. replace (n + d + 1) with (n + 1 + d) by lia. apply IH.
Qed.

Section Ext.
Variable S : Type.
Variable seqb : S -> S -> bool.
Variable null : S.
Hypothesis seqb_eq : forall a b, seqb a b = true <-> a = b.
Arguments plain {S}.
Arguments spans {S}.
Arguments base {S}.

Notation styled := (styled S seqb null).
Notation norm := (norm S seqb null).
Notation cover := (cover S).

Lemma seqb_refl a : seqb a a = true.
Proof. apply seqb_eq. reflexivity. Qed.

Lemma norm_null l : norm (null :: l) = norm l.
Proof. unfold SpecWrap.norm. cbn [filter]. rewrite seqb_refl. reflexivity. Qed.

Lemma norm_dup b c : norm (b :: b :: c) = norm (b :: c).
Proof.
  unfold SpecWrap.norm. cbn [filter]. destruct (seqb null b); cbn [negb]; [reflexivity|].
  cbn [keep_last existsb]. rewrite seqb_refl. reflexivity.
Qed.

Lemma styled_unfold (t : text S) :
  styled t = map (fun ic => (snd ic, norm (base t :: cover t (fst ic)))) (index_from 0 (plain t)).
Proof. reflexivity. Qed.

Lemma cover_spans_app (t : text S) l1 l2 i :
  spans t = l1 ++ l2 ->
  cover t i = map (@sp_style S) (filter (covers S i) l1) ++ map (@sp_style S) (filter (covers S i) l2).
Proof. intros H. unfold WrapS0.cover. rewrite H, filter_app, map_app. reflexivity. Qed.

Lemma cover_shift l n i :
  map (@sp_style S) (filter (covers S i) (shift_spans S n l)) = map (@sp_style S) (filter (covers S (i - n)) l).
Proof.
  induction l as [|sp l IH]; [reflexivity|].
  cbn [shift_spans map filter].
  assert (E : covers S i (sp_start S sp + n, sp_end S sp + n, sp_style S sp) = covers S (i - n) sp).
  { unfold covers, sp_start, sp_end. cbn [fst snd]. lia. }
  rewrite E. unfold shift_spans in IH. destruct (covers S (i - n) sp); cbn [map]; rewrite IH; reflexivity.
Qed.

(* the shape shared by append_text, append_str (tk := the string with no spans) and a step of join *)
Definition extends (acc tk r : text S) : Prop :=
  plain r = plain acc ++ plain tk /\
  spans r = spans acc ++ (tlen S acc, tlen S acc + tlen S tk, base tk) :: shift_spans S (tlen S acc) (spans tk) /\
  base r = base acc.

Lemma ext_cover_left (acc tk r : text S) i :
  extends acc tk r -> (0 < tlen S acc -> lwithin S tk) -> 0 <= i < tlen S acc -> cover r i = cover acc i.
Proof.
  intros [Hp [Hs Hb]] Hl Hi.
  rewrite (cover_spans_app r _ _ i Hs). cbn [filter].
  replace (covers S i (tlen S acc, tlen S acc + tlen S tk, base tk)) with false
    by (unfold covers, sp_start, sp_end; cbn [fst snd]; lia).
  rewrite cover_shift.
  assert (Hc : map (@sp_style S) (filter (covers S (i - tlen S acc)) (spans tk)) = []).
  { apply (Hl ltac:(lia)). lia. }
  rewrite Hc, app_nil_r. reflexivity.
Qed.

Lemma ext_cover_right (acc tk r : text S) j :
  extends acc tk r -> rwithin S acc -> 0 <= j < tlen S tk ->
  cover r (tlen S acc + j) = base tk :: cover tk j.
Proof.
  intros [Hp [Hs Hb]] Hr Hj.
  rewrite (cover_spans_app r _ _ _ Hs). cbn [filter].
  replace (covers S (tlen S acc + j) (tlen S acc, tlen S acc + tlen S tk, base tk)) with true
    by (unfold covers, sp_start, sp_end; cbn [fst snd]; lia).
  cbn [map sp_style snd]. rewrite cover_shift.
  replace (tlen S acc + j - tlen S acc) with j by lia.
  assert (Hc : map (@sp_style S) (filter (covers S (tlen S acc + j)) (spans acc)) = []) by (apply Hr; lia).
  rewrite Hc. reflexivity.
Qed.

Theorem ext_styled (acc tk r : text S) :
  extends acc tk r -> rwithin S acc -> (0 < tlen S acc -> lwithin S tk) ->
  (forall c, norm (base acc :: base tk :: c) = norm (base tk :: c)) ->
  styled r = styled acc ++ styled tk.
Proof.
  intros He Hr Hl Hn. pose proof He as [Hp [Hs Hb]].
  rewrite !styled_unfold. rewrite Hp, index_from_app, map_app. f_equal.
  - apply map_ext_in. intros [i c] Hin. apply index_from_bounds in Hin. cbn [fst snd].
    rewrite Hb. rewrite (ext_cover_left acc tk r i He Hl) by (unfold tlen; lia). reflexivity.
  - change (0 + zlen (plain acc)) with (0 + tlen S acc).
    rewrite (index_from_shift (plain tk) 0 (tlen S acc)). rewrite map_map.
    apply map_ext_in. intros [j c] Hin. apply index_from_bounds in Hin. cbn [fst snd].
    rewrite Hb. replace (j + tlen S acc) with (tlen S acc + j) by lia.
    rewrite (ext_cover_right acc tk r j He Hr) by (unfold tlen; lia).
    rewrite Hn. reflexivity.
Qed.

Lemma ext_rwithin (acc tk r : text S) :
  extends acc tk r -> rwithin S acc -> rwithin S tk -> rwithin S r.
Proof.
  intros [Hp [Hs Hb]] Hr Ht j Hj.
  assert (Hlen : tlen S r = tlen S acc + tlen S tk).
  { unfold tlen, zlen. rewrite Hp, app_length. lia. }
  rewrite (cover_spans_app r _ _ j Hs). cbn [filter].
  replace (covers S j (tlen S acc, tlen S acc + tlen S tk, base tk)) with false
    by (unfold covers, sp_start, sp_end; cbn [fst snd]; lia).
  rewrite cover_shift.
  assert (H1 : map (@sp_style S) (filter (covers S j) (spans acc)) = []).
  { apply Hr. pose proof (Zle_0_nat (length (plain tk))). unfold tlen, zlen in *. lia. }
  assert (H2 : map (@sp_style S) (filter (covers S (j - tlen S acc)) (spans tk)) = []) by (apply Ht; lia).
  rewrite H1, H2. reflexivity.
Qed.

(* texts without spans *)
Lemma nospans_within (s : str) (b : S) : rwithin S (mkText s [] b) /\ lwithin S (mkText s [] b).
Proof. split; intros j _; reflexivity. Qed.

(* a text whose characters are all whitespace contributes nothing to sns *)
Lemma sns_ws_plain (t : text S) : forallb is_space (plain t) = true -> sns S seqb null t = [].
Proof.
  intros H. unfold sns. apply sc_ns_ws. unfold ws_chars.
  rewrite <- (styled_plain S seqb null t) in H. rewrite forallb_forall in *.
  intros x Hx. apply H. apply in_map. exact Hx.
Qed.

Lemma sns_nil_plain (t : text S) : plain t = [] -> sns S seqb null t = [].
Proof. intros H. apply sns_ws_plain. rewrite H. reflexivity. Qed.
End Ext.

(* ------------------------------------------------------------------ Text.join (empty separator), Text.append *)
Section Join.
Variable S : Type.
Variable seqb : S -> S -> bool.
Variable null : S.
Hypothesis seqb_eq : forall a b, seqb a b = true <-> a = b.
Arguments plain {S}.
Arguments spans {S}.
Arguments base {S}.
Notation styled := (styled S seqb null).

Definition join_step (acc tk : text S) : text S :=
  mkText (plain acc ++ plain tk)
         (spans acc ++ (tlen S acc, tlen S acc + tlen S tk, base tk) :: shift_spans S (tlen S acc) (spans tk)) null.

Lemma join_empty_fold tokens : join_empty S null tokens = fold_left join_step tokens (mkText [] [] null).
Proof. reflexivity. Qed.

Lemma join_fold_styled : forall tokens (acc : text S),
  base acc = null -> rwithin S acc ->
  Forall (rwithin S) (removelast tokens) ->
  match tokens with [] => True | tk :: rest => (0 < tlen S acc -> lwithin S tk) /\ Forall (lwithin S) rest end ->
  styled (fold_left join_step tokens acc) = styled acc ++ concat (map styled tokens).
Proof.
  induction tokens as [|tk rest IH]; intros acc Hb Hr Hrw Hlw.
  - cbn. symmetry. apply app_nil_r.
  - cbn [fold_left map concat]. destruct Hlw as [Hl Hrest].
    assert (He : extends S acc tk (join_step acc tk)).
    { unfold extends, join_step. cbn [plain spans base]. repeat split. symmetry. exact Hb. }
    assert (Hst : styled (join_step acc tk) = styled acc ++ styled tk).
    { apply (ext_styled S seqb null acc tk _ He Hr Hl).
      intros c. rewrite Hb. apply norm_null. exact seqb_eq. }
    destruct rest as [|tk2 rest].
    + cbn [fold_left map concat]. rewrite Hst, app_nil_r. reflexivity.
    + assert (Hrtk : rwithin S tk /\ Forall (rwithin S) (removelast (tk2 :: rest))).
      { change (removelast (tk :: tk2 :: rest)) with (tk :: removelast (tk2 :: rest)) in Hrw.
        inversion Hrw; subst. split; assumption. }
      destruct Hrtk as [Hrtk Hrw'].
      rewrite IH.
      * rewrite Hst, <- app_assoc. reflexivity.
      * reflexivity.
      * apply (ext_rwithin S acc tk _ He Hr Hrtk).
      * exact Hrw'.
      * inversion Hrest; subst. split; [intros _; assumption|assumption].
Qed.

Theorem join_styled tokens :
  Forall (rwithin S) (removelast tokens) -> Forall (lwithin S) (tl tokens) ->
  styled (join_empty S null tokens) = concat (map styled tokens).
Proof.
  intros Hr Hl. rewrite join_empty_fold.
  rewrite join_fold_styled; try reflexivity; try assumption.
  - intros j _. reflexivity.
  - destruct tokens as [|tk rest]; [exact Logic.I|]. split; [|exact Hl].
    unfold tlen, zlen. cbn. lia.
Qed.

(* Text.append(Text) *)
Lemma append_text_extends (acc o : text S) : tlen S o <> 0 -> extends S acc o (append_text S acc o).
Proof.
  intros H. unfold append_text. replace (tlen S o =? 0) with false by lia.
  unfold extends. cbn [plain spans base]. repeat split.
Qed.

Lemma styled_empty (o : text S) : tlen S o = 0 -> styled o = [].
Proof.
  intros H. unfold SpecWrap.styled. unfold tlen, zlen in H. destruct (plain o); [reflexivity|cbn [length] in H; lia].
Qed.

Lemma append_text_styled (acc o : text S) :
  rwithin S acc -> (0 < tlen S acc -> lwithin S o) -> base o = base acc ->
  styled (append_text S acc o) = styled acc ++ styled o.
Proof.
  intros Hr Hl Hb. destruct (Z.eq_dec (tlen S o) 0) as [E|E].
  - unfold append_text. replace (tlen S o =? 0) with true by lia. rewrite (styled_empty o E), app_nil_r. reflexivity.
  - apply (ext_styled S seqb null acc o _ (append_text_extends acc o E) Hr Hl).
    intros c. rewrite Hb. apply norm_dup. exact seqb_eq.
Qed.

Lemma append_text_rwithin (acc o : text S) : rwithin S acc -> rwithin S o -> rwithin S (append_text S acc o).
Proof.
  intros Hr Ho. destruct (Z.eq_dec (tlen S o) 0) as [E|E].
  - unfold append_text. replace (tlen S o =? 0) with true by lia. exact Hr.
  - apply (ext_rwithin S acc o _ (append_text_extends acc o E) Hr Ho).
Qed.

Lemma append_text_base (acc o : text S) : base (append_text S acc o) = base acc.
Proof. unfold append_text. destruct (tlen S o =? 0); reflexivity. Qed.

(* Text.append(str, style) with the text's own base style *)
Lemma append_str_extends (acc : text S) s : zlen s <> 0 ->
  extends S acc (mkText s [] (base acc)) (append_str S acc s (base acc)).
Proof.
  intros H. unfold append_str. replace (zlen s =? 0) with false by lia.
  unfold extends. cbn [plain spans base shift_spans map]. unfold tlen. cbn [plain]. repeat split.
Qed.

Lemma append_str_styled (acc : text S) s :
  rwithin S acc -> styled (append_str S acc s (base acc)) = styled acc ++ styled (mkText s [] (base acc)).
Proof.
  intros Hr. destruct (Z.eq_dec (zlen s) 0) as [E|E].
  - unfold append_str. replace (zlen s =? 0) with true by lia.
    rewrite (styled_empty (mkText s [] (base acc))) by exact E. rewrite app_nil_r. reflexivity.
  - apply (ext_styled S seqb null acc _ _ (append_str_extends acc s E) Hr).
    + intros _. apply nospans_within.
    + intros c. cbn [base]. apply norm_dup. exact seqb_eq.
Qed.

Lemma append_str_rwithin (acc : text S) s : rwithin S acc -> rwithin S (append_str S acc s (base acc)).
Proof.
  intros Hr. destruct (Z.eq_dec (zlen s) 0) as [E|E].
  - unfold append_str. replace (zlen s =? 0) with true by lia. exact Hr.
  - apply (ext_rwithin S acc _ _ (append_str_extends acc s E) Hr). apply nospans_within.
Qed.

Lemma append_str_base (acc : text S) s st : base (append_str S acc s st) = base acc.
Proof. unfold append_str. destruct (zlen s =? 0); reflexivity. Qed.
End Join.

(* ------------------------------------------------------------------ one step of expand_tabs *)
Section ExpandStep.
Variable S : Type.
Variable seqb : S -> S -> bool.
Variable null : S.
Hypothesis seqb_eq : forall a b, seqb a b = true <-> a = b.
Arguments plain {S}.
Arguments spans {S}.
Arguments base {S}.
Notation styled := (styled S seqb null).
Notation sns := (sns S seqb null).

Lemma sns_app_styled (a b r : text S) : styled r = styled a ++ styled b -> sns r = sns a ++ sns b.
Proof. intros H. unfold WrapS0.sns. rewrite H. apply sc_ns_app. Qed.

(* the tab at the end of a part becomes a space: same spans, same length, same styled non-whitespace *)
Lemma tab_part_facts (part : text S) :
  ends_with (plain part) TAB = true ->
  let part' := mkText (replace_last (plain part) SP) (spans part) (base part) in
  tlen S part' = tlen S part /\ sns part' = sns part /\
  (rwithin S part -> rwithin S part') /\ (lwithin S part -> lwithin S part').
Proof.
  intros He part'. pose proof (ends_with_split _ _ He) as Hs.
  assert (Hlen : tlen S part' = tlen S part).
  { unfold tlen, part'. cbn [plain]. unfold replace_last, zlen. remember (removelast (plain part)) as p0. rewrite Hs. rewrite !app_length. reflexivity. }
  split; [exact Hlen|]. split.
  - unfold WrapS0.sns. rewrite !styled_unfold.
    change (plain part') with (removelast (plain part) ++ [SP]). change (base part') with (base part).
    change (fun ic : Z * Z => (snd ic, norm S seqb null (base part :: cover S part' (fst ic))))
      with (fun ic : Z * Z => (snd ic, norm S seqb null (base part :: cover S part (fst ic)))).
    remember (removelast (plain part)) as p0 eqn:Ep0. rewrite Hs.
    rewrite !index_from_app, !map_app, !sc_ns_app.
    f_equal.
  - split; intros H j Hj; unfold WrapS0.cover; cbn [spans]; apply H; lia.
Qed.

Lemma spaces_sns n (b : S) : sns (mkText (py_repeat SP n) [] b) = [].
Proof.
  apply sns_ws_plain. cbn [plain]. unfold py_repeat. apply forallb_forall. intros x Hx.
  apply repeat_spec in Hx. subst. apply is_space_SP.
Qed.

Lemma expand_part_step ts (acc : text S) pos part :
  rwithin S acc -> (0 < tlen S acc -> lwithin S part) -> rwithin S part -> base part = base acc ->
  let acc' := fst (expand_part S ts (acc, pos) part) in
  sns acc' = sns acc ++ sns part /\ rwithin S acc' /\ base acc' = base acc.
Proof.
  intros Hr Hl Hp Hb. unfold expand_part.
  destruct (ends_with (plain part) TAB) eqn:E.
  - destruct (tab_part_facts part E) as [Hlen [Hsns [Hrw Hlw]]].
    set (part' := mkText (replace_last (plain part) SP) (spans part) (base part)) in *.
    assert (H1 : styled (append_text S acc part') = styled acc ++ styled part').
    { apply (append_text_styled S seqb null seqb_eq); [exact Hr|intros H; apply Hlw, Hl, H|exact Hb]. }
    assert (H2 : rwithin S (append_text S acc part')) by (apply append_text_rwithin; [exact Hr|apply Hrw, Hp]).
    match goal with |- context [if ?c then _ else _] => destruct c end; cbn [fst].
    + pose proof (fun s => append_str_styled S seqb null seqb_eq (append_text S acc part') s H2) as H3.
      split; [|split].
      * rewrite (sns_app_styled _ _ _ (H3 _)), (sns_app_styled _ _ _ H1), spaces_sns, app_nil_r, Hsns. reflexivity.
      * apply append_str_rwithin. exact H2.
      * rewrite append_str_base. apply append_text_base.
    + split; [|split].
      * rewrite (sns_app_styled _ _ _ H1), Hsns. reflexivity.
      * exact H2.
      * apply append_text_base.
  - cbn [fst]. split; [|split].
    + apply sns_app_styled. apply (append_text_styled S seqb null seqb_eq); assumption.
    + apply append_text_rwithin; assumption.
    + apply append_text_base.
Qed.

Lemma expand_fold_sns ts : forall parts (acc : text S) pos,
  rwithin S acc -> Forall (rwithin S) parts -> Forall (fun p => base p = base acc) parts ->
  match parts with [] => True | p :: rest => (0 < tlen S acc -> lwithin S p) /\ Forall (lwithin S) rest end ->
  let r := fst (fold_left (expand_part S ts) parts (acc, pos)) in
  sns r = sns acc ++ concat (map sns parts) /\ base r = base acc.
Proof.
  induction parts as [|p rest IH]; intros acc pos Hr Hrw Hb Hlw.
  - cbn. split; [symmetry; apply app_nil_r|reflexivity].
  - cbn [fold_left map concat]. destruct Hlw as [Hl Hrest].
    inversion Hrw as [|? ? Hp Hrw']; subst. inversion Hb as [|? ? Hbp Hb']; subst.
    destruct (expand_part_step ts acc pos p Hr Hl Hp Hbp) as [H1 [H2 H3]].
    destruct (expand_part S ts (acc, pos) p) as [acc' pos'] eqn:E. cbn [fst] in H1, H2, H3.
    destruct (IH acc' pos' H2 Hrw') as [H4 H5].
    + rewrite H3. exact Hb'.
    + destruct rest as [|q rest']; [exact Logic.I|]. inversion Hrest; subst. split; [intros _; assumption|assumption].
    + cbn zeta in H4, H5. split; [rewrite H4, H1, app_assoc; reflexivity|rewrite H5; exact H3].
Qed.
End ExpandStep.
