(* C10 proofs, part 6: the screen statements for histories WITH injected exceptions.
   A step of the machine either behaves exactly as under the fault-free configuration `clr c`
   (then the theorems of LiveP2/LiveP4 apply), or it raises and leaves the screen-relevant state
   untouched (console_print / refresh), or it is a raising start()/stop(), analysed directly. *)
From RichModel Require Import Prelude Cells TermGrid Live SpecLive.
From RichGen Require Import LiveCodes.
From RichProofs Require Import TermGridP LiveP CursorP LiveP2 LiveP3 LiveP4.
From Coq Require Import ZifyBool.

Definition clr (c : cfg) : cfg :=
  mkCfg (c_progress c) (c_transient c) (c_ovf c) (c_W c) (c_H c) None None (c_start_guarded c)
        (c_vis_unless_transient c) (c_restores_ovf c) (c_resets_shape c) (c_final_room c) (c_prog_crop c)
        (c_catches_base c) (c_fault_base c) (c_restores_in_finally c).

Lemma clr_nofault : forall c, nofault (clr c).
Proof. intros c. split; reflexivity. Qed.

Lemma SInv_clr : forall c s, SInv (clr c) s <-> SInv c s.
Proof. intros c s. split; intros [A B C D E]; constructor; assumption. Qed.

Lemma op_ok_clr : forall c s o, op_ok (clr c) s o = op_ok c s o.
Proof. intros c s o. destruct o; reflexivity. Qed.

Lemma movedk_clr : forall c s s' k, movedk (clr c) s s' k -> movedk c s s' k.
Proof. intros c s s' k M. exact M. Qed.

(* the screen-relevant part of the state *)
Definition Quiet (s s' : st) : Prop :=
  out s' = out s /\ g_printed s' = g_printed s /\ g_shown s' = g_shown s /\ g_live s' = g_live s
  /\ started s' = started s /\ hooks s' = hooks s /\ shape s' = shape s.

Lemma Quiet_refl : forall s, Quiet s s.
Proof. intros s. repeat split. Qed.

Lemma Quiet_trans : forall a b d, Quiet a b -> Quiet b d -> Quiet a d.
Proof.
  intros a b d (A1 & A2 & A3 & A4 & A5 & A6 & A7) (B1 & B2 & B3 & B4 & B5 & B6 & B7).
  repeat split; congruence.
Qed.

Lemma SInv_quiet : forall c s s', Quiet s s' -> SInv c s -> SInv c s'.
Proof. intros c s s' (A1 & A2 & A3 & A4 & A5 & A6 & A7). now apply SInv_ext. Qed.

(* a call either behaves as without faults, or raises and changes nothing that matters *)
Definition dich {A} (x y : A * bool) (q : A -> Prop) : Prop := x = y \/ (snd x = true /\ q (fst x)).

Lemma cp_dich : forall c s ls,
  dich (console_print c s ls) (console_print (clr c) s ls) (Quiet s).
Proof.
  intros c s ls. unfold dich, console_print. destruct (0 <? hooks s)%nat; [|left; reflexivity].
  destruct (fault (c_frender c) (nrender s)) eqn:E.
  - right. cbn [fst snd]. split; [reflexivity|repeat split].
  - left. reflexivity.
Qed.

Lemma refresh_dich : forall c s, dich (refresh c s) (refresh (clr c) s) (Quiet s).
Proof.
  intros c s. unfold dich, refresh. change (c_progress (clr c)) with (c_progress c).
  destruct (c_progress c); [|apply cp_dich].
  destruct (fault (c_fbuild c) (nbuild s)) eqn:E.
  - right. cbn [fst snd]. split; [reflexivity|repeat split].
  - change (fault (c_fbuild (clr c)) (nbuild s)) with false. cbv iota.
    destruct (cp_dich c (set_lr (bump_build s) (cur (bump_build s))) []) as [L|[R1 R2]]; [left; exact L|].
    right. split; [exact R1|]. eapply Quiet_trans; [|exact R2]. repeat split.
Qed.

(* ---------- what is on the screen, without the bookkeeping SInv needs to continue ---------- *)
Definition SView (c : cfg) (s : st) : Prop :=
  live_at (T c s) (P_rows s) (R_rows s) /\ vis (T c s) = negb (started s).

Lemma SInv_view : forall c s, SInv c s -> SView c s.
Proof. intros c s [A B _ _ _]. split; assumption. Qed.

Lemma view_of_view : forall c s, SView c s ->
  view_ok_b (Hn c) (g_live s) (g_printed s) (g_shown s) (out s) = true
  /\ cursor_vis_ok_b (Hn c) (started s) (out s) = true.
Proof.
  intros c s [[A Avr] B]. split.
  - pose proof (grid_of_live _ _ _ A) as [G1 G2]. destruct A as (Hps & Hbl & Hg & Hne & Hcol).
    unfold view_ok_b, R_rows, P_rows in *. destruct (g_live s).
    + unfold screen_ok_b, same_screen. fold (T c s). rewrite G1, map_app, norm_region by assumption.
      rewrite grid_eqb_refl. rewrite map_length in G2. rewrite (region_cursor _ _ _ G2).
      unfold is_ground. rewrite Hps. reflexivity.
    + unfold rest_ok_b, same_screen. fold (T c s). rewrite G1.
      rewrite norm_grid_app_blanks by assumption.
      rewrite norm_grid_app_blanks by (repeat constructor). rewrite grid_eqb_refl.
      rewrite map_length in G2. cbn [length] in G2.
      replace (cursor_row (T c s)) with (length (g_printed s)) by (clear - G2; lia).
      rewrite Nat.eqb_refl, (Hcol eq_refl). unfold is_ground. rewrite Hps. reflexivity.
  - unfold cursor_vis_ok_b. fold (T c s). rewrite B. apply Bool.eqb_reflx.
Qed.

(* after a raise: either everything needed to go on, or a stopped display with a correct screen *)
(* a stopped display whose frame may still be on the screen (stop() raised before its new line) *)
Definition Parked (c : cfg) (s : st) : Prop :=
  SView c s /\ started s = false /\ hooks s = 0%nat /\ shape_ok s.
Definition After (c : cfg) (s : st) : Prop := SInv c s \/ Parked c s.

Lemma After_view : forall c s, After c s -> SView c s.
Proof. intros c s [H|[H _]]; [now apply SInv_view|assumption]. Qed.

Definition Outc (c : cfg) (s : st) (r : st * bool) : Prop :=
  (snd r = false -> SInv c (fst r)) /\ (snd r = true -> After c (fst r))
  /\ movedk c s (fst r) (length (g_printed s)).

Lemma out_nofault : forall c s o, Live.step c s o = Live.step (clr c) s o ->
  SInv c s -> op_ok c s o = true -> Outc c s (Live.step c s o).
Proof.
  intros c s o E Hi Hok. rewrite E.
  pose proof (step_inv (clr c) s o (clr_nofault c) (proj2 (SInv_clr c s) Hi) ltac:(now rewrite op_ok_clr)) as [S1 S2].
  pose proof (step_moved (clr c) s o (clr_nofault c) (proj2 (SInv_clr c s) Hi) ltac:(now rewrite op_ok_clr)) as M.
  split; [intros _; now apply SInv_clr|]. split; [congruence|]. exact M.
Qed.

Lemma out_quiet : forall c s (r : st * bool), snd r = true -> Quiet s (fst r) -> SInv c s -> Outc c s r.
Proof.
  intros c s r R Q Hi. split; [congruence|]. split; [intros _; left; now apply (SInv_quiet c s)|].
  apply movedk_same. now destruct Q.
Qed.

Definition op_ok_f (c : cfg) (s : st) (o : op) : bool :=
  match o with PrintRaise => true | _ => op_ok c s o end.

Lemma start_s1_inv : forall c s, SInv c s -> started s = false -> shape s = None ->
  SInv c (emit (set_flags s true (S (hooks s)) true) cursor_off)
  /\ movedk c s (emit (set_flags s true (S (hooks s)) true) cursor_off) (length (g_printed s)).
Proof.
  intros c s [A B C D E] Es Hsh. rewrite Es in C.
  assert (Hg : g_live s = false) by (destruct (g_live s); [specialize (E eq_refl); congruence|reflexivity]).
  pose proof (live_at_cursor (Hn c) (T c s) (P_rows s) (R_rows s) false A) as K. cbv zeta in K.
  destruct K as (K1 & K2 & K3). split.
  - constructor; unfold T, P_rows, R_rows, shape_ok;
      cbn [emit set_flags out g_printed g_shown g_live started hooks shape].
    + rewrite interp_app. exact K1.
    + rewrite interp_app. exact K2.
    + rewrite C. reflexivity.
    + intros _. rewrite Hg. assumption.
    + intros _. reflexivity.
  - exists cursor_off. split; [reflexivity|].
    pose proof (floor_le_row _ _ _ A) as F. unfold P_rows in F. rewrite map_length in F.
    destruct A as [(Hps & _) _]. apply NoUp_stays; [apply (NoUp_vis false)|assumption|assumption].
Qed.

(* show_cursor(True) on a state whose screen is right *)
Lemma emit_on_view : forall c s s', SView c s -> out s' = out s ++ cursor_on ->
  g_printed s' = g_printed s -> g_shown s' = g_shown s -> g_live s' = g_live s -> started s' = false ->
  SView c s' /\ movedk c s s' (length (g_printed s)).
Proof.
  intros c s s' [A B] E1 E2 E3 E4 E5.
  pose proof (live_at_cursor (Hn c) (T c s) (P_rows s) (R_rows s) true A) as K. cbv zeta in K.
  destruct K as (K1 & K2 & K3). split.
  - split; unfold T, P_rows, R_rows; rewrite E1, ?E2, ?E3, ?E4, ?E5, interp_app; [exact K1|exact K2].
  - exists cursor_on. split; [assumption|].
    pose proof (floor_le_row _ _ _ A) as F. unfold P_rows in F. rewrite map_length in F.
    destruct A as [(Hps & _) _]. apply NoUp_stays; [apply (NoUp_vis true)|assumption|assumption].
Qed.

Lemma start_f : forall c s, SInv c s -> op_ok c s Start = true -> Outc c s (start c s).
Proof.
  intros c s Hi Hok. pose proof Hok as Hok'. cbn [op_ok] in Hok. unfold start in *.
  destruct (started s) eqn:Es.
  - split; [intros _; assumption|]. split; [discriminate|now apply movedk_same].
  - cbn [orb] in Hok. apply andb_prop in Hok. destruct Hok as [Hn0 Hf].
    assert (Hsh : shape s = None) by (destruct (shape s); [discriminate|reflexivity]).
    destruct (start_s1_inv c s Hi Es Hsh) as [I1 M1].
    set (s1 := emit (set_flags s true (S (hooks s)) true) cursor_off) in *.
    destruct (c_progress c) eqn:Ep.
    2:{ split; [intros _; exact I1|]. split; [discriminate|exact M1]. }
    destruct (refresh_dich c s1) as [L|[R1 R2]].
    + (* as without faults *)
      assert (E : Live.step c s Start = Live.step (clr c) s Start).
      { cbn [Live.step]. unfold start. rewrite Es. change (c_progress (clr c)) with (c_progress c). rewrite Ep.
        fold s1. rewrite L. reflexivity. }
      pose proof (out_nofault c s Start E Hi Hok') as O. cbn [Live.step] in O. unfold start in O.
      rewrite Es, Ep in O. exact O.
    + destruct (refresh c s1) as [s2 raised]. cbn [fst snd] in *. subst raised. cbn [andb].
      pose proof (SInv_quiet c s1 s2 R2 I1) as I2. destruct R2 as (Q1 & Q2 & Q3 & Q4 & Q5 & Q6 & Q7).
      assert (M2 : movedk c s s2 (length (g_printed s))).
      { destruct M1 as (x & E1 & S1). exists x. split; [congruence|assumption]. }
      destruct (start_cleans c); cbn [fst snd].
      * split; [discriminate|]. split.
        -- intros _. right.
           destruct (emit_on_view c s2 (emit (set_flags s2 false (pred (hooks s2)) false) cursor_on)
                       (SInv_view c s2 I2) eq_refl eq_refl eq_refl eq_refl eq_refl) as [V _].
           destruct Hi as [A0 B0 C0 D0 E0]. rewrite Es in C0.
           assert (Hg0 : g_live s = false) by (destruct (g_live s); [specialize (E0 eq_refl); congruence|reflexivity]).
           split; [exact V|]. split; [reflexivity|]. split.
           ++ cbn [fst emit set_flags hooks]. rewrite Q6. subst s1. cbn [emit set_flags hooks]. exact C0.
           ++ unfold shape_ok. cbn [fst emit set_flags g_live shape g_shown]. rewrite Q4, Q7. subst s1.
              cbn [emit set_flags g_live shape]. rewrite Hg0. exact Hsh.
        -- destruct (emit_on_view c s2 (emit (set_flags s2 false (pred (hooks s2)) false) cursor_on)
                       (SInv_view c s2 I2) eq_refl eq_refl eq_refl eq_refl eq_refl) as [_ M3].
           apply (movedk_trans c s s2); [exact M2|]. rewrite Q2 in M3. exact M3.
      * split; [discriminate|]. split; [intros _; left; exact I2|exact M2].
Qed.

Lemma stop_f : forall c s, SInv c s -> op_ok c s Stop = true -> Outc c s (stop c s).
Proof.
  intros c s Hi Hok. destruct (started s) eqn:Es.
  2:{ unfold stop. rewrite Es. cbn [negb]. split; [intros _; assumption|]. split; [discriminate|now apply movedk_same]. }
  destruct (refresh_dich c (stop_s1 c s)) as [L|[R1 R2]].
  - assert (E : Live.step c s Stop = Live.step (clr c) s Stop).
    { cbn [Live.step]. rewrite (stop_unfold c s Es), (stop_unfold (clr c) s Es).
      change (stop_s1 (clr c) s) with (stop_s1 c s). rewrite L. reflexivity. }
    exact (out_nofault c s Stop E Hi Hok).
  - rewrite (stop_unfold c s Es). destruct (refresh c (stop_s1 c s)) as [sr raised]. cbn [fst snd] in *. subst raised.
    destruct Hi as [A B C D E0]. destruct R2 as (Q1 & Q2 & Q3 & Q4 & Q5 & Q6 & Q7).
    assert (X : out (stop_s1 c s) = out s /\ g_printed (stop_s1 c s) = g_printed s /\ g_shown (stop_s1 c s) = g_shown s
                /\ g_live (stop_s1 c s) = g_live s).
    { unfold stop_s1. destruct (c_progress c); [repeat split|].
      destruct (c_vis_unless_transient c && c_transient c); repeat split. }
    destruct X as (X1 & X2 & X3 & X4).
    set (s2 := after_refresh c s sr true).
    assert (Y : out s2 = out s /\ g_printed s2 = g_printed s /\ g_shown s2 = g_shown s /\ g_live s2 = g_live s).
    { subst s2. unfold after_refresh. destruct (restores c true); cbn [set_ovf out g_printed g_shown g_live];
        repeat split; congruence. }
    destruct Y as (Y1 & Y2 & Y3 & Y4).
    assert (V : SView c s) by (split; assumption).
    destruct (emit_on_view c s (emit (set_flags s2 false (pred (hooks s2)) false) cursor_on) V) as [V4 M4];
      cbn [emit set_flags out g_printed g_shown g_live started]; try congruence.
    split; [discriminate|]. split; [|exact M4]. intros _. right. split; [exact V4|]. split; [reflexivity|].
    assert (Z : hooks (stop_s1 c s) = hooks s /\ shape (stop_s1 c s) = shape s).
    { unfold stop_s1. destruct (c_progress c); [split; reflexivity|].
      destruct (c_vis_unless_transient c && c_transient c); split; reflexivity. }
    destruct Z as [Z1 Z2].
    assert (Y5 : hooks s2 = hooks s /\ shape s2 = shape s).
    { subst s2. unfold after_refresh. destruct (restores c true); cbn [set_ovf hooks shape]; split; congruence. }
    destruct Y5 as [Y5 Y6]. split.
    + cbn [fst emit set_flags hooks]. rewrite Y5, C, Es. reflexivity.
    + unfold shape_ok. cbn [fst emit set_flags g_live shape g_shown]. rewrite Y4, Y3, Y6. exact (D Es).
Qed.

Lemma step_f : forall c s o, SInv c s -> op_ok_f c s o = true -> Outc c s (Live.step c s o).
Proof.
  intros c s o Hi Hok. destruct o; cbn [op_ok_f] in Hok.
  - cbn [Live.step]. destruct (cp_dich c s ls) as [L|[R1 R2]].
    + exact (out_nofault c s (Print ls) L Hi Hok).
    + now apply out_quiet.
  - cbn [Live.step]. destruct (cp_dich c s (log_lines (c_W c) ls)) as [L|[R1 R2]].
    + exact (out_nofault c s (Log ls) L Hi Hok).
    + now apply out_quiet.
  - cbn [Live.step]. apply out_quiet; [reflexivity|apply Quiet_refl|assumption].
  - cbn [Live.step]. destruct r.
    + destruct (refresh_dich c (set_cur s f)) as [L|[R1 R2]].
      * exact (out_nofault c s (Update f true) L Hi Hok).
      * apply out_quiet; [assumption| |assumption]. eapply Quiet_trans; [|exact R2]. repeat split.
    + exact (out_nofault c s (Update f false) eq_refl Hi Hok).
  - cbn [Live.step]. destruct (refresh_dich c s) as [L|[R1 R2]].
    + exact (out_nofault c s Refresh L Hi Hok).
    + now apply out_quiet.
  - now apply start_f.
  - now apply stop_f.
Qed.

(* ---------- whole histories, exceptions included ---------- *)
Fixpoint ops_ok_f (c : cfg) (s : st) (ops : list op) : bool :=
  match ops with
  | [] => true
  | o :: r => op_ok_f c s o &&
              (let '(s1, raised) := Live.step c s o in if raised then true else ops_ok_f c s1 r)
  end.

Lemma run_f : forall c ops s, SInv c s -> ops_ok_f c s ops = true ->
  (snd (run_ops c s ops) = false -> SInv c (fst (run_ops c s ops)))
  /\ (snd (run_ops c s ops) = true -> After c (fst (run_ops c s ops)))
  /\ cursor_chunks_ok (Hn c) (T c s) (run_chunks c s ops) = true.
Proof.
  intros c ops. induction ops as [|o r IH]; intros s Hi Hok.
  - cbn. split; [intros _; assumption|]. split; [discriminate|reflexivity].
  - cbn [ops_ok_f] in Hok. apply andb_prop in Hok. destruct Hok as [H1 H2].
    pose proof (step_f c s o Hi H1) as (S1 & S2 & (x & E & St)).
    cbn [run_ops run_chunks]. destruct (Live.step c s o) as [s1 raised]. cbn [fst snd] in *.
    assert (Hm : forall rest t', t' = T c s1 ->
              cursor_chunks_ok (Hn c) (T c s) ((length (g_printed s), skipn (length (out s)) (out s1)) :: rest)
              = cursor_chunks_ok (Hn c) t' rest).
    { intros rest t' Et. cbn [cursor_chunks_ok]. rewrite E, skipn_app, Nat.sub_diag, skipn_all. cbn [skipn app].
      pose proof (interp_min_fst (Hn c) x (T c s) (cursor_row (T c s))) as F.
      specialize (St (cursor_row (T c s))).
      destruct (interp_min (Hn c) (T c s) x (cursor_row (T c s))) as [t2 m]. cbn [fst snd] in *.
      destruct Hi as [A _ _ _ _]. pose proof (floor_le_row _ _ _ A) as Fl. unfold P_rows in Fl. rewrite map_length in Fl.
      assert (Hle : (length (g_printed s) <=? m)%nat = true) by (apply Nat.leb_le; lia).
      rewrite Hle. cbn [andb]. subst t2 t'. unfold T. now rewrite E, interp_app. }
    destruct raised; cbn [fst snd].
    + split; [discriminate|]. split; [intros _; now apply S2|]. now rewrite (Hm [] _ eq_refl).
    + specialize (IH s1 (S1 eq_refl) H2). destruct IH as (I1 & I2 & I3).
      split; [assumption|]. split; [assumption|]. now rewrite (Hm _ _ eq_refl).
Qed.

(* every history, whatever raises where: what was drawn is right *)
Theorem screen_invariant_f : forall c f0 ops, ops_ok_f c (st0 c f0) ops = true ->
  let s := fst (run_ops c (st0 c f0) ops) in
  view_ok_b (Hn c) (g_live s) (g_printed s) (g_shown s) (out s) = true
  /\ cursor_vis_ok_b (Hn c) (started s) (out s) = true
  /\ cursor_ok_b (Hn c) (run_chunks c (st0 c f0) ops) = true.
Proof.
  intros c f0 ops Hok. cbv zeta.
  pose proof (run_f c ops (st0 c f0) (SInv_init c f0) Hok) as (R1 & R2 & R3).
  assert (V : SView c (fst (run_ops c (st0 c f0) ops))).
  { destruct (snd (run_ops c (st0 c f0) ops)); [apply After_view; now apply R2|apply SInv_view; now apply R1]. }
  destruct (view_of_view c _ V) as [V1 V2]. split; [assumption|]. split; [assumption|exact R3].
Qed.

(* ---------- `with display: body` with exceptions anywhere ---------- *)
Definition block_ok (c : cfg) (f0 : list str) (pre : list (list str)) (body : list op) : bool :=
  forallb lines_ok pre &&
  (let s0 := fst (run_ops c (st0 c f0) (map Print pre)) in
   op_ok c s0 Start &&
   (let '(s1, r1) := start c s0 in
    if r1 then true
    else ops_ok_f c s1 body && op_ok c (fst (run_ops c s1 body)) Stop)).

Lemma prints_inv : forall c pre s, SInv c s -> started s = false -> forallb lines_ok pre = true ->
  snd (run_ops c s (map Print pre)) = false /\ SInv c (fst (run_ops c s (map Print pre)))
  /\ started (fst (run_ops c s (map Print pre))) = false.
Proof.
  intros c pre. induction pre as [|p r IH]; intros s Hi Es Hp.
  - cbn [map run_ops fst snd]. split; [reflexivity|]. split; assumption.
  - cbn [forallb] in Hp. apply andb_prop in Hp. destruct Hp as [H1 H2].
    pose proof (cp_idle c s p Hi Es H1) as R. cbv zeta in R. destruct R as (R1 & R2 & R3 & _).
    cbn [map run_ops Live.step]. destruct (console_print c s p) as [s1 raised]. cbn [fst snd] in *. subst raised.
    now apply IH.
Qed.

Theorem block_screen : forall c f0 pre body, block_ok c f0 pre body = true ->
  let s := fst (run_block c f0 pre body) in
  view_ok_b (Hn c) (g_live s) (g_printed s) (g_shown s) (out s) = true
  /\ cursor_vis_ok_b (Hn c) (started s) (out s) = true.
Proof.
  intros c f0 pre body Hok. cbv zeta. apply view_of_view.
  unfold block_ok in Hok. apply andb_prop in Hok. destruct Hok as [Hpre Hok]. cbv zeta in Hok.
  apply andb_prop in Hok. destruct Hok as [Hstart Hok].
  unfold run_block.
  pose proof (prints_inv c pre (st0 c f0) (SInv_init c f0) eq_refl Hpre) as (P1 & P2 & P3).
  destruct (run_ops c (st0 c f0) (map Print pre)) as [s0 r0]. cbn [fst snd] in *.
  pose proof (start_f c s0 P2 Hstart) as (S1 & S2 & _).
  destruct (start c s0) as [s1 r1]. cbn [fst snd] in *. destruct r1.
  - cbn [fst]. apply After_view. now apply S2.
  - apply andb_prop in Hok. destruct Hok as [Hbody Hstop].
    pose proof (run_f c body s1 (S1 eq_refl) Hbody) as (R1 & R2 & _).
    destruct (run_ops c s1 body) as [s2 r2]. cbn [fst snd] in *.
    assert (A2 : After c s2) by (destruct r2; [now apply R2|left; now apply R1]).
    destruct A2 as [I2|(V2 & E2 & _)].
    + pose proof (stop_f c s2 I2 Hstop) as (T1 & T2 & _). destruct (stop c s2) as [s3 r3]. cbn [fst snd] in *.
      destruct r3; [apply After_view; now apply T2|apply SInv_view; now apply T1].
    + unfold stop. rewrite E2. cbn [negb fst]. exact V2.
Qed.

(* non-vacuity: faults at every index of a history with tall frames, prints and logs *)
Definition fx_cfg (progress tr : bool) (fr fb : option nat) : cfg :=
  mkCfg progress tr OEllipsis 12 3 fr fb true true true true true true true true true.
Definition fx_body : list op :=
  [Refresh; Print (w_lines 4); Update (w_lines 7) true; Log (w_lines 1); PrintRaise; Update [] false; Print (w_lines 1)].
Example block_ok_nonvacuous :
  forallb (fun k => block_ok (fx_cfg false true (Some k) None) (w_lines 2) [w_lines 1] fx_body
                    && block_ok (fx_cfg true false (Some k) None) (w_lines 2) [w_lines 1] fx_body
                    && block_ok (fx_cfg true false None (Some k)) (w_lines 2) [w_lines 1] fx_body)
          (seq 0 8) = true.
Proof. vm_compute. reflexivity. Qed.
Example ops_ok_f_nonvacuous :
  forallb (fun k => ops_ok_f (fx_cfg false false (Some k) None) (st0 (fx_cfg false false (Some k) None) (w_lines 2))
                             (Start :: fx_body ++ [Stop]))
          (seq 0 8) = true.
Proof. vm_compute. reflexivity. Qed.
