(* C17 lemmas: indent guides.  A guide character only ever replaces an ASCII space of a line's
   leading indentation (or is continued through a blank line), guided lines have the cell sizes of
   the source lines, and cropping commutes with removing the guides (`unguide`). *)
From RichModel Require Import Prelude Cells Segments Syntax SpecSyntax.
From RichProofs Require Import CellsP SegmentsP SyntaxP SyntaxP2 SyntaxW.
From Coq Require Import ZifyBool Lia.

Lemma char_size_SP : char_size SP = 1.
Proof. vm_compute. reflexivity. Qed.
Lemma char_size_GUIDE : char_size GUIDE = 1.
Proof. vm_compute. reflexivity. Qed.

Definition gchar (c : Z) : bool := is_sp c || (c =? GUIDE).
Lemma guide_chars_only_eq b : guide_chars_only b = forallb gchar b.
Proof. reflexivity. Qed.

Lemma gchar_size c : gchar c = true -> char_size c = 1.
Proof.
  unfold gchar, is_sp. intros H. destruct (c =? SP) eqn:E.
  - assert (c = SP) by lia. subst. apply char_size_SP.
  - assert (c = GUIDE) by lia. subst. apply char_size_GUIDE.
Qed.

(* ---------------------------------------------------------------- leading spaces *)
Lemma take_drop_sp e : e = take_sp e ++ drop_sp e.
Proof. induction e as [|c r IH]; [reflexivity|]. cbn [take_sp drop_sp]. destruct (is_sp c); [cbn [app]; f_equal; exact IH|reflexivity]. Qed.
Lemma take_sp_spaces e : take_sp e = repeat SP (length (take_sp e)).
Proof.
  induction e as [|c r IH]; [reflexivity|]. cbn [take_sp]. unfold is_sp. destruct (c =? SP) eqn:E; [|reflexivity].
  assert (c = SP) by lia. subst. cbn [length repeat]. f_equal. exact IH.
Qed.
Lemma skipn_take_sp e : skipn (length (take_sp e)) e = drop_sp e.
Proof. rewrite (take_drop_sp e) at 2. apply skipn_app_exact. reflexivity. Qed.
Lemma drop_sp_head e : match drop_sp e with [] => True | c :: _ => is_sp c = false end.
Proof. induction e as [|c r IH]; [exact Logic.I|]. cbn [drop_sp]. destruct (is_sp c) eqn:E; [exact IH|exact E]. Qed.
Lemma blank_drop_sp e : blank e = false -> drop_sp e <> [].
Proof.
  induction e as [|c r IH]; [discriminate|]. unfold blank in *. cbn [forallb drop_sp].
  destruct (is_sp c); [exact IH|discriminate].
Qed.

(* ---------------------------------------------------------------- cropping depends on the sizes only *)
Lemma cell_len_sizes a b : map char_size a = map char_size b -> cell_len a = cell_len b.
Proof. unfold cell_len. intros ->. reflexivity. Qed.

Lemma crop_line_sizes g e w pad :
  map char_size g = map char_size e ->
  exists k t, crop_line g w pad = firstn k g ++ repeat SP t /\ crop_line e w pad = firstn k e ++ repeat SP t.
Proof.
  intros Hs. pose proof (cell_len_sizes _ _ Hs) as Hc.
  assert (Hl : length g = length e) by (rewrite <- (map_length char_size g), Hs, map_length; reflexivity).
  rewrite !crop_line_eq, Hc.
  destruct (cell_len e <? w) eqn:E1.
  - destruct pad.
    + exists (length e), (Z.to_nat (w - cell_len e)). rewrite <- Hl at 1. rewrite !firstn_all. split; reflexivity.
    + exists (length e), 0%nat. rewrite <- Hl at 1. rewrite !firstn_all, !app_nil_r. split; reflexivity.
  - destruct (w <? cell_len e) eqn:E2.
    + unfold set_cell_size. rewrite Hc, Hs.
      replace (cell_len e =? w) with false by lia. replace (cell_len e <? w) with false by lia.
      destruct (pop_loop (rev (map char_size e)) (cell_len e - w)) as [kept ex].
      destruct (ex =? -1).
      * exists (length kept), 1%nat. split; reflexivity.
      * exists (length kept), 0%nat. rewrite !app_nil_r. split; reflexivity.
    + exists (length e), 0%nat. rewrite <- Hl at 1. rewrite !firstn_all, !app_nil_r. split; reflexivity.
Qed.

(* ---------------------------------------------------------------- unguide *)
Lemma unguide_spaces e : forall t, unguide e (repeat SP t) = repeat SP t.
Proof.
  induction e as [|c r IH]; intros t; [destruct t; reflexivity|]. destruct t as [|t]; [reflexivity|].
  cbn [repeat unguide]. destruct (is_sp c); cbn [andb]; [|reflexivity].
  unfold is_sp at 1. rewrite Z.eqb_refl. cbn [orb]. rewrite IH. reflexivity.
Qed.

Lemma unguide_variant : forall ni r k t,
  forallb gchar ni = true -> match r with [] => True | c :: _ => is_sp c = false end ->
  unguide (repeat SP (length ni) ++ r) (firstn k (ni ++ r) ++ repeat SP t)
  = firstn k (repeat SP (length ni) ++ r) ++ repeat SP t.
Proof.
  induction ni as [|g0 ni IH]; intros r k t Hg Hr.
  - cbn [length repeat app]. destruct r as [|c r']; [destruct (firstn k [] ++ repeat SP t); reflexivity|].
    destruct (firstn k (c :: r') ++ repeat SP t) as [|b0 b'] eqn:Eb; [reflexivity|].
    cbn [unguide]. rewrite Hr. reflexivity.
  - cbn [forallb] in Hg. apply andb_true_iff in Hg as [Hg0 Hg].
    cbn [length repeat app]. destruct k as [|k].
    + cbn [firstn app]. apply unguide_spaces.
    + cbn [firstn app unguide]. unfold is_sp at 1. rewrite Z.eqb_refl. cbn [andb].
      unfold gchar in Hg0. rewrite Hg0. f_equal. apply IH; assumption.
Qed.

(* ---------------------------------------------------------------- a guided line *)
(* g is e with its leading indentation overdrawn by guide characters / spaces; a blank e may become
   any run of guide characters and spaces *)
Definition guide_rel (e g : str) : Prop :=
  if blank e then guide_chars_only g = true
  else exists ni, forallb gchar ni = true /\ length ni = length (take_sp e) /\ g = ni ++ drop_sp e.

Lemma sizes_gchars ni : forallb gchar ni = true -> map char_size ni = map char_size (repeat SP (length ni)).
Proof.
  induction ni as [|c r IH]; [reflexivity|]. cbn [forallb]. intros H. apply andb_true_iff in H as [H1 H2].
  cbn [map length repeat]. rewrite (gchar_size c H1), char_size_SP, (IH H2). reflexivity.
Qed.

Lemma firstn_gchars k g : forallb gchar g = true -> forallb gchar (firstn k g) = true.
Proof. apply forallb_firstn. Qed.
Lemma gchars_spaces t : forallb gchar (repeat SP t) = true.
Proof. induction t; [reflexivity|]. exact IHt. Qed.

(* the non-wrapping display of a guided line is right in the sense of guide_line_ok_b *)
Lemma guided_crop_ok e g w pad : 0 <= w -> guide_rel e g ->
  guide_line_ok_b e w (crop_line g w pad) = true.
Proof.
  intros Hw Hr. unfold guide_rel, guide_line_ok_b in *. destruct (blank e) eqn:Eb.
  - destruct (crop_line_sizes g g w pad eq_refl) as [k [t [-> _]]].
    rewrite guide_chars_only_eq in *. rewrite forallb_app, firstn_gchars, gchars_spaces by exact Hr. reflexivity.
  - destruct Hr as [ni [Hg [Hl ->]]].
    assert (He : e = repeat SP (length ni) ++ drop_sp e).
    { rewrite Hl, <- take_sp_spaces. apply take_drop_sp. }
    assert (Hs : map char_size (ni ++ drop_sp e) = map char_size e).
    { rewrite He at 2. rewrite !map_app, (sizes_gchars ni Hg). reflexivity. }
    destruct (crop_line_sizes (ni ++ drop_sp e) e w pad Hs) as [k [t [-> Hce]]].
    assert (Hu : forall e', e' = repeat SP (length ni) ++ drop_sp e ->
                 unguide e' (firstn k (ni ++ drop_sp e) ++ repeat SP t) = firstn k e' ++ repeat SP t).
    { intros e' ->. apply unguide_variant; [exact Hg|apply drop_sp_head]. }
    rewrite (Hu e He), <- Hce. apply crop_line_ok. exact Hw.
Qed.

(* ---------------------------------------------------------------- guides_go / with_guides *)
Lemma Z_of_guide_indent_length size n : 1 <= size -> 0 <= n ->
  Z.of_nat (length (guide_indent size n)) = n.
Proof.
  intros Hs Hn. unfold guide_indent. rewrite app_length, length_py_repeat.
  assert (Hq : forall q, length (concat (repeat (GUIDE :: py_repeat SP (size - 1)) q)) = (q * Z.to_nat size)%nat).
  { induction q; [reflexivity|]. cbn [repeat concat]. rewrite app_length, IHq. cbn [length]. rewrite length_py_repeat. lia. }
  rewrite Hq. rewrite Nat2Z.inj_add, Nat2Z.inj_mul.
  pose proof (Z.div_mod n size ltac:(lia)) as Hdm.
  pose proof (Z.mod_pos_bound n size ltac:(lia)) as Hmb.
  assert (0 <= n / size) by (apply Z.div_pos; lia).
  rewrite !Z2Nat.id by lia. lia.
Qed.

Lemma guide_indent_gchars size n : forallb gchar (guide_indent size n) = true.
Proof.
  unfold guide_indent. rewrite forallb_app. apply andb_true_iff. split.
  - induction (Z.to_nat (n / size)); [reflexivity|]. cbn [repeat concat]. rewrite forallb_app, IHn0, andb_true_r.
    cbn [forallb]. unfold py_repeat. rewrite gchars_spaces. reflexivity.
  - unfold py_repeat. apply gchars_spaces.
Qed.

Lemma Forall2_blank_pending pend x : Forall (fun l => blank l = true) pend -> forallb gchar x = true ->
  Forall2 guide_rel pend (repeat x (length pend)).
Proof.
  induction 1 as [|l pend Hl Hp IH]; intros Hx; [constructor|]. cbn [length repeat]. constructor; [|apply IH; exact Hx].
  unfold guide_rel. rewrite Hl. exact Hx.
Qed.

Lemma guides_go_rel size : 1 <= size -> forall lines pend,
  Forall (fun l => blank l = true) pend ->
  Forall2 guide_rel (pend ++ lines) (guides_go size lines (length pend)).
Proof.
  intros Hs. induction lines as [|l r IH]; intros pend Hp.
  - rewrite app_nil_r. cbn [guides_go]. apply Forall2_blank_pending; [exact Hp|reflexivity].
  - cbn [guides_go]. change (all_sp l) with (blank l). destruct (blank l) eqn:Eb.
    + replace (pend ++ l :: r) with ((pend ++ [l]) ++ r) by (rewrite <- app_assoc; reflexivity).
      replace (S (length pend)) with (length (pend ++ [l])) by (rewrite app_length; cbn [length]; lia).
      apply IH. apply Forall_app. split; [exact Hp|constructor; [exact Eb|constructor]].
    + apply Forall2_app.
      * apply Forall2_blank_pending; [exact Hp|apply guide_indent_gchars].
      * constructor; [|apply (IH []); constructor].
        unfold guide_rel. rewrite Eb. exists (guide_indent size (zlen (take_sp l))).
        split; [apply guide_indent_gchars|]. split.
        -- apply Nat2Z.inj. rewrite Z_of_guide_indent_length; [reflexivity|exact Hs|apply zlen_nonneg].
        -- rewrite skipn_take_sp. reflexivity.
Qed.

Lemma resplit_shape L : L <> [] -> exists rest, L = resplit L ++ rest /\ forallb blank rest = true /\ (length rest <= 1)%nat.
Proof.
  intros Hne. unfold resplit. destruct L as [|a [|b L']]; [congruence| |].
  - exists []. rewrite app_nil_r. repeat split; cbn [length]; lia.
  - destruct (last (a :: b :: L') [SP]) as [|c l'] eqn:El.
    + exists [[]]. split; [|split; [reflexivity|cbn [length]; lia]].
      rewrite <- El. apply app_removelast_last. discriminate.
    + exists []. rewrite app_nil_r. repeat split; cbn [length]; lia.
Qed.

Lemma resplit_nonempty L : resplit L <> [].
Proof.
  unfold resplit. destruct L as [|a [|b L']]; try discriminate.
  destruct (last (a :: b :: L') [SP]); [|discriminate]. cbn [removelast]. discriminate.
Qed.

Lemma guide_rel_nil_blank e : guide_rel e [] -> blank e = true.
Proof.
  unfold guide_rel. destruct (blank e) eqn:Eb; [reflexivity|]. intros [ni [_ [_ H]]].
  symmetry in H. apply app_eq_nil in H as [_ H]. exfalso. exact (blank_drop_sp e Eb H).
Qed.

Theorem with_guides_rel size S0 : 1 <= size -> S0 <> [] ->
  exists S1 rest, S0 = S1 ++ rest /\ forallb blank rest = true /\ Forall2 guide_rel S1 (with_guides size S0).
Proof.
  intros Hs Hne. unfold with_guides.
  destruct (resplit_shape S0 Hne) as [r1 [H1 [Hb1 _]]].
  set (S' := resplit S0) in *.
  pose proof (guides_go_rel size Hs S' [] (Forall_nil _)) as HF. cbn [app length] in HF.
  set (G' := guides_go size S' 0) in *.
  assert (HG' : G' <> []).
  { intros E. rewrite E in HF. inversion HF as [Hs'|]. exact (resplit_nonempty S0 (eq_sym Hs')). }
  destruct (resplit_shape G' HG') as [r2 [H2 [Hb2 Hl2]]].
  rewrite H2 in HF. apply Forall2_app_inv_r in HF as [S1 [S2 [HF1 [HF2 HS]]]].
  exists S1, (S2 ++ r1). split; [rewrite H1, HS, app_assoc; reflexivity|]. split; [|exact HF1].
  rewrite forallb_app, Hb1, andb_true_r.
  destruct r2 as [|x r2].
  - destruct S2; [reflexivity|inversion HF2].
  - destruct r2; [|cbn [length] in Hl2; lia].
    destruct S2 as [|e S2]; [inversion HF2|]. destruct S2; [|inversion HF2 as [|? ? ? ? ? HF2']; inversion HF2'].
    assert (He : guide_rel e x) by (inversion HF2; assumption).
    cbn [forallb] in Hb2. apply andb_true_iff in Hb2 as [Hx _].
    cbn [forallb]. rewrite andb_true_r.
    (* x is blank and a guided image of e: e is blank *)
    unfold guide_rel in He. destruct (blank e) eqn:Eb; [reflexivity|].
    destruct He as [ni [_ [_ Hx']]]. subst x. unfold blank in Hx. rewrite forallb_app in Hx.
    apply andb_true_iff in Hx as [_ Hd]. pose proof (drop_sp_head e) as Hh. pose proof (blank_drop_sp e Eb) as Hn.
    destruct (drop_sp e) as [|c d]; [congruence|]. cbn [forallb] in Hd. rewrite Hh in Hd. discriminate.
Qed.

(* ---------------------------------------------------------------- a displayed line shows its source line *)
Lemma filter_comm {A} (f g : A -> bool) l : filter f (filter g l) = filter g (filter f l).
Proof.
  induction l as [|x l IH]; [reflexivity|]. cbn [filter].
  destruct (g x) eqn:Eg, (f x) eqn:Ef; cbn [filter]; rewrite ?Eg, ?Ef, IH; reflexivity.
Qed.

Definition ngf (s : str) : str := filter (fun c => negb (c =? GUIDE)) s.

Lemma ng_uns_gchars x : forallb gchar x = true -> ngf (uns x) = [].
Proof.
  induction x as [|c r IH]; [reflexivity|]. cbn [forallb]. intros H. apply andb_true_iff in H as [Hc Hr].
  unfold ngf, uns, Wrap.nonspace in *. cbn [filter]. unfold gchar, is_sp in Hc.
  destruct (c =? SP) eqn:E.
  - assert (c = SP) by lia. subst. rewrite is_space_SP. cbn [negb]. apply IH. exact Hr.
  - assert (Hg : (c =? GUIDE) = true) by lia. destruct (negb (Wrap.is_space c)); cbn [filter]; rewrite ?Hg; cbn [negb]; apply IH; exact Hr.
Qed.

Lemma nls_gchars x : forallb gchar x = true -> nls x = 0%nat.
Proof.
  induction x as [|c r IH]; [reflexivity|]. cbn [forallb nls]. intros H. apply andb_true_iff in H as [Hc Hr].
  unfold gchar, is_sp in Hc. replace (c =? NL) with false by (unfold GUIDE, SP, NL in *; lia). apply IH. exact Hr.
Qed.

Lemma blank_gchars e : blank e = true -> forallb gchar e = true.
Proof.
  unfold blank. induction e as [|c r IH]; [reflexivity|]. cbn [forallb]. intros H. apply andb_true_iff in H as [Hc Hr].
  rewrite (IH Hr). unfold gchar. rewrite Hc. reflexivity.
Qed.

Section Shows.
Variable wrapf : str -> Z -> bool -> list str.
Hypothesis HWrap : WrapOk wrapf.
Variable o : opts.
Variable cw : Z.
Hypothesis Hcw : 0 <= cw.
Hypothesis Hww : o_word_wrap o = true -> 2 <= cw.

Lemma line_shows_plain l : o_indent_guides o = false -> nlfree l -> line_shows wrapf o cw l l.
Proof.
  intros Hg Hn. unfold line_shows, wrapped_lines, body_ok_b. rewrite Hg. destruct (o_word_wrap o) eqn:Eww.
  - pose proof (HWrap l cw (negb (o_transparent o)) (Hww eq_refl) Hn) as H.
    destruct (wrapf l cw (negb (o_transparent o))) as [|w ws] eqn:E.
    + unfold wrap_ok_b in H. rewrite andb_false_r in H. discriminate.
    + exists w, ws. repeat split; [discriminate|exact H].
  - eexists _, []. repeat split. apply crop_line_ok. exact Hcw.
Qed.

Lemma line_shows_guided e g : o_indent_guides o = true -> nlfree e -> guide_rel e g -> line_shows wrapf o cw e g.
Proof.
  intros Hg Hn Hr. unfold line_shows, wrapped_lines, body_ok_b. rewrite Hg. destruct (o_word_wrap o) eqn:Eww.
  - (* wrapped: the non-whitespace characters with the guide characters removed are those of e *)
    assert (Hng : nlfree g /\ ngf (uns g) = ngf (uns e)).
    { unfold guide_rel in Hr. destruct (blank e) eqn:Eb.
      - rewrite guide_chars_only_eq in Hr. split; [apply nls_gchars; exact Hr|].
        rewrite (ng_uns_gchars g Hr), (ng_uns_gchars e (blank_gchars e Eb)). reflexivity.
      - destruct Hr as [ni [Hgc [Hl ->]]]. split.
        + unfold nlfree in *. rewrite nls_app, (nls_gchars ni Hgc). rewrite (take_drop_sp e), nls_app in Hn. lia.
        + rewrite (take_drop_sp e) at 2. unfold ngf. rewrite !uns_app, !filter_app.
          fold (ngf (uns ni)) (ngf (uns (take_sp e))). rewrite (ng_uns_gchars ni Hgc).
          rewrite (ng_uns_gchars (take_sp e)); [reflexivity|]. rewrite take_sp_spaces. apply gchars_spaces. }
    destruct Hng as [Hng Heq].
    pose proof (HWrap g cw (negb (o_transparent o)) (Hww eq_refl) Hng) as H.
    destruct (wrapf g cw (negb (o_transparent o))) as [|w ws] eqn:E.
    + unfold wrap_ok_b in H. rewrite andb_false_r in H. discriminate.
    + exists w, ws. split; [reflexivity|]. split; [discriminate|].
      unfold wrap_ok_b in H. apply andb_true_iff in H as [H H3]. apply andb_true_iff in H as [H1 H2].
      apply str_eqb_eq in H1. rewrite H2. cbn [negb andb]. rewrite andb_true_r.
      fold (ngf (concat (w :: ws))) (ngf e).
      assert (Hc : uns (ngf (concat (w :: ws))) = uns (ngf e)).
      { unfold uns, Wrap.nonspace, ngf. rewrite (filter_comm _ _ (concat (w :: ws))), (filter_comm _ _ e).
        fold (Wrap.nonspace (concat (w :: ws))) (Wrap.nonspace e). fold (uns (concat (w :: ws))) (uns e).
        fold (ngf (uns (concat (w :: ws)))) (ngf (uns e)). rewrite H1. exact Heq. }
      rewrite Hc, str_eqb_refl. reflexivity.
  - eexists _, []. split; [reflexivity|]. split; [reflexivity|]. apply guided_crop_ok; assumption.
Qed.
End Shows.
