(* Table width solving, the budget-below-the-column-count case (C01/C07/C09): with fewer cells
   than columns the water-filling collapse leaves every column at 0 or 1, and
   _calculate_column_widths answers one cell per column. *)
From RichModel Require Import Prelude Cells Segments Ratio Table SpecTable.
From RichProofs Require Import CellsP RatioP TableP LayoutP2.
From Coq Require Import ZifyBool.

(* ------------------------------------------------------------------ small facts *)
Lemma sumZ_ge_len : forall ws, Forall (fun w => 1 <= w) ws -> zlen ws <= sumZ ws.
Proof.
  induction 1 as [|w ws Hw _ IH]; [reflexivity|]. rewrite sumZ_cons. unfold zlen in *. cbn [length]. lia.
Qed.

Lemma sumZ_repeat1 n : sumZ (repeat 1 n) = Z.of_nat n.
Proof. induction n as [|n IH]; [reflexivity|]. cbn [repeat]. rewrite sumZ_cons, IH. lia. Qed.

Lemma Forall_repeat {A} (P : A -> Prop) x n : P x -> Forall P (repeat x n).
Proof. intros H. apply Forall_forall. intros y Hy. apply repeat_spec in Hy. subst. exact H. Qed.

Lemma step_ok_le1 : forall ws al os, step_ok ws al os -> Forall (fun w => w <= 1) ws -> Forall (fun w => w <= 1) os.
Proof.
  induction 1 as [|w a o ws al os H1 H2 _ IH]; intros Hw; [constructor|].
  inversion Hw; subst. constructor; [lia|apply IH; assumption].
Qed.

(* ------------------------------------------------------------------ the lower twin of round_div_cap *)
Lemma round_div_floor rem tr k : 1 <= tr -> 0 <= k -> tr * k <= rem ->
  let q := round_div (1 * rem) tr in k <= q /\ (tr - 1) * k <= rem - q.
Proof.
  intros Ht Hk Hlow q.
  pose proof (round_div_bounds (1 * rem) tr ltac:(lia)) as Hb. fold q in Hb.
  replace (1 * rem) with rem in Hb by lia.
  split.
  - destruct (Z_lt_le_dec q k) as [Hq|Hq]; [exfalso|exact Hq].
    assert (tr * q <= tr * (k - 1)) by (apply Z.mul_le_mono_nonneg_l; lia). lia.
  - destruct (Z_lt_le_dec (rem - q) ((tr - 1) * k)) as [Hq|Hq]; [exfalso|exact Hq].
    assert (H1 : (tr - 1) * (tr * k) <= (tr - 1) * rem) by (apply Z.mul_le_mono_nonneg_l; lia).
    assert (H2 : tr * (rem - q) <= tr * ((tr - 1) * k - 1)) by (apply Z.mul_le_mono_nonneg_l; lia).
    lia.
Qed.

(* every ratio 1, tr * k <= rem, every cap at least k: every amount is at least k *)
Lemma amounts_allone_lower : forall ratios maxs rem tr k,
  length maxs = length ratios -> Forall (fun r => r = 1) ratios -> tr = sumZ ratios ->
  0 <= k -> tr * k <= rem -> Forall (fun m => k <= m) maxs ->
  Forall (fun a => k <= a) (amounts ratios maxs rem tr).
Proof.
  induction ratios as [|r rs IH]; intros [|m ms] rem tr k Hlen Hr Htr Hk Hlow Hm; try discriminate.
  - constructor.
  - inversion Hr as [|? ? Hr1 Hrs]; inversion Hm as [|? ? Hm0 Hms]; subst.
    rewrite sumZ_cons in *.
    assert (Hs : 0 <= sumZ rs) by (rewrite (sumZ_all_one rs Hrs); unfold zlen; lia).
    cbn [amounts]. replace (negb (1 =? 0) && (0 <? 1 + sumZ rs)) with true by lia.
    destruct (round_div_floor rem (1 + sumZ rs) k ltac:(lia) Hk Hlow) as [Q1 Q2].
    cbv zeta in Q1, Q2.
    set (q := round_div (1 * rem) (1 + sumZ rs)) in *.
    constructor; [lia|].
    apply IH; try assumption; try lia.
    simpl in Hlen; lia.
Qed.

Lemma zsub_all_eq_le1 : forall ws al L, Forall (fun w => w = L) ws -> Forall (fun a => L - 1 <= a) al ->
  Forall (fun w => w <= 1) (zsub ws al).
Proof.
  induction ws as [|w ws IH]; intros [|a al] L Hw Ha; cbn [zsub]; try constructor.
  - inversion Hw; inversion Ha; subst. lia.
  - inversion Hw; inversion Ha; subst. eapply IH; eassumption.
Qed.

(* ------------------------------------------------------------------ one pass: all >= 1 or all <= 1 *)
Lemma collapse_step_small ws al excess ws' :
  length al = length ws -> forallb (fun a : bool => a) al = true ->
  Forall (fun w => 1 <= w) ws -> 0 < excess -> sumZ ws - zlen ws < excess ->
  collapse_step ws al excess = Ok (Some ws') ->
  Forall (fun w => 1 <= w) ws' \/ Forall (fun w => w <= 1) ws'.
Proof.
  intros Hl Ha Hw Hex Hroom. unfold collapse_step.
  rewrite (sel_all_wrapable ws al Hl Ha).
  destruct (max_list ws) as [Mx|] eqn:HM; [|discriminate].
  destruct (max_list_spec _ _ HM) as [HMin HMle].
  assert (HM1 : 1 <= Mx) by (rewrite Forall_forall in Hw; apply Hw; exact HMin).
  assert (Hn1 : 1 <= zlen ws) by (destruct ws; [contradiction|unfold zlen; cbn [length]; lia]).
  assert (Hw0 : Forall (fun w => 0 <= w) ws) by (eapply Forall_impl; [|exact Hw]; cbv beta; lia).
  assert (HMle' : Forall (fun y => y <= Mx) (sel_wrapable ws al)) by (rewrite (sel_all_wrapable ws al Hl Ha); exact HMle).
  destruct (second_cands_facts ws al Mx Hl Hw0 HMle' ltac:(lia)) as [Hc Hcl].
  destruct (max_list (second_cands ws al Mx)) as [S|] eqn:HS; [|discriminate].
  destruct (max_list_spec _ _ HS) as [HSin HSle].
  rewrite Forall_forall in Hc. destruct (Hc S HSin) as [HS0 HS1].
  destruct (max_ratios_facts ws al Mx Hl) as [R1 [R2 R3]].
  destruct (negb (any_nonzero (max_ratios ws al Mx)) || (Mx - S =? 0)) eqn:Ec; [discriminate|].
  apply orb_false_iff in Ec as [_ Ed].
  intros H. injection H as <-.
  set (mr := Z.min excess (Mx - S)).
  assert (Hmr : 1 <= mr <= Mx - S) by (unfold mr; lia).
  set (maxs := repeat mr (length ws)).
  assert (Hml : length maxs = length (max_ratios ws al Mx)) by (unfold maxs; rewrite repeat_length; lia).
  assert (Hmall : forall P : Z -> Prop, P mr -> Forall P maxs) by (intros P HP; apply Forall_repeat; exact HP).
  unfold ratio_reduce. rewrite zip_mask_id; [|exact Hml|apply Hmall; lia].
  destruct (sumZ (max_ratios ws al Mx) =? 0) eqn:Ez; [left; exact Hw|].
  rewrite reduce_loop_amounts.
  destruct (Z_lt_le_dec S 1) as [HSz|HSp].
  - (* all columns equal: every one of them loses at least Mx - 1 *)
    right. assert (S = 0) by lia. subst S.
    destruct (second_zero_all_max ws al Mx Hl Ha Hw HSle) as [Hall Hone].
    rewrite (sumZ_all_eq ws Mx Hall) in Hroom.
    assert (Hnk : 1 * (Mx - 1) <= zlen ws * (Mx - 1)) by (apply Z.mul_le_mono_nonneg_r; lia).
    apply (zsub_all_eq_le1 ws _ Mx Hall).
    apply amounts_allone_lower; try assumption; try reflexivity; try lia.
    + rewrite (sumZ_all_one _ Hone). unfold zlen in *. rewrite R2. lia.
    + apply Hmall. unfold mr. lia.
  - left.
    destruct (amounts_bound (max_ratios ws al Mx) maxs excess _ Hml eq_refl R1 ltac:(apply Hmall; lia) ltac:(lia)) as [A1 _].
    cbv zeta in A1.
    apply (zsub_max_pos ws al maxs _ Mx S Hl A1); [apply Hmall; lia|exact Hw|exact HSp].
Qed.

(* ------------------------------------------------------------------ the loop *)
Lemma collapse_loop_small M al : forall fuel ws out,
  length al = length ws -> forallb (fun a : bool => a) al = true -> existsb (fun b => b) al = true ->
  ws <> [] -> M < zlen ws -> Forall (fun w => 0 <= w) ws ->
  (Forall (fun w => 1 <= w) ws \/ Forall (fun w => w <= 1) ws) ->
  collapse_loop fuel ws al M = Ok out ->
  Forall (fun w => w <= 1) out /\ Forall (fun w => 0 <= w) out /\ length out = length ws.
Proof.
  induction fuel as [|f IH]; intros ws out Hl Ha He Hne HM Hw0 HJ; [discriminate|].
  cbn [collapse_loop].
  destruct (negb (sumZ ws =? 0) && (0 <? sumZ ws - M)) eqn:E.
  - destruct (collapse_step_spec ws al (sumZ ws - M) Hl Hw0 He ltac:(lia)) as [[H1 H1b]|[ws' [H1 [H2 _]]]].
    + rewrite H1. intros H. injection H as <-.
      destruct HJ as [HJ|HJ]; [exfalso|repeat split; assumption].
      rewrite (sel_all_wrapable ws al Hl Ha) in H1b.
      destruct ws as [|w ws]; [congruence|]. inversion HJ; inversion H1b; subst. lia.
    + rewrite H1. destruct (step_ok_facts _ _ _ H2) as [F1 [F2 [F3 _]]]. intros Hc.
      assert (HJ' : Forall (fun w => 1 <= w) ws' \/ Forall (fun w => w <= 1) ws').
      { destruct HJ as [HJ|HJ].
        - apply (collapse_step_small ws al (sumZ ws - M) ws' Hl Ha HJ); [lia|lia|exact H1].
        - right. eapply step_ok_le1; eassumption. }
      destruct (IH ws' out ltac:(lia) Ha He ltac:(destruct ws'; [destruct ws; [congruence|discriminate]|discriminate])
                   ltac:(unfold zlen in *; lia) F3 HJ' Hc) as [I1 [I2 I3]].
      repeat split; [exact I1|exact I2|lia].
  - intros H. injection H as <-.
    destruct HJ as [HJ|HJ]; [exfalso|repeat split; assumption].
    pose proof (sumZ_ge_len ws HJ).
    assert (1 <= zlen ws) by (destruct ws; [congruence|unfold zlen; cbn [length]; lia]). lia.
Qed.

(* GOAL A *)
Lemma collapse_small : forall widths wrapable M out,
  length wrapable = length widths -> Forall (fun b => b = true) wrapable ->
  Forall (fun w => 1 <= w) widths -> widths <> [] ->
  M < zlen widths -> collapse_widths widths wrapable M = Ok out ->
  Forall (fun w => 0 <= w <= 1) out /\ length out = length widths.
Proof.
  intros ws al M out Hl Hall Hw Hne HM Hc.
  pose proof (Forall_true_forallb al Hall) as Ha.
  assert (He : existsb (fun b => b) al = true).
  { apply forallb_existsb_id; [|exact Ha]. destruct al; [destruct ws; [congruence|discriminate]|discriminate]. }
  assert (Hw0 : Forall (fun w => 0 <= w) ws) by (eapply Forall_impl; [|exact Hw]; cbv beta; lia).
  unfold collapse_widths, collapse_widths_fuel in Hc. rewrite He in Hc.
  destruct (collapse_loop_small M al _ ws out Hl Ha He Hne HM Hw0 (or_introl Hw) Hc) as [I1 [I2 I3]].
  split; [|exact I3].
  apply Forall_forall. intros x Hx. rewrite Forall_forall in I1, I2. specialize (I1 x Hx). specialize (I2 x Hx). lia.
Qed.

(* ================================================================== GOAL B *)
(* the last-resort ratio_reduce(excess, [1]*n, widths, widths) keeps widths in {0, 1} *)
Lemma zsub_01 : forall rs ws al, amt_ok rs ws al -> Forall (fun w => 0 <= w <= 1) ws ->
  Forall (fun w => 0 <= w <= 1) (zsub ws al).
Proof.
  induction 1 as [|r m a rs ms al Ha _ _ IH]; intros Hw; [constructor|].
  inversion Hw; subst. cbn [zsub]. constructor; [lia|apply IH; assumption].
Qed.

Lemma ratio_reduce_01 total ratios ws :
  length ratios = length ws -> Forall (fun r => 0 <= r) ratios -> 0 <= total ->
  Forall (fun w => 0 <= w <= 1) ws ->
  Forall (fun w => 0 <= w <= 1) (ratio_reduce total ratios ws ws) /\
  length (ratio_reduce total ratios ws ws) = length ws.
Proof.
  intros Hl Hr Ht Hw. unfold ratio_reduce.
  destruct (sumZ (zip_mask ratios ws) =? 0); [split; [exact Hw|reflexivity]|].
  rewrite reduce_loop_amounts.
  pose proof (zip_mask_length ratios ws ltac:(lia)) as Hzl.
  assert (Hw0 : Forall (fun m => 0 <= m) ws) by (eapply Forall_impl; [|exact Hw]; cbv beta; lia).
  destruct (amounts_bound (zip_mask ratios ws) ws total _ ltac:(lia) eq_refl (zip_mask_nonneg _ _ Hr) Hw0 Ht) as [A1 _].
  cbv zeta in A1. split; [eapply zsub_01; eassumption|].
  apply zsub_length. rewrite amounts_length; lia.
Qed.

(* the re-measure of free columns at widths 0 or 1 answers 1 everywhere *)
Lemma remeasure_ones o : pad_ok o -> forall w2 icols,
  Forall (fun w => 0 <= w <= 1) w2 -> length w2 = length icols -> Forall (fun ic => col_free (snd ic)) icols ->
  map (fun '(w, (i, c)) => or1 (snd (measure_column o i c w))) (combine w2 icols) = repeat 1 (length icols).
Proof.
  intros Hp. induction w2 as [|w w2 IH]; intros [|[i c] icols] Hw Hl Hc; try discriminate; [reflexivity|].
  inversion Hw; inversion Hc; subst. cbn [combine map length repeat]. cbn [snd] in *.
  f_equal; [|apply IH; [assumption|simpl in Hl; lia|assumption]].
  destruct (measure_column_snd o i c w Hp ltac:(assumption)) as [Ms1 Ms2].
  assert (Hx : 0 <= snd (measure_column o i c w) <= 1).
  { destruct (Z.eq_dec w 0) as [->|Hn]; [|specialize (Ms2 ltac:(lia)); lia].
    unfold measure_column. replace (0 <? 1) with true by reflexivity. cbn [snd]. lia. }
  unfold or1. destruct (snd (measure_column o i c w) =? 0) eqn:E; lia.
Qed.

(* the widths after the ratio-column stage are all at least one cell *)
Lemma stage1_pos o cols M wd : pad_ok o -> Forall col_free cols ->
  (let icols := indexed 0 cols in
   let ranges := map (fun '(i, c) => measure_column o i c M) icols in
   let widths := map (fun r => or1 (snd r)) ranges in
   if t_expand o then
     let ratios := map (fun c => opt_or (c_ratio c) 0) (filter flexible cols) in
     if any_nonzero ratios then
       let fixed := map (fun '(r, c) => if flexible c then 0 else snd r) (combine ranges cols) in
       let flex_min := map (fun '(i, c) => opt_or (c_width c) 1 + padding_width o i)
                           (filter (fun ic => flexible (snd ic)) icols) in
       let flexible_width := M - sumZ fixed in
       do fw <- ratio_distribute flexible_width ratios (Some flex_min);
       assign_flex cols widths fixed fw
     else Ok widths
   else Ok widths) = Ok wd ->
  Forall (fun w => 1 <= w) wd /\ length wd = length cols.
Proof.
  intros Hp Hfree. cbv zeta.
  pose proof (indexed_forall col_free cols 0%nat Hfree) as Hifree.
  destruct (initial_widths_pos o M Hp _ Hifree) as [Hr0 Hw0]. cbv zeta in Hr0, Hw0.
  set (icols := indexed 0 cols) in *.
  set (ranges := map (fun '(i, c) => measure_column o i c M) icols) in *.
  set (ws0 := map (fun r => or1 (snd r)) ranges) in *.
  assert (Hl0 : length ws0 = length cols).
  { unfold ws0, ranges, icols. rewrite !map_length. apply indexed_length. }
  intros E1.
  destruct (t_expand o); [|injection E1 as <-; split; assumption].
  destruct (any_nonzero _) in E1; [|injection E1 as <-; split; assumption].
  match type of E1 with bind ?e _ = _ => destruct e as [fw| |] eqn:Ed end; cbn [bind] in E1; try discriminate.
  match type of Ed with ratio_distribute _ ?r (Some ?m) = _ => set (ratios := r) in *; set (flex_min := m) in * end.
  assert (Hrat : Forall (fun r => 1 <= r) ratios).
  { unfold ratios. apply Forall_forall. intros x Hx. apply in_map_iff in Hx as [c [<- Hc]].
    apply filter_In in Hc as [Hc Hfl]. rewrite Forall_forall in Hfree.
    destruct (Hfree c Hc) as [_ [_ [_ [_ [Hr _]]]]]. unfold flexible in Hfl. unfold opt_or.
    destruct (c_ratio c) as [x|]; [|discriminate]. destruct (x =? 0) eqn:Ex; lia. }
  assert (Hmin : Forall (fun m => 1 <= m) flex_min).
  { unfold flex_min. apply Forall_forall. intros x Hx. apply in_map_iff in Hx as [[i c] [<- Hc]].
    apply filter_In in Hc as [Hc _]. apply indexed_in in Hc. rewrite Forall_forall in Hfree.
    destruct (Hfree c Hc) as [Hcw _]. rewrite Hcw. cbn [opt_or].
    pose proof (padding_width_nonneg o i Hp). lia. }
  assert (Hlm : length flex_min = length ratios).
  { unfold flex_min, ratios. rewrite !map_length. apply filter_indexed_length. }
  assert (Hzm : zip_mask ratios flex_min = ratios).
  { apply zip_mask_id; [exact Hlm|]. eapply Forall_impl; [|exact Hmin]. cbv beta. lia. }
  pose proof (ratio_distribute_min _ ratios flex_min fw
                ltac:(rewrite Hzm; eapply Forall_impl; [|exact Hrat]; cbv beta; lia) Hlm Ed) as Hdm.
  pose proof (distribute_min_pos _ _ Hdm Hmin) as Hfw.
  match type of E1 with assign_flex _ _ ?fx _ = _ => assert (Hfix : Forall (fun z => 0 <= z) fx) end.
  { apply Forall_forall. intros x Hx. apply in_map_iff in Hx as [[r c] [<- Hrc]].
    destruct (flexible c); [lia|]. apply in_combine_l in Hrc. rewrite Forall_forall in Hr0. apply Hr0. exact Hrc. }
  destruct (assign_flex_pos _ _ _ _ _ E1 Hw0 Hfix Hfw) as [A1 A2]. split; [exact A1|lia].
Qed.

Lemma all_wrapable cols : Forall col_free cols -> Forall (fun b => b = true) (map wrapable cols).
Proof.
  intros Hfree. apply Forall_forall. intros b Hb. apply in_map_iff in Hb as [c [<- Hc]].
  rewrite Forall_forall in Hfree. destruct (Hfree c Hc) as [Hcw [_ [Hnw _]]].
  unfold wrapable. rewrite Hcw, Hnw. reflexivity.
Qed.

Theorem calc_widths_small : forall o cols M ws,
  o_minw o = None -> cols <> [] -> Forall col_free cols -> pad_ok o -> M < zlen cols ->
  calc_widths false false o cols M = Ok ws -> ws = repeat 1 (length cols).
Proof.
  intros o cols M ws Hmw Hne Hfree Hp HM.
  unfold calc_widths. rewrite Hmw. cbv zeta.
  pose proof (indexed_forall col_free cols 0%nat Hfree) as Hifree.
  match goal with |- bind ?e _ = _ -> _ => destruct e as [wd|e1|k1] eqn:E1 end; cbn [bind]; try discriminate.
  destruct (stage1_pos o cols M wd Hp Hfree E1) as [Hwd Hld]. clear E1.
  pose proof (sumZ_ge_len wd Hwd) as Hsum.
  assert (Hwne : wd <> []) by (destruct wd; [destruct cols; [congruence|discriminate]|discriminate]).
  replace (M <? sumZ wd) with true by (unfold zlen in *; lia).
  match goal with |- bind (bind ?e _) _ = _ -> _ => destruct e as [w1| |] eqn:Ec end; cbn [bind]; try discriminate.
  apply collapse_small in Ec; [|rewrite map_length; lia|apply all_wrapable; exact Hfree|exact Hwd|exact Hwne|unfold zlen in *; lia].
  destruct Ec as [C1 C2].
  assert (Hfinish : forall w2, Forall (fun w => 0 <= w <= 1) w2 -> length w2 = length cols ->
    map (fun '(w, (i, c)) => or1 (snd (measure_column o i c w))) (combine w2 (indexed 0 cols)) = repeat 1 (length cols)).
  { intros w2 Ha Hb. rewrite (remeasure_ones o Hp w2 (indexed 0 cols) Ha ltac:(rewrite indexed_length; exact Hb) Hifree).
    rewrite indexed_length. reflexivity. }
  destruct (M <? sumZ w1) eqn:Elt; cbv beta iota.
  - destruct (ratio_reduce_01 (sumZ w1 - M) (repeat 1 (length w1)) w1 ltac:(apply repeat_length)
                ltac:(apply Forall_repeat; lia) ltac:(lia) C1) as [Q1 Q2].
    rewrite (Hfinish _ Q1 ltac:(lia)), sumZ_repeat1. cbn [bind].
    replace (Z.of_nat (length cols) <? M) with false by (unfold zlen in *; lia).
    cbn [andb orb]. intros H. injection H as <-. reflexivity.
  - rewrite (Hfinish _ C1 ltac:(lia)), sumZ_repeat1. cbn [bind].
    replace (Z.of_nat (length cols) <? M) with false by (unfold zlen in *; lia).
    cbn [andb orb]. intros H. injection H as <-. reflexivity.
Qed.

(* calc_widths_fits without the (unused) hypothesis o_width o = None *)
Theorem calc_widths_fits_gen : forall o cols M ws,
  o_minw o = None -> cols <> [] -> Forall col_free cols -> pad_ok o ->
  zlen cols <= M -> calc_widths false false o cols M = Ok ws ->
  length ws = length cols /\ Forall (fun w => 1 <= w) ws /\ sumZ ws <= M /\ (t_expand o = true -> sumZ ws = M).
Proof.
  intros o cols M ws Hmw Hne Hfree Hp HM.
  unfold calc_widths. rewrite Hmw. cbv zeta.
  pose proof (indexed_forall col_free cols 0%nat Hfree) as Hifree.
  match goal with |- bind ?e _ = _ -> _ => destruct e as [wd|e1|k1] eqn:E1 end; cbn [bind]; try discriminate.
  destruct (stage1_pos o cols M wd Hp Hfree E1) as [Hwd Hld]. clear E1.
  match goal with |- bind ?e _ = _ -> _ => destruct e as [[wf twf]|e2|k2] eqn:E2 end; cbn [bind]; try discriminate.
  assert (H2 : Forall (fun w => 1 <= w) wf /\ length wf = length cols /\ twf = sumZ wf /\ twf <= M).
  { destruct (M <? sumZ wd) eqn:Elt.
    - match type of E2 with bind ?e _ = _ => destruct e as [w1| |] eqn:Ec end; cbn [bind] in E2; try discriminate.
      apply collapse_keeps_pos in Ec; [|rewrite map_length; lia|apply all_wrapable; exact Hfree|exact Hwd|unfold zlen in *; lia].
      destruct Ec as [C1 [C2 [C3 C4]]]. specialize (C4 ltac:(lia)).
      replace (M <? sumZ w1) with false in E2 by lia. cbv beta iota in E2.
      injection E2 as <- <-.
      destruct (remeasure_pos o Hp w1 (indexed 0 cols) C1 ltac:(rewrite indexed_length; lia) Hifree) as [R1 [R2 R3]].
      cbv zeta in R1, R2, R3. repeat split; [exact R1|lia|lia].
    - injection E2 as <- <-. repeat split; [exact Hwd|exact Hld|lia]. }
  clear E2. destruct H2 as [Hwf [Hlf [-> Hfit]]].
  rewrite orb_false_r. intros Hfin.
  destruct (finish_fits o wf M ws ltac:(destruct wf; [destruct cols; [congruence|discriminate]|discriminate]) Hwf Hfit Hfin)
    as [F1 F2].
  split; [lia|exact F2].
Qed.

Theorem calc_widths_bound : forall o cols M ws,
  o_minw o = None -> cols <> [] -> Forall col_free cols -> pad_ok o ->
  calc_widths false false o cols M = Ok ws ->
  length ws = length cols /\ Forall (fun w => 1 <= w) ws /\ sumZ ws <= Z.max M (zlen cols).
Proof.
  intros o cols M ws Hmw Hne Hfree Hp Hc.
  destruct (Z_le_gt_dec (zlen cols) M) as [HM|HM].
  - destruct (calc_widths_fits_gen o cols M ws Hmw Hne Hfree Hp HM Hc) as [F1 [F2 [F3 _]]].
    repeat split; [exact F1|exact F2|lia].
  - rewrite (calc_widths_small o cols M ws Hmw Hne Hfree Hp ltac:(lia) Hc).
    rewrite repeat_length, sumZ_repeat1. repeat split; [apply Forall_repeat; lia|unfold zlen; lia].
Qed.
