(* C16 proofs, part 2: typed token stream of a Node, the text of the recursive printer, and the
   matching lemma: the text is the node's token stream up to layout. *)
From RichModel Require Import Prelude Wire Cells Pretty SpecPretty.
From RichProofs Require Import CellsP PrettyP.

(* ---------- typed tokens of a node ---------- *)
Definition sepT (c : node) : list tok := if n_last c then [] else [TSep].
Definition sepX (t1 : bool) (c : node) : list tok := if t1 then [TTup] else sepT c.

Fixpoint ntoks (n : node) : list tok :=
  match n with
  | Node key val o c e _ tup ch =>
      keytoks key ++
      (if nonempty val then [TAtom val]
       else match ch with
            | None => [TAtom []]
            | Some [] => [TAtom e]
            | Some (c0 :: cs) =>
                [TOpen o] ++
                (if tup && single (c0 :: cs)
                 then ntoks c0 ++ [TTup]
                 else (fix go (l : list node) : list tok :=
                         match l with
                         | [] => []
                         | x :: r => (ntoks x ++ sepT x) ++ go r
                         end) (c0 :: cs)) ++
                [TClose c]
            end)
  end.

Definition its (t1 : bool) (cs : list node) : list tok :=
  concat (map (fun c => ntoks c ++ sepX t1 c) cs).

Definition tstr (toks : list tok) : str := concat (map tok_str toks).

Lemma tstr_app a b : tstr (a ++ b) = tstr a ++ tstr b.
Proof. unfold tstr. now rewrite map_app, concat_app. Qed.

Lemma ntoks_go_its cs :
  (fix go (l : list node) : list tok :=
     match l with
     | [] => []
     | x :: r => (ntoks x ++ sepT x) ++ go r
     end) cs = its false cs.
Proof. induction cs as [|x r IH]; [reflexivity|]. unfold its in *. cbn [map concat]. now rewrite IH. Qed.

Lemma ntoks_cont key o c e la tup c0 cs :
  ntoks (Node key [] o c e la tup (Some (c0 :: cs)))
  = keytoks key ++ [TOpen o] ++ its (tup && single (c0 :: cs)) (c0 :: cs) ++ [TClose c].
Proof.
  cbn [ntoks nonempty]. f_equal. f_equal. f_equal.
  destruct (tup && single (c0 :: cs)) eqn:E.
  - apply andb_true_iff in E. destruct E as [_ E]. destruct cs; [|discriminate].
    unfold its, sepX. cbn [map concat]. now rewrite app_nil_r.
  - rewrite ntoks_go_its. reflexivity.
Qed.

Lemma keytoks_str key : tstr (keytoks key) = if nonempty key then key ++ lit ": " else [].
Proof. unfold keytoks. destruct key; cbn; rewrite ?app_nil_r; reflexivity. Qed.

Lemma tokens_key key : concat (if nonempty key then [key; lit ": "] else []) = tstr (keytoks key).
Proof. rewrite keytoks_str. destruct key; cbn; rewrite ?app_nil_r; reflexivity. Qed.

Definition tokens_go : list node -> list str :=
  fix go (l : list node) : list str :=
    match l with
    | [] => []
    | x :: r => (tokens x ++ (if n_last x then [] else [lit ", "])) ++ go r
    end.

Lemma tokens_go_str cs :
  Forall (fun n => tstr (ntoks n) = node_str n) cs ->
  concat (tokens_go cs) = tstr (its false cs).
Proof.
  induction 1 as [|x r Hx _ IH]; [reflexivity|].
  unfold its in *. cbn [map concat tokens_go]. fold tokens_go. rewrite !concat_app, IH, !tstr_app. fold (node_str x). rewrite Hx.
  unfold sepX, sepT. destruct (n_last x); reflexivity.
Qed.

Lemma tokens_eq k v o c e l t ch :
  tokens (Node k v o c e l t ch)
  = (if nonempty k then [k; lit ": "] else []) ++
    (if nonempty v then [v]
     else match ch with
          | None => []
          | Some [] => [e]
          | Some (c0 :: cs) =>
              [o] ++ (if t && single (c0 :: cs) then tokens c0 ++ [lit ","] else tokens_go (c0 :: cs)) ++ [c]
          end).
Proof. destruct ch as [[|c0 cs]|]; reflexivity. Qed.

Lemma ntoks_eq k v o c e l t ch :
  ntoks (Node k v o c e l t ch)
  = keytoks k ++
    (if nonempty v then [TAtom v]
     else match ch with
          | None => [TAtom []]
          | Some [] => [TAtom e]
          | Some (c0 :: cs) =>
              [TOpen o] ++ (if t && single (c0 :: cs) then ntoks c0 ++ [TTup] else its false (c0 :: cs)) ++ [TClose c]
          end).
Proof. destruct ch as [[|c0 cs]|]; try reflexivity. rewrite <- ntoks_go_its. reflexivity. Qed.

(* the typed stream spells the node's one-line text *)
Lemma ntoks_str n : tstr (ntoks n) = node_str n.
Proof.
  induction n as [k v o c e l t|k v o c e l t cs IH] using node_ind'.
  - unfold node_str. rewrite ntoks_eq, tokens_eq, tstr_app, concat_app, tokens_key. f_equal.
    destruct v; reflexivity.
  - unfold node_str. rewrite ntoks_eq, tokens_eq, tstr_app, concat_app, tokens_key. f_equal.
    destruct v as [|v0 v']; [|cbn; now rewrite app_nil_r].
    cbn [nonempty]. destruct cs as [|c0 cs]; [cbn; now rewrite app_nil_r|].
    rewrite !tstr_app, !concat_app.
    change (tstr [TOpen o]) with (concat [o]). change (tstr [TClose c]) with (concat [c]).
    f_equal. f_equal.
    destruct (t && single (c0 :: cs)).
    + rewrite tstr_app, concat_app. inversion IH; subst. fold (node_str c0). now rewrite H1.
    + symmetry. apply tokens_go_str. exact IH.
Qed.

(* ---------- well-formed nodes: a node with children has no value_repr ---------- *)
Fixpoint wfn (n : node) : bool :=
  match n with
  | Node _ v _ _ _ _ _ (Some (c0 :: cs)) => negb (nonempty v) && forallb wfn (c0 :: cs)
  | _ => true
  end.

(* ---------- text of the recursive printer (repaired code: the closing line keeps the suffix) ---------- *)
Section Text.
  Variable max_width indent_size : Z.
  Variable expand_all : bool.

  Fixpoint rs (n : node) (l : line) : str :=
    match n with
    | Node _ _ _ _ _ _ _ (Some (c0 :: cs)) =>
        if expand_all || negb (line_check_length l n max_width) then
          let t1 := n_tuple n && single (c0 :: cs) in
          key_open n
            ++ (fix go (cs : list node) : str :=
                  match cs with
                  | [] => []
                  | c :: r => let cl := child_line indent_size l t1 c in
                              (NL :: l_ws cl ++ rs c cl ++ l_suffix cl) ++ go r
                  end) (c0 :: cs)
            ++ NL :: l_ws l ++ n_close n
        else node_str n
    | _ => node_str n
    end.

  Definition chs (l : line) (t1 : bool) (cs : list node) : str :=
    concat (map (fun c => let cl := child_line indent_size l t1 c in
                          NL :: l_ws cl ++ rs c cl ++ l_suffix cl) cs).

  Lemma rs_go_chs l t1 cs :
    (fix go (cs : list node) : str :=
       match cs with
       | [] => []
       | c :: r => let cl := child_line indent_size l t1 c in
                   (NL :: l_ws cl ++ rs c cl ++ l_suffix cl) ++ go r
       end) cs = chs l t1 cs.
  Proof. induction cs as [|c r IH]; [reflexivity|]. unfold chs in *. cbn [map concat]. now rewrite IH. Qed.

  Lemma rs_cont k v o c e la t c0 cs l :
    rs (Node k v o c e la t (Some (c0 :: cs))) l
    = if expand_all || negb (line_check_length l (Node k v o c e la t (Some (c0 :: cs))) max_width)
      then key_open (Node k v o c e la t (Some (c0 :: cs)))
             ++ chs l (t && single (c0 :: cs)) (c0 :: cs) ++ NL :: l_ws l ++ c
      else node_str (Node k v o c e la t (Some (c0 :: cs))).
  Proof. rewrite <- rs_go_chs. reflexivity. Qed.

  Definition jn (ls : list str) : str := concat (map (fun x => NL :: x) ls).

  Lemma join_nl_cons x ls : join_nl (x :: ls) = x ++ jn ls.
  Proof.
    revert x. induction ls as [|y r IH]; intros x; [cbn; now rewrite app_nil_r|].
    change (join_nl (x :: y :: r)) with (x ++ NL :: join_nl (y :: r)). rewrite IH. reflexivity.
  Qed.
  Lemma jn_app a b : jn (a ++ b) = jn a ++ jn b.
  Proof. unfold jn. now rewrite map_app, concat_app. Qed.
  Lemma jn_join ls : ls <> [] -> jn ls = NL :: join_nl ls.
  Proof. destruct ls as [|x r]; [congruence|]. intros _. rewrite join_nl_cons. reflexivity. Qed.

  Lemma rr_nonempty n l : rr true max_width indent_size expand_all n l <> [].
  Proof.
    destruct n as [k v o c e la t [[|c0 cs]|]]; cbn [rr]; try discriminate.
    destruct (expand_all || _); discriminate.
  Qed.

  (* joined lines of the recursive printer = leading whitespace ++ text ++ suffix *)
  Lemma join_rr n : forall l, l_text l = [] -> l_node l = Some n ->
    join_nl (map line_str (rr true max_width indent_size expand_all n l)) = l_ws l ++ rs n l ++ l_suffix l.
  Proof.
    induction n as [k v o c e la t|k v o c e la t cs IH] using node_ind'; intros l Ht Hn.
    - cbn [rr rs map join_nl]. unfold line_str. rewrite Ht, Hn. reflexivity.
    - destruct cs as [|c0 cs]; [cbn [rr rs map join_nl]; unfold line_str; rewrite Ht, Hn; reflexivity|].
      rewrite rr_cont, rs_cont.
      destruct (expand_all || negb (line_check_length l _ max_width)) eqn:Ex;
        [|cbn [map join_nl]; unfold line_str; rewrite Ht, Hn; reflexivity].
      set (n := Node k v o c e la t (Some (c0 :: cs))) in *.
      set (t1 := t && single (c0 :: cs)).
      cbn [map]. rewrite join_nl_cons.
      unfold line_str at 1. cbn [open_line l_ws l_text l_node l_suffix]. rewrite !app_nil_r.
      rewrite <- !app_assoc. f_equal. f_equal.
      rewrite map_app, jn_app. cbn [map]. unfold jn at 2. cbn [map concat].
      unfold line_str at 2. cbn [close_line l_ws l_text l_node l_suffix n_close n]. rewrite !app_nil_r.
      cbn [app]. rewrite <- !app_assoc. f_equal.
      clear Ex. revert IH. generalize (c0 :: cs). intros cs' IH.
      induction IH as [|x r Hx _ IHr]; [reflexivity|].
      cbn [flat_map]. rewrite map_app, jn_app, IHr. unfold chs. cbn [map concat]. f_equal.
      rewrite jn_join by (intros E; apply map_eq_nil in E; revert E; apply rr_nonempty).
      rewrite Hx by reflexivity. reflexivity.
  Qed.

  (* ---------- matching ---------- *)
  Definition mt2 (toks : list tok) (out : str) : bool :=
    match toks with
    | [] => match out with [] => true | _ => false end
    | t :: rest => match eat t out with
                   | Some o' => mt rest (no_comma_after t) o'
                   | None => false
                   end
    end.

  Lemma mt_unfold t rest pc out :
    mt (t :: rest) pc out
    = (match out with
       | c :: o' =>
           if (c =? SP) || (c =? NL) then mt (t :: rest) pc o'
           else if (c =? 44) && is_close t && negb pc then mt (t :: rest) true o'
           else false
       | [] => false
       end) || mt2 (t :: rest) out.
  Proof. destruct out; reflexivity. Qed.

  Lemma mt2_mt toks pc out : mt2 toks out = true -> mt toks pc out = true.
  Proof.
    destruct toks as [|t rest]; [destruct out; [reflexivity|discriminate]|].
    intros H. rewrite mt_unfold, H. apply orb_true_r.
  Qed.

  Lemma strip_app p o : strip p (p ++ o) = Some o.
  Proof. induction p as [|a p IH]; [reflexivity|]. cbn. now rewrite Z.eqb_refl. Qed.

  Lemma eat_tok_str t o : eat t (tok_str t ++ o) = Some o.
  Proof.
    unfold eat. destruct t; cbn [tok_str tok_pat]; try (rewrite strip_app; reflexivity); reflexivity.
  Qed.

  (* a comma followed by a newline is a separator *)
  Lemma eat_comma_nl t o : t = TSep \/ t = TTup -> eat t (44 :: NL :: o) = Some (NL :: o).
  Proof. intros [->| ->]; reflexivity. Qed.

  Lemma mt_skip_sp t rest pc ws o : forallb (fun c => c =? SP) ws = true ->
    mt (t :: rest) pc o = true -> mt (t :: rest) pc (ws ++ o) = true.
  Proof.
    intros Hws H. induction ws as [|c ws IH]; [exact H|].
    cbn [forallb] in Hws. apply andb_true_iff in Hws. destruct Hws as [Hc Hws].
    cbn [app]. rewrite mt_unfold. rewrite Hc. cbn [orb]. rewrite (IH Hws). reflexivity.
  Qed.

  Lemma mt_skip_layout t rest pc ws o : forallb (fun c => c =? SP) ws = true ->
    mt (t :: rest) pc o = true -> mt (t :: rest) pc (NL :: ws ++ o) = true.
  Proof.
    intros Hws H. rewrite mt_unfold. change (NL =? SP) with false. change (NL =? NL) with true.
    cbn [orb]. rewrite (mt_skip_sp t rest pc ws o Hws H). reflexivity.
  Qed.

  (* one-line text of a token list *)
  Lemma mt2_oneline : forall toks rest o, toks <> [] ->
    (forall pc, mt rest pc o = true) ->
    mt2 (toks ++ rest) (tstr toks ++ o) = true.
  Proof.
    induction toks as [|t toks IH]; intros rest o Hne Hk; [congruence|].
    cbn [app]. unfold tstr. cbn [map concat mt2]. rewrite <- app_assoc, eat_tok_str.
    destruct toks as [|t' toks']; [cbn [app map concat]; apply Hk|].
    apply mt2_mt. apply IH; [discriminate|exact Hk].
  Qed.

  Lemma mt_oneline toks rest o pc :
    (forall pc, mt rest pc o = true) -> mt (toks ++ rest) pc (tstr toks ++ o) = true.
  Proof.
    intros Hk. destruct toks as [|t toks]; [apply Hk|].
    apply mt2_mt. apply mt2_oneline; [discriminate|exact Hk].
  Qed.

  Definition all_sp (s : str) : bool := forallb (fun c => c =? SP) s.

  Lemma all_sp_app a b : all_sp a = true -> all_sp b = true -> all_sp (a ++ b) = true.
  Proof. unfold all_sp. intros Ha Hb. now rewrite forallb_app, Ha, Hb. Qed.
  Lemma all_sp_repeat k : all_sp (py_repeat SP k) = true.
  Proof. unfold py_repeat, all_sp. induction (Z.to_nat k); [reflexivity|]. cbn. exact IHn. Qed.

  Lemma child_suffix_pat t1 c : child_suffix t1 c = concat (map tok_pat (sepX t1 c)).
  Proof. unfold child_suffix, sepX, sepT, separator. destruct t1; [reflexivity|]. destruct (n_last c); reflexivity. Qed.

  (* children, one per line: the items' tokens, each followed by its separator *)
  Lemma mt_children l t1 : all_sp (l_ws l) = true -> forall cs,
    Forall (fun c => forall cl rest o pc, all_sp (l_ws cl) = true -> (forall pc, mt rest pc o = true) ->
                     mt (ntoks c ++ rest) pc (rs c cl ++ o) = true) cs ->
    forall R O pc, R <> [] -> (forall pc, mt R pc (NL :: O) = true) ->
    mt (its t1 cs ++ R) pc (chs l t1 cs ++ NL :: O) = true.
  Proof.
    intros Hl cs H. induction H as [|c r Hc _ IH]; intros R O pc HR Hk; [apply Hk|].
    unfold its, chs in *. cbn [map concat]. cbn [child_line l_ws l_suffix] in *.
    assert (Hcw : all_sp (l_ws l ++ py_repeat SP indent_size) = true)
      by (apply all_sp_app; [exact Hl|apply all_sp_repeat]).
    set (cws := l_ws l ++ py_repeat SP indent_size) in *.
    rewrite <- !app_assoc. cbn [app]. rewrite <- !app_assoc.
    assert (Hne : exists t0 r0, ntoks c ++ sepX t1 c ++ concat (map (fun c0 => ntoks c0 ++ sepX t1 c0) r) ++ R = t0 :: r0).
    { destruct (ntoks c ++ sepX t1 c ++ concat (map (fun c0 => ntoks c0 ++ sepX t1 c0) r) ++ R) eqn:E; [|eauto].
      apply app_eq_nil in E. destruct E as [_ E]. apply app_eq_nil in E. destruct E as [_ E].
      apply app_eq_nil in E. destruct E as [_ E]. congruence. }
    destruct Hne as (t0 & r0 & Hne). rewrite Hne. apply mt_skip_layout; [exact Hcw|]. rewrite <- Hne.
    apply Hc; [exact Hcw|]. intros pc'.
    rewrite child_suffix_pat.
    assert (Hrest : forall pc, mt (concat (map (fun c0 => ntoks c0 ++ sepX t1 c0) r) ++ R) pc
                                  (concat (map (fun c0 => NL :: cws ++
                                     rs c0 (child_line indent_size l t1 c0) ++ child_suffix t1 c0) r) ++ NL :: O) = true).
    { intros pc2. apply (IH R O pc2 HR Hk). }
    assert (Hnl : exists Y, concat (map (fun c0 => NL :: cws ++
                     rs c0 (child_line indent_size l t1 c0) ++ child_suffix t1 c0) r) ++ NL :: O = NL :: Y).
    { destruct r; cbn [map concat app]; eauto. }
    destruct Hnl as (Y & HY). rewrite HY in *.
    unfold sepX, sepT. destruct t1.
    - change (concat (map tok_pat [TTup]) ++ NL :: Y) with (44 :: NL :: Y). cbn [app].
      rewrite mt_unfold. unfold mt2.
      rewrite eat_comma_nl by auto. rewrite Hrest. apply orb_true_r.
    - destruct (n_last c).
      + cbn [map concat app]. apply Hrest.
      + change (concat (map tok_pat [TSep]) ++ NL :: Y) with (44 :: NL :: Y). cbn [app].
        rewrite mt_unfold. unfold mt2.
        rewrite eat_comma_nl by auto. rewrite Hrest. apply orb_true_r.
  Qed.

  Lemma key_open_str n : key_open n = tstr (keytoks (n_key n) ++ [TOpen (n_open n)]).
  Proof.
    rewrite tstr_app, keytoks_str. unfold key_open, tstr. cbn [map concat tok_str].
    destruct (nonempty (n_key n)); rewrite ?app_nil_r; [now rewrite <- app_assoc|reflexivity].
  Qed.

  Lemma ntoks_nonempty n : ntoks n <> [].
  Proof.
    destruct n as [k v o c e la t [[|c0 cs]|]]; cbn [ntoks]; destruct (keytoks k); try discriminate;
      destruct (nonempty v); discriminate.
  Qed.

  (* the text of a (well-formed) node is its token stream up to layout *)
  Theorem mt2_rs n : wfn n = true -> forall l rest o, all_sp (l_ws l) = true ->
    (forall pc, mt rest pc o = true) -> mt2 (ntoks n ++ rest) (rs n l ++ o) = true.
  Proof.
    induction n as [k v o c e la t|k v o c e la t cs IH] using node_ind'; intros Hwf l rest out Hl Hk.
    - cbn [rs]. rewrite <- ntoks_str. apply mt2_oneline; [apply ntoks_nonempty|exact Hk].
    - destruct cs as [|c0 cs];
        [cbn [rs]; rewrite <- ntoks_str; apply mt2_oneline; [apply ntoks_nonempty|exact Hk]|].
      rewrite rs_cont. destruct (expand_all || negb (line_check_length l _ max_width));
        [|rewrite <- ntoks_str; apply mt2_oneline; [apply ntoks_nonempty|exact Hk]].
      cbn [wfn] in Hwf. apply andb_true_iff in Hwf. destruct Hwf as [Hv Hcs].
      destruct v; [|discriminate]. clear Hv.
      rewrite ntoks_cont.
      set (n := Node k [] o c e la t (Some (c0 :: cs))) in *.
      change t with (n_tuple n). set (t1 := n_tuple n && single (c0 :: cs)).
      rewrite key_open_str. cbn [n_key n_open n_close n].
      replace (keytoks k ++ [TOpen o] ++ its t1 (c0 :: cs) ++ [TClose c])
        with ((keytoks k ++ [TOpen o]) ++ its t1 (c0 :: cs) ++ [TClose c]) by now rewrite <- app_assoc.
      assert (HK : keytoks k ++ [TOpen o] <> []) by (destruct (keytoks k); discriminate).
      set (K := keytoks k ++ [TOpen o]) in *.
      rewrite <- !app_assoc. cbn [app]. rewrite <- !app_assoc.
      apply mt2_oneline; [exact HK|]. intros pc1.
      apply mt_children; [exact Hl| |discriminate|].
      + rewrite Forall_forall in IH |- *. intros x Hx cl rest' o' pc' Hcl Hk'.
        apply mt2_mt. apply IH; [exact Hx| |exact Hcl|exact Hk'].
        rewrite forallb_forall in Hcs. apply Hcs. exact Hx.
      + intros pc2. apply mt_skip_layout; [exact Hl|].
        rewrite mt_unfold. unfold mt2.
        change (c ++ out) with (tok_str (TClose c) ++ out). rewrite eat_tok_str.
        cbn [no_comma_after]. rewrite Hk. apply orb_true_r.
  Qed.
End Text.
