(* C15 proofs, part 4: cropping (Segment.split_and_crop_lines as called by print/log) keeps segments
   well-formed, so the hypothesis of the text theorems can be stated on the segments that
   Console.render yielded, not on the cropped ones. *)
From RichModel Require Import Prelude Cells Segments Wire Record SpecRecord.
From RichGen Require Import RecordFacts.
From RichProofs Require Import RecordP RecordP2 RecordP3.
From Coq Require Import ZifyBool.

Arguments cell_len : simpl never.
Arguments set_cell_size : simpl never.

Lemma forallb_rev {A} (f : A -> bool) l : forallb f (rev l) = forallb f l.
Proof.
  induction l as [|x l IH]; [reflexivity|]. cbn [rev forallb]. rewrite forallb_app, IH. cbn.
  rewrite andb_true_r. apply andb_comm.
Qed.

Lemma forallb_firstn {A} (f : A -> bool) n : forall l, forallb f l = true -> forallb f (firstn n l) = true.
Proof.
  induction n as [|n IH]; intros [|x l] H; try reflexivity. cbn [firstn forallb] in *.
  apply andb_true_iff in H. destruct H as [H1 H2]. rewrite H1, (IH l H2). reflexivity.
Qed.

Lemma forallb_concat {A} (f : A -> bool) ll : forallb (forallb f) ll = true -> forallb f (concat ll) = true.
Proof.
  induction ll as [|l ll IH]; [reflexivity|]. cbn [forallb concat]. intros H.
  apply andb_true_iff in H. destruct H as [H1 H2]. rewrite forallb_app, H1, (IH H2). reflexivity.
Qed.

Lemma plain_spaces n : plain_b (py_repeat SP n) = true.
Proof. unfold py_repeat. induction (Z.to_nat n) as [|k IH]; [reflexivity|]. cbn [repeat plain_b forallb]. exact IH. Qed.

Lemma plain_set_cell_size t n : plain_b t = true -> plain_b (set_cell_size t n) = true.
Proof.
  intros H. unfold set_cell_size. destruct (cell_len t =? n); [exact H|].
  destruct (cell_len t <? n).
  - rewrite plain_app, H, plain_spaces. reflexivity.
  - destruct (pop_loop (rev (map char_size t)) (cell_len t - n)) as [kept excess].
    assert (Hf : plain_b (firstn (length kept) t) = true) by (apply forallb_firstn; exact H).
    destruct (excess =? -1); [rewrite plain_app, Hf; reflexivity|exact Hf].
Qed.

Lemma partition_nl_plain s : plain_b s = true ->
  let '(a, _, b) := partition_nl s in plain_b a = true /\ plain_b b = true.
Proof.
  induction s as [|ch s IH]; intros H; [split; reflexivity|]. cbn [partition_nl].
  cbn [plain_b forallb] in H. apply andb_true_iff in H. destruct H as [H1 H2].
  destruct (ch =? NL); [split; [reflexivity|exact H2]|].
  specialize (IH H2). destruct (partition_nl s) as [[a nl] b]. destruct IH as [I1 I2].
  split; [|exact I2]. cbn [plain_b forallb]. rewrite H1. exact I1.
Qed.

Section Crop.
Notation P := wf_seg_b.

Lemma P_text t st : plain_b t = true -> P (mkSeg t st false) = true.
Proof. intros H. exact H. Qed.

Lemma crop_go_P : forall (line : list sg) n cur, forallb P line = true -> forallb P (crop_go line n cur) = true.
Proof.
  induction line as [|g line IH]; intros n cur H; [reflexivity|]. cbn [crop_go].
  cbn [forallb] in H. apply andb_true_iff in H. destruct H as [Hg Hl].
  destruct ((cur + seg_len g <? n) || ctl g) eqn:E.
  - cbn [forallb]. rewrite Hg. apply IH. exact Hl.
  - apply orb_false_iff in E. destruct E as [_ Ec]. cbn [forallb]. rewrite andb_true_r.
    apply P_text. apply plain_set_cell_size. unfold wf_seg_b in Hg. rewrite Ec in Hg. exact Hg.
Qed.

Lemma adjust_P (line : list sg) n style pad :
  forallb P line = true -> forallb P (adjust_line_length line n style pad) = true.
Proof.
  intros H. unfold adjust_line_length. cbv zeta. destruct (line_len line <? n).
  - destruct pad; [|exact H]. rewrite forallb_app. apply andb_true_iff. split; [exact H|].
    cbn [forallb]. rewrite andb_true_r. apply P_text. apply plain_spaces.
  - destruct (n <? line_len line); [apply crop_go_P; exact H|exact H].
Qed.

Lemma sac_text_P : forall fuel shadow text st n ps pad incl line done,
  plain_b text = true -> forallb P line = true -> forallb (forallb P) done = true ->
  let '(line', done') := Segments.sac_text Z fuel shadow text st n ps pad incl line done in
  forallb P line' = true /\ forallb (forallb P) done' = true.
Proof.
  induction fuel as [|f IH]; intros shadow text st n ps pad incl line done Ht Hl Hd; [split; assumption|].
  cbn [Segments.sac_text]. destruct text as [|ch text']; [split; assumption|].
  pose proof (partition_nl_plain (ch :: text') Ht) as Q.
  destruct (partition_nl (ch :: text')) as [[a nl] b]. destruct Q as [Qa Qb].
  assert (Hl' : forallb P (match a with [] => line | _ => mkSeg a st false :: line end) = true).
  { destruct a; [exact Hl|]. cbn [forallb]. apply andb_true_iff. split; [apply P_text; exact Qa|exact Hl]. }
  destruct nl.
  - apply IH; [exact Qb|reflexivity|]. cbn [forallb]. apply andb_true_iff. split; [|exact Hd].
    assert (Hc : forallb P (adjust_line_length (rev (match a with [] => line | _ => mkSeg a st false :: line end)) n ps pad) = true)
      by (apply adjust_P; rewrite forallb_rev; exact Hl').
    destruct incl; [|exact Hc]. rewrite forallb_app. apply andb_true_iff. split; [exact Hc|reflexivity].
  - apply IH; assumption.
Qed.

Lemma sac_go_P : forall shadow segs n ps pad incl line done,
  forallb P segs = true -> forallb P line = true -> forallb (forallb P) done = true ->
  forallb (forallb P) (Segments.sac_go Z shadow segs n ps pad incl line done) = true.
Proof.
  induction segs as [|g segs IH]; intros n ps pad incl line done Hs Hl Hd; cbn [Segments.sac_go].
  - rewrite forallb_rev. destruct line as [|x line']; [exact Hd|]. cbn [forallb]. apply andb_true_iff.
    split; [|exact Hd]. apply adjust_P. rewrite forallb_rev. exact Hl.
  - cbn [forallb] in Hs. apply andb_true_iff in Hs. destruct Hs as [Hg Hs].
    destruct (has_nl (txt g) && negb (ctl g)) eqn:E.
    + apply andb_true_iff in E. destruct E as [_ Ec]. apply negb_true_iff in Ec.
      assert (Hp : plain_b (txt g) = true) by (unfold wf_seg_b in Hg; rewrite Ec in Hg; exact Hg).
      pose proof (sac_text_P (Datatypes.S (length (txt g))) shadow (txt g) (sty g) n
                    (if shadow then sty g else ps) pad incl line done Hp Hl Hd) as Q.
      destruct (Segments.sac_text Z (Datatypes.S (length (txt g))) shadow (txt g) (sty g) n
                  (if shadow then sty g else ps) pad incl line done) as [line' done'].
      destruct Q as [Q1 Q2]. apply IH; assumption.
    + apply IH; try assumption. cbn [forallb]. apply andb_true_iff. split; [exact Hg|exact Hl].
Qed.

Lemma crop_P shadow segs n ps pad incl :
  forallb P segs = true -> forallb P (concat (split_and_crop_lines shadow segs n ps pad incl)) = true.
Proof. intros H. apply forallb_concat. unfold split_and_crop_lines. apply sac_go_P; [exact H|reflexivity|reflexivity]. Qed.

(* well-formedness of a history stated on its INPUT: the segments Console.render yielded, the control
   strings given to control() *)
Definition wf_input_b (o : op) : bool :=
  match o with
  | Print _ segs => forallb P segs
  | Control codes => invisible_b codes
  | _ => true
  end.

Lemma wf_input_op c o : wf_input_b o = true -> wf_op_b c o = true.
Proof.
  unfold wf_op_b. destruct o; cbn [wf_input_b op_out]; intros H; try reflexivity.
  - destruct crop; [apply crop_P; exact H|exact H].
  - destruct n; [reflexivity|]. cbn [forallb]. rewrite andb_true_r. apply P_text.
    clear. induction n as [|n IH]; [reflexivity|]. exact IH.
  - cbn [forallb]. rewrite andb_true_r. unfold wf_seg_b. cbn [ctl txt]. exact H.
  - destruct home; reflexivity.
  - destruct (term c && negb (legacy c)); [|reflexivity]. destruct show; reflexivity.
Qed.

Lemma wf_input_hist c h : forallb wf_input_b h = true -> wf_hist_b c h = true.
Proof.
  unfold wf_hist_b. induction h as [|o h IH]; [reflexivity|]. cbn [forallb]. intros H.
  apply andb_true_iff in H. destruct H as [H1 H2]. rewrite (wf_input_op c o H1), (IH H2). reflexivity.
Qed.
End Crop.
