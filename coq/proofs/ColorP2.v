(* Proofs for the colour layer (C18), part 2: argmin (generic), Palette.match, Color.downgrade
   (in gamut, fixpoint on representable colours, idempotent, default, name, nearest entry),
   SGR codes. *)
From RichModel Require Import Prelude Color SpecColor.
From RichGen Require Import Palettes ColorNames ColorRegex.
From RichProofs Require Import ColorP.
From Coq Require Import ZifyBool.

Ltac Zify.zify_post_hook ::= Z.to_euclidean_division_equations.

(* ------------------------------------------------------------------ argmin: first minimum, any list *)
Lemma argmin_go_spec ds : forall i bi bd,
  let k := argmin_go ds i bi bd in
  (k = bi /\ Forall (fun d => bd <= d) ds)
  \/ (exists j dk, k = (i + j)%nat /\ nth_error ds j = Some dk /\ dk < bd
                   /\ Forall (fun d => dk < d) (firstn j ds) /\ Forall (fun d => dk <= d) ds).
Proof.
  induction ds as [|d r IH]; intros i bi bd; simpl.
  - left. split; [reflexivity|constructor].
  - destruct (d <? bd) eqn:E.
    + destruct (IH (S i) i d) as [[Hk Hall]|[j [dk [Hk [Hn [Hlt [Hpre Hall]]]]]]].
      * right. exists 0%nat, d. repeat split.
        -- rewrite Hk. lia.
        -- lia.
        -- constructor.
        -- constructor; [lia|exact Hall].
      * right. exists (S j), dk. repeat split.
        -- rewrite Hk. lia.
        -- exact Hn.
        -- lia.
        -- simpl. constructor; [lia|exact Hpre].
        -- constructor; [lia|exact Hall].
    + destruct (IH (S i) bi bd) as [[Hk Hall]|[j [dk [Hk [Hn [Hlt [Hpre Hall]]]]]]].
      * left. split; [exact Hk|]. constructor; [lia|exact Hall].
      * right. exists (S j), dk. repeat split.
        -- rewrite Hk. lia.
        -- exact Hn.
        -- exact Hlt.
        -- simpl. constructor; [lia|exact Hpre].
        -- constructor; [lia|exact Hall].
Qed.

Theorem argmin_spec ds k : argmin ds = Some k ->
  exists dk, nth_error ds k = Some dk
             /\ Forall (fun d => dk <= d) ds              (* minimal *)
             /\ Forall (fun d => dk < d) (firstn k ds).   (* and the first such index *)
Proof.
  destruct ds as [|d0 r]; simpl; [discriminate|]. intros H. inversion H as [Hk]. clear H.
  destruct (argmin_go_spec r 1 0 d0) as [[Ek Hall]|[j [dk [Ek [Hn [Hlt [Hpre Hall]]]]]]].
  - rewrite Ek. exists d0. repeat split; [constructor; [lia|exact Hall]|constructor].
  - rewrite Ek. exists dk. simpl. repeat split.
    + exact Hn.
    + constructor; [lia|exact Hall].
    + constructor; [lia|exact Hpre].
Qed.

Lemma argmin_some ds : ds <> [] -> exists k, argmin ds = Some k.
Proof. destruct ds; [congruence|]. intros _. eexists. reflexivity. Qed.

Lemma Forall_forallb {A} (P : A -> Prop) (p : A -> bool) l :
  (forall x, P x -> p x = true) -> Forall P l -> forallb p l = true.
Proof. intros H F. apply forallb_forall. rewrite Forall_forall in F. intros x Hx. apply H, F, Hx. Qed.

(* ------------------------------------------------------------------ Palette.match *)
(* generic in the palette and in the colour: no enumeration *)
Theorem palette_match_nearest pal t k : palette_match pal t = Ok k -> nearest_b pal t k = true.
Proof.
  unfold palette_match, nearest_b. intros H.
  destruct (existsb (fun d => d <? 0) (map (color_dist2 t) pal)); [discriminate|].
  destruct (argmin (map (color_dist2 t) pal)) as [k'|] eqn:E; [|discriminate].
  inversion H; subst k. clear H.
  destruct (argmin_spec _ _ E) as [dk [Hn [Hmin Hfirst]]].
  rewrite Nat2Z.id, Hn.
  replace (0 <=? Z.of_nat k') with true by lia. simpl.
  apply andb_true_iff. split.
  - apply (Forall_forallb (fun d => dk <= d)); [intros; lia|exact Hmin].
  - apply (Forall_forallb (fun d => dk < d)); [intros; lia|exact Hfirst].
Qed.

Lemma palette_match_lt pal t k : palette_match pal t = Ok k -> 0 <= k < zlen pal.
Proof.
  unfold palette_match. intros H.
  destruct (existsb _ _); [discriminate|].
  destruct (argmin (map (color_dist2 t) pal)) as [k'|] eqn:E; [|discriminate].
  inversion H; subst k. destruct (argmin_spec _ _ E) as [dk [Hn _]].
  assert (Hl : (k' < length (map (color_dist2 t) pal))%nat) by (apply nth_error_Some; congruence).
  rewrite map_length in Hl. unfold zlen. lia.
Qed.

Lemma shiftr8_nonneg a : 0 <= a -> 0 <= Z.shiftr a 8.
Proof. intros H. apply Z.shiftr_nonneg. exact H. Qed.

Lemma color_dist2_nonneg t p :
  triplet_ok_b t = true -> triplet_ok_b (triplet_of p) = true -> 0 <= color_dist2 t p.
Proof.
  destruct p as [[r2 g2] b2]. unfold triplet_ok_b, channel_b, in_range, triplet_of, color_dist2.
  cbn [t_red t_green t_blue]. intros Ht Hp.
  set (rm := (t_red t + r2) / 2).
  assert (Hrm : 0 <= rm <= 255) by (unfold rm; lia).
  assert (H1 : 0 <= (512 + rm) * (t_red t - r2) * (t_red t - r2)).
  { rewrite <- Z.mul_assoc. apply Z.mul_nonneg_nonneg; [lia|apply Z.square_nonneg]. }
  assert (H2 : 0 <= (767 - rm) * (t_blue t - b2) * (t_blue t - b2)).
  { rewrite <- Z.mul_assoc. apply Z.mul_nonneg_nonneg; [lia|apply Z.square_nonneg]. }
  assert (H3 : 0 <= 4 * (t_green t - g2) * (t_green t - g2)).
  { rewrite <- Z.mul_assoc. apply Z.mul_nonneg_nonneg; [lia|apply Z.square_nonneg]. }
  apply shiftr8_nonneg in H1. apply shiftr8_nonneg in H2.
  generalize dependent (Z.shiftr ((512 + rm) * (t_red t - r2) * (t_red t - r2)) 8).
  generalize dependent (Z.shiftr ((767 - rm) * (t_blue t - b2) * (t_blue t - b2)) 8).
  intros. lia.
Qed.

(* on an in-range colour and a non-empty in-range palette, match raises nothing *)
Theorem palette_match_ok pal t :
  palette_ok_b pal = true -> pal <> [] -> triplet_ok_b t = true ->
  exists k, palette_match pal t = Ok k /\ 0 <= k < zlen pal.
Proof.
  intros Hp Hne Ht.
  assert (Hneg : existsb (fun d => d <? 0) (map (color_dist2 t) pal) = false).
  { apply Bool.not_true_is_false. intros H. apply existsb_exists in H as [d [Hin Hd]].
    apply in_map_iff in Hin as [p [Hd' Hin]]. unfold palette_ok_b in Hp. rewrite forallb_forall in Hp.
    assert (Hnn := color_dist2_nonneg t p Ht (Hp p Hin)). lia. }
  destruct (argmin_some (map (color_dist2 t) pal)) as [k Hk].
  { destruct pal; [congruence|discriminate]. }
  assert (Hm : palette_match pal t = Ok (Z.of_nat k)).
  { unfold palette_match. rewrite Hneg, Hk. reflexivity. }
  exists (Z.of_nat k). split; [exact Hm|exact (palette_match_lt _ _ _ Hm)].
Qed.

(* ------------------------------------------------------------------ palette lookups *)
Lemma palette_get_sweep :
  forallb (fun n => match palette_get EIGHT_BIT_PALETTE n with Ok t => triplet_ok_b t | _ => false end) range256 = true.
Proof. vm_compute. reflexivity. Qed.

Lemma palette_get_ok n : 0 <= n <= 255 ->
  exists t, palette_get EIGHT_BIT_PALETTE n = Ok t /\ triplet_ok_b t = true.
Proof.
  intros H. assert (S := sweep1 _ palette_get_sweep n H). cbv beta in S.
  destruct (palette_get EIGHT_BIT_PALETTE n) as [t| |]; try discriminate. exists t. split; [reflexivity|exact S].
Qed.

Lemma STANDARD_PALETTE_ne : STANDARD_PALETTE <> []. Proof. discriminate. Qed.
Lemma WINDOWS_PALETTE_ne : WINDOWS_PALETTE <> []. Proof. discriminate. Qed.
Lemma zlen_STANDARD : zlen STANDARD_PALETTE = 16. Proof. reflexivity. Qed.
Lemma zlen_WINDOWS : zlen WINDOWS_PALETTE = 16. Proof. reflexivity. Qed.

Lemma match_standard_ok t : triplet_ok_b t = true ->
  exists k, palette_match STANDARD_PALETTE t = Ok k /\ 0 <= k <= 15.
Proof.
  intros H. destruct (palette_match_ok _ t STANDARD_PALETTE_ok STANDARD_PALETTE_ne H) as [k [Hk Hr]].
  rewrite zlen_STANDARD in Hr. exists k. split; [exact Hk|lia].
Qed.
Lemma match_windows_ok t : triplet_ok_b t = true ->
  exists k, palette_match WINDOWS_PALETTE t = Ok k /\ 0 <= k <= 15.
Proof.
  intros H. destruct (palette_match_ok _ t WINDOWS_PALETTE_ok WINDOWS_PALETTE_ne H) as [k [Hk Hr]].
  rewrite zlen_WINDOWS in Hr. exists k. split; [exact Hk|lia].
Qed.

Global Opaque palette_match palette_get downgrade_8bit_int STANDARD_PALETTE WINDOWS_PALETTE EIGHT_BIT_PALETTE.

(* ------------------------------------------------------------------ Color.downgrade *)
Lemma triplet_in_range_ok t : triplet_in_range t = triplet_ok_b t.
Proof. unfold triplet_in_range, triplet_ok_b, channel_b, in_range. lia. Qed.

Ltac break_wf H :=
  unfold wf_color_b in H; cbn [c_type c_number c_triplet] in H.

(* in gamut: every well-formed colour converts without an exception to a colour of the target system *)
Theorem downgrade_in_gamut c sys :
  wf_color_b c = true -> exists c', downgrade c sys = Ok c' /\ in_gamut_b sys c' = true.
Proof.
  destruct c as [name ty num trip]. intros W.
  destruct ty; destruct num as [n|]; destruct trip as [t|]; break_wf W; try discriminate.
  - (* DEFAULT *) exists (mkColor name CT_DEFAULT None None). destruct sys; split; reflexivity.
  - (* STANDARD n *)
    destruct sys; unfold downgrade; cbn [c_type c_number c_triplet c_name color_system ColorType_eqb ColorType_int ColorSystem_int Z.eqb orb bind assert_some Pos.eqb].
    + eexists; split; [reflexivity|]. unfold in_gamut_b, wf_color_b. cbn. rewrite W. reflexivity.
    + eexists; split; [reflexivity|]. unfold in_gamut_b, wf_color_b. cbn. rewrite W. reflexivity.
    + eexists; split; [reflexivity|]. unfold in_gamut_b, wf_color_b. cbn. rewrite W. reflexivity.
    + unfold in_range in W. replace (n <? 16) with true by lia.
      eexists; split; [reflexivity|]. unfold in_gamut_b, wf_color_b, in_range. cbn. lia.
  - (* EIGHT_BIT n *)
    destruct (palette_get_ok n) as [t [Ht Hok]]; [unfold in_range in W; lia|].
    destruct sys; unfold downgrade; cbn [c_type c_number c_triplet c_name color_system ColorType_eqb ColorType_int ColorSystem_int Z.eqb orb bind assert_some Pos.eqb].
    + rewrite Ht. cbn [bind]. destruct (match_standard_ok t Hok) as [k [Hk Hr]]. rewrite Hk. cbn [bind].
      eexists; split; [reflexivity|]. unfold in_gamut_b, wf_color_b, in_range. cbn. lia.
    + eexists; split; [reflexivity|]. unfold in_gamut_b, wf_color_b. cbn. rewrite W. reflexivity.
    + eexists; split; [reflexivity|]. unfold in_gamut_b, wf_color_b. cbn. rewrite W. reflexivity.
    + destruct (n <? 16) eqn:E.
      * eexists; split; [reflexivity|]. unfold in_range in W. unfold in_gamut_b, wf_color_b, in_range. cbn. lia.
      * rewrite Ht. cbn [bind]. destruct (match_windows_ok t Hok) as [k [Hk Hr]]. rewrite Hk. cbn [bind].
        eexists; split; [reflexivity|]. unfold in_gamut_b, wf_color_b, in_range. cbn. lia.
  - (* TRUECOLOR t *)
    destruct sys; unfold downgrade; cbn [c_type c_number c_triplet c_name color_system ColorType_eqb ColorType_int ColorSystem_int Z.eqb orb bind assert_some Pos.eqb].
    + destruct (match_standard_ok t W) as [k [Hk Hr]]. rewrite Hk. cbn [bind].
      eexists; split; [reflexivity|]. unfold in_gamut_b, wf_color_b, in_range. cbn. lia.
    + rewrite triplet_in_range_ok, W.
      eexists; split; [reflexivity|]. unfold in_gamut_b, wf_color_b. cbn.
      assert (R := downgrade_8bit_int_range (t_red t) (t_green t) (t_blue t)).
      unfold triplet_ok_b, channel_b, in_range in *. lia.
    + eexists; split; [reflexivity|]. unfold in_gamut_b, wf_color_b. cbn. rewrite W. reflexivity.
    + destruct (match_windows_ok t W) as [k [Hk Hr]]. rewrite Hk. cbn [bind].
      eexists; split; [reflexivity|]. unfold in_gamut_b, wf_color_b, in_range. cbn. lia.
  - (* WINDOWS n *)
    destruct (palette_get_ok n) as [t [Ht Hok]]; [unfold in_range in W; lia|].
    destruct sys; unfold downgrade; cbn [c_type c_number c_triplet c_name color_system ColorType_eqb ColorType_int ColorSystem_int Z.eqb orb bind assert_some Pos.eqb].
    + rewrite Ht. cbn [bind]. destruct (match_standard_ok t Hok) as [k [Hk Hr]]. rewrite Hk. cbn [bind].
      eexists; split; [reflexivity|]. unfold in_gamut_b, wf_color_b, in_range. cbn. lia.
    + eexists; split; [reflexivity|]. unfold in_gamut_b, wf_color_b. cbn. rewrite W. reflexivity.
    + eexists; split; [reflexivity|]. unfold in_gamut_b, wf_color_b. cbn. rewrite W. reflexivity.
    + eexists; split; [reflexivity|]. unfold in_gamut_b, wf_color_b. cbn. rewrite W. reflexivity.
Qed.

(* colours already representable in the target system are returned unchanged *)
Theorem downgrade_representable_unchanged c sys : in_gamut_b sys c = true -> downgrade c sys = Ok c.
Proof.
  destruct c as [name ty num trip]. unfold in_gamut_b. cbn [c_type]. intros H.
  apply andb_true_iff in H as [_ H].
  destruct sys, ty; try discriminate; reflexivity.
Qed.

(* the default colour stays default -- for every colour record of type DEFAULT, well-formed or not *)
Theorem downgrade_default c sys : c_type c = CT_DEFAULT -> downgrade c sys = Ok c.
Proof. intros H. unfold downgrade. rewrite H. reflexivity. Qed.

(* converting again changes nothing *)
Theorem downgrade_idempotent c sys c' :
  wf_color_b c = true -> downgrade c sys = Ok c' -> downgrade c' sys = Ok c'.
Proof.
  intros W H. destruct (downgrade_in_gamut c sys W) as [d [Hd G]].
  rewrite H in Hd. inversion Hd; subst d. apply downgrade_representable_unchanged. exact G.
Qed.

Lemma in_gamut_wf sys c : in_gamut_b sys c = true -> wf_color_b c = true.
Proof. unfold in_gamut_b. intros H. apply andb_true_iff in H as [H _]. exact H. Qed.

(* the name travels with the colour *)
Theorem downgrade_name c sys c' : downgrade c sys = Ok c' -> c_name c' = c_name c.
Proof.
  destruct c as [name ty num trip]. unfold downgrade.
  destruct sys, ty; cbn -[Z.ltb];
    repeat match goal with
           | |- Ok _ = Ok _ -> _ => let H := fresh in intros H; inversion H; reflexivity
           | |- Crash _ = Ok _ -> _ => discriminate
           | |- Doc _ = Ok _ -> _ => discriminate
           | |- context [match ?o with Some _ => _ | None => _ end] => destruct o; cbn -[Z.ltb]
           | |- context [if ?b then _ else _] => destruct b; cbn -[Z.ltb]
           | |- context [bind ?r _] => destruct r; cbn -[Z.ltb]
           end.
Qed.

(* conversion to a 16-colour palette picks the first entry of minimum distance to the colour's RGB
   value, for every colour record (if the conversion raises nothing) *)
Local Transparent palette_get.
Theorem downgrade_nearest c sys c' : downgrade c sys = Ok c' -> nearest_color_b sys c c' = true.
Proof.
  destruct c as [name ty num trip]. unfold nearest_color_b, goes_through_match, source_triplet, downgrade.
  cbn [c_type c_number c_triplet c_name color_system].
  destruct sys, ty; cbn [ColorType_eqb ColorType_int ColorSystem_int Z.eqb Pos.eqb orb negb palette_of bind assert_some color_system c_type c_number c_triplet c_name];
    try (intros _; reflexivity).
  - (* STANDARD <- EIGHT_BIT *)
    destruct num as [n|]; cbn [bind assert_some]; [|discriminate].
    unfold palette_get. destruct (py_index EIGHT_BIT_PALETTE n) as [p|]; cbn [bind]; [|discriminate].
    destruct (palette_match STANDARD_PALETTE (triplet_of p)) as [k| |] eqn:E; cbn [bind]; try discriminate.
    intros H. inversion H. cbn [c_number]. exact (palette_match_nearest _ _ _ E).
  - (* STANDARD <- TRUECOLOR *)
    destruct trip as [t|]; cbn [bind assert_some]; [|discriminate].
    destruct (palette_match STANDARD_PALETTE t) as [k| |] eqn:E; cbn [bind]; try discriminate.
    intros H. inversion H. cbn [c_number]. exact (palette_match_nearest _ _ _ E).
  - (* STANDARD <- WINDOWS *)
    destruct num as [n|]; cbn [bind assert_some]; [|discriminate].
    unfold palette_get. destruct (py_index EIGHT_BIT_PALETTE n) as [p|]; cbn [bind]; [|discriminate].
    destruct (palette_match STANDARD_PALETTE (triplet_of p)) as [k| |] eqn:E; cbn [bind]; try discriminate.
    intros H. inversion H. cbn [c_number]. exact (palette_match_nearest _ _ _ E).
  - (* WINDOWS <- EIGHT_BIT *)
    destruct num as [n|]; cbn [bind assert_some]; [|intros _; reflexivity].
    destruct (n <? 16) eqn:E16.
    + intros _. replace (16 <=? n) with false by lia. reflexivity.
    + replace (16 <=? n) with true by lia. cbn [negb orb].
      unfold palette_get. destruct (py_index EIGHT_BIT_PALETTE n) as [p|]; cbn [bind]; [|discriminate].
      destruct (palette_match WINDOWS_PALETTE (triplet_of p)) as [k| |] eqn:E; cbn [bind]; try discriminate.
      intros H. inversion H. cbn [c_number]. exact (palette_match_nearest _ _ _ E).
  - (* WINDOWS <- TRUECOLOR *)
    destruct trip as [t|]; cbn [bind assert_some]; [|discriminate].
    destruct (palette_match WINDOWS_PALETTE t) as [k| |] eqn:E; cbn [bind]; try discriminate.
    intros H. inversion H. cbn [c_number]. exact (palette_match_nearest _ _ _ E).
Qed.

Global Opaque palette_get.

(* truecolor -> 256: a colour of the 256 palette; greys on the ramp or black/white *)
Theorem downgrade_eight_bit c sys c' : downgrade c sys = Ok c' -> eight_bit_color_b sys c c' = true.
Proof.
  destruct c as [name ty num trip]. unfold eight_bit_color_b, downgrade.
  cbn [c_type c_number c_triplet c_name color_system].
  destruct sys; try (intros _; reflexivity).
  destruct ty; try (intros _; reflexivity).
  destruct trip as [t|]; [|intros _; reflexivity].
  cbn [ColorType_eqb ColorType_int ColorSystem_int Z.eqb Pos.eqb orb bind assert_some].
  destruct (triplet_in_range t) eqn:R; [|discriminate].
  intros H. inversion H. cbn [c_type c_number].
  apply eight_bit_number_ok. rewrite <- triplet_in_range_ok. exact R.
Qed.

(* everything the property says about one conversion, in one statement *)
Theorem downgrade_conversion_ok c sys :
  wf_color_b c = true ->
  exists once, downgrade c sys = Ok once /\ downgrade once sys = Ok once
               /\ conversion_ok_b sys c once once = true.
Proof.
  intros W. destruct (downgrade_in_gamut c sys W) as [once [H G]].
  exists once. split; [exact H|]. split; [exact (downgrade_idempotent c sys once W H)|].
  unfold conversion_ok_b. rewrite G.
  assert (I : idempotent_b once once = true).
  { unfold idempotent_b, color_eqb.
    assert (S : forall s, str_eqb s s = true) by (induction s; simpl; [reflexivity|rewrite Z.eqb_refl; assumption]).
    rewrite S. unfold ColorType_eqb. rewrite Z.eqb_refl.
    assert (O : optZ_eqb (c_number once) (c_number once) = true) by (destruct (c_number once); simpl; [apply Z.eqb_refl|reflexivity]).
    assert (T : opt_triplet_eqb (c_triplet once) (c_triplet once) = true).
    { destruct (c_triplet once); simpl; [|reflexivity]. unfold triplet_eqb. rewrite !Z.eqb_refl. reflexivity. }
    rewrite O, T. reflexivity. }
  rewrite I.
  assert (U : unchanged_b sys c once = true).
  { unfold unchanged_b. destruct (in_gamut_b sys c) eqn:Gc; [|reflexivity].
    rewrite (downgrade_representable_unchanged c sys Gc) in H. inversion H; subst once. exact I. }
  rewrite U.
  assert (D : default_stays_b c once = true).
  { unfold default_stays_b, ColorType_eqb. destruct (c_type c) eqn:Ty; try reflexivity.
    rewrite (downgrade_default c sys Ty) in H. inversion H; subst once. exact I. }
  rewrite D.
  assert (N : name_kept_b c once = true).
  { unfold name_kept_b. rewrite (downgrade_name c sys once H).
    induction (c_name c); simpl; [reflexivity|rewrite Z.eqb_refl; assumption]. }
  rewrite N, (downgrade_nearest c sys once H), (downgrade_eight_bit c sys once H). reflexivity.
Qed.

(* ------------------------------------------------------------------ SGR codes *)
Lemma dec_sweep : forallb (fun k => optZ_is (dec_of_str (str_of_Z k)) k) range256 = true.
Proof. vm_compute. reflexivity. Qed.
Lemma dec_rt k : 0 <= k <= 255 -> dec_of_str (str_of_Z k) = Some k.
Proof. intros H. apply optZ_is_eq. exact (sweep1 _ dec_sweep k H). Qed.

Theorem ansi_codes_standard c fg :
  wf_color_b c = true -> exists codes, get_ansi_codes c fg = Ok codes /\ codes_ok_b c fg codes = true.
Proof.
  destruct c as [name ty num trip]. intros W.
  destruct ty; destruct num as [n|]; destruct trip as [t|]; break_wf W; try discriminate;
    unfold get_ansi_codes; cbn [c_type c_number c_triplet bind assert_some].
  - eexists; split; [reflexivity|]. destruct fg; reflexivity.
  - unfold in_range in W. destruct (n <? 8) eqn:E; eexists; (split; [reflexivity|]);
      unfold codes_ok_b; cbn [map c_type c_number c_triplet]; destruct fg;
      rewrite dec_rt by lia; cbn [all_some]; unfold in_range; lia.
  - unfold in_range in W. eexists; split; [reflexivity|].
    unfold codes_ok_b; cbn [map c_type c_number c_triplet]. rewrite (dec_rt n) by lia.
    destruct fg; (replace (dec_of_str (lit "38")) with (Some 38) by reflexivity);
      (replace (dec_of_str (lit "48")) with (Some 48) by reflexivity);
      (replace (dec_of_str (lit "5")) with (Some 5) by reflexivity); cbn [all_some]; unfold in_range; lia.
  - unfold triplet_ok_b, channel_b, in_range in W. eexists; split; [reflexivity|].
    unfold codes_ok_b; cbn [map c_type c_number c_triplet].
    rewrite (dec_rt (t_red t)), (dec_rt (t_green t)), (dec_rt (t_blue t)) by lia.
    destruct fg; (replace (dec_of_str (lit "38")) with (Some 38) by reflexivity);
      (replace (dec_of_str (lit "48")) with (Some 48) by reflexivity);
      (replace (dec_of_str (lit "2")) with (Some 2) by reflexivity); cbn [all_some];
      unfold triplet_ok_b, channel_b, in_range; lia.
  - unfold in_range in W. destruct (n <? 8) eqn:E; eexists; (split; [reflexivity|]);
      unfold codes_ok_b; cbn [map c_type c_number c_triplet]; destruct fg;
      rewrite dec_rt by lia; cbn [all_some]; unfold in_range; lia.
Qed.

(* ------------------------------------------------------------------ constructors give well-formed colours *)
Lemma from_ansi_wf n : 0 <= n <= 255 -> wf_color_b (from_ansi n) = true.
Proof.
  intros H. unfold from_ansi, wf_color_b. cbn [c_type c_number c_triplet].
  destruct (n <? 16) eqn:E; unfold in_range; lia.
Qed.
Lemma from_rgb_wf r g b : 0 <= r <= 255 -> 0 <= g <= 255 -> 0 <= b <= 255 -> wf_color_b (from_rgb r g b) = true.
Proof.
  intros Hr Hg Hb. unfold from_rgb, from_triplet, wf_color_b, triplet_ok_b, channel_b, in_range.
  cbn [c_type c_number c_triplet t_red t_green t_blue]. lia.
Qed.

(* D9 re-derived: the faithful model of rich 9.10.0 lets ValueError escape from Color.parse *)
Lemma parse_asis_crashes : parse false (lit "rgb(,,)") = Crash K_ValueError
                           /\ parse false (lit "rgb(1 2,3,4)") = Crash K_ValueError.
Proof. split; vm_compute; reflexivity. Qed.
Lemma parse_fixed_documented : parse true (lit "rgb(,,)") = Doc E_ColorParseError
                               /\ parse true (lit "rgb(1 2,3,4)") = Doc E_ColorParseError.
Proof. split; vm_compute; reflexivity. Qed.

(* truecolor -> 256 in closed form *)
Lemma downgrade_truecolor_256 t : triplet_ok_b t = true ->
  downgrade (from_triplet t) CS_EIGHT_BIT =
  Ok (mkColor (triplet_hex t) CT_EIGHT_BIT (Some (downgrade_8bit_int (t_red t) (t_green t) (t_blue t))) None).
Proof.
  intros H. unfold downgrade, from_triplet.
  cbn [c_type c_number c_triplet c_name color_system ColorType_eqb ColorType_int ColorSystem_int Z.eqb orb bind assert_some Pos.eqb].
  rewrite triplet_in_range_ok, H. reflexivity.
Qed.

(* ------------------------------------------------------------------ Color.parse builds well-formed colours *)
Lemma assoc_str_in {B} s (l : list (str * B)) v : assoc_str s l = Some v -> exists k, In (k, v) l.
Proof.
  induction l as [|[k w] l IH]; simpl; [discriminate|].
  destruct (str_eqb k s).
  - intros H. inversion H; subst. exists k. left. reflexivity.
  - intros H. destruct (IH H) as [k' Hk]. exists k'. right. exact Hk.
Qed.

Lemma name_number_range s n : assoc_str s ANSI_COLOR_NAMES = Some n -> 0 <= n <= 255.
Proof.
  intros H. destruct (assoc_str_in _ _ _ H) as [k Hin].
  assert (R := names_in_range). rewrite forallb_forall in R. specialize (R _ Hin).
  unfold in_range in R. simpl in R. lia.
Qed.

Lemma digit_val_range c d : digit_val c = Some d -> 0 <= d <= 9.
Proof.
  unfold digit_val. destruct (find _ UNI_DIGIT_ZEROS) as [z|] eqn:E; [|discriminate].
  apply find_some in E as [_ E]. intros H. inversion H. lia.
Qed.

Lemma digits_value_nonneg s : forall acc v, 0 <= acc -> digits_value s acc = Some v -> 0 <= v.
Proof.
  induction s as [|c r IH]; simpl; intros acc v Ha H.
  - inversion H. lia.
  - destruct (digit_val c) as [d|] eqn:E; [|discriminate].
    assert (R := digit_val_range c d E). apply (IH (acc * 10 + d)); [lia|exact H].
Qed.

Lemma py_int_digits_nonneg s v : py_int_digits s = Some v -> 0 <= v.
Proof.
  unfold py_int_digits. destruct (strip_with is_int_space s) as [|c r]; [discriminate|].
  destruct (_ && _); [discriminate|]. apply digits_value_nonneg. lia.
Qed.

Lemma hex_val_range c : is_hex_lower c = true -> 0 <= hex_val c <= 15.
Proof. unfold is_hex_lower, hex_val, is_ascii_digit. intros H. destruct ((48 <=? c) && (c <=? 57)) eqn:E; lia. Qed.

Lemma re_color_hex_chars s h : re_color_match s = Some (G_hex h) -> forallb is_hex_lower h = true.
Proof.
  unfold re_color_match. generalize (chomp_nl s). intros u. unfold re_color_exact.
  destruct u as [|c u]; [simpl; discriminate|].
  destruct (c =? 35) eqn:E35.
  - assert (c = 35) by lia. subst c.
    destruct ((length u =? 6)%nat && forallb is_hex_lower u) eqn:E; [|discriminate].
    intros H. inversion H; subst. apply andb_true_iff in E as [_ E]. exact E.
  - assert (Hc : c <> 35) by lia.
    replace (match c with 35 => if (length u =? 6)%nat && forallb is_hex_lower u then Some (G_hex u) else None
                       | _ => match strip_prefix_str (lit "color(") (c :: u) with
                              | Some rest => match split_last rest with
                                             | Some (g, c0) => if (c0 =? 41) && (1 <=? length g)%nat && (length g <=? 3)%nat && forallb is_ascii_digit g then Some (G_num g) else None
                                             | None => None end
                              | None => match strip_prefix_str (lit "rgb(") (c :: u) with
                                        | Some rest => match split_last rest with
                                                       | Some (g, c0) => if (c0 =? 41) && (1 <=? length g)%nat && forallb (fun x => is_uni_digit x || is_uni_space x || (x =? 44)) g then Some (G_rgb g) else None
                                                       | None => None end
                                        | None => None end end end)
      with (match strip_prefix_str (lit "color(") (c :: u) with
            | Some rest => match split_last rest with
                           | Some (g, c0) => if (c0 =? 41) && (1 <=? length g)%nat && (length g <=? 3)%nat && forallb is_ascii_digit g then Some (G_num g) else None
                           | None => None end
            | None => match strip_prefix_str (lit "rgb(") (c :: u) with
                      | Some rest => match split_last rest with
                                     | Some (g, c0) => if (c0 =? 41) && (1 <=? length g)%nat && forallb (fun x => is_uni_digit x || is_uni_space x || (x =? 44)) g then Some (G_rgb g) else None
                                     | None => None end
                      | None => None end end).
    2:{ destruct c as [|p|p]; try reflexivity.
        do 6 (destruct p as [p|p|]; try reflexivity). exfalso. apply Hc. reflexivity. }
    destruct (strip_prefix_str (lit "color(") (c :: u)) as [rest|].
    + destruct (split_last rest) as [[g c0]|]; [|discriminate]. destruct (_ && _); discriminate.
    + destruct (strip_prefix_str (lit "rgb(") (c :: u)) as [rest|]; [|discriminate].
      destruct (split_last rest) as [[g c0]|]; [|discriminate]. destruct (_ && _); discriminate.
Qed.

Theorem parse_wf fx s c : parse fx s = Ok c -> wf_color_b c = true.
Proof.
  unfold parse. set (u := py_strip (py_lower s)).
  destruct (str_eqb u (lit "default")). { intros H. inversion H. reflexivity. }
  destruct (assoc_str u ANSI_COLOR_NAMES) as [n|] eqn:En.
  { intros H. inversion H. assert (R := name_number_range u n En).
    unfold wf_color_b. cbn [c_type c_number c_triplet]. destruct (n <? 16) eqn:E; unfold in_range; lia. }
  destruct (re_color_match u) as [[h|g|g]|] eqn:Em; [| | |discriminate].
  - assert (Hh := re_color_hex_chars u h Em).
    destruct h as [|a [|b [|c0 [|d [|e [|f [|x r]]]]]]]; try discriminate.
    intros H. inversion H. cbn [forallb] in Hh.
    repeat (apply andb_true_iff in Hh as [?Hx Hh]).
    repeat match goal with Hx : is_hex_lower _ = true |- _ => apply hex_val_range in Hx end.
    unfold wf_color_b, triplet_ok_b, channel_b, in_range, hex_pair. cbn [c_type c_number c_triplet t_red t_green t_blue]. lia.
  - destruct (py_int_digits g) as [n|] eqn:En'; [|discriminate].
    assert (Hn := py_int_digits_nonneg g n En').
    destruct (255 <? n) eqn:E255; [discriminate|]. intros H. inversion H.
    unfold wf_color_b. cbn [c_type c_number c_triplet]. destruct (n <? 16) eqn:E; unfold in_range; lia.
  - destruct (split_on 44 g) as [|r0 [|g0 [|b0 [|x r]]]]; try discriminate.
    destruct (py_int_digits r0) as [rv|] eqn:Er; [|destruct fx; discriminate].
    destruct (py_int_digits g0) as [gv|] eqn:Eg; [|destruct fx; discriminate].
    destruct (py_int_digits b0) as [bv|] eqn:Eb; [|destruct fx; discriminate].
    destruct ((rv <=? 255) && (gv <=? 255) && (bv <=? 255)) eqn:E; [|discriminate].
    intros H. inversion H.
    assert (Nr := py_int_digits_nonneg _ _ Er). assert (Ng := py_int_digits_nonneg _ _ Eg).
    assert (Nb := py_int_digits_nonneg _ _ Eb).
    unfold wf_color_b, triplet_ok_b, channel_b, in_range. cbn [c_type c_number c_triplet t_red t_green t_blue]. lia.
Qed.
