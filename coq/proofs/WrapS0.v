(* C02, statement (c) at the level of Text.wrap -- shared vocabulary.
   A text is observed as its list of styled characters `styled t` (SpecWrap): position i carries
   (code point, norm (base :: styles of the covering spans in order)).  Every pass of Text.wrap is
   characterised by what it does to that list:
     - a surviving character keeps its entry unchanged (same code point, same normalised styles);
     - removed characters are a suffix (trimming) or nothing;
     - inserted characters are whitespace, or the one ellipsis that ends a truncated line.
   `sns t` = the styled NON-whitespace characters of t, the sequence statement (c) is about. *)
From RichModel Require Import Prelude Cells SpecCells Wrap SpecWrap.
From RichGen Require Import UnicodeSpace WrapFacts.
From RichProofs Require Import CellsP WrapP2.
From Coq Require Import ZifyBool.

Lemma map_skipn' {A B} (f : A -> B) n : forall l, map f (skipn n l) = skipn n (map f l).
Proof. induction n as [|n IH]; intros [|x l]; cbn; try reflexivity. apply IH. Qed.

Lemma in_skipn' {A} n : forall (l : list A) x, In x (skipn n l) -> In x l.
Proof.
  induction n as [|n IH]; intros l x H; [exact H|]. destruct l as [|y l]; [contradiction|].
  right. apply IH. exact H.
Qed.

(* ------------------------------------------------------------------ generic slices (any element type) *)
Definition gslice {A} (l : list A) (a b : Z) : list A :=
  firstn (Z.to_nat (b - a)) (skipn (Z.to_nat a) l).
Definition gpieces {A} (l : list A) (offs : list Z) (len : Z) : list (list A) :=
  map (fun r => gslice l (fst r) (snd r)) (zip_ranges (0 :: offs ++ [len])).

Lemma gslice_app {A} (l : list A) a b c : 0 <= a <= b -> b <= c -> gslice l a b ++ gslice l b c = gslice l a c.
Proof.
  intros H1 H2. unfold gslice.
  replace (Z.to_nat b) with (Z.to_nat a + Z.to_nat (b - a))%nat by lia.
  rewrite <- skipn_skipn'. rewrite firstn_skipn_add. f_equal. lia.
Qed.

Lemma gslice_all {A} (l : list A) : gslice l 0 (zlen l) = l.
Proof. unfold gslice, zlen. cbn [Z.to_nat skipn]. rewrite Z.sub_0_r, Nat2Z.id. apply firstn_all. Qed.

Lemma gslice_empty {A} (l : list A) a : gslice l a a = [].
Proof. unfold gslice. rewrite Z.sub_diag. reflexivity. Qed.

Lemma gconcat_ranges {A} (s : list A) : forall l a z, 0 <= a -> mono2 a (l ++ [z]) ->
  concat (map (fun r => gslice s (fst r) (snd r)) (zip_ranges (a :: l ++ [z]))) = gslice s a z.
Proof.
  induction l as [|b l IH]; intros a z Ha H.
  - cbn. apply app_nil_r.
  - cbn [app] in *. destruct H as [H1 H2].
    change (zip_ranges (a :: b :: l ++ [z])) with ((a, b) :: zip_ranges (b :: l ++ [z])).
    cbn [map concat fst snd]. rewrite IH by (try assumption; lia).
    apply gslice_app; [lia|]. apply (mono2_le_last l b z H2).
Qed.

Lemma gpieces_concat {A} (s : list A) offs : mono2 0 (offs ++ [zlen s]) -> concat (gpieces s offs (zlen s)) = s.
Proof.
  intros H. unfold gpieces. rewrite gconcat_ranges by (try assumption; lia). apply gslice_all.
Qed.

Lemma zslice_is_gslice (s : str) a b : zslice s a b = gslice s a b.
Proof. reflexivity. Qed.

Lemma gslice_map {A B} (f : A -> B) (l : list A) a b : gslice (map f l) a b = map f (gslice l a b).
Proof.
  unfold gslice. rewrite <- map_skipn'. symmetry. apply map_firstn.
Qed.

Section Vocabulary.
Variable S : Type.
Variable seqb : S -> S -> bool.
Variable null : S.
Arguments plain {S}.
Arguments spans {S}.
Arguments base {S}.

(* ordered styles of the spans covering position i (WrapP3.cover_styles) *)
Definition cover (t : text S) (i : Z) : list S := map (@sp_style S) (filter (covers S i) (spans t)).

Lemma eff_cover (t : text S) i : eff S t i = base t :: cover t i.
Proof. reflexivity. Qed.

(* no span reaches beyond the end / before the start of the text *)
Definition rwithin (t : text S) : Prop := forall j, tlen S t <= j -> cover t j = [].
Definition lwithin (t : text S) : Prop := forall j, j < 0 -> cover t j = [].

(* the styled non-whitespace characters *)
Definition sns (t : text S) : list (schar S) := sc_ns S (styled S seqb null t).

Definition ws_chars (l : list (schar S)) : Prop := forallb (fun x => is_space (fst x)) l = true.

Lemma sc_ns_app a b : sc_ns S (a ++ b) = sc_ns S a ++ sc_ns S b.
Proof. unfold sc_ns. apply filter_app. Qed.

Lemma sc_ns_ws l : ws_chars l -> sc_ns S l = [].
Proof.
  unfold ws_chars, sc_ns. induction l as [|x l IH]; [reflexivity|]. cbn [forallb filter]. intros H.
  apply andb_true_iff in H as [H1 H2]. rewrite H1. cbn [negb]. apply IH. exact H2.
Qed.

Lemma sc_ns_concat L : sc_ns S (concat L) = concat (map (sc_ns S) L).
Proof. induction L as [|x L IH]; [reflexivity|]. cbn [concat map]. rewrite sc_ns_app, IH. reflexivity. Qed.

Lemma styled_plain (t : text S) : map fst (styled S seqb null t) = plain t.
Proof.
  unfold styled. rewrite map_map. cbn [fst].
  generalize 0. induction (plain t) as [|c s IH]; intros n; [reflexivity|].
  cbn [index_from map snd]. f_equal. apply IH.
Qed.

Lemma styled_length (t : text S) : length (styled S seqb null t) = length (plain t).
Proof. transitivity (length (map fst (styled S seqb null t))); [symmetry; apply map_length|]. rewrite styled_plain. reflexivity. Qed.

(* a prefix of the styled characters that contains everything up to the last non-whitespace character
   has the same styled non-whitespace characters *)
Lemma sc_ns_firstn_ge (t : text S) k :
  (length (rstrip (plain t)) <= k)%nat ->
  sc_ns S (firstn k (styled S seqb null t)) = sns t.
Proof.
  intros Hk. unfold sns.
  transitivity (sc_ns S (firstn k (styled S seqb null t) ++ skipn k (styled S seqb null t)));
    [|rewrite firstn_skipn; reflexivity].
  rewrite sc_ns_app. rewrite (sc_ns_ws (skipn k (styled S seqb null t))); [symmetry; apply app_nil_r|].
  unfold ws_chars. apply forallb_forall. intros x Hx.
  (* the characters after position k are whitespace: they lie in the tail of rstrip_split *)
  destruct (rstrip_split (plain t)) as [tail [H1 H2]].
  assert (Hin : In (fst x) (skipn k (plain t))).
  { rewrite <- (styled_plain t). rewrite <- map_skipn'. apply in_map. exact Hx. }
  rewrite H1 in Hin. rewrite skipn_app in Hin. rewrite skipn_all2 in Hin by exact Hk. cbn [app] in Hin.
  rewrite forallb_forall in H2. apply H2. eapply in_skipn'. exact Hin.
Qed.
End Vocabulary.
