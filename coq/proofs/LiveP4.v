(* C10 proofs, part 5: "the cursor never moves above the live region", per CHARACTER, for every
   fault-free history: the terminal-level facts of CursorP threaded through the model. *)
From RichModel Require Import Prelude Cells TermGrid Live SpecLive.
From RichGen Require Import LiveCodes.
From RichProofs Require Import TermGridP LiveP CursorP LiveP2.
From Coq Require Import ZifyBool.

(* s' extends the output of s by a chunk during which the cursor stays at or below row k *)
Definition movedk (c : cfg) (s s' : st) (k : nat) : Prop :=
  exists x, out s' = out s ++ x /\ stays (Hn c) (T c s) x k.

Lemma movedk_same : forall c s s' k, out s' = out s -> movedk c s s' k.
Proof. intros c s s' k E. exists []. split; [now rewrite app_nil_r|apply stays_nil]. Qed.

Lemma movedk_trans : forall c s s1 s2 k, movedk c s s1 k -> movedk c s1 s2 k -> movedk c s s2 k.
Proof.
  intros c s s1 s2 k (x1 & E1 & S1) (x2 & E2 & S2). exists (x1 ++ x2). split.
  - rewrite E2, E1, app_assoc. reflexivity.
  - apply stays_app; [assumption|]. unfold T in S2. rewrite E1, interp_app in S2. exact S2.
Qed.

Lemma movedk_emit : forall c s x k, stays (Hn c) (T c s) x k -> movedk c s (emit s x) k.
Proof. intros c s x k S. exists x. split; [reflexivity|assumption]. Qed.

Lemma pc_cond : forall s, shape_ok s ->
  position_cursor (shape s) = erase_str (length (R_rows s) - 1) \/
  (position_cursor (shape s) = [] /\ R_rows s = [[]]).
Proof.
  intros s Hsh. unfold shape_ok, R_rows in *. destruct (g_live s).
  - destruct Hsh as [w0 E]. rewrite E, pc_is_erase, region_len. now left.
  - rewrite Hsh. right. split; reflexivity.
Qed.

Lemma floor_le_row0 : forall t P R, live_at0 t P R -> (length P <= cursor_row t)%nat.
Proof.
  intros t P R A. pose proof (grid_of_live t P R A) as [_ G]. destruct A as (_ & _ & _ & Hne & _).
  destruct R; [congruence|]. cbn [length] in G. lia.
Qed.
Lemma floor_le_row : forall t P R, live_at t P R -> (length P <= cursor_row t)%nat.
Proof. intros t P R [A _]. now apply (floor_le_row0 t P R). Qed.

Lemma cp_moved : forall c s ls,
  nofault c -> (0 < hooks s)%nat -> shape_ok s -> live_at (T c s) (P_rows s) (R_rows s) ->
  lines_ok ls = true -> lines_ok (fst (frame_lines c s)) = true ->
  movedk c s (fst (console_print c s ls)) (length (g_printed s)).
Proof.
  intros c s ls [Nf1 Nf2] Hh Hsh Hlive Hls Hfl. unfold console_print.
  apply Nat.ltb_lt in Hh. rewrite Hh, Nf1. cbn [fault].
  destruct (frame_lines c s) as [fl sh]. cbn [fst] in *.
  exists (position_cursor (shape s) ++ lines_str ls ++ join_nl fl). split; [reflexivity|].
  pose proof (draw_stays (Hn c) (T c s) (P_rows s) (R_rows s) _ ls fl Hlive (pc_cond s Hsh) Hls Hfl) as D.
  unfold P_rows in D. rewrite map_length in D. exact D.
Qed.

Lemma cp_plain_moved : forall c s ls,
  hooks s = 0%nat -> live_at (T c s) (P_rows s) [[]] -> lines_ok ls = true ->
  movedk c s (fst (console_print c s ls)) (length (g_printed s)).
Proof.
  intros c s ls Hh Hlive Hls. unfold console_print. rewrite Hh. cbn [Nat.ltb Nat.leb fst].
  exists (lines_str ls). split; [reflexivity|].
  pose proof (floor_le_row _ _ _ Hlive) as F. unfold P_rows in F. rewrite map_length in F.
  destruct Hlive as [(Hps & _) _]. apply NoUp_stays; [now apply NoUp_lines|assumption|assumption].
Qed.

Lemma refresh_moved : forall c s,
  nofault c -> (0 < hooks s)%nat -> shape_ok s -> live_at (T c s) (P_rows s) (R_rows s) ->
  lines_ok (fst (frame_lines c (pre_refresh c s))) = true ->
  movedk c s (fst (refresh c s)) (length (g_printed s)).
Proof.
  intros c s Nf Hh Hsh Hlive Hfl. unfold refresh, pre_refresh in *. destruct (c_progress c) eqn:Ep.
  - destruct Nf as [Nf1 Nf2]. rewrite Nf2. cbn [fault].
    assert (EF : frame_lines c (set_lr (bump_build s) (cur (bump_build s))) = frame_lines c (set_lr s (cur s))).
    { unfold frame_lines. rewrite Ep. reflexivity. }
    rewrite <- EF in Hfl.
    exact (cp_moved c (set_lr (bump_build s) (cur (bump_build s))) [] (conj Nf1 Nf2) Hh Hsh Hlive eq_refl Hfl).
  - exact (cp_moved c s [] Nf Hh Hsh Hlive eq_refl Hfl).
Qed.

Lemma refresh_idle_moved : forall c s, nofault c -> SInv c s -> started s = false ->
  movedk c s (fst (refresh c s)) (length (g_printed s)).
Proof.
  intros c s [Nf1 Nf2] [A B C D E] Hs. rewrite Hs in C.
  assert (Hg : g_live s = false) by (destruct (g_live s); [specialize (E eq_refl); congruence|reflexivity]).
  unfold R_rows in A. rewrite Hg in A. unfold refresh. destruct (c_progress c).
  - rewrite Nf2. cbn [fault].
    exact (cp_plain_moved c (set_lr (bump_build s) (cur (bump_build s))) [] C A eq_refl).
  - exact (cp_plain_moved c s [] C A eq_refl).
Qed.

Lemma fits_lines : forall c s cap, fits c s cap = true -> lines_ok (fst (frame_lines c s)) = true.
Proof. intros c s cap Hf. unfold fits in Hf. now apply andb_prop in Hf. Qed.

Lemma start_moved : forall c s, nofault c -> SInv c s -> op_ok c s Start = true ->
  movedk c s (fst (start c s)) (length (g_printed s)).
Proof.
  intros c s Nf Hi Hok. unfold start. cbn [op_ok] in Hok. destruct (started s) eqn:Es.
  - now apply movedk_same.
  - cbn [orb] in Hok. apply andb_prop in Hok. destruct Hok as [Hn0 Hf].
    destruct Hi as [A B C D E]. rewrite Es in C.
    assert (Hg : g_live s = false) by (destruct (g_live s); [specialize (E eq_refl); congruence|reflexivity]).
    assert (Hsh : shape s = None) by (destruct (shape s); [discriminate|reflexivity]).
    set (s1 := emit (set_flags s true (S (hooks s)) true) cursor_off).
    pose proof (live_at_cursor (Hn c) (T c s) (P_rows s) (R_rows s) false A) as K. cbv zeta in K.
    destruct K as (K1 & K2 & K3).
    assert (M1 : movedk c s s1 (length (g_printed s))).
    { exists cursor_off. split; [reflexivity|].
      pose proof (floor_le_row _ _ _ A) as F. unfold P_rows in F. rewrite map_length in F.
      destruct A as [(Hps & _) _]. apply NoUp_stays; [apply (NoUp_vis false)|assumption|assumption]. }
    destruct (c_progress c) eqn:Ep; [|exact M1].
    cbn [negb orb] in Hf.
    assert (L1 : live_at (T c s1) (P_rows s1) (R_rows s1)).
    { unfold T, P_rows, R_rows. subst s1. cbn [emit set_flags out g_printed g_shown g_live].
      rewrite interp_app. exact K1. }
    assert (Sh1 : shape_ok s1) by (unfold shape_ok; subst s1; cbn [emit set_flags g_live shape g_shown]; now rewrite Hg).
    assert (Hf' : lines_ok (fst (frame_lines c (pre_refresh c s1))) = true).
    { apply (fits_lines c _ (Hn c)). unfold fits, pre_refresh, frame_lines in *. rewrite Ep in *. exact Hf. }
    assert (Hh1 : (0 < hooks s1)%nat) by (subst s1; cbn; lia).
    pose proof (refresh_moved c s1 Nf Hh1 Sh1 L1 Hf') as M2.
    assert (R : snd (refresh c s1) = false).
    { pose proof (refresh_draw c s1 Nf Hh1 Sh1 L1 Hf') as RR. cbv zeta in RR. tauto. }
    destruct (refresh c s1) as [s2 raised]. cbn [fst snd] in *. subst raised. cbn [andb fst].
    apply (movedk_trans c s s1 s2); assumption.
Qed.

Lemma stop_moved : forall c s, nofault c -> SInv c s -> op_ok c s Stop = true ->
  movedk c s (fst (stop c s)) (length (g_printed s)).
Proof.
  intros c s Nf Hi Hok. cbn [op_ok] in Hok. destruct (started s) eqn:Es.
  2:{ unfold stop. rewrite Es. now apply movedk_same. }
  cbn [negb orb] in Hok. apply andb_prop in Hok. destruct Hok as [Hl Hcap].
  rewrite (stop_unfold c s Es).
  destruct Hi as [A B C D E]. rewrite Es in C. specialize (D Es).
  set (s1 := stop_s1 c s) in *.
  assert (X : out s1 = out s /\ g_printed s1 = g_printed s /\ g_shown s1 = g_shown s /\ g_live s1 = g_live s
              /\ hooks s1 = hooks s /\ shape s1 = shape s).
  { subst s1. unfold stop_s1. destruct (c_progress c); [repeat split|].
    destruct (c_vis_unless_transient c && c_transient c); repeat split. }
  destruct X as (X1 & X2 & X3 & X4 & X5 & X6).
  assert (A1 : live_at (T c s1) (P_rows s1) (R_rows s1)).
  { unfold T, P_rows, R_rows. rewrite X1, X2, X3, X4. exact A. }
  assert (D1 : shape_ok s1) by (unfold shape_ok; rewrite X3, X4, X6; exact D).
  assert (Hh1 : (0 < hooks s1)%nat) by lia.
  pose proof (refresh_moved c s1 Nf Hh1 D1 A1 Hl) as M.
  pose proof (refresh_draw c s1 Nf Hh1 D1 A1 Hl) as R. cbv zeta in R.
  destruct (refresh c s1) as [sr raised]. cbn [fst snd] in R, M.
  destruct R as (R1 & R2 & R3 & R4 & R5 & R6 & (F1 & F2 & F3) & R7 & R8). subst raised.
  set (k := length (g_printed s)).
  assert (M0 : movedk c s sr k).
  { destruct M as (x & E1 & S1). exists x. split; [now rewrite E1, X1|].
    unfold T in *. rewrite X1, X2 in S1. exact S1. }
  set (s2 := after_refresh c s sr false).
  assert (Y : out s2 = out sr) by (subst s2; unfold after_refresh; destruct (restores c false); reflexivity).
  set (fl := fst (frame_lines c (pre_refresh c s1))) in *.
  assert (HP : P_rows sr = P_rows s) by (unfold P_rows; now rewrite R8, X2).
  assert (HR : R_rows sr = region_rows fl) by (unfold R_rows; now rewrite R6, R7).
  assert (Hk : k = length (P_rows sr)) by (rewrite HP; unfold P_rows; now rewrite map_length).
  (* console.line() *)
  pose proof (lf_rest (Hn c) (T c sr) (P_rows sr) (R_rows sr) R2) as L. cbv zeta in L.
  destruct L as (L1 & L2 & L3).
  pose proof (live_at_cursor (Hn c) _ _ _ true L1) as K. cbv zeta in K. destruct K as (K1 & K2 & K3).
  assert (Srow : (k <= cursor_row (T c sr))%nat).
  { rewrite Hk. exact (floor_le_row0 _ _ _ R2). }
  assert (S_lf : stays (Hn c) (T c sr) [NL] k).
  { destruct R2 as (Hps & _). apply NoUp_stays; [apply NoUp_lf|assumption|assumption]. }
  assert (S_on : stays (Hn c) (interp (Hn c) (T c sr) [10]) cursor_on k).
  { pose proof (floor_le_row _ _ _ L1) as F. rewrite app_length in F.
    destruct L1 as [(Hps & _) _]. apply NoUp_stays; [apply (NoUp_vis true)|assumption|].
    rewrite Hk. eapply Nat.le_trans; [apply Nat.le_add_r|exact F]. }
  (* everything up to show_cursor(True) *)
  assert (M4 : movedk c s (emit (set_flags (emit s2 [NL]) false (pred (hooks (emit s2 [NL]))) false) cursor_on) k).
  { destruct M0 as (x & E1 & S1). exists (x ++ [NL] ++ cursor_on). split.
    - cbn [emit set_flags out]. rewrite Y, E1, <- !app_assoc. reflexivity.
    - apply stays_app; [assumption|]. assert (ET : interp (Hn c) (T c s) x = T c sr) by (unfold T; now rewrite E1, interp_app).
      rewrite ET. apply stays_app; assumption. }
  destruct (c_transient c) eqn:Et; cbn [fst].
  - apply Nat.leb_le in Hcap.
    assert (Hsh2 : exists w, shape sr = Some (w, zlen fl)).
    { unfold shape_ok in R5. rewrite R6, R7 in R5. exact R5. }
    destruct Hsh2 as [w Hsh2].
    assert (Hvr : (length fl <= lf_vr (Hn c) (vr (T c sr)))%nat).
    { apply lf_room; [exact Hcap|]. rewrite <- region_len'. rewrite <- HR. apply R4.
      apply Nat.le_trans with (S (length fl)); [apply Nat.le_succ_diag_r|exact Hcap]. }
    apply (movedk_trans c s _ _ k M4).
    set (s4 := emit (set_flags (emit s2 [NL]) false (pred (hooks (emit s2 [NL]))) false) cursor_on).
    assert (ET4 : T c s4 = interp (Hn c) (interp (Hn c) (T c sr) [10]) cursor_on).
    { unfold T. subst s4. cbn [emit set_flags out]. rewrite Y, !interp_app. reflexivity. }
    assert (Es4 : shape s4 = shape sr).
    { subst s4 s2. cbn [emit set_flags shape]. unfold after_refresh. destruct (restores c false); reflexivity. }
    exists (restore_cursor (shape s4)). split.
    { unfold forget. destruct (c_resets_shape c); reflexivity. }
    rewrite Es4, Hsh2, rc_is, to_nat_zlen, ET4, Hk.
    destruct fl as [|f0 fl0] eqn:Efl.
    + cbn [length repeat concat].
      pose proof (restore_stays (Hn c) _ (P_rows sr ++ R_rows sr) [] ltac:(rewrite app_nil_r; exact K1) (Nat.le_0_l _)) as Q.
      cbn [length repeat concat] in Q. eapply stays_le; [|exact Q]. rewrite app_length. apply Nat.le_add_r.
    + pose proof (restore_stays (Hn c) _ (P_rows sr) (R_rows sr) K1) as Q.
      rewrite HR in Q. unfold region_rows in Q. rewrite map_length in Q.
      apply Q. rewrite K3, L3. exact Hvr.
  - destruct M4 as (x & E1 & S1). exists x. split; [|assumption].
    unfold forget. destruct (c_resets_shape c); exact E1.
Qed.

Lemma step_moved : forall c s o, nofault c -> SInv c s -> op_ok c s o = true ->
  movedk c s (fst (step c s o)) (length (g_printed s)).
Proof.
  intros c s o Nf Hi Hok. pose proof Hi as [A B C D E].
  assert (Idle : started s = false -> hooks s = 0%nat /\ live_at (T c s) (P_rows s) [[]]).
  { intros Es. rewrite Es in C. split; [assumption|].
    assert (Hg : g_live s = false) by (destruct (g_live s); [specialize (E eq_refl); congruence|reflexivity]).
    unfold R_rows in A. now rewrite Hg in A. }
  assert (Live : started s = true -> (0 < hooks s)%nat /\ shape_ok s).
  { intros Es. rewrite Es in C. split; [lia|now apply D]. }
  destruct o; cbn [step op_ok] in *.
  - apply andb_prop in Hok. destruct Hok as [Hl Hf]. destruct (started s) eqn:Es; cbn [negb orb] in Hf.
    + destruct (Live eq_refl) as [L1 L2]. apply cp_moved; try assumption. now apply (fits_lines c s (Hn c)).
    + destruct (Idle eq_refl) as [I1 I2]. now apply cp_plain_moved.
  - apply andb_prop in Hok. destruct Hok as [Hl Hf]. destruct (started s) eqn:Es; cbn [negb orb] in Hf.
    + destruct (Live eq_refl) as [L1 L2]. apply cp_moved; try assumption. now apply (fits_lines c s (Hn c)).
    + destruct (Idle eq_refl) as [I1 I2]. now apply cp_plain_moved.
  - discriminate.
  - destruct r; [|now apply movedk_same].
    destruct (started s) eqn:Es; cbn [negb orb] in Hok.
    + destruct (Live eq_refl) as [L1 L2].
      exact (refresh_moved c (set_cur s f) Nf L1 L2 A (fits_lines c _ _ Hok)).
    + assert (I1 : SInv c (set_cur s f)) by (apply (SInv_ext c s); try reflexivity; assumption).
      exact (refresh_idle_moved c (set_cur s f) Nf I1 Es).
  - destruct (started s) eqn:Es; cbn [negb orb] in Hok.
    + destruct (Live eq_refl) as [L1 L2]. apply refresh_moved; try assumption. now apply (fits_lines c _ (Hn c)).
    + now apply refresh_idle_moved.
  - now apply start_moved.
  - now apply stop_moved.
Qed.

(* the chunks of a history: for every executed operation, (lines printed before it, its output) *)
Fixpoint run_chunks (c : cfg) (s : st) (ops : list op) : list (nat * str) :=
  match ops with
  | [] => []
  | o :: r =>
      let '(s1, raised) := step c s o in
      (length (g_printed s), skipn (length (out s)) (out s1)) :: (if raised then [] else run_chunks c s1 r)
  end.

Lemma chunks_ok : forall c ops s, nofault c -> SInv c s -> ops_ok c s ops = true ->
  cursor_chunks_ok (Hn c) (T c s) (run_chunks c s ops) = true.
Proof.
  intros c ops. induction ops as [|o r IH]; intros s Nf Hi Hok; [reflexivity|].
  cbn [ops_ok] in Hok. apply andb_prop in Hok. destruct Hok as [H1 H2].
  pose proof (step_inv c s o Nf Hi H1) as [S1 S2]. pose proof (step_moved c s o Nf Hi H1) as (x & E & St).
  cbn [run_chunks]. destruct (step c s o) as [s1 raised]. cbn [fst snd] in *. subst raised.
  cbn [cursor_chunks_ok]. rewrite E, skipn_app, Nat.sub_diag, skipn_all. cbn [skipn app].
  pose proof (interp_min_fst (Hn c) x (T c s) (cursor_row (T c s))) as F.
  specialize (St (cursor_row (T c s))).
  destruct (interp_min (Hn c) (T c s) x (cursor_row (T c s))) as [t' m]. cbn [fst snd] in *.
  destruct Hi as [A _ _ _ _]. pose proof (floor_le_row _ _ _ A) as Fl. unfold P_rows in Fl. rewrite map_length in Fl.
  assert (Hm : (length (g_printed s) <=? m)%nat = true) by (apply Nat.leb_le; lia).
  rewrite Hm. cbn [andb]. subst t'.
  assert (ET : interp (Hn c) (T c s) x = T c s1) by (unfold T; now rewrite E, interp_app).
  rewrite ET. now apply IH.
Qed.

(* cursor_never_above_region, per character, for every fault-free history *)
Theorem cursor_never_above : forall c f0 ops, nofault c -> ops_ok c (st0 c f0) ops = true ->
  cursor_ok_b (Hn c) (run_chunks c (st0 c f0) ops) = true.
Proof. intros c f0 ops Nf Hok. exact (chunks_ok c ops (st0 c f0) Nf (SInv_init c f0) Hok). Qed.
