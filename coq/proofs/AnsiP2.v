(* C03, part 2: one rendered style, one segment, the whole buffer (induction over segments using
   no-leak), and the theorems of props/C03.v. *)
From RichModel Require Import Prelude Color Style SpecColor TermSgr Ansi SpecAnsi.
From RichProofs Require Import ColorP ColorP2 TermSgrP AnsiP.
From Coq Require Import ZifyBool.

Arguments has_bit : simpl never.

Definition st0 (l : option str) : tstate := mkT no_flags TDefault TDefault l.

(* parameters an SGR-wrapped text may show: the style's own, and the final 0 *)
Definition own_or_zero (nums : list Z) (p : Z) : Prop := In p nums \/ p = 0.

(* ------------------------------------------------------------------ CSI nums m text CSI 0 m *)
Lemma run_sgr_wrap nums l vis text :
  nums_ok nums -> forallb gchar text = true ->
  apply_sgr (st0 l) nums = vis -> t_link vis = l ->
  exists ev, run PGround (st0 l) (sgr_wrap (str_join [59] (map str_of_Z nums)) text) = (PGround, st0 l, ev)
    /\ cells_of ev = map (mk_cell vis) text /\ others_of ev = 0%nat
    /\ Forall (own_or_zero nums) (sgr_params_of ev).
Proof.
  intros Hok Ht Hvis Hl. destruct nums as [|k ks].
  - cbn [map]. change (str_join [59] []) with (@nil Z). cbn [sgr_wrap].
    rewrite apply_sgr_nil in Hvis. subst vis. exists (text_events (st0 l) text).
    split; [exact (run_text _ _ Ht)|]. split; [apply cells_of_text|]. split; [apply others_of_text|].
    rewrite sgr_params_of_text. constructor.
  - destruct (parse_nums (k :: ks) ltac:(discriminate) Hok) as [Pp [Pc Pn]].
    set (attrs := str_join [59] (map str_of_Z (k :: ks))) in *.
    destruct attrs as [|a attrs'] eqn:EA; [congruence|]. rewrite <- EA in *. clear EA a attrs'.
    assert (Shape : exists a r, attrs = a :: r) by (destruct attrs; [congruence|eauto]).
    destruct Shape as [a [r Ea]].
    assert (W : sgr_wrap attrs text = ([27; 91] ++ attrs ++ [109]) ++ text ++ ([27; 91] ++ [48] ++ [109])).
    { rewrite Ea. unfold sgr_wrap, ESC. cbn [app]. rewrite <- !app_assoc. reflexivity. }
    rewrite W.
    pose proof (run_sgr (st0 l) attrs Pc) as R1. rewrite Pp, Hvis in R1.
    pose proof (run_text vis text Ht) as R2.
    assert (R3 : run PGround vis ([27; 91] ++ [48] ++ [109]) = (PGround, st0 l, [ESgr [0]])).
    { rewrite (run_sgr vis [48] eq_refl). change (parse_params [48]) with [0].
      rewrite sgr_reset, Hl. reflexivity. }
    pose proof (run_app_eq _ _ _ _ _ _ _ _ _ _ R2 R3) as R23.
    pose proof (run_app_eq _ _ _ _ _ _ _ _ _ _ R1 R23) as R.
    eexists. split; [exact R|]. split; [|split].
    + rewrite !cells_of_app, cells_of_text. cbn [cells_of flat_map app]. now rewrite app_nil_r.
    + rewrite !others_of_app, others_of_text. reflexivity.
    + rewrite !sgr_params_of_app, sgr_params_of_text. cbn [sgr_params_of flat_map app]. rewrite app_nil_r.
      apply Forall_forall. intros p Hp. change (In p ((k :: ks) ++ [0])) in Hp.
      apply in_app_or in Hp as [Hp|[<-|[]]]; [left; exact Hp|right; reflexivity].
Qed.

(* ------------------------------------------------------------------ with the hyperlink around it *)
Lemma link_wrap_shape lid link r :
  link_wrap lid link r
  = ([27; 93] ++ ([56; 59] ++ ([105; 100; 61] ++ lid) ++ 59 :: link) ++ [27; 92])
    ++ r ++ ([27; 93] ++ ([56; 59] ++ [] ++ 59 :: []) ++ [27; 92]).
Proof. unfold link_wrap, ESC. cbn [app]. rewrite <- !app_assoc. cbn [app]. reflexivity. Qed.

Lemma lid_ok_parts lid : lid_ok lid = true ->
  forallb ochar lid = true /\ forallb (fun c => negb (c =? 59)) lid = true.
Proof.
  unfold lid_ok. induction lid as [|c lid IH]; intros H; [split; reflexivity|].
  cbn [forallb] in *. apply andb_true_iff in H as [Hc Hl]. apply andb_true_iff in Hc as [H1 H2].
  destruct (IH Hl) as [I1 I2]. change (osc_safe_char c) with (ochar c) in H1. rewrite H1, H2, I1, I2. split; reflexivity.
Qed.

Definition rendered_bytes (s : style) (sys : ColorSystem) (legacy : bool) (lid text : str) : str :=
  let rendered := sgr_wrap (str_join [59] (map str_of_Z (style_nums s sys))) text in
  match s_link s with
  | Some ((_ :: _) as link) => if legacy then rendered else link_wrap lid link rendered
  | _ => rendered
  end.

Lemma run_rendered s sys legacy lid text :
  style_wf s = true -> lid_ok lid = true -> forallb gchar text = true ->
  exists ev, run PGround t_reset (rendered_bytes s sys legacy lid text) = (PGround, t_reset, ev)
    /\ cells_of ev = map (mk_cell (vis_state s sys (want_link legacy s))) text
    /\ others_of ev = 0%nat
    /\ Forall (own_or_zero (style_nums s sys)) (sgr_params_of ev).
Proof.
  intros W Hlid Ht. pose proof (style_nums_ok s sys W) as Nok.
  assert (Plain : want_link legacy s = None ->
            exists ev, run PGround t_reset (sgr_wrap (str_join [59] (map str_of_Z (style_nums s sys))) text)
                       = (PGround, t_reset, ev)
              /\ cells_of ev = map (mk_cell (vis_state s sys (want_link legacy s))) text
              /\ others_of ev = 0%nat /\ Forall (own_or_zero (style_nums s sys)) (sgr_params_of ev)).
  { intros Hw. rewrite Hw.
    exact (run_sgr_wrap _ None _ text Nok Ht (apply_style_nums s sys None W) eq_refl). }
  unfold rendered_bytes, want_link in *. destruct (s_link s) as [[|c link]|] eqn:EL.
  - apply Plain. destruct legacy; reflexivity.
  - destruct legacy.
    + apply Plain. reflexivity.
    + clear Plain.
      destruct (style_wf_parts s W) as [_ [_ WL]]. rewrite EL in WL.
      destruct (lid_ok_parts lid Hlid) as [L1 L2].
      rewrite link_wrap_shape.
      assert (O1 : forallb ochar ([56; 59] ++ ([105; 100; 61] ++ lid) ++ 59 :: (c :: link)) = true).
      { rewrite !forallb_app, L1. change (forallb ochar (59 :: c :: link)) with (ochar 59 && link_ok (c :: link)).
        rewrite WL. reflexivity. }
      pose proof (run_osc t_reset _ O1) as R1.
      rewrite (osc_end_link t_reset ([105; 100; 61] ++ lid) (c :: link)) in R1
        by (rewrite forallb_app, L2; reflexivity).
      change (set_link (Some (c :: link)) t_reset) with (st0 (Some (c :: link))) in R1.
      destruct (run_sgr_wrap _ (Some (c :: link)) _ text Nok Ht (apply_style_nums s sys (Some (c :: link)) W) eq_refl)
        as [ev2 [R2 [C2 [Oth2 P2]]]].
      assert (R3 : run PGround (st0 (Some (c :: link))) ([27; 93] ++ ([56; 59] ++ [] ++ 59 :: []) ++ [27; 92])
                   = (PGround, t_reset, [ELink None])).
      { rewrite (run_osc (st0 (Some (c :: link))) ([56; 59] ++ [] ++ 59 :: []) eq_refl). rewrite (osc_end_link (st0 (Some (c :: link))) [] []) by reflexivity.
        reflexivity. }
      pose proof (run_app_eq _ _ _ _ _ _ _ _ _ _ R2 R3) as R23.
      pose proof (run_app_eq _ _ _ _ _ _ _ _ _ _ R1 R23) as R.
      eexists. split; [exact R|]. split; [|split].
      * rewrite !cells_of_app, C2. cbn [cells_of flat_map app]. now rewrite app_nil_r.
      * rewrite !others_of_app, Oth2. reflexivity.
      * rewrite !sgr_params_of_app. cbn [sgr_params_of flat_map app]. now rewrite app_nil_r.
  - apply Plain. destruct legacy; reflexivity.
Qed.

(* ------------------------------------------------------------------ the memo *)
Lemma ColorSystem_eqb_eq a b : ColorSystem_eqb a b = true -> a = b.
Proof. destruct a, b; cbn; intros H; try discriminate; reflexivity. Qed.

Definition memo_for (sys : ColorSystem) (m : memo) : bool :=
  match m with Some (sys0, _) => ColorSystem_eqb sys0 sys | None => true end.

Lemma ansi_codes_fresh fx s m sys :
  memo_honest s m = true -> fx || memo_for sys m = true ->
  ansi_codes fx s m sys = make_ansi_codes s sys.
Proof.
  destruct m as [[sys0 a]|]; [|reflexivity]. cbn [memo_honest memo_for ansi_codes]. intros H C.
  destruct (make_ansi_codes s sys0) as [a'| |] eqn:E; try discriminate. apply str_eqb_eq in H. subst a'.
  destruct (ColorSystem_eqb sys0 sys) eqn:Q.
  - apply ColorSystem_eqb_eq in Q. subst sys0. rewrite andb_false_r. now rewrite E.
  - destruct fx; [reflexivity|discriminate].
Qed.

Lemma render_styled_bytes fx s m sys legacy lid text :
  style_wf s = true -> memo_honest s m = true -> fx || memo_for sys m = true -> text <> [] ->
  render_styled fx s m text (Some sys) legacy lid = Ok (rendered_bytes s sys legacy lid text).
Proof.
  intros W H C Hne. unfold render_styled. destruct text as [|c t]; [congruence|].
  rewrite (ansi_codes_fresh fx s m sys H C), (make_ansi_codes_spec s sys W). cbn [bind].
  unfold rendered_bytes. destruct (s_link s) as [[|c' l']|]; try reflexivity. destruct legacy; reflexivity.
Qed.

(* ------------------------------------------------------------------ one styled segment *)
Definition seg_good (k : cfg) (bytes : str) (cells : list cell) (P : Z -> Prop) : Prop :=
  exists ev, run PGround t_reset bytes = (PGround, t_reset, ev)
    /\ cells_of ev = cells
    /\ (k_terminal k = false -> others_of ev = 0%nat)
    /\ Forall P (sgr_params_of ev).

Lemma styled_good k fx s m sys lid text :
  style_wf s = true -> memo_honest s m = true -> fx || memo_for sys m = true ->
  lid_ok lid = true -> plain_text text = true ->
  exists bytes, render_styled fx s m text (Some sys) (k_legacy k) lid = Ok bytes
    /\ seg_good k bytes (map (mk_cell (vis_state s sys (want_link (k_legacy k) s))) text)
                (own_or_zero (style_nums s sys)).
Proof.
  intros W H C Hlid Ht. destruct text as [|c t] eqn:ET.
  - exists []. split; [reflexivity|]. exists []. repeat split; constructor.
  - rewrite <- ET in *. assert (Hne : text <> []) by (rewrite ET; discriminate).
    exists (rendered_bytes s sys (k_legacy k) lid text). split; [exact (render_styled_bytes _ _ _ _ _ _ _ W H C Hne)|].
    destruct (run_rendered s sys (k_legacy k) lid text W Hlid Ht) as [ev [R [Cc [O P]]]].
    exists ev. repeat split; try assumption. intros _. exact O.
Qed.

(* ------------------------------------------------------------------ colour stripping *)
Definition strips (k : cfg) : bool :=
  match k_system k with Some _ => k_no_color k | None => false end.
Definition strip (k : cfg) (g : aseg) : aseg := if strips k then remove_color_seg g else g.

Lemma strip_color_map k segs : strip_color k segs = map (strip k) segs.
Proof.
  unfold strip_color, strip, strips. destruct (k_system k); [destruct (k_no_color k)|]; try reflexivity;
    now rewrite map_id.
Qed.

Lemma style_truthy_some o s : style_truthy o = Some s -> o = Some s /\ s_null s = false.
Proof.
  unfold style_truthy, style_bool. destruct o as [s'|]; [|discriminate].
  destruct (s_null s') eqn:E; cbn; [discriminate|]. intros H. inversion H; subst. split; [reflexivity|exact E].
Qed.

Lemma swc_facts s : s_null s = false ->
  style_truthy (Some (style_without_color s)) = Some (style_without_color s)
  /\ want_flags (style_without_color s) = want_flags s
  /\ s_link (style_without_color s) = s_link s
  /\ s_color (style_without_color s) = None /\ s_bgcolor (style_without_color s) = None.
Proof. intros E. unfold style_without_color. rewrite E. repeat split; reflexivity. Qed.

Lemma swc_wf s : s_null s = false -> style_wf s = true -> style_wf (style_without_color s) = true.
Proof.
  intros E W. destruct (swc_facts s E) as [_ [_ [L [C B]]]]. destruct (style_wf_parts s W) as [_ [_ WL]].
  unfold style_wf. rewrite C, B, L. cbn. destruct (s_link s); [exact WL|reflexivity].
Qed.

(* ------------------------------------------------------------------ one segment *)
(* emitted control text of an unstyled control segment carries no colour parameter *)
Definition ctl_colorless (g : aseg) : bool :=
  match style_truthy (a_style g) with
  | Some _ => true
  | None => negb (a_ctl g) || no_color_params_b (a_text g)
  end.

Definition no_color_param (p : Z) : Prop := color_param p = false.

Lemma seg_run k g : seg_ok k g = true ->
  exists bytes, render_seg k (strip k g) = Ok bytes
    /\ seg_good k bytes (expected_seg k g)
         (fun p => k_no_color k = true -> ctl_colorless g = true -> no_color_param p).
Proof.
  intros OK. unfold seg_ok in OK. apply andb_true_iff in OK as [Hlid OK].
  assert (Tx : a_text (strip k g) = a_text g /\ a_ctl (strip k g) = a_ctl g /\ a_lid (strip k g) = a_lid g).
  { unfold strip, remove_color_seg. destruct (strips k); [|repeat split].
    destruct (a_style g) as [s|]; [destruct (style_bool s)|]; repeat split. }
  destruct Tx as [Tt [Tc Tl]].
  unfold render_seg, expected_seg. rewrite Tt, Tc, Tl.
  destruct (k_fix_ctl k && dropped k g) eqn:FD.
  { (* dropped before anything else *)
    apply andb_true_iff in FD as [F D]. rewrite F. cbn [andb]. unfold dropped in D |- *. rewrite D.
    exists []. split; [reflexivity|]. exists []. repeat split; constructor. }
  assert (G1 : k_fix_ctl k && negb (k_terminal k) && a_ctl g = false).
  { rewrite <- andb_assoc. exact FD. }
  rewrite G1.
  destruct (style_truthy (a_style g)) as [s|] eqn:TS.
  - (* a truthy style *)
    apply andb_true_iff in OK as [OK ND]. apply andb_true_iff in OK as [OK PL].
    apply andb_true_iff in OK as [OK MS]. apply andb_true_iff in OK as [W MH].
    cbn [orb] in PL.
    assert (D : dropped k g = false).
    { destruct (k_fix_ctl k); [exact FD|]. cbn [orb] in ND. now apply negb_true_iff in ND. }
    rewrite D. destruct (style_truthy_some _ _ TS) as [AS NN].
    destruct (k_system k) as [sys|] eqn:KS.
    + (* a colour system *)
      assert (VE : forall s', want_flags s' = want_flags s -> s_link s' = s_link s ->
                 (k_no_color k = false -> s_color s' = s_color s /\ s_bgcolor s' = s_bgcolor s) ->
                 (k_no_color k = true -> s_color s' = None /\ s_bgcolor s' = None) ->
                 vis_state s' sys (want_link (k_legacy k) s') = visible k s).
      { intros s' F L C0 C1. unfold visible, vis_state, want_link. rewrite KS, F, L.
        destruct (k_no_color k).
        - destruct (C1 eq_refl) as [-> ->]. reflexivity.
        - destruct (C0 eq_refl) as [-> ->]. now rewrite !want_color_dg. }
      unfold strip, strips. rewrite KS. destruct (k_no_color k) eqn:NC.
      * (* NO_COLOR: the colourless copy, empty memo *)
        unfold remove_color_seg. rewrite AS. unfold style_bool. rewrite NN. cbn [negb a_style a_memo].
        destruct (swc_facts s NN) as [T' [F' [L' [C' B']]]]. rewrite T'.
        destruct (styled_good k (k_fix_d16 k) (style_without_color s) None sys (a_lid g) (a_text g)
                    (swc_wf s NN W) eq_refl (orb_true_r _) Hlid PL) as [bytes [R [ev [Rr [Cc [Oo Pp]]]]]].
        exists bytes. split; [exact R|]. exists ev. split; [exact Rr|]. split; [|split; [exact Oo|]].
        -- rewrite Cc. f_equal. f_equal. apply VE; try assumption; intros; [discriminate|split; assumption].
        -- eapply Forall_impl; [|exact Pp]. intros p Hp _ _. unfold no_color_param.
           unfold style_nums in Hp. rewrite C', B' in Hp. cbn [dg ocolor_nums] in Hp. rewrite !app_nil_r in Hp.
           destruct Hp as [Hp| ->]; [|reflexivity].
           pose proof (proj2 (attr_nums_facts (want_flags (style_without_color s)) eq_refl)) as A.
           rewrite Forall_forall in A. exact (A p Hp).
      * (* colours kept *)
        cbv iota. rewrite TS.
        assert (MF : k_fix_d16 k || memo_for sys (a_memo g) = true).
        { unfold memo_same_system in MS. rewrite KS in MS. unfold memo_for.
          destruct (a_memo g) as [[s0 a0]|]; [exact MS|apply orb_true_r]. }
        destruct (styled_good k (k_fix_d16 k) s (a_memo g) sys (a_lid g) (a_text g) W MH MF Hlid PL)
          as [bytes [R [ev [Rr [Cc [Oo Pp]]]]]].
        exists bytes. split; [exact R|]. exists ev. split; [exact Rr|]. split; [|split; [exact Oo|]].
        -- rewrite Cc. f_equal. f_equal. apply VE; try reflexivity; intros; [split; reflexivity|discriminate].
        -- eapply Forall_impl; [|exact Pp]. intros p _ Hn. discriminate.
    + (* no colour system: the text as it is *)
      assert (RS : exists m', render_styled (k_fix_d16 k) s m' (a_text g) None (k_legacy k) (a_lid g) = Ok (a_text g)).
      { exists None. unfold render_styled. destruct (a_text g); reflexivity. }
      unfold strip, strips. rewrite KS. cbv iota. rewrite TS.
      exists (a_text g). split; [unfold render_styled; destruct (a_text g); reflexivity|].
      exists (text_events t_reset (a_text g)). split; [exact (run_text _ _ PL)|].
      unfold visible. rewrite KS. split; [apply cells_of_text|]. split; [intros _; apply others_of_text|].
      rewrite sgr_params_of_text. constructor.
  - (* no style, or a null one *)
    assert (TS' : style_truthy (a_style (strip k g)) = None).
    { unfold strip, remove_color_seg. destruct (strips k); [|exact TS].
      destruct (a_style g) as [s|] eqn:AS; [|cbv iota; rewrite AS; reflexivity].
      unfold style_truthy in TS. destruct (style_bool s); [discriminate|reflexivity]. }
    rewrite TS'. unfold dropped in *. destruct (a_ctl g) eqn:CT.
    + destruct (k_terminal k) eqn:TM; cbn [negb andb orb] in *.
      * (* control codes on a terminal: neutral *)
        unfold neutral_b in OK. destruct (run PGround t_reset (a_text g)) as [[m st] ev] eqn:R.
        apply andb_true_iff in OK as [Gm Gs]. apply is_ground_eq in Gm. apply tstate_eqb_eq in Gs. subst m st.
        exists (a_text g). split; [reflexivity|]. exists ev. split; [exact R|]. split; [|split].
        -- unfold interp, events. now rewrite R.
        -- intros T. rewrite TM in T. discriminate.
        -- apply Forall_forall. intros p Hp _ CL. unfold ctl_colorless in CL. rewrite TS, CT in CL.
           cbn [negb orb] in CL. unfold no_color_params_b, events in CL. rewrite R in CL. cbn [snd] in CL.
           rewrite forallb_forall in CL. specialize (CL p Hp). unfold no_color_param.
           now apply negb_true_iff in CL.
      * exists []. split; [reflexivity|]. exists []. repeat split; constructor.
    + cbn [andb negb]. rewrite andb_false_r.
      exists (a_text g). split; [reflexivity|]. exists (text_events t_reset (a_text g)).
      split; [exact (run_text _ _ OK)|]. split; [apply cells_of_text|]. split; [intros _; apply others_of_text|].
      rewrite sgr_params_of_text. constructor.
Qed.

(* ------------------------------------------------------------------ the buffer *)
Lemma segs_run k segs : segs_ok k segs = true ->
  exists bytes, render_segs k (map (strip k) segs) = Ok bytes
    /\ seg_good k bytes (expected k segs)
         (fun p => k_no_color k = true -> forallb ctl_colorless segs = true -> no_color_param p).
Proof.
  induction segs as [|g segs IH]; intros OK.
  - exists []. split; [reflexivity|]. exists []. repeat split; constructor.
  - cbn [segs_ok forallb] in OK. apply andb_true_iff in OK as [Og Os].
    destruct (seg_run k g Og) as [b1 [R1 [e1 [Rr1 [C1 [O1 P1]]]]]].
    destruct (IH Os) as [b2 [R2 [e2 [Rr2 [C2 [O2 P2]]]]]].
    exists (b1 ++ b2). split; [cbn [map render_segs]; rewrite R1, R2; reflexivity|].
    exists (e1 ++ e2). split; [exact (run_app_eq _ _ _ _ _ _ _ _ _ _ Rr1 Rr2)|]. split; [|split].
    + rewrite cells_of_app, C1, C2. reflexivity.
    + intros T. rewrite others_of_app, (O1 T), (O2 T). reflexivity.
    + rewrite sgr_params_of_app. apply Forall_app. split.
      * eapply Forall_impl; [|exact P1]. intros p Hp N CL. cbn [forallb] in CL.
        apply andb_true_iff in CL as [CL _]. exact (Hp N CL).
      * eapply Forall_impl; [|exact P2]. intros p Hp N CL. cbn [forallb] in CL.
        apply andb_true_iff in CL as [_ CL]. exact (Hp N CL).
Qed.

Lemma buffer_run k segs : segs_ok k segs = true ->
  exists bytes, render_buffer k segs = Ok bytes
    /\ seg_good k bytes (expected k segs)
         (fun p => k_no_color k = true -> forallb ctl_colorless segs = true -> no_color_param p).
Proof. intros OK. unfold render_buffer. rewrite strip_color_map. exact (segs_run k segs OK). Qed.

(* ------------------------------------------------------------------ theorems *)
Theorem stream_meaning k segs : segs_ok k segs = true ->
  exists bytes, render_buffer k segs = Ok bytes
    /\ interp bytes = expected k segs
    /\ final_mode bytes = PGround /\ final_state bytes = t_reset
    /\ stream_means_b k segs bytes = true.
Proof.
  intros OK. destruct (buffer_run k segs OK) as [bytes [R [ev [Rr [C _]]]]].
  exists bytes. split; [exact R|]. unfold interp, events, final_mode, final_state, stream_means_b.
  rewrite Rr. cbn [fst snd]. repeat split; try exact C.
  rewrite C, cells_eqb_refl. reflexivity.
Qed.

(* no style leaks: cut the buffer anywhere; the bytes of the first part leave the terminal in the
   reset state, so the second part means what it means on its own *)
Lemma render_segs_app k a b ba bb :
  render_segs k a = Ok ba -> render_segs k b = Ok bb -> render_segs k (a ++ b) = Ok (ba ++ bb).
Proof.
  revert ba. induction a as [|g a IH]; intros ba Ha Hb.
  - cbn in Ha. inversion Ha; subst. exact Hb.
  - cbn [render_segs app] in *. destruct (render_seg k g) as [x| |]; try discriminate. cbn [bind] in *.
    destruct (render_segs k a) as [y| |]; try discriminate. cbn [bind] in *. inversion Ha; subst.
    rewrite (IH y eq_refl Hb). cbn [bind]. now rewrite app_assoc.
Qed.

Theorem no_leak k a b : segs_ok k (a ++ b) = true ->
  exists ba bb, render_buffer k a = Ok ba /\ render_buffer k b = Ok bb
    /\ render_buffer k (a ++ b) = Ok (ba ++ bb)
    /\ final_mode ba = PGround /\ final_state ba = t_reset
    /\ interp (ba ++ bb) = interp ba ++ interp bb
    /\ interp bb = expected k b.
Proof.
  intros OK. unfold segs_ok in OK. rewrite forallb_app in OK. apply andb_true_iff in OK as [Oa Ob].
  destruct (buffer_run k a Oa) as [ba [Ra [ea [Rra [Ca _]]]]].
  destruct (buffer_run k b Ob) as [bb [Rb [eb [Rrb [Cb _]]]]].
  exists ba, bb. split; [exact Ra|]. split; [exact Rb|]. split.
  - unfold render_buffer in *. rewrite strip_color_map in *. rewrite map_app.
    exact (render_segs_app _ _ _ _ _ Ra Rb).
  - unfold final_mode, final_state, interp, events. rewrite Rra, Rrb.
    rewrite (run_app_eq _ _ _ _ _ _ _ _ _ _ Rra Rrb). cbn [fst snd]. repeat split; try assumption.
    apply cells_of_app.
Qed.

Theorem no_color_params k segs :
  k_no_color k = true -> segs_ok k segs = true -> forallb ctl_colorless segs = true ->
  exists bytes, render_buffer k segs = Ok bytes /\ no_color_params_b bytes = true.
Proof.
  intros N OK CL. destruct (buffer_run k segs OK) as [bytes [R [ev [Rr [_ [_ P]]]]]].
  exists bytes. split; [exact R|]. unfold no_color_params_b, events. rewrite Rr. cbn [snd].
  apply forallb_forall. intros p Hp. rewrite Forall_forall in P. specialize (P p Hp N CL).
  unfold no_color_param in P. now rewrite P.
Qed.

Theorem no_controls_when_not_terminal k segs :
  k_terminal k = false -> segs_ok k segs = true ->
  exists bytes, render_buffer k segs = Ok bytes /\ no_controls_b bytes = true
    /\ interp bytes = expected k segs.
Proof.
  intros T OK. destruct (buffer_run k segs OK) as [bytes [R [ev [Rr [C [O _]]]]]].
  exists bytes. split; [exact R|]. unfold no_controls_b, interp, events. rewrite Rr. cbn [snd].
  rewrite (O T). split; [reflexivity|exact C].
Qed.

(* colour disabled: the stream IS the text *)
Lemma colorless_is_text k segs :
  k_system k = None -> forallb (fun g => negb (a_ctl g)) segs = true ->
  render_buffer k segs = Ok (flat_map a_text segs).
Proof.
  intros KS NC. unfold render_buffer, strip_color. rewrite KS.
  induction segs as [|g segs IH]; [reflexivity|].
  cbn [forallb] in NC. apply andb_true_iff in NC as [Ng Ns]. apply negb_true_iff in Ng.
  cbn [render_segs flat_map]. rewrite (IH Ns).
  assert (E : render_seg k g = Ok (a_text g)).
  { unfold render_seg. rewrite Ng, !andb_false_r, KS.
    destruct (style_truthy (a_style g)); [|reflexivity]. unfold render_styled. destruct (a_text g); reflexivity. }
  rewrite E. reflexivity.
Qed.

Theorem no_escape_when_colorless k segs :
  k_system k = None -> all_plain_noncontrol segs = true ->
  exists bytes, render_buffer k segs = Ok bytes /\ no_escape_b bytes = true.
Proof.
  intros KS A. unfold all_plain_noncontrol in A.
  assert (NC : forallb (fun g => negb (a_ctl g)) segs = true).
  { rewrite forallb_forall in *. intros g Hg. specialize (A g Hg). now apply andb_true_iff in A as [A _]. }
  exists (flat_map a_text segs). split; [exact (colorless_is_text k segs KS NC)|].
  clear NC. induction segs as [|g segs IH]; [reflexivity|].
  cbn [forallb flat_map] in *. apply andb_true_iff in A as [Ag As]. apply andb_true_iff in Ag as [_ Pg].
  unfold no_escape_b in *. rewrite forallb_app, (IH As), andb_true_r.
  unfold plain_text in Pg. rewrite forallb_forall in *. intros c Hc. specialize (Pg c Hc).
  unfold plain_char in Pg. destruct (c =? 27), (c =? 7), (c =? 155), (c =? 157); cbn in *; congruence.
Qed.

(* ------------------------------------------------------------------ the memo over a history *)
Fixpoint fresh_renders (s : style) (text lid : str) (systems : list ColorSystem) : res (list str) :=
  match systems with
  | [] => Ok []
  | sys :: r =>
      do out <- render_styled true s None text (Some sys) false lid;
      do outs <- fresh_renders s text lid r;
      Ok (out :: outs)
  end.

Lemma render_styled_memo_irrelevant s m text sys lid :
  memo_honest s m = true ->
  render_styled true s m text (Some sys) false lid = render_styled true s None text (Some sys) false lid.
Proof.
  intros H. unfold render_styled. destruct text; [reflexivity|].
  now rewrite (ansi_codes_fresh true s m sys H eq_refl).
Qed.

Lemma memo_after_honest s m sys m' :
  memo_honest s m = true -> memo_after true s m sys = Ok m' -> memo_honest s m' = true.
Proof.
  intros H. unfold memo_after. destruct m as [[sys0 a]|].
  - destruct (true && negb (ColorSystem_eqb sys0 sys)).
    + destruct (make_ansi_codes s sys) as [a'| |] eqn:E; cbn; intros Q; inversion Q; subst.
      cbn. rewrite E. apply str_eqb_refl.
    + intros Q; inversion Q; subst. exact H.
  - destruct (make_ansi_codes s sys) as [a'| |] eqn:E; cbn; intros Q; inversion Q; subst.
    cbn. rewrite E. apply str_eqb_refl.
Qed.

Lemma memo_after_total s m sys out text lid :
  memo_honest s m = true -> text <> [] ->
  render_styled true s m text (Some sys) false lid = Ok out -> exists m', memo_after true s m sys = Ok m'.
Proof.
  intros H Hne. unfold render_styled, memo_after. destruct text as [|c t]; [congruence|].
  rewrite (ansi_codes_fresh true s m sys H eq_refl).
  destruct m as [[sys0 a]|]; [destruct (true && negb (ColorSystem_eqb sys0 sys)); [|eauto]|];
    destruct (make_ansi_codes s sys); cbn; intros Q; try discriminate; eauto.
Qed.

Theorem ansi_cache_transparent s text lid systems : forall m,
  memo_honest s m = true ->
  render_history true s m text lid systems = fresh_renders s text lid systems.
Proof.
  induction systems as [|sys r IH]; intros m H; [reflexivity|].
  cbn [render_history fresh_renders]. rewrite (render_styled_memo_irrelevant s m text sys lid H).
  destruct (render_styled true s None text (Some sys) false lid) as [out| |] eqn:E; cbn [bind]; try reflexivity.
  destruct text as [|c t] eqn:ET.
  - cbn [bind]. now rewrite (IH m H).
  - rewrite <- ET in *. assert (Hne : text <> []) by (rewrite ET; discriminate).
    rewrite <- (render_styled_memo_irrelevant s m text sys lid H) in E.
    destruct (memo_after_total s m sys out text lid H Hne E) as [m' Hm]. rewrite Hm. cbn [bind].
    now rewrite (IH m' (memo_after_honest s m sys m' H Hm)).
Qed.
