(* C17 lemmas, part 1: decimal printing and the gutter, the shape of one cropped line, and the
   checker `check_lines` on the output of `render_numbered`. *)
From RichModel Require Import Prelude Cells Segments Syntax SpecSyntax.
From RichProofs Require Import CellsP SegmentsP.
From Coq Require Import ZifyBool Lia.

(* ------------------------------------------------------------------ str(int) *)
Lemma pow10_succ f : 10 ^ Z.of_nat (S f) = 10 * 10 ^ Z.of_nat f.
Proof. rewrite Nat2Z.inj_succ, Z.pow_succ_r by lia. reflexivity. Qed.

Lemma dec_go_len_ge1 f n : (1 <= length (dec_go (S f) n))%nat.
Proof. cbn [dec_go]. destruct (n <? 10); [simpl; lia|rewrite app_length; simpl; lia]. Qed.

Lemma dec_go_len_mono : forall f1 f2 n m,
  0 <= n <= m -> n < 10 ^ Z.of_nat f1 -> m < 10 ^ Z.of_nat f2 -> (1 <= f1)%nat -> (1 <= f2)%nat ->
  (length (dec_go f1 n) <= length (dec_go f2 m))%nat.
Proof.
  induction f1 as [|f1 IH]; intros f2 n m Hnm Hn Hm H1 H2; [lia|].
  destruct f2 as [|f2]; [lia|].
  cbn [dec_go]. destruct (n <? 10) eqn:En.
  - change (length [48 + n]) with 1%nat. pose proof (dec_go_len_ge1 f2 m) as Hge. cbn [dec_go] in Hge. exact Hge.
  - assert (Em : (m <? 10) = false) by lia. rewrite Em. rewrite !app_length. simpl.
    rewrite pow10_succ in Hn, Hm.
    assert (Hf1 : (1 <= f1)%nat).
    { destruct f1; [|lia]. simpl in Hn. lia. }
    assert (Hf2 : (1 <= f2)%nat).
    { destruct f2; [|lia]. simpl in Hm. lia. }
    assert (Hd : n / 10 <= m / 10) by (apply Z.div_le_mono; lia).
    assert (Hn' : n / 10 < 10 ^ Z.of_nat f1) by (apply Z.div_lt_upper_bound; lia).
    assert (Hm' : m / 10 < 10 ^ Z.of_nat f2) by (apply Z.div_lt_upper_bound; lia).
    assert (H0 : 0 <= n / 10) by (apply Z.div_pos; lia).
    specialize (IH f2 (n / 10) (m / 10) (conj H0 Hd) Hn' Hm' Hf1 Hf2). lia.
Qed.

Lemma dec_fuel_enough n : 0 <= n -> n < 10 ^ Z.of_nat (dec_fuel n).
Proof.
  intros Hn. unfold dec_fuel. rewrite Nat2Z.inj_succ, Z2Nat.id by apply Z.log2_nonneg.
  destruct (Z.eq_dec n 0) as [->|Hne]; [reflexivity|].
  assert (Hpos : 0 < n) by lia.
  pose proof (Z.log2_spec n Hpos) as [_ Hlt].
  assert (Hle : 2 ^ Z.succ (Z.log2 n) <= 10 ^ Z.succ (Z.log2 n)).
  { apply Z.pow_le_mono_l. lia. }
  lia.
Qed.

Lemma show_Z_nonneg n : 0 <= n -> show_Z n = dec_go (dec_fuel n) n.
Proof. intros H. unfold show_Z. replace (n <? 0) with false by lia. reflexivity. Qed.

Lemma show_Z_len_mono n m : 0 <= n <= m -> zlen (show_Z n) <= zlen (show_Z m).
Proof.
  intros H. rewrite !show_Z_nonneg by lia. unfold zlen.
  apply inj_le. apply dec_go_len_mono; try lia.
  - apply dec_fuel_enough; lia.
  - apply dec_fuel_enough; lia.
  - unfold dec_fuel; lia.
  - unfold dec_fuel; lia.
Qed.

Lemma dec_go_digits : forall f n, 0 <= n -> Forall (fun c => 48 <= c <= 57) (dec_go f n).
Proof.
  induction f as [|f IH]; intros n Hn; [constructor|].
  cbn [dec_go]. destruct (n <? 10) eqn:E.
  - constructor; [lia|constructor].
  - apply Forall_app. split.
    + apply IH. apply Z.div_pos; lia.
    + constructor; [|constructor]. pose proof (Z.mod_pos_bound n 10 ltac:(lia)). lia.
Qed.

Lemma show_Z_digits n : 0 <= n -> Forall (fun c => 48 <= c <= 57) (show_Z n) /\ show_Z n <> [].
Proof.
  intros Hn. rewrite show_Z_nonneg by lia. split; [apply dec_go_digits; lia|].
  unfold dec_fuel. pose proof (dec_go_len_ge1 (Z.to_nat (Z.log2 n)) n) as H.
  intros E. rewrite E in H. simpl in H. lia.
Qed.

(* ------------------------------------------------------------------ small list facts *)
Lemma zlen_app {A} (a b : list A) : zlen (a ++ b) = zlen a + zlen b.
Proof. unfold zlen. rewrite app_length. lia. Qed.
Lemma zlen_nonneg {A} (a : list A) : 0 <= zlen a.
Proof. unfold zlen. lia. Qed.
Lemma length_py_repeat {A} (x : A) n : length (py_repeat x n) = Z.to_nat n.
Proof. unfold py_repeat. apply repeat_length. Qed.

Lemma blank_repeat n : blank (repeat SP n) = true.
Proof. induction n; simpl; [reflexivity|exact IHn]. Qed.
Lemma blank_app a b : blank (a ++ b) = blank a && blank b.
Proof. unfold blank. apply forallb_app. Qed.

Lemma rstrip_sp_app_spaces s n : rstrip_sp (s ++ repeat SP n) = rstrip_sp s.
Proof.
  unfold rstrip_sp. rewrite rev_app_distr. f_equal.
  assert (H : rev (repeat SP n) = repeat SP n).
  { induction n; [reflexivity|]. simpl. rewrite IHn. clear.
    induction n; [reflexivity|]. simpl. rewrite IHn. reflexivity. }
  rewrite H. clear H. induction n; [reflexivity|]. simpl. exact IHn.
Qed.

Lemma firstn_app_exact {A} (a b : list A) n : length a = n -> firstn n (a ++ b) = a.
Proof. intros <-. rewrite firstn_app, Nat.sub_diag, firstn_all. simpl. apply app_nil_r. Qed.
Lemma skipn_app_exact {A} (a b : list A) n : length a = n -> skipn n (a ++ b) = b.
Proof. intros <-. rewrite skipn_app, Nat.sub_diag, skipn_all. reflexivity. Qed.

(* ------------------------------------------------------------------ the gutter *)
Section Gutter.
Variable o : opts.
Variable M : Z.                       (* the number the column width is computed from *)
Hypothesis HM : 0 <= M.
Let ncw := zlen (show_Z M) + 2.
Let gw := zlen (show_Z M) + 3.
Let G := Z.to_nat gw.

Lemma rjust_len k : 0 <= k <= M -> length (rjust (show_Z k) (ncw - 2)) = Z.to_nat (ncw - 2).
Proof.
  intros Hk. unfold rjust. rewrite app_length, length_py_repeat.
  pose proof (show_Z_len_mono k M Hk) as Hl. unfold ncw, zlen in *. lia.
Qed.

Lemma mark_len k : length (if mem_Z k (o_highlight o) then POINTER else [SP; SP]) = 2%nat.
Proof. destruct (mem_Z k (o_highlight o)); reflexivity. Qed.

Lemma gutter_len k : 0 <= k <= M -> length (gutter o ncw k) = G.
Proof.
  intros Hk. unfold gutter. rewrite !app_length, mark_len, rjust_len by exact Hk.
  simpl. unfold G, gw, ncw, zlen. lia.
Qed.

Lemma gutter_pad_len : length (gutter_pad ncw) = G.
Proof.
  unfold gutter_pad. rewrite app_length, length_py_repeat. simpl.
  unfold G, gw, ncw, zlen. lia.
Qed.

Lemma gut_of_prefix g x : length g = G -> gut gw (g ++ x) = g.
Proof. intros H. unfold gut. fold G. rewrite <- app_assoc. apply firstn_app_exact. exact H. Qed.
Lemma body_of_prefix g x : length g = G -> body gw (g ++ x) = x.
Proof. intros H. unfold body. fold G. apply skipn_app_exact. exact H. Qed.

Lemma gutter_pad_blank : blank (gutter_pad ncw) = true.
Proof. unfold gutter_pad, py_repeat. rewrite blank_app, blank_repeat. reflexivity. Qed.

Lemma gutter_not_blank k : 0 <= k -> blank (gutter o ncw k) = false.
Proof.
  intros Hk. unfold gutter. rewrite !blank_app.
  destruct (show_Z_digits k Hk) as [Hd Hne].
  assert (Hb : blank (rjust (show_Z k) (ncw - 2)) = false).
  { unfold rjust. rewrite blank_app.
    destruct (show_Z k) as [|c r] eqn:E; [congruence|].
    inversion Hd as [|? ? Hc _]; subst. simpl. unfold is_sp, SP.
    replace (c =? 32) with false by lia. apply andb_false_r. }
  rewrite Hb. rewrite andb_false_r. reflexivity.
Qed.

Lemma gutter_fields k : 0 <= k <= M ->
  skipn 2 (gutter o ncw k) = num_field gw k /\ firstn 2 (gutter o ncw k) = mark_field o k.
Proof.
  intros Hk. unfold gutter, num_field, mark_field.
  replace (gw - 3) with (ncw - 2) by (unfold gw, ncw; lia).
  split.
  - apply skipn_app_exact. apply mark_len.
  - apply firstn_app_exact. apply mark_len.
Qed.

(* continuation lines are exactly the lines that follow until the next numbered line *)
Lemma span_cont_conts ws rest :
  (match rest with [] => True | r :: _ => is_cont gw r = false end) ->
  span_cont gw (map (fun x => gutter_pad ncw ++ x) ws ++ rest) = (map (fun x => gutter_pad ncw ++ x) ws, rest).
Proof.
  intros Hr. induction ws as [|w ws IH].
  - simpl. destruct rest as [|r rest]; [reflexivity|]. cbn [span_cont]. rewrite Hr. reflexivity.
  - cbn [map app span_cont]. unfold is_cont at 1. rewrite gut_of_prefix by apply gutter_pad_len.
    rewrite gutter_pad_blank. rewrite IH. reflexivity.
Qed.

Lemma map_body_conts ws : map (body gw) (map (fun x => gutter_pad ncw ++ x) ws) = ws.
Proof.
  induction ws as [|w ws IH]; [reflexivity|]. cbn [map]. rewrite body_of_prefix by apply gutter_pad_len.
  rewrite IH. reflexivity.
Qed.
End Gutter.

(* ------------------------------------------------------------------ one cropped line *)
Lemma str_eqb_refl' a : str_eqb a a = true.
Proof. apply str_eqb_refl. Qed.

Lemma crop_line_eq line w pad :
  crop_line line w pad =
  if cell_len line <? w then (if pad then line ++ py_repeat SP (w - cell_len line) else line)
  else if w <? cell_len line then set_cell_size line w
  else line.
Proof.
  unfold crop_line, adjust_line_length.
  assert (Hll : line_len [mkSeg line (@None unit) false] = cell_len line).
  { unfold line_len, seg_len. cbn [map ctl txt]. unfold sumZ. simpl. lia. }
  rewrite Hll.
  destruct (cell_len line <? w) eqn:E1.
  - destruct pad; cbn [map concat txt app]; rewrite ?app_nil_r; reflexivity.
  - destruct (w <? cell_len line) eqn:E2.
    + cbn [crop_go]. unfold seg_len. cbn [ctl txt sty].
      replace (0 + cell_len line <? w) with false by lia. cbn [orb].
      cbn [map concat txt]. rewrite app_nil_r. rewrite Z.sub_0_r. reflexivity.
    + cbn [map concat txt]. rewrite app_nil_r. reflexivity.
Qed.

Lemma existsb_seq_intro (f : nat -> bool) n k : (k < n)%nat -> f k = true -> existsb f (seq 0 n) = true.
Proof.
  intros Hk Hf. apply existsb_exists. exists k. split; [|exact Hf]. apply in_seq. lia.
Qed.

Theorem crop_line_ok e w pad : 0 <= w -> crop_ok_b e w (crop_line e w pad) = true.
Proof.
  intros Hw. rewrite crop_line_eq. unfold crop_ok_b.
  destruct (cell_len e <? w) eqn:E1.
  - replace (cell_len e <=? w) with true by lia.
    destruct pad; [unfold py_repeat; rewrite rstrip_sp_app_spaces|]; apply str_eqb_refl.
  - destruct (w <? cell_len e) eqn:E2.
    + replace (cell_len e <=? w) with false by lia.
      destruct (set_cell_size_crop_shape e w Hw ltac:(lia)) as [k [p [Hs [Hp Hl]]]].
      rewrite Hs in *. rewrite rstrip_sp_app_spaces.
      rewrite cell_len_app, cell_len_spaces in Hl.
      rewrite <- (firstn_min_length k e) in *.
      apply existsb_seq_intro with (k := Nat.min k (length e)); [lia|].
      cbv zeta. rewrite str_eqb_refl. lia.
    + replace (cell_len e <=? w) with true by lia. apply str_eqb_refl.
Qed.

(* ------------------------------------------------------------------ prefix-with-blank-rest *)
(* `shown` are the first lines of `exp`, and what is left out is blank *)
Definition pfx_blank (shown exp : list str) : Prop :=
  exists rest, exp = shown ++ rest /\ forallb blank rest = true.

Lemma pfx_blank_refl l : pfx_blank l l.
Proof. exists []. rewrite app_nil_r. split; reflexivity. Qed.

Lemma pfx_blank_cons x a b : pfx_blank a b -> pfx_blank (x :: a) (x :: b).
Proof. intros [r [-> H]]. exists r. split; [reflexivity|exact H]. Qed.

(* ------------------------------------------------------------------ check_lines on render_numbered *)
Section Numbered.
Variable wrapf : str -> Z -> bool -> list str.
Variable o : opts.
Variable M : Z.
Variable cw : Z.
Hypothesis HM : 0 <= M.
Let ncw := zlen (show_Z M) + 2.
Let gw := zlen (show_Z M) + 3.

(* the displayed line l (possibly carrying indent guides) shows the expected source line e *)
Definition line_shows (e l : str) : Prop :=
  exists w ws, wrapped_lines wrapf o cw l = w :: ws /\
               (o_word_wrap o = false -> ws = []) /\
               body_ok_b (o_word_wrap o) (o_indent_guides o) e cw (w :: ws) = true.

Lemma render_numbered_head_not_cont exp1 lines k :
  Forall2 line_shows exp1 lines ->
  0 <= k -> (lines <> [] -> k + zlen lines - 1 <= M) ->
  match render_numbered wrapf o ncw cw lines k with [] => True | r :: _ => is_cont gw r = false end.
Proof.
  unfold ncw, gw. intros HF Hk HkM. destruct HF as [|e l exp1 lines [w [ws [E _]]] HF]; [exact Logic.I|].
  cbn [render_numbered]. rewrite E.
  cbn [app]. unfold is_cont.
  assert (HkM' : 0 <= k <= M).
  { specialize (HkM ltac:(discriminate)). unfold zlen in HkM. simpl length in HkM. lia. }
  rewrite (gut_of_prefix M) by (apply gutter_len; assumption).
  apply gutter_not_blank. lia.
Qed.

Theorem check_numbered_gen : forall exp1 lines, Forall2 line_shows exp1 lines -> forall rest k,
  forallb blank rest = true -> 0 <= k -> (lines <> [] -> k + zlen lines - 1 <= M) ->
  check_lines o gw cw true true true (exp1 ++ rest) k (render_numbered wrapf o ncw cw lines k) = true.
Proof.
  unfold ncw, gw.
  induction 1 as [|e l exp1 lines Hl HF IH]; intros rest k Hrest Hk HkM.
  - cbn [app render_numbered]. destruct rest as [|e rest]; [reflexivity|].
    cbn [check_lines]. exact Hrest.
  - cbn [app check_lines render_numbered].
    destruct Hl as [w [ws [E [Hws Hbody]]]]. rewrite E.
    cbn [app].
    specialize (HkM ltac:(discriminate)).
    assert (HkM' : 0 <= k <= M).
    { unfold zlen in HkM. simpl length in HkM. lia. }
    assert (Hz : zlen (l :: lines) = zlen lines + 1).
    { unfold zlen. simpl length. lia. }
    rewrite (span_cont_conts M).
    2:{ apply (render_numbered_head_not_cont exp1); [exact HF|lia|intros _; lia]. }
    repeat (apply andb_true_iff; split).
    + unfold is_cont. rewrite (gut_of_prefix M) by (apply gutter_len; assumption).
      rewrite gutter_not_blank by lia. reflexivity.
    + rewrite (gut_of_prefix M) by (apply gutter_len; assumption).
      destruct (gutter_fields o M k HkM') as [Hnum Hmark].
      rewrite Hnum, str_eqb_refl. reflexivity.
    + rewrite (gut_of_prefix M) by (apply gutter_len; assumption).
      destruct (gutter_fields o M k HkM') as [Hnum Hmark].
      rewrite Hmark, str_eqb_refl. reflexivity.
    + destruct (o_word_wrap o); [reflexivity|]. rewrite Hws by reflexivity. reflexivity.
    + rewrite (body_of_prefix M) by (apply gutter_len; assumption).
      rewrite (map_body_conts M). rewrite Hbody. reflexivity.
    + apply IH; [exact Hrest|lia|intros _; lia].
Qed.
End Numbered.

(* weaker flag sets follow from the full check *)
Lemma check_lines_weaken o gw cw n m b : forall exp k out,
  check_lines o gw cw true true true exp k out = true -> check_lines o gw cw n m b exp k out = true.
Proof.
  induction exp as [|e exp IH]; intros k out H; [exact H|].
  cbn [check_lines] in *. destruct out as [|l out]; [exact H|].
  destruct (span_cont gw out) as [conts rest].
  apply andb_true_iff in H as [H HE]. apply andb_true_iff in H as [H HD].
  apply andb_true_iff in H as [H HC]. apply andb_true_iff in H as [HA HB].
  rewrite HA, HC, (IH _ _ HE). cbn [andb]. rewrite !andb_true_r.
  apply andb_true_iff. split.
  - unfold gutter_ok in *. cbn [negb orb] in HB. apply andb_true_iff in HB as [Ha Hb].
    rewrite Ha, Hb. rewrite !orb_true_r. reflexivity.
  - cbn [negb orb] in HD. rewrite HD. apply orb_true_r.
Qed.
