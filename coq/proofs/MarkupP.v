(* C04: lemmas about the markup model -- part 1: regex source pins, scanner facts *)
From RichModel Require Import Prelude Markup SpecMarkup.
From RichGen Require Import MarkupRegex.

(* The scanners of model/Markup.v were written for exactly these pattern strings and flags;
   an edited regex in rich/markup.py changes gen/MarkupRegex.v and breaks these obligations. *)
Example re_tags_src_ok : RE_TAGS_src = lit "((\\*)\[([a-z#\/].*?)\])".
Proof. reflexivity. Qed.
Example re_tags_flags_ok : RE_TAGS_flags = [lit "VERBOSE"].
Proof. reflexivity. Qed.
Example escape_src_ok : ESCAPE_src = lit "(\\*)(\[[a-z#\/].*?\])".
Proof. reflexivity. Qed.
Example escape_flags_ok : ESCAPE_flags = [].
Proof. reflexivity. Qed.
Example escape_template_ok : ESCAPE_template = lit "{backslashes}{backslashes}\{text}".
Proof. reflexivity. Qed.

(* ------------------------------------------------------------------ scanner facts *)
Local Open Scope nat_scope.

Lemma BS_LB : (BS =? LB)%Z = false. Proof. reflexivity. Qed.

Lemma span_bs_repeat : forall k r, (forall r', r <> BS :: r') -> span_bs (repeat BS k ++ r) = (k, r).
Proof.
  induction k as [|k IH]; intros r H; cbn [repeat app].
  - destruct r as [|c r']; [reflexivity|]. cbn [span_bs].
    destruct (c =? BS)%Z eqn:E; [|reflexivity].
    apply Z.eqb_eq in E. subst. exfalso. exact (H r' eq_refl).
  - cbn [span_bs]. rewrite Z.eqb_refl. rewrite (IH r H). reflexivity.
Qed.

Lemma span_bs_spec : forall s k r, span_bs s = (k, r) ->
  s = repeat BS k ++ r /\ (forall r', r <> BS :: r').
Proof.
  induction s as [|c s IH]; intros k r H; cbn [span_bs] in H.
  - inversion H. split; [reflexivity|discriminate].
  - destruct (c =? BS)%Z eqn:E.
    + destruct (span_bs s) as [k' r'] eqn:E2. inversion H; subst.
      destruct (IH k' r eq_refl) as [H1 H2]. apply Z.eqb_eq in E. subst c.
      split; [cbn [repeat app]; f_equal; exact H1|exact H2].
    + inversion H; subst. split; [reflexivity|].
      intros r' Heq. inversion Heq; subst. rewrite Z.eqb_refl in E. discriminate.
Qed.

Lemma find_close_spec : forall s t, find_close s = Some t ->
  exists rest, s = t ++ RB :: rest /\ tag_body_ok t = true.
Proof.
  induction s as [|c s IH]; intros t H; cbn [find_close] in H; [discriminate|].
  destruct (c =? RB)%Z eqn:E1.
  - inversion H; subst. apply Z.eqb_eq in E1. subst. exists s. split; reflexivity.
  - destruct (c =? NL)%Z eqn:E2; [discriminate|].
    destruct (find_close s) as [t'|] eqn:E3; [|discriminate].
    inversion H; subst. destruct (IH t' eq_refl) as [rest [H1 H2]].
    exists rest. split; [cbn [app]; f_equal; exact H1|].
    cbn [tag_body_ok forallb]. rewrite E1, E2. exact H2.
Qed.

Lemma find_close_app : forall t rest, tag_body_ok t = true -> find_close (t ++ RB :: rest) = Some t.
Proof.
  induction t as [|c t IH]; intros rest H; cbn [app find_close].
  - rewrite Z.eqb_refl. reflexivity.
  - cbn [tag_body_ok forallb] in H. apply andb_true_iff in H. destruct H as [H1 H2].
    apply negb_true_iff in H1. apply orb_false_iff in H1. destruct H1 as [H1a H1b].
    rewrite H1a, H1b. fold (tag_body_ok t) in H2. rewrite (IH rest H2). reflexivity.
Qed.

Lemma tag_start_body : forall c, tag_start c = true -> ((c =? RB) || (c =? NL))%Z = false.
Proof.
  intros c H. unfold tag_start, RB, NL, SLASH in *.
  destruct (c =? 93)%Z eqn:E1; [apply Z.eqb_eq in E1; subst; discriminate|].
  destruct (c =? 10)%Z eqn:E2; [apply Z.eqb_eq in E2; subst; discriminate|]. reflexivity.
Qed.

Lemma tag_start_not : forall c, tag_start c = true -> (c =? BS)%Z = false /\ (c =? LB)%Z = false.
Proof.
  intros c H. unfold tag_start, BS, LB, SLASH in *. split.
  - destruct (c =? 92)%Z eqn:E; [apply Z.eqb_eq in E; subst; discriminate|reflexivity].
  - destruct (c =? 91)%Z eqn:E; [apply Z.eqb_eq in E; subst; discriminate|reflexivity].
Qed.

(* a string that begins with a complete tag preceded by k backslashes *)
Definition tagform (k : nat) (c : Z) (t rest : str) : str := repeat BS k ++ LB :: c :: t ++ RB :: rest.

Lemma match_tag_spec : forall s k tag, match_tag s = Some (k, tag) ->
  exists c t rest, tag = c :: t /\ tag_start c = true /\ tag_body_ok t = true /\ s = tagform k c t rest.
Proof.
  intros s k tag H. unfold match_tag in H.
  destruct (span_bs s) as [k' r] eqn:E. destruct (span_bs_spec _ _ _ E) as [Hs _].
  destruct r as [|lb [|c r']]; try discriminate.
  destruct ((lb =? LB)%Z && tag_start c) eqn:E2; [|discriminate].
  apply andb_true_iff in E2. destruct E2 as [E2 E3]. apply Z.eqb_eq in E2. subst lb.
  destruct (find_close r') as [t|] eqn:E4; [|discriminate].
  inversion H; subst. destruct (find_close_spec _ _ E4) as [rest [H1 H2]].
  exists c, t, rest. repeat split; auto. unfold tagform. rewrite H1. reflexivity.
Qed.

Lemma match_tag_form : forall k c t rest, tag_start c = true -> tag_body_ok t = true ->
  match_tag (tagform k c t rest) = Some (k, c :: t).
Proof.
  intros k c t rest Hc Ht. unfold match_tag, tagform.
  rewrite span_bs_repeat by (intros r' Heq; inversion Heq).
  rewrite Z.eqb_refl, Hc. cbn [andb]. rewrite (find_close_app t rest Ht). reflexivity.
Qed.

Lemma tagform_split : forall k c t rest,
  tagform k c t rest = (repeat BS k ++ LB :: c :: t ++ [RB]) ++ rest.
Proof. intros. unfold tagform. rewrite <- app_assoc. cbn [app]. rewrite <- app_assoc. reflexivity. Qed.

Lemma tagform_len : forall k c t, length (repeat BS k ++ LB :: c :: t ++ [RB]) = match_len (k, c :: t).
Proof.
  intros. unfold match_len. cbn [fst snd]. rewrite app_length, repeat_length. cbn [length].
  rewrite app_length. cbn [length]. lia.
Qed.

(* a match begins with a backslash or with '[' *)
Lemma match_tag_head : forall c s m, match_tag (c :: s) = Some m -> c = BS \/ c = LB.
Proof.
  intros c s [k tag] H. destruct (match_tag_spec _ _ _ H) as [c' [t [rest [_ [_ [_ Hs]]]]]].
  unfold tagform in Hs. destruct k; cbn [repeat app] in Hs; inversion Hs; auto.
Qed.

Lemma match_tag_bs : forall s, match_tag (BS :: s) = None <-> match_tag s = None.
Proof.
  intros s. unfold match_tag. cbn [span_bs]. rewrite Z.eqb_refl.
  destruct (span_bs s) as [k r]. destruct r as [|lb [|c r']]; try tauto.
  destruct ((lb =? LB)%Z && tag_start c); [|tauto].
  destruct (find_close r'); split; intro H; try discriminate; reflexivity.
Qed.

(* ------------------------------------------------------------------ skipping the matched characters *)
Lemma escape_aux_skip : forall m r, escape_aux (m ++ r) (length m) = escape_aux r 0.
Proof. induction m as [|c m IH]; intros r; [reflexivity|]. cbn [app length escape_aux]. apply IH. Qed.

Lemma parse_aux_skip : forall m r pend, parse_aux (m ++ r) (length m) pend = parse_aux r 0 pend.
Proof. induction m as [|c m IH]; intros r pend; [reflexivity|]. cbn [app length parse_aux]. apply IH. Qed.

Lemma escape_nomatch : forall c s, match_tag (c :: s) = None -> escape (c :: s) = c :: escape s.
Proof. intros c s H. unfold escape. cbn [escape_aux]. unfold re_escape_match. rewrite H. reflexivity. Qed.

Lemma repeat_S_app : forall (x : Z) k r, repeat x (S k) ++ r = x :: repeat x k ++ r.
Proof. reflexivity. Qed.

Lemma escape_match : forall k c t rest, tag_start c = true -> tag_body_ok t = true ->
  escape (tagform k c t rest) = tagform (k + k + 1) c t (escape rest).
Proof.
  intros k c t rest Hc Ht.
  pose proof (match_tag_form k c t rest Hc Ht) as Hm.
  assert (Hne : exists x s', tagform k c t rest = x :: s' /\
                             s' = tl (repeat BS k ++ LB :: c :: t ++ [RB]) ++ rest /\
                             length (tl (repeat BS k ++ LB :: c :: t ++ [RB])) = match_len (k, c :: t) - 1).
  { rewrite tagform_split. pose proof (tagform_len k c t) as Hl.
    destruct (repeat BS k ++ LB :: c :: t ++ [RB]) as [|x m] eqn:E.
    - destruct k; discriminate.
    - exists x, (m ++ rest). cbn [tl app length] in *. repeat split. lia. }
  destruct Hne as [x [s' [Hs [Hs' Hl]]]].
  unfold escape. rewrite Hs. cbn [escape_aux]. unfold re_escape_match. rewrite <- Hs, Hm.
  cbn [fst snd]. rewrite Hs', <- Hl, escape_aux_skip.
  unfold tagform. fold (escape rest).
  replace (k + k + 1) with (k + (k + 1)) by lia. rewrite !repeat_app. cbn [repeat].
  rewrite <- !app_assoc. reflexivity.
Qed.

Lemma parse_nomatch : forall c s pend, match_tag (c :: s) = None ->
  parse_aux (c :: s) 0 pend = parse_aux s 0 (pend ++ [c]).
Proof. intros c s pend H. cbn [parse_aux]. unfold re_tags_match. rewrite H. reflexivity. Qed.

Lemma parse_match : forall k c t rest pend, tag_start c = true -> tag_body_ok t = true ->
  parse_aux (tagform k c t rest) 0 pend = flush pend ++ emit k (c :: t) ++ parse_aux rest 0 [].
Proof.
  intros k c t rest pend Hc Ht.
  pose proof (match_tag_form k c t rest Hc Ht) as Hm.
  rewrite tagform_split in *. pose proof (tagform_len k c t) as Hl.
  destruct (repeat BS k ++ LB :: c :: t ++ [RB]) as [|x m] eqn:E.
  - destruct k; discriminate.
  - cbn [app parse_aux]. unfold re_tags_match. cbn [app] in Hm. rewrite Hm. cbn [fst snd].
    cbn [length] in Hl. replace (match_len (k, c :: t) - 1) with (length m) by lia.
    rewrite parse_aux_skip. reflexivity.
Qed.

(* induction principle following the way escape consumes its input *)
Lemma escape_ind : forall P : str -> str -> Prop,
  P [] [] ->
  (forall c s, match_tag (c :: s) = None -> P s (escape s) -> P (c :: s) (c :: escape s)) ->
  (forall k c t rest, tag_start c = true -> tag_body_ok t = true -> P rest (escape rest) ->
     P (tagform k c t rest) (tagform (k + k + 1) c t (escape rest))) ->
  forall s, P s (escape s).
Proof.
  intros P H0 H1 H2 s.
  remember (length s) as n eqn:Hn. revert s Hn.
  induction n as [n IH] using lt_wf_ind. intros s Hn.
  destruct s as [|c s]; [exact H0|].
  destruct (match_tag (c :: s)) as [[k tag]|] eqn:E.
  - destruct (match_tag_spec _ _ _ E) as [c' [t [rest [Htag [Hc [Ht Hs]]]]]].
    rewrite Hs. rewrite (escape_match k c' t rest Hc Ht). apply H2; auto.
    apply (IH (length rest)); [|reflexivity].
    subst n. rewrite Hs. rewrite tagform_split, app_length, tagform_len. unfold match_len. cbn. lia.
  - rewrite (escape_nomatch c s E). apply H1; auto.
    apply (IH (length s)); [subst n; cbn; lia|reflexivity].
Qed.
