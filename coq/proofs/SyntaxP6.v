(* C17 lemmas, part 6: Traceback._render_stack -- for every frame, what is shown is decided by the
   file content AT RENDER TIME (`read`), the per-render code_cache is transparent, and the block of a
   readable file is the Syntax rendering the earlier theorems are about. *)
From RichModel Require Import Prelude Cells Segments Syntax SpecSyntax SyntaxTb.
From RichProofs Require Import CellsP SegmentsP SyntaxP SyntaxP2 SyntaxW SyntaxG SyntaxP3 SyntaxP4.
From Coq Require Import ZifyBool Lia.

Section StackP.
Variable read : str -> option str.
Variable lexsel : str -> str -> option (bool * (str -> list (Z * str))).
Variable wrapf : str -> Z -> bool -> list str.
Variables (extra : Z) (ww transparent guides : bool) (W : Z).
Hypothesis HWrap : WrapOk wrapf.
Hypothesis Hclean : forall f code, read f = Some code -> clean code = true.
Hypothesis HLex : forall f code found lex, lexsel f code = Some (found, lex) -> LexOk (f_lex fixed_facts) lex.
Hypothesis Hextra : 0 <= extra.
Hypothesis F1 : SyntaxFacts.tb_line_numbers = true.
Hypothesis F2 : SyntaxFacts.tb_range_is_lineno_pm_extra = true.
Hypothesis F3 : SyntaxFacts.tb_highlight_is_lineno = true.
Hypothesis F4 : 2 <= SyntaxFacts.tb_code_width.
Hypothesis F5 : SyntaxFacts.syntax_default_start_line = 1.
Hypothesis F6 : 1 <= SyntaxFacts.syntax_default_tab_size.

(* every entry of the per-render cache is what `read` says now *)
Definition cache_ok (c : code_cache) : Prop := forall f x, cc_get c f = Some x -> read f = Some x.

Lemma str_eqb_true_eq a b : str_eqb a b = true -> a = b.
Proof. apply str_eqb_eq. Qed.

Lemma cc_get_app c f k v : cc_get (c ++ [(k, v)]) f =
  match cc_get c f with Some x => Some x | None => if str_eqb f k then Some v else None end.
Proof.
  induction c as [|[k' v'] c IH]; [reflexivity|]. cbn [app cc_get]. destruct (str_eqb f k'); [reflexivity|exact IH].
Qed.

Lemma read_code_spec c f : cache_ok c ->
  fst (read_code read c f) = read f /\ cache_ok (snd (read_code read c f)).
Proof.
  intros Hc. unfold read_code. destruct (cc_get c f) as [x|] eqn:E.
  - split; [symmetry; apply Hc; exact E|exact Hc].
  - destruct (read f) as [x|] eqn:Er; [|split; [reflexivity|exact Hc]].
    split; [reflexivity|]. cbn [snd]. intros g y Hg. rewrite cc_get_app in Hg.
    destruct (cc_get c g) as [z|] eqn:Eg; [inversion Hg; subst; apply Hc; exact Eg|].
    destruct (str_eqb g f) eqn:Egf; [|discriminate]. apply str_eqb_true_eq in Egf. subst. inversion Hg; subst. exact Er.
Qed.

(* what must be shown for a frame *)
Definition frame_shows (fr : frame) (x : frame * block) : Prop :=
  fst x = fr /\
  if starts_lt (fr_file fr) then snd x = BSkipped
  else match read (fr_file fr) with
       | None => snd x = BError
       | Some code =>
           match lexsel (fr_file fr) code with
           | None => snd x = BError
           | Some (found, _) =>
               let o := tb_opts_f found (fr_lineno fr) extra ww transparent guides in
               exists lines, snd x = BCode lines /\
                 render_ok_b o code W lines = true /\
                 (ww = false -> forall e avail,
                    nth_error (source_lines o code) (Z.to_nat (fr_lineno fr - 1)) = Some e -> blank e = false ->
                    SyntaxFacts.tb_code_width + spec_gutter_width o code <= avail ->
                    failing_line_b code (fr_lineno fr) avail guides lines = true)
           end
       end.

Theorem render_frames_ok : forall frames c,
  cache_ok c -> Forall (fun fr => 1 <= fr_lineno fr) frames ->
  exists out, render_frames read lexsel fixed_facts wrapf extra ww transparent guides W frames c = Ok out /\
              Forall2 frame_shows frames out.
Proof.
  induction frames as [|fr rest IH]; intros c Hc Hl; [exists []; split; [reflexivity|constructor]|].
  inversion Hl as [|? ? Hl1 Hl2]; subst. cbn [render_frames].
  destruct (starts_lt (fr_file fr)) eqn:Elt.
  - destruct (IH c Hc Hl2) as [out [Ho HF]]. rewrite Ho. cbn [bind]. eexists. split; [reflexivity|].
    constructor; [|exact HF]. unfold frame_shows. rewrite Elt. split; reflexivity.
  - destruct (read_code_spec c (fr_file fr) Hc) as [Hr Hc'].
    destruct (read_code read c (fr_file fr)) as [oc c'] eqn:Erc. cbn [fst snd] in Hr, Hc'. subst oc.
    destruct (IH c' Hc' Hl2) as [out [Ho HF]].
    destruct (read (fr_file fr)) as [code|] eqn:Er.
    + destruct (lexsel (fr_file fr) code) as [[found lex]|] eqn:Els.
      * pose proof (Hclean _ _ Er) as Hcl. pose proof (HLex _ _ _ _ Els) as HL.
        destruct (traceback_frame_ok lex wrapf HL HWrap found code (fr_lineno fr) extra ww transparent guides W
                    Hcl Hextra Hl1 F1 F2 F3 F4 ltac:(lia) F6) as [lines [Hren [Hok _]]].
        rewrite Hren, Ho. cbn [bind]. eexists. split; [reflexivity|].
        constructor; [|exact HF]. unfold frame_shows. rewrite Elt, Er, Els. split; [reflexivity|].
        exists lines. split; [reflexivity|]. split; [exact Hok|].
        intros -> e avail Hn Hb Hav.
        destruct (traceback_marks_failing_line lex wrapf found code (fr_lineno fr) extra transparent guides W avail e
                    HL Hcl Hextra Hl1 F1 F2 F3 ltac:(lia) F5 F6 Hn Hb Hav) as [lines' [Hren' Hfl]].
        rewrite Hren in Hren'. inversion Hren'; subst. exact Hfl.
      * rewrite Ho. cbn [bind]. eexists. split; [reflexivity|].
        constructor; [|exact HF]. unfold frame_shows. rewrite Elt, Er, Els. split; reflexivity.
    + rewrite Ho. cbn [bind]. eexists. split; [reflexivity|].
      constructor; [|exact HF]. unfold frame_shows. rewrite Elt, Er. split; reflexivity.
Qed.

(* one _render_stack call starts with an empty code_cache *)
Theorem render_stack_ok frames : Forall (fun fr => 1 <= fr_lineno fr) frames ->
  exists out, render_stack read lexsel fixed_facts wrapf extra ww transparent guides W frames = Ok out /\
              Forall2 frame_shows frames out.
Proof. intros H. apply render_frames_ok; [intros f x Hx; discriminate|exact H]. Qed.
End StackP.

(* Traceback.extract keeps the line number of the traceback entry and the code object's name *)
Lemma extract_frame_lineno cwd e : fr_lineno (extract_frame cwd e) = te_lineno e /\ fr_name (extract_frame cwd e) = te_name e.
Proof. split; reflexivity. Qed.
