(* C06, part 1: the style algebra.  Associativity, identity, right bias, the `_null` short-cuts,
   and the invariant preserved by every constructor. *)
From RichModel Require Import Prelude Color Style SpecStyle.
From RichGen Require Import StyleTables.
From Coq Require Import ZifyBool.

(* ------------------------------------------------------------------ equality helpers *)
Lemma str_eqb_refl s : str_eqb s s = true.
Proof. induction s as [|c s IH]; cbn; [reflexivity|]. rewrite Z.eqb_refl, IH. reflexivity. Qed.
Lemma str_eqb_eq a : forall b, str_eqb a b = true -> a = b.
Proof.
  induction a as [|x a IH]; intros [|y b] H; cbn in H; try discriminate; [reflexivity|].
  apply andb_true_iff in H as [H1 H2]. apply Z.eqb_eq in H1. subst. f_equal. auto.
Qed.
Lemma ColorType_eqb_eq a b : ColorType_eqb a b = true -> a = b.
Proof. destruct a, b; cbn; intros H; try reflexivity; discriminate. Qed.
Lemma optZ_eqb_eq a b : optZ_eqb a b = true -> a = b.
Proof. destruct a, b; cbn; intros H; try discriminate; [apply Z.eqb_eq in H; subst|]; reflexivity. Qed.
Lemma triplet_eqb_eq a b : triplet_eqb a b = true -> a = b.
Proof.
  destruct a, b; unfold triplet_eqb; cbn. intros H.
  apply andb_true_iff in H as [H H3]. apply andb_true_iff in H as [H1 H2].
  apply Z.eqb_eq in H1, H2, H3. subst. reflexivity.
Qed.
Lemma opt_triplet_eqb_eq a b : opt_triplet_eqb a b = true -> a = b.
Proof. destruct a, b; cbn; intros H; try discriminate; [apply triplet_eqb_eq in H; subst|]; reflexivity. Qed.
Lemma color_eqb_eq a b : color_eqb a b = true -> a = b.
Proof.
  destruct a, b; unfold color_eqb; cbn. intros H.
  apply andb_true_iff in H as [H H4]. apply andb_true_iff in H as [H H3]. apply andb_true_iff in H as [H1 H2].
  apply str_eqb_eq in H1. apply ColorType_eqb_eq in H2. apply optZ_eqb_eq in H3. apply opt_triplet_eqb_eq in H4.
  subst. reflexivity.
Qed.
Lemma color_eqb_refl c : color_eqb c c = true.
Proof.
  destruct c as [n t k tr]; unfold color_eqb; cbn. rewrite str_eqb_refl.
  assert (ColorType_eqb t t = true) as -> by (destruct t; reflexivity).
  assert (optZ_eqb k k = true) as -> by (destruct k; cbn; [apply Z.eqb_refl|reflexivity]).
  destruct tr as [[r g b]|]; cbn; [|reflexivity]. unfold triplet_eqb; cbn. rewrite !Z.eqb_refl. reflexivity.
Qed.
Lemma opt_color_eqb_eq a b : opt_color_eqb a b = true -> a = b.
Proof. destruct a, b; cbn; intros H; try discriminate; [apply color_eqb_eq in H; subst|]; reflexivity. Qed.
Lemma opt_color_eqb_refl a : opt_color_eqb a a = true.
Proof. destruct a; cbn; [apply color_eqb_refl|reflexivity]. Qed.
Lemma opt_str_eqb_eq a b : opt_str_eqb a b = true -> a = b.
Proof. destruct a, b; cbn; intros H; try discriminate; [apply str_eqb_eq in H; subst|]; reflexivity. Qed.
Lemma opt_str_eqb_refl a : opt_str_eqb a a = true.
Proof. destruct a; cbn; [apply str_eqb_refl|reflexivity]. Qed.

(* rich's == is equality of the five fields *)
Lemma style_eqb_refl s : style_eqb s s = true.
Proof. unfold style_eqb. rewrite !opt_color_eqb_refl, !Z.eqb_refl, opt_str_eqb_refl. reflexivity. Qed.
Lemma style_eqb_fields a b : style_eqb a b = true ->
  s_color a = s_color b /\ s_bgcolor a = s_bgcolor b /\ s_set_attributes a = s_set_attributes b
  /\ s_attributes a = s_attributes b /\ s_link a = s_link b.
Proof.
  unfold style_eqb. intros H.
  apply andb_true_iff in H as [H H5]. apply andb_true_iff in H as [H H4].
  apply andb_true_iff in H as [H H3]. apply andb_true_iff in H as [H1 H2].
  apply opt_color_eqb_eq in H1, H2. apply Z.eqb_eq in H3, H4. apply opt_str_eqb_eq in H5. auto.
Qed.
Lemma style_eqb_of_eq a b : a = b -> style_eqb a b = true.
Proof. intros ->. apply style_eqb_refl. Qed.
Lemma style_eqb_sym a b : style_eqb a b = true -> style_eqb b a = true.
Proof.
  intros H. apply style_eqb_fields in H as (H1 & H2 & H3 & H4 & H5).
  unfold style_eqb. rewrite H1, H2, H3, H4, H5.
  rewrite !opt_color_eqb_refl, !Z.eqb_refl, opt_str_eqb_refl. reflexivity.
Qed.
Lemma style_eqb_trans a b c : style_eqb a b = true -> style_eqb b c = true -> style_eqb a c = true.
Proof.
  intros H G. apply style_eqb_fields in H as (H1 & H2 & H3 & H4 & H5).
  apply style_eqb_fields in G as (G1 & G2 & G3 & G4 & G5).
  unfold style_eqb. rewrite H1, H2, H3, H4, H5, G1, G2, G3, G4, G5.
  rewrite !opt_color_eqb_refl, !Z.eqb_refl, opt_str_eqb_refl. reflexivity.
Qed.

(* ------------------------------------------------------------------ bitwise lemmas: ALL integers *)
(* the attribute word of a sum: value bits of a survive where b says nothing *)
Definition mrg (aa sb ab : Z) : Z := Z.lor (Z.land aa (Z.lnot sb)) (Z.land ab sb).

Lemma mrg_assoc aa ab sb ac sc :
  mrg (mrg aa sb ab) sc ac = mrg aa (Z.lor sb sc) (mrg ab sc ac).
Proof.
  unfold mrg. apply Z.bits_inj'. intros n Hn.
  rewrite !Z.lor_spec, !Z.land_spec, !Z.lnot_spec, !Z.lor_spec, !Z.land_spec, ?Z.lnot_spec by assumption.
  destruct (Z.testbit aa n), (Z.testbit ab n), (Z.testbit sb n), (Z.testbit ac n), (Z.testbit sc n); reflexivity.
Qed.

Lemma bit_mask_spec i n : 0 <= i -> 0 <= n -> Z.testbit (bit_mask i) n = (n =? i).
Proof.
  intros Hi Hn. unfold bit_mask. rewrite Z.shiftl_spec by assumption.
  destruct (n =? i) eqn:E.
  - apply Z.eqb_eq in E. subst. rewrite Z.sub_diag. reflexivity.
  - apply Z.eqb_neq in E. destruct (Z.ltb_spec n i).
    + apply Z.testbit_neg_r. lia.
    + change 1 with (Z.ones 1). rewrite Z.ones_spec_high; [reflexivity|lia].
Qed.

(* `w & (1 << i)` is non-zero exactly when bit i of w is set *)
Lemma has_bit_spec w i : 0 <= i -> has_bit w i = Z.testbit w i.
Proof.
  intros Hi. unfold has_bit.
  destruct (Z.testbit w i) eqn:T.
  - destruct (Z.land w (bit_mask i) =? 0) eqn:E; [|reflexivity].
    apply Z.eqb_eq in E. exfalso.
    assert (Z.testbit (Z.land w (bit_mask i)) i = true) as G.
    { rewrite Z.land_spec, T, bit_mask_spec, Z.eqb_refl by lia. reflexivity. }
    rewrite E, Z.bits_0 in G. discriminate.
  - assert (Z.land w (bit_mask i) = 0) as ->; [|reflexivity].
    apply Z.bits_inj'. intros n Hn. rewrite Z.land_spec, Z.bits_0, bit_mask_spec by lia.
    destruct (n =? i) eqn:E; [apply Z.eqb_eq in E; subst; rewrite T; reflexivity|apply andb_false_r].
Qed.

Lemma has_bit_lor a b i : 0 <= i -> has_bit (Z.lor a b) i = has_bit a i || has_bit b i.
Proof. intros. rewrite !has_bit_spec, Z.lor_spec by assumption. reflexivity. Qed.
Lemma has_bit_land a b i : 0 <= i -> has_bit (Z.land a b) i = has_bit a i && has_bit b i.
Proof. intros. rewrite !has_bit_spec, Z.land_spec by assumption. reflexivity. Qed.
Lemma has_bit_mrg aa sb ab i : 0 <= i ->
  has_bit (mrg aa sb ab) i = if has_bit sb i then has_bit ab i else has_bit aa i.
Proof.
  intros Hi. unfold mrg. rewrite !has_bit_spec, Z.lor_spec, !Z.land_spec, Z.lnot_spec by assumption.
  destruct (Z.testbit aa i), (Z.testbit ab i), (Z.testbit sb i); reflexivity.
Qed.
Lemma has_bit_0 i : has_bit 0 i = false.
Proof. unfold has_bit. rewrite Z.land_0_l. reflexivity. Qed.

(* ------------------------------------------------------------------ `or` on colours and links *)
Lemma color_or_assoc a b c : color_or c (color_or b a) = color_or (color_or c b) a.
Proof. destruct c, b; reflexivity. Qed.
Lemma link_or_assoc a b c : link_or c (link_or b a) = link_or (link_or c b) a.
Proof. unfold link_or. destruct c as [[|x c]|], b as [[|y b]|]; cbn; reflexivity. Qed.

(* ------------------------------------------------------------------ associativity *)
Lemma merge_attrs a b : s_attributes (style_merge a b) = mrg (s_attributes a) (s_set_attributes b) (s_attributes b).
Proof. reflexivity. Qed.

Lemma merge_assoc a b c : style_merge (style_merge a b) c = style_merge a (style_merge b c).
Proof.
  unfold style_merge; cbn [s_color s_bgcolor s_attributes s_set_attributes s_link s_null s_hash s_ansi s_def].
  f_equal.
  - apply color_or_assoc.
  - apply color_or_assoc.
  - exact (mrg_assoc (s_attributes a) (s_attributes b) (s_set_attributes b) (s_attributes c) (s_set_attributes c)).
  - symmetry. apply Z.lor_assoc.
  - apply link_or_assoc.
  - symmetry. apply orb_assoc.
Qed.

Lemma merge_null a b : s_null (style_merge a b) = s_null a || s_null b.
Proof. reflexivity. Qed.

(* (a + b) + c = a + (b + c) as RECORDS (hash key and memo state included), for ALL styles:
   arbitrary integers as attribute words, any flags, any colours *)
Theorem add_assoc_eq a b c : style_add (style_add a b) c = style_add a (style_add b c).
Proof.
  unfold style_add.
  destruct (s_null a) eqn:Na, (s_null b) eqn:Nb, (s_null c) eqn:Nc;
    rewrite ?Na, ?Nb, ?Nc, ?merge_null, ?Na, ?Nb, ?Nc; cbn [orb]; try reflexivity.
  apply merge_assoc.
Qed.

Theorem add_assoc a b c : assoc_b (style_add (style_add a b) c) (style_add a (style_add b c)) = true.
Proof. unfold assoc_b. rewrite add_assoc_eq. apply style_eqb_refl. Qed.

(* ------------------------------------------------------------------ identity *)
Lemma style_null_null : s_null style_null = true.
Proof. reflexivity. Qed.

Theorem add_null_r a : style_add a style_null = a.
Proof. unfold style_add. rewrite style_null_null. reflexivity. Qed.

Lemma inv_b_parts s : inv_b s = true -> null_ok_b s = true /\ attr_sub_b s = true /\ link_ok_b s = true.
Proof. unfold inv_b. intros H. apply andb_true_iff in H as [H H3]. apply andb_true_iff in H as [H1 H2]. auto. Qed.

Lemma null_ok_fields s : null_ok_b s = true -> s_null s = true ->
  s_color s = None /\ s_bgcolor s = None /\ s_set_attributes s = 0 /\ s_attributes s = 0 /\ s_link s = None.
Proof.
  unfold null_ok_b. intros H N. rewrite N in H. cbn in H.
  destruct (s_color s), (s_bgcolor s), (s_link s); cbn in H; try discriminate;
    try (rewrite andb_false_r in H; discriminate).
  repeat split; lia.
Qed.

(* NULL + a == a (rich's ==) for every style satisfying the invariant; when a is flagged null the
   result is the NULL_STYLE object itself *)
Theorem add_null_l a : inv_b a = true -> identity_b a (style_add style_null a) = true.
Proof.
  intros H. apply inv_b_parts in H as (H1 & _ & _). unfold identity_b, style_add.
  destruct (s_null a) eqn:N; [|rewrite style_null_null; apply style_eqb_refl].
  destruct (null_ok_fields a H1 N) as (E1 & E2 & E3 & E4 & E5).
  unfold style_eqb. rewrite E1, E2, E3, E4, E5. reflexivity.
Qed.

(* ------------------------------------------------------------------ the `_null` short-cuts *)
Lemma attr_sub_mrg0 s : attr_sub_b s = true -> mrg 0 (s_set_attributes s) (s_attributes s) = s_attributes s.
Proof. unfold attr_sub_b, mrg. intros H. apply Z.eqb_eq in H. rewrite Z.land_0_l, Z.lor_0_l. exact H. Qed.
Lemma link_ok_or l : (match l with Some [] => false | _ => true end) = true -> link_or l None = l.
Proof. destruct l as [[|x l]|]; cbn; intros H; try discriminate; reflexivity. Qed.

(* under the invariant the short-cuts return what the general formula would (up to ==) *)
Theorem add_shortcuts_consistent a b : inv_b a = true -> inv_b b = true ->
  style_eqb (style_add a b) (style_merge a b) = true.
Proof.
  intros Ha Hb. apply inv_b_parts in Ha as (A1 & A2 & A3). apply inv_b_parts in Hb as (B1 & B2 & B3).
  unfold style_add. destruct (s_null b) eqn:Nb.
  - destruct (null_ok_fields b B1 Nb) as (E1 & E2 & E3 & E4 & E5).
    unfold style_eqb, style_merge; cbn [s_color s_bgcolor s_attributes s_set_attributes s_link].
    rewrite E1, E2, E3, E4, E5. cbn [color_or].
    rewrite Z.lor_0_r, Z.land_0_l, Z.lor_0_r. change (Z.lnot 0) with (-1). rewrite Z.land_m1_r.
    unfold link_or; cbn [str_truthy].
    rewrite !opt_color_eqb_refl, !Z.eqb_refl, opt_str_eqb_refl. reflexivity.
  - destruct (s_null a) eqn:Na; [|apply style_eqb_refl].
    destruct (null_ok_fields a A1 Na) as (E1 & E2 & E3 & E4 & E5).
    unfold style_eqb, style_merge; cbn [s_color s_bgcolor s_attributes s_set_attributes s_link].
    rewrite E1, E2, E3, E4, E5.
    assert (forall x, color_or x None = x) as C by (intros [?|]; reflexivity). rewrite !C.
    rewrite Z.lor_0_l. fold (mrg 0 (s_set_attributes b) (s_attributes b)). rewrite (attr_sub_mrg0 b B2).
    rewrite (link_ok_or (s_link b) B3).
    rewrite !opt_color_eqb_refl, !Z.eqb_refl, opt_str_eqb_refl. reflexivity.
Qed.

(* ------------------------------------------------------------------ right bias *)
Lemma opt_bool_eqb_refl o : opt_bool_eqb o o = true.
Proof. destruct o as [[|]|]; reflexivity. Qed.

Lemma style_attr_merge a b i : 0 <= i ->
  style_attr (style_merge a b) i = match style_attr b i with Some v => Some v | None => style_attr a i end.
Proof.
  intros Hi. unfold style_attr. cbn [style_merge s_set_attributes]. rewrite merge_attrs.
  rewrite has_bit_lor, has_bit_mrg by assumption.
  destruct (has_bit (s_set_attributes b) i); [rewrite orb_true_r; reflexivity|rewrite orb_false_r; reflexivity].
Qed.

Lemma style_attr_eqb a b i : style_eqb a b = true -> style_attr a i = style_attr b i.
Proof. intros H. apply style_eqb_fields in H as (_ & _ & H3 & H4 & _). unfold style_attr. rewrite H3, H4. reflexivity. Qed.

(* per attribute: the right operand wins exactly where it specifies a value (every bit number,
   not only 0..12) *)
Theorem add_right_bias_attr a b i : inv_b a = true -> inv_b b = true -> 0 <= i ->
  style_attr (style_add a b) i = match style_attr b i with Some v => Some v | None => style_attr a i end.
Proof.
  intros Ha Hb Hi. rewrite (style_attr_eqb _ _ i (add_shortcuts_consistent a b Ha Hb)).
  apply style_attr_merge. exact Hi.
Qed.

Theorem add_right_bias_color a b : inv_b a = true -> inv_b b = true ->
  s_color (style_add a b) = color_or (s_color b) (s_color a)
  /\ s_bgcolor (style_add a b) = color_or (s_bgcolor b) (s_bgcolor a)
  /\ s_link (style_add a b) = link_or (s_link b) (s_link a).
Proof.
  intros Ha Hb. destruct (style_eqb_fields _ _ (add_shortcuts_consistent a b Ha Hb)) as (H1 & H2 & _ & _ & H5).
  rewrite H1, H2, H5. repeat split.
Qed.

Lemma attr_bits_nonneg i : In i attr_bits -> 0 <= i.
Proof. unfold attr_bits. intros H. apply in_map_iff in H as (k & <- & _). lia. Qed.

Theorem add_bias a b : inv_b a = true -> inv_b b = true -> bias_b a b (style_add a b) = true.
Proof.
  intros Ha Hb. unfold bias_b.
  destruct (add_right_bias_color a b Ha Hb) as (H1 & H2 & H3). rewrite H1, H2, H3.
  rewrite !opt_color_eqb_refl, opt_str_eqb_refl, !andb_true_r.
  apply forallb_forall. intros i Hi. unfold bias_attr_b.
  rewrite (add_right_bias_attr a b i Ha Hb (attr_bits_nonneg i Hi)). apply opt_bool_eqb_refl.
Qed.

(* ------------------------------------------------------------------ the invariant is preserved *)
Lemma inv_intro s : null_ok_b s = true -> attr_sub_b s = true -> link_ok_b s = true -> inv_b s = true.
Proof. unfold inv_b. intros -> -> ->. reflexivity. Qed.

Lemma land_sub_lor a b sa sb : Z.land a sa = a -> Z.land b sb = b ->
  Z.land (mrg a sb b) (Z.lor sa sb) = mrg a sb b.
Proof.
  intros Ha Hb. unfold mrg. apply Z.bits_inj'. intros n Hn.
  apply (f_equal (fun z => Z.testbit z n)) in Ha, Hb. rewrite Z.land_spec in Ha, Hb.
  rewrite !Z.land_spec, !Z.lor_spec, !Z.land_spec, Z.lnot_spec by assumption.
  destruct (Z.testbit a n), (Z.testbit b n), (Z.testbit sa n), (Z.testbit sb n); cbn in *; congruence.
Qed.

Lemma inv_merge a b : inv_b a = true -> inv_b b = true -> s_null a = false -> s_null b = false ->
  inv_b (style_merge a b) = true.
Proof.
  intros Ha Hb Na Nb. apply inv_b_parts in Ha as (A1 & A2 & A3). apply inv_b_parts in Hb as (B1 & B2 & B3).
  apply inv_intro.
  - unfold null_ok_b. rewrite merge_null, Na, Nb. reflexivity.
  - unfold attr_sub_b in *. rewrite merge_attrs. cbn [style_merge s_set_attributes].
    apply Z.eqb_eq. apply land_sub_lor; apply Z.eqb_eq; assumption.
  - unfold link_ok_b in *. cbn [style_merge s_link]. unfold link_or.
    destruct (s_link b) as [[|x l]|]; cbn; try discriminate; try reflexivity; exact A3.
Qed.

Theorem inv_add a b : inv_b a = true -> inv_b b = true -> inv_b (style_add a b) = true.
Proof.
  intros Ha Hb. unfold style_add. destruct (s_null b) eqn:Nb; [exact Ha|].
  destruct (s_null a) eqn:Na; [exact Hb|]. apply inv_merge; assumption.
Qed.

Lemma inv_null : inv_b style_null = true.
Proof. reflexivity. Qed.

(* set_word / attr_word: value bits lie inside the set bits *)
Lemma attr_set_words fl : forall k, 0 <= k ->
  Z.land (attr_word fl (2 ^ k)) (set_word fl (2 ^ k)) = attr_word fl (2 ^ k)
  /\ (forall n, 0 <= n < k -> Z.testbit (set_word fl (2 ^ k)) n = false)
  /\ 0 <= set_word fl (2 ^ k).
Proof.
  induction fl as [|f fl IH]; intros k Hk; cbn [attr_word set_word].
  - repeat split; try reflexivity; try lia. intros. apply Z.bits_0.
  - assert (2 * 2 ^ k = 2 ^ (k + 1)) as E by (rewrite Z.pow_add_r by lia; lia).
    rewrite E. destruct (IH (k + 1) ltac:(lia)) as (I1 & I2 & I3).
    set (S := set_word fl (2 ^ (k + 1))) in *. set (A := attr_word fl (2 ^ (k + 1))) in *.
    (* a low bit added to a word whose bits are all above it is a disjoint lor *)
    assert (forall X, (forall n, 0 <= n < k + 1 -> Z.testbit X n = false) -> 2 ^ k + X = Z.lor (2 ^ k) X) as ADD.
    { intros X HX.
      assert (Z.land (2 ^ k) X = 0) as L0.
      { apply Z.bits_inj'. intros n Hn. rewrite Z.land_spec, Z.bits_0.
        destruct (Z.eq_dec n k) as [->|Ne]; [rewrite HX by lia; apply andb_false_r|].
        rewrite Z.pow2_bits_false by lia. reflexivity. }
      rewrite (Z.add_nocarry_lxor _ _ L0). apply Z.lxor_lor. exact L0. }
    assert (forall n, 0 <= n < k + 1 -> Z.testbit A n = false) as A2.
    { intros n Hn. apply (f_equal (fun z => Z.testbit z n)) in I1. rewrite Z.land_spec, (I2 n Hn), andb_false_r in I1.
      symmetry. exact I1. }
    assert (0 < 2 ^ k) as P by (apply Z.pow_pos_nonneg; lia).
    destruct f as [[|]|].
    + rewrite (ADD S I2), (ADD A A2). repeat split.
      * apply Z.bits_inj'. intros n Hn. apply (f_equal (fun z => Z.testbit z n)) in I1.
        rewrite Z.land_spec in I1. rewrite Z.land_spec, !Z.lor_spec.
        destruct (Z.testbit (2 ^ k) n), (Z.testbit A n), (Z.testbit S n); cbn in *; congruence.
      * intros n Hn. rewrite Z.lor_spec, Z.pow2_bits_false, I2 by lia. reflexivity.
      * apply Z.lor_nonneg. lia.
    + rewrite (ADD S I2), Z.add_0_l. repeat split.
      * apply Z.bits_inj'. intros n Hn. apply (f_equal (fun z => Z.testbit z n)) in I1.
        rewrite Z.land_spec in I1. rewrite Z.land_spec, !Z.lor_spec.
        destruct (Z.testbit (2 ^ k) n), (Z.testbit A n), (Z.testbit S n); cbn in *; congruence.
      * intros n Hn. rewrite Z.lor_spec, Z.pow2_bits_false, I2 by lia. reflexivity.
      * apply Z.lor_nonneg. lia.
    + rewrite !Z.add_0_l. repeat split; try assumption. intros n Hn. apply I2. lia.
Qed.

Lemma make_attr_sub c b fl l : attr_sub_b (style_make c b fl l) = true.
Proof.
  unfold attr_sub_b, style_make. cbn [s_attributes s_set_attributes].
  destruct (set_word (firstn n_attrs fl) 1 =? 0) eqn:E; [rewrite Z.land_0_l; reflexivity|].
  apply Z.eqb_eq. exact (proj1 (attr_set_words (firstn n_attrs fl) 0 ltac:(lia))).
Qed.

Theorem inv_make c b fl l : l <> Some [] -> inv_b (style_make c b fl l) = true.
Proof.
  intros Hl. apply inv_intro; [|apply make_attr_sub|].
  - unfold null_ok_b, style_make. cbn [s_null s_color s_bgcolor s_set_attributes s_attributes s_link].
    destruct (set_word (firstn n_attrs fl) 1 =? 0) eqn:E; cbn [andb negb orb]; [|reflexivity].
    destruct c, b; cbn; try reflexivity.
    destruct l as [[|x l]|]; cbn; try reflexivity. congruence.
  - unfold link_ok_b, style_make. cbn [s_link]. destruct l as [[|x l]|]; try reflexivity. congruence.
Qed.

Theorem inv_from_color c b : inv_b (style_from_color c b) = true.
Proof. destruct c, b; reflexivity. Qed.

Theorem inv_copy s : inv_b s = true -> inv_b (style_copy s) = true.
Proof.
  intros H. unfold style_copy. destruct (s_null s) eqn:N; [reflexivity|].
  apply inv_b_parts in H as (H1 & H2 & H3). apply inv_intro; [reflexivity|exact H2|exact H3].
Qed.

Theorem inv_without_color s : inv_b s = true -> inv_b (style_without_color s) = true.
Proof.
  intros H. unfold style_without_color. destruct (s_null s) eqn:N; [reflexivity|].
  apply inv_b_parts in H as (H1 & H2 & H3). apply inv_intro; [reflexivity|exact H2|exact H3].
Qed.

Theorem inv_update_link fx s l : inv_b s = true -> l <> Some [] -> inv_b (style_update_link fx s l) = true.
Proof.
  intros H Hl. apply inv_b_parts in H as (H1 & H2 & H3). apply inv_intro; [reflexivity|exact H2|].
  unfold link_ok_b. cbn. destruct l as [[|x l]|]; try reflexivity. congruence.
Qed.

(* fields are untouched by copy; colours go, the rest stays in without_color *)
Theorem copy_eq s : inv_b s = true -> style_eqb (style_copy s) s = true.
Proof.
  intros H. unfold style_copy. destruct (s_null s) eqn:N.
  2:{ unfold style_eqb; cbn [s_color s_bgcolor s_attributes s_set_attributes s_link].
      rewrite !opt_color_eqb_refl, !Z.eqb_refl, opt_str_eqb_refl. reflexivity. }
  apply inv_b_parts in H as (H1 & _ & _). destruct (null_ok_fields s H1 N) as (E1 & E2 & E3 & E4 & E5).
  unfold style_eqb. rewrite E1, E2, E3, E4, E5. reflexivity.
Qed.
