(* (the model of Layout.v takes the flexible-minimum variant FLEXMIN from the tree under check: everything
   below is generic in that flag)
   C14: totality of the table solver at EVERY budget (also far below one cell per column), of the
   Columns width search, and hence of Layout.render / Layout.measure on all trees whose tables have
   valid options.  Built on C07 (RatioP, TableP, TableP2), C01 (LayoutP2/6/7/8) and C08 (tree_dfs_prefix). *)
From RichModel Require Import Prelude Cells Segments Ratio Frames Layout SpecLayout Total.
From RichModel Require Table Wrap SpecTable.
From RichProofs Require Import RatioP TableP TableP2 LayoutP LayoutP2 LayoutP8 LayoutP6 LayoutP7 FramesP5 TotalP2 TotalP3.
From RichProofs Require LayoutP10.
From Coq Require Import ZifyBool.

Import Table.

(* ------------------------------------------------------------------ _calculate_column_widths never fails
   C01's LayoutP10 (calc_widths_x_total / calc_widths_x_bound: both variants of the flexible minimum, any
   table min_width, any budget), cited and packaged *)
Theorem calc_widths_x_total_spec fm o cols M :
  cols <> [] -> Forall col_free cols -> pad_ok o ->
  exists ws, calc_widths_x fm false false o cols M = Ok ws /\ length ws = length cols /\ Forall (fun w => 1 <= w) ws.
Proof.
  intros Hne Hfree Hp. destruct (LayoutP10.calc_widths_x_total fm o cols M Hne Hfree Hp) as [ws E].
  destruct (LayoutP10.calc_widths_x_bound fm o cols M ws Hne Hfree Hp E) as [L1 [L2 _]].
  exists ws. repeat split; assumption.
Qed.

(* ------------------------------------------------------------------ valid table options *)
Definition tbl_valid (t : tblspec) : bool :=
  let o := tb_o t in
  nonneg4 (Table.o_pad o)
  && match tb_cols t with [] => false | _ => true end
  && Bool.eqb (Table.o_box o) (match tb_boxc t with Some _ => true | None => false end)
  && forallb col_ok (tb_cols t).

Lemma table_solved cf t rows W : tbl_valid t = true ->
  exists ws, Table.table_widths_x FLEXMIN false false (tb_o t) (table_tcols t (table_cols cf t rows)) W = Ok ws
             /\ Table.render_table false (tb_o t) (tb_boxc t) ws (table_rows t (table_cols cf t rows)) <> Crash K_IndexError
             /\ exists ls, Table.render_table false (tb_o t) (tb_boxc t) ws (table_rows t (table_cols cf t rows)) = Ok ls.
Proof.
  intros Hok. unfold tbl_valid in Hok. repeat (apply andb_true_iff in Hok as [Hok ?]).
  rename H into Hcols, H0 into Hbox, H1 into Hne. rename Hok into Hpad.
  set (cells := table_cols cf t rows). set (cols := table_tcols t cells).
  assert (Hlen : length cols = length (tb_cols t)) by apply table_tcols_length.
  assert (Hcne : cols <> []).
  { intros Hc. rewrite Hc in Hlen. destruct (tb_cols t); [discriminate|discriminate]. }
  assert (Hp : pad_ok (tb_o t)).
  { unfold pad_ok. unfold nonneg4 in Hpad. destruct (Table.o_pad (tb_o t)) as [[[a b] c] d]. lia. }
  unfold Table.table_widths_x.
  set (M := Table.target_width (tb_o t) W - Table.extra_width (tb_o t) (length cols)).
  destruct (calc_widths_x_total_spec FLEXMIN (tb_o t) cols M Hcne (table_tcols_free cf t rows Hcols) Hp) as [ws [Ew [L1 L2]]].
  exists ws. split; [exact Ew|].
  assert (Hbx : box_agrees (tb_o t) (tb_boxc t)).
  { split.
    - apply Bool.eqb_prop in Hbox. exact Hbox.
    - destruct (tb_boxc t) as [bx|] eqn:Eb; [|exact Logic.I]. unfold tb_boxc in Eb.
      destruct (tb_box t); [|discriminate]. eapply nth_box_w1; exact Eb. }
  assert (Hwne : ws <> []) by (intros ->; destruct cols; [congruence|discriminate]).
  assert (Hw0 : Forall (fun w => 0 <= w) ws) by (eapply Forall_impl; [|exact L2]; cbn; lia).
  assert (Hrows : Forall (fun r => length (Table.r_cells r) = length ws) (table_rows t cells)).
  { unfold table_rows. eapply Forall_impl; [|apply transpose_rows_cells]. cbn. intros r Hr. rewrite Hr, L1.
    unfold cells. rewrite table_cols_length. lia. }
  destruct (table_rows_equal_width (tb_o t) (tb_boxc t) ws (table_rows t cells) Hbx Hwne Hw0 Hrows) as [ls [R1 _]].
  split; [rewrite R1; discriminate|exists ls; exact R1].
Qed.

Lemma table_fail_none cf t rows W : tbl_valid t = true -> table_fail t (table_cols cf t rows) W = None.
Proof.
  intros Hok. destruct (table_solved cf t rows W Hok) as [ws [Ew [_ [ls El]]]].
  unfold table_fail. rewrite Ew, El. reflexivity.
Qed.

(* ------------------------------------------------------------------ Columns: the width search *)
Lemma set_nth_Forall (P : Z -> Prop) : P 0 -> forall l i v, Forall P l -> P v -> Forall P (set_nth l i v).
Proof.
  intros H0. induction l as [|x l IH]; intros i v Hl Hv.
  - induction i as [|i IHi]; cbn [set_nth]; constructor; try assumption; constructor.
  - inversion Hl; subst. destruct i as [|i]; cbn [set_nth]; constructor; try assumption. apply IH; assumption.
Qed.

Lemma nthZ_le (ws : list Z) maxw : 0 <= maxw -> Forall (fun w => w <= maxw) ws -> forall i, nthZ ws i 0 <= maxw.
Proof.
  intros H0 Hf i. unfold nthZ. destruct (i <? 0); [exact H0|].
  destruct (nth_in_or_default (Z.to_nat i) ws 0) as [Hin|Hd]; [|rewrite Hd; exact H0].
  rewrite Forall_forall in Hf. apply Hf. exact Hin.
Qed.

Lemma width_pass_ge1 ws cc wpad maxw : 0 <= maxw -> Forall (fun w => w <= maxw) ws ->
  forall items col widths cc', Forall (fun w => w <= maxw) widths ->
  width_pass items ws cc wpad maxw col widths = Some cc' -> 1 <= cc'.
Proof.
  intros H0 Hws. induction items as [|i items IH]; intros col widths cc' Hwd H; [discriminate|].
  cbn [width_pass] in H.
  set (v := Z.max (nthZ widths col 0) (if i =? -1 then 0 else nthZ ws i 0)) in *.
  assert (Hv : v <= maxw).
  { unfold v. pose proof (nthZ_le widths maxw H0 Hwd col). pose proof (nthZ_le ws maxw H0 Hws i).
    destruct (i =? -1); lia. }
  set (w2 := set_nth widths (Z.to_nat col) v) in *.
  assert (Hw2 : Forall (fun w => w <= maxw) w2) by (apply set_nth_Forall; assumption).
  destruct (maxw <? sumZ w2 + wpad * (zlen w2 - 1)) eqn:E.
  - injection H as <-.
    assert (Hl : (1 <= length w2)%nat) by (unfold w2; rewrite set_nth_length; lia).
    destruct w2 as [|a [|b w2']]; [cbn in Hl; lia| |unfold zlen; cbn [length]; lia].
    exfalso. inversion Hw2; subst. unfold zlen, sumZ in E. cbn in E. lia.
  - eapply IH; [exact Hw2|exact H].
Qed.

Lemma width_loop_total n ws wpad maxw cf : 0 <= n -> 0 <= maxw -> Forall (fun w => w <= maxw) ws ->
  forall fuel cc, 1 <= cc -> (Z.to_nat cc < fuel)%nat ->
  exists r, width_loop fuel n ws cc wpad maxw cf = Ok r /\ 1 <= r.
Proof.
  intros Hn H0 Hws. induction fuel as [|f IH]; intros cc Hcc Hf; [lia|]. cbn [width_loop].
  destruct (cc <=? 1) eqn:E; [exists cc; split; [reflexivity|lia]|].
  destruct (iter_items_total n cc cf Hn ltac:(lia)) as [items Hi]. rewrite Hi. cbn [bind].
  destruct (width_pass items ws cc wpad maxw 0 []) as [cc'|] eqn:Ep; [|exists cc; split; [reflexivity|lia]].
  pose proof (width_pass_range ws cc wpad maxw ltac:(lia) items 0 [] cc' ltac:(lia) ltac:(unfold zlen; cbn; lia) Ep) as Hr.
  pose proof (width_pass_ge1 ws cc wpad maxw H0 Hws items 0 [] cc' ltac:(constructor) Ep) as Hg.
  apply IH; lia.
Qed.

Lemma fold_max_le (ws : list Z) m : 0 <= m -> Forall (fun w => w <= m) ws -> fold_right Z.max 0 ws <= m.
Proof. intros H0. induction 1; cbn [fold_right]; lia. Qed.

Theorem columns_grid_total ws pl pr eq cf rtl W : 0 <= W -> Forall (fun w => w <= W) ws ->
  exists g, columns_grid ws None pl pr eq cf rtl W = Ok g.
Proof.
  intros H0 Hws. unfold columns_grid. destruct (zlen ws =? 0) eqn:En; [eexists; reflexivity|].
  set (ws' := if eq then map (fun _ => fold_right Z.max 0 ws) ws else ws).
  assert (Hws' : Forall (fun w => w <= W) ws').
  { unfold ws'. destruct eq; [|exact Hws]. apply Forall_forall. intros x Hx. apply in_map_iff in Hx as [y [<- _]].
    apply fold_max_le; assumption. }
  assert (Hn : 1 <= zlen ws) by (unfold zlen in *; lia).
  destruct (width_loop_total (zlen ws) ws' (Z.max pl pr) W cf ltac:(lia) H0 Hws' (S (Z.to_nat (zlen ws))) (zlen ws) Hn ltac:(lia))
    as [cc [Ew Hcc]].
  rewrite Ew. cbn [bind].
  destruct (iter_items_total (zlen ws) cc cf ltac:(lia) Hcc) as [items Hi]. rewrite Hi. cbn [bind]. eexists. reflexivity.
Qed.

(* ------------------------------------------------------------------ all trees *)
Fixpoint valid (r : R) : bool :=
  match r with
  | Txt _ _ _ _ | Rule _ _ _ | Bar _ _ _ _ | PBar _ _ _ _ _ => true
  | Pad c _ _ _ _ _ | Panel c _ | Align c _ _ _ | Constrain c _ | Styled c | NoMeasure c | Cast c => valid c
  | Group cs _ => forallb valid cs
  | Tbl t rows => tbl_valid t && forallb (forallb valid) rows
  | Cols items _ => forallb valid items
  | Tree lab kids _ => valid lab && forallb valid kids
  end.

Section RIndFull.
  Variable P : R -> Prop.
  Hypothesis HTxt : forall s j o n, P (Txt s j o n).
  Hypothesis HPad : forall c t r b l e, P c -> P (Pad c t r b l e).
  Hypothesis HPanel : forall c o, P c -> P (Panel c o).
  Hypothesis HAlign : forall c h p w, P c -> P (Align c h p w).
  Hypothesis HConstrain : forall c w, P c -> P (Constrain c w).
  Hypothesis HStyled : forall c, P c -> P (Styled c).
  Hypothesis HGroup : forall cs fit, Forall P cs -> P (Group cs fit).
  Hypothesis HRule : forall t c h, P (Rule t c h).
  Hypothesis HBar : forall s b e w, P (Bar s b e w).
  Hypothesis HPBar : forall t c w p a, P (PBar t c w p a).
  Hypothesis HTbl : forall t rows, Forall (Forall P) rows -> P (Tbl t rows).
  Hypothesis HCols : forall items o, Forall P items -> P (Cols items o).
  Hypothesis HTree : forall lab kids ex, P lab -> Forall P kids -> P (Tree lab kids ex).
  Hypothesis HNoMeasure : forall c, P c -> P (NoMeasure c).
  Hypothesis HCast : forall c, P c -> P (Cast c).

  Fixpoint R_ind_full (r : R) : P r :=
    let go := fix go (l : list R) : Forall P l :=
                match l with [] => Forall_nil P | x :: t => Forall_cons x (R_ind_full x) (go t) end in
    match r with
    | Txt s j o n => HTxt s j o n
    | Pad c t rr b l e => HPad c t rr b l e (R_ind_full c)
    | Panel c o => HPanel c o (R_ind_full c)
    | Align c h p w => HAlign c h p w (R_ind_full c)
    | Constrain c w => HConstrain c w (R_ind_full c)
    | Styled c => HStyled c (R_ind_full c)
    | Group cs fit => HGroup cs fit (go cs)
    | Rule t c h => HRule t c h
    | Bar s b e w => HBar s b e w
    | PBar t c w p a => HPBar t c w p a
    | Tbl t rows =>
        HTbl t rows ((fix gorows (ll : list (list R)) : Forall (Forall P) ll :=
                        match ll with [] => Forall_nil _ | x :: tl => Forall_cons x (go x) (gorows tl) end) rows)
    | Cols items o => HCols items o (go items)
    | Tree lab kids ex => HTree lab kids ex (R_ind_full lab) (go kids)
    | NoMeasure c => HNoMeasure c (R_ind_full c)
    | Cast c => HCast c (R_ind_full c)
    end.
End RIndFull.

Lemma first_some_map_none {A} (f : A -> option Z) l : (forall x, In x l -> f x = None) -> first_some (map f l) = None.
Proof.
  intros H. apply first_some_none. apply Forall_forall. intros y Hy. apply in_map_iff in Hy as [x [<- Hx]]. apply H, Hx.
Qed.

Theorem fails_valid : forall r, valid r = true -> forall cf ro W, fails cf r ro W = None.
Proof.
  apply (R_ind_full (fun r => valid r = true -> forall cf ro W, fails cf r ro W = None)).
  - intros s j o n _ cf ro W. cbn [fails]. destruct (W <? 1); reflexivity.
  - intros c t r b l e IH Hs cf ro W. cbn [fails]. destruct (W <? 1); [reflexivity|]. apply IH. exact Hs.
  - intros c o IH Hs cf ro W. cbn [fails]. destruct (W <? 1); [reflexivity|].
    destruct (p_pad o) as [[[t rr] b] l]. apply IH. exact Hs.
  - intros c h p w IH Hs cf ro W. cbn [fails]. destruct (W <? 1); [reflexivity|].
    apply first_some_none. repeat constructor; apply IH; exact Hs.
  - intros c w IH Hs cf ro W. cbn [fails]. destruct (W <? 1); [reflexivity|]. apply IH. exact Hs.
  - intros c IH Hs cf ro W. cbn [fails]. destruct (W <? 1); [reflexivity|]. apply IH. exact Hs.
  - intros cs fit IH Hs cf ro W. cbn [fails]. destruct (W <? 1); [reflexivity|].
    cbn [valid] in Hs. rewrite forallb_forall in Hs. rewrite Forall_forall in IH.
    apply first_some_map_none. intros c Hc. apply IH; [exact Hc|apply Hs; exact Hc].
  - intros t c h _ cf ro W. cbn [fails]. destruct (W <? 1); reflexivity.
  - intros s b e w _ cf ro W. cbn [fails]. destruct (W <? 1); reflexivity.
  - intros t c w p a _ cf ro W. cbn [fails]. destruct (W <? 1); reflexivity.
  - (* Tbl *)
    intros t rows IH Hs cf ro W. cbn [valid] in Hs. apply andb_true_iff in Hs as [Ht Hrows].
    cbn [fails]. destruct (W <? 1); [reflexivity|].
    change (table_cols cf t (map (map (fun c : R => den cf c)) rows)) with (table_cols cf t (map (map (fun c : R => den cf c)) rows)).
    rewrite (table_fail_none cf t (map (map (fun c : R => den cf c)) rows) W Ht).
    destruct (Table.table_widths_x FLEXMIN false false (tb_o t) _ W) as [ws|e|k]; [|reflexivity|reflexivity].
    rewrite forallb_forall in Hrows. rewrite Forall_forall in IH.
    apply first_some_map_none. intros row Hrow.
    specialize (IH row Hrow). specialize (Hrows row Hrow). rewrite forallb_forall in Hrows. rewrite Forall_forall in IH.
    generalize (combine ws (tb_cols t)). clear Hrow.
    induction row as [|c row IHrow]; intros wc; [reflexivity|]. destruct wc as [|[w col] wc]; [reflexivity|].
    rewrite (IH c (or_introl eq_refl) (Hrows c (or_introl eq_refl))).
    apply IHrow; intros x Hx; [apply IH|apply Hrows]; right; exact Hx.
  - (* Cols *)
    intros items o IH Hs cf ro W. cbn [valid] in Hs. cbn [fails]. destruct (W <? 1) eqn:EW; [reflexivity|].
    destruct items as [|i0 items]; [reflexivity|].
    destruct (co_pad o) as [[[pt pr] pb] pl].
    destruct (columns_grid_total (map (fun c => snd (mget (den cf c ro) W)) (i0 :: items)) pl pr
                (co_equal o) (co_cf o) (co_rtl o) W ltac:(lia)) as [g Hg].
    { apply Forall_forall. intros x Hx. apply in_map_iff in Hx as [c [<- _]].
      pose proof (mget_le (den cf c ro) W). lia. }
    rewrite Hg. rewrite forallb_forall in Hs. rewrite Forall_forall in IH.
    apply first_some_map_none. intros c Hc. apply IH; [exact Hc|apply Hs; exact Hc].
  - (* Tree *)
    intros lab kids ex IHl IHk Hs cf ro W. cbn [valid] in Hs. apply andb_true_iff in Hs as [Hl Hk].
    cbn [fails]. destruct (W <? 1); [reflexivity|].
    destruct (tree_dfs_prefix false false (node_of cf (Tree lab kids ex) ro) W) as [ls [Ht _]].
    apply first_some_none. constructor; [rewrite Ht; reflexivity|].
    constructor; [apply IHl; exact Hl|]. constructor; [|constructor].
    destruct ex; [|reflexivity]. rewrite forallb_forall in Hk. rewrite Forall_forall in IHk.
    apply first_some_map_none. intros k Hin. apply IHk; [exact Hin|apply Hk; exact Hin].
  - intros c IH Hs cf ro W. cbn [fails]. destruct (W <? 1); [reflexivity|]. apply IH. exact Hs.
  - intros c IH Hs cf ro W. cbn [fails]. destruct (W <? 1); [reflexivity|]. apply IH. exact Hs.
Qed.

Theorem render_total cf r W : valid r = true -> exists ls, Total.render cf r W = Ok ls.
Proof. intros H. unfold Total.render, Layout.render. rewrite (fails_valid r H). eexists. reflexivity. Qed.

Theorem measure_total cf r W : valid r = true -> exists m, Total.measure cf r W = Ok m.
Proof. intros H. unfold Total.measure, Layout.measure. rewrite (fails_valid r H). eexists. reflexivity. Qed.

(* C01's option domain is inside *)
Lemma simple_valid : forall r, simple r = true -> valid r = true.
Proof.
  apply (R_ind_full (fun r => simple r = true -> valid r = true)); cbn [simple valid]; try (intros; discriminate); auto.
  intros cs fit IH H. rewrite forallb_forall in *. rewrite Forall_forall in IH. intros x Hx. apply IH; [exact Hx|apply H, Hx].
Qed.

(* Columns(width=cw) as repaired in /repo (ef09520) = C08's columns_grid_fixed, class for class *)
Theorem columns_fixed_is_frames ws cwid pl pr eq cf rtl W :
  code_of (columns_fixed_width true (zlen ws) cwid pl pr cf W)
  = code_of (columns_grid_fixed ws (Some cwid) pl pr eq cf rtl W).
Proof.
  unfold columns_fixed_width, columns_count, columns_grid_fixed.
  destruct (zlen ws =? 0); [reflexivity|].
  destruct (cwid + Z.max pl pr =? 0); [reflexivity|]. cbn [bind].
  destruct (iter_items (zlen ws) (Z.max 1 (W / (cwid + Z.max pl pr))) cf); reflexivity.
Qed.

(* a table, a Columns grid and a Tree, nested, one cell wide *)
Definition ex_tree : R :=
  Tree (Txt (lit "root") None None None)
       [Tree (Tbl (mkTblSpec (Table.mkOpts true true true false false 0 (0, 1, 0, 1) false true true None None)
                             (Some 0) (lit "t") [] [default_col; default_col] [])
                  [[Txt (lit "hello world") None None None;
                    Cols [Txt (lit "a") None None None; Txt (lit "bb") None None None]
                         (mkColsOpts (0, 1, 0, 1) false false false false None [])]]) [] true] true.

Example render_total_nonvacuous :
  valid ex_tree = true /\ simple ex_tree = false
  /\ code_of (Total.render (mkCfg 1 true) ex_tree 1) = 0 /\ code_of (Total.measure (mkCfg 1 true) ex_tree 1) = 0.
Proof. vm_compute. repeat split. Qed.
