(* C11, part 6: Console.pop_render_hook never pops an empty list.  Live.stop pops only after it
   has read _started = True under the live lock, and start/stop change _started and the hook
   list only inside that critical section -- so the IndexError is unreachable under every
   schedule, whatever the threads' programs are (two threads stopping the same Live included). *)
From RichModel Require Import Prelude Conc SpecConc.
From RichProofs Require Import ConcP4.
From Coq Require Import ZifyBool.
Open Scope list_scope.

(* the instructions that change _started / _render_hooks *)
Fixpoint nomicro (p : list instr) : bool :=
  match p with
  | [] => true
  | IPopHook :: _ | IPushHook :: _ | ISetStarted _ :: _ => false
  | _ :: r => nomicro r
  end.

(* static: such instructions only occur in program suffixes that still owe a release of the live
   lock; Live.start/stop bodies are entered holding it and are followed by nothing of the kind *)
Definition hook_ok (s : list instr) : Prop :=
  (rma LLive s = 0 -> nomicro s = true) /\
  match s with
  | IStart :: r | IStop :: r | IStopA _ :: r => 1 <= rma LLive s /\ nomicro r = true
  | _ => True
  end.
Definition good2 (p : list instr) : Prop := forall s, suffix s p -> hook_ok s.

Lemma good2_tail i r : good2 (i :: r) -> good2 r.
Proof. intros G s [pre H]. apply G. exists (i :: pre). rewrite H. reflexivity. Qed.
Lemma good2_head p : good2 p -> hook_ok p.
Proof. intros G. apply G. exists []. reflexivity. Qed.
Lemma good2_expand e r : good2 r -> all_tails (fun e' => hook_ok (e' ++ r)) e -> good2 (e ++ r).
Proof.
  intros G A s [pre H].
  apply app_eq_app in H. destruct H as [l [[H1 H2]|[H1 H2]]].
  - subst. destruct l as [|x l].
    + cbn. apply good2_head. exact G.
    + apply (all_tails_suffix _ _ A (x :: l)); [exists pre; reflexivity | discriminate].
  - apply G. exists l. exact H2.
Qed.

Ltac h2 :=
  unfold hook_ok; cbn [app rma lock_eqb nomicro];
  repeat match goal with |- _ /\ _ => split end;
  match goal with
  | |- True => exact I
  | |- nomicro _ = true => first [reflexivity | assumption]
  | |- _ -> _ =>
      intro;
      first [ reflexivity | lia | assumption
            | match goal with H : _ -> nomicro ?r = true |- nomicro ?r = true => apply H; lia end ]
  | |- _ => lia
  end.

Lemma g2_flush r : (forall l, 0 <= rma l r) -> hook_ok (ITest :: r) -> good2 r -> good2 (flush_seq ++ r).
Proof.
  intros N [H1 _] G. cbn [rma nomicro] in H1. inst3 N.
  apply good2_expand; auto. cbn [flush_seq all_tails]. h2.
Qed.

Lemma g2_print_rest rep h c r :
  (forall l, 0 <= rma l r) -> hook_ok (IRdHooks c :: r) -> good2 r -> good2 (print_rest rep h c ++ r).
Proof.
  intros N [H1 _] G. cbn [rma nomicro] in H1. inst3 N.
  apply good2_expand; auto.
  destruct rep, h, c; cbn [print_rest check_seq app all_tails]; h2.
Qed.

Lemma g2_start r : (forall l, 0 <= rma l r) -> hook_ok (IStart :: r) -> good2 r -> good2 (start_rest ++ r).
Proof.
  intros N [H1 [H2 H3]] G. cbn [rma nomicro] in *. inst3 N.
  apply good2_expand; auto. cbn [start_rest check_seq app all_tails]. h2.
Qed.

Lemma g2_stop r : (forall l, 0 <= rma l r) -> hook_ok (IStop :: r) -> good2 r -> good2 (stop_rest ++ r).
Proof.
  intros N [H1 [H2 H3]] G. cbn [rma nomicro] in *. inst3 N.
  apply good2_expand; auto.
  cbn [stop_rest refresh_seq print_seq check_seq app all_tails]. h2.
Qed.

Lemma g2_tick r : (forall l, 0 <= rma l r) -> hook_ok (ILoop :: r) -> good2 r -> good2 (tick_seq ++ r).
Proof.
  intros N [H1 _] G. cbn [rma nomicro] in H1. inst3 N.
  apply good2_expand; auto. cbn [tick_seq app all_tails]. h2.
Qed.
Lemma g2_checkdone r : (forall l, 0 <= rma l r) -> hook_ok (ICheckDone :: r) -> good2 r -> good2 (refresh_seq ++ r).
Proof.
  intros N [H1 _] G. cbn [rma nomicro] in H1. inst3 N.
  apply good2_expand; auto. cbn [refresh_seq print_seq check_seq app all_tails]. h2.
Qed.
Lemma g2_stopa rt r : (forall l, 0 <= rma l r) -> hook_ok (IStopA rt :: r) -> good2 r -> good2 (stopa_rest rt ++ r).
Proof.
  intros N [H1 [H2 H3]] G. cbn [rma nomicro lock_eqb] in *. inst3 N.
  pose proof (good2_head _ G) as [Hr _].
  apply good2_expand; auto.
  cbn [stopa_rest refresh_seq print_seq check_seq app all_tails]. h2.
Qed.
Lemma g2_stopa_rel rt r : (forall l, 0 <= rma l r) -> hook_ok (IStopA rt :: r) -> good2 r -> good2 (IRel LLive :: r).
Proof.
  intros N [H1 [H2 H3]] G. cbn [rma nomicro lock_eqb] in *. inst3 N.
  change (IRel LLive :: r) with ([IRel LLive] ++ r). apply good2_expand; auto. cbn [app all_tails]. h2.
Qed.

Lemma nomicro_app a b : nomicro (a ++ b) = nomicro a && nomicro b.
Proof. induction a as [|x a IH]; cbn; auto. destruct x; auto. Qed.

Lemma nomicro_compile ops : nomicro (compile ops) = true.
Proof.
  induction ops as [|o r IH]; cbn [compile flat_map]; auto.
  change (flat_map compile_op r) with (compile r). rewrite nomicro_app, IH.
  destruct o; try reflexivity. destruct refresh; reflexivity.
Qed.

Lemma g2_compile ops : good2 (compile ops).
Proof.
  induction ops as [|o r IH]; cbn [compile flat_map].
  - intros s [pre H]. destruct pre; destruct s; cbn in H; try discriminate. h2.
  - change (flat_map compile_op r) with (compile r).
    pose proof (fun l => rma_compile l r) as Z0. inst3 Z0.
    pose proof (nomicro_compile r) as NM.
    pose proof (fun _ : rma LLive (compile r) = 0 => NM) as NM'.
    apply good2_expand; auto.
    destruct o; try destruct refresh;
      cbn [compile_op refresh_seq print_seq check_seq app all_tails]; h2.
Qed.

(* ---- dynamic part: what the owner of the live lock will still do to (_started, #hooks) *)
Fixpoint safe (p : list instr) (st : bool) (hk : nat) : bool :=
  match p with
  | [] => Nat.eqb hk (if st then 1 else 0)%nat
  | IPopHook :: r => (1 <=? hk)%nat && safe r st (pred hk)
  | IPushHook :: r => safe r st (S hk)
  | ISetStarted b :: r => safe r b hk
  | IStart :: _ | IStop :: _ | IStopA _ :: _ => Nat.eqb hk (if st then 1 else 0)%nat
  | _ :: r => safe r st hk
  end.

Lemma safe_nomicro p st hk : nomicro p = true -> safe p st hk = Nat.eqb hk (if st then 1 else 0)%nat.
Proof. induction p as [|x p IH]; cbn; auto. destruct x; auto; discriminate. Qed.

Definition HInv (st : state) : Prop :=
  match lkL (sh st) with
  | None => Nat.eqb (hooks (sh st)) (if started (sh st) then 1 else 0)%nat = true
  | Some (t, _) => safe (prog (th st t)) (started (sh st)) (hooks (sh st)) = true
  end.

Record Inv2 (st : state) : Prop := {
  j_inv : Inv st;
  j_good2 : forall t, good2 (prog (th st t));
  j_h : HInv st
}.

Definition is_micro (i : instr) : bool :=
  match i with IPopHook | IPushHook | ISetStarted _ => true | _ => false end.

Lemma exec_quiet rep t s ts i s' ts' :
  is_micro i = false -> exec rep t s ts i = Some (s', ts') ->
  started s' = started s /\ hooks s' = hooks s.
Proof.
  intros Hm He. destruct i; cbn [is_micro] in Hm; try discriminate Hm; cbn [exec] in He;
    try (destruct (acquire (getl s l) t); [|discriminate]);
    try (destruct (release (getl s l) t); [|discriminate]);
    repeat match type of He with (if ?c then _ else _) = _ => destruct c end;
    inversion He; subst; clear He;
    repeat match goal with |- context [if ?c then _ else _] => destruct c end;
    try (destruct l); split; reflexivity.
Qed.

Lemma nomicro_head i r : nomicro (i :: r) = true -> is_micro i = false /\ nomicro r = true.
Proof. destruct i; cbn; auto; discriminate. Qed.

Lemma held_zero_not_owner s l u t n : getl s l = Some (t, n) -> t <> u -> held s l u = 0.
Proof.
  unfold held, cnt. intros H Hn. rewrite H. destruct (Nat.eqb t u) eqn:E; auto.
  apply Nat.eqb_eq in E. congruence.
Qed.

Lemma step_inv2 rep st u st' : Inv2 st -> step rep st u = Some st' -> Inv2 st'.
Proof.
  intros [I G2 H] Hs. pose proof (step_inv _ _ _ _ I Hs) as I'.
  destruct I as [Ip Ic Ig]. unfold step in Hs.
  destruct (prog (th st u)) as [|i r] eqn:Ep; [discriminate|].
  destruct (exec rep u (sh st) (set_prog (th st u) r) i) as [[s' ts']|] eqn:Ee; [|discriminate].
  inversion Hs; subst; clear Hs.
  pose proof (G2 u) as Gu. rewrite Ep in Gu.
  pose proof (Ig u) as Igu. rewrite Ep in Igu.
  destruct (good_head _ Igu) as [Nn _]. pose proof (good_head _ (good_tail _ _ Igu)) as [Nr _].
  pose proof (good2_head _ Gu) as [Hz Hm]. pose proof (good2_tail _ _ Gu) as Gr.
  assert (G2' : forall t, good2 (prog (th (mkSt s' (upd (th st) u ts')) t))).
  { intros t. cbn [th]. unfold upd. destruct (Nat.eqb t u); [|apply G2].
    destruct (exec_prog_cases _ _ _ _ _ _ _ _ Ee)
      as [[E _]|[[Hi E]|[[c [h [Hi E]]]|[[Hi E]|[[Hi E]|[[Hi E]|[[Hi E]|[[rt [Hi E]]|[rt [Hi E]]]]]]]]]]; rewrite E; subst; auto.
    - apply g2_flush; auto. apply (good2_head _ Gu).
    - apply g2_print_rest; auto. apply (good2_head _ Gu).
    - apply g2_start; auto. apply (good2_head _ Gu).
    - apply g2_stop; auto. apply (good2_head _ Gu).
    - apply g2_tick; auto. apply (good2_head _ Gu).
    - apply g2_checkdone; auto. apply (good2_head _ Gu).
    - apply g2_stopa; auto. apply (good2_head _ Gu).
    - apply (g2_stopa_rel rt); auto. apply (good2_head _ Gu). }
  split; auto.
  pose proof (Ic u LLive) as Ku. rewrite Ep in Ku.
  assert (Wself : upd (th st) u ts' u = ts') by (unfold upd; rewrite Nat.eqb_refl; reflexivity).
  assert (Wother : forall t, t <> u -> upd (th st) u ts' t = th st t).
  { intros t Ht. unfold upd. destruct (Nat.eqb t u) eqn:E; auto. apply Nat.eqb_eq in E. congruence. }
  destruct I' as [Ip' Ic' _]. pose proof (Ic' u LLive) as Ku'. cbn [sh th] in Ku'. rewrite Wself in Ku'.
  unfold HInv in *. cbn [sh th].
  destruct (lkL (sh st)) as [[t n]|] eqn:EL.
  - (* the live lock is owned by t *)
    destruct (Nat.eqb t u) eqn:Etu.
    + apply Nat.eqb_eq in Etu. subst t. rewrite Ep in H.
      destruct i; cbn [exec] in Ee;
        try (inversion Ee; subst; clear Ee; cbn [lkL set_shape set_rend set_done set_fin started hooks prog set_prog set_depth set_pend set_buf set_olog];
             rewrite EL, Wself; cbn [prog set_prog set_depth set_pend set_buf set_olog]; exact H).
      * (* IAcq *) destruct (acquire (getl (sh st) l) u) as [v|] eqn:Ea; inversion Ee; subst; clear Ee.
        destruct l; cbn [setl lkL started hooks getl] in *.
        -- unfold acquire in Ea. rewrite EL, Nat.eqb_refl in Ea. inversion Ea; subst. rewrite Wself. exact H.
        -- rewrite EL, Wself. exact H.
        -- rewrite EL, Wself. exact H.
      * (* IRel *) destruct (release (getl (sh st) l) u) as [v|] eqn:Ea; inversion Ee; subst; clear Ee.
        destruct l; cbn [setl lkL started hooks getl] in *.
        -- unfold release in Ea. rewrite EL in Ea. destruct n as [|m]; [discriminate|].
           rewrite Nat.eqb_refl in Ea. inversion Ea; subst; clear Ea. destruct m as [|m].
           ++ (* fully released *) cbn [prog set_prog] in Ku'. unfold held, cnt in Ku'. cbn [getl setl lkL] in Ku'.
              pose proof (good2_head _ Gr) as [Hz' _]. cbn [safe] in H.
              rewrite (safe_nomicro _ _ _ (Hz' (eq_sym Ku'))) in H. exact H.
           ++ rewrite Wself. exact H.
        -- rewrite EL, Wself. exact H.
        -- rewrite EL, Wself. exact H.
      * (* ITest *) inversion Ee; subst; clear Ee. cbn [lkL started hooks]. rewrite EL, Wself.
        cbn [depth set_prog]. destruct (depth (th st u) =? 0); cbn [prog set_prog flush_seq app safe]; exact H.
      * (* IRecord *) destruct (is_nil (buf (set_prog (th st u) r))); inversion Ee; subst; clear Ee;
          cbn [lkL set_record started hooks]; rewrite EL, Wself; exact H.
      * (* IWrite *) destruct (is_nil (buf (set_prog (th st u) r))); inversion Ee; subst; clear Ee;
          cbn [lkL set_file started hooks]; rewrite EL, Wself; exact H.
      * (* IRdHooks *) inversion Ee; subst; clear Ee. cbn [lkL started hooks]. rewrite EL, Wself.
        cbn [prog set_prog].
        match goal with |- context [print_rest ?a ?b ?c ++ r] => destruct a, b, c end;
          cbn [print_rest check_seq app safe]; exact H.
      * (* IEndCap *) destruct (is_nil (buf (set_prog (th st u) r))); inversion Ee; subst; clear Ee;
          cbn [lkL set_record started hooks]; rewrite EL, Wself; exact H.
      * (* IStart *) inversion Ee; subst; clear Ee. cbn [lkL started hooks]. rewrite EL, Wself.
        destruct Hm as [_ Nm]. cbn [safe] in H.
        destruct (started (sh st)) eqn:Es; cbn [prog set_prog].
        -- rewrite (safe_nomicro _ _ _ Nm). exact H.
        -- cbn [start_rest check_seq app safe]. rewrite (safe_nomicro _ _ _ Nm). apply Nat.eqb_eq in H. rewrite H. reflexivity.
      * (* IStop *) inversion Ee; subst; clear Ee. cbn [lkL started hooks]. rewrite EL, Wself.
        destruct Hm as [_ Nm]. cbn [safe] in H.
        destruct (started (sh st)) eqn:Es; cbn [prog set_prog].
        -- cbn [stop_rest refresh_seq print_seq check_seq app safe]. rewrite (safe_nomicro _ _ _ Nm).
           apply Nat.eqb_eq in H. rewrite H. reflexivity.
        -- rewrite (safe_nomicro _ _ _ Nm). exact H.
      * (* ISetStarted *) inversion Ee; subst; clear Ee. cbn [lkL set_started started hooks]. rewrite EL, Wself. exact H.
      * (* IPushHook *) inversion Ee; subst; clear Ee. cbn [lkL set_hooks started hooks]. rewrite EL, Wself. exact H.
      * (* IPopHook *) cbn [safe] in H. destruct (hooks (sh st)) as [|k] eqn:Eh; [discriminate|].
        inversion Ee; subst; clear Ee. cbn [lkL set_hooks started hooks]. rewrite EL, Wself.
        apply andb_prop in H. apply H.
      * (* IJoin *) match type of Ee with context [existsb ?f ?l] => destruct (existsb f l) end; inversion Ee; subst; clear Ee.
        cbn [lkL started hooks]. rewrite EL, Wself. exact H.
      * (* ILoop *) destruct (done (sh st)); inversion Ee; subst; clear Ee;
          cbn [lkL set_fin started hooks]; rewrite EL, Wself; cbn [prog set_prog tick_seq app safe]; exact H.
      * (* ICheckDone *) inversion Ee; subst; clear Ee. cbn [lkL started hooks]. rewrite EL, Wself.
        destruct (done (sh st)); cbn [prog set_prog refresh_seq print_seq check_seq app safe]; exact H.
      * (* IStopA *) inversion Ee; subst; clear Ee. cbn [lkL started hooks]. rewrite EL, Wself.
        destruct Hm as [_ Nm]. cbn [safe] in H.
        destruct (started (sh st)) eqn:Es; cbn [prog set_prog app].
        -- cbn [stopa_rest refresh_seq print_seq check_seq app safe]. rewrite (safe_nomicro _ _ _ Nm).
           apply Nat.eqb_eq in H. rewrite H. reflexivity.
        -- cbn [safe]. rewrite (safe_nomicro _ _ _ Nm). exact H.
    + (* another thread steps while t owns the live lock *)
      assert (Htu : t <> u) by (intro; subst; rewrite Nat.eqb_refl in Etu; discriminate).
      assert (Z0 : rma LLive (i :: r) = 0).
      { rewrite <- Ku. apply (held_zero_not_owner (sh st) LLive u t n); auto. }
      destruct (nomicro_head _ _ (Hz Z0)) as [Mi Mr].
      destruct (is_lock_op i) eqn:El.
      * destruct i; try discriminate El; cbn [exec] in Ee.
        -- destruct (acquire (getl (sh st) l) u) as [v|] eqn:Ea; inversion Ee; subst; clear Ee.
           destruct l; cbn [setl lkL started hooks getl] in *; try (rewrite EL, (Wother t Htu); exact H).
           unfold acquire in Ea. rewrite EL, Etu in Ea. discriminate.
        -- destruct (release (getl (sh st) l) u) as [v|] eqn:Ea; inversion Ee; subst; clear Ee.
           destruct l; cbn [setl lkL started hooks getl] in *; try (rewrite EL, (Wother t Htu); exact H).
           unfold release in Ea. rewrite EL in Ea. destruct n; [discriminate|]. rewrite Etu in Ea. discriminate.
      * pose proof (exec_nonlock_getl _ _ _ _ _ _ _ LLive El Ee) as GL. cbn [getl] in GL.
        destruct (exec_quiet _ _ _ _ _ _ _ Mi Ee) as [E1 E2]. rewrite GL, EL, E1, E2, (Wother t Htu). exact H.
  - (* the live lock is free *)
    assert (Z0 : rma LLive (i :: r) = 0).
    { rewrite <- Ku. unfold held, cnt. cbn [getl]. rewrite EL. reflexivity. }
    destruct (nomicro_head _ _ (Hz Z0)) as [Mi Mr].
    destruct (is_lock_op i) eqn:El.
    + destruct i; try discriminate El; cbn [exec] in Ee.
      * destruct (acquire (getl (sh st) l) u) as [v|] eqn:Ea; inversion Ee; subst; clear Ee.
        destruct l; cbn [setl lkL started hooks getl] in *; try (rewrite EL; exact H).
        unfold acquire in Ea. rewrite EL in Ea. inversion Ea; subst. rewrite Wself. cbn [prog set_prog].
        rewrite (safe_nomicro _ _ _ Mr). exact H.
      * destruct (release (getl (sh st) l) u) as [v|] eqn:Ea; inversion Ee; subst; clear Ee.
        destruct l; cbn [setl lkL started hooks getl] in *; try (rewrite EL; exact H).
        unfold release in Ea. rewrite EL in Ea. discriminate.
    + pose proof (exec_nonlock_getl _ _ _ _ _ _ _ LLive El Ee) as GL. cbn [getl] in GL.
      destruct (exec_quiet _ _ _ _ _ _ _ Mi Ee) as [E1 E2]. rewrite GL, EL, E1, E2. exact H.
Qed.

Lemma init_inv2 live sh0 r0 progs : Inv2 (init_state live sh0 r0 progs).
Proof.
  split.
  - apply init_inv.
  - intros t. cbn. apply g2_compile.
  - unfold HInv. cbn. destruct live; reflexivity.
Qed.

Lemma run_inv2 rep sched : forall st, Inv2 st -> Inv2 (run rep sched st).
Proof.
  induction sched as [|t r IH]; intros st I; cbn [run]; auto.
  destruct (step rep st t) eqn:E; auto. apply IH. eapply step_inv2; eauto.
Qed.

(* a thread about to pop the hook list finds it non-empty *)
Theorem pop_render_hook_safe st t r :
  Inv2 st -> prog (th st t) = IPopHook :: r -> (1 <= hooks (sh st))%nat.
Proof.
  intros [[Ip Ic Ig] G2 H] Hp.
  pose proof (G2 t) as Gt. rewrite Hp in Gt. destruct (good2_head _ Gt) as [Hz _].
  pose proof (Ig t) as Igt. rewrite Hp in Igt. destruct (good_head _ Igt) as [Nn _].
  pose proof (Ic t LLive) as K. rewrite Hp in K.
  assert (1 <= held (sh st) LLive t).
  { rewrite K. specialize (Nn LLive). destruct (Z.eq_dec (rma LLive (IPopHook :: r)) 0) as [E|E]; [|lia].
    specialize (Hz E). discriminate Hz. }
  destruct (held_owner _ _ _ Ip H0) as [n Hn]. cbn [getl] in Hn.
  unfold HInv in H. rewrite Hn, Hp in H. cbn [safe] in H. apply andb_prop in H. destruct H as [H _].
  apply Nat.leb_le in H. exact H.
Qed.

(* whenever the live lock is free: exactly one hook while started, none otherwise -- in particular
   concurrent start() calls push exactly one hook (check-then-act inside one critical section) *)
Theorem hooks_match_started rep live sh0 r0 progs sched :
  let st := run rep sched (init_state live sh0 r0 progs) in
  lkL (sh st) = None -> hooks (sh st) = (if started (sh st) then 1 else 0)%nat.
Proof.
  intros st HL. destruct (run_inv2 rep sched _ (init_inv2 live sh0 r0 progs)) as [_ _ H].
  fold st in H. unfold HInv in H. rewrite HL in H. apply Nat.eqb_eq in H. exact H.
Qed.
