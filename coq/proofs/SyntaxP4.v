(* C17 lemmas, part 4: the failing line of a traceback frame is displayed, alone carries the
   pointer, under its own number. *)
From RichModel Require Import Prelude Cells Segments Syntax SpecSyntax.
From RichProofs Require Import CellsP SegmentsP SyntaxP SyntaxP2 SyntaxW SyntaxG SyntaxP3.
From Coq Require Import ZifyBool Lia.

Lemma pointer_neq : str_eqb [SP; SP] POINTER = false.
Proof. reflexivity. Qed.

Section Marked.
Variable wrapf : str -> Z -> bool -> list str.
Variable o : opts.
Variable M cw n : Z.
Hypothesis HM : 0 <= M.
Hypothesis Hww : o_word_wrap o = false.
Hypothesis Hhl : o_highlight o = [n].
Let ncw := zlen (show_Z M) + 2.
Let gw := zlen (show_Z M) + 3.
Let marked := fun l : str => str_eqb (firstn 2 (gut gw l)) POINTER.
Let pad := negb (o_transparent o).

Lemma marked_filter : forall lines k,
  0 <= k -> (lines <> [] -> k + zlen lines - 1 <= M) ->
  filter marked (render_numbered wrapf o ncw cw lines k) =
  if (k <=? n) then
    match nth_error lines (Z.to_nat (n - k)) with
    | Some l => [gutter o ncw n ++ crop_line l cw pad]
    | None => []
    end
  else [].
Proof.
  unfold marked, pad, ncw, gw.
  induction lines as [|l lines IH]; intros k Hk Hb.
  - cbn [render_numbered filter]. destruct (k <=? n); [|reflexivity]. destruct (Z.to_nat (n - k)); reflexivity.
  - specialize (Hb ltac:(discriminate)).
    assert (Hz : zlen (l :: lines) = zlen lines + 1) by (unfold zlen; simpl length; lia).
    pose proof (zlen_nonneg lines) as Hzn.
    assert (HkM : 0 <= k <= M) by lia.
    cbn [render_numbered]. unfold wrapped_lines at 1. rewrite Hww. cbn [app filter].
    rewrite (gut_of_prefix M) by (apply gutter_len; assumption).
    destruct (gutter_fields o M k HkM) as [_ Hmark]. rewrite Hmark.
    unfold mark_field, mem_Z. rewrite Hhl. cbn [existsb]. rewrite orb_false_r.
    cbn [map app]. rewrite IH by lia.
    destruct (k =? n) eqn:E.
    + assert (k = n) by lia. subst k. rewrite str_eqb_refl.
      replace (n <=? n) with true by lia. replace (n + 1 <=? n) with false by lia.
      rewrite Z.sub_diag. reflexivity.
    + rewrite pointer_neq. destruct (k <=? n) eqn:E2.
      * replace (k + 1 <=? n) with true by lia.
        replace (Z.to_nat (n - k)) with (S (Z.to_nat (n - (k + 1)))) by lia. reflexivity.
      * replace (k + 1 <=? n) with false by lia. reflexivity.
Qed.
End Marked.

Lemma nth_error_skipn {A} (l : list A) a i : nth_error (skipn a l) i = nth_error l (a + i).
Proof.
  revert l. induction a as [|a IH]; intros l; [reflexivity|]. destruct l as [|x l]; [destruct i; reflexivity|].
  cbn [skipn Nat.add nth_error]. apply IH.
Qed.
Lemma nth_error_firstn {A} (l : list A) E i : (i < E)%nat -> nth_error (firstn E l) i = nth_error l i.
Proof.
  revert l i. induction E as [|E IH]; intros l i H; [lia|]. destruct l as [|x l]; [destruct i; reflexivity|].
  destruct i as [|i]; [reflexivity|]. cbn [firstn nth_error]. apply IH. lia.
Qed.

(* a non-blank expected line is never among the omitted trailing blank lines *)
Lemma pfx_blank_nth shown exp i e :
  pfx_blank shown exp -> nth_error exp i = Some e -> blank e = false -> nth_error shown i = Some e.
Proof.
  intros [rest [-> Hr]] Hn Hb. destruct (Nat.lt_ge_cases i (length shown)) as [Hlt|Hge].
  - rewrite nth_error_app1 in Hn by exact Hlt. exact Hn.
  - rewrite nth_error_app2 in Hn by exact Hge. apply nth_error_In in Hn.
    rewrite forallb_forall in Hr. rewrite (Hr e Hn) in Hb. discriminate.
Qed.

Lemma Forall2_nth {A B} (R : A -> B -> Prop) la lb i a :
  Forall2 R la lb -> nth_error la i = Some a -> exists b, nth_error lb i = Some b /\ R a b.
Proof.
  intros HF. revert i. induction HF as [|x y la lb Hxy HF IH]; intros i Hn; [destruct i; discriminate|].
  destruct i as [|i]; [inversion Hn; subst; exists y; split; [reflexivity|exact Hxy]|]. apply IH. exact Hn.
Qed.

Theorem traceback_marks_failing_line lex wrapf found code lineno extra transparent guides W avail e :
  LexOk (f_lex fixed_facts) lex ->
  clean code = true -> 0 <= extra -> 1 <= lineno ->
  SyntaxFacts.tb_line_numbers = true -> SyntaxFacts.tb_range_is_lineno_pm_extra = true ->
  SyntaxFacts.tb_highlight_is_lineno = true -> 0 <= SyntaxFacts.tb_code_width ->
  SyntaxFacts.syntax_default_start_line = 1 -> 1 <= SyntaxFacts.syntax_default_tab_size ->
  let o := tb_opts_f found lineno extra false transparent guides in
  nth_error (source_lines o code) (Z.to_nat (lineno - 1)) = Some e -> blank e = false ->
  SyntaxFacts.tb_code_width + spec_gutter_width o code <= avail ->
  exists out, render_frame_f lex fixed_facts wrapf found code lineno extra false transparent guides W = Ok out /\
              failing_line_b code lineno avail guides out = true.
Proof.
  intros HLex Hc He Hl F1 F2 F3 F4 F5 F6 o Hnth Hnb Hav. unfold render_frame_f. fold o.
  assert (Hhl : o_highlight o = [lineno]) by (unfold o, tb_opts_f; cbn [o_highlight]; rewrite F3; reflexivity).
  assert (Hr : o_range o = Some (lineno - extra, lineno + extra)) by (unfold o, tb_opts_f; cbn [o_range]; rewrite F2; reflexivity).
  assert (Hln : o_line_numbers o = true) by exact F1.
  assert (Hst : o_start_line o = 1) by exact F5.
  assert (Hre : range_end_nonneg o) by (unfold range_end_nonneg; rewrite Hr; lia).
  assert (Hg : o_indent_guides o = guides) by reflexivity.
  assert (Hts : o_indent_guides o = true -> 1 <= o_tab_size o) by (intros _; exact F6).
  destruct (render_numbered_form lex wrapf HLex o code W Hc Hln Hre Hts) as [shown [Hren [Hp Hb]]].
  rewrite Hren. eexists. split; [reflexivity|].
  set (M := o_start_line o + count_nl code).
  assert (HM : 0 <= M) by (unfold M; rewrite Hst, count_nl_nls; lia).
  assert (Hncw : numbers_column_width o code = zlen (show_Z M) + 2) by (unfold numbers_column_width; rewrite Hln; reflexivity).
  assert (Hgw : spec_gutter_width o code = zlen (show_Z M) + 3) by (unfold spec_gutter_width; rewrite Hln; reflexivity).
  assert (Hcw : code_width_of o code W = SyntaxFacts.tb_code_width) by reflexivity.
  set (off := line_offset_of o) in *.
  assert (Hoff : off = Z.max 0 (lineno - extra - 1)) by (unfold off, line_offset_of; rewrite Hr; reflexivity).
  assert (Hk0 : first_number o = 1 + off) by (unfold first_number; rewrite Hst; reflexivity).
  set (i := Z.to_nat (lineno - 1 - off)).
  (* the failing line is the i-th selected line *)
  assert (Hsh : nth_error shown i = Some e).
  { apply (pfx_blank_nth _ _ _ _ Hp); [|exact Hnb]. unfold range_clip. rewrite Hr.
    fold off in Hoff. replace (Z.max 0 (lineno - extra - 1)) with off by lia.
    rewrite nth_error_skipn, nth_error_firstn by (unfold i; lia).
    replace (Z.to_nat off + i)%nat with (Z.to_nat (lineno - 1)) by (unfold i; lia). exact Hnth. }
  assert (Hne : shown <> []) by (intros ->; destruct i; discriminate).
  specialize (Hb Hne).
  (* ... and the i-th numbered line shows it *)
  assert (Hline : exists g, nth_error (numbered_lines o shown) i = Some g /\
                            (length (numbered_lines o shown) <= length shown)%nat /\
                            (if guides then guide_rel e g else g = e)).
  { unfold numbered_lines. rewrite Hg. destruct guides; cbn [andb].
    - destruct shown as [|l0 ls0] eqn:Esh; [congruence|]. rewrite <- Esh in *.
      destruct (with_guides_rel (o_tab_size o) shown (Hts eq_refl) Hne) as [S1 [r1 [HS [Hr1 HF]]]].
      assert (HS1 : nth_error S1 i = Some e).
      { apply (pfx_blank_nth S1 shown i e); [exists r1; split; assumption|exact Hsh|exact Hnb]. }
      destruct (Forall2_nth _ _ _ _ _ HF HS1) as [g [Hg1 Hg2]].
      exists g. split; [exact Hg1|]. split; [|exact Hg2].
      apply Forall2_len in HF. rewrite <- HF, HS, app_length. lia.
    - exists e. split; [exact Hsh|]. split; [lia|reflexivity]. }
  destruct Hline as [g [Hgn [Hglen Hgrel]]].
  unfold failing_line_b.
  assert (Hsrc : source_lines (tb_opts lineno 0 false true false) code = source_lines o code) by reflexivity.
  assert (Hgw0 : spec_gutter_width (tb_opts lineno 0 false true false) code = spec_gutter_width o code) by reflexivity.
  rewrite Hsrc, Hgw0, Hnth, Hgw, Hncw, Hcw, Hk0.
  assert (Hi : (i < length (numbered_lines o shown))%nat) by (apply nth_error_Some; rewrite Hgn; discriminate).
  rewrite (marked_filter wrapf o M SyntaxFacts.tb_code_width lineno eq_refl Hhl (numbered_lines o shown) (1 + off)).
  2: lia.
  2:{ intros _. unfold M. rewrite Hst. unfold zlen in *. lia. }
  replace (1 + off <=? lineno) with true by lia.
  replace (Z.to_nat (lineno - (1 + off))) with i by (unfold i; lia).
  rewrite Hgn.
  assert (HlM : 0 <= lineno <= M).
  { unfold M. rewrite Hst. unfold zlen in Hb. unfold i in Hi. lia. }
  rewrite (gut_of_prefix M) by (apply gutter_len; assumption).
  rewrite (body_of_prefix M) by (apply gutter_len; assumption).
  destruct (gutter_fields o M lineno HlM) as [Hnum _]. rewrite Hnum, str_eqb_refl.
  replace (1 <=? lineno) with true by lia. cbn [andb].
  rewrite Hgw in Hav. rewrite Z.min_l by lia.
  destruct guides.
  - apply guided_crop_ok; assumption.
  - subst g. apply crop_line_ok. exact F4.
Qed.
