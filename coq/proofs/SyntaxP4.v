(* C17 lemmas, part 4: the failing line of a traceback frame is displayed, alone carries the
   pointer, under its own number. *)
From RichModel Require Import Prelude Cells Segments Syntax SpecSyntax.
From RichProofs Require Import CellsP SegmentsP SyntaxP SyntaxP2 SyntaxP3.
From Coq Require Import ZifyBool Lia.

(* the explicit form of a numbered rendering without indent guides *)
Lemma render_numbered_form lex wrapf o code W :
  LexOk (f_lex fixed_facts) lex ->
  clean code = true -> o_line_numbers o = true -> o_indent_guides o = false -> range_end_nonneg o ->
  exists shown,
    render lex fixed_facts wrapf o code W =
      Ok (render_numbered wrapf o (numbers_column_width o code) (code_width_of o code W) shown (first_number o)) /\
    pfx_blank shown (range_clip o (source_lines o code)) /\
    (shown <> [] -> line_offset_of o + zlen shown <= count_nl code + 1).
Proof.
  intros HLex Hclean Hln Hg Hre.
  unfold render, source_lines. set (c := expandtabs (o_tab_size o) code).
  assert (Hc : clean c = true) by (apply clean_expandtabs_go; exact Hclean).
  destruct (highlight_text lex (o_lexer_found o) c (o_range o) HLex Hc) as [t [Ht Hshape]].
  rewrite Ht. cbn [bind]. rewrite Hln, Hg. cbn [negb andb].
  eexists. split; [reflexivity|].
  pose proof (shown_lines_ok o t c Hre Hshape) as Hp. split; [exact Hp|].
  intros Hne. pose proof (range_clip_bound o (split_nl c) _ Hp Hne) as Hb.
  unfold zlen in Hb at 2. rewrite split_nl_length in Hb.
  assert (Hnls : nls c = nls code) by apply nls_expandtabs_go.
  rewrite count_nl_nls. lia.
Qed.

Lemma pointer_neq : str_eqb [SP; SP] POINTER = false.
Proof. reflexivity. Qed.

Section Marked.
Variable wrapf : str -> Z -> bool -> list str.
Variable o : opts.
Variable M cw n : Z.
Hypothesis HM : 0 <= M.
Hypothesis Hww : o_word_wrap o = false.
Hypothesis Hhl : o_highlight o = [n].
Let ncw := zlen (show_Z M) + 2.
Let gw := zlen (show_Z M) + 3.
Let marked := fun l : str => str_eqb (firstn 2 (gut gw l)) POINTER.
Let pad := negb (o_transparent o).

Lemma marked_filter : forall lines k,
  0 <= k -> (lines <> [] -> k + zlen lines - 1 <= M) ->
  filter marked (render_numbered wrapf o ncw cw lines k) =
  if (k <=? n) then
    match nth_error lines (Z.to_nat (n - k)) with
    | Some l => [gutter o ncw n ++ crop_line l cw pad]
    | None => []
    end
  else [].
Proof.
  unfold marked, pad, ncw, gw.
  induction lines as [|l lines IH]; intros k Hk Hb.
  - cbn [render_numbered filter]. destruct (k <=? n); [|reflexivity]. destruct (Z.to_nat (n - k)); reflexivity.
  - specialize (Hb ltac:(discriminate)).
    assert (Hz : zlen (l :: lines) = zlen lines + 1) by (unfold zlen; simpl length; lia).
    pose proof (zlen_nonneg lines) as Hzn.
    assert (HkM : 0 <= k <= M) by lia.
    cbn [render_numbered]. unfold wrapped_lines at 1. rewrite Hww. cbn [app filter].
    rewrite (gut_of_prefix M) by (apply gutter_len; assumption).
    destruct (gutter_fields o M k HkM) as [_ Hmark]. rewrite Hmark.
    unfold mark_field, mem_Z. rewrite Hhl. cbn [existsb]. rewrite orb_false_r.
    cbn [map app]. rewrite IH by lia.
    destruct (k =? n) eqn:E.
    + assert (k = n) by lia. subst k. rewrite str_eqb_refl.
      replace (n <=? n) with true by lia. replace (n + 1 <=? n) with false by lia.
      rewrite Z.sub_diag. reflexivity.
    + rewrite pointer_neq. destruct (k <=? n) eqn:E2.
      * replace (k + 1 <=? n) with true by lia.
        replace (Z.to_nat (n - k)) with (S (Z.to_nat (n - (k + 1)))) by lia. reflexivity.
      * replace (k + 1 <=? n) with false by lia. reflexivity.
Qed.
End Marked.

Lemma nth_error_skipn {A} (l : list A) a i : nth_error (skipn a l) i = nth_error l (a + i).
Proof.
  revert l. induction a as [|a IH]; intros l; [reflexivity|]. destruct l as [|x l]; [destruct i; reflexivity|].
  cbn [skipn Nat.add nth_error]. apply IH.
Qed.
Lemma nth_error_firstn {A} (l : list A) E i : (i < E)%nat -> nth_error (firstn E l) i = nth_error l i.
Proof.
  revert l i. induction E as [|E IH]; intros l i H; [lia|]. destruct l as [|x l]; [destruct i; reflexivity|].
  destruct i as [|i]; [reflexivity|]. cbn [firstn nth_error]. apply IH. lia.
Qed.

(* a non-blank expected line is never among the omitted trailing blank lines *)
Lemma pfx_blank_nth shown exp i e :
  pfx_blank shown exp -> nth_error exp i = Some e -> blank e = false -> nth_error shown i = Some e.
Proof.
  intros [rest [-> Hr]] Hn Hb. destruct (Nat.lt_ge_cases i (length shown)) as [Hlt|Hge].
  - rewrite nth_error_app1 in Hn by exact Hlt. exact Hn.
  - rewrite nth_error_app2 in Hn by exact Hge. apply nth_error_In in Hn.
    rewrite forallb_forall in Hr. rewrite (Hr e Hn) in Hb. discriminate.
Qed.

Theorem traceback_marks_failing_line lex wrapf code lineno extra transparent W avail e :
  LexOk (f_lex fixed_facts) lex ->
  clean code = true -> 0 <= extra -> 1 <= lineno ->
  SyntaxFacts.tb_line_numbers = true -> SyntaxFacts.tb_range_is_lineno_pm_extra = true ->
  SyntaxFacts.tb_highlight_is_lineno = true -> 0 <= SyntaxFacts.tb_code_width ->
  SyntaxFacts.syntax_default_start_line = 1 ->
  let o := tb_opts lineno extra false transparent false in
  nth_error (source_lines o code) (Z.to_nat (lineno - 1)) = Some e -> blank e = false ->
  SyntaxFacts.tb_code_width + spec_gutter_width o code <= avail ->
  exists out, render_frame lex fixed_facts wrapf code lineno extra false transparent false W = Ok out /\
              failing_line_b code lineno avail false out = true.
Proof.
  intros HLex Hc He Hl F1 F2 F3 F4 F5 o Hnth Hnb Hav. unfold render_frame. fold o.
  assert (Hhl : o_highlight o = [lineno]) by (unfold o, tb_opts; cbn [o_highlight]; rewrite F3; reflexivity).
  assert (Hr : o_range o = Some (lineno - extra, lineno + extra)) by (unfold o, tb_opts; cbn [o_range]; rewrite F2; reflexivity).
  assert (Hln : o_line_numbers o = true) by exact F1.
  assert (Hst : o_start_line o = 1) by exact F5.
  assert (Hre : range_end_nonneg o) by (unfold range_end_nonneg; rewrite Hr; lia).
  destruct (render_numbered_form lex wrapf o code W HLex Hc Hln eq_refl Hre) as [shown [Hren [Hp Hb]]].
  rewrite Hren. eexists. split; [reflexivity|].
  set (M := o_start_line o + count_nl code).
  assert (HM : 0 <= M) by (unfold M; rewrite Hst, count_nl_nls; lia).
  assert (Hncw : numbers_column_width o code = zlen (show_Z M) + 2) by (unfold numbers_column_width; rewrite Hln; reflexivity).
  assert (Hgw : spec_gutter_width o code = zlen (show_Z M) + 3) by (unfold spec_gutter_width; rewrite Hln; reflexivity).
  assert (Hcw : code_width_of o code W = SyntaxFacts.tb_code_width) by reflexivity.
  set (off := line_offset_of o) in *.
  assert (Hoff : off = Z.max 0 (lineno - extra - 1)) by (unfold off, line_offset_of; rewrite Hr; reflexivity).
  assert (Hk0 : first_number o = 1 + off) by (unfold first_number; rewrite Hst; reflexivity).
  (* the failing line is the (lineno-1-off)-th displayed line *)
  assert (Hsh : nth_error shown (Z.to_nat (lineno - 1 - off)) = Some e).
  { apply (pfx_blank_nth _ _ _ _ Hp); [|exact Hnb]. unfold range_clip. rewrite Hr.
    fold off in Hoff. replace (Z.max 0 (lineno - extra - 1)) with off by lia.
    rewrite nth_error_skipn, nth_error_firstn by lia.
    replace (Z.to_nat off + Z.to_nat (lineno - 1 - off))%nat with (Z.to_nat (lineno - 1)) by lia. exact Hnth. }
  assert (Hne : shown <> []) by (intros ->; destruct (Z.to_nat (lineno - 1 - off)); discriminate).
  specialize (Hb Hne).
  unfold failing_line_b.
  assert (Hsrc : source_lines (tb_opts lineno 0 false true false) code = source_lines o code) by reflexivity.
  assert (Hgw0 : spec_gutter_width (tb_opts lineno 0 false true false) code = spec_gutter_width o code) by reflexivity.
  rewrite Hsrc, Hgw0, Hnth, Hgw, Hncw, Hcw, Hk0.
  rewrite (marked_filter wrapf o M SyntaxFacts.tb_code_width lineno eq_refl Hhl shown (1 + off)).
  2: lia.
  2:{ intros _. unfold M. rewrite Hst. lia. }
  replace (1 + off <=? lineno) with true by lia.
  replace (Z.to_nat (lineno - (1 + off))) with (Z.to_nat (lineno - 1 - off)) by lia.
  rewrite Hsh.
  assert (HlM : 0 <= lineno <= M).
  { assert (Hlt : (Z.to_nat (lineno - 1 - off) < length shown)%nat) by (apply nth_error_Some; rewrite Hsh; discriminate).
    unfold M. rewrite Hst. unfold zlen in Hb. lia. }
  rewrite (gut_of_prefix M) by (apply gutter_len; assumption).
  rewrite (body_of_prefix M) by (apply gutter_len; assumption).
  destruct (gutter_fields o M lineno HlM) as [Hnum _]. rewrite Hnum, str_eqb_refl.
  replace (1 <=? lineno) with true by lia. cbn [andb].
  rewrite Hgw in Hav. rewrite Z.min_l by lia.
  apply crop_line_ok. exact F4.
Qed.
