(* C15 proofs, part 6: the abstract style oracles of Record.v instantiated with the real models of
   Style.render (b-C06/C03: RichModel.Style) and AnsiDecoder (C19: RichModel.AnsiDecode).
   A token s stands for the style  sty_of s ; lid is the (canonical) link id. *)
From RichModel Require Import Prelude Cells Segments Wire Record SpecRecord.
From RichModel Require Color Style SpecAnsi TermSgr AnsiDecode SpecDecode.
From RichProofs Require Import RecordP RecordP2 RecordP3.
From RichProofs Require TermSgrP AnsiP AnsiDecodeP4 AnsiDecodeP5 AnsiDecodeP7.
From Coq Require Import ZifyBool.

(* ------------------------------------------------------------------ scanner over parameter / OSC bytes *)
Lemma vrun_csi_params a : forall rest,
  forallb TermSgrP.pchar a = true -> vrun VCsi (a ++ 109 :: rest) = vrun VGround rest.
Proof.
  induction a as [|c a IH]; intros rest H.
  - cbn [app]. erewrite vrun_cons_silent by reflexivity. reflexivity.
  - cbn [forallb] in H. apply andb_true_iff in H. destruct H as [Hc Ha]. cbn [app].
    rewrite (vrun_cons_silent VCsi c VCsi).
    + exact (IH rest Ha).
    + unfold TermSgrP.pchar, TermSgr.is_digit, TermSgr.between in Hc. unfold vstep.
      replace (c =? 27) with false by lia. replace ((64 <=? c) && (c <=? 126)) with false by lia. reflexivity.
Qed.

Definition osc_ok (c : Z) : bool := negb (c =? 27) && negb (c =? 7).

Lemma vrun_osc_body b : forall rest, forallb osc_ok b = true -> vrun VOsc (b ++ rest) = vrun VOsc rest.
Proof.
  induction b as [|c b IH]; intros rest H; [reflexivity|].
  cbn [forallb] in H. apply andb_true_iff in H. destruct H as [Hc Hb]. cbn [app].
  rewrite (vrun_cons_silent VOsc c VOsc); [exact (IH rest Hb)|].
  unfold osc_ok in Hc. unfold vstep. replace (c =? 7) with false by lia. replace (c =? 27) with false by lia.
  reflexivity.
Qed.

Lemma osc_safe_ok l : forallb SpecAnsi.osc_safe_char l = true -> forallb osc_ok l = true.
Proof.
  induction l as [|c l IH]; [reflexivity|]. cbn [forallb]. intros H. apply andb_true_iff in H. destruct H as [H1 H2].
  rewrite (IH H2), andb_true_r. unfold SpecAnsi.osc_safe_char in H1. unfold osc_ok. lia.
Qed.

Lemma lid_safe_ok l : SpecAnsi.lid_ok l = true -> forallb osc_ok l = true.
Proof.
  unfold SpecAnsi.lid_ok. induction l as [|c l IH]; [reflexivity|]. cbn [forallb]. intros H.
  apply andb_true_iff in H. destruct H as [H1 H2]. rewrite (IH H2), andb_true_r.
  apply andb_true_iff in H1. destruct H1 as [H1 _]. unfold SpecAnsi.osc_safe_char in H1. unfold osc_ok. lia.
Qed.

Lemma vrun_sgr_wrap attrs t o : forallb TermSgrP.pchar attrs = true ->
  vrun VGround t = (VGround, o) -> vrun VGround (Style.sgr_wrap attrs t) = (VGround, o).
Proof.
  intros Ha Ht. unfold Style.sgr_wrap. destruct attrs as [|a0 attrs']; [exact Ht|].
  set (attrs := a0 :: attrs') in *.
  change ([Style.ESC; 91] ++ attrs ++ [109] ++ t ++ [Style.ESC; 91; 48; 109])
    with (27 :: 91 :: (attrs ++ 109 :: (t ++ [27; 91; 48; 109]))).
  erewrite !vrun_cons_silent by reflexivity. rewrite (vrun_csi_params attrs _ Ha).
  rewrite (vrun_ground_app t [27; 91; 48; 109] o [] VGround Ht eq_refl). rewrite app_nil_r. reflexivity.
Qed.

Lemma vrun_link_wrap lid link r o : forallb osc_ok lid = true -> forallb osc_ok link = true ->
  vrun VGround r = (VGround, o) -> vrun VGround (Style.link_wrap lid link r) = (VGround, o).
Proof.
  intros Hl Hk Hr. unfold Style.link_wrap.
  assert (E : [Style.ESC; 93; 56; 59; 105; 100; 61] ++ lid ++ [59] ++ link ++ [Style.ESC; 92]
              ++ r ++ [Style.ESC; 93; 56; 59; 59; Style.ESC; 92]
              = 27 :: 93 :: (([56; 59; 105; 100; 61] ++ lid ++ [59] ++ link)
                             ++ 27 :: 92 :: (r ++ [27; 93; 56; 59; 59; 27; 92]))).
  { unfold Style.ESC. cbn [app]. rewrite <- app_assoc. cbn [app]. reflexivity. }
  rewrite E.
  erewrite !vrun_cons_silent by reflexivity.
  rewrite vrun_osc_body.
  2: { rewrite !forallb_app, Hl, Hk. reflexivity. }
  erewrite !vrun_cons_silent by reflexivity.
  rewrite (vrun_ground_app r [27; 93; 56; 59; 59; 27; 92] o [] VGround Hr eq_refl). rewrite app_nil_r. reflexivity.
Qed.

Section Real.
Variable sty_of : Z -> Style.style.
Variable lid : str.

Definition real_truthy (s : Z) : bool := Style.style_bool (sty_of s).
Definition real_esc (cs : Z) (lw : bool) (s : Z) (t : str) : str :=
  match Style.style_render (sty_of s) t (Color.ColorSystem_of_int cs) lw lid with
  | Ok x => x
  | _ => t
  end.

(* well-formed colours, link without ESC/BEL/ST, no stale _ansi memo (C03's D16 is repaired: the memo is
   keyed by the colour system, so a memo is what a fresh computation gives) *)
Hypothesis sty_wf : forall s, SpecAnsi.style_wf (sty_of s) = true.
Hypothesis sty_fresh : forall s, Style.s_ansi (sty_of s) = None.
Hypothesis lid_good : SpecAnsi.lid_ok lid = true.

Lemma real_codes s sys : exists a,
  Style.make_ansi_codes_memo (sty_of s) sys = Ok a /\ forallb TermSgrP.pchar a = true.
Proof.
  unfold Style.make_ansi_codes_memo. rewrite sty_fresh.
  rewrite (AnsiP.make_ansi_codes_spec (sty_of s) sys (sty_wf s)). eexists. split; [reflexivity|].
  rewrite AnsiP.str_join_join59. apply TermSgrP.pchar_join. apply AnsiP.nums_digits.
  apply AnsiP.style_nums_ok. apply sty_wf.
Qed.

(* the real Style.render is transparent to the scanner: the hypothesis esc_removable of props/C15.v *)
Theorem real_esc_transparent cs lw s t o :
  vrun VGround t = (VGround, o) -> vrun VGround (real_esc cs lw s t) = (VGround, o).
Proof.
  intros Ht. unfold real_esc, Style.style_render. destruct t as [|c t']; [exact Ht|].
  set (t := c :: t') in *.
  destruct (Color.ColorSystem_of_int cs) as [sys|]; [|exact Ht].
  destruct (real_codes s sys) as [a [Ea Pa]]. rewrite Ea. cbn [bind].
  pose proof (vrun_sgr_wrap a t o Pa Ht) as Hw.
  destruct (Style.s_link (sty_of s)) as [[|l0 link]|] eqn:El; try exact Hw.
  destruct lw; [exact Hw|].
  apply vrun_link_wrap; [apply lid_safe_ok; exact lid_good| |exact Hw].
  apply osc_safe_ok. pose proof (sty_wf s) as W. unfold SpecAnsi.style_wf in W. rewrite El in W.
  apply andb_true_iff in W. destruct W as [_ W]. exact W.
Qed.

(* ------------------------------------------------------------------ the styled export is C19's encoding *)
Definition run_of (g : sg) : SpecDecode.run := (txt g, option_map sty_of (sty g)).
Definition NLSEG : sg := mkSeg [NL] None false.
(* a record in line form: what print/log leave in the record -- each line's segments, then Segment("\n") *)
Definition rec_of_lines (t : list (list sg)) : list sg := concat (map (fun l => l ++ [NLSEG]) t).

Notation export_styled := (export_styled real_truthy real_esc).

Lemma styled_seg_encode g a : SpecDecode.encode_run lid (run_of g) = Ok a ->
  styled_seg real_truthy real_esc g = a.
Proof.
  unfold SpecDecode.encode_run, run_of, styled_seg, real_truthy, real_esc. cbn [fst snd].
  destruct (sty g) as [s|]; cbn [option_map]; [|intros H; inversion H; reflexivity].
  destruct (Style.style_bool (sty_of s)); [|intros H; inversion H; reflexivity].
  change (Color.ColorSystem_of_int CS_TRUECOLOR) with (Some Color.CS_TRUECOLOR). intros ->. reflexivity.
Qed.

Lemma export_styled_app a b : export_styled (a ++ b) = export_styled a ++ export_styled b.
Proof. unfold Record.export_styled. rewrite map_app, concat_app. reflexivity. Qed.

Lemma export_styled_line l : forall e, SpecDecode.encode_line lid (map run_of l) = Ok e -> export_styled l = e.
Proof.
  induction l as [|g l IH]; intros e H; [inversion H; reflexivity|]. cbn [map SpecDecode.encode_line] in H.
  destruct (SpecDecode.encode_run lid (run_of g)) as [a| |] eqn:Ea; try discriminate. cbn [bind] in H.
  destruct (SpecDecode.encode_line lid (map run_of l)) as [b| |] eqn:Eb; try discriminate. cbn [bind] in H.
  inversion H. subst e. change (export_styled (g :: l)) with (styled_seg real_truthy real_esc g ++ export_styled l).
  rewrite (styled_seg_encode g a Ea), (IH b eq_refl). reflexivity.
Qed.

Lemma export_styled_lines t : forall e,
  SpecDecode.encode_lines lid (map (map run_of) t) = Ok e -> export_styled (rec_of_lines t) = e.
Proof.
  induction t as [|l t IH]; intros e H; [inversion H; reflexivity|]. cbn [map SpecDecode.encode_lines] in H.
  destruct (SpecDecode.encode_line lid (map run_of l)) as [a| |] eqn:Ea; try discriminate. cbn [bind] in H.
  destruct (SpecDecode.encode_lines lid (map (map run_of) t)) as [b| |] eqn:Eb; try discriminate. cbn [bind] in H.
  inversion H. subst e. unfold rec_of_lines. cbn [map concat]. rewrite !export_styled_app.
  rewrite (export_styled_line l a Ea). change (export_styled [NLSEG]) with ([NL] ++ []).
  fold (rec_of_lines t). rewrite (IH b eq_refl). cbn [app]. rewrite <- app_assoc. reflexivity.
Qed.

(* rich's own AnsiDecoder (model of C19) applied to export_text(styles=True) of a record in line form
   without control segments: one decoded line per line, same characters with the same visible
   attributes / colours / link, decoder left clean *)
Theorem styled_export_decodes_real t e st :
  AnsiDecodeP7.lid_ok2 lid -> Forall (Forall AnsiDecodeP7.run_ok2) (map (map run_of) t) ->
  SpecDecode.encode_lines lid (map (map run_of) t) = Ok e -> AnsiDecodeP4.clean st None ->
  exists st' d, AnsiDecode.decode true st (export_styled (rec_of_lines t)) = (st', Ok d)
    /\ Forall2 (fun runs ps => SpecDecode.vchars ps = SpecDecode.vchars runs) (map (map run_of) t) d
    /\ AnsiDecodeP4.clean st' None.
Proof.
  intros HL HF He Hc. rewrite (export_styled_lines t e He).
  exact (AnsiDecodeP7.decode_encode_lines lid HL (map (map run_of) t) e st HF He Hc).
Qed.
End Real.
